# usage: VERIF_REPO=<tree> python3 gen/run_cases.py <core pid> <file with scenarios>: model / implementation / monitor output per case
import sys
sys.path.insert(0, '/verif/lib')
import framework, corecheck, vlib, subprocess
pid = sys.argv[1]
ctx = framework.Ctx(pid, 'quick', 1)
c = corecheck.ALL[pid]()
ok, out = c.build(ctx)
assert ok, out[-2000:]
cases = [l.rstrip("\n") for l in open(sys.argv[2]) if l.strip()]
st = c.correspond(ctx, cases)
print({k: (v if not isinstance(v, list) else len(v)) for k, v in st.items() if k not in ('mres', 'ires', 'mon')})
for x in (st['div'][:4] + st['monfail'][:4] + st['crashes'][:2]):
    print(' ', str(x)[:1500]); print('   case:', cases[x[0]][:400])

if len(sys.argv) > 3:
    i = int(sys.argv[3])
    print("IMPL:", st['ires'][i][0]); print("MODEL:", st['mres'][i][0])
ctx.cleanup()
