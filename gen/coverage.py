#!/usr/bin/env python3
"""Line/function coverage of /repo/src reached by the correspondence scenarios (gcov).
Not a check: a measurement of generator quality.  It answers "which library code do the scenarios that tie
the models to the implementation actually execute" and prints the functions never reached.
usage: python3 gen/coverage.py [quick|thorough] [seed]      (writes docs/COVERAGE.md)"""
import os, re, shutil, subprocess, sys, tempfile, json
sys.path.insert(0, os.path.join(os.path.dirname(os.path.abspath(__file__)), "..", "lib"))
import vlib, framework, runner, corecheck, c08, c10
try:
    import c12
except Exception:
    c12 = None

tier = sys.argv[1] if len(sys.argv) > 1 else "quick"
seed = int(sys.argv[2]) if len(sys.argv) > 2 else 1
UNCOV = {}
COV = ["--coverage", "-DVERIF_COVERAGE"]


def gcov_summary(d, tag):
    res = {}
    for s in vlib.LIB_SRCS:
        gcda = os.path.join(d, "lib_%s.gcda" % s)
        if not os.path.exists(gcda):
            continue
        out = subprocess.run(["gcov", "-f", "-b", "-o", d, os.path.join(d, "lib_%s.o" % s)], cwd=d, capture_output=True, text=True).stdout
        cur = None
        funcs = {}
        for line in out.splitlines():
            m = re.match(r"Function '([^']+)'", line)
            if m:
                cur = m.group(1)
                continue
            m = re.match(r"File '([^']+)'", line)
            if m:
                cur = "FILE:" + m.group(1)
                continue
            m = re.match(r"Lines executed:([\d.]+)% of (\d+)", line)
            if m and cur:
                funcs[cur] = (float(m.group(1)), int(m.group(2)))
                cur = None
        res[s] = funcs
        g = os.path.join(d, s + ".c.gcov")
        if os.path.exists(g):
            unc = {}
            for line in open(g, errors="replace"):
                m = re.match(r"\s*(#####|=====):\s*(\d+):(.*)", line)
                if m:
                    unc[int(m.group(2))] = m.group(3).rstrip()
            UNCOV.setdefault(s, []).append(unc)
    return res


def run(cls_list, harness, wraps, extra_srcs, tag):
    d = tempfile.mkdtemp(prefix="ivcov_", dir=os.environ.get("VERIF_SCRATCH", "/var/tmp"))
    ok, out = vlib.cc_build(d, "h", harness, vlib.LIB_SRCS, extra=COV, san=False, wraps=wraps, ldflags=["--coverage"])
    if not ok:
        print(out[-2000:]); shutil.rmtree(d); return {}
    n = 0
    for cls in cls_list:
        c = cls()
        ctx = framework.Ctx(c.pid, tier, seed)
        try:
            try:
                cases = c.cases(ctx)
            except AttributeError:
                # checks whose extra stages need a finished build (C18: TLS/LIST/CHURN pseudo-cases): scenario cases only
                cases = corecheck.CoreCheck.cases(c, ctx)
        finally:
            ctx.cleanup()
        # pseudo-cases of extra stages (CHURN / TLS / LIST / MSEL / STRESS) are not scenario lines
        cases = [x for x in cases if x[:1] == "B"]
        n += len(cases)
        runner.run_cases_sharded([os.path.join(d, "h")], cases, timeout=1200, env=dict(os.environ, GCOV_PREFIX_STRIP="0"))
    res = gcov_summary(d, tag)
    shutil.rmtree(d)
    return res, n


def merge(a, b):
    for s, fs in b.items():
        for f, (pct, nl) in fs.items():
            if s in a and f in a[s]:
                a[s][f] = (max(a[s][f][0], pct), nl)   # per-harness maxima (a lower bound of the union)
            else:
                a.setdefault(s, {})[f] = (pct, nl)
    return a


core, n1 = run(list(corecheck.ALL.values()), ["ivsim.c", "vk.c"], vlib.VK_WRAPS, [], "core")
mtc = [c08.C08, c10.C10, c10.C11, c10.C19] + ([c12.C12, c12.C13] if c12 and hasattr(c12, "C13") else [])
mt, n2 = run(mtc, c10.HARNESS_SRCS, vlib.MT_WRAPS, [], "mt")
tot = merge(json.loads(json.dumps(core)), mt)
lines = ["# Coverage of /repo/src by the correspondence scenarios (%s tier, seed %d)" % (tier, seed), "",
         "Measured by `gen/coverage.py` (gcov, uninstrumented by sanitizers): %d sequential scenarios (ivsim) and %d multi-threaded" % (n1, n2),
         "scenarios (ivmt).  The AVL, timer-heap, pump and inotify drivers are separate programs and not included (they drive",
         "one source file each, completely).  Per function the maximum over the two harnesses is shown.", "",
         "| source | lines | covered | functions never reached |", "|---|---|---|---|"]
for s in sorted(tot):
    fs = tot[s]
    filepct = [v for k, v in fs.items() if k.startswith("FILE:") and k.endswith(s + ".c")]
    never = sorted(k for k, v in fs.items() if not k.startswith("FILE:") and v[0] == 0.0)
    pct, nl = (filepct[0] if filepct else (0.0, 0))
    lines.append("| %s.c | %d | %.0f%% | %s |" % (s, nl, pct, ", ".join(never) or "—"))
lines += ["", "## Lines reached by neither harness (functions never reached are omitted)", "", "```"]
for s in sorted(UNCOV):
    sets = UNCOV[s]
    common = set(sets[0])
    for u in sets[1:]:
        common &= set(u)
    if len(sets) < 2:
        pass
    never_fn = tot.get(s, {})
    if not common or s in ("iv_fd_pump", "iv_inotify", "iv_work", "iv_thread_posix", "iv_fatal", "iv_tid_posix"):
        continue
    lines.append("-- %s.c" % s)
    for ln in sorted(common):
        lines.append("%5d:%s" % (ln, sets[0][ln]))
lines.append("```")
open(os.path.join(vlib.VERIF, "docs", "COVERAGE.md"), "w").write("\n".join(lines) + "\n")
print("\n".join(lines))
