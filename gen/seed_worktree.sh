#!/bin/bash
# usage: seed_worktree.sh NAME   -- scratch worktree /tmp/seed/NAME of /repo's HEAD, configured and built in-tree
# (autoreconf + configure + make + make check); used for the independently seeded breaking changes (DESIGN 9.4) and
# for hand-made mutations.  Remove it with: git -C /repo worktree remove --force /tmp/seed/NAME
n=$1
mkdir -p /tmp/seed
git -C /repo worktree add --detach /tmp/seed/$n HEAD >/dev/null 2>&1 || exit 1
cd /tmp/seed/$n && autoreconf -fi >/dev/null 2>&1 && ./configure >/dev/null 2>&1 && make -j4 >/dev/null 2>&1 && make check 2>&1 | grep -E "^# (PASS|FAIL)" | tr '\n' ' '
echo " $n ready"
