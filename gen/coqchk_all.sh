#!/bin/bash
# Re-checks every compiled Props/*.vo (and everything it depends on) with the independent checker coqchk and
# records the context summary (axioms, type-in-type, unsafe fixpoints, assumed positivity) in docs/COQCHK.txt.
# Not part of the per-change checks (a minute or more per module group); run once after the last proof change.
cd "$(dirname "$0")/../coq" || exit 1
mods=$(ls theories/Props/Properties_C*.v | sed 's#theories/Props/\(.*\)\.v#Ivv.Props.\1#')
mods="$mods Ivv.MT.WorkForeignPut"
out=../docs/COQCHK.txt
{ echo "coqchk -o -silent -Q theories Ivv <all Props modules>   ($(coqchk --version 2>/dev/null | head -1))"; echo "modules: $mods"; } > $out
timeout 7200 coqchk -o -silent -Q theories Ivv $mods >> $out 2>&1
echo "exit status: $?" >> $out
tail -20 $out
