#!/usr/bin/env python3
"""Writes /verif/MANIFEST.json from the table below (kept as code so that the
manifest stays consistent while checks are added)."""
import json, os
V = os.path.dirname(os.path.dirname(os.path.abspath(__file__)))
props = [json.loads(l) for l in open(os.path.join(V, "properties.jsonl"))]

CLAIMED = {
 "C16": dict(
   text="Proof (Coq): for every history of inserts/deletes from the empty tree, and for single steps from ANY balanced tree, the model of iv_avl.c keeps the AVL invariant (exact recorded heights, balance, strict order), implements the sorted-set semantics, rejects duplicates without change, traverses in order with next/prev, and has Fibonacci-bounded height. Tie: the hand model is run (extracted) against the real iv_avl.c on identical cases with full structural dumps after every operation; the Coq monitor also runs on the implementation dumps.",
   note="Trusted: Coq kernel, extraction+OCaml driver, avl_drv.c, ASan/UBSan; the pointer-level representation (parent pointers, uint8_t height) is modelled by zipper + stored heights, tied by per-op dump equality (exhaustive over all shapes of height <= 4 x all positions, random histories)",
   technique="Coq proof (invariant + refinement to sorted list) + extracted-model differential correspondence",
   ref="4 C16"),
 "C05": dict(
   text="Proof (Coq): on the model of iv_timer.c's heap-in-radix-tree, register/unregister of ANY victim keep the heap invariant (order, exact back indices, dense slots, minimal radix depth, all live indices addressable) at every population size with no bound (growth/shrink across 128, 16384, ... is the general case), change no other timer's membership or expiry (abstraction to a finite map), the expired batch is sorted and complete, handlers with arbitrary register/unregister scripts run in non-decreasing expiry order, and no history crashes or aborts. Tie: extracted model vs real iv_timer.c on identical histories, slot array walked through the real radix tree + every back index after every op, boundary ramps to 33000 timers.",
   note="Trusted: Coq kernel, extraction+OCaml driver, timer_drv.c (sets st->time, calls iv_run_timers directly), ASan/UBSan; radix tree modelled as partial map + depth (node allocation/union aliasing not modelled); expiries as Z ns",
   technique="Coq proof (heap invariant with one-suspect sift invariants, refinement to finite map) + extracted-model differential correspondence",
   ref="4 C05"),
 "C17": dict(
   text="Proof (Coq): for every history of init/pump/destroy calls over any number of pumps and EVERY oracle sequence of read/splice/write/FIONREAD answers (all chunkings, back-pressure, EOF offsets, error points, EINTR), in both transfer modes: written ++ buffered = consumed (no loss, duplication, reordering), shutdown only after EOF and drain and only with RELAY_EOF, return code -1/0/1 exactly as documented and 0 stays 0, the last set_bands of each call reflects the state (read/write mode: pin <-> not full /\\ no EOF with full <-> 4096 bytes buffered; splice mode: pout whenever full), buffer cache <= 20. Tie: real iv_fd_pump.c with linker-interposed read/write/splice/ioctl/shutdown answering from the same oracle script (splice data moved through the real internal pipe) vs extracted model; Coq monitor on implementation traces. Partial: in splice mode `pin <-> space remains` is refuted for oracle answers no consistent kernel gives (EAGAIN from splice with source data and pipe room): C17_splice_pin_iff_space_refuted; pumping again after -1 is outside the contract (C17_pump_after_error_unsafe).",
   note="Trusted: Coq kernel, extraction+OCaml driver, pump_drv.c interposition/splice emulation, ASan/UBSan; kernel side is an arbitrary oracle; pipe modelled by byte content with capacity 65536; cache list by its length; not modelled: iv_list surgery of the cache, grab_pipe/cloexec, builds without splice",
   technique="Coq proof (simulation model -> byte-relay specification, lifted to histories) + extracted-model differential correspondence",
   ref="4 C17"),
 "C20": dict(
   text="Proof (Coq): byte-level inotify record codec round-trips; for every read buffer (several events, with and without names) and every handler script, events are delivered in buffer order to the watch currently registered with that wd and to no other; IN_IGNORED / one-shot watches are out of the set before their handler runs; a handler may unregister itself, other watches or the instance: nothing unregistered earlier in the read is delivered to and the freed instance is never touched (no UseAfterFree/WildWrite outcome on any history); unregistering a fresh instance is safe (term initialised; regression of that fix is a modelled WildWrite). Tie: real iv_inotify.c with interposed inotify_init/add_watch/rm_watch/read, poisoned individually-freed structs under ASan, fd handler invoked directly vs extracted model; Coq monitor on implementation traces.",
   note="Trusted: Coq kernel, extraction+OCaml driver (its rc/dump checks around the Coq monitor are unproved), inotify_drv.c, ASan/UBSan; watch set modelled as sorted association list (AVL tree justified by C16); reads return whole records, len multiple of 4 (kernel pads to 16); scripts do not unregister a watch the library already dropped (API contract)",
   technique="Coq proof (codec round-trip + dispatch-loop invariant) + extracted-model differential correspondence",
   ref="4 C20"),
}
NA_REASON = "not claimed yet: the model/theorem/tie for this property is still being built (see DESIGN.md section 7 order of work)"

checks = []
na = []
for p in props:
    i = p["id"]
    if i in CLAIMED:
        c = CLAIMED[i]
        checks.append({
            "property_id": i,
            "quick_cmd": "./check %s --tier quick" % i,
            "thorough_cmd": "./check %s --tier thorough" % i,
            "evidence_file": "evidence/%s.json" % i,
            "replay_cmd_template": "./check %s --replay {path}" % i,
            "engine": "coq+correspondence",
            "level_claimed": {"category": "proof", "text": c["text"], "design_ref": c["ref"]},
            "level_note": c["note"],
            "technique": c["technique"],
        })
    else:
        na.append({"property_id": i, "reason": NA_REASON})
m = {
 "version": 1,
 "setup_cmd": "./setup.sh",
 "hooks": {"guard": "IVYKIS_VERIF", "enable": "checks compile /repo/src/*.c directly with -DIVYKIS_VERIF (no guarded source hooks exist; interposition is by the linker)",
           "baseline_off_cmd": "make -C /repo check", "source_commits": [], "add_only": True},
 "engines": [{"name": "coq+correspondence", "path": "check", "serves_properties": sorted(CLAIMED),
              "kind_free_text": "Coq 8.16 theorems about executable Gallina models; models extracted to OCaml and compared with the real C code on generated cases; Coq-extracted monitors on implementation traces"}],
 "checks": checks,
 "not_applicable": na,
 "notes": "see DESIGN.md",
}
json.dump(m, open(os.path.join(V, "MANIFEST.json"), "w"), indent=1)
print("claimed:", sorted(CLAIMED), "not_applicable:", len(na))
