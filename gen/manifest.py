#!/usr/bin/env python3
"""Writes /verif/MANIFEST.json from the table below (kept as code so that the
manifest stays consistent while checks are added)."""
import json, os
V = os.path.dirname(os.path.dirname(os.path.abspath(__file__)))
props = [json.loads(l) for l in open(os.path.join(V, "properties.jsonl"))]

CLAIMED = {
 "C16": dict(
   text="Proof (Coq): for every history of inserts/deletes from the empty tree, and for single steps from ANY balanced tree, the model of iv_avl.c keeps the AVL invariant (exact recorded heights, balance, strict order), implements the sorted-set semantics, rejects duplicates without change, traverses in order with next/prev, and has Fibonacci-bounded height. Tie: the hand model is run (extracted) against the real iv_avl.c on identical cases with full structural dumps after every operation; the Coq monitor also runs on the implementation dumps.",
   note="Trusted: Coq kernel, extraction+OCaml driver, avl_drv.c, ASan/UBSan; the pointer-level representation (parent pointers, uint8_t height) is modelled by zipper + stored heights, tied by per-op dump equality (exhaustive over all shapes of height <= 4 x all positions, random histories)",
   technique="Coq proof (invariant + refinement to sorted list) + extracted-model differential correspondence",
   ref="4 C16"),
 "C05": dict(
   text="Proof (Coq): on the model of iv_timer.c's heap-in-radix-tree, register/unregister of ANY victim keep the heap invariant (order, exact back indices, dense slots, minimal radix depth, all live indices addressable) at every population size with no bound (growth/shrink across 128, 16384, ... is the general case), change no other timer's membership or expiry (abstraction to a finite map), the expired batch is sorted and complete, handlers with arbitrary register/unregister scripts run in non-decreasing expiry order, and no history crashes or aborts. Tie: extracted model vs real iv_timer.c on identical histories, slot array walked through the real radix tree + every back index after every op, boundary ramps to 33000 timers.",
   note="Trusted: Coq kernel, extraction+OCaml driver, timer_drv.c (sets st->time, calls iv_run_timers directly), ASan/UBSan; radix tree modelled as partial map + depth (node allocation/union aliasing not modelled); expiries as Z ns",
   technique="Coq proof (heap invariant with one-suspect sift invariants, refinement to finite map) + extracted-model differential correspondence",
   ref="4 C05"),
 "C17": dict(
   text="Proof (Coq): for every history of init/pump/destroy calls over any number of pumps and EVERY oracle sequence of read/splice/write/FIONREAD answers (all chunkings, back-pressure, EOF offsets, error points, EINTR), in both transfer modes: written ++ buffered = consumed (no loss, duplication, reordering), shutdown only after EOF and drain and only with RELAY_EOF, return code -1/0/1 exactly as documented and 0 stays 0, the last set_bands of each call reflects the state (read/write mode: pin <-> not full /\\ no EOF with full <-> 4096 bytes buffered; splice mode: pout whenever full), buffer cache <= 20. Tie: real iv_fd_pump.c with linker-interposed read/write/splice/ioctl/shutdown answering from the same oracle script (splice data moved through the real internal pipe) vs extracted model; Coq monitor on implementation traces. Partial: in splice mode `pin <-> space remains` is refuted for oracle answers no consistent kernel gives (EAGAIN from splice with source data and pipe room): C17_splice_pin_iff_space_refuted; pumping again after -1 is outside the contract (C17_pump_after_error_unsafe).",
   note="Trusted: Coq kernel, extraction+OCaml driver, pump_drv.c interposition/splice emulation, ASan/UBSan; kernel side is an arbitrary oracle; pipe modelled by byte content with capacity 65536; cache list by its length; not modelled: iv_list surgery of the cache, grab_pipe/cloexec, builds without splice",
   technique="Coq proof (simulation model -> byte-relay specification, lifted to histories) + extracted-model differential correspondence",
   ref="4 C17"),
 "C20": dict(
   text="Proof (Coq): byte-level inotify record codec round-trips; for every read buffer (several events, with and without names) and every handler script, events are delivered in buffer order to the watch currently registered with that wd and to no other; IN_IGNORED / one-shot watches are out of the set before their handler runs; a handler may unregister itself, other watches or the instance: nothing unregistered earlier in the read is delivered to and the freed instance is never touched (no UseAfterFree/WildWrite outcome on any history); unregistering a fresh instance is safe (term initialised; regression of that fix is a modelled WildWrite). Tie: real iv_inotify.c with interposed inotify_init/add_watch/rm_watch/read, poisoned individually-freed structs under ASan, fd handler invoked directly vs extracted model; Coq monitor on implementation traces.",
   note="Trusted: Coq kernel, extraction+OCaml driver (its rc/dump checks around the Coq monitor are unproved), inotify_drv.c, ASan/UBSan; watch set modelled as sorted association list (AVL tree justified by C16); reads return whole records, len multiple of 4 (kernel pads to 16); scripts do not unregister a watch the library already dropped (API contract)",
   technique="Coq proof (codec round-trip + dispatch-loop invariant) + extracted-model differential correspondence",
   ref="4 C20"),
 "C08": dict(
   text="Proof (Coq): iv_event.c + the epoll kick / raw-event kick are modelled as a labelled transition system over per-thread program counters (poster: lock, critical section, unlock, kick; owner: wake, lock, steal, pop, unlock, handler, relock, re-check; register/unregister) with any number of threads, events and loops; for EVERY label sequence accepted from the initial state (= every program, every interleaving at every synchronisation and wake-up point, both transports): the wake-up invariant, no lost post (whenever the owner is blocked and posters are between operations nothing is pending or owed), handler starts <= posts begun, handlers only in the owner thread and never under the list mutex, lock exclusivity; the log monitor accepts every accepted sequence. Tie: the real library runs with real threads under the deterministic baton scheduler (seeded schedules biased to the critical windows) on the virtual kernel; the totally ordered log of lock/unlock/kick/wait/handler/API events must be ACCEPTED by the extracted model and pass the extracted monitor.",
   note="Trusted: Coq kernel, extraction, hand-written log->label parser (drops segments unrelated to the event protocol, listed in DESIGN), mt.c baton scheduler + vk.c (sequentially consistent interleavings switching only at interposed calls), ASan/UBSan; API misuse (post racing with unregistration of the SAME event) excluded by the model's step and by the generator",
   technique="Coq proof (invariants over all accepted label sequences of an interleaving model) + trace acceptance of real multi-threaded runs under a baton scheduler",
   ref="4 C08, 9.2"),
 "C01": dict(
   text="Proof (Coq): on the executable model of the whole sequential core (iv_main, iv_fd with the epoll/epoll-timerfd/ppoll/poll back ends, tasks, timers, iv_event owner paths, iv_event_raw) on the virtual kernel, for EVERY well-formed scenario (all handler scripts, all kernel behaviours, all four poll methods, all fault sets): every callback in the trace is for an object that is registered at that moment according to the log of API calls -- no descriptor/timer/task/event/raw-event handler runs after its unregister returned; timers and tasks are unregistered on entry (the tracker of Core/Monitors.v is proved to agree with the model's registration state: relation Rel). Tie: trace EQUALITY of the extracted model and the real library (ivsim on the virtual kernel) on generated scenarios x 4 poll methods x faults, every object individually allocated/poisoned/freed at the earliest allowed moment under ASan; Coq monitors (Monitors.v, GuardMon.v) run on the implementation traces, including the rule that no kernel interest entry survives an unregistration (1104) and that scripted re-registrations from one-shot handlers are executed (1101/1102). Partial: byte-level absence of stale accesses is observed (ASan), not proved; signal/wait/inotify objects are covered by C10/C11/C20.",
   note="Trusted: Coq kernel, extraction + OCaml scenario parser/trace printer/trace parser, the hand transcription of the C text into Core/*.v (tied by trace equality on every run), vk.c/Kernel.v virtual kernel (probed against Linux by harness/vk_smoke.c), ivsim.c, ASan/UBSan",
   technique="Coq proof (simulation between model state and trace tracker, invariants over the whole interpreter) + extracted-model trace-equality correspondence + extracted monitors on implementation traces",
   ref="4 C01, 9.2"),
 "C10": dict(
   text="Proof (Coq): iv_signal.c as a labelled transition system (process-wide and per-thread ordered interest sets, total counters, dispositions, owner pid, per-interest active flag and raw event; steps register, unregister with hand-off, deliver(sig, thread) under sig_lock, event, fork); for every accepted sequence: fan-out selection (this-thread set of the receiving thread first, first exclusive only else all, else the same among process-wide ones), every marked interest's handler runs unless unregistered, re-marking during a handler, exclusive hand-off at any scope (after the fix 47c5218; the pre-fix step is kept and shown to drop the delivery), SIG_DFL iff no interest, fork isolation. Tie: real iv_signal.c with virtual signals (interposed sigaction/pthread_sigmask, delivery at yield points of the chosen thread under the baton scheduler) -- the log must be accepted by the extracted model and pass the extracted full-strength monitor.",
   note="Trusted: Coq kernel, extraction, log parser, mt.c virtual signals/processes and baton scheduler, vk.c; AVL sets modelled as sorted lists (C16); registration in a forked child is modelled but not exercised (virtual fork shares memory)",
   technique="Coq proof (invariants over accepted label sequences) + trace acceptance under a baton scheduler with virtual signals",
   ref="4 C10, 9.2"),
 "C11": dict(
   text="Proof (Coq): iv_wait.c as a labelled transition system (pid-ordered global set, per-interest queue and DEAD flag, kernel children with scripted status changes and an oracle order for wait4, spawn = fork + insert under the lock, reap loop under the lock, completion, kill helper); for every accepted sequence: statuses are delivered to the interest of their pid in reap order in the registering thread, the terminal status once and nothing after it, a spawned child cannot be missed, children without interest are reaped harmlessly (the pre-fix NULL dereference, fixed in 8600429, is a modelled Crash outcome shown unreachable), the kill helper never signals a reaped pid. Tie: real iv_wait.c on virtual processes (interposed fork/wait4/kill) under the baton scheduler; log acceptance + extracted monitor.",
   note="Trusted: as C10; which thread reaps is an oracle; 'nothing lost' is decided at quiescence",
   technique="Coq proof (invariants over accepted label sequences) + trace acceptance under a baton scheduler with virtual processes",
   ref="4 C11, 9.2"),
 "C19": dict(
   text="Proof (Coq): iv_popen.c on top of the wait model and virtual time, for every oracle of child behaviour (exits at once / on the first SIGTERM / ignores SIGTERM / exits between two signals, stop/continue noise) and every timing of close: after close the signals sent are SIGTERM at +0,+5,... (five) then SIGKILL every 5 s until the termination is reaped, never after it; record, wait interest and timer are released exactly once so the loop can exit; the returned descriptor is the right pipe end (child-side dup2/execvp wiring: transcription lemma). Tie: real iv_popen.c + iv_wait.c on virtual processes and virtual clock (log acceptance + monitor), plus a REAL fork/exec smoke run on the real kernel (harness/popen_smoke.c: data through the descriptor both ways, /dev/null on the other standard streams, no zombie, loop exits).",
   note="Trusted: as C11; 'ended' = 'termination reaped' (a signal to an unreaped zombie cannot be excluded by a user-space library); the child side of fork is exercised only by the smoke run",
   technique="Coq proof (all child-behaviour oracles) + trace acceptance with virtual processes/time + real fork/exec smoke test",
   ref="4 C19, 9.2"),
 "C02": dict(
   text='Proved so far (Coq, all well-formed scenarios = all programs, kernel behaviours, poll methods, fault sets): handlers are always called through the pointer currently set (clause 301); the epoll/poll event masks and the wanted-band computation of the model are proved equal to the C functions as re-translated from the current source on every run (Gen/Leaf.v + Base/LeafLink.v). The full statement mon_C02 (kernel interest = bands with handlers at every wait; no sleeping on a wanted ready descriptor; reported => dispatched; clauses 201-204 and the no-stale-kernel-entry rule 1104) is stated in Properties_C02.v.draft and is being proved (Core/CorePhase2Fd); until then those clauses are decided on every run by the extracted monitor on model and implementation traces. Tie (every run): trace EQUALITY of the extracted core model and the real library (ivsim on the virtual kernel) on generated scenarios x 4 poll methods x faults under ASan/UBSan, and the extracted Coq monitors (Core/Monitors.v, Core/GuardMon.v) on the IMPLEMENTATION traces for ALL clauses of the property (proved or not).',
   note='Trusted: Coq kernel, extraction + OCaml scenario parser/trace printer/trace parser, the hand transcription of the C text into Core/*.v (tied by trace equality on every run), vk.c/Kernel.v virtual kernel (probed against Linux by harness/vk_smoke.c), ivsim.c, ASan/UBSan; the leaf translator gen/c2gallina.py + clang AST where Gen/Leaf.v is used',
   technique='Coq proof on the executable core model (tracker/state simulation) + regenerated leaf functions + extracted-model trace-equality correspondence + extracted monitors on implementation traces',
   ref='4 C02, 9.2'),
 "C03": dict(
   text="Proved so far: every descriptor callback is for a registered descriptor (101), through the handler currently set for that band (301), with the descriptor's current cookie (302), for all well-formed scenarios. Still monitor-only (proof in progress, Core/CorePhase2Fd): the band's condition held at the preceding kernel poll (303), at most once per iteration (304). Tie (every run): trace EQUALITY of the extracted core model and the real library (ivsim on the virtual kernel) on generated scenarios x 4 poll methods x faults under ASan/UBSan, and the extracted Coq monitors (Core/Monitors.v, Core/GuardMon.v) on the IMPLEMENTATION traces for ALL clauses of the property (proved or not).",
   note='Trusted: Coq kernel, extraction + OCaml scenario parser/trace printer/trace parser, the hand transcription of the C text into Core/*.v (tied by trace equality on every run), vk.c/Kernel.v virtual kernel (probed against Linux by harness/vk_smoke.c), ivsim.c, ASan/UBSan; the leaf translator gen/c2gallina.py + clang AST where Gen/Leaf.v is used',
   technique='Coq proof on the executable core model (tracker/state simulation) + regenerated leaf functions + extracted-model trace-equality correspondence + extracted monitors on implementation traces',
   ref='4 C03, 9.2'),
 "C04": dict(
   text='Proved so far: a timer fires at most once per registration (102); the loop clock shown to handlers never runs ahead of the true clock (406) and never backwards across waits (407); timespec_gt / to_relative / to_msec / timespec_cmp of the model equal the C functions re-translated from the current source on every run, and to_msec never under-estimates and rounds up by less than 1 ms. Still monitor-only (proof in progress, Core/CorePhase2Time): never early (401), no timer due while sleeping (403), oversleep bound (404), never blocked for ever with a timer registered (405). Tie (every run): trace EQUALITY of the extracted core model and the real library (ivsim on the virtual kernel) on generated scenarios x 4 poll methods x faults under ASan/UBSan, and the extracted Coq monitors (Core/Monitors.v, Core/GuardMon.v) on the IMPLEMENTATION traces for ALL clauses of the property (proved or not).',
   note='Trusted: Coq kernel, extraction + OCaml scenario parser/trace printer/trace parser, the hand transcription of the C text into Core/*.v (tied by trace equality on every run), vk.c/Kernel.v virtual kernel (probed against Linux by harness/vk_smoke.c), ivsim.c, ASan/UBSan; the leaf translator gen/c2gallina.py + clang AST where Gen/Leaf.v is used',
   technique='Coq proof on the executable core model (tracker/state simulation) + regenerated leaf functions + extracted-model trace-equality correspondence + extracted monitors on implementation traces',
   ref='4 C04, 9.2'),
 "C06": dict(
   text='Proved so far: a task callback is only for a registered task and unregisters it (103: at most once per registration). Still monitor-only (proof in progress): no sleeping/hanging with a task registered (602/604), deferred re-run (603), scripted re-registration from the handler executed (1101/1102). Tie (every run): trace EQUALITY of the extracted core model and the real library (ivsim on the virtual kernel) on generated scenarios x 4 poll methods x faults under ASan/UBSan, and the extracted Coq monitors (Core/Monitors.v, Core/GuardMon.v) on the IMPLEMENTATION traces for ALL clauses of the property (proved or not).',
   note='Trusted: Coq kernel, extraction + OCaml scenario parser/trace printer/trace parser, the hand transcription of the C text into Core/*.v (tied by trace equality on every run), vk.c/Kernel.v virtual kernel (probed against Linux by harness/vk_smoke.c), ivsim.c, ASan/UBSan; the leaf translator gen/c2gallina.py + clang AST where Gen/Leaf.v is used',
   technique='Coq proof on the executable core model (tracker/state simulation) + regenerated leaf functions + extracted-model trace-equality correspondence + extracted monitors on implementation traces',
   ref='4 C06, 9.2'),
 "C07": dict(
   text='Proved so far: callbacks only inside iv_main (709), quit flag consistent at return (703), no wait after iv_quit (704). Still monitor-only (proofs in progress, Core/CorePhase2Acct: 701/702/706 already done there): returns only when quit or nothing registered, accounting balance, progress (707), no sleeping with an undelivered self-post (708/710), no busy polling (711/1103). Tie (every run): trace EQUALITY of the extracted core model and the real library (ivsim on the virtual kernel) on generated scenarios x 4 poll methods x faults under ASan/UBSan, and the extracted Coq monitors (Core/Monitors.v, Core/GuardMon.v) on the IMPLEMENTATION traces for ALL clauses of the property (proved or not).',
   note='Trusted: Coq kernel, extraction + OCaml scenario parser/trace printer/trace parser, the hand transcription of the C text into Core/*.v (tied by trace equality on every run), vk.c/Kernel.v virtual kernel (probed against Linux by harness/vk_smoke.c), ivsim.c, ASan/UBSan; the leaf translator gen/c2gallina.py + clang AST where Gen/Leaf.v is used',
   technique='Coq proof on the executable core model (tracker/state simulation) + regenerated leaf functions + extracted-model trace-equality correspondence + extracted monitors on implementation traces',
   ref='4 C07, 9.2'),
 "C09": dict(
   text="Owner-thread view. Proved so far: a raw-event callback is only for a registered object (105). Still monitor-only (proof in progress): the loop never sleeps or hangs while a post made after the last handler entry is undelivered (901/902), on eventfd2, old eventfd and the pipe fall-back, including bursts beyond 1024 and 65536 posts. Cross-thread delivery of the raw kick is covered by C08's acceptor model. Tie (every run): trace EQUALITY of the extracted core model and the real library (ivsim on the virtual kernel) on generated scenarios x 4 poll methods x faults under ASan/UBSan, and the extracted Coq monitors (Core/Monitors.v, Core/GuardMon.v) on the IMPLEMENTATION traces for ALL clauses of the property (proved or not).",
   note='Trusted: Coq kernel, extraction + OCaml scenario parser/trace printer/trace parser, the hand transcription of the C text into Core/*.v (tied by trace equality on every run), vk.c/Kernel.v virtual kernel (probed against Linux by harness/vk_smoke.c), ivsim.c, ASan/UBSan; the leaf translator gen/c2gallina.py + clang AST where Gen/Leaf.v is used',
   technique='Coq proof on the executable core model (tracker/state simulation) + regenerated leaf functions + extracted-model trace-equality correspondence + extracted monitors on implementation traces',
   ref='4 C09, 9.2'),
 "C15": dict(
   text='wf_scenario quantifies over the poll method and the fault set, so every proved clause of C01-C09/C18 holds for every method and every fault sequence (C15_all_methods_*); across an interrupted wait time does not run backwards (1502). Implementation side: the same programs on 4 methods with EINTR at the k-th wait / epoll_ctl and each optional system call missing, groups of order-independent programs whose callback sequences must be identical on all four methods, and a probe program that compares the virtual kernel with the real Linux kernel (harness/vk_smoke.c). Tie (every run): trace EQUALITY of the extracted core model and the real library (ivsim on the virtual kernel) on generated scenarios x 4 poll methods x faults under ASan/UBSan, and the extracted Coq monitors (Core/Monitors.v, Core/GuardMon.v) on the IMPLEMENTATION traces for ALL clauses of the property (proved or not).',
   note='Trusted: Coq kernel, extraction + OCaml scenario parser/trace printer/trace parser, the hand transcription of the C text into Core/*.v (tied by trace equality on every run), vk.c/Kernel.v virtual kernel (probed against Linux by harness/vk_smoke.c), ivsim.c, ASan/UBSan; the leaf translator gen/c2gallina.py + clang AST where Gen/Leaf.v is used',
   technique='Coq proof on the executable core model (tracker/state simulation) + regenerated leaf functions + extracted-model trace-equality correspondence + extracted monitors on implementation traces',
   ref='4 C15, 9.2'),
 "C18": dict(
   text='Proved so far: the model only ever calls into objects that are registered (101-105). Still monitor/sanitizer-only (proofs in progress: core_no_crash in Core/CoreInv, 1802/706 in Core/CorePhase2Acct): no out-of-bounds / NULL-slot access and no abort, descriptor balance after iv_deinit, accounting balance after tear-down; byte-level memory safety and leaks are observed by ASan/UBSan/LSan on individually allocated, poisoned, early-freed objects, not proved. Tie (every run): trace EQUALITY of the extracted core model and the real library (ivsim on the virtual kernel) on generated scenarios x 4 poll methods x faults under ASan/UBSan, and the extracted Coq monitors (Core/Monitors.v, Core/GuardMon.v) on the IMPLEMENTATION traces for ALL clauses of the property (proved or not).',
   note='Trusted: Coq kernel, extraction + OCaml scenario parser/trace printer/trace parser, the hand transcription of the C text into Core/*.v (tied by trace equality on every run), vk.c/Kernel.v virtual kernel (probed against Linux by harness/vk_smoke.c), ivsim.c, ASan/UBSan; the leaf translator gen/c2gallina.py + clang AST where Gen/Leaf.v is used',
   technique='Coq proof on the executable core model (tracker/state simulation) + regenerated leaf functions + extracted-model trace-equality correspondence + extracted monitors on implementation traces',
   ref='4 C18, 9.2'),
}
NA_REASON = "not claimed yet: the model/theorem/tie for this property is still being built (see DESIGN.md section 7 order of work)"

checks = []
na = []
for p in props:
    i = p["id"]
    if i in CLAIMED:
        c = CLAIMED[i]
        checks.append({
            "property_id": i,
            "quick_cmd": "./check %s --tier quick" % i,
            "thorough_cmd": "./check %s --tier thorough" % i,
            "evidence_file": "evidence/%s.json" % i,
            "replay_cmd_template": "./check %s --replay {path}" % i,
            "engine": "coq+correspondence",
            "level_claimed": {"category": "proof", "text": c["text"], "design_ref": c["ref"]},
            "level_note": c["note"],
            "technique": c["technique"],
        })
    else:
        na.append({"property_id": i, "reason": NA_REASON})
m = {
 "version": 1,
 "setup_cmd": "./setup.sh",
 "hooks": {"guard": "IVYKIS_VERIF", "enable": "checks compile /repo/src/*.c directly with -DIVYKIS_VERIF (no guarded source hooks exist; interposition is by the linker)",
           "baseline_off_cmd": "make -C /repo check", "source_commits": [], "add_only": True},
 "engines": [{"name": "coq+correspondence", "path": "check", "serves_properties": sorted(CLAIMED),
              "kind_free_text": "Coq 8.16 theorems about executable Gallina models; models extracted to OCaml and compared with the real C code on generated cases; Coq-extracted monitors on implementation traces"}],
 "checks": checks,
 "not_applicable": na,
 "notes": "see DESIGN.md",
}
json.dump(m, open(os.path.join(V, "MANIFEST.json"), "w"), indent=1)
print("claimed:", sorted(CLAIMED), "not_applicable:", len(na))
