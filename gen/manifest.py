#!/usr/bin/env python3
"""Writes /verif/MANIFEST.json from the table below (kept as code so that the
manifest stays consistent while checks are added)."""
import json, os
V = os.path.dirname(os.path.dirname(os.path.abspath(__file__)))
props = [json.loads(l) for l in open(os.path.join(V, "properties.jsonl"))]

CLAIMED = {
 "C16": dict(
   text="Proof (Coq): for every history of inserts/deletes from the empty tree, and for single steps from ANY balanced tree, the model of iv_avl.c keeps the AVL invariant (exact recorded heights, balance, strict order), implements the sorted-set semantics, rejects duplicates without change, traverses in order with next/prev, and has Fibonacci-bounded height. Tie: the hand model is run (extracted) against the real iv_avl.c on identical cases with full structural dumps after every operation; the Coq monitor also runs on the implementation dumps.",
   note="Trusted: Coq kernel, extraction+OCaml driver, avl_drv.c, ASan/UBSan; the pointer-level representation (parent pointers, uint8_t height) is modelled by zipper + stored heights, tied by per-op dump equality (exhaustive over all shapes of height <= 4 x all positions, random histories)",
   technique="Coq proof (invariant + refinement to sorted list) + extracted-model differential correspondence",
   ref="4 C16"),
 "C05": dict(
   text="Proof (Coq): on the model of iv_timer.c's heap-in-radix-tree, register/unregister of ANY victim keep the heap invariant (order, exact back indices, dense slots, minimal radix depth, all live indices addressable) at every population size with no bound (growth/shrink across 128, 16384, ... is the general case), change no other timer's membership or expiry (abstraction to a finite map), the expired batch is sorted and complete, handlers with arbitrary register/unregister scripts run in non-decreasing expiry order, and no history crashes or aborts. Tie: extracted model vs real iv_timer.c on identical histories, slot array walked through the real radix tree + every back index after every op, boundary ramps to 33000 timers.",
   note="Trusted: Coq kernel, extraction+OCaml driver, timer_drv.c (sets st->time, calls iv_run_timers directly), ASan/UBSan; radix tree modelled as partial map + depth (node allocation/union aliasing not modelled); expiries as Z ns",
   technique="Coq proof (heap invariant with one-suspect sift invariants, refinement to finite map) + extracted-model differential correspondence",
   ref="4 C05"),
}
NA_REASON = "not claimed yet: the model/theorem/tie for this property is still being built (see DESIGN.md section 7 order of work)"

checks = []
na = []
for p in props:
    i = p["id"]
    if i in CLAIMED:
        c = CLAIMED[i]
        checks.append({
            "property_id": i,
            "quick_cmd": "./check %s --tier quick" % i,
            "thorough_cmd": "./check %s --tier thorough" % i,
            "evidence_file": "evidence/%s.json" % i,
            "replay_cmd_template": "./check %s --replay {path}" % i,
            "engine": "coq+correspondence",
            "level_claimed": {"category": "proof", "text": c["text"], "design_ref": c["ref"]},
            "level_note": c["note"],
            "technique": c["technique"],
        })
    else:
        na.append({"property_id": i, "reason": NA_REASON})
m = {
 "version": 1,
 "setup_cmd": "./setup.sh",
 "hooks": {"guard": "IVYKIS_VERIF", "enable": "checks compile /repo/src/*.c directly with -DIVYKIS_VERIF (no guarded source hooks exist; interposition is by the linker)",
           "baseline_off_cmd": "make -C /repo check", "source_commits": [], "add_only": True},
 "engines": [{"name": "coq+correspondence", "path": "check", "serves_properties": sorted(CLAIMED),
              "kind_free_text": "Coq 8.16 theorems about executable Gallina models; models extracted to OCaml and compared with the real C code on generated cases; Coq-extracted monitors on implementation traces"}],
 "checks": checks,
 "not_applicable": na,
 "notes": "see DESIGN.md",
}
json.dump(m, open(os.path.join(V, "MANIFEST.json"), "w"), indent=1)
print("claimed:", sorted(CLAIMED), "not_applicable:", len(na))
