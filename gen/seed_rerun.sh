#!/bin/bash
# usage: seed_rerun.sh <seed id> <check id> ...   -- re-applies seeded/<id>/patch.diff in a fresh scratch worktree
# and runs the given checks against it (VERIF_REPO); the worktree is removed afterwards
id="$1"; shift
wt=/tmp/seedrun_$id
git -C /repo worktree add -q --detach $wt HEAD || exit 1
rsync -a --exclude .git --exclude '*.o' --exclude '*.lo' --exclude '.libs' --exclude '*.la' /repo/ $wt/
( cd $wt && git checkout -q -- . && git apply /verif/seeded/$id/patch.diff ) || { echo "patch does not apply"; git -C /repo worktree remove --force $wt; exit 1; }
cd /verif
for c in "$@"; do
  o=$(VERIF_REPO=$wt timeout 2400 ./check $c --tier quick 2>&1 | grep -E "VIOLATION|KNOWN|tier=" | tr '\n' ' ')
  echo "$id -> $c: $o"
done
python3 gen/c2gallina.py >/dev/null 2>&1
git -C /repo worktree remove --force $wt
