#!/bin/bash
# usage: seed_eval.sh <seed-dir-name> <check id> [<check id> ...]
# confirms a seeded change in its scratch worktree (/tmp/seed/<name>) and runs the given checks against it
name="$1"; shift
wt=/tmp/seed/$name
out=/verif/seeded/$name
mkdir -p $out
cd $wt || exit 1
if [ -f seed_patch.diff ]; then git checkout -- src; git apply seed_patch.diff; fi
git diff -- src > $out/patch.diff
cp seed_demo.c $out/demo.c 2>/dev/null
cp seed_notes.md $out/notes.md 2>/dev/null
echo "== patch: $(wc -l < $out/patch.diff) lines"
build_demo() { gcc -Wall -I src/include -I. seed_demo.c src/.libs/libivykis.a -lpthread -o seed_demo 2>&1 | tail -2; }
make -j8 >/dev/null 2>&1
mc_with=$(make check 2>&1 | grep -E "^# (PASS|FAIL)" | tr '\n' ' ')
build_demo; timeout 60 ./seed_demo >/dev/null 2>&1; rc_with=$?
git diff -- src > /tmp/seed/$name.cur.diff; git checkout -- src; make -j8 >/dev/null 2>&1
build_demo; timeout 60 ./seed_demo >/dev/null 2>&1; rc_without=$?
git apply /tmp/seed/$name.cur.diff; rm -f /tmp/seed/$name.cur.diff; make -j8 >/dev/null 2>&1
echo "== make check with change: $mc_with | demo rc with change: $rc_with, without: $rc_without"
cd /verif
res=""
for c in "$@"; do
  o=$(VERIF_REPO=$wt timeout 1800 ./check $c --tier quick 2>&1 | grep -E "VIOLATION|KNOWN|tier=" | tr '\n' ' ')
  echo "== $c: $o"
  res="$res $c: $o;"
done
python3 gen/c2gallina.py >/dev/null 2>&1
python3 - "$name" "$mc_with" "$rc_with" "$rc_without" "$res" "$@" <<'PY'
import json,sys
name,mc,rcw,rcwo,res=sys.argv[1:6]; checks=sys.argv[6:]
m={"breaks_property":name.split('_')[0],"needs_to_manifest":"see notes.md","confirmed":{"make_check_with_change":mc,"demo_rc_with_change":int(rcw),"demo_rc_without_change":int(rcwo)},
   "what_was_run":["cd /tmp/seed/%s && make && make check && ./seed_demo (with change), git stash, rebuild, ./seed_demo (without)"%name]+["VERIF_REPO=/tmp/seed/%s ./check %s --tier quick"%(name,c) for c in checks],
   "check_results":res.strip()}
json.dump(m,open('/verif/seeded/%s/meta.json'%name,'w'),indent=1)
PY
