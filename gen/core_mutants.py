#!/usr/bin/env python3
"""Hand-made breaking changes of the core loop (DESIGN.md 'should catch' lines) and which
core checks (correspondence + Coq monitors, proofs not involved) notice them.
usage: core_mutants.py [name ...]   -- runs in scratch copies under /tmp, never touches /repo"""
import os, shutil, subprocess, sys, json

M = [
 # name, file, old, new, properties expected to notice
 ("fd_unreg_keep_active", "iv_fd.c", "\tiv_list_del(&fd->list_active);\n\n\tnotify_fd", "\tnotify_fd", ["C01", "C03"]),
 ("dispatch_no_handled_check", "iv_fd.c", "if (st->handled_fd != NULL && fd->ready_bands & MASKIN)", "if (fd->ready_bands & MASKIN)", ["C01", "C03"]),
 ("timer_index_after_handler", "iv_timer.c", "\t\tiv_list_del(&t->list_expired);\n\t\tt->index = -1;\n\n\t\tt->handler(t->cookie);", "\t\tiv_list_del(&t->list_expired);\n\n\t\tt->handler(t->cookie);\n\t\tt->index = -1;", ["C01", "C04"]),
 ("make_ready_no_reset", "iv_fd.c", "\t\tfd->ready_bands = 0;\n\t\tiv_list_add_tail(&fd->list_active, active);", "\t\tiv_list_add_tail(&fd->list_active, active);", ["C03"]),
 ("poll_mask_no_hup", "iv_fd_poll.c", "\tif (bits & MASKERR)\n\t\tmask |= POLLHUP;", "\tif (bits & MASKERR)\n\t\tmask |= 0;", ["C02"]),
 ("epoll_swap_in_out", "iv_fd_epoll.c", "\tif (bits & MASKIN)\n\t\tmask |= EPOLLIN;\n\tif (bits & MASKOUT)\n\t\tmask |= EPOLLOUT;", "\tif (bits & MASKIN)\n\t\tmask |= EPOLLOUT;\n\tif (bits & MASKOUT)\n\t\tmask |= EPOLLIN;", ["C02", "C03"]),
 ("epoll_regbands_before_ctl", "iv_fd_epoll.c", "\tif (ret == 0)\n\t\tfd->registered_bands = fd->wanted_bands;\n\n\treturn ret;", "\tfd->registered_bands = fd->wanted_bands;\n\n\treturn ret;", ["C02", "C07"]),
 ("epoll_no_flush_before_wait", "iv_fd_epoll.c", "\tint i;\n\n\tiv_fd_epoll_flush_pending(st);\n\n\tret = iv_fd_epoll_wait(st, batch, ARRAY_SIZE(batch), abs);\n\n\t__iv_invalidate_now(st);\n\n\tif (ret < 0) {\n\t\tif (errno == EINTR)\n\t\t\treturn 1;", "\tint i;\n\n\tret = iv_fd_epoll_wait(st, batch, ARRAY_SIZE(batch), abs);\n\n\t__iv_invalidate_now(st);\n\n\tif (ret < 0) {\n\t\tif (errno == EINTR)\n\t\t\treturn 1;", ["C02"]),
 ("epoll_notify_no_readd", "iv_fd_epoll.c", "\tif (fd->registered_bands != fd->wanted_bands)\n\t\tiv_list_add_tail(&fd->list_notify, &st->u.epoll.notify);", "\tif (fd->registered_bands != fd->wanted_bands && iv_list_empty(&st->u.epoll.notify))\n\t\tiv_list_add_tail(&fd->list_notify, &st->u.epoll.notify);", ["C02"]),
 ("epoll_unreg_no_sync_flush", "iv_fd_epoll.c", "\tif (!iv_list_empty(&fd->list_notify))\n\t\tiv_fd_epoll_flush_one(st, fd);", "\tiv_list_del_init(&fd->list_notify);", ["C01", "C02"]),
 ("timer_never_early_ge", "iv_timer.c", "\t\tif (timespec_gt(&t->expires, &st->time))\n\t\t\tbreak;", "\t\tif (timespec_gt(&t->expires, &st->time) && t->expires.tv_nsec != st->time.tv_nsec + 1000)\n\t\t\tbreak;", ["C04"]),
 ("to_msec_round_down", "iv_private.h", "((rel.tv_nsec + 999999) / 1000000)", "(rel.tv_nsec / 1000000)", ["C04"]),
 ("no_invalidate_after_wait_epoll", "iv_fd_epoll.c", "\tret = iv_fd_epoll_wait(st, batch, ARRAY_SIZE(batch), abs);\n\n\t__iv_invalidate_now(st);\n\n\tif (ret < 0) {\n\t\tif (errno == EINTR)\n\t\t\treturn run_timers;", "\tret = iv_fd_epoll_wait(st, batch, ARRAY_SIZE(batch), abs);\n\n\tif (ret < 0) {\n\t\tif (errno == EINTR)\n\t\t\treturn run_timers;", ["C04"]),
 ("timeout_check_threshold", "iv_fd.c", "\tif (st->last_abs_count == 5) {\n\t\tif (cmp >= 0)\n\t\t\treturn 1;", "\tif (st->last_abs_count == 5) {\n\t\tif (cmp != 0 || 1)\n\t\t\treturn 1;", ["C04"]),
 ("timeout_check_no_clear", "iv_fd.c", "\t\tmethod->clear_poll_timeout(st);\n\t}", "\t}", ["C04"]),
 ("eintr_no_run_timers", "iv_fd_epoll.c", "\t\tif (errno == EINTR)\n\t\t\treturn run_timers;", "\t\tif (errno == EINTR)\n\t\t\treturn 0;", ["C04", "C15"]),
 ("task_always_current", "iv_task.c", "\tif (st->tasks_current == NULL || t->epoch == st->task_epoch)", "\tif (st->tasks_current == NULL)", ["C06"]),
 ("task_epoch_after_handler", "iv_task.c", "\t\tt->epoch = epoch;\n\t\tt->handler(t->cookie);", "\t\tt->handler(t->cookie);\n\t\tt->epoch = epoch;", ["C06", "C01"]),
 ("task_no_numobjs_dec", "iv_task.c", "\t\tiv_list_del_init(&t->list);\n\n\t\tst->numobjs--;", "\t\tiv_list_del_init(&t->list);\n", ["C07", "C18"]),
 ("main_nonzero_timeout_with_tasks", "iv_main_posix.c", "\t\t\t_abs.tv_sec = 0;\n\t\t\t_abs.tv_nsec = 0;\n\t\t\tabs = &_abs;", "\t\t\tabs = iv_get_soonest_timeout(st);", ["C06", "C07"]),
 ("main_exit_before_tasks", "iv_main_posix.c", "\t\tiv_run_tasks(st);\n\n\t\tif (st->quit || !st->numobjs)\n\t\t\tbreak;", "\t\tif (st->quit || !st->numobjs)\n\t\t\tbreak;\n\n\t\tiv_run_tasks(st);", ["C07", "C06"]),
 ("main_quit_not_reset", "iv_main_posix.c", "\tst->quit = 0;\n\n\trun_timers = 1;", "\trun_timers = 1;", ["C07"]),
 ("event_runner_no_recheck", "iv_event.c", "\t\tif (iv_list_empty(&events)) {\n\t\t\t___mutex_unlock(&st->event_list_mutex);\n\t\t\tbreak;\n\t\t}", "", ["C01"]),
 ("event_post_no_local_task", "iv_event.c", "\t\t\tif (!iv_task_registered(&me->events_local))\n\t\t\t\tiv_task_register(&me->events_local);", "\t\t\tif (!iv_task_registered(&me->events_local) && me->numobjs > 3)\n\t\t\t\tiv_task_register(&me->events_local);", ["C07"]),
 ("raw_read_after_handler", "iv_event_raw_posix.c", ["\tdo {\n\t\tret = read(this->event_rfd.fd, buf, toread);\n\t} while (ret < 0 && errno == EINTR);\n\n\tif (ret <= 0) {", "\t\treturn;\n\t}\n\n\tthis->handler(this->cookie);\n}"], ["\tthis->handler(this->cookie);\n\tdo {\n\t\tret = read(this->event_rfd.fd, buf, toread);\n\t} while (ret < 0 && errno == EINTR);\n\n\tif (ret <= 0) {", "\t\treturn;\n\t}\n}"], ["C09"]),
 ("register_no_ready_reset", "iv_fd.c", "\tfd->ready_bands = 0;\n\tfd->registered_bands = 0;", "\tfd->registered_bands = 0;", ["C03"]),
 ("poll_swap_no_index", "iv_fd_poll.c", "\t\t\tlast->u.index = fd->u.index;\n", "", ["C02", "C18"]),
 ("fd_unreg_no_handled_clear", "iv_fd.c", "\tif (st->handled_fd == fd)\n\t\tst->handled_fd = NULL;", "", ["C01"]),
 ("pwait2_fallback_loses_timeout", "iv_fd_epoll.c", "\treturn epoll_wait(epfd, events, maxevents, to_msec(st, abs));", "\treturn epoll_wait(epfd, events, maxevents, epoll_pwait2_support ? to_msec(st, abs) : -1);", ["C15", "C04"]),
 ("timerfd_fallback_keeps_method", "iv_fd_epoll.c", "\t\tmethod = &iv_fd_poll_method_epoll;\n\t\treturn 0;", "\t\treturn 1;", ["C15", "C04"]),
]

def run(name, f, old, new, props):
    d = "/tmp/rmc_" + name
    shutil.rmtree(d, ignore_errors=True)
    os.makedirs(d)
    shutil.copytree("/repo/src", d + "/src")
    shutil.copy("/repo/config.h", d)
    p = d + "/src/" + f
    s = open(p).read()
    olds = old if isinstance(old, list) else [old]
    news = new if isinstance(new, list) else [new]
    for o, n in zip(olds, news):
        if o not in s:
            shutil.rmtree(d); return name, "PATTERN-NOT-FOUND", {}
        s = s.replace(o, n, 1)
    open(p, "w").write(s)
    res = {}
    env = dict(os.environ, VERIF_REPO=d)
    for pr in sorted(set(props + ["C01", "C02", "C03", "C04", "C06", "C07", "C09", "C15", "C18"])):
        try:
            out = subprocess.run(["python3", os.path.join(os.path.dirname(os.path.abspath(__file__)), "corr_only.py"), pr, "quick", "1"], env=env, capture_output=True, text=True, timeout=900).stdout
        except subprocess.TimeoutExpired:
            res[pr] = "TIMEOUT"; continue
        line = [l for l in out.splitlines() if l.startswith(pr + " cases")]
        if not line:
            res[pr] = "BUILD-FAIL" if "build False" in out else "NO-OUTPUT"; continue
        import re
        m = re.search(r"'div': (\d+), 'crashes': (\d+), 'monfail': (\d+)", line[0])
        res[pr] = "div=%s crash=%s mon=%s" % m.groups()
    shutil.rmtree(d, ignore_errors=True)
    return name, "ok", res

if __name__ == "__main__":
    sel = sys.argv[1:]
    from concurrent.futures import ThreadPoolExecutor
    todo = [m for m in M if not sel or m[0] in sel]
    with ThreadPoolExecutor(max_workers=4) as ex:
        for name, st, res in ex.map(lambda m: run(*m), todo):
            exp = [m[4] for m in M if m[0] == name][0]
            print("%-34s %s expected=%s" % (name, st, exp))
            for pr, v in res.items():
                print("      %s %s%s" % (pr, v, "   <-- expected" if pr in exp else ""))
            sys.stdout.flush()
