import sys,time
sys.path.insert(0,'/verif/lib')
import framework, corecheck, vlib
pid=sys.argv[1]; tier=sys.argv[2] if len(sys.argv)>2 else 'quick'
ctx=framework.Ctx(pid,tier,int(sys.argv[3]) if len(sys.argv)>3 else 1)
c=corecheck.ALL[pid]()
t=time.time(); ok,out=c.build(ctx); print('build',ok,round(time.time()-t,1), out[-300:] if not ok else '')
cases=c.cases(ctx); t=time.time()
st=c.correspond(ctx,cases)
print(pid,'cases',len(cases),'time',round(time.time()-t,1),{k:(v if not isinstance(v,list) else len(v)) for k,v in st.items() if k not in('mres','ires','mon')})
for x in (st['div'][:2]+st['monfail'][:3]+st['crashes'][:1]): print(' ',str(x)[:600]); print('   case:',cases[x[0]][:400])
ctx.cleanup()
