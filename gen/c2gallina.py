#!/usr/bin/env python3
"""c2gallina.py -- translator (way (a) of the tie): regenerates
coq/theories/Gen/Leaf.v from the CURRENT C source of a fixed list of loop-free
leaf functions, using clang's JSON AST dump.

Supported subset (anything else makes the translator fail loudly, which the
checks report as a broken tie):
  * parameters: integers, pointers to structs (each accessed field p->f becomes
    a Z parameter p_f; a pointer compared with NULL gets a Z parameter p_nonnull;
    a handler-pointer field compared with NULL is a Z parameter holding 0 / non-0);
  * locals: integers and local structs (fields become variables);
  * statements: declarations with initialisers, assignments (= |= += -=, ++ --),
    if/else, return, calls to previously translated functions (out-parameters
    &local are bound from the callee's result tuple);
  * expressions: integer literals, + - * / % & | ~ << >> ! && || < <= > >= == !=,
    ?:, casts to (signed) char / int (explicit wrap-around), sizeof is not supported.
  C '/' and '%' are translated to Z.quot / Z.rem (truncation); no overflow is
  modelled (ranges are hypotheses of the linking lemmas where they matter).
  `assume` entries fold a condition to a constant (documented per function).
Result of a function: (return value, out-parameter fields written ...) as a tuple of Z.

Second generation (TYPED / class CTr, further down): typed translation that follows every implicit conversion of the clang
AST, with the integer semantics of C explicit (unsigned wrap-around, signed overflow / bad shifts / division by zero / null
dereference = None), uint32_t etc., casts, `& flag`, pointer comparison as comparison of address parameters, sizeof evaluated
by clang, ?:, ++ / -- / op= with their side effects, whole functions as well as single conditions / statements / call
arguments of larger functions.  One generated file per C source file (Gen/LeafWork.v, LeafPopen.v, LeafAvl.v, LeafInotify.v,
LeafSignal.v, LeafWait.v), semantics in the hand-written Base/CSem.v, link lemmas in MT/WorkLink.v, Misc/PopenLink.v,
Avl/AvlLink.v, Misc/InotifyLink.v, MT/SignalLink.v, MT/WaitLink.v; checks call lib/leafgen.py.
usage: c2gallina.py [path of Leaf.v]      regenerates every generated file next to it (default coq/theories/Gen)
"""
import json
import os
import re
import subprocess
import sys

REPO = os.environ.get("VERIF_REPO", "/repo")
VERIF = os.path.dirname(os.path.dirname(os.path.abspath(__file__)))

# (gallina name, C function, source file, assumptions {textual condition: value})
FUNCS = [
    ("timespec_gt", "timespec_gt", "iv_timer.c", {}),
    ("to_relative", "to_relative", "iv_timer.c", {"!st->time_valid": 0}),
    ("to_msec", "to_msec", "iv_timer.c", {}),
    ("timespec_cmp", "timespec_cmp", "iv_fd.c", {}),
    ("epoll_bits_to_poll_mask", "bits_to_poll_mask", "iv_fd_epoll.c", {}),
    ("poll_bits_to_poll_mask", "bits_to_poll_mask", "iv_fd_poll.c", {}),
    ("recompute_wanted_flags", "recompute_wanted_flags", "iv_fd.c", {}),
    ("iv_wait_status_dead", "iv_wait_status_dead", "iv_wait.c", {}),
]


# Conditions of `if` statements translated WITH the undefined behaviour of C made explicit
# (result type `option bool`, None = an operation whose behaviour C leaves undefined was executed):
# (gallina name, C function, source file, which top-level `if` of the function body (0 = first))
#   * a shift of an int (32 bits) by a negative count or by >= 32 is None; `1 << c` style left shifts
#     must also keep the result representable;  && and || short-circuit (the right operand is not
#     executed when the left one decides);  sizeof(<int expression>) = 4;  casts between integer types
#     are the identity;  + - * are not range-checked (ranges are hypotheses of the linking lemmas);
#   * p->f becomes the parameter p_f, parameters are ordered like the C parameters.
CONDS = [
    ("timer_growth_test", "iv_timer_get_node", "iv_timer.c", 0),
]


# Offset bookkeeping of src/iv_tls.c, generated into the SEPARATE file Gen/LeafTls.v (Leaf.v stays as it is) and
# linked to the model Small/TlsModel.v by Small/TlsLink.v.  Same 4-tuples as FUNCS; keys of the assume dict that
# start with '#' are translation options, not assumptions:
#   #fatal_calls: a statement-level call of one of these (noreturn) functions ends the path with None, the result
#                 type becomes `option`;
#   #mark_calls:  a statement-level call of one of these functions is not translated (its effect is on the intrusive
#                 list, modelled in Small/ListPtrModel.v); WHICH function is called is reported as the out-field
#                 `list_call` (the code given here).
# Writes to file-scope variables (last_offset) are out-fields like writes through pointer parameters.
TLS_FUNCS = [
    ("tls_user_register", "iv_tls_user_register", "iv_tls.c",
     {"#fatal_calls": ["iv_fatal"], "#mark_calls": {"iv_list_add_tail": 1, "iv_list_add": 2}}),
]

# static initialisers of file-scope variables: (gallina name, C variable, source file); `sizeof (T)` becomes the Z
# parameter sizeof_<T>.  Also generated into Gen/LeafTls.v.
TLS_GLOBAL_INITS = [
    ("tls_initial_offset", "last_offset", "iv_tls.c"),
]

# errors of the translations that go to separate files (file name -> message); Leaf.v errors are main()'s result
LAST_ERRORS = {}


class Unsupported(Exception):
    pass


def ast_of(cfile, fn, incdir):
    cmd = ["clang", "-fsyntax-only", "-D_GNU_SOURCE", "-DHAVE_CONFIG_H", "-I" + incdir,
           "-I" + os.path.join(REPO, "src", "include"), "-I" + os.path.join(REPO, "src"),
           "-Xclang", "-ast-dump=json", "-Xclang", "-ast-dump-filter=" + fn, os.path.join(REPO, "src", cfile)]
    p = subprocess.run(cmd, stdout=subprocess.PIPE, stderr=subprocess.PIPE, text=True)
    txt = p.stdout
    dec = json.JSONDecoder()
    i = 0
    docs = []
    while i < len(txt):
        while i < len(txt) and txt[i].isspace():
            i += 1
        if i >= len(txt):
            break
        d, i = dec.raw_decode(txt, i)
        docs.append(d)
    for d in docs:
        if d.get("kind") == "FunctionDecl" and d.get("name") == fn and any(c.get("kind") == "CompoundStmt" for c in d.get("inner", [])):
            return d
    raise Unsupported("function %s not found in %s (clang: %s)" % (fn, cfile, p.stderr[-300:]))


def src_text(node, cache={}):
    return None


def ast_var_of(cfile, var, incdir):
    """the VarDecl (with initialiser) of a file-scope variable"""
    cmd = ["clang", "-fsyntax-only", "-D_GNU_SOURCE", "-DHAVE_CONFIG_H", "-I" + incdir,
           "-I" + os.path.join(REPO, "src", "include"), "-I" + os.path.join(REPO, "src"),
           "-Xclang", "-ast-dump=json", "-Xclang", "-ast-dump-filter=" + var, os.path.join(REPO, "src", cfile)]
    p = subprocess.run(cmd, stdout=subprocess.PIPE, stderr=subprocess.PIPE, text=True)
    txt = p.stdout
    dec = json.JSONDecoder()
    i = 0
    while i < len(txt):
        while i < len(txt) and txt[i].isspace():
            i += 1
        if i >= len(txt):
            break
        d, i = dec.raw_decode(txt, i)
        if d.get("kind") == "VarDecl" and d.get("name") == var and d.get("inner"):
            return d
    raise Unsupported("initialised variable %s not found in %s (clang: %s)" % (var, cfile, p.stderr[-300:]))


class Tr:
    def __init__(self, name, decl, assume, known):
        self.name = name
        self.decl = decl
        self.assume = assume
        self.known = known          # name -> (params list, outfields list)
        self.params = []            # ordered Gallina parameter names
        self.ptr_params = set()
        self.int_params = set()
        self.outfields = []         # written fields of pointer params, in order of first write
        self.fresh = 0
        # translation options (keys of the assume dict starting with '#'), see TLS_FUNCS
        self.fatal_calls = set(assume.get("#fatal_calls", []))
        self.mark_calls = dict(assume.get("#mark_calls", {}))
        self.has_fatal = False
        self.locals = set()         # names of block-scope variables (every other VarDecl is file-scope)

    # ---- parameters are discovered lazily (fields used) ----
    def use_param(self, p):
        if p not in self.params:
            self.params.append(p)
        return p

    def strip(self, n):
        while n.get("kind") in ("ImplicitCastExpr", "ParenExpr", "ConstantExpr"):
            n = n["inner"][0]
        return n

    def lvalue_name(self, n, env):
        """name of the storage an lvalue expression denotes"""
        n = self.strip(n)
        k = n["kind"]
        if k == "DeclRefExpr":
            return n["referencedDecl"]["name"]
        if k == "MemberExpr":
            base = self.strip(n["inner"][0])
            if base["kind"] == "DeclRefExpr":
                b = base["referencedDecl"]["name"]
                return "%s_%s" % (b, n["name"])
            if base["kind"] == "MemberExpr":
                return "%s_%s" % (self.lvalue_name(base, env), n["name"])
        raise Unsupported("lvalue %s" % k)

    def read(self, name, env):
        if name in env:
            return env[name]
        # a parameter (or a field of a pointer parameter) read before any write
        return self.use_param(name)

    # ---- expressions: Z-valued and bool-valued translations ----
    def z(self, n, env):
        n0 = n
        n = self.strip(n)
        k = n["kind"]
        if k == "IntegerLiteral":
            v = int(n["value"])
            return str(v) if v >= 0 else "(%d)" % v
        if k == "CharacterLiteral":
            return str(int(n["value"]))
        if k == "DeclRefExpr" and n["referencedDecl"].get("kind") == "EnumConstantDecl":
            # <sys/epoll.h> declares its flags as an enum; the ABI values are fixed
            table = {"EPOLLIN": 1, "EPOLLPRI": 2, "EPOLLOUT": 4, "EPOLLERR": 8, "EPOLLHUP": 16, "EPOLLONESHOT": 1 << 30}
            nm = n["referencedDecl"]["name"]
            if nm not in table:
                raise Unsupported("enum constant %s" % nm)
            return str(table[nm])
        if k in ("DeclRefExpr", "MemberExpr"):
            return self.read(self.lvalue_name(n, env), env)
        if k == "UnaryOperator":
            op = n["opcode"]
            if op == "-":
                return "(- %s)" % self.z(n["inner"][0], env)
            if op == "+":
                return self.z(n["inner"][0], env)
            if op == "~":
                return "(Z.lnot %s)" % self.z(n["inner"][0], env)
            if op == "!":
                return "(b2z (negb %s))" % self.b(n["inner"][0], env)
            raise Unsupported("unary %s in expression" % op)
        if k == "BinaryOperator":
            op = n["opcode"]
            a, b = n["inner"]
            if op in ("<", "<=", ">", ">=", "==", "!=", "&&", "||"):
                return "(b2z %s)" % self.b(n, env)
            m = {"+": "+", "-": "-", "*": "*"}
            if op in m:
                return "(%s %s %s)" % (self.z(a, env), m[op], self.z(b, env))
            f = {"/": "Z.quot", "%": "Z.rem", "&": "Z.land", "|": "Z.lor", "^": "Z.lxor", "<<": "Z.shiftl", ">>": "Z.shiftr"}
            if op in f:
                return "(%s %s %s)" % (f[op], self.z(a, env), self.z(b, env))
            raise Unsupported("binary %s" % op)
        if k == "ConditionalOperator":
            c, a, b = n["inner"]
            return "(if %s then %s else %s)" % (self.b(c, env), self.z(a, env), self.z(b, env))
        if k == "CStyleCastExpr":
            ty = n.get("type", {}).get("qualType", "")
            inner = self.z(n["inner"][0], env)
            if ty in ("signed char", "char"):
                return "(wrap_s8 %s)" % inner
            if ty in ("unsigned char",):
                return "(Z.land %s 255)" % inner
            if ty in ("int", "long", "unsigned int", "unsigned long"):
                return inner
            raise Unsupported("cast to %s" % ty)
        if k == "CallExpr":
            call, pat, env2 = self.call_parts(n, env)
            if len(pat) != 1:
                raise Unsupported("call with out-parameters inside an expression")
            return "(%s)" % call
        if k == "GNUNullExpr" or k == "CXXNullPtrLiteralExpr":
            return "0"
        if k == "UnaryExprOrTypeTraitExpr" and n.get("name") == "sizeof" and n.get("argType"):
            # sizeof (T): a parameter (the value is supplied by whoever uses the definition)
            ty = n["argType"].get("qualType", "")
            return self.use_param("sizeof_" + "".join(c if c.isalnum() else "_" for c in ty))
        raise Unsupported("expression kind %s" % k)

    def is_null(self, n):
        n = self.strip(n)
        if n["kind"] == "IntegerLiteral" and n["value"] == "0":
            return True
        if n["kind"] == "CStyleCastExpr":
            return self.is_null(n["inner"][0])
        return n["kind"] in ("GNUNullExpr",)

    def is_pointer(self, n):
        return "*" in n.get("type", {}).get("qualType", "")

    def b(self, n, env):
        n = self.strip(n)
        k = n["kind"]
        if k == "UnaryOperator" and n["opcode"] == "!":
            txt = "!" + self.text_of(n["inner"][0])
            if txt in self.assume:
                return "true" if self.assume[txt] else "false"
            return "(negb %s)" % self.b(n["inner"][0], env)
        if k == "BinaryOperator":
            op = n["opcode"]
            a, b = n["inner"]
            if op in ("==", "!=") and (self.is_pointer(self.strip(a)) or self.is_pointer(a)) and self.is_null(b):
                # pointer compared with NULL: a parameter "<name>_nonnull" / a field holding 0 or non-0
                sa = self.strip(a)
                if sa["kind"] == "DeclRefExpr":
                    v = self.use_param(sa["referencedDecl"]["name"] + "_nonnull")
                else:
                    v = self.read(self.lvalue_name(sa, env), env)
                t = "(negb (%s =? 0))" % v
                return t if op == "!=" else "(negb %s)" % t
            m = {"<": "<?", "<=": "<=?", ">": ">?", ">=": ">=?", "==": "=?"}
            if op in m:
                return "(%s %s %s)" % (self.z(a, env), m[op], self.z(b, env))
            if op == "!=":
                return "(negb (%s =? %s))" % (self.z(a, env), self.z(b, env))
            if op == "&&":
                return "(%s && %s)" % (self.b(a, env), self.b(b, env))
            if op == "||":
                return "(%s || %s)" % (self.b(a, env), self.b(b, env))
        return "(negb (%s =? 0))" % self.z(n, env)

    def text_of(self, n):
        n = self.strip(n)
        k = n["kind"]
        if k == "DeclRefExpr":
            return n["referencedDecl"]["name"]
        if k == "MemberExpr":
            return self.text_of(n["inner"][0]) + ("->" if n.get("isArrow") else ".") + n["name"]
        return "?"

    # ---- statements: symbolic execution producing the result expression ----
    def assign(self, name, val, env, is_out):
        env = dict(env)
        env[name] = val
        if is_out and name not in self.outfields:
            self.outfields.append(name)
        return env

    def out_target(self, n):
        """is this lvalue a field of a pointer parameter (an out-parameter write)?"""
        n = self.strip(n)
        if n["kind"] == "MemberExpr" and n.get("isArrow"):
            return True
        if n["kind"] == "DeclRefExpr" and n["referencedDecl"].get("kind") == "VarDecl" \
                and n["referencedDecl"]["name"] not in self.locals:
            return True             # a file-scope variable
        return False

    def result(self, ret, env):
        return ("RET", ret, env)

    def exec(self, stmts, env):
        """returns a tree: ("RET", expr, env) | ("IF", cond, t, e) | ("LET", pattern, call, rest)"""
        if not stmts:
            return ("RET", "0", env)
        s, rest = stmts[0], stmts[1:]
        k = s["kind"]
        if k == "CompoundStmt":
            return self.exec(list(s.get("inner", [])) + rest, env)
        if k == "NullStmt":
            return self.exec(rest, env)
        if k == "DeclStmt":
            for d in s.get("inner", []):
                if d["kind"] != "VarDecl":
                    raise Unsupported("declaration %s" % d["kind"])
                self.locals.add(d["name"])
                if "inner" in d and d["inner"]:
                    env = self.assign(d["name"], self.z(d["inner"][0], env), env, False)
            return self.exec(rest, env)
        if k == "ReturnStmt":
            if not s.get("inner"):
                return ("RET", "0", env)
            e = self.strip(s["inner"][0])
            if e["kind"] == "CallExpr":
                return self.call(e, env, lambda r, env2: ("RET", r, env2))
            if self.is_pointer(s["inner"][0]) or self.is_pointer(e):
                # returning a pointer: 1 = non-NULL (an out-parameter), 0 = NULL
                return ("RET", "0" if self.is_null(e) else "1", env)
            return ("RET", self.z(e, env), env)
        if k == "IfStmt":
            inner = s["inner"]
            cond = self.b(inner[0], env)
            tb = [inner[1]]
            eb = [inner[2]] if len(inner) > 2 else []
            if cond == "true":
                return self.exec(tb + rest, env)
            if cond == "false":
                return self.exec(eb + rest, env)
            return ("IF", cond, self.exec(tb + rest, env), self.exec(eb + rest, env))
        if k == "BinaryOperator" and s["opcode"] == "=":
            lhs, rhs = s["inner"]
            e = self.strip(rhs)
            if e["kind"] == "CallExpr":
                name = self.lvalue_name(lhs, env)
                return self.call(e, env, lambda r, env2: self.exec(rest, self.assign(name, r, env2, self.out_target(lhs))))
            env = self.assign(self.lvalue_name(lhs, env), self.z(rhs, env), env, self.out_target(lhs))
            return self.exec(rest, env)
        if k == "CompoundAssignOperator":
            lhs, rhs = s["inner"]
            name = self.lvalue_name(lhs, env)
            op = s["opcode"][:-1]
            f = {"+": "(%s + %s)", "-": "(%s - %s)", "|": "(Z.lor %s %s)", "&": "(Z.land %s %s)"}
            if op not in f:
                raise Unsupported("compound assignment %s" % s["opcode"])
            env = self.assign(name, f[op] % (self.read(name, env), self.z(rhs, env)), env, self.out_target(lhs))
            return self.exec(rest, env)
        if k == "UnaryOperator" and s["opcode"] in ("++", "--"):
            name = self.lvalue_name(s["inner"][0], env)
            env = self.assign(name, "(%s %s 1)" % (self.read(name, env), "+" if s["opcode"] == "++" else "-"), env,
                              self.out_target(s["inner"][0]))
            return self.exec(rest, env)
        if k == "CallExpr":
            callee = self.strip(s["inner"][0])
            fn = callee["referencedDecl"]["name"] if callee["kind"] == "DeclRefExpr" else None
            if fn in self.fatal_calls:
                self.has_fatal = True
                return ("FATAL",)
            if fn in self.mark_calls:
                return self.exec(rest, self.assign("list_call", str(self.mark_calls[fn]), env, True))
            return self.call(s, env, lambda r, env2: self.exec(rest, env2))
        raise Unsupported("statement kind %s" % k)

    def call(self, e, env, cont):
        call, pat, env2 = self.call_parts(e, env)
        return ("LET", pat, call, cont(pat[0], env2))

    def call_parts(self, e, env):
        callee = self.strip(e["inner"][0])
        if callee["kind"] != "DeclRefExpr":
            raise Unsupported("indirect call")
        fn = callee["referencedDecl"]["name"]
        if fn not in self.known:
            raise Unsupported("call of %s (not a translated leaf function)" % fn)
        gname, cparams, couts = self.known[fn]
        args = e["inner"][1:]
        # C-level parameter names of the callee, in order
        cnames = self.known[fn + "#cparams"]
        amap = {}
        for cn, a in zip(cnames, args):
            a0 = self.strip(a)
            if a0["kind"] == "UnaryOperator" and a0["opcode"] == "&":
                amap[cn] = ("struct", self.lvalue_name(a0["inner"][0], env))
            elif self.is_pointer(a) or self.is_pointer(a0):
                if a0["kind"] == "DeclRefExpr":
                    amap[cn] = ("ptr", a0["referencedDecl"]["name"])
                elif self.is_null(a0):
                    amap[cn] = ("null", None)
                else:
                    raise Unsupported("pointer argument")
            else:
                amap[cn] = ("val", self.z(a, env))
        actuals = []
        for p in cparams:
            # p is "<cparam>" | "<cparam>_<field>" | "<cparam>_nonnull"
            base = max((c for c in cnames if p == c or p.startswith(c + "_")), key=len)
            kind, v = amap[base]
            suffix = p[len(base):]
            if kind == "val":
                actuals.append(v)
            elif kind == "null":
                actuals.append("0")
            elif suffix == "_nonnull":
                actuals.append("1" if kind == "struct" else self.read(v + "_nonnull", env))
            else:
                actuals.append(self.read(v + suffix, env))
        self.fresh += 1
        r = "r%d" % self.fresh
        pat = [r]
        env2 = dict(env)
        for o in couts:
            base = max((c for c in cnames if o.startswith(c + "_")), key=len)
            kind, v = amap[base]
            self.fresh += 1
            tmp = "o%d" % self.fresh
            pat.append(tmp)
            if kind in ("struct", "ptr"):
                name = v + o[len(base):]
                env2[name] = tmp
                if kind == "ptr" and name not in self.outfields:
                    self.outfields.append(name)
        call = "%s %s" % (gname, " ".join("(%s)" % a if " " in a else a for a in actuals)) if actuals else gname
        return call, pat, env2

    # ---- printing ----
    def render(self, t, ind):
        pad = "  " * ind
        if t[0] == "RET":
            _, ret, env = t
            outs = [env.get(o, "0") for o in self.outfields]     # a field not written on this path is reported as 0
            some = "Some " if self.has_fatal else ""
            if outs:
                return pad + some + "(" + ", ".join([ret] + outs) + ")"
            return pad + ((some + "(" + ret + ")") if some else ret)
        if t[0] == "FATAL":
            return pad + "None"
        if t[0] == "IF":
            _, c, a, b = t
            return "%sif %s then\n%s\n%selse\n%s" % (pad, c, self.render(a, ind + 1), pad, self.render(b, ind + 1))
        if t[0] == "LET":
            _, pat, call, rest = t
            p = pat[0] if len(pat) == 1 else "'(" + ", ".join(pat) + ")"
            return "%slet %s := %s in\n%s" % (pad, p, call, self.render(rest, ind))
        raise Unsupported("tree")

    def collect_outs(self, t):
        if t[0] == "RET":
            return
        if t[0] == "IF":
            self.collect_outs(t[2])
            self.collect_outs(t[3])
        if t[0] == "LET":
            self.collect_outs(t[3])

    def translate(self):
        body = [c for c in self.decl["inner"] if c["kind"] == "CompoundStmt"][0]
        cparams = [c["name"] for c in self.decl["inner"] if c["kind"] == "ParmVarDecl"]
        tree = self.exec([body], {})
        # canonical parameter order: by C parameter, then by first use
        order = []
        for cp in cparams:
            for p in self.params:
                if (p == cp or p.startswith(cp + "_")) and p not in order:
                    order.append(p)
        for p in self.params:
            if p not in order:
                order.append(p)
        # out-fields that are also read before written stay parameters; that is fine
        rty = "Z" if not self.outfields else "(" + " * ".join(["Z"] * (1 + len(self.outfields))) + ")%type"
        if self.has_fatal:
            rty = "option " + rty
        text = "Definition %s %s : %s :=\n%s.\n" % (
            self.name, " ".join("(%s : Z)" % p for p in order) if order else "(_ : unit)", rty, self.render(tree, 1))
        return text, order, list(self.outfields), cparams


COND_PRELUDE = (
    "(* ---- conditions translated with explicit undefined behaviour (None) ---- *)\n"
    "Definition ub_bind {A B : Type} (x : option A) (f : A -> option B) : option B :=\n"
    "  match x with Some a => f a | None => None end.\n"
    "Definition ub_and (a b : option bool) : option bool :=\n"
    "  match a with Some true => b | Some false => Some false | None => None end.\n"
    "Definition ub_or (a b : option bool) : option bool :=\n"
    "  match a with Some true => Some true | Some false => b | None => None end.\n"
    "Definition ub_shr32 (x c : Z) : option Z :=\n"
    "  if (0 <=? c) && (c <? 32) then Some (Z.shiftr x c) else None.\n"
    "Definition ub_shl32 (x c : Z) : option Z :=\n"
    "  if (0 <=? c) && (c <? 32) && (0 <=? x) && (Z.shiftl x c <? 2 ^ 31) then Some (Z.shiftl x c) else None.\n\n")

INT_SIZES = {"char": 1, "signed char": 1, "unsigned char": 1, "short": 2, "unsigned short": 2,
             "int": 4, "unsigned int": 4, "long": 8, "unsigned long": 8}


class CondTr:
    """condition of an if statement -> Gallina term of type option bool (see CONDS)"""

    def __init__(self, cparams):
        self.cparams = cparams
        self.params = []
        self.fresh = 0

    def strip(self, n):
        while n.get("kind") in ("ImplicitCastExpr", "ParenExpr", "ConstantExpr"):
            n = n["inner"][0]
        return n

    def param(self, name):
        if name not in self.params:
            self.params.append(name)
        return name

    def var(self):
        self.fresh += 1
        return "v%d" % self.fresh

    def qual(self, n):
        return n.get("type", {}).get("qualType", "")

    # pure Z-valued expressions (no operation with undefined behaviour inside): plain Gallina, else None
    def pure(self, n):
        n = self.strip(n)
        k = n["kind"]
        if k == "IntegerLiteral":
            return n["value"]
        if k == "DeclRefExpr":
            nm = n["referencedDecl"]["name"]
            if nm not in self.cparams:
                raise Unsupported("condition reads %s, which is not a parameter" % nm)
            return self.param(nm)
        if k == "MemberExpr":
            base = self.strip(n["inner"][0])
            if base["kind"] != "DeclRefExpr" or base["referencedDecl"]["name"] not in self.cparams:
                raise Unsupported("member access on a non-parameter in a condition")
            return self.param("%s_%s" % (base["referencedDecl"]["name"], n["name"]))
        if k == "UnaryExprOrTypeTraitExpr" and n.get("name") == "sizeof":
            ty = n["argType"]["qualType"] if "argType" in n else self.qual(self.strip(n["inner"][0]))
            if ty not in INT_SIZES:
                raise Unsupported("sizeof(%s)" % ty)
            return str(INT_SIZES[ty])
        if k == "CStyleCastExpr":
            if self.qual(n) not in INT_SIZES:
                raise Unsupported("cast to %s in a condition" % self.qual(n))
            return self.pure(n["inner"][0])
        if k == "UnaryOperator" and n["opcode"] in ("-", "+"):
            a = self.pure(n["inner"][0])
            return None if a is None else ("(- %s)" % a if n["opcode"] == "-" else a)
        if k == "BinaryOperator" and n["opcode"] in ("+", "-", "*"):
            a, b = self.pure(n["inner"][0]), self.pure(n["inner"][1])
            if a is None or b is None:
                return None
            return "(%s %s %s)" % (a, n["opcode"], b)
        if k == "BinaryOperator" and n["opcode"] in ("<<", ">>", "/", "%"):
            return None
        raise Unsupported("expression %s%s in a condition" % (k, " " + n.get("opcode", "") if "opcode" in n else ""))

    # option Z
    def uz(self, n):
        p = self.pure(n)
        if p is not None:
            return "(Some %s)" % p
        n = self.strip(n)
        k = n["kind"]
        if k == "CStyleCastExpr":
            return self.uz(n["inner"][0])
        if k == "BinaryOperator":
            op = n["opcode"]
            a, b = n["inner"]
            if op in ("<<", ">>"):
                if self.qual(n) != "int":
                    raise Unsupported("shift of a %s" % self.qual(n))
                f = "ub_shr32" if op == ">>" else "ub_shl32"
                pa, pb = self.pure(a), self.pure(b)
                if pa is not None and pb is not None:
                    return "(%s %s %s)" % (f, pa, pb)
                x, y = self.var(), self.var()
                return "(ub_bind %s (fun %s => ub_bind %s (fun %s => %s %s %s)))" % (self.uz(a), x, self.uz(b), y, f, x, y)
            if op in ("+", "-", "*"):
                x, y = self.var(), self.var()
                return "(ub_bind %s (fun %s => ub_bind %s (fun %s => Some (%s %s %s))))" % (self.uz(a), x, self.uz(b), y, x, op, y)
        raise Unsupported("expression %s in a condition (undefined-behaviour aware translation)" % k)

    # option bool
    def ub(self, n):
        n = self.strip(n)
        k = n["kind"]
        if k == "UnaryOperator" and n["opcode"] == "!":
            x = self.var()
            return "(ub_bind %s (fun %s => Some (negb %s)))" % (self.ub(n["inner"][0]), x, x)
        if k == "BinaryOperator":
            op = n["opcode"]
            a, b = n["inner"]
            if op == "&&":
                return "(ub_and %s %s)" % (self.ub(a), self.ub(b))
            if op == "||":
                return "(ub_or %s %s)" % (self.ub(a), self.ub(b))
            m = {"<": "%s <? %s", "<=": "%s <=? %s", ">": "%s >? %s", ">=": "%s >=? %s", "==": "%s =? %s",
                 "!=": "negb (%s =? %s)"}
            if op in m:
                pa, pb = self.pure(a), self.pure(b)
                if pa is not None and pb is not None:
                    return "(Some (%s))" % (m[op] % (pa, pb))
                x, y = self.var(), self.var()
                return "(ub_bind %s (fun %s => ub_bind %s (fun %s => Some (%s))))" % (self.uz(a), x, self.uz(b), y, m[op] % (x, y))
        x = self.var()
        return "(ub_bind %s (fun %s => Some (negb (%s =? 0))))" % (self.uz(n), x, x)


def translate_cond(gname, decl, which):
    body = [c for c in decl["inner"] if c["kind"] == "CompoundStmt"][0]
    ifs = [c for c in body.get("inner", []) if c["kind"] == "IfStmt"]
    if len(ifs) <= which:
        raise Unsupported("%s: no top-level if statement number %d" % (gname, which))
    cparams = [c["name"] for c in decl["inner"] if c["kind"] == "ParmVarDecl"]
    tr = CondTr(cparams)
    term = tr.ub(ifs[which]["inner"][0])
    order = []
    for cp in cparams:
        for p in tr.params:
            if (p == cp or p.startswith(cp + "_")) and p not in order:
                order.append(p)
    return "Definition %s %s : option bool :=\n  %s.\n" % (gname, " ".join("(%s : Z)" % p for p in order), term)


# =====================================================================================================================
# Typed translation with the undefined behaviour of C explicit (class CTr): one generated file per C source file
# (Gen/LeafWork.v, Gen/LeafPopen.v, ...), all on top of the hand-written semantics file Base/CSem.v.
#
# Every generated definition has type `option T`, None = an operation that C leaves undefined was executed.  Unlike Tr /
# CondTr above, CTr follows the types clang computed (every implicit conversion of the AST is translated):
#   * integer types are those of LP64 x86-64 Linux (INT_TYPES); a parameter is assumed to lie in the range of its C type
#     (a hypothesis of the link lemmas where it matters);
#   * unsigned + - * ~ unary-minus and conversions to unsigned types wrap (c_wrap_u); signed + - * unary-minus are None when the
#     result is not representable (c_chk_s); / % are None for a zero divisor (and INT_MIN / -1); shifts are None for a count
#     < 0 or >= the width of the promoted left operand, signed << also for a negative value or an unrepresentable result;
#     conversions to signed types that do not preserve the value reduce modulo 2^N (implementation-defined; gcc, clang);
#   * && || ?: evaluate their later operands only when C does (ub_and / ub_or / if); ++ -- inside such an operand, an
#     assignment inside an expression, the comma operator, and an object that is modified and also accessed without an
#     intervening sequence point are translation failures;
#   * an lvalue is flattened into a name: p->f and s.f become p_f, s_f; the value of a pointer-typed lvalue p is its
#     address, parameter p_addr (0 = NULL); pointer comparison is comparison of addresses; p + n is address arithmetic
#     (n * sizeof *p, sizeof(void) = 1 as in GNU C) that must stay inside [0, 2^64) (c_chk_ptr), object bounds are not tracked;
#     a dereference p->f of a pointer whose address occurs in the translated text (a comparison) is None when p_addr = 0
#     (c_deref); a pointer that is only dereferenced is assumed valid;
#   * lvalues read before they are written are the parameters of the definition (in fragment modes this includes block-scope
#     variables: their values when the fragment is executed); a write through a pointer followed by an access to the same
#     field through another path is a translation failure (possible alias);
#   * sizeof(T) is evaluated by clang for the current source (no table);
#   * anything else (loops inside the translated text, calls of functions that are not translated entries of the same
#     file, struct assignment, arrays, unions, floating point, _Bool, enum constants ...) is a translation failure: the file then holds no
#     definitions, the link lemmas stop compiling, and the message is kept in LAST_ERRORS[<file name>].
# Selectors:
#   ("fn",)              the whole (loop-free) function: result Some (return value, fields written through pointers /
#                        file-scope variables written ...)
#   ("cond", kind, n)    the controlling expression of the n-th `kind` statement (kind in if / while / do / for), counted in
#                        pre-order over the whole function body: result option bool
#   ("stmt", lhs, n)     the n-th statement (pre-order) that writes the lvalue spelled `lhs` (= , op= , ++ , -- , or a
#                        declaration with an initialiser): result Some (new value of lhs, other objects written ...)
#   ("arg", f, n, i)     argument number i (0 = first) of the n-th call of the function f (pre-order over the whole body):
#                        result Some value
# Options (dict): "#opaque_init": [names of local variables whose initialiser is NOT translated (e.g. iv_container_of);
#                 the local then stands for whatever it holds: its fields / address are parameters].
INT_TYPES = {"char": (True, 8), "signed char": (True, 8), "unsigned char": (False, 8), "short": (True, 16),
             "unsigned short": (False, 16), "int": (True, 32), "unsigned int": (False, 32), "long": (True, 64),
             "unsigned long": (False, 64), "long long": (True, 64), "unsigned long long": (False, 64)}
C_INT = ("int", True, 32)
C_ULONG = ("int", False, 64)
COQ_RESERVED = {"as", "at", "cofix", "else", "end", "exists", "exists2", "fix", "for", "forall", "fun", "if", "IF", "in", "let",
                "match", "mod", "Prop", "return", "Set", "then", "Type", "using", "where", "with", "by", "Some", "None",
                "true", "false", "negb", "b2z", "ub_bind", "ub_and", "ub_or", "Z", "bool", "option", "unit", "tt"}

TYPED = [
    ("LeafWork.v", "iv_work.c", [
        ("work_last_seq", "iv_work_thread_got_event", ("stmt", "last_seq", 0), {}),
        ("work_more_test", "iv_work_thread_got_event", ("cond", "while", 0), {}),
        ("work_drained_test", "iv_work_thread_got_event", ("cond", "if", 2), {}),
        ("work_take_seq", "iv_work_thread_got_event", ("stmt", "pool->seq_head", 0), {}),
        ("work_submit_seq", "iv_work_submit_pool", ("stmt", "pool->seq_tail", 0), {}),
        # round 9: the guards of the critical sections (list predicates are parameters of the tests)
        ("work_die_kicked", "__iv_work_thread_die", ("cond", "if", 0), {}),
        ("work_die_on_list", "__iv_work_thread_die", ("cond", "if", 1), {}),
        ("work_die_started", "__iv_work_thread_die", ("stmt", "pool->started_threads", 0), {}),
        ("work_die_post", "__iv_work_thread_die", ("cond", "if", 3), {}),
        ("work_got_was_idle", "iv_work_thread_got_event", ("cond", "if", 0), {}),
        ("work_done_was_empty", "iv_work_thread_got_event", ("cond", "if", 1), {}),
        ("work_not_shut", "iv_work_thread_got_event", ("cond", "if", 3), {}),
        ("work_event_shut", "iv_work_event", ("cond", "if", 0), {}),
        ("work_event_free", "iv_work_event", ("cond", "if", 1), {}),
        ("work_needed_test", "iv_work_thread_needed", ("cond", "if", 0), {}),
        ("work_submit_misuse", "iv_work_submit_pool", ("cond", "if", 0), {}),
        ("work_submit_idle", "iv_work_submit_pool", ("cond", "if", 1), {}),
        ("work_submit_room", "iv_work_submit_pool", ("cond", "if", 2), {}),
        ("work_submit_owner", "iv_work_submit_pool", ("cond", "if", 3), {}),
    ]),
    ("LeafPopen.v", "iv_popen.c", [
        ("popen_signum", "iv_popen_running_child_timer", ("stmt", "signum", 0), {}),
        ("popen_rearm_sec", "iv_popen_running_child_timer", ("stmt", "ch->signal_timer.expires.tv_sec", 0), {}),
        ("popen_close_kills", "iv_popen_request_close", ("stmt", "ch->num_kills", 0), {}),
    ]),
    ("LeafAvl.v", "iv_avl.c", [
        ("avl_height", "height", ("fn",), {}),
        ("avl_recalc_height", "recalc_height", ("fn",), {}),
        ("avl_balance", "balance", ("fn",), {}),
        ("avl_rebalance_bal", "rebalance_node", ("stmt", "bal", 0), {}),
        ("avl_rebalance_left_heavy", "rebalance_node", ("cond", "if", 0), {}),
        ("avl_rebalance_left_single", "rebalance_node", ("cond", "if", 1), {}),
        ("avl_rebalance_right_heavy", "rebalance_node", ("cond", "if", 2), {}),
        ("avl_rebalance_right_double", "rebalance_node", ("cond", "if", 3), {}),
    ]),
    ("LeafInotify.v", "iv_inotify.c", [
        ("inotify_read_size", "iv_inotify_got_event", ("arg", "read", 0, 2), {}),
        ("inotify_nothing_read", "iv_inotify_got_event", ("cond", "if", 0), {}),
        ("inotify_read_zero", "iv_inotify_got_event", ("cond", "if", 1), {}),
        ("inotify_curr_init", "iv_inotify_got_event", ("stmt", "curr", 0), {}),
        ("inotify_end_init", "iv_inotify_got_event", ("stmt", "end", 0), {}),
        ("inotify_loop_test", "iv_inotify_got_event", ("cond", "while", 0), {}),
        ("inotify_event_at", "iv_inotify_got_event", ("stmt", "event", 0), {}),
        ("inotify_dropped_test", "iv_inotify_got_event", ("cond", "if", 4), {}),
        ("inotify_advance", "iv_inotify_got_event", ("stmt", "curr", 1), {}),
        ("inotify_gone_test", "iv_inotify_got_event", ("cond", "if", 5), {}),
    ]),
    ("LeafSignal.v", "iv_signal.c", [
        ("signal_compare", "iv_signal_compare", ("fn",), {"#opaque_init": ["a", "b"]}),
        # round 9: the fan-out walk of __iv_signal_do_wake
        ("signal_wake_more", "__iv_signal_do_wake", ("cond", "while", 0), {}),
        ("signal_wake_other", "__iv_signal_do_wake", ("cond", "if", 0), {"#opaque_init": ["is"]}),
        ("signal_wake_active", "__iv_signal_do_wake", ("stmt", "is->active", 0), {"#opaque_init": ["is"]}),
        ("signal_wake_count", "__iv_signal_do_wake", ("stmt", "woken", 1), {}),
        ("signal_wake_excl", "__iv_signal_do_wake", ("cond", "if", 1), {"#opaque_init": ["is"]}),
    ]),
    ("LeafWait.v", "iv_wait.c", [
        ("wait_interest_compare", "iv_wait_interest_compare", ("fn",), {"#opaque_init": ["a", "b"]}),
        ("wait_find_hit", "__iv_wait_interest_find", ("cond", "if", 0), {}),
        ("wait_find_left", "__iv_wait_interest_find", ("cond", "if", 1), {}),
        # round 9: the reaper's wait4 call and loop exit, the routing test, the DEAD guards of kill / unregister
        ("wait_reap_which", "iv_wait_got_sigchld", ("arg", "wait4", 0, 0), {}),
        ("wait_reap_opts", "iv_wait_got_sigchld", ("arg", "wait4", 0, 2), {}),
        ("wait_reap_none", "iv_wait_got_sigchld", ("cond", "if", 0), {}),
        ("wait_reap_known", "iv_wait_got_sigchld", ("cond", "if", 3), {}),
        ("wait_kill_alive", "iv_wait_interest_kill", ("cond", "if", 0), {}),
        ("wait_unreg_in_tree", "iv_wait_interest_unregister", ("cond", "if", 0), {}),
    ]),
    # ---- index arithmetic and guards of the timer heap (linked to Timer/HeapModel.v by Timer/HeapLink.v) ----
    ("LeafHeap.v", "iv_timer.c", [
        ("heap_pull_more", "pull_up", ("cond", "while", 0), {}),
        ("heap_pull_parent", "pull_up", ("stmt", "parent", 0), {}),
        ("heap_pull_next", "pull_up", ("stmt", "index", 0), {}),
        ("heap_push_has_child", "push_down", ("cond", "if", 0), {}),
        ("heap_push_self", "push_down", ("stmt", "index_min", 0), {}),
        ("heap_push_left", "push_down", ("stmt", "index_min", 1), {}),
        ("heap_push_right", "push_down", ("stmt", "index_min", 2), {}),
        ("heap_push_node", "push_down", ("arg", "iv_timer_get_node", 0, 1), {}),
        ("heap_push_done", "push_down", ("cond", "if", 3), {}),
        ("heap_push_next", "push_down", ("stmt", "index", 0), {}),
        ("heap_reg_misuse", "iv_timer_register", ("cond", "if", 0), {}),
        ("heap_reg_index", "iv_timer_register", ("stmt", "index", 0), {}),
        ("heap_reg_numobjs", "iv_timer_register", ("stmt", "st->numobjs", 0), {}),
        ("heap_unreg_misuse", "iv_timer_unregister", ("cond", "if", 0), {}),
        ("heap_unreg_in_heap", "iv_timer_unregister", ("cond", "if", 1), {}),
        ("heap_unreg_range", "iv_timer_unregister", ("cond", "if", 2), {}),
        ("heap_run_none", "iv_run_timers", ("cond", "if", 0), {}),
        ("heap_run_more", "iv_run_timers", ("cond", "while", 0), {}),
        ("heap_run_root_index", "iv_run_timers", ("cond", "if", 2), {}),
        ("heap_soonest_any", "iv_get_soonest_timeout", ("cond", "if", 0), {}),
    ]),
    # ---- decision points of the sequential core loop (linked to Core/CoreModel.v, CoreFd.v by Core/CoreLeafLink.v) ----
    ("LeafCoreFd.v", "iv_fd.c", [
        ("core_tc_armed", "iv_fd_timeout_check", ("cond", "if", 0), {}),
        ("core_tc_keep", "iv_fd_timeout_check", ("cond", "if", 1), {}),
        ("core_tc_same", "iv_fd_timeout_check", ("cond", "if", 2), {}),
        ("core_tc_below", "iv_fd_timeout_check", ("cond", "if", 3), {}),
        ("core_tc_count_inc", "iv_fd_timeout_check", ("stmt", "st->last_abs_count", 0), {}),
        ("core_tc_arm", "iv_fd_timeout_check", ("cond", "if", 4), {}),
        ("core_tc_have_abs", "iv_fd_timeout_check", ("cond", "if", 5), {}),
        ("core_tc_count_one", "iv_fd_timeout_check", ("stmt", "st->last_abs_count", 1), {}),
        ("core_tc_count_zero", "iv_fd_timeout_check", ("stmt", "st->last_abs_count", 2), {}),
        ("core_par_rt", "iv_fd_poll_and_run", ("cond", "if", 1), {}),
        ("core_par_count_reset", "iv_fd_poll_and_run", ("stmt", "st->last_abs_count", 0), {}),
        ("core_disp_err", "iv_fd_poll_and_run", ("cond", "if", 2), {}),
        ("core_disp_err_h", "iv_fd_poll_and_run", ("cond", "if", 3), {}),
        ("core_disp_in", "iv_fd_poll_and_run", ("cond", "if", 4), {}),
        ("core_disp_in_h", "iv_fd_poll_and_run", ("cond", "if", 5), {}),
        ("core_disp_out", "iv_fd_poll_and_run", ("cond", "if", 6), {}),
        ("core_disp_out_h", "iv_fd_poll_and_run", ("cond", "if", 7), {}),
        ("core_disp_more", "iv_fd_poll_and_run", ("cond", "while", 0), {}),
        ("core_ready_fresh", "iv_fd_make_ready", ("cond", "if", 0), {}),
        ("core_ready_reset", "iv_fd_make_ready", ("stmt", "fd->ready_bands", 0), {}),
        ("core_ready_or", "iv_fd_make_ready", ("stmt", "fd->ready_bands", 1), {}),
    ]),
    ("LeafCoreTask.v", "iv_task.c", [
        ("core_task_main_list", "iv_task_register", ("cond", "if", 1), {}),
        ("core_task_reg_numobjs", "iv_task_register", ("stmt", "st->numobjs", 0), {}),
        ("core_task_unreg_numobjs", "iv_task_unregister", ("stmt", "st->numobjs", 0), {}),
        ("core_run_tasks_epoch", "iv_run_tasks", ("stmt", "epoch", 0), {}),
        ("core_run_tasks_stamp", "iv_run_tasks", ("stmt", "t->epoch", 0), {}),
        ("core_run_tasks_numobjs", "iv_run_tasks", ("stmt", "st->numobjs", 0), {}),
        ("core_task_init_epoch", "IV_TASK_INIT", ("stmt", "t->epoch", 0), {}),
    ]),
    ("LeafCoreMain.v", "iv_main_posix.c", [
        ("core_main_quit_reset", "iv_main", ("stmt", "st->quit", 0), {}),
        ("core_main_rt_init", "iv_main", ("stmt", "run_timers", 0), {}),
        ("core_main_rt_test", "iv_main", ("cond", "if", 0), {}),
        ("core_main_exit_test", "iv_main", ("cond", "if", 1), {}),
        ("core_main_tasks_pending", "iv_main", ("cond", "if", 2), {}),
        ("core_main_zero_sec", "iv_main", ("stmt", "_abs.tv_sec", 0), {}),
        ("core_main_zero_nsec", "iv_main", ("stmt", "_abs.tv_nsec", 0), {}),
    ]),
    ("LeafCoreEpoll.v", "iv_fd_epoll.c", [
        ("core_ep_failed", "iv_fd_epoll_poll", ("cond", "if", 0), {}),
        ("core_ep_more", "iv_fd_epoll_poll", ("cond", "for", 0), {}),
        ("core_ep_in", "iv_fd_epoll_poll", ("cond", "if", 3), {}),
        ("core_ep_out", "iv_fd_epoll_poll", ("cond", "if", 4), {}),
        ("core_ep_err", "iv_fd_epoll_poll", ("cond", "if", 5), {}),
        ("core_ep_run_events", "iv_fd_epoll_poll", ("cond", "if", 6), {}),
        ("core_ep_re_init", "iv_fd_epoll_poll", ("stmt", "run_events", 0), {}),
        ("core_ep_re_set", "iv_fd_epoll_poll", ("stmt", "run_events", 1), {}),
        ("core_et_rt_init", "iv_fd_epoll_timerfd_poll", ("stmt", "run_timers", 0), {}),
        ("core_et_failed", "iv_fd_epoll_timerfd_poll", ("cond", "if", 0), {}),
        ("core_et_rt_set", "iv_fd_epoll_timerfd_poll", ("stmt", "run_timers", 1), {}),
        ("core_notify_changed", "iv_fd_epoll_notify_fd", ("cond", "if", 0), {}),
        ("core_unreg_flush", "iv_fd_epoll_unregister_fd", ("cond", "if", 0), {}),
        ("core_flush_more", "iv_fd_epoll_flush_pending", ("cond", "while", 0), {}),
        ("core_flush_unchanged", "__iv_fd_epoll_flush_one", ("cond", "if", 0), {}),
        ("core_flush_add", "__iv_fd_epoll_flush_one", ("cond", "if", 1), {}),
        ("core_flush_del", "__iv_fd_epoll_flush_one", ("cond", "if", 2), {}),
        ("core_flush_ok", "__iv_fd_epoll_flush_one", ("cond", "if", 3), {}),
        ("core_flush_regb", "__iv_fd_epoll_flush_one", ("stmt", "fd->registered_bands", 0), {}),
    ]),
    ("LeafCoreEvent.v", "iv_event.c", [
        ("core_evp_unqueued", "iv_event_post", ("cond", "if", 0), {}),
        ("core_evp_first", "iv_event_post", ("cond", "if", 1), {}),
        ("core_evp_post_init", "iv_event_post", ("stmt", "post", 0), {}),
        ("core_evp_post_set", "iv_event_post", ("stmt", "post", 1), {}),
        ("core_evp_post_test", "iv_event_post", ("cond", "if", 2), {}),
        ("core_evp_same_thread", "iv_event_post", ("cond", "if", 3), {}),
        ("core_evp_need_task", "iv_event_post", ("cond", "if", 4), {}),
        ("core_evp_use_raw", "iv_event_post", ("cond", "if", 5), {}),
        ("core_evrun_nothing", "__iv_event_run_pending_events", ("cond", "if", 0), {}),
        ("core_evrun_last", "__iv_event_run_pending_events", ("cond", "if", 1), {}),
    ]),
    ("LeafCoreRaw.v", "iv_event_raw_posix.c", [
        ("raw_is_eventfd", "iv_event_raw_is_eventfd", ("fn",), {}),
        ("raw_toread", "iv_event_raw_got_event", ("stmt", "toread", 0), {}),
        ("raw_nothing", "iv_event_raw_got_event", ("cond", "if", 0), {}),
        ("raw_zero", "iv_event_raw_got_event", ("cond", "if", 1), {}),
        ("raw_post_pipe", "iv_event_raw_post", ("cond", "if", 0), {}),
        ("raw_post_size_pipe", "iv_event_raw_post", ("arg", "write", 0, 2), {}),
        ("raw_post_size_efd", "iv_event_raw_post", ("arg", "write", 1, 2), {}),
        ("raw_unreg_pipe", "iv_event_raw_unregister", ("cond", "if", 0), {}),
    ]),
    ("LeafCoreLists.v", "iv_task.c", [
        ("core_run_tasks_more", "iv_run_tasks", ("cond", "while", 0), {}),
        ("core_task_reg_misuse", "iv_task_register", ("cond", "if", 0), {}),
        ("core_task_unreg_misuse", "iv_task_unregister", ("cond", "if", 0), {}),
    ]),
    ("LeafCorePoll.v", "iv_fd_poll.c", [
        ("core_po_more", "iv_fd_poll_activate_fds", ("cond", "for", 0), {}),
        ("core_po_in", "iv_fd_poll_activate_fds", ("cond", "if", 0), {}),
        ("core_po_out", "iv_fd_poll_activate_fds", ("cond", "if", 1), {}),
        ("core_po_err", "iv_fd_poll_activate_fds", ("cond", "if", 2), {}),
        ("core_pn_add", "iv_fd_poll_notify_fd", ("cond", "if", 0), {}),
        ("core_pn_del", "iv_fd_poll_notify_fd", ("cond", "if", 1), {}),
        ("core_pn_last", "iv_fd_poll_notify_fd", ("cond", "if", 2), {}),
        ("core_pn_mod", "iv_fd_poll_notify_fd", ("cond", "if", 3), {}),
    ]),
]

# pure predicates over state that is not an integer of the translated text (intrusive lists): inside a controlling
# expression a call of one of these is a parameter of the translated test (see CTr.opaque_predicate)
OPAQUE_PREDICATES = {"iv_list_empty", "iv_task_registered", "iv_timer_registered", "iv_pending_tasks", "iv_pending_timers"}

_QUAL = re.compile(r"\b(const|volatile|restrict|__restrict)\b")
_AST_CACHE = {}
_SIZEOF_CACHE = {}


def clang_flags(incdir):
    return ["-D_GNU_SOURCE", "-DHAVE_CONFIG_H", "-I" + incdir, "-I" + os.path.join(REPO, "src", "include"),
            "-I" + os.path.join(REPO, "src")]


def ast_of_cached(cfile, fn, incdir):
    key = (cfile, fn)
    if key not in _AST_CACHE:
        _AST_CACHE[key] = ast_of(cfile, fn, incdir)
    return _AST_CACHE[key]


def c_sizeof(cfile, incdir, tytext):
    """sizeof(<type name>) in the translation unit src/<cfile>, evaluated by clang (LLVM IR of a global initialiser)"""
    key = (cfile, tytext)
    if key in _SIZEOF_CACHE:
        return _SIZEOF_CACHE[key]
    if tytext == "void":
        _SIZEOF_CACHE[key] = 1          # GNU C
        return 1
    src = '#include "%s"\nunsigned long c2g_sizeof_probe = sizeof(%s);\n' % (os.path.join(REPO, "src", cfile), tytext)
    p = subprocess.run(["clang", "-w", "-S", "-emit-llvm", "-o", "-", "-x", "c", "-"] + clang_flags(incdir), input=src,
                       stdout=subprocess.PIPE, stderr=subprocess.PIPE, text=True)
    m = re.search(r"@c2g_sizeof_probe\s*=.*\bglobal i64 (\d+)", p.stdout)
    if p.returncode != 0 or not m:
        raise Unsupported("sizeof(%s) could not be evaluated (clang: %s)" % (tytext, p.stderr[-200:]))
    _SIZEOF_CACHE[key] = int(m.group(1))
    return _SIZEOF_CACHE[key]


def c_enum_value(cfile, incdir, name):
    """value of the enumeration constant `name` in the translation unit src/<cfile>, evaluated by clang"""
    key = (cfile, "#enum " + name)
    if key in _SIZEOF_CACHE:
        return _SIZEOF_CACHE[key]
    src = '#include "%s"\nlong long c2g_enum_probe = (long long)(%s);\n' % (os.path.join(REPO, "src", cfile), name)
    p = subprocess.run(["clang", "-w", "-S", "-emit-llvm", "-o", "-", "-x", "c", "-"] + clang_flags(incdir), input=src,
                       stdout=subprocess.PIPE, stderr=subprocess.PIPE, text=True)
    m = re.search(r"@c2g_enum_probe\s*=.*\bglobal i64 (-?\d+)", p.stdout)
    if p.returncode != 0 or not m:
        raise Unsupported("enumeration constant %s could not be evaluated (clang: %s)" % (name, p.stderr[-200:]))
    _SIZEOF_CACHE[key] = int(m.group(1))
    return _SIZEOF_CACHE[key]


def ctype(tnode):
    """('int', signed, bits) | ('ptr', pointee text) | ('other', text)"""
    tnode = tnode or {}
    q = tnode.get("desugaredQualType") or tnode.get("qualType") or ""
    q = " ".join(_QUAL.sub(" ", q).split())
    if q.endswith("*"):
        return ("ptr", q[:-1].strip())
    if re.search(r"\(\*\s*\)\s*\(", q):
        return ("ptr", "function " + q)     # pointer to function: only its address (NULL or not, equality) is ever used
    if q in INT_TYPES:
        return ("int",) + INT_TYPES[q]
    return ("other", q)


def c_wrap(c, signed, bits):
    c %= 1 << bits
    return c - (1 << bits) if signed and c >= 1 << (bits - 1) else c


def c_fits(c, signed, bits):
    return (-(1 << (bits - 1)) <= c < (1 << (bits - 1))) if signed else (0 <= c < (1 << bits))


def zlit(c):
    return str(c) if c >= 0 else "(%d)" % c


class V:
    """a translated rvalue: pure Gallina term `t` (of type Z, or bool when k == 'B'), C type, python value when constant"""
    __slots__ = ("t", "ty", "k", "const")

    def __init__(self, t, ty, k="Z", const=None):
        self.t, self.ty, self.k, self.const = t, ty, k, const


class CTr:
    def __init__(self, gname, decl, cfile, incdir, sel, opts, known):
        self.gname, self.decl, self.cfile, self.incdir, self.sel, self.opts, self.known = gname, decl, cfile, incdir, sel, opts, known
        self.params = []            # [(gallina name, C spelling, C type text)] in order of first use
        self.pnames = {}            # gallina name -> C spelling (clash detection)
        self.binds = []             # [(variable, option-typed term)] of the innermost open scope
        self.checked = [set()]      # pointers already null-checked, per open scope
        self.nfresh = 0
        self.scoped_depth = 0       # > 0: inside an operand that C evaluates conditionally
        self.no_effects = False     # cond mode: the expression must not write
        self.fx_read, self.fx_mod = set(), set()     # objects read / modified since the last sequence point
        self.written = {}           # last field name -> {names written through a pointer path}
        self.outs = []              # [(name, spelling, type)] observable objects written, in order of first write
        self.addr_ptrs = set()      # pointer lvalues whose address occurs in the translated text
        self.opaque = set(opts.get("#opaque_init", []))
        body = [c for c in decl["inner"] if c["kind"] == "CompoundStmt"][0]
        self.body = body
        self.cparams = [(c["name"], c.get("type", {})) for c in decl["inner"] if c["kind"] == "ParmVarDecl"]
        self.locals = set(n for n, _ in self.cparams)
        self.collect_locals(body)
        self.all_out = sel[0] != "fn"

    # ---------------------------------------------------------------- helpers
    def collect_locals(self, n):
        if n.get("kind") == "VarDecl" and n.get("storageClass") != "static":
            self.locals.add(n["name"])
        for c in n.get("inner", []):
            if isinstance(c, dict):
                self.collect_locals(c)

    def fresh(self):
        self.nfresh += 1
        return "v%d" % self.nfresh

    def bind(self, oterm):
        v = self.fresh()
        self.binds.append((v, oterm))
        return v

    def scoped(self, f):
        saved = self.binds
        self.binds = []
        self.checked.append(set())
        self.scoped_depth += 1
        try:
            val = f()
            binds = self.binds
        finally:
            self.binds = saved
            self.checked.pop()
            self.scoped_depth -= 1
        return val, binds

    @staticmethod
    def close(binds, body):
        for v, t in reversed(binds):
            body = t if body == "(Some %s)" % v else "(ub_bind %s (fun %s => %s))" % (t, v, body)
        return body

    @staticmethod
    def unparen(t):
        return t[1:-1] if t.startswith("(") and t.endswith(")") else t

    def seq_point(self):
        self.fx_read, self.fx_mod = set(), set()

    def skip(self, n):
        while n.get("kind") in ("ParenExpr", "ConstantExpr"):
            n = n["inner"][0]
        return n

    def qual(self, n):
        return (n.get("type") or {}).get("qualType", "?")

    def param(self, name, text, tytext, ty, akey=None, base=None):
        if name in COQ_RESERVED or re.match(r"v\d+$", name) or name.startswith("c_"):
            raise Unsupported("C name %s clashes with a name of the generated text" % name)
        if self.pnames.setdefault(name, text) != text:
            raise Unsupported("flattened name %s stands for both `%s` and `%s`" % (name, self.pnames[name], text))
        if name not in [p[0] for p in self.params]:
            self.params.append((name, text, tytext, ty, akey, base if base is not None else name))
        return name

    # ---------------------------------------------------------------- lvalues
    def ptr_lvalue(self, n):
        """n: a pointer-valued rvalue expression.  The lvalue node it loads (through no-op / bit casts), or None."""
        loaded = False
        while True:
            n = self.skip(n)
            if n.get("kind") in ("ImplicitCastExpr", "CStyleCastExpr") and n.get("castKind") in ("LValueToRValue", "NoOp", "BitCast"):
                if n["castKind"] == "LValueToRValue":
                    if loaded:
                        return None
                    loaded = True
                n = n["inner"][0]
                continue
            break
        if loaded and n.get("kind") in ("DeclRefExpr", "MemberExpr"):
            return n
        return None

    def lv(self, n, env, check=True):
        """(flattened name, C spelling, alias key) of an lvalue expression"""
        n = self.skip(n)
        k = n["kind"]
        if k == "DeclRefExpr":
            rd = n["referencedDecl"]
            if rd.get("kind") not in ("VarDecl", "ParmVarDecl"):
                raise Unsupported("reference to a %s (%s)" % (rd.get("kind"), rd.get("name")))
            return rd["name"], rd["name"], None
        if k == "MemberExpr":
            if "name" not in n or not n["name"]:
                raise Unsupported("anonymous member")
            base = n["inner"][0]
            if n.get("isArrow"):
                pl = self.ptr_lvalue(base)
                if pl is None:
                    raise Unsupported("p->%s where p is not a variable or a field" % n["name"])
                bname, btext, _ = self.lv(pl, env, check)
                if check:
                    self.deref_check(bname, btext, pl, env)
                return bname + "_" + n["name"], btext + "->" + n["name"], n["name"]
            bname, btext, akey = self.lv(base, env, check)
            return bname + "_" + n["name"], btext + "." + n["name"], (n["name"] if akey is not None else None)
        raise Unsupported("lvalue of kind %s" % k)

    def deref_check(self, bname, btext, pl, env):
        if bname not in self.addr_ptrs or any(bname in s for s in self.checked):
            return
        a = self.read(bname, ctype(pl.get("type")), btext, self.qual(pl), env, None, record=False)
        self.bind("(c_deref %s)" % a.t)
        self.checked[-1].add(bname)

    def read(self, name, ty, text, tytext, env, akey, record=True):
        if ty[0] not in ("int", "ptr"):
            raise Unsupported("read of `%s` of type %s" % (text, tytext))
        base = name
        if ty[0] == "ptr":
            name += "_addr"
        if record:
            if name in self.fx_mod:
                raise Unsupported("`%s` is modified and read without an intervening sequence point" % text)
            self.fx_read.add(name)
        if akey is not None and self.written.get(akey, set()) - {name}:
            raise Unsupported("`%s` is accessed after a write to field %s through another path (possible alias)" % (text, akey))
        if name in env:
            return env[name]
        return V(self.param(name, text, tytext, ty, akey, base), ty)

    def write(self, name, ty, text, tytext, akey, val, env, in_expr):
        if self.no_effects:
            raise Unsupported("the controlling expression writes `%s`" % text)
        if self.scoped_depth:
            raise Unsupported("`%s` is written inside a conditionally evaluated operand" % text)
        if ty[0] not in ("int", "ptr"):
            raise Unsupported("write of `%s` of type %s" % (text, tytext))
        if ty[0] == "ptr":
            name += "_addr"
        if name in self.fx_mod or (in_expr and name in self.fx_read):
            raise Unsupported("`%s` is modified and accessed without an intervening sequence point" % text)
        self.fx_mod.add(name)
        if akey is not None:
            if self.written.get(akey, set()) - {name}:
                raise Unsupported("`%s` is written after a write to field %s through another path (possible alias)" % (text, akey))
            self.written.setdefault(akey, set()).add(name)
        env[name] = V(val.t, ty, val.k, val.const)
        root = re.split(r"->|\.", text)[0]
        if self.all_out or "->" in text or root not in self.locals:
            if name not in [o[0] for o in self.outs]:
                self.outs.append((name, text, tytext, ty, akey))

    # ---------------------------------------------------------------- values
    def asZ(self, v):
        if v.k == "B":
            return V("(b2z %s)" % v.t, v.ty, "Z", None)
        return v

    def asB(self, v):
        if v.k == "B":
            return v
        if v.const is not None:
            return V("true" if v.const != 0 else "false", C_INT, "B")
        return V("(negb (%s =? 0))" % v.t, C_INT, "B")

    def conv(self, v, dst, tytext="?"):
        if dst[0] != "int":
            raise Unsupported("conversion to %s" % tytext)
        if v.k == "B":
            return V(v.t, dst, "B")
        if v.ty[0] != "int":
            raise Unsupported("conversion of a non-integer to %s" % tytext)
        ds, db = dst[1], dst[2]
        if v.const is not None:
            c = c_wrap(v.const, ds, db)
            return V(zlit(c), dst, "Z", c)
        ss, sb = v.ty[1], v.ty[2]
        if (ss == ds and db >= sb) or (not ss and ds and db > sb):
            return V(v.t, dst)
        return V("(%s %d %s)" % ("c_wrap_s" if ds else "c_wrap_u", db, v.t), dst)

    def arith(self, op, a, b, ty, tytext):
        if ty[0] != "int":
            raise Unsupported("arithmetic in type %s" % tytext)
        signed, bits = ty[1], ty[2]
        if bits < 32:
            raise Unsupported("arithmetic in an unpromoted type %s" % tytext)
        a, b = self.asZ(a), self.asZ(b)
        if op in ("+", "-", "*"):
            if a.const is not None and b.const is not None:
                c = {"+": a.const + b.const, "-": a.const - b.const, "*": a.const * b.const}[op]
                if not signed:
                    c = c_wrap(c, False, bits)
                if c_fits(c, signed, bits):
                    return V(zlit(c), ty, "Z", c)
            t = "(%s %s %s)" % (a.t, op, b.t)
            if signed:
                return V(self.bind("(c_chk_s %d %s)" % (bits, t)), ty)
            return V("(c_wrap_u %d %s)" % (bits, t), ty)
        if op in ("&", "|", "^"):
            f = {"&": "Z.land", "|": "Z.lor", "^": "Z.lxor"}[op]
            return V("(%s %s %s)" % (f, a.t, b.t), ty)
        if op in ("/", "%"):
            if signed:
                f = "c_div_s %d" % bits if op == "/" else "c_rem_s %d" % bits
            else:
                f = "c_div_u" if op == "/" else "c_rem_u"
            return V(self.bind("(%s %s %s)" % (f, a.t, b.t)), ty)
        if op == "<<":
            return V(self.bind("(%s %d %s %s)" % ("c_shl_s" if signed else "c_shl_u", bits, a.t, b.t)), ty)
        if op == ">>":
            return V(self.bind("(c_shr %d %s %s)" % (bits, a.t, b.t)), ty)
        raise Unsupported("binary operator %s" % op)

    def elem_size(self, pty):
        if pty[0] != "ptr" or "(" in pty[1]:
            raise Unsupported("arithmetic on a pointer to %s" % (pty[1] if len(pty) > 1 else "?"))
        return c_sizeof(self.cfile, self.incdir, pty[1])

    def ptr_arith(self, op, p, n, ty):
        size = self.elem_size(ty)
        n = self.asZ(n)
        off = n.t if size == 1 else "(%s * %d)" % (n.t, size)
        return V(self.bind("(c_chk_ptr (%s %s %s))" % (p.t, op, off)), ty)

    # ---------------------------------------------------------------- expressions
    def ex(self, n, env):
        n = self.skip(n)
        k = n["kind"]
        ty = ctype(n.get("type"))
        tytext = self.qual(n)
        if k in ("IntegerLiteral", "CharacterLiteral"):
            c = int(n["value"])
            if ty[0] != "int" or not c_fits(c, ty[1], ty[2]):
                raise Unsupported("literal %s of type %s" % (n["value"], tytext))
            return V(zlit(c), ty, "Z", c)
        if k in ("ImplicitCastExpr", "CStyleCastExpr"):
            return self.cast(n, env, ty, tytext)
        if k == "UnaryOperator":
            return self.unary(n, env, ty, tytext)
        if k == "BinaryOperator":
            return self.binary(n, env, ty, tytext)
        if k == "ConditionalOperator":
            c, a, b = n["inner"]
            cv = self.asB(self.ex(c, env))
            self.seq_point()
            av, ba = self.scoped(lambda: self.ex(a, env))
            bv, bb = self.scoped(lambda: self.ex(b, env))
            if ty[0] not in ("int", "ptr"):
                raise Unsupported("?: of type %s" % tytext)
            kind = "B" if (av.k == "B" and bv.k == "B") else "Z"
            if kind == "Z":
                av, bv = self.asZ(av), self.asZ(bv)
            if not ba and not bb:
                return V("(if %s then %s else %s)" % (cv.t, av.t, bv.t), ty, kind)
            v = self.bind("(if %s then %s else %s)" % (cv.t, self.close(ba, "(Some %s)" % av.t), self.close(bb, "(Some %s)" % bv.t)))
            return V(v, ty, kind)
        if k == "CallExpr":
            return self.call(n, env)
        if k == "UnaryExprOrTypeTraitExpr" and n.get("name") == "sizeof":
            t = n["argType"]["qualType"] if "argType" in n else self.qual(self.skip(n["inner"][0]))
            c = c_sizeof(self.cfile, self.incdir, t)
            return V(zlit(c), ty, "Z", c)
        if k == "DeclRefExpr" and n.get("referencedDecl", {}).get("kind") == "EnumConstantDecl" and ty[0] == "int":
            # an enumeration constant (EPOLLIN ...): its value is evaluated by clang for the current source, like sizeof
            c = c_enum_value(self.cfile, self.incdir, n["referencedDecl"]["name"])
            if not c_fits(c, ty[1], ty[2]):
                raise Unsupported("enumeration constant %s = %d does not fit its type" % (n["referencedDecl"]["name"], c))
            return V(zlit(c), ty, "Z", c)
        if k in ("DeclRefExpr", "MemberExpr"):
            rd = n.get("referencedDecl", {})
            raise Unsupported("use of %s %s as a value" % (rd.get("kind", k), rd.get("name", n.get("name", ""))))
        raise Unsupported("expression of kind %s" % k)

    def cast(self, n, env, ty, tytext):
        ck = n.get("castKind")
        sub = n["inner"][0]
        if ck == "LValueToRValue":
            s = self.skip(sub)
            name, text, akey = self.lv(s, env)
            return self.read(name, ctype(s.get("type")), text, self.qual(s), env, akey)
        if ck == "NoOp":
            v = self.ex(sub, env)
            return V(v.t, ty if ty[0] in ("int", "ptr") else v.ty, v.k, v.const)
        if ck == "IntegralCast":
            return self.conv(self.ex(sub, env), ty, tytext)
        if ck == "BitCast":
            v = self.ex(sub, env)
            if v.ty[0] != "ptr" or ty[0] != "ptr":
                raise Unsupported("bit cast to %s" % tytext)
            return V(v.t, ty, v.k, v.const)
        if ck == "NullToPointer":
            return V("0", ty, "Z", 0)
        if ck == "ArrayToPointerDecay":
            s = self.skip(sub)
            if s.get("kind") != "DeclRefExpr":
                raise Unsupported("decay of an array that is not a variable")
            name, text, _ = self.lv(s, env)
            return V(self.param(name + "_addr", "&%s[0]" % text, self.qual(s), ty, None, name), ty)
        if ck == "PointerToIntegral":
            v = self.ex(sub, env)
            return self.conv(V(v.t, C_ULONG, "Z", v.const), ty, tytext)
        if ck == "IntegralToPointer":
            v = self.conv(self.ex(sub, env), C_ULONG)
            return V(v.t, ty, "Z", v.const)
        raise Unsupported("cast of kind %s to %s" % (ck, tytext))

    def unary(self, n, env, ty, tytext):
        op = n["opcode"]
        sub = n["inner"][0]
        if op in ("++", "--"):
            return self.incdec(n, env)
        if op == "!":
            return V("(negb %s)" % self.asB(self.ex(sub, env)).t, C_INT, "B")
        if op in ("-", "+", "~"):
            if ty[0] != "int" or ty[2] < 32:
                raise Unsupported("unary %s in type %s" % (op, tytext))
            v = self.asZ(self.ex(sub, env))
            signed, bits = ty[1], ty[2]
            if op == "+":
                return V(v.t, ty, "Z", v.const)
            if op == "-":
                if v.const is not None:
                    c = -v.const if signed else c_wrap(-v.const, False, bits)
                    if c_fits(c, signed, bits):
                        return V(zlit(c), ty, "Z", c)
                if signed:
                    return V(self.bind("(c_chk_s %d (- %s))" % (bits, v.t)), ty)
                return V("(c_wrap_u %d (- %s))" % (bits, v.t), ty)
            if signed:
                return V("(Z.lnot %s)" % v.t, ty)
            return V("(c_wrap_u %d (Z.lnot %s))" % (bits, v.t), ty)
        raise Unsupported("unary operator %s" % op)

    def incdec(self, n, env):
        op = "+" if n["opcode"] == "++" else "-"
        s = self.skip(n["inner"][0])
        name, text, akey = self.lv(s, env)
        ty, tytext = ctype(s.get("type")), self.qual(s)
        old = self.read(name, ty, text, tytext, env, akey, record=False)
        pname = name + "_addr" if ty[0] == "ptr" else name
        if pname in self.fx_mod or pname in self.fx_read:
            raise Unsupported("`%s` is modified and accessed without an intervening sequence point" % text)
        if ty[0] == "ptr":
            new = self.ptr_arith(op, old, V("1", C_INT, "Z", 1), ty)
        elif ty[0] == "int":
            t = "(%s %s 1)" % (old.t, op)
            if ty[2] < 32:          # computed in int (no overflow), converted back
                new = V("(%s %d %s)" % ("c_wrap_s" if ty[1] else "c_wrap_u", ty[2], t), ty)
            elif ty[1]:
                new = V(self.bind("(c_chk_s %d %s)" % (ty[2], t)), ty)
            else:
                new = V("(c_wrap_u %d %s)" % (ty[2], t), ty)
        else:
            raise Unsupported("%s on type %s" % (n["opcode"], tytext))
        self.write(name, ty, text, tytext, akey, new, env, False)
        return old if n.get("isPostfix") else new

    def binary(self, n, env, ty, tytext):
        op = n["opcode"]
        a, b = n["inner"]
        if op in ("&&", "||"):
            av = self.asB(self.ex(a, env))
            self.seq_point()
            bv, bb = self.scoped(lambda: self.asB(self.ex(b, env)))
            if not bb:
                return V("(%s %s %s)" % (av.t, op, bv.t), C_INT, "B")
            v = self.bind("(%s (Some %s) %s)" % ("ub_and" if op == "&&" else "ub_or", av.t, self.close(bb, "(Some %s)" % bv.t)))
            return V(v, C_INT, "B")
        if op in ("<", "<=", ">", ">=", "==", "!="):
            av, bv = self.ex(a, env), self.ex(b, env)
            if av.ty[0] != bv.ty[0] or av.ty[0] not in ("int", "ptr"):
                raise Unsupported("comparison of %s with %s" % (self.qual(a), self.qual(b)))
            if av.ty[0] == "int" and av.ty != bv.ty and av.k != "B" and bv.k != "B":
                raise Unsupported("comparison of operands of different types %s / %s" % (self.qual(a), self.qual(b)))
            av, bv = self.asZ(av), self.asZ(bv)
            if op == "!=":
                return V("(negb (%s =? %s))" % (av.t, bv.t), C_INT, "B")
            m = {"<": "<?", "<=": "<=?", ">": ">?", ">=": ">=?", "==": "=?"}[op]
            return V("(%s %s %s)" % (av.t, m, bv.t), C_INT, "B")
        if op in ("=", ",") or op.endswith("=") and op not in ("<=", ">=", "==", "!="):
            raise Unsupported("operator %s inside an expression" % op)
        av, bv = self.ex(a, env), self.ex(b, env)
        if ty[0] == "ptr":
            if op == "+" and av.ty[0] == "ptr" and bv.ty[0] == "int":
                return self.ptr_arith("+", av, bv, ty)
            if op == "+" and bv.ty[0] == "ptr" and av.ty[0] == "int":
                return self.ptr_arith("+", bv, av, ty)
            if op == "-" and av.ty[0] == "ptr" and bv.ty[0] == "int":
                return self.ptr_arith("-", av, bv, ty)
            raise Unsupported("pointer operator %s" % op)
        if av.ty[0] != "int" or bv.ty[0] != "int":
            raise Unsupported("operator %s on %s / %s" % (op, self.qual(a), self.qual(b)))
        if op in ("<<", ">>"):
            if av.ty != ty and av.k != "B":
                raise Unsupported("shift whose left operand is not of the result type")
        elif (av.ty != ty and av.k != "B") or (bv.ty != ty and bv.k != "B"):
            raise Unsupported("operator %s whose operands are not of the result type %s" % (op, tytext))
        return self.arith(op, av, bv, ty, tytext)

    def callee_name(self, n):
        c = n["inner"][0]
        while c.get("kind") in ("ImplicitCastExpr", "ParenExpr"):
            c = c["inner"][0]
        if c.get("kind") != "DeclRefExpr" or c.get("referencedDecl", {}).get("kind") != "FunctionDecl":
            raise Unsupported("indirect call")
        return c["referencedDecl"]["name"]

    def opaque_predicate(self, fn, n, env):
        """a call of one of OPAQUE_PREDICATES inside a controlling expression: the list / registration state it inspects is
        not an integer of the translated text, so its result (an int, 0 or not) becomes a parameter named after the function
        and its argument; what the model says about that state is the business of the link lemma"""
        if not self.no_effects:
            raise Unsupported("call of %s outside a controlling expression" % fn)
        args = n["inner"][1:]
        if len(args) != 1:
            raise Unsupported("call of %s with %d arguments" % (fn, len(args)))
        a = self.skip(args[0])
        while a.get("kind") in ("ImplicitCastExpr", "CStyleCastExpr") and a.get("castKind") in ("NoOp", "BitCast"):
            a = self.skip(a["inner"][0])
        if a.get("kind") == "UnaryOperator" and a.get("opcode") == "&":
            name, text, _ = self.lv(self.skip(a["inner"][0]), env, check=False)
            text = "&" + text
        else:
            pl = self.ptr_lvalue(a)
            if pl is None:
                raise Unsupported("argument of %s that is neither &lvalue nor a pointer variable" % fn)
            name, text, _ = self.lv(pl, env, check=False)
        pname = "%s_%s" % (fn.lstrip("_"), name)
        return V(self.param(pname, "%s(%s)" % (fn, text), "int", C_INT, None, pname), C_INT)

    def call(self, n, env):
        fn = self.callee_name(n)
        if fn in OPAQUE_PREDICATES and fn not in self.known:
            return self.opaque_predicate(fn, n, env)
        if fn not in self.known:
            raise Unsupported("call of %s (not a translated function of this file)" % fn)
        info = self.known[fn]
        if info["outs"]:
            raise Unsupported("call of %s, which writes through its parameters" % fn)
        if info["ret"] is None:
            raise Unsupported("call of the void function %s" % fn)
        args = n["inner"][1:]
        if len(args) != len(info["cparams"]):
            raise Unsupported("call of %s with %d arguments" % (fn, len(args)))
        amap = {}
        for (cn, cty), a in zip(info["cparams"], args):
            t = ctype(cty)
            if t[0] == "int":
                amap[cn] = ("val", self.conv(self.ex(a, env), t))
            elif t[0] == "ptr":
                pl = self.ptr_lvalue(a)
                if pl is None:
                    raise Unsupported("pointer argument of %s that is not a variable or a field" % fn)
                name, text, _ = self.lv(pl, env)
                amap[cn] = ("ptr", name, text)
            else:
                raise Unsupported("argument of type %s" % cty.get("qualType"))
        actuals = []
        for (_, text, tytext, pty, akey, base) in info["params"]:
            root = re.split(r"->|\.", text)[0].lstrip("&").split("[")[0]
            if root not in amap:
                raise Unsupported("call of %s, which reads `%s`" % (fn, text))
            if amap[root][0] == "val":
                actuals.append(self.asZ(amap[root][1]).t)
            else:
                _, aname, atext = amap[root]
                v = self.read(aname + base[len(root):], pty, atext + text[len(root):], tytext, env, akey)
                actuals.append(self.asZ(v).t)
        v = self.bind("(%s %s)" % (info["gname"], " ".join(actuals)) if actuals else "(%s tt)" % info["gname"])
        return V(v, info["ret"])

    # ---------------------------------------------------------------- statements with effects
    def effect(self, s, env):
        """an expression statement / declaration: updates env.  Returns the (name, ...) of the lvalue written (or None)."""
        k = s["kind"]
        tgt = None
        if k == "DeclStmt":
            for d in s.get("inner", []):
                if d["kind"] != "VarDecl":
                    raise Unsupported("declaration %s" % d["kind"])
                if d.get("storageClass") == "static":
                    raise Unsupported("static local %s" % d["name"])
                inits = [c for c in d.get("inner", []) if isinstance(c, dict) and "kind" in c and not c["kind"].endswith("Attr")]
                if inits and d["name"] not in self.opaque:
                    ty = ctype(d.get("type"))
                    v = self.ex(inits[0], env)
                    if ty[0] == "int":
                        v = self.conv(v, ty, self.qual(d))
                    self.write(d["name"], ty, d["name"], self.qual(d), None, v, env, False)
                    tgt = d["name"]
                self.seq_point()
            return tgt
        if k == "BinaryOperator" and s["opcode"] == "=":
            lhs, rhs = s["inner"]
            l = self.skip(lhs)
            name, text, akey = self.lv(l, env)
            ty, tytext = ctype(l.get("type")), self.qual(l)
            v = self.ex(rhs, env)
            if ty[0] == "int":
                v = self.conv(v, ty, tytext)
            elif ty[0] != "ptr" or v.ty[0] != "ptr":
                raise Unsupported("assignment to `%s` of type %s" % (text, tytext))
            self.write(name, ty, text, tytext, akey, v, env, False)
            self.seq_point()
            return text
        if k == "CompoundAssignOperator":
            lhs, rhs = s["inner"]
            l = self.skip(lhs)
            name, text, akey = self.lv(l, env)
            ty, tytext = ctype(l.get("type")), self.qual(l)
            op = s["opcode"][:-1]
            old = self.read(name, ty, text, tytext, env, akey)
            r = self.ex(rhs, env)
            if ty[0] == "ptr":
                if op not in ("+", "-") or r.ty[0] != "int":
                    raise Unsupported("%s on a pointer" % s["opcode"])
                new = self.ptr_arith(op, old, r, ty)
            else:
                lt, rt = ctype(s.get("computeLHSType")), ctype(s.get("computeResultType"))
                a = self.conv(old, lt, "computation type")
                new = self.conv(self.arith(op, a, r, rt, "computation type"), ty, tytext)
            self.write(name, ty, text, tytext, akey, new, env, False)
            self.seq_point()
            return text
        if k == "UnaryOperator" and s["opcode"] in ("++", "--"):
            self.incdec(s, env)
            self.seq_point()
            return self.lv(self.skip(s["inner"][0]), env, check=False)[1]
        if k == "CallExpr":
            self.call(s, env)
            self.seq_point()
            return None
        raise Unsupported("statement of kind %s" % k)

    # ---------------------------------------------------------------- whole functions
    def exec(self, stmts, env):
        """tree: ("RET", value or None, env) | ("IF", cond, t, e) | ("BIND", var, term, rest)"""
        if not stmts:
            return ("RET", None, env)
        s, rest = stmts[0], stmts[1:]
        k = s["kind"]
        if k == "CompoundStmt":
            return self.exec(list(s.get("inner", [])) + rest, env)
        if k == "NullStmt":
            return self.exec(rest, env)
        saved = self.binds
        self.binds = []
        self.checked.append(set())
        try:
            if k == "IfStmt":
                if s.get("hasInit") or s.get("hasVar"):
                    raise Unsupported("if with a declaration")
                inner = s["inner"]
                c = self.asB(self.ex(inner[0], env))
                self.seq_point()
                tree = ("IF", c.t, self.exec([inner[1]] + rest, dict(env)), self.exec(([inner[2]] if len(inner) > 2 else []) + rest, dict(env)))
            elif k == "ReturnStmt":
                v = None
                if s.get("inner"):
                    v = self.ex(s["inner"][0], env)
                    self.seq_point()
                tree = ("RET", v, env)
            else:
                self.effect(s, env)
                tree = self.exec(rest, env)
            for v, t in reversed(self.binds):
                tree = ("BIND", v, t, tree)
            return tree
        finally:
            self.binds = saved
            self.checked.pop()

    def render(self, t, ind, ret_ty):
        pad = "  " * ind
        if t[0] == "RET":
            _, v, env = t
            vals = []
            if ret_ty is not None:
                if v is None:
                    raise Unsupported("a path of a non-void function returns no value")
                vals.append(self.asZ(v).t)
            for (name, text, tytext, ty, akey) in self.outs:
                if name in env:
                    vals.append(self.asZ(env[name]).t)
                else:                       # not written on this path: still its initial value
                    vals.append(self.param(name, text, tytext, ty, akey, name[:-5] if ty[0] == "ptr" else name))
            return pad + "Some " + (vals[0] if len(vals) == 1 and " " not in vals[0] else "(" + ", ".join(vals) + ")")
        if t[0] == "IF":
            return "%sif %s then\n%s\n%selse\n%s" % (pad, t[1], self.render(t[2], ind + 1, ret_ty), pad, self.render(t[3], ind + 1, ret_ty))
        if t[0] == "BIND":
            rest = self.render(t[3], ind, ret_ty)
            if rest.strip() == "Some " + t[1]:
                return pad + self.unparen(t[2])
            return "%sub_bind %s (fun %s =>\n%s)" % (pad, t[2], t[1], rest)
        raise Unsupported("tree")

    # ---------------------------------------------------------------- selection of the translated text
    def statements(self, n, out):
        """all statement nodes below n, in pre-order"""
        k = n.get("kind")
        inner = [c if isinstance(c, dict) else {} for c in n.get("inner", [])]
        if k == "CompoundStmt":
            subs = inner
        elif k == "IfStmt":
            subs = inner[1:]
        elif k == "WhileStmt":
            subs = inner[-1:]
        elif k == "DoStmt":
            subs = inner[:1]
        elif k == "ForStmt":
            subs = [inner[0], inner[-1]] if len(inner) == 5 else []
        elif k in ("LabelStmt", "CaseStmt", "DefaultStmt", "SwitchStmt"):
            subs = inner[-1:]
        else:
            subs = []
        for c in subs:
            if "kind" in c:
                out.append(c)
                self.statements(c, out)
        return out

    def spelled(self, n):
        try:
            return self.lv(self.skip(n), {}, check=False)[1]
        except Unsupported:
            return None

    def scan_addr(self, n):
        """pointer lvalues whose address is used by the text below n (comparison, conversion to an integer, !p, p && q)"""
        if not isinstance(n, dict):
            return
        k = n.get("kind")
        cands = []
        if k == "BinaryOperator" and n.get("opcode") in ("<", "<=", ">", ">=", "==", "!=", "&&", "||"):
            cands = n["inner"]
        elif k == "UnaryOperator" and n.get("opcode") == "!":
            cands = n["inner"]
        elif k in ("ImplicitCastExpr", "CStyleCastExpr") and n.get("castKind") in ("PointerToIntegral", "PointerToBoolean"):
            cands = n["inner"]
        elif k in ("IfStmt", "WhileStmt", "ConditionalOperator"):
            cands = n["inner"][:1]
        elif k == "DoStmt":
            cands = n["inner"][1:2]
        for c in cands:
            pl = self.ptr_lvalue(c) if "*" in self.qual(c) else None
            if pl is not None:
                try:
                    self.addr_ptrs.add(self.lv(pl, {}, check=False)[0])
                except Unsupported:
                    pass
        for c in n.get("inner", []):
            self.scan_addr(c)

    def signature(self, cnames):
        order = []
        for cp in cnames:
            for p in self.params:
                root = re.split(r"->|\.", p[1])[0].lstrip("&").split("[")[0]
                if root == cp and p not in order:
                    order.append(p)
        for p in self.params:
            if p not in order:
                order.append(p)
        return order

    def translate(self):
        sel = self.sel
        fn = self.decl["name"]
        if sel[0] == "fn":
            self.scan_addr(self.body)
            rtext = self.decl.get("type", {}).get("qualType", "").split("(")[0].strip()
            ret_ty = None
            if rtext != "void":
                # the operand of a return statement has been converted to the result type by clang
                rets = [s for s in self.statements(self.body, []) if s["kind"] == "ReturnStmt" and s.get("inner")]
                if not rets:
                    raise Unsupported("non-void function without a return statement")
                ret_ty = ctype(rets[0]["inner"][0].get("type"))
                if ret_ty[0] != "int":
                    raise Unsupported("function returning %s" % rtext)
            tree = self.exec([self.body], {})
            text = self.render(tree, 1, ret_ty)
            n = (1 if ret_ty is not None else 0) + len(self.outs)
            if n == 0:
                raise Unsupported("the function returns nothing and writes nothing observable")
            rty = "Z" if n == 1 else "(" + " * ".join(["Z"] * n) + ")"
            what = "%s() of src/%s" % (fn, self.cfile)
            res = ([] if ret_ty is None else ["the return value"]) + ["`%s`" % o[1] for o in self.outs]
            order = self.signature([c for c, _ in self.cparams])
            self.known[fn] = {"gname": self.gname, "cparams": self.cparams, "ret": ret_ty, "outs": list(self.outs), "params": order}
        elif sel[0] == "cond":
            kind = {"if": "IfStmt", "while": "WhileStmt", "do": "DoStmt", "for": "ForStmt"}[sel[1]]
            found = [s for s in self.statements(self.body, []) if s["kind"] == kind]
            if len(found) <= sel[2]:
                raise Unsupported("%s() has no %s statement number %d" % (fn, sel[1], sel[2]))
            s = found[sel[2]]
            if s.get("hasInit") or s.get("hasVar"):
                raise Unsupported("%s statement with a declaration" % sel[1])
            cond = s["inner"][{"IfStmt": 0, "WhileStmt": 0, "DoStmt": 1, "ForStmt": 2}[kind]]
            if not cond or "kind" not in cond:
                raise Unsupported("%s statement without a condition" % sel[1])
            self.scan_addr({"kind": "IfStmt", "inner": [cond]})
            self.no_effects = True
            v = self.asB(self.ex(cond, {}))
            text = "  " + self.unparen(self.close(self.binds, "(Some %s)" % v.t))
            rty = "bool"
            what = "controlling expression of %s statement #%d of %s() of src/%s" % (sel[1], sel[2], fn, self.cfile)
            res = ["the value of the test"]
            order = list(self.params)
        elif sel[0] == "stmt":
            found = []
            for s in self.statements(self.body, []):
                k = s["kind"]
                if k == "DeclStmt":
                    if any(d.get("kind") == "VarDecl" and d.get("name") == sel[1] and
                           [c for c in d.get("inner", []) if isinstance(c, dict) and "kind" in c and not c["kind"].endswith("Attr")]
                           for d in s.get("inner", [])) and len(s.get("inner", [])) == 1:
                        found.append(s)
                elif (k == "BinaryOperator" and s.get("opcode") == "=") or k == "CompoundAssignOperator" or \
                        (k == "UnaryOperator" and s.get("opcode") in ("++", "--")):
                    if self.spelled(s["inner"][0]) == sel[1]:
                        found.append(s)
            if len(found) <= sel[2]:
                raise Unsupported("%s() has no statement number %d writing `%s`" % (fn, sel[2], sel[1]))
            s = found[sel[2]]
            self.scan_addr(s)
            env = {}
            self.effect(s, env)
            tgt = [o for o in self.outs if o[1] == sel[1]]
            if len(tgt) != 1:
                raise Unsupported("statement does not write `%s`" % sel[1])
            self.outs = tgt + [o for o in self.outs if o[1] != sel[1]]
            vals = [self.asZ(env[o[0]]).t for o in self.outs]
            text = "  " + self.unparen(self.close(self.binds, "(Some %s)" % (vals[0] if len(vals) == 1 else "(" + ", ".join(vals) + ")")))
            rty = "Z" if len(vals) == 1 else "(" + " * ".join(["Z"] * len(vals)) + ")"
            what = "statement #%d writing `%s` of %s() of src/%s" % (sel[2], sel[1], fn, self.cfile)
            res = ["new value of `%s`" % o[1] for o in self.outs]
            order = list(self.params)
        elif sel[0] == "arg":
            calls = []

            def walk(n):
                if isinstance(n, dict):
                    if n.get("kind") == "CallExpr":
                        try:
                            if self.callee_name(n) == sel[1]:
                                calls.append(n)
                        except Unsupported:
                            pass
                    for c in n.get("inner", []):
                        walk(c)
            walk(self.body)
            if len(calls) <= sel[2] or len(calls[sel[2]]["inner"]) <= sel[3] + 1:
                raise Unsupported("%s() has no call number %d of %s with an argument %d" % (fn, sel[2], sel[1], sel[3]))
            a = calls[sel[2]]["inner"][sel[3] + 1]
            self.scan_addr(a)
            self.no_effects = True
            v = self.asZ(self.ex(a, {}))
            text = "  " + self.unparen(self.close(self.binds, "(Some %s)" % v.t))
            rty = "Z"
            what = "argument %d of call #%d of %s in %s() of src/%s" % (sel[3], sel[2], sel[1], fn, self.cfile)
            res = ["the value of the argument"]
            order = list(self.params)
        else:
            raise Unsupported("selector %s" % (sel,))
        com = "%s\n   parameters: %s\n   result: Some (%s)%s" % (
            what, "; ".join("%s = `%s` : %s" % p[:3] for p in order) if order else "none", ", ".join(res),
            ("\n   initialisers NOT translated (opaque locals): " + ", ".join(sorted(self.opaque))) if self.opaque else "")
        com = com.replace("*)", "* )").replace("(*", "( *")
        return "(* " + com + " *)\n" + "Definition %s %s : option %s :=\n%s.\n" % (
            self.gname, " ".join("(%s : Z)" % p[0] for p in order) if order else "(_ : unit)", rty, text)


def main_typed(out_path, inc, typed):
    """(re)write the given entries of TYPED next to out_path; failures go to LAST_ERRORS[file name]"""
    # typed translations (TYPED): one file per C source file, failures per file in LAST_ERRORS (the other files are not disturbed)
    for fname, cfile, entries in typed:
        head = ("(* %s -- GENERATED by gen/c2gallina.py (TYPED, class CTr) from the current C source of /repo/src/%s.  Do not edit.\n"
                "   Every definition has type option T: None = an operation whose behaviour C leaves undefined was executed; the\n"
                "   semantics of the C operators (wrap-around, range checks, shifts, null dereference) is Base/CSem.v; conventions\n"
                "   (flattened lvalues p->f = p_f, address of a pointer p = p_addr, block-scope variables as parameters) in the\n"
                "   comment above class CTr of gen/c2gallina.py. *)\n"
                "From Coq Require Import ZArith Bool.\nFrom Ivv Require Import Base.CSem.\nLocal Open Scope Z_scope.\n\n" % (fname, cfile))
        LAST_ERRORS.pop(fname, None)
        gparts = [head]
        cur = "?"
        try:
            known2 = {}
            for gname, fn, sel, opts in entries:
                cur = "%s (%s of %s)" % (gname, " ".join(str(x) for x in sel), fn)
                tr = CTr(gname, ast_of_cached(cfile, fn, inc), cfile, inc, sel, opts, known2)
                gparts.append(tr.translate() + "\n")
        except (Unsupported, KeyError, IndexError, TypeError, ValueError) as e:
            LAST_ERRORS[fname] = "c2gallina: %s: %s: unsupported construct: %s" % (cfile, cur, e)
            gparts = [head, "(* TRANSLATION FAILED: %s: %s *)\n" % (cur, str(e).replace("*)", "* )").replace("(*", "( *"))]
        gpath = os.path.join(os.path.dirname(out_path), fname)
        gnew = "".join(gparts)
        gold = open(gpath).read() if os.path.exists(gpath) else None
        if gnew != gold:
            os.makedirs(os.path.dirname(gpath), exist_ok=True)
            open(gpath, "w").write(gnew)
    return None


def main(out_path=None, only=None):
    """only = None: the files of FUNCS / CONDS / TLS_* (Leaf.v, LeafTimer.v, LeafTls.v), as before TYPED existed;
    only = "all": those and every file of TYPED;  only = [file names]: exactly these files of TYPED and nothing else.
    Every check regenerates just the generated files its own proofs depend on, so that runs against different source trees
    (VERIF_REPO, mutation surveys) of DIFFERENT properties do not rewrite each other's generated files."""
    out_path = out_path or os.path.join(VERIF, "coq", "theories", "Gen", "Leaf.v")
    legacy = only is None or only == "all"
    typed = [t for t in TYPED if only == "all" or (only is not None and t[0] in only)]
    if only not in (None, "all"):
        unknown = [f for f in only if f not in [t[0] for t in TYPED]]
        if unknown:
            return "c2gallina: no such generated file: %s" % ", ".join(unknown)
    inc = os.path.join(VERIF, "build", "gen_inc.%d" % os.getpid())
    os.makedirs(inc, exist_ok=True)
    try:
        txt = open(os.path.join(REPO, "src", "include", "iv.h.in")).read().replace("@ac_cv_timespec_hdr@", "sys/time.h")
        open(os.path.join(inc, "iv.h"), "w").write(txt)
        cfg = os.path.join(REPO, "config.h")
        if not os.path.exists(cfg):
            cfg = os.path.join(VERIF, "harness", "config.h.fallback")
        open(os.path.join(inc, "config.h"), "w").write(open(cfg).read())
        if not legacy:
            return main_typed(out_path, inc, typed)
        known = {}
        parts = ["(* Leaf.v -- GENERATED by gen/c2gallina.py from the current C source of /repo/src.  Do not edit.\n"
                 "   Each definition is the translation of one loop-free leaf function; see gen/c2gallina.py for the\n"
                 "   supported subset and conventions (pointer parameters are flattened into their fields, C '/' is\n"
                 "   Z.quot, comparisons yield 0/1). *)\n"
                 "From Coq Require Import ZArith Bool.\nLocal Open Scope Z_scope.\n\n"
                 "Definition b2z (b : bool) : Z := if b then 1 else 0.\n"
                 "Definition wrap_s8 (x : Z) : Z := ((x + 128) mod 256) - 128.\n\n"]
        for gname, fn, cfile, assume in FUNCS:
            decl = ast_of(cfile, fn, inc)
            tr = Tr(gname, decl, assume, known)
            text, order, outs, cparams = tr.translate()
            known[fn] = (gname, order, outs)
            known[fn + "#cparams"] = cparams
            parts.append("(* %s() of src/%s%s *)\n" % (fn, cfile, (" assuming " + ", ".join("%s = %s" % kv for kv in assume.items())) if assume else ""))
            parts.append(text + "\n")
        cparts = ["(* LeafTimer.v -- GENERATED by gen/c2gallina.py (CONDS) from the current C source of /repo/src.  Do not edit.\n"
                  "   Conditions of if statements with the undefined behaviour of C explicit: the result is an option bool,\n"
                  "   None = an operation that C leaves undefined (shift of an int by a negative count or by >= 32) was executed;\n"
                  "   && and || short-circuit; sizeof(int expression) = 4; + - * are not range-checked. *)\n"
                  "From Coq Require Import ZArith Bool.\nLocal Open Scope Z_scope.\n\n", COND_PRELUDE]
        for gname, fn, cfile, which in CONDS:
            decl = ast_of(cfile, fn, inc)
            cparts.append("(* condition of if statement #%d of %s() of src/%s *)\n" % (which, fn, cfile))
            cparts.append(translate_cond(gname, decl, which) + "\n")
        cond_path = os.path.join(os.path.dirname(out_path), "LeafTimer.v")
        cnew = "".join(cparts)
        cold = open(cond_path).read() if os.path.exists(cond_path) else None
        if cnew != cold:
            os.makedirs(os.path.dirname(cond_path), exist_ok=True)
            open(cond_path, "w").write(cnew)
        # Gen/LeafTls.v (TLS_FUNCS, TLS_GLOBAL_INITS).  A construct outside the subset does not disturb Leaf.v and its
        # users: the file then holds no definitions (Small/TlsLink.v stops compiling) and the message is kept in
        # LAST_ERRORS for the check that owns the file (C18)
        tparts = ["(* LeafTls.v -- GENERATED by gen/c2gallina.py (TLS_FUNCS, TLS_GLOBAL_INITS) from the current C source of\n"
                  "   /repo/src/iv_tls.c.  Do not edit.  Conventions as in Leaf.v; a path that calls iv_fatal yields None; writes\n"
                  "   to file-scope variables are out-fields; list_call names the list primitive called (1 = iv_list_add_tail,\n"
                  "   2 = iv_list_add); sizeof (T) is the parameter sizeof_T. *)\n"
                  "From Coq Require Import ZArith Bool.\nFrom Ivv Require Import Gen.Leaf.\nLocal Open Scope Z_scope.\n\n"]
        LAST_ERRORS.pop("LeafTls.v", None)
        try:
            for gname, fn, cfile, opts in TLS_FUNCS:
                decl = ast_of(cfile, fn, inc)
                tr = Tr(gname, decl, opts, dict(known))
                text, order, outs, cparams = tr.translate()
                tparts.append("(* %s() of src/%s *)\n" % (fn, cfile))
                tparts.append(text + "\n")
            for gname, var, cfile in TLS_GLOBAL_INITS:
                decl = ast_var_of(cfile, var, inc)
                tr = Tr(gname, decl, {}, dict(known))
                body = tr.z(decl["inner"][-1], {})
                tparts.append("(* static initialiser of %s in src/%s *)\n" % (var, cfile))
                tparts.append("Definition %s %s : Z :=\n  %s.\n\n" % (
                    gname, " ".join("(%s : Z)" % p for p in tr.params) if tr.params else "(_ : unit)", body))
        except (Unsupported, KeyError, IndexError) as e:
            LAST_ERRORS["LeafTls.v"] = "c2gallina: iv_tls.c: unsupported construct: %s" % (e,)
            tparts = [tparts[0], "(* TRANSLATION FAILED: %s *)\n" % str(e).replace("*)", "* )")]
        tls_path = os.path.join(os.path.dirname(out_path), "LeafTls.v")
        tnew = "".join(tparts)
        told = open(tls_path).read() if os.path.exists(tls_path) else None
        if tnew != told:
            os.makedirs(os.path.dirname(tls_path), exist_ok=True)
            open(tls_path, "w").write(tnew)
        main_typed(out_path, inc, typed)
        new = "".join(parts)
        old = open(out_path).read() if os.path.exists(out_path) else None
        if new != old:
            os.makedirs(os.path.dirname(out_path), exist_ok=True)
            open(out_path, "w").write(new)
        return None
    except Unsupported as e:
        return "c2gallina: unsupported construct: %s" % e
    finally:
        import shutil
        shutil.rmtree(inc, ignore_errors=True)


if __name__ == "__main__":
    err = main(sys.argv[1] if len(sys.argv) > 1 else None, "all")
    for k, v in LAST_ERRORS.items():
        print(k + ": " + v)
    if err:
        print(err)
        sys.exit(1)
