#!/usr/bin/env python3
"""c2gallina.py -- translator (way (a) of the tie): regenerates
coq/theories/Gen/Leaf.v from the CURRENT C source of a fixed list of loop-free
leaf functions, using clang's JSON AST dump.

Supported subset (anything else makes the translator fail loudly, which the
checks report as a broken tie):
  * parameters: integers, pointers to structs (each accessed field p->f becomes
    a Z parameter p_f; a pointer compared with NULL gets a Z parameter p_nonnull;
    a handler-pointer field compared with NULL is a Z parameter holding 0 / non-0);
  * locals: integers and local structs (fields become variables);
  * statements: declarations with initialisers, assignments (= |= += -=, ++ --),
    if/else, return, calls to previously translated functions (out-parameters
    &local are bound from the callee's result tuple);
  * expressions: integer literals, + - * / % & | ~ << >> ! && || < <= > >= == !=,
    ?:, casts to (signed) char / int (explicit wrap-around), sizeof is not supported.
  C '/' and '%' are translated to Z.quot / Z.rem (truncation); no overflow is
  modelled (ranges are hypotheses of the linking lemmas where they matter).
  `assume` entries fold a condition to a constant (documented per function).
Result of a function: (return value, out-parameter fields written ...) as a tuple of Z.
"""
import json
import os
import subprocess
import sys

REPO = os.environ.get("VERIF_REPO", "/repo")
VERIF = os.path.dirname(os.path.dirname(os.path.abspath(__file__)))

# (gallina name, C function, source file, assumptions {textual condition: value})
FUNCS = [
    ("timespec_gt", "timespec_gt", "iv_timer.c", {}),
    ("to_relative", "to_relative", "iv_timer.c", {"!st->time_valid": 0}),
    ("to_msec", "to_msec", "iv_timer.c", {}),
    ("timespec_cmp", "timespec_cmp", "iv_fd.c", {}),
    ("epoll_bits_to_poll_mask", "bits_to_poll_mask", "iv_fd_epoll.c", {}),
    ("poll_bits_to_poll_mask", "bits_to_poll_mask", "iv_fd_poll.c", {}),
    ("recompute_wanted_flags", "recompute_wanted_flags", "iv_fd.c", {}),
    ("iv_wait_status_dead", "iv_wait_status_dead", "iv_wait.c", {}),
]


# Conditions of `if` statements translated WITH the undefined behaviour of C made explicit
# (result type `option bool`, None = an operation whose behaviour C leaves undefined was executed):
# (gallina name, C function, source file, which top-level `if` of the function body (0 = first))
#   * a shift of an int (32 bits) by a negative count or by >= 32 is None; `1 << c` style left shifts
#     must also keep the result representable;  && and || short-circuit (the right operand is not
#     executed when the left one decides);  sizeof(<int expression>) = 4;  casts between integer types
#     are the identity;  + - * are not range-checked (ranges are hypotheses of the linking lemmas);
#   * p->f becomes the parameter p_f, parameters are ordered like the C parameters.
CONDS = [
    ("timer_growth_test", "iv_timer_get_node", "iv_timer.c", 0),
]


# Offset bookkeeping of src/iv_tls.c, generated into the SEPARATE file Gen/LeafTls.v (Leaf.v stays as it is) and
# linked to the model Small/TlsModel.v by Small/TlsLink.v.  Same 4-tuples as FUNCS; keys of the assume dict that
# start with '#' are translation options, not assumptions:
#   #fatal_calls: a statement-level call of one of these (noreturn) functions ends the path with None, the result
#                 type becomes `option`;
#   #mark_calls:  a statement-level call of one of these functions is not translated (its effect is on the intrusive
#                 list, modelled in Small/ListPtrModel.v); WHICH function is called is reported as the out-field
#                 `list_call` (the code given here).
# Writes to file-scope variables (last_offset) are out-fields like writes through pointer parameters.
TLS_FUNCS = [
    ("tls_user_register", "iv_tls_user_register", "iv_tls.c",
     {"#fatal_calls": ["iv_fatal"], "#mark_calls": {"iv_list_add_tail": 1, "iv_list_add": 2}}),
]

# static initialisers of file-scope variables: (gallina name, C variable, source file); `sizeof (T)` becomes the Z
# parameter sizeof_<T>.  Also generated into Gen/LeafTls.v.
TLS_GLOBAL_INITS = [
    ("tls_initial_offset", "last_offset", "iv_tls.c"),
]

# errors of the translations that go to separate files (file name -> message); Leaf.v errors are main()'s result
LAST_ERRORS = {}


class Unsupported(Exception):
    pass


def ast_of(cfile, fn, incdir):
    cmd = ["clang", "-fsyntax-only", "-D_GNU_SOURCE", "-DHAVE_CONFIG_H", "-I" + incdir,
           "-I" + os.path.join(REPO, "src", "include"), "-I" + os.path.join(REPO, "src"),
           "-Xclang", "-ast-dump=json", "-Xclang", "-ast-dump-filter=" + fn, os.path.join(REPO, "src", cfile)]
    p = subprocess.run(cmd, stdout=subprocess.PIPE, stderr=subprocess.PIPE, text=True)
    txt = p.stdout
    dec = json.JSONDecoder()
    i = 0
    docs = []
    while i < len(txt):
        while i < len(txt) and txt[i].isspace():
            i += 1
        if i >= len(txt):
            break
        d, i = dec.raw_decode(txt, i)
        docs.append(d)
    for d in docs:
        if d.get("kind") == "FunctionDecl" and d.get("name") == fn and any(c.get("kind") == "CompoundStmt" for c in d.get("inner", [])):
            return d
    raise Unsupported("function %s not found in %s (clang: %s)" % (fn, cfile, p.stderr[-300:]))


def src_text(node, cache={}):
    return None


def ast_var_of(cfile, var, incdir):
    """the VarDecl (with initialiser) of a file-scope variable"""
    cmd = ["clang", "-fsyntax-only", "-D_GNU_SOURCE", "-DHAVE_CONFIG_H", "-I" + incdir,
           "-I" + os.path.join(REPO, "src", "include"), "-I" + os.path.join(REPO, "src"),
           "-Xclang", "-ast-dump=json", "-Xclang", "-ast-dump-filter=" + var, os.path.join(REPO, "src", cfile)]
    p = subprocess.run(cmd, stdout=subprocess.PIPE, stderr=subprocess.PIPE, text=True)
    txt = p.stdout
    dec = json.JSONDecoder()
    i = 0
    while i < len(txt):
        while i < len(txt) and txt[i].isspace():
            i += 1
        if i >= len(txt):
            break
        d, i = dec.raw_decode(txt, i)
        if d.get("kind") == "VarDecl" and d.get("name") == var and d.get("inner"):
            return d
    raise Unsupported("initialised variable %s not found in %s (clang: %s)" % (var, cfile, p.stderr[-300:]))


class Tr:
    def __init__(self, name, decl, assume, known):
        self.name = name
        self.decl = decl
        self.assume = assume
        self.known = known          # name -> (params list, outfields list)
        self.params = []            # ordered Gallina parameter names
        self.ptr_params = set()
        self.int_params = set()
        self.outfields = []         # written fields of pointer params, in order of first write
        self.fresh = 0
        # translation options (keys of the assume dict starting with '#'), see TLS_FUNCS
        self.fatal_calls = set(assume.get("#fatal_calls", []))
        self.mark_calls = dict(assume.get("#mark_calls", {}))
        self.has_fatal = False
        self.locals = set()         # names of block-scope variables (every other VarDecl is file-scope)

    # ---- parameters are discovered lazily (fields used) ----
    def use_param(self, p):
        if p not in self.params:
            self.params.append(p)
        return p

    def strip(self, n):
        while n.get("kind") in ("ImplicitCastExpr", "ParenExpr", "ConstantExpr"):
            n = n["inner"][0]
        return n

    def lvalue_name(self, n, env):
        """name of the storage an lvalue expression denotes"""
        n = self.strip(n)
        k = n["kind"]
        if k == "DeclRefExpr":
            return n["referencedDecl"]["name"]
        if k == "MemberExpr":
            base = self.strip(n["inner"][0])
            if base["kind"] == "DeclRefExpr":
                b = base["referencedDecl"]["name"]
                return "%s_%s" % (b, n["name"])
            if base["kind"] == "MemberExpr":
                return "%s_%s" % (self.lvalue_name(base, env), n["name"])
        raise Unsupported("lvalue %s" % k)

    def read(self, name, env):
        if name in env:
            return env[name]
        # a parameter (or a field of a pointer parameter) read before any write
        return self.use_param(name)

    # ---- expressions: Z-valued and bool-valued translations ----
    def z(self, n, env):
        n0 = n
        n = self.strip(n)
        k = n["kind"]
        if k == "IntegerLiteral":
            v = int(n["value"])
            return str(v) if v >= 0 else "(%d)" % v
        if k == "CharacterLiteral":
            return str(int(n["value"]))
        if k == "DeclRefExpr" and n["referencedDecl"].get("kind") == "EnumConstantDecl":
            # <sys/epoll.h> declares its flags as an enum; the ABI values are fixed
            table = {"EPOLLIN": 1, "EPOLLPRI": 2, "EPOLLOUT": 4, "EPOLLERR": 8, "EPOLLHUP": 16, "EPOLLONESHOT": 1 << 30}
            nm = n["referencedDecl"]["name"]
            if nm not in table:
                raise Unsupported("enum constant %s" % nm)
            return str(table[nm])
        if k in ("DeclRefExpr", "MemberExpr"):
            return self.read(self.lvalue_name(n, env), env)
        if k == "UnaryOperator":
            op = n["opcode"]
            if op == "-":
                return "(- %s)" % self.z(n["inner"][0], env)
            if op == "+":
                return self.z(n["inner"][0], env)
            if op == "~":
                return "(Z.lnot %s)" % self.z(n["inner"][0], env)
            if op == "!":
                return "(b2z (negb %s))" % self.b(n["inner"][0], env)
            raise Unsupported("unary %s in expression" % op)
        if k == "BinaryOperator":
            op = n["opcode"]
            a, b = n["inner"]
            if op in ("<", "<=", ">", ">=", "==", "!=", "&&", "||"):
                return "(b2z %s)" % self.b(n, env)
            m = {"+": "+", "-": "-", "*": "*"}
            if op in m:
                return "(%s %s %s)" % (self.z(a, env), m[op], self.z(b, env))
            f = {"/": "Z.quot", "%": "Z.rem", "&": "Z.land", "|": "Z.lor", "^": "Z.lxor", "<<": "Z.shiftl", ">>": "Z.shiftr"}
            if op in f:
                return "(%s %s %s)" % (f[op], self.z(a, env), self.z(b, env))
            raise Unsupported("binary %s" % op)
        if k == "ConditionalOperator":
            c, a, b = n["inner"]
            return "(if %s then %s else %s)" % (self.b(c, env), self.z(a, env), self.z(b, env))
        if k == "CStyleCastExpr":
            ty = n.get("type", {}).get("qualType", "")
            inner = self.z(n["inner"][0], env)
            if ty in ("signed char", "char"):
                return "(wrap_s8 %s)" % inner
            if ty in ("unsigned char",):
                return "(Z.land %s 255)" % inner
            if ty in ("int", "long", "unsigned int", "unsigned long"):
                return inner
            raise Unsupported("cast to %s" % ty)
        if k == "CallExpr":
            call, pat, env2 = self.call_parts(n, env)
            if len(pat) != 1:
                raise Unsupported("call with out-parameters inside an expression")
            return "(%s)" % call
        if k == "GNUNullExpr" or k == "CXXNullPtrLiteralExpr":
            return "0"
        if k == "UnaryExprOrTypeTraitExpr" and n.get("name") == "sizeof" and n.get("argType"):
            # sizeof (T): a parameter (the value is supplied by whoever uses the definition)
            ty = n["argType"].get("qualType", "")
            return self.use_param("sizeof_" + "".join(c if c.isalnum() else "_" for c in ty))
        raise Unsupported("expression kind %s" % k)

    def is_null(self, n):
        n = self.strip(n)
        if n["kind"] == "IntegerLiteral" and n["value"] == "0":
            return True
        if n["kind"] == "CStyleCastExpr":
            return self.is_null(n["inner"][0])
        return n["kind"] in ("GNUNullExpr",)

    def is_pointer(self, n):
        return "*" in n.get("type", {}).get("qualType", "")

    def b(self, n, env):
        n = self.strip(n)
        k = n["kind"]
        if k == "UnaryOperator" and n["opcode"] == "!":
            txt = "!" + self.text_of(n["inner"][0])
            if txt in self.assume:
                return "true" if self.assume[txt] else "false"
            return "(negb %s)" % self.b(n["inner"][0], env)
        if k == "BinaryOperator":
            op = n["opcode"]
            a, b = n["inner"]
            if op in ("==", "!=") and (self.is_pointer(self.strip(a)) or self.is_pointer(a)) and self.is_null(b):
                # pointer compared with NULL: a parameter "<name>_nonnull" / a field holding 0 or non-0
                sa = self.strip(a)
                if sa["kind"] == "DeclRefExpr":
                    v = self.use_param(sa["referencedDecl"]["name"] + "_nonnull")
                else:
                    v = self.read(self.lvalue_name(sa, env), env)
                t = "(negb (%s =? 0))" % v
                return t if op == "!=" else "(negb %s)" % t
            m = {"<": "<?", "<=": "<=?", ">": ">?", ">=": ">=?", "==": "=?"}
            if op in m:
                return "(%s %s %s)" % (self.z(a, env), m[op], self.z(b, env))
            if op == "!=":
                return "(negb (%s =? %s))" % (self.z(a, env), self.z(b, env))
            if op == "&&":
                return "(%s && %s)" % (self.b(a, env), self.b(b, env))
            if op == "||":
                return "(%s || %s)" % (self.b(a, env), self.b(b, env))
        return "(negb (%s =? 0))" % self.z(n, env)

    def text_of(self, n):
        n = self.strip(n)
        k = n["kind"]
        if k == "DeclRefExpr":
            return n["referencedDecl"]["name"]
        if k == "MemberExpr":
            return self.text_of(n["inner"][0]) + ("->" if n.get("isArrow") else ".") + n["name"]
        return "?"

    # ---- statements: symbolic execution producing the result expression ----
    def assign(self, name, val, env, is_out):
        env = dict(env)
        env[name] = val
        if is_out and name not in self.outfields:
            self.outfields.append(name)
        return env

    def out_target(self, n):
        """is this lvalue a field of a pointer parameter (an out-parameter write)?"""
        n = self.strip(n)
        if n["kind"] == "MemberExpr" and n.get("isArrow"):
            return True
        if n["kind"] == "DeclRefExpr" and n["referencedDecl"].get("kind") == "VarDecl" \
                and n["referencedDecl"]["name"] not in self.locals:
            return True             # a file-scope variable
        return False

    def result(self, ret, env):
        return ("RET", ret, env)

    def exec(self, stmts, env):
        """returns a tree: ("RET", expr, env) | ("IF", cond, t, e) | ("LET", pattern, call, rest)"""
        if not stmts:
            return ("RET", "0", env)
        s, rest = stmts[0], stmts[1:]
        k = s["kind"]
        if k == "CompoundStmt":
            return self.exec(list(s.get("inner", [])) + rest, env)
        if k == "NullStmt":
            return self.exec(rest, env)
        if k == "DeclStmt":
            for d in s.get("inner", []):
                if d["kind"] != "VarDecl":
                    raise Unsupported("declaration %s" % d["kind"])
                self.locals.add(d["name"])
                if "inner" in d and d["inner"]:
                    env = self.assign(d["name"], self.z(d["inner"][0], env), env, False)
            return self.exec(rest, env)
        if k == "ReturnStmt":
            if not s.get("inner"):
                return ("RET", "0", env)
            e = self.strip(s["inner"][0])
            if e["kind"] == "CallExpr":
                return self.call(e, env, lambda r, env2: ("RET", r, env2))
            if self.is_pointer(s["inner"][0]) or self.is_pointer(e):
                # returning a pointer: 1 = non-NULL (an out-parameter), 0 = NULL
                return ("RET", "0" if self.is_null(e) else "1", env)
            return ("RET", self.z(e, env), env)
        if k == "IfStmt":
            inner = s["inner"]
            cond = self.b(inner[0], env)
            tb = [inner[1]]
            eb = [inner[2]] if len(inner) > 2 else []
            if cond == "true":
                return self.exec(tb + rest, env)
            if cond == "false":
                return self.exec(eb + rest, env)
            return ("IF", cond, self.exec(tb + rest, env), self.exec(eb + rest, env))
        if k == "BinaryOperator" and s["opcode"] == "=":
            lhs, rhs = s["inner"]
            e = self.strip(rhs)
            if e["kind"] == "CallExpr":
                name = self.lvalue_name(lhs, env)
                return self.call(e, env, lambda r, env2: self.exec(rest, self.assign(name, r, env2, self.out_target(lhs))))
            env = self.assign(self.lvalue_name(lhs, env), self.z(rhs, env), env, self.out_target(lhs))
            return self.exec(rest, env)
        if k == "CompoundAssignOperator":
            lhs, rhs = s["inner"]
            name = self.lvalue_name(lhs, env)
            op = s["opcode"][:-1]
            f = {"+": "(%s + %s)", "-": "(%s - %s)", "|": "(Z.lor %s %s)", "&": "(Z.land %s %s)"}
            if op not in f:
                raise Unsupported("compound assignment %s" % s["opcode"])
            env = self.assign(name, f[op] % (self.read(name, env), self.z(rhs, env)), env, self.out_target(lhs))
            return self.exec(rest, env)
        if k == "UnaryOperator" and s["opcode"] in ("++", "--"):
            name = self.lvalue_name(s["inner"][0], env)
            env = self.assign(name, "(%s %s 1)" % (self.read(name, env), "+" if s["opcode"] == "++" else "-"), env,
                              self.out_target(s["inner"][0]))
            return self.exec(rest, env)
        if k == "CallExpr":
            callee = self.strip(s["inner"][0])
            fn = callee["referencedDecl"]["name"] if callee["kind"] == "DeclRefExpr" else None
            if fn in self.fatal_calls:
                self.has_fatal = True
                return ("FATAL",)
            if fn in self.mark_calls:
                return self.exec(rest, self.assign("list_call", str(self.mark_calls[fn]), env, True))
            return self.call(s, env, lambda r, env2: self.exec(rest, env2))
        raise Unsupported("statement kind %s" % k)

    def call(self, e, env, cont):
        call, pat, env2 = self.call_parts(e, env)
        return ("LET", pat, call, cont(pat[0], env2))

    def call_parts(self, e, env):
        callee = self.strip(e["inner"][0])
        if callee["kind"] != "DeclRefExpr":
            raise Unsupported("indirect call")
        fn = callee["referencedDecl"]["name"]
        if fn not in self.known:
            raise Unsupported("call of %s (not a translated leaf function)" % fn)
        gname, cparams, couts = self.known[fn]
        args = e["inner"][1:]
        # C-level parameter names of the callee, in order
        cnames = self.known[fn + "#cparams"]
        amap = {}
        for cn, a in zip(cnames, args):
            a0 = self.strip(a)
            if a0["kind"] == "UnaryOperator" and a0["opcode"] == "&":
                amap[cn] = ("struct", self.lvalue_name(a0["inner"][0], env))
            elif self.is_pointer(a) or self.is_pointer(a0):
                if a0["kind"] == "DeclRefExpr":
                    amap[cn] = ("ptr", a0["referencedDecl"]["name"])
                elif self.is_null(a0):
                    amap[cn] = ("null", None)
                else:
                    raise Unsupported("pointer argument")
            else:
                amap[cn] = ("val", self.z(a, env))
        actuals = []
        for p in cparams:
            # p is "<cparam>" | "<cparam>_<field>" | "<cparam>_nonnull"
            base = max((c for c in cnames if p == c or p.startswith(c + "_")), key=len)
            kind, v = amap[base]
            suffix = p[len(base):]
            if kind == "val":
                actuals.append(v)
            elif kind == "null":
                actuals.append("0")
            elif suffix == "_nonnull":
                actuals.append("1" if kind == "struct" else self.read(v + "_nonnull", env))
            else:
                actuals.append(self.read(v + suffix, env))
        self.fresh += 1
        r = "r%d" % self.fresh
        pat = [r]
        env2 = dict(env)
        for o in couts:
            base = max((c for c in cnames if o.startswith(c + "_")), key=len)
            kind, v = amap[base]
            self.fresh += 1
            tmp = "o%d" % self.fresh
            pat.append(tmp)
            if kind in ("struct", "ptr"):
                name = v + o[len(base):]
                env2[name] = tmp
                if kind == "ptr" and name not in self.outfields:
                    self.outfields.append(name)
        call = "%s %s" % (gname, " ".join("(%s)" % a if " " in a else a for a in actuals)) if actuals else gname
        return call, pat, env2

    # ---- printing ----
    def render(self, t, ind):
        pad = "  " * ind
        if t[0] == "RET":
            _, ret, env = t
            outs = [env.get(o, "0") for o in self.outfields]     # a field not written on this path is reported as 0
            some = "Some " if self.has_fatal else ""
            if outs:
                return pad + some + "(" + ", ".join([ret] + outs) + ")"
            return pad + ((some + "(" + ret + ")") if some else ret)
        if t[0] == "FATAL":
            return pad + "None"
        if t[0] == "IF":
            _, c, a, b = t
            return "%sif %s then\n%s\n%selse\n%s" % (pad, c, self.render(a, ind + 1), pad, self.render(b, ind + 1))
        if t[0] == "LET":
            _, pat, call, rest = t
            p = pat[0] if len(pat) == 1 else "'(" + ", ".join(pat) + ")"
            return "%slet %s := %s in\n%s" % (pad, p, call, self.render(rest, ind))
        raise Unsupported("tree")

    def collect_outs(self, t):
        if t[0] == "RET":
            return
        if t[0] == "IF":
            self.collect_outs(t[2])
            self.collect_outs(t[3])
        if t[0] == "LET":
            self.collect_outs(t[3])

    def translate(self):
        body = [c for c in self.decl["inner"] if c["kind"] == "CompoundStmt"][0]
        cparams = [c["name"] for c in self.decl["inner"] if c["kind"] == "ParmVarDecl"]
        tree = self.exec([body], {})
        # canonical parameter order: by C parameter, then by first use
        order = []
        for cp in cparams:
            for p in self.params:
                if (p == cp or p.startswith(cp + "_")) and p not in order:
                    order.append(p)
        for p in self.params:
            if p not in order:
                order.append(p)
        # out-fields that are also read before written stay parameters; that is fine
        rty = "Z" if not self.outfields else "(" + " * ".join(["Z"] * (1 + len(self.outfields))) + ")%type"
        if self.has_fatal:
            rty = "option " + rty
        text = "Definition %s %s : %s :=\n%s.\n" % (
            self.name, " ".join("(%s : Z)" % p for p in order) if order else "(_ : unit)", rty, self.render(tree, 1))
        return text, order, list(self.outfields), cparams


COND_PRELUDE = (
    "(* ---- conditions translated with explicit undefined behaviour (None) ---- *)\n"
    "Definition ub_bind {A B : Type} (x : option A) (f : A -> option B) : option B :=\n"
    "  match x with Some a => f a | None => None end.\n"
    "Definition ub_and (a b : option bool) : option bool :=\n"
    "  match a with Some true => b | Some false => Some false | None => None end.\n"
    "Definition ub_or (a b : option bool) : option bool :=\n"
    "  match a with Some true => Some true | Some false => b | None => None end.\n"
    "Definition ub_shr32 (x c : Z) : option Z :=\n"
    "  if (0 <=? c) && (c <? 32) then Some (Z.shiftr x c) else None.\n"
    "Definition ub_shl32 (x c : Z) : option Z :=\n"
    "  if (0 <=? c) && (c <? 32) && (0 <=? x) && (Z.shiftl x c <? 2 ^ 31) then Some (Z.shiftl x c) else None.\n\n")

INT_SIZES = {"char": 1, "signed char": 1, "unsigned char": 1, "short": 2, "unsigned short": 2,
             "int": 4, "unsigned int": 4, "long": 8, "unsigned long": 8}


class CondTr:
    """condition of an if statement -> Gallina term of type option bool (see CONDS)"""

    def __init__(self, cparams):
        self.cparams = cparams
        self.params = []
        self.fresh = 0

    def strip(self, n):
        while n.get("kind") in ("ImplicitCastExpr", "ParenExpr", "ConstantExpr"):
            n = n["inner"][0]
        return n

    def param(self, name):
        if name not in self.params:
            self.params.append(name)
        return name

    def var(self):
        self.fresh += 1
        return "v%d" % self.fresh

    def qual(self, n):
        return n.get("type", {}).get("qualType", "")

    # pure Z-valued expressions (no operation with undefined behaviour inside): plain Gallina, else None
    def pure(self, n):
        n = self.strip(n)
        k = n["kind"]
        if k == "IntegerLiteral":
            return n["value"]
        if k == "DeclRefExpr":
            nm = n["referencedDecl"]["name"]
            if nm not in self.cparams:
                raise Unsupported("condition reads %s, which is not a parameter" % nm)
            return self.param(nm)
        if k == "MemberExpr":
            base = self.strip(n["inner"][0])
            if base["kind"] != "DeclRefExpr" or base["referencedDecl"]["name"] not in self.cparams:
                raise Unsupported("member access on a non-parameter in a condition")
            return self.param("%s_%s" % (base["referencedDecl"]["name"], n["name"]))
        if k == "UnaryExprOrTypeTraitExpr" and n.get("name") == "sizeof":
            ty = n["argType"]["qualType"] if "argType" in n else self.qual(self.strip(n["inner"][0]))
            if ty not in INT_SIZES:
                raise Unsupported("sizeof(%s)" % ty)
            return str(INT_SIZES[ty])
        if k == "CStyleCastExpr":
            if self.qual(n) not in INT_SIZES:
                raise Unsupported("cast to %s in a condition" % self.qual(n))
            return self.pure(n["inner"][0])
        if k == "UnaryOperator" and n["opcode"] in ("-", "+"):
            a = self.pure(n["inner"][0])
            return None if a is None else ("(- %s)" % a if n["opcode"] == "-" else a)
        if k == "BinaryOperator" and n["opcode"] in ("+", "-", "*"):
            a, b = self.pure(n["inner"][0]), self.pure(n["inner"][1])
            if a is None or b is None:
                return None
            return "(%s %s %s)" % (a, n["opcode"], b)
        if k == "BinaryOperator" and n["opcode"] in ("<<", ">>", "/", "%"):
            return None
        raise Unsupported("expression %s%s in a condition" % (k, " " + n.get("opcode", "") if "opcode" in n else ""))

    # option Z
    def uz(self, n):
        p = self.pure(n)
        if p is not None:
            return "(Some %s)" % p
        n = self.strip(n)
        k = n["kind"]
        if k == "CStyleCastExpr":
            return self.uz(n["inner"][0])
        if k == "BinaryOperator":
            op = n["opcode"]
            a, b = n["inner"]
            if op in ("<<", ">>"):
                if self.qual(n) != "int":
                    raise Unsupported("shift of a %s" % self.qual(n))
                f = "ub_shr32" if op == ">>" else "ub_shl32"
                pa, pb = self.pure(a), self.pure(b)
                if pa is not None and pb is not None:
                    return "(%s %s %s)" % (f, pa, pb)
                x, y = self.var(), self.var()
                return "(ub_bind %s (fun %s => ub_bind %s (fun %s => %s %s %s)))" % (self.uz(a), x, self.uz(b), y, f, x, y)
            if op in ("+", "-", "*"):
                x, y = self.var(), self.var()
                return "(ub_bind %s (fun %s => ub_bind %s (fun %s => Some (%s %s %s))))" % (self.uz(a), x, self.uz(b), y, x, op, y)
        raise Unsupported("expression %s in a condition (undefined-behaviour aware translation)" % k)

    # option bool
    def ub(self, n):
        n = self.strip(n)
        k = n["kind"]
        if k == "UnaryOperator" and n["opcode"] == "!":
            x = self.var()
            return "(ub_bind %s (fun %s => Some (negb %s)))" % (self.ub(n["inner"][0]), x, x)
        if k == "BinaryOperator":
            op = n["opcode"]
            a, b = n["inner"]
            if op == "&&":
                return "(ub_and %s %s)" % (self.ub(a), self.ub(b))
            if op == "||":
                return "(ub_or %s %s)" % (self.ub(a), self.ub(b))
            m = {"<": "%s <? %s", "<=": "%s <=? %s", ">": "%s >? %s", ">=": "%s >=? %s", "==": "%s =? %s",
                 "!=": "negb (%s =? %s)"}
            if op in m:
                pa, pb = self.pure(a), self.pure(b)
                if pa is not None and pb is not None:
                    return "(Some (%s))" % (m[op] % (pa, pb))
                x, y = self.var(), self.var()
                return "(ub_bind %s (fun %s => ub_bind %s (fun %s => Some (%s))))" % (self.uz(a), x, self.uz(b), y, m[op] % (x, y))
        x = self.var()
        return "(ub_bind %s (fun %s => Some (negb (%s =? 0))))" % (self.uz(n), x, x)


def translate_cond(gname, decl, which):
    body = [c for c in decl["inner"] if c["kind"] == "CompoundStmt"][0]
    ifs = [c for c in body.get("inner", []) if c["kind"] == "IfStmt"]
    if len(ifs) <= which:
        raise Unsupported("%s: no top-level if statement number %d" % (gname, which))
    cparams = [c["name"] for c in decl["inner"] if c["kind"] == "ParmVarDecl"]
    tr = CondTr(cparams)
    term = tr.ub(ifs[which]["inner"][0])
    order = []
    for cp in cparams:
        for p in tr.params:
            if (p == cp or p.startswith(cp + "_")) and p not in order:
                order.append(p)
    return "Definition %s %s : option bool :=\n  %s.\n" % (gname, " ".join("(%s : Z)" % p for p in order), term)


def main(out_path=None):
    out_path = out_path or os.path.join(VERIF, "coq", "theories", "Gen", "Leaf.v")
    inc = os.path.join(VERIF, "build", "gen_inc.%d" % os.getpid())
    os.makedirs(inc, exist_ok=True)
    try:
        txt = open(os.path.join(REPO, "src", "include", "iv.h.in")).read().replace("@ac_cv_timespec_hdr@", "sys/time.h")
        open(os.path.join(inc, "iv.h"), "w").write(txt)
        cfg = os.path.join(REPO, "config.h")
        if not os.path.exists(cfg):
            cfg = os.path.join(VERIF, "harness", "config.h.fallback")
        open(os.path.join(inc, "config.h"), "w").write(open(cfg).read())
        known = {}
        parts = ["(* Leaf.v -- GENERATED by gen/c2gallina.py from the current C source of /repo/src.  Do not edit.\n"
                 "   Each definition is the translation of one loop-free leaf function; see gen/c2gallina.py for the\n"
                 "   supported subset and conventions (pointer parameters are flattened into their fields, C '/' is\n"
                 "   Z.quot, comparisons yield 0/1). *)\n"
                 "From Coq Require Import ZArith Bool.\nLocal Open Scope Z_scope.\n\n"
                 "Definition b2z (b : bool) : Z := if b then 1 else 0.\n"
                 "Definition wrap_s8 (x : Z) : Z := ((x + 128) mod 256) - 128.\n\n"]
        for gname, fn, cfile, assume in FUNCS:
            decl = ast_of(cfile, fn, inc)
            tr = Tr(gname, decl, assume, known)
            text, order, outs, cparams = tr.translate()
            known[fn] = (gname, order, outs)
            known[fn + "#cparams"] = cparams
            parts.append("(* %s() of src/%s%s *)\n" % (fn, cfile, (" assuming " + ", ".join("%s = %s" % kv for kv in assume.items())) if assume else ""))
            parts.append(text + "\n")
        cparts = ["(* LeafTimer.v -- GENERATED by gen/c2gallina.py (CONDS) from the current C source of /repo/src.  Do not edit.\n"
                  "   Conditions of if statements with the undefined behaviour of C explicit: the result is an option bool,\n"
                  "   None = an operation that C leaves undefined (shift of an int by a negative count or by >= 32) was executed;\n"
                  "   && and || short-circuit; sizeof(int expression) = 4; + - * are not range-checked. *)\n"
                  "From Coq Require Import ZArith Bool.\nLocal Open Scope Z_scope.\n\n", COND_PRELUDE]
        for gname, fn, cfile, which in CONDS:
            decl = ast_of(cfile, fn, inc)
            cparts.append("(* condition of if statement #%d of %s() of src/%s *)\n" % (which, fn, cfile))
            cparts.append(translate_cond(gname, decl, which) + "\n")
        cond_path = os.path.join(os.path.dirname(out_path), "LeafTimer.v")
        cnew = "".join(cparts)
        cold = open(cond_path).read() if os.path.exists(cond_path) else None
        if cnew != cold:
            os.makedirs(os.path.dirname(cond_path), exist_ok=True)
            open(cond_path, "w").write(cnew)
        # Gen/LeafTls.v (TLS_FUNCS, TLS_GLOBAL_INITS).  A construct outside the subset does not disturb Leaf.v and its
        # users: the file then holds no definitions (Small/TlsLink.v stops compiling) and the message is kept in
        # LAST_ERRORS for the check that owns the file (C18)
        tparts = ["(* LeafTls.v -- GENERATED by gen/c2gallina.py (TLS_FUNCS, TLS_GLOBAL_INITS) from the current C source of\n"
                  "   /repo/src/iv_tls.c.  Do not edit.  Conventions as in Leaf.v; a path that calls iv_fatal yields None; writes\n"
                  "   to file-scope variables are out-fields; list_call names the list primitive called (1 = iv_list_add_tail,\n"
                  "   2 = iv_list_add); sizeof (T) is the parameter sizeof_T. *)\n"
                  "From Coq Require Import ZArith Bool.\nFrom Ivv Require Import Gen.Leaf.\nLocal Open Scope Z_scope.\n\n"]
        LAST_ERRORS.pop("LeafTls.v", None)
        try:
            for gname, fn, cfile, opts in TLS_FUNCS:
                decl = ast_of(cfile, fn, inc)
                tr = Tr(gname, decl, opts, dict(known))
                text, order, outs, cparams = tr.translate()
                tparts.append("(* %s() of src/%s *)\n" % (fn, cfile))
                tparts.append(text + "\n")
            for gname, var, cfile in TLS_GLOBAL_INITS:
                decl = ast_var_of(cfile, var, inc)
                tr = Tr(gname, decl, {}, dict(known))
                body = tr.z(decl["inner"][-1], {})
                tparts.append("(* static initialiser of %s in src/%s *)\n" % (var, cfile))
                tparts.append("Definition %s %s : Z :=\n  %s.\n\n" % (
                    gname, " ".join("(%s : Z)" % p for p in tr.params) if tr.params else "(_ : unit)", body))
        except (Unsupported, KeyError, IndexError) as e:
            LAST_ERRORS["LeafTls.v"] = "c2gallina: iv_tls.c: unsupported construct: %s" % (e,)
            tparts = [tparts[0], "(* TRANSLATION FAILED: %s *)\n" % str(e).replace("*)", "* )")]
        tls_path = os.path.join(os.path.dirname(out_path), "LeafTls.v")
        tnew = "".join(tparts)
        told = open(tls_path).read() if os.path.exists(tls_path) else None
        if tnew != told:
            os.makedirs(os.path.dirname(tls_path), exist_ok=True)
            open(tls_path, "w").write(tnew)
        new = "".join(parts)
        old = open(out_path).read() if os.path.exists(out_path) else None
        if new != old:
            os.makedirs(os.path.dirname(out_path), exist_ok=True)
            open(out_path, "w").write(new)
        return None
    except Unsupported as e:
        return "c2gallina: unsupported construct: %s" % e
    finally:
        import shutil
        shutil.rmtree(inc, ignore_errors=True)


if __name__ == "__main__":
    err = main(sys.argv[1] if len(sys.argv) > 1 else None)
    if err:
        print(err)
        sys.exit(1)
