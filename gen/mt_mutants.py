#!/usr/bin/env python3
"""Hand-made breaking changes for the properties that gen/core_mutants.py does not cover
(C05 timer heap, C16 AVL, C17 pump, C20 inotify, C08 iv_event cross-thread, C10 iv_signal, C11 iv_wait,
C19 iv_popen, C14 data races) and which checks notice them.

Every mutant is a small source edit a maintainer could commit (off-by-one, dropped statement, swapped order,
wrong condition, missing lock, forgotten reset, wrong list end).  For every mutant the listed checks are run as
`./check <ID> --tier quick` against a scratch copy (VERIF_REPO) with a private evidence directory (VERIF_EVID).

usage: mt_mutants.py [--dry | --suite] [--jobs N] [--out FILE] [name-or-property ...]
  --dry     only apply the edits and compile the edited file (pattern / build check), run no check
  --suite   instead of the checks, build the repository's own test programs (TESTS of /repo/test/Makefile.am) against
            the edited tree and run them: does the pinned suite notice the mutant?
  --jobs N  mutants in flight (default 3, never more: the machine is shared)
  --watchdog SECS  kill harness drivers of these runs that burnt more than SECS CPU seconds (a spinning driver
            otherwise costs the check its 900 s batch timeout per attempt; the survey of 2026-10-01 used 120)
  names     mutant names, or property ids (all mutants that list the property), default: all
Scratch copies live under /tmp/mutsurvey/<name>/ and are removed when a mutant is done; /repo is never touched.
Result classes: VIOLATION(input) = VIOLATION line with a replayable failing input; VIOLATION(no-input) = only
`no-failing-input-found` lines (broken proof / correspondence); MISSED = exit 0; BUILD-FAIL; TIMEOUT; ERROR."""
import json
import os
import re
import shutil
import subprocess
import sys
import threading
import time

VERIF = os.path.dirname(os.path.dirname(os.path.abspath(__file__)))
SCRATCH = "/tmp/mutsurvey"

# name, file, old, new, properties expected to notice, which clause of the property text breaks
M = [
 # ---- controls: unchanged tree in a scratch copy, every check must exit 0 --------------------------------------
 ("baseline_C05", None, None, None, ["C05"], "control"),
 ("baseline_C16", None, None, None, ["C16"], "control"),
 ("baseline_C17", None, None, None, ["C17"], "control"),
 ("baseline_C20", None, None, None, ["C20"], "control"),
 ("baseline_C08", None, None, None, ["C08"], "control"),
 ("baseline_C10", None, None, None, ["C10"], "control"),
 ("baseline_C11", None, None, None, ["C11"], "control"),
 ("baseline_C19", None, None, None, ["C19"], "control"),
 ("baseline_C14", None, None, None, ["C14"], "control"),

 # ---- C05: timer heap (src/iv_timer.c) -------------------------------------------------------------------------
 ("c05_pushdown_right_vs_i", "iv_timer.c",
  "\t\t\tif (p[1] && timer_ptr_gt(*imin, p[1])) {",
  "\t\t\tif (p[1] && timer_ptr_gt(*i, p[1])) {",
  ["C05"], "order: sift-down picks the right child although the left one is smaller"),
 ("c05_pullup_stops_at_2", "iv_timer.c",
  "\twhile (index != 1) {\n\t\tstruct iv_timer_ *et;\n\t\tint parent;",
  "\twhile (index > 2) {\n\t\tstruct iv_timer_ *et;\n\t\tint parent;",
  ["C05"], "order: a new earliest timer never reaches the root"),
 ("c05_unreg_no_pushdown", "iv_timer.c",
  "\t\t\tpull_up(st, (*p)->index, p);\n\t\t\tpush_down(st, (*p)->index, p);",
  "\t\t\tpull_up(st, (*p)->index, p);",
  ["C05"], "order / independence: removal leaves the moved last element above smaller children"),
 ("c05_unreg_dec_after_fixup", "iv_timer.c",
  "\t\tst->num_timers--;\n\n\t\tif (p != m) {\n\t\t\tpull_up(st, (*p)->index, p);\n\t\t\tpush_down(st, (*p)->index, p);\n\t\t}\n",
  "\t\tif (p != m) {\n\t\t\tpull_up(st, (*p)->index, p);\n\t\t\tpush_down(st, (*p)->index, p);\n\t\t}\n\t\tst->num_timers--;\n",
  ["C05"], "independence: sift-down looks at the vacated last slot (NULL)"),
 ("c05_shrink_one_early", "iv_timer.c",
  "\t\t    st->num_timers == (1 << (st->rat_depth *\n\t\t\t\t\t     IV_TIMER_SPLIT_BITS))) {",
  "\t\t    st->num_timers - 1 == (1 << (st->rat_depth *\n\t\t\t\t\t     IV_TIMER_SPLIT_BITS))) {",
  ["C05"], "capacity boundary: level dropped at 129 -> 128, slot 128 is freed with a live timer in it"),
 ("c05_grow_one_late", "iv_timer.c",
  "\t    index >> ((st->rat_depth + 1) * IV_TIMER_SPLIT_BITS) != 0) {",
  "\t    (index - 1) >> ((st->rat_depth + 1) * IV_TIMER_SPLIT_BITS) != 0) {",
  ["C05"], "capacity boundary: timer 128 is stored in slot 0 of the old leaf and lost at the next growth"),
 ("c05_expired_lifo", "iv_timer.c",
  "\t\tiv_list_add_tail(&t->list_expired, &timers);",
  "\t\tiv_list_add(&t->list_expired, &timers);",
  ["C05"], "order: the expired batch runs latest-first"),
 ("c05_pullup_no_parent_index", "iv_timer.c",
  "\t\t(*i)->index = index;\n\t\t(*p)->index = parent;\n\n\t\tindex = parent;",
  "\t\t(*i)->index = index;\n\n\t\tindex = parent;",
  ["C05"], "independence: stale back index, a later unregister hits another timer's slot"),
 ("c05_compare_sec_only", "iv_timer.c",
  "\treturn timespec_gt(&a->expires, &b->expires);",
  "\treturn a->expires.tv_sec > b->expires.tv_sec;",
  ["C05"], "order: expiries within the same second are unordered in the heap"),

 # ---- C16: AVL tree (src/iv_avl.c) -----------------------------------------------------------------------------
 ("avl_rotl_no_c_parent", "iv_avl.c",
  "\tc = d->left;\n\tb->right = c;\n\tif (c != NULL)\n\t\tc->parent = b;\n\trecalc_height(b);\n\n\td->left = b;\n\td->parent = b->parent;",
  "\tc = d->left;\n\tb->right = c;\n\trecalc_height(b);\n\n\td->left = b;\n\td->parent = b->parent;",
  ["C16"], "traversal: parent link of the moved subtree is stale after a left rotation"),
 ("avl_rebalance_lr_on_zero", "iv_avl.c",
  "\t\tif (balance(root->left) <= 0)",
  "\t\tif (balance(root->left) < 0)",
  ["C16"], "balance: double rotation chosen when the left child is even (delete only)"),
 ("avl_stop_when_not_taller", "iv_avl.c",
  "\t\tif (old_height == an->height)\n\t\t\tbreak;",
  "\t\tif (old_height >= an->height)\n\t\t\tbreak;",
  ["C16"], "balance / exact heights: the walk stops when a subtree got lower (delete)"),
 ("avl_victim_keeps_height", "iv_avl.c",
  "\tvictim->parent = an->parent;\n\tvictim->height = an->height;",
  "\tvictim->parent = an->parent;",
  ["C16"], "exact heights: replacement node keeps its old height"),
 ("avl_dup_goes_right", "iv_avl.c",
  "\t\telse if (ret > 0)\n\t\t\tpp = &p->right;\n\t\telse\n\t\t\treturn -1;",
  "\t\telse\n\t\t\tpp = &p->right;",
  ["C16"], "duplicate insert must fail and change nothing"),
 ("avl_next_climb_left", "iv_avl.c",
  "\twhile (p != NULL && an == p->right) {",
  "\twhile (p != NULL && an == p->left) {",
  ["C16"], "forward traversal"),
 ("avl_rotlr_no_recalc_f", "iv_avl.c",
  "\te = d->right;\n\tf->left = e;\n\tif (e != NULL)\n\t\te->parent = f;\n\trecalc_height(f);\n\n\td->left = b;\n\td->right = f;\n\td->parent = f->parent;",
  "\te = d->right;\n\tf->left = e;\n\tif (e != NULL)\n\t\te->parent = f;\n\n\td->left = b;\n\td->right = f;\n\td->parent = f->parent;",
  ["C16"], "exact heights after a left-right rotation"),
 ("avl_victim_child_parent", "iv_avl.c",
  "\t\treplace_reference(tree, victim, victim->left);\n\t\tif (victim->left != NULL)\n\t\t\tvictim->left->parent = victim->parent;",
  "\t\treplace_reference(tree, victim, victim->left);",
  ["C16"], "traversal: child of the victim keeps the victim as parent"),
 ("avl_rebalance_from_removed", "iv_avl.c",
  "\tp = victim->parent;\n\tif (p == an)\n\t\tp = victim;",
  "\tp = victim->parent;",
  ["C16"], "balance: rebalancing starts at the removed node when the victim was its child"),
 # parent-pointer surgery (noticed by the monitor's parent check and, field by field, by the pointer-level stage of C16)
 ("avl_rotr_no_d_parent", "iv_avl.c",
  "\tb->right = d;\n\tb->parent = d->parent;\n\td->parent = b;\n\trecalc_height(b);",
  "\tb->right = d;\n\tb->parent = d->parent;\n\trecalc_height(b);",
  ["C16"], "traversal / parent links: the old subtree root keeps its old parent after a right rotation"),
 ("avl_victim_children_not_reparented", "iv_avl.c",
  "\tif (victim->left != NULL)\n\t\tvictim->left->parent = victim;\n\tif (victim->right != NULL)\n\t\tvictim->right->parent = victim;\n",
  "\tif (victim->left != NULL)\n\t\tvictim->left->parent = victim;\n",
  ["C16"], "parent links: the right child moved under the replacement node still names the removed node as parent"),
 ("avl_replace_reference_wrong_side", "iv_avl.c",
  "\t\tif (an->parent->left == an)\n\t\t\treturn &an->parent->left;\n\t\telse\n\t\t\treturn &an->parent->right;",
  "\t\tif (an->parent->left == an)\n\t\t\treturn &an->parent->right;\n\t\telse\n\t\t\treturn &an->parent->left;",
  ["C16"], "find_reference returns the sibling slot: the wrong child pointer of the parent is overwritten"),

 ("avl_insert_init_before_dup_check", "iv_avl.c",
  ["\tstruct iv_avl_node **pp;\n\n\t/*\n\t * Find the node to which an is to be attached as a leaf.\n\t */",
   "\tan->left = NULL;\n\tan->right = NULL;\n\tan->parent = p;\n\tan->height = 1;\n\t*pp = an;"],
  ["\tstruct iv_avl_node **pp;\n\n\tan->left = NULL;\n\tan->right = NULL;\n\tan->height = 1;\n\n\t/*\n\t * Find the node to which an is to be attached as a leaf.\n\t */",
   "\tan->parent = p;\n\t*pp = an;"],
  ["C16"], "duplicate insert must change nothing: the node is initialised before the duplicate search, so handing insert the already linked node (double registration) wipes its children and height (seed2/C16)"),

 # ---- C17: iv_fd_pump (src/iv_fd_pump.c) -----------------------------------------------------------------------
 ("pump_no_memmove", "iv_fd_pump.c",
  "\tif (!splice_available)\n\t\tmemmove(buf->u.buf, buf->u.buf + ret, ip->bytes);\n",
  "",
  ["C17"], "stream: bytes duplicated after a partial write (read/write mode)"),
 ("pump_rw_never_full", "iv_fd_pump.c",
  "\tip->bytes += ret;\n\tif (!splice_available && ip->bytes == BUF_SIZE)\n\t\tip->full = 1;",
  "\tip->bytes += ret;",
  ["C17"], "EOF: read of 0 bytes into a full buffer is taken for end-of-file"),
 ("pump_eof_before_drain", "iv_fd_pump.c",
  "\t\tip->saw_fin = 1;\n\t\tif (!ip->bytes) {",
  "\t\tip->saw_fin = 1;\n\t\tif (1) {",
  ["C17"], "EOF relayed / 0 returned while data is still buffered"),
 ("pump_output_no_full_reset", "iv_fd_pump.c",
  "\tip->full = 0;\n\n\tip->bytes -= ret;",
  "\tip->bytes -= ret;",
  ["C17"], "bands: input is never requested again after the buffer was full once"),
 ("pump_bands_always_in", "iv_fd_pump.c",
  "\t\tip->set_bands(ip->cookie, !ip->full, !!ip->bytes);",
  "\t\tip->set_bands(ip->cookie, 1, !!ip->bytes);",
  ["C17"], "bands: input requested while the buffer is full"),
 ("pump_fionread_ge0", "iv_fd_pump.c",
  "\t\t\tif (bytes > 0)\n\t\t\t\tip->full = 1;",
  "\t\t\tif (bytes >= 0)\n\t\t\t\tip->full = 1;",
  ["C17"], "bands: splice mode declares the pipe full when the source is merely dry"),
 ("pump_no_shutdown_on_drain", "iv_fd_pump.c",
  "\tif (!ip->bytes && ip->saw_fin == 1) {\n\t\tif (ip->flags & IV_FD_PUMP_FLAG_RELAY_EOF)\n\t\t\tshutdown(ip->to_fd, SHUT_WR);\n\t\tip->saw_fin = 2;",
  "\tif (!ip->bytes && ip->saw_fin == 1) {\n\t\tip->saw_fin = 2;",
  ["C17"], "EOF seen with data pending is not relayed (no shutdown) after the drain"),
 ("pump_read_offset", "iv_fd_pump.c",
  "\t\t\tret = read(ip->from_fd, buf->u.buf + ip->bytes,",
  "\t\t\tret = read(ip->from_fd, buf->u.buf,",
  ["C17"], "stream: a second read overwrites buffered bytes"),

 # ---- C20: iv_inotify (src/iv_inotify.c) -----------------------------------------------------------------------
 ("ino_ignored_and_oneshot", "iv_inotify.c",
  "if (event->mask & IN_IGNORED || w->mask & IN_ONESHOT)",
  "if (event->mask & IN_IGNORED && w->mask & IN_ONESHOT)",
  ["C20"], "kernel-removed / one-shot watches are not dropped before the handler"),
 ("ino_loop_end_off_by_one", "iv_inotify.c",
  "\twhile (curr < end) {",
  "\twhile (curr + sizeof(struct inotify_event) < end) {",
  ["C20"], "the last event of a read is dropped when it has no name"),
 ("ino_register_no_fail_check", "iv_inotify.c",
  "\tif (w->wd == -1)\n\t\treturn -1;\n\n\treturn iv_avl_tree_insert",
  "\treturn iv_avl_tree_insert",
  ["C20"], "a failed add_watch leaves a watch with wd -1 in the set: queue-overflow events (wd -1) are routed to it"),
 ("ino_dup_wd_ignored", "iv_inotify.c",
  "\treturn iv_avl_tree_insert(&inotify->watches, &w->an);",
  "\tiv_avl_tree_insert(&inotify->watches, &w->an);\n\n\treturn 0;",
  ["C20"], "second watch on the same wd reports success; unregistering it later corrupts the set"),
 ("ino_dropped_watch_no_handler", "iv_inotify.c",
  "\t\t\t\tiv_avl_tree_delete(&this->watches, &w->an);\n\t\t\tw->handler(w->cookie, event);",
  "\t\t\t\tiv_avl_tree_delete(&this->watches, &w->an);\n\t\t\telse\n\t\t\t\tw->handler(w->cookie, event);",
  ["C20"], "events of one-shot / kernel-removed watches are not delivered"),
 ("ino_end_is_bufsize", "iv_inotify.c",
  "\tend = event_queue + ret;",
  "\tend = event_queue + sizeof(event_queue);",
  ["C20"], "stale bytes beyond the read are parsed as events"),
 ("ino_break_on_unknown_wd", "iv_inotify.c",
  "\t\t\tw->handler(w->cookie, event);\n\t\t}\n",
  "\t\t\tw->handler(w->cookie, event);\n\t\t} else {\n\t\t\tbreak;\n\t\t}\n",
  ["C20"], "events after one for an unknown (already unregistered) wd are dropped"),

 # ---- C08: iv_event across threads (src/iv_event.c, kick handling in src/iv_fd_epoll.c) ---------------------------
 ("ev_del_not_init", "iv_event.c",
  "\t\tiv_list_del_init(&ie->list);\n\t\tempty_now",
  "\t\tiv_list_del(&ie->list);\n\t\tempty_now",
  ["C08"], "lost post: an event that ran once never looks 'not queued' again"),
 ("ev_run_one_per_wakeup", "iv_event.c",
  "\t__iv_list_steal_elements(&st->events_pending, &events);\n\twhile (1) {",
  "\tINIT_IV_LIST_HEAD(&events);\n\t{\n\t\tstruct iv_list_head *first = st->events_pending.next;\n\n\t\tiv_list_del(first);\n\t\tiv_list_add_tail(first, &events);\n\t}\n\twhile (1) {",
  ["C08"], "lost wake-up: the rest stays pending, posters see a non-empty list and do not kick"),
 ("ev_recheck_wrong_list", "iv_event.c",
  "\t\tif (iv_list_empty(&events)) {\n\t\t\t___mutex_unlock(&st->event_list_mutex);\n\t\t\tbreak;",
  "\t\tif (iv_list_empty(&st->events_pending)) {\n\t\t\t___mutex_unlock(&st->event_list_mutex);\n\t\t\tbreak;",
  ["C08"], "lost post: rest of the stolen batch is abandoned when nothing new is pending"),
 ("ev_unlocked_peek", "iv_event.c",
  "\t___mutex_lock(&dst->event_list_mutex);\n\tif (iv_list_empty(&this->list)) {\n\t\tif (iv_list_empty(&dst->events_pending))\n\t\t\tpost = 1;\n\t\tiv_list_add_tail",
  "\tif (iv_list_empty(&dst->events_pending))\n\t\tpost = 1;\n\n\t___mutex_lock(&dst->event_list_mutex);\n\tif (iv_list_empty(&this->list)) {\n\t\tiv_list_add_tail",
  ["C08", "C14"], "lost wake-up: 'list was empty' decided before the lock, the owner steals in between; also a data race"),
 ("kick_deferred_when_fds_ready", "iv_fd_epoll.c",
  ["\tif (run_events)\n\t\tiv_event_run_pending_events();", "\tif (run_events)\n\t\tiv_event_run_pending_events();"],
  ["\tif (run_events && iv_list_empty(active))\n\t\tiv_event_run_pending_events();", "\tif (run_events && iv_list_empty(active))\n\t\tiv_event_run_pending_events();"],
  ["C08"], "lost wake-up: one-shot kick consumed but events not run when descriptors are ready in the same batch"),
 ("ev_empty_return_no_unlock", "iv_event.c",
  "\tif (iv_list_empty(&st->events_pending)) {\n\t\t___mutex_unlock(&st->event_list_mutex);\n\t\treturn;\n\t}",
  "\tif (iv_list_empty(&st->events_pending))\n\t\treturn;",
  ["C08"], "owner and posters block for ever on the list mutex after a wake-up that found nothing"),
 ("ev_rx_off_one_early", "iv_event.c",
  "\tif (!--st->event_count && is_mt_app()) {",
  "\tif (--st->event_count <= 1 && is_mt_app()) {",
  ["C08"], "unregistering another event removes the kick transport while an event is still registered"),

 # ---- C10: iv_signal (src/iv_signal.c) -------------------------------------------------------------------------
 ("sig_no_exclusive_stop", "iv_signal.c",
  "\t\tif (is->flags & IV_SIGNAL_FLAG_EXCLUSIVE)\n\t\t\tbreak;\n\n\t\tan = iv_avl_tree_next(an);",
  "\t\tan = iv_avl_tree_next(an);",
  ["C10"], "dispatch does not stop at the first exclusive interest"),
 ("sig_compare_exclusive_last", "iv_signal.c",
  "\tif ((a->flags & IV_SIGNAL_FLAG_EXCLUSIVE) &&\n\t    !(b->flags & IV_SIGNAL_FLAG_EXCLUSIVE))\n\t\treturn -1;\n\tif (!(a->flags & IV_SIGNAL_FLAG_EXCLUSIVE) &&\n\t    (b->flags & IV_SIGNAL_FLAG_EXCLUSIVE))\n\t\treturn 1;",
  "\tif ((a->flags & IV_SIGNAL_FLAG_EXCLUSIVE) &&\n\t    !(b->flags & IV_SIGNAL_FLAG_EXCLUSIVE))\n\t\treturn 1;\n\tif (!(a->flags & IV_SIGNAL_FLAG_EXCLUSIVE) &&\n\t    (b->flags & IV_SIGNAL_FLAG_EXCLUSIVE))\n\t\treturn -1;",
  ["C10"], "shared interests are woken although an exclusive one exists (exclusive sorts last)"),
 ("sig_active_clear_after_handler", "iv_signal.c",
  ["\tsigfillset(&all);\n\tpthr_sigmask(SIG_BLOCK, &all, &mask);", "\tpthr_sigmask(SIG_SETMASK, &mask, NULL);\n\n\tthis->handler(this->cookie);\n}"],
  ["\tthis->handler(this->cookie);\n\n\tsigfillset(&all);\n\tpthr_sigmask(SIG_BLOCK, &all, &mask);", "\tpthr_sigmask(SIG_SETMASK, &mask, NULL);\n}"],
  ["C10"], "hand-off: a delivery noted during the handler is forgotten (active cleared afterwards); self-unregistration writes freed memory"),
 ("sig_handoff_dropped", "iv_signal.c",
  "\t} else if ((this->flags & IV_SIGNAL_FLAG_EXCLUSIVE) && this->active) {",
  "\t} else if (0) {",
  ["C10"], "a delivery noted for an unregistered exclusive interest is dropped"),
 ("sig_sigdfl_postdec", "iv_signal.c",
  "\tif (!--total_num_interests[this->signum]) {",
  "\tif (!total_num_interests[this->signum]--) {",
  ["C10"], "default disposition is not restored when the last interest goes away"),
 ("sig_no_pid_check", "iv_signal.c",
  "\tif (sig_owner_pid == 0 || sig_owner_pid != getpid())\n\t\treturn;\n\n",
  "",
  ["C10"], "a forked child triggers the parent's handlers"),
 ("sig_thread_and_process_both", "iv_signal.c",
  "\tif (tinfo == NULL || !__iv_signal_do_wake(&tinfo->thr_sigs, signum)) {\n\t\tspin_lock(&sig_lock);\n\t\t__iv_signal_do_wake(&process_sigs, signum);\n\t\tspin_unlock(&sig_lock);\n\t}",
  "\tif (tinfo != NULL)\n\t\t__iv_signal_do_wake(&tinfo->thr_sigs, signum);\n\n\tspin_lock(&sig_lock);\n\t__iv_signal_do_wake(&process_sigs, signum);\n\tspin_unlock(&sig_lock);",
  ["C10"], "this-thread interests no longer take precedence: process-wide ones are woken as well"),
 ("sig_walk_no_signum_check", "iv_signal.c",
  "\t\tif (is->signum != signum)\n\t\t\tbreak;\n\n",
  "",
  ["C10"], "the walk runs on into the interests of the next signal number"),
 ("sig_sa_mask_empty", "iv_signal.c",
  "\t\tsigfillset(&sa.sa_mask);",
  "\t\tsigemptyset(&sa.sa_mask);",
  ["C10"], "a second signal interrupts iv_signal_handler while it holds sig_lock: the thread spins for ever"),
 ("sig_unregister_no_sigmask", "iv_signal.c",
  ["\tspin_lock_sigmask(&sig_lock, &mask);\n\n\tiv_avl_tree_delete(iv_signal_tree(this), &this->an);", "\tspin_unlock_sigmask(&sig_lock, &mask);\n\n\tiv_event_raw_unregister(&this->ev);"],
  ["\tspin_lock(&sig_lock);\n\n\tiv_avl_tree_delete(iv_signal_tree(this), &this->an);", "\tspin_unlock(&sig_lock);\n\n\tiv_event_raw_unregister(&this->ev);"],
  ["C10"], "a delivery to the unregistering thread inside the critical section self-deadlocks on sig_lock / walks a tree under surgery"),
 ("sig_event_no_sigblock", "iv_signal.c",
  ["\tsigfillset(&all);\n\tpthr_sigmask(SIG_BLOCK, &all, &mask);\n\n", "\tpthr_sigmask(SIG_SETMASK, &mask, NULL);\n\n\tthis->handler(this->cookie);"],
  ["", "\tthis->handler(this->cookie);"],
  ["C10"], "a delivery to the thread that is clearing the active flag under sig_lock self-deadlocks in the signal handler"),
 ("sig_child_register_no_reset", "iv_signal.c",
  "\t\tiv_signal_child_reset_postfork();\n\t\tsig_owner_pid = mypid;",
  "\t\tsig_owner_pid = mypid;",
  ["C10"], "a forked child that registers an interest keeps the parent's interests: its signals trigger the parent's handlers"),

 # ---- C11: iv_wait (src/iv_wait.c) -----------------------------------------------------------------------------
 ("wait_no_dead_flag", "iv_wait.c",
  "\t\t\tiv_avl_tree_delete(&iv_wait_interests, &p->avl_node);\n\t\t\tp->flags = IV_WAIT_STATUS_DEAD;",
  "\t\t\tiv_avl_tree_delete(&iv_wait_interests, &p->avl_node);",
  ["C11"], "kill helper signals a reaped pid; unregister deletes the node twice"),
 ("wait_dead_no_tree_delete", "iv_wait.c",
  "\t\t\tiv_avl_tree_delete(&iv_wait_interests, &p->avl_node);\n\t\t\tp->flags = IV_WAIT_STATUS_DEAD;",
  "\t\t\tp->flags = IV_WAIT_STATUS_DEAD;",
  ["C11"], "dead interest stays in the set: freed node reachable, reused pid mis-routed"),
 ("wait_completion_no_handled_check", "iv_wait.c",
  "\t\tif (tinfo->handled_wait_interest != NULL) {",
  "\t\tif (1) {",
  ["C11"], "statuses delivered after the interest was unregistered from its handler"),
 ("wait_exited_not_dead", "iv_wait.c",
  "\tif (WIFEXITED(status))\n\t\treturn 1;\n\n\treturn 0;",
  "\treturn 0;",
  ["C11"], "a normal exit is not treated as termination: kill helper signals the reaped pid"),
 ("wait_queue_head", "iv_wait.c",
  "\t\t\tiv_list_add_tail(&we->list, &p->events_pending);",
  "\t\t\tiv_list_add(&we->list, &p->events_pending);",
  ["C11"], "statuses delivered in reverse order"),
 ("wait_reap_one_per_sigchld", "iv_wait.c",
  "\t\t\tp->flags = IV_WAIT_STATUS_DEAD;\n\t\t}\n\t}\n\t___mutex_unlock(&iv_wait_lock);",
  "\t\t\tp->flags = IV_WAIT_STATUS_DEAD;\n\t\t}\n\t\tbreak;\n\t}\n\t___mutex_unlock(&iv_wait_lock);",
  ["C11"], "coalesced SIGCHLDs: only one status change is reaped per signal, the others are never delivered"),
 ("wait_kill_no_dead_check", "iv_wait.c",
  "\tif (!(this->flags & IV_WAIT_STATUS_DEAD))\n\t\tret = kill(this->pid, sig);\n\telse\n\t\tret = -ESRCH;",
  "\tret = kill(this->pid, sig);",
  ["C11"], "kill helper signals a pid whose termination was reaped"),
 ("wait_unreg_other_clears_handled", "iv_wait.c",
  "\tif (tinfo->handled_wait_interest == this)\n\t\ttinfo->handled_wait_interest = NULL;",
  "\ttinfo->handled_wait_interest = NULL;",
  ["C11"], "unregistering ANOTHER interest from a wait handler suppresses the remaining statuses of the running one"),
 ("wait_no_wuntraced", "iv_wait.c",
  "\t\tpid = wait4(-1, &status,\n\t\t\t    WNOHANG | WUNTRACED | WCONTINUED, &rusage);",
  "\t\tpid = wait4(-1, &status, WNOHANG, &rusage);",
  ["C11"], "stopped / continued state changes are never reaped, hence never delivered"),

 # ---- C19: iv_popen (src/iv_popen.c) ---------------------------------------------------------------------------
 ("popen_kill_first", "iv_popen.c",
  "(ch->num_kills++ < MAX_SIGTERM_COUNT) ? SIGTERM : SIGKILL;",
  "(ch->num_kills++ < MAX_SIGTERM_COUNT) ? SIGKILL : SIGTERM;",
  ["C19"], "unconditional kill first, termination requests afterwards"),
 ("popen_num_kills_not_reset", "iv_popen.c",
  "\t\tiv_timer_register(&ch->signal_timer);\n\n\t\tch->num_kills = 0;",
  "\t\tiv_timer_register(&ch->signal_timer);",
  ["C19"], "uninitialised kill counter: a child that ignores SIGTERM may never get SIGKILL"),
 ("popen_swap_ends", "iv_popen.c",
  "\tif (info.for_read) {\n\t\tfd = info.data_pipe[0];\n\t\tclose(info.data_pipe[1]);\n\t} else {\n\t\tfd = info.data_pipe[1];\n\t\tclose(info.data_pipe[0]);",
  "\tif (info.for_read) {\n\t\tfd = info.data_pipe[1];\n\t\tclose(info.data_pipe[0]);\n\t} else {\n\t\tfd = info.data_pipe[0];\n\t\tclose(info.data_pipe[1]);",
  ["C19"], "wrong pipe end returned to the caller"),
 ("popen_parent_end_not_closed", "iv_popen.c",
  "\t\tfd = info.data_pipe[0];\n\t\tclose(info.data_pipe[1]);",
  "\t\tfd = info.data_pipe[0];",
  ["C19"], "type r: parent keeps the write end, the reader never sees EOF"),
 ("popen_exit_keeps_timer", "iv_popen.c",
  "\tif (ch->parent != NULL)\n\t\tch->parent->child = NULL;\n\telse\n\t\tiv_timer_unregister(&ch->signal_timer);",
  "\tif (ch->parent != NULL)\n\t\tch->parent->child = NULL;",
  ["C19"], "child ends during the signalling sequence: timer stays armed on a freed record"),
 ("popen_parent_child_not_cleared", "iv_popen.c",
  "\tif (ch->parent != NULL)\n\t\tch->parent->child = NULL;\n\telse\n\t\tiv_timer_unregister(&ch->signal_timer);",
  "\tif (ch->parent == NULL)\n\t\tiv_timer_unregister(&ch->signal_timer);",
  ["C19"], "child already ended: close starts signalling through a freed record"),
 ("popen_close_no_detach", "iv_popen.c",
  "\t\tch->parent = NULL;\n\n\t\tIV_TIMER_INIT",
  "\t\tIV_TIMER_INIT",
  ["C19"], "exit after close writes into the freed request and leaves the timer armed"),
 ("popen_timer_kill_raw", "iv_popen.c",
  "\tret = iv_wait_interest_kill(&ch->wait, signum);",
  "\tret = kill(ch->wait.pid, signum);",
  ["C19"], "a signal is sent to the pid after its termination was reaped (before the exit notification ran)"),
 ("popen_child_stderr_to_pipe", "iv_popen.c",
  "\t\tdup2(info->data_pipe[1], 1);\n\t\tdup2(devnull, 2);",
  "\t\tdup2(info->data_pipe[1], 1);\n\t\tdup2(info->data_pipe[1], 2);",
  ["C19"], "type r: the child's standard error is not on the null device"),
 ("popen_child_w_stderr_inherited", "iv_popen.c",
  "\t\tdup2(info->data_pipe[0], 0);\n\t\tdup2(devnull, 1);\n\t\tdup2(devnull, 2);",
  "\t\tdup2(info->data_pipe[0], 0);\n\t\tdup2(devnull, 1);",
  ["C19"], "type w: the child's standard error is inherited instead of the null device"),

 # ---- C14: data races (locks removed / moved) ------------------------------------------------------------------
 ("race_event_post_add_after_unlock", "iv_event.c",
  "\t\tiv_list_add_tail(&this->list, &dst->events_pending);\n\t}\n\t___mutex_unlock(&dst->event_list_mutex);\n",
  "\t\tpost |= 2;\n\t}\n\t___mutex_unlock(&dst->event_list_mutex);\n\tif (post & 2)\n\t\tiv_list_add_tail(&this->list, &dst->events_pending);\n\tpost &= 1;\n",
  ["C14"], "pending list written outside the mutex by the poster"),
 ("race_event_empty_check_before_lock", "iv_event.c",
  "\t___mutex_lock(&st->event_list_mutex);\n\n\tif (iv_list_empty(&st->events_pending)) {\n\t\t___mutex_unlock(&st->event_list_mutex);\n\t\treturn;\n\t}\n",
  "\tif (iv_list_empty(&st->events_pending))\n\t\treturn;\n\n\t___mutex_lock(&st->event_list_mutex);\n",
  ["C14"], "owner reads the pending list head without the mutex (fast path)"),
 ("race_signal_event_active_no_lock", "iv_signal.c",
  "\tif (!(this->flags & IV_SIGNAL_FLAG_THIS_THREAD)) {\n\t\tspin_lock(&sig_lock);\n\t\tthis->active = 0;\n\t\tspin_unlock(&sig_lock);\n\t} else {\n\t\tthis->active = 0;\n\t}",
  "\tthis->active = 0;",
  ["C14"], "active flag of a process-wide interest written without sig_lock vs a delivery in another thread"),
 ("race_signal_handler_no_lock", "iv_signal.c",
  "\t\tspin_lock(&sig_lock);\n\t\t__iv_signal_do_wake(&process_sigs, signum);\n\t\tspin_unlock(&sig_lock);",
  "\t\t__iv_signal_do_wake(&process_sigs, signum);",
  ["C14"], "process-wide interest tree walked by the signal handler without sig_lock vs register/unregister elsewhere"),
 ("race_wait_completion_steal_no_lock", "iv_wait.c",
  "\t___mutex_lock(&iv_wait_lock);\n\t__iv_list_steal_elements(&this->events_pending, &events);\n\t___mutex_unlock(&iv_wait_lock);",
  "\t__iv_list_steal_elements(&this->events_pending, &events);",
  ["C14"], "per-interest status queue stolen without iv_wait_lock vs the reaper in another thread"),
 ("race_wait_register_insert_no_lock", "iv_wait.c",
  "\t___mutex_lock(&iv_wait_lock);\n\tiv_avl_tree_insert(&iv_wait_interests, &this->avl_node);\n\t___mutex_unlock(&iv_wait_lock);",
  "\tiv_avl_tree_insert(&iv_wait_interests, &this->avl_node);",
  ["C14"], "interest tree insert without iv_wait_lock vs the reaper / other registrations"),
 ("race_work_done_steal_no_lock", "iv_work.c",
  "\t___mutex_lock(&pool->lock);\n\t__iv_list_steal_elements(&pool->work_done, &items);\n\t___mutex_unlock(&pool->lock);",
  "\t__iv_list_steal_elements(&pool->work_done, &items);",
  ["C14"], "done list stolen by the owner without the pool lock vs workers appending"),
 ("race_work_idle_kicked_before_lock", "iv_work.c",
  "\t___mutex_lock(&pool->lock);\n\t\n\tif (thr->kicked) {",
  "\tint kicked = thr->kicked;\n\n\t___mutex_lock(&pool->lock);\n\n\tif (kicked) {",
  ["C14"], "worker's kicked flag read before the pool lock vs the submitter writing it (idle-timeout path)"),
 ("race_thread_register_dead_after_create", "iv_thread_posix.c",
  ["\tiv_event_register(&thr->dead);\n\n\tthr->name = strdup(name);", "\tret = pthr_create(&thr->thread_id, NULL, iv_thread_handler, thr);\n\tif (ret)\n\t\tgoto out;\n"],
  ["\tthr->name = strdup(name);", "\tret = pthr_create(&thr->thread_id, NULL, iv_thread_handler, thr);\n\tif (ret) {\n\t\tfree(thr->name);\n\t\tfree(thr);\n\t\treturn -1;\n\t}\n\tiv_event_register(&thr->dead);\n"],
  ["C14"], "the 'dead' event is initialised by the creator after the thread started: a thread that ends at once posts it concurrently"),
 ("race_wait_kill_no_lock", "iv_wait.c",
  "\t___mutex_lock(&iv_wait_lock);\n\tif (!(this->flags & IV_WAIT_STATUS_DEAD))\n\t\tret = kill(this->pid, sig);\n\telse\n\t\tret = -ESRCH;\n\t___mutex_unlock(&iv_wait_lock);",
  "\tif (!(this->flags & IV_WAIT_STATUS_DEAD))\n\t\tret = kill(this->pid, sig);\n\telse\n\t\tret = -ESRCH;",
  ["C14"], "DEAD flag read by the kill helper without iv_wait_lock vs the reaper in another thread setting it"),
 ("race_work_thread_needed_no_lock", "iv_work.c",
  "\t___mutex_lock(&pool->lock);\n\n\tif (iv_list_empty(&pool->idle_threads) && \n\t    pool->started_threads < pool->max_threads) {\n\t\tiv_work_start_thread(pool);\n\t}\n\n\t___mutex_unlock(&pool->lock);",
  "\tif (iv_list_empty(&pool->idle_threads) && \n\t    pool->started_threads < pool->max_threads) {\n\t\tiv_work_start_thread(pool);\n\t}",
  ["C14"], "owner reads idle list / thread count without the pool lock when a worker asked for a thread (continuation path)"),
 ("race_active_fd_refcount_no_lock", "iv_fd_epoll.c",
  "\t___mutex_lock(&iv_fd_epoll_active_fd_mutex);\n\tif (!iv_active_fd_refcount++)\n\t\tiv_active_fd = iv_fd_epoll_create_active_fd();\n\t___mutex_unlock(&iv_fd_epoll_active_fd_mutex);",
  "\tif (!iv_active_fd_refcount++)\n\t\tiv_active_fd = iv_fd_epoll_create_active_fd();",
  ["C14"], "shared kick-descriptor reference count updated without its mutex by loops in different threads"),
 # ---- ties by translation (gen/c2gallina.py TYPED -> Gen/Leaf*.v, link lemmas): edits that no generated test case notices;
 #      the link theorem of the property breaks (VIOLATION(no-input) naming the theorem) ------------------------------------------
 ("link_work_unsigned_loop_test", "iv_work.c",
  "\twhile ((int32_t)(last_seq - pool->seq_head) > 0) {",
  "\twhile (last_seq > pool->seq_head) {",
  ["C12"], "tie: the loop test is no longer the signed test modulo 2^32 (wrong after seq wrap-around): C12_seq_tests_are_the_code"),
 ("link_popen_sigterm_again_after_100", "iv_popen.c",
  "\tsignum = (ch->num_kills++ < MAX_SIGTERM_COUNT) ? SIGTERM : SIGKILL;",
  "\tsignum = (ch->num_kills++ < MAX_SIGTERM_COUNT || ch->num_kills > 100) ? SIGTERM : SIGKILL;",
  ["C19"], "tie: SIGTERM again from the 101st signal on: C19_escalation_is_the_code"),
 ("link_avl_recalc_not_max_above_200", "iv_avl.c",
  "\tan->height = 1 + ((hl > hr) ? hl : hr);",
  "\tan->height = 1 + ((hl > hr || hl > 200) ? hl : hr);",
  ["C16"], "tie: recalc_height is not 1 + max for heights above 200: C16_balance_arith_is_the_code"),
 ("link_inotify_loop_until_equal", "iv_inotify.c",
  "\twhile (curr < end) {",
  "\twhile (curr != end) {",
  ["C20"], "tie: the record walk stops only at curr == end (same on whole records): C20_record_walk_is_the_code"),
 ("link_signal_compare_extra_flag_bit", "iv_signal.c",
  "\tif ((a->flags & IV_SIGNAL_FLAG_EXCLUSIVE) &&\n\t    !(b->flags & IV_SIGNAL_FLAG_EXCLUSIVE))",
  "\tif ((a->flags & (IV_SIGNAL_FLAG_EXCLUSIVE | 4)) &&\n\t    !(b->flags & IV_SIGNAL_FLAG_EXCLUSIVE))",
  ["C10"], "tie: the comparator looks at an unused flag bit too: C10_compare_is_the_code"),
 ("link_wait_compare_huge_pid", "iv_wait.c",
  "\tif (a->pid < b->pid)\n\t\treturn -1;",
  "\tif (a->pid < b->pid || a->pid > 1000000)\n\t\treturn -1;",
  ["C11"], "tie: the comparator is not a three-way comparison for pids above 10^6: C11_compare_is_the_code"),
]

_prop_locks = {}
_prop_locks_guard = threading.Lock()
_print_lock = threading.Lock()


def prop_lock(pr):
    # two runs of the same check would overwrite each other's build/replay/<ID>_<tag>.txt
    with _prop_locks_guard:
        return _prop_locks.setdefault(pr, threading.Lock())


def make_scratch(name, f, old, new):
    d = os.path.join(SCRATCH, name)
    shutil.rmtree(d, ignore_errors=True)
    os.makedirs(d)
    shutil.copytree("/repo/src", d + "/src", ignore=shutil.ignore_patterns("*.o", "*.lo", "*.la", ".libs", ".deps"))
    shutil.copy("/repo/config.h", d)
    if f is None:
        return d, None
    p = d + "/src/" + f
    s = open(p).read()
    olds = old if isinstance(old, list) else [old]
    news = new if isinstance(new, list) else [new]
    for o, n in zip(olds, news):
        if o not in s:
            return d, "PATTERN-NOT-FOUND"
        s = s.replace(o, n, 1)
    open(p, "w").write(s)
    return d, None


def compile_check(d, f):
    """compile the edited file alone the way vlib.cc_build does (without sanitizers): a mutant must build"""
    inc = os.path.join(d, "inc")
    os.makedirs(inc, exist_ok=True)
    txt = open(os.path.join(d, "src", "include", "iv.h.in")).read().replace("@ac_cv_timespec_hdr@", "sys/time.h")
    open(os.path.join(inc, "iv.h"), "w").write(txt)
    shutil.copy(os.path.join(d, "config.h"), inc)
    cmd = ["gcc", "-D_GNU_SOURCE", "-DHAVE_CONFIG_H", "-I" + inc, "-I" + d + "/src/include", "-I" + d + "/src", "-O1", "-Wall",
           "-pthread", "-c", os.path.join(d, "src", f), "-o", os.path.join(d, "cc_test.o")]
    p = subprocess.run(cmd, stdout=subprocess.PIPE, stderr=subprocess.STDOUT, text=True)
    return p.returncode == 0, p.stdout


def classify(rc, out):
    vio = [l for l in out.splitlines() if l.startswith("VIOLATION property=")]
    known = [l for l in out.splitlines() if l.startswith("KNOWN-FINDING")]
    replays = []
    for l in vio:
        m = re.search(r"replay=(\S+)", l)
        replays.append((m.group(1) if m else "", "no-failing-input-found" in l))
    if vio:
        if any(p.endswith("_build.txt") for p, _ in replays):
            cls = "BUILD-FAIL"
        elif any(not noinp for _, noinp in replays):
            cls = "VIOLATION(input)"
        else:
            cls = "VIOLATION(no-input)"
    elif rc == 0:
        cls = "MISSED" + (" (KNOWN-FINDING printed)" if known else "")
    elif rc == 124:
        cls = "TIMEOUT"
    else:
        cls = "ERROR rc=%s" % rc
    return cls, replays


def run_check(d, name, pr, timeout=2400):
    env = dict(os.environ, VERIF_REPO=d, VERIF_EVID=os.path.join(d, "evid"))
    t0 = time.time()
    with prop_lock(pr):
        try:
            p = subprocess.run(["./check", pr, "--tier", "quick"], cwd=VERIF, env=env, stdout=subprocess.PIPE,
                               stderr=subprocess.STDOUT, text=True, errors="replace", timeout=timeout)
            rc, out = p.returncode, p.stdout
        except subprocess.TimeoutExpired as e:
            out = e.stdout or ""
            if isinstance(out, bytes):
                out = out.decode(errors="replace")
            rc = 124
        # a check whose proofs depend on re-translated definitions (lib/leafgen.py OWNED) has rewritten its generated Coq file
        # from the edited tree: put the translation of the unchanged tree back before the property lock is released
        env0 = dict(os.environ)
        env0.pop("VERIF_REPO", None)
        subprocess.run([sys.executable, os.path.join(VERIF, "lib", "leafgen.py"), pr], cwd=VERIF, env=env0,
                       stdout=subprocess.DEVNULL, stderr=subprocess.DEVNULL)
        cls, replays = classify(rc, out)
        heads = []
        for path, noinp in replays:
            try:
                lines = open(path, errors="replace").read().splitlines()
            except OSError:
                lines = ["(replay file unreadable)"]
            heads.append({"replay": path, "no_input": noinp, "head": [l[:400] for l in lines[:14]]})
    return {"mutant": name, "property": pr, "class": cls, "rc": rc, "wall_s": round(time.time() - t0, 1), "replays": heads,
            "tail": [l[:300] for l in out.splitlines()[-4:]]}


LIB_SRCS = ["iv_avl", "iv_event", "iv_fatal", "iv_task", "iv_timer", "iv_tls", "iv_work", "iv_event_raw_posix", "iv_fd",
            "iv_fd_poll", "iv_fd_pump", "iv_main_posix", "iv_popen", "iv_signal", "iv_thread_posix", "iv_tid_posix",
            "iv_time_posix", "iv_wait", "iv_fd_epoll", "iv_inotify"]
SUITE = ["avl", "event_unregister_bug", "iv_event_raw_test", "timer", "timer_fairness", "timer_fairness_bug", "timer_order",
         "timer_past", "timer_zero", "iv_signal_test"]          # TESTS of /repo/test/Makefile.am minus struct_sizes
_suite_base_lock = threading.Lock()


def suite_flags(d):
    inc = os.path.join(d, "inc")
    os.makedirs(inc, exist_ok=True)
    txt = open(os.path.join(d, "src", "include", "iv.h.in")).read().replace("@ac_cv_timespec_hdr@", "sys/time.h")
    open(os.path.join(inc, "iv.h"), "w").write(txt)
    shutil.copy(os.path.join(d, "config.h"), inc)
    return ["-D_GNU_SOURCE", "-DHAVE_CONFIG_H", "-I" + inc, "-I" + d + "/src/include", "-I" + d + "/src", "-O2", "-g", "-pthread"]


def run_suite(d, name, f):
    """the repository's own `make check` programs, built (plain gcc -O2, as the autotools build does) against the
    edited tree: unedited objects are compiled once into /tmp/mutsurvey/_suite_base and reused"""
    base = os.path.join(SCRATCH, "_suite_base")
    with _suite_base_lock:
        if not os.path.exists(os.path.join(base, "done")):
            bd, _ = make_scratch("_suite_base", None, None, None)
            fl = suite_flags(bd)
            for s in LIB_SRCS:
                subprocess.run(["gcc"] + fl + ["-c", bd + "/src/%s.c" % s, "-o", bd + "/%s.o" % s], check=True)
            open(os.path.join(base, "done"), "w").write("ok\n")
    fl = suite_flags(d)
    objs = [os.path.join(base, s + ".o") for s in LIB_SRCS]
    hdr_edit = f is not None and not f.endswith(".c")
    for s in LIB_SRCS:
        if f is not None and (hdr_edit or f == s + ".c"):
            o = os.path.join(d, s + ".o")
            p = subprocess.run(["gcc"] + fl + ["-c", d + "/src/%s.c" % s, "-o", o], stdout=subprocess.PIPE, stderr=subprocess.STDOUT, text=True)
            if p.returncode != 0:
                return {"mutant": name, "property": "suite", "class": "BUILD-FAIL", "tail": p.stdout.splitlines()[-5:]}
            objs[LIB_SRCS.index(s)] = o
    failed = []
    t0 = time.time()
    for t in SUITE:
        exe = os.path.join(d, "t_" + t)
        p = subprocess.run(["gcc"] + fl + ["/repo/test/%s.c" % t] + objs + ["-o", exe], stdout=subprocess.PIPE, stderr=subprocess.STDOUT, text=True)
        if p.returncode != 0:
            failed.append(t + "(link)")
            continue
        try:
            r = subprocess.run([exe], stdout=subprocess.DEVNULL, stderr=subprocess.DEVNULL, timeout=120)
            if r.returncode != 0:
                failed.append("%s(rc=%d)" % (t, r.returncode))
        except subprocess.TimeoutExpired:
            failed.append(t + "(timeout)")
    return {"mutant": name, "property": "suite", "class": "SUITE-FAIL " + " ".join(failed) if failed else "suite passes",
            "wall_s": round(time.time() - t0, 1)}


def run(m, dry, outf):
    name, f, old, new, props, clause = m
    res = []
    d, err = make_scratch(("suite_" + name) if dry == "suite" else name, f, old, new)
    try:
        if err:
            res.append({"mutant": name, "property": ",".join(props), "class": err})
        elif dry == "suite":
            res.append(run_suite(d, name, f))
        else:
            ok, log = (True, "") if f is None or not f.endswith(".c") else compile_check(d, f)
            if not ok:
                res.append({"mutant": name, "property": ",".join(props), "class": "BUILD-FAIL", "tail": log.splitlines()[-8:]})
            elif dry:
                warn = [l for l in log.splitlines() if "warning" in l]
                res.append({"mutant": name, "property": ",".join(props), "class": "builds", "tail": warn[:3]})
            else:
                for pr in props:
                    res.append(run_check(d, name, pr))
    finally:
        shutil.rmtree(d, ignore_errors=True)
    with _print_lock:
        for r in res:
            r["clause"] = clause
            print("%-38s %-8s %-22s %6ss  %s" % (r["mutant"], r["property"], r["class"], r.get("wall_s", "-"),
                                                   "; ".join(x["replay"] for x in r.get("replays", []))))
            for x in r.get("replays", []):
                for l in x["head"][:6]:
                    print("        | " + l[:200])
            if not r.get("replays") and r.get("tail") and not r["class"].startswith("MISSED"):
                for l in r["tail"]:
                    print("        : " + l)
            if outf:
                outf.write(json.dumps(r) + "\n")
                outf.flush()
        sys.stdout.flush()
    return res


def watchdog(limit, log):
    """A mutant that makes a harness driver spin costs the check its 900 s batch timeout per attempt (and the shrinker
    repeats it).  The watchdog kills drivers (executables under /verif/build/run/ that are grandchildren of THIS
    process only) which burnt more than `limit` CPU seconds; the check then sees an ordinary crash of that case."""
    tck = os.sysconf("SC_CLK_TCK")
    me = os.getpid()
    while True:
        time.sleep(15)
        par, cpu = {}, {}
        for p in os.listdir("/proc"):
            if not p.isdigit():
                continue
            try:
                f = open("/proc/%s/stat" % p).read().rsplit(")", 1)[1].split()
                par[int(p)] = int(f[1])
                cpu[int(p)] = (int(f[11]) + int(f[12])) / tck
            except (OSError, IndexError, ValueError):
                pass
        kids = [p for p in par if par[p] == me]
        for g in [p for p in par if par[p] in kids]:
            try:
                exe = os.readlink("/proc/%d/exe" % g)
            except OSError:
                continue
            if exe.startswith(os.path.join(VERIF, "build", "run") + "/") and cpu[g] > limit:
                with _print_lock:
                    print("watchdog: kill %d %s cpu=%ds" % (g, exe, cpu[g]))
                    sys.stdout.flush()
                try:
                    os.kill(g, 9)
                except OSError:
                    pass


def main():
    args = sys.argv[1:]
    dry = "--dry" in args
    if "--suite" in args:
        dry = "suite"
    jobs, out, wd = 3, None, 0
    sel = []
    i = 0
    while i < len(args):
        a = args[i]
        if a == "--jobs":
            jobs = min(3, int(args[i + 1]))
            i += 1
        elif a == "--out":
            out = args[i + 1]
            i += 1
        elif a == "--watchdog":
            wd = int(args[i + 1])
            i += 1
        elif a not in ("--dry", "--suite"):
            sel.append(a)
        i += 1
    todo = [m for m in M if not sel or m[0] in sel or any(p in sel for p in m[4])]
    # round-robin over the first listed property so that concurrent mutants rarely need the same check
    by = {}
    for m in todo:
        by.setdefault(m[4][0], []).append(m)
    order = []
    while any(by.values()):
        for k in sorted(by):
            if by[k]:
                order.append(by[k].pop(0))
    os.makedirs(SCRATCH, exist_ok=True)
    outf = open(out, "a") if out else None
    if wd > 0:
        threading.Thread(target=watchdog, args=(wd, None), daemon=True).start()
    from concurrent.futures import ThreadPoolExecutor
    with ThreadPoolExecutor(max_workers=jobs) as ex:
        list(ex.map(lambda m: run(m, dry, outf), order))
    if outf:
        outf.close()
    if dry == "suite":
        shutil.rmtree(os.path.join(SCRATCH, "_suite_base"), ignore_errors=True)
    try:
        os.rmdir(SCRATCH)
    except OSError:
        pass


if __name__ == "__main__":
    main()
