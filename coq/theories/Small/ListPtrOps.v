(* ListPtrOps.v -- every operation of iv_list.h refines the corresponding list operation (part 1: init, add,
   add_tail, del, del_init, empty). *)
From Coq Require Import List ZArith Bool FMapPositive Lia Setoid.
From Ivv Require Import Small.ListPtrModel Small.ListPtrBase.
Import ListNotations.

Ltac alloc_tac :=
  repeat (rewrite alloc_upd_next || rewrite alloc_upd_prev);
  eauto using nxt_alloc, prv_alloc.

Ltac simp :=
  repeat first [ rewrite nxt_upd_prev | rewrite prv_upd_next
               | rewrite nxt_upd_next by alloc_tac | rewrite prv_upd_prev by alloc_tac ].

Ltac simp_in H :=
  repeat first [ rewrite nxt_upd_prev in H | rewrite prv_upd_next in H
               | rewrite nxt_upd_next in H by alloc_tac | rewrite prv_upd_prev in H by alloc_tac ].

Ltac eqb_cases :=
  repeat match goal with |- context [Pos.eqb ?a ?b] => destruct (Pos.eqb_spec a b) end.

(* contradictions from NoDup / membership facts *)
Ltac nd_inv :=
  repeat match goal with
         | H : NoDup (_ :: _) |- _ => let a := fresh "Hni" in let b := fresh "Hnd" in
                                     apply NoDup_cons_iff in H; destruct H as [a b]
         | H : NoDup (_ ++ _) |- _ => fail
         end.

Ltac contra := exfalso; nd_inv; simpl In in *; try rewrite in_app_iff in *; simpl In in *; subst; intuition congruence.

Ltac nodup_tac :=
  nd_inv;
  repeat (constructor; [simpl In in *; try rewrite in_app_iff in *; simpl In in *; intuition congruence |]);
  try assumption; try constructor.

Ltac fin := simp; eqb_cases; subst; try reflexivity; try congruence; try assumption; try contra.

Ltac do_get_next v :=
  match goal with
  | |- context [get_next ?s0 (Some ?a)] =>
    let E := fresh "E" in
    assert (E : nxt s0 a = Some v) by fin;
    rewrite (get_next_ok _ _ _ E); clear E; cbn [bind]
  end.

Ltac do_get_prev v :=
  match goal with
  | |- context [get_prev ?s0 (Some ?a)] =>
    let E := fresh "E" in
    assert (E : prv s0 a = Some v) by fin;
    rewrite (get_prev_ok _ _ _ E); clear E; cbn [bind]
  end.

Ltac do_set_next := rewrite set_next_ok by alloc_tac; cbn [bind].
Ltac do_set_prev := rewrite set_prev_ok by alloc_tac; cbn [bind].

(* what an operation may change: the next fields of the nodes in N, the prev fields of the nodes in P, and
   nothing else (no allocation, no other field) *)
Definition touches (s s' : store) (N P : list positive) : Prop :=
  (forall k, ~ In k N -> nxt s' k = nxt s k) /\
  (forall k, ~ In k P -> prv s' k = prv s k) /\
  (forall k, alloc s' k <-> alloc s k).

Lemma touches_find s s' N P k : touches s s' N P -> ~ In k N -> ~ In k P -> PM.find k s' = PM.find k s.
Proof. intros (Hn & Hp & _) H1 H2. apply find_ext; auto. Qed.

Lemma touches_Rep s s' N P h l :
  touches s s' N P -> (forall k, In k (h :: l) -> ~ In k N /\ ~ In k P) -> Rep s h l -> Rep s' h l.
Proof.
  intros HT Hd. apply Rep_frame. intros k Hk. destruct (Hd k Hk). eapply touches_find; eauto.
Qed.

Ltac touch_tac :=
  repeat split; [ intros k Hk; simp; eqb_cases; subst; try reflexivity; exfalso; apply Hk; simpl; tauto
                | intros k Hk; simp; eqb_cases; subst; try reflexivity; exfalso; apply Hk; simpl; tauto
                | alloc_tac; tauto | alloc_tac; tauto ].

(* INIT_IV_LIST_HEAD *)
Theorem list_init_refines s h :
  alloc s h ->
  exists s', list_init s (Some h) = Ok s' /\ Rep s' h [] /\ touches s s' [h] [h].
Proof.
  intros Hh. unfold list_init. do_set_next. do_set_prev.
  eexists. split; [reflexivity |]. split.
  - split; [| repeat constructor; simpl; tauto]. cbn [Seg]. split; fin.
  - touch_tac.
Qed.

(* iv_list_add = cons *)
Theorem list_add_refines s h l n :
  Rep s h l -> alloc s n -> ~ In n (h :: l) ->
  exists s', list_add s (Some n) (Some h) = Ok s' /\ Rep s' h (n :: l) /\
             touches s s' [n; h] [n; first_of h l].
Proof.
  intros HR Hn Hnin.
  pose proof (Rep_next_head _ _ _ HR) as Hhn.
  pose proof (Rep_alloc _ _ _ HR) as HA.
  assert (Hh : alloc s h) by (apply HA; left; reflexivity).
  assert (Hf : alloc s (first_of h l)) by (destruct l; cbn; apply HA; cbn; auto).
  destruct HR as [HS HN].
  unfold list_add.
  do_get_next (Some (first_of h l)). do_set_next. do_set_prev.
  do_get_next (Some (first_of h l)). do_set_prev. do_set_next.
  eexists. split; [reflexivity |]. split.
  - split.
    + cbn [Seg]. split; [fin |]. split; [destruct l; cbn [first_of hd] in *; fin |].
      destruct l as [| x r]; cbn [first_of hd Seg] in *.
      * split; fin.
      * destruct HS as (H1 & H2 & H3). split; [fin |]. split; [fin |].
        eapply Seg_ext; [| | exact H3].
        -- intros k Hk. fin.
        -- intros k Hk. fin.
    + nodup_tac.
  - touch_tac.
Qed.

(* iv_list_add_tail = snoc *)
Theorem list_add_tail_refines s h l n :
  Rep s h l -> alloc s n -> ~ In n (h :: l) ->
  exists s', list_add_tail s (Some n) (Some h) = Ok s' /\ Rep s' h (l ++ [n]) /\
             touches s s' [n; last_of h l] [n; h].
Proof.
  intros HR Hn Hnin.
  pose proof (Rep_prev_head _ _ _ HR) as Hhp.
  pose proof (Rep_alloc _ _ _ HR) as HA.
  assert (Hh : alloc s h) by (apply HA; left; reflexivity).
  pose proof (last_In l h) as Hpin.
  assert (Hp : alloc s (last_of h l)) by (apply HA; exact Hpin).
  destruct HR as [HS HN].
  unfold list_add_tail, last_of in *. remember (last l h) as p eqn:Ep.
  assert (Hnp : n <> p) by (intros ->; tauto).
  assert (Hnh : n <> h) by (intros ->; apply Hnin; left; reflexivity).
  do_set_next. do_get_prev (Some p). do_set_prev. do_get_prev (Some p). do_set_next. do_set_prev.
  eexists. split; [reflexivity |]. split.
  - split.
    + apply Seg_snoc. split; [| split; fin].
      eapply Seg_retarget; [exact HS | exact HN | | | rewrite <- Ep; fin | rewrite <- Ep; fin].
      * rewrite <- Ep. intros k Hk Hne. fin.
      * intros k Hk. fin.
    + apply NoDup_cons_iff in HN. destruct HN as [N1 N2]. constructor.
      * rewrite in_app_iff. simpl In in *. intuition congruence.
      * apply NoDup_app_iff. repeat split; [assumption | repeat constructor; simpl; tauto |].
        intros x Hx [<- | []]. simpl In in *. tauto.
  - touch_tac.
Qed.

(* the two unlink statements: the node leaves its list, its own fields keep their (now stale) values *)
Lemma list_unlink_spec s h l1 n l2 :
  Rep s h (l1 ++ n :: l2) ->
  exists s', list_unlink s (Some n) = Ok s' /\ Rep s' h (l1 ++ l2) /\
             touches s s' [last_of h l1] [first_of h l2] /\ ~ In n (h :: l1 ++ l2) /\ alloc s' n.
Proof.
  intros HR.
  pose proof (Rep_alloc _ _ _ HR) as HA.
  destruct HR as [HS HN].
  apply Seg_app in HS. destruct HS as [S1 S2].
  pose proof (Seg_last _ _ _ _ S1) as [P1 P2].
  pose proof (Seg_first _ _ _ _ S2) as [Q1 Q2].
  change (h :: l1 ++ n :: l2) with ((h :: l1) ++ n :: l2) in HN.
  pose proof (NoDup_remove_1 _ _ _ HN) as HN'.
  pose proof (NoDup_remove_2 _ _ _ HN) as Hnin.
  apply NoDup_app_iff in HN. destruct HN as (N1 & N2 & D).
  pose proof (last_In l1 h) as Hpin.
  unfold last_of, first_of. remember (last l1 h) as p eqn:Ep. remember (hd h l2) as q eqn:Eq.
  assert (Hp : alloc s p) by eauto using nxt_alloc.
  assert (Hq : alloc s q) by eauto using prv_alloc.
  assert (Hnp : n <> p).
  { intros <-. apply (D n Hpin). left. reflexivity. }
  assert (Hnq : n <> q).
  { intros <-. apply NoDup_cons_iff in N2. destruct N2 as [N2 _]. destruct l2; simpl in Eq.
    - subst n. apply (D h); simpl; auto.
    - subst n. apply N2. left. reflexivity. }
  unfold list_unlink.
  do_get_prev (Some p). do_get_next (Some q). do_set_next.
  do_get_next (Some q). do_get_prev (Some p). do_set_prev.
  eexists. split; [reflexivity |]. split; [| split; [touch_tac | split; [exact Hnin | alloc_tac]]].
  split; [| exact HN'].
  assert (R1 : forall b', nxt (upd_prev (upd_next s p (Some q)) q (Some p)) p = Some (Some b') ->
                          prv (upd_prev (upd_next s p (Some q)) q (Some p)) b' = Some (Some p) ->
                          (forall k, In k l1 -> k <> q) ->
                          Seg (upd_prev (upd_next s p (Some q)) q (Some p)) h l1 b').
  { intros b' B1 B2 B3. eapply Seg_retarget; [exact S1 | exact N1 | | | rewrite <- Ep; exact B1 | rewrite <- Ep; exact B2].
    - rewrite <- Ep. intros k Hk Hne. fin.
    - intros k Hk. simp. destruct (Pos.eqb_spec k q); [exfalso; eapply B3; eauto | reflexivity]. }
  destruct l2 as [| y r2]; cbn [hd] in Eq; subst q.
  - rewrite app_nil_r. apply R1; [fin | fin |].
    intros k Hk ->. apply NoDup_cons_iff in N1. tauto.
  - apply Seg_app. split.
    + apply R1; [fin | fin |]. intros k Hk ->. apply (D y); simpl; auto.
    + cbn [Seg] in S2. destruct S2 as (_ & _ & S2).
      eapply Seg_ext; [| | exact S2].
      * intros k Hk. simp. destruct (Pos.eqb_spec k p); [| reflexivity].
        exfalso. subst k. apply (D p Hpin). right. exact Hk.
      * intros k Hk. simp. destruct (Pos.eqb_spec k y); [| reflexivity].
        exfalso. subst k. apply NoDup_cons_iff in N2. destruct N2 as [_ N2].
        apply NoDup_cons_iff in N2. destruct N2 as [N2 _].
        apply in_app_or in Hk. destruct Hk as [Hk | [Hk | []]]; [tauto |].
        apply (D y); simpl; auto.
Qed.

Lemma touches_trans s1 s2 s3 N1 P1 N2 P2 N P :
  touches s1 s2 N1 P1 -> touches s2 s3 N2 P2 ->
  (forall k, In k N1 \/ In k N2 -> In k N) -> (forall k, In k P1 \/ In k P2 -> In k P) ->
  touches s1 s3 N P.
Proof.
  intros (A1 & A2 & A3) (B1 & B2 & B3) HN HP. repeat split.
  - intros k Hk. rewrite B1, A1; [reflexivity | |]; intros H; apply Hk, HN; tauto.
  - intros k Hk. rewrite B2, A2; [reflexivity | |]; intros H; apply Hk, HP; tauto.
  - intros H. apply A3, B3, H.
  - intros H. apply B3, A3, H.
Qed.

(* iv_list_del = remove; the node's own fields become NULL *)
Theorem list_del_refines s h l1 n l2 :
  Rep s h (l1 ++ n :: l2) ->
  exists s', list_del s (Some n) = Ok s' /\ Rep s' h (l1 ++ l2) /\
             nxt s' n = Some None /\ prv s' n = Some None /\
             touches s s' [n; last_of h l1] [n; first_of h l2].
Proof.
  intros HR.
  destruct (list_unlink_spec _ _ _ _ _ HR) as (s2 & E & HR2 & HT & Hnin & Hn).
  unfold list_del. rewrite E. cbn [bind]. do_set_prev. do_set_next.
  eexists. split; [reflexivity |].
  assert (HT2 : touches s2 (upd_next (upd_prev s2 n None) n None) [n] [n]) by touch_tac.
  split; [| split; [fin | split; [fin |]]].
  - eapply touches_Rep; [exact HT2 | | exact HR2].
    intros k Hk. split; intros [<- | []]; contradiction.
  - eapply touches_trans; [exact HT | exact HT2 | |]; simpl; tauto.
Qed.

(* iv_list_del_init = remove; the node becomes an empty list of its own *)
Theorem list_del_init_refines s h l1 n l2 :
  Rep s h (l1 ++ n :: l2) ->
  exists s', list_del_init s (Some n) = Ok s' /\ Rep s' h (l1 ++ l2) /\ Rep s' n [] /\
             touches s s' [n; last_of h l1] [n; first_of h l2].
Proof.
  intros HR.
  destruct (list_unlink_spec _ _ _ _ _ HR) as (s2 & E & HR2 & HT & Hnin & Hn).
  unfold list_del_init. rewrite E. cbn [bind].
  destruct (list_init_refines s2 n Hn) as (s3 & E3 & HR3 & HT3). rewrite E3.
  eexists. split; [reflexivity |]. split; [| split; [exact HR3 |]].
  - eapply touches_Rep; [exact HT3 | | exact HR2].
    intros k Hk. split; intros [<- | []]; contradiction.
  - eapply touches_trans; [exact HT | exact HT3 | |]; simpl; tauto.
Qed.

(* iv_list_empty(head) <-> l = [] *)
Theorem list_empty_refines s h l :
  Rep s h l -> list_empty s (Some h) = Ok (match l with [] => true | _ => false end).
Proof.
  intros HR. pose proof (Rep_next_head _ _ _ HR) as Hn. destruct HR as [_ HN].
  unfold list_empty. rewrite (get_next_ok _ _ _ Hn). cbn [bind ptr_eqb]. f_equal.
  destruct l as [| x r]; cbn [first_of hd].
  - apply Pos.eqb_refl.
  - apply Pos.eqb_neq. intros ->. apply NoDup_cons_iff in HN. simpl in HN. tauto.
Qed.

(* iv_list_empty(&node) as the "not on a list" test (iv_task_registered, iv_timer_registered-style tests):
   false for every node that is on a list, true after iv_list_del_init / INIT_IV_LIST_HEAD *)
Theorem list_empty_member s h l n :
  Rep s h l -> In n l -> list_empty s (Some n) = Ok false.
Proof.
  intros HR Hin. apply in_split in Hin. destruct Hin as (l1 & l2 & ->).
  destruct HR as [HS HN]. apply Seg_app in HS. destruct HS as [_ S2].
  pose proof (Seg_first _ _ _ _ S2) as [Q1 _].
  unfold list_empty. rewrite (get_next_ok _ _ _ Q1). cbn [bind ptr_eqb]. f_equal.
  apply Pos.eqb_neq. intros E.
  change (h :: l1 ++ n :: l2) with ((h :: l1) ++ n :: l2) in HN.
  apply NoDup_app_iff in HN. destruct HN as (_ & N2 & D).
  destruct l2 as [| y r]; cbn [hd] in E.
  - subst h. apply (D n); simpl; auto.
  - subst y. apply NoDup_cons_iff in N2. simpl in N2. tauto.
Qed.

Corollary list_del_init_then_empty s h l1 n l2 :
  Rep s h (l1 ++ n :: l2) ->
  exists s', list_del_init s (Some n) = Ok s' /\ list_empty s' (Some n) = Ok true.
Proof.
  intros HR. destruct (list_del_init_refines _ _ _ _ _ HR) as (s' & E & _ & HR' & _).
  exists s'. split; [exact E |]. apply (list_empty_refines _ _ _ HR').
Qed.

(* remove-by-value form of the delete theorems *)
Lemma remove_split (l1 l2 : list positive) n :
  NoDup (l1 ++ n :: l2) -> remove Pos.eq_dec n (l1 ++ n :: l2) = l1 ++ l2.
Proof.
  intros HN. pose proof (NoDup_remove_2 _ _ _ HN) as Hnin. rewrite in_app_iff in Hnin.
  rewrite remove_app. cbn [remove]. destruct (Pos.eq_dec n n); [| congruence].
  rewrite !notin_remove by tauto. reflexivity.
Qed.

Corollary list_del_remove s h l n :
  Rep s h l -> In n l ->
  exists s', list_del s (Some n) = Ok s' /\ Rep s' h (remove Pos.eq_dec n l) /\
             nxt s' n = Some None /\ prv s' n = Some None.
Proof.
  intros HR Hin. apply in_split in Hin. destruct Hin as (l1 & l2 & ->).
  destruct (list_del_refines _ _ _ _ _ HR) as (s' & E & HR' & A & B & _).
  exists s'. rewrite remove_split; [tauto |].
  destruct HR as [_ HN]. apply NoDup_cons_iff in HN. tauto.
Qed.
