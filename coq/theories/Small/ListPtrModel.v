(* ListPtrModel.v -- pointer-level executable model of /repo/src/include/iv_list.h (intrusive circular doubly
   linked lists) and of __iv_list_steal_elements (src/iv_private.h).  Definitions only, no proofs.

   A store maps node ids (positive; NULL = None) to the two fields of struct iv_list_head.  Every function is
   transcribed statement by statement, field reads and writes in the order of the C text (re-reads included, so
   that aliasing between the arguments behaves as in C).  Dereferencing NULL is ErrNull, dereferencing an id
   that is not in the store is ErrDangling, a loop that outlives its fuel is ErrFuel. *)
From Coq Require Import List ZArith Bool FMapPositive.
Import ListNotations.

Definition ptr : Type := option positive.          (* None = NULL *)

Record node : Type := mkNode { n_next : ptr; n_prev : ptr }.

Definition store : Type := PositiveMap.t node.

Inductive res (A : Type) : Type :=
| Ok (a : A)
| ErrNull                 (* NULL dereferenced *)
| ErrDangling             (* pointer to an object that is not in the store *)
| ErrFuel.                (* loop bound exhausted *)
Arguments Ok {A} a.
Arguments ErrNull {A}.
Arguments ErrDangling {A}.
Arguments ErrFuel {A}.

Definition bind {A B : Type} (r : res A) (f : A -> res B) : res B :=
  match r with
  | Ok a => f a
  | ErrNull => ErrNull
  | ErrDangling => ErrDangling
  | ErrFuel => ErrFuel
  end.

Notation "x <- e ;; f" := (bind e (fun x => f)) (at level 61, e at next level, right associativity).

Definition ptr_eqb (a b : ptr) : bool :=
  match a, b with
  | None, None => true
  | Some x, Some y => Pos.eqb x y
  | _, _ => false
  end.

(* ---- p->field ---- *)
Definition rd (s : store) (p : ptr) : res node :=
  match p with
  | None => ErrNull
  | Some i => match PositiveMap.find i s with Some n => Ok n | None => ErrDangling end
  end.

Definition upd (s : store) (p : ptr) (g : node -> node) : res store :=
  match p with
  | None => ErrNull
  | Some i => match PositiveMap.find i s with
              | Some n => Ok (PositiveMap.add i (g n) s)
              | None => ErrDangling
              end
  end.

Definition get_next (s : store) (p : ptr) : res ptr := n <- rd s p ;; Ok (n_next n).
Definition get_prev (s : store) (p : ptr) : res ptr := n <- rd s p ;; Ok (n_prev n).
Definition set_next (s : store) (p : ptr) (v : ptr) : res store := upd s p (fun n => mkNode v (n_prev n)).
Definition set_prev (s : store) (p : ptr) (v : ptr) : res store := upd s p (fun n => mkNode (n_next n) v).

(* #define INIT_IV_LIST_HEAD(ilh) do { (ilh)->next = (ilh); (ilh)->prev = (ilh); } while (0) *)
Definition list_init (s : store) (ilh : ptr) : res store :=
  s1 <- set_next s ilh ilh ;;
  set_prev s1 ilh ilh.

(* iv_list_add(ilh, head) *)
Definition list_add (s : store) (ilh head : ptr) : res store :=
  hn <- get_next s head ;; s1 <- set_next s ilh hn ;;              (* ilh->next = head->next; *)
  s2 <- set_prev s1 ilh head ;;                                    (* ilh->prev = head; *)
  hn2 <- get_next s2 head ;; s3 <- set_prev s2 hn2 ilh ;;          (* head->next->prev = ilh; *)
  set_next s3 head ilh.                                            (* head->next = ilh; *)

(* iv_list_add_tail(ilh, head) *)
Definition list_add_tail (s : store) (ilh head : ptr) : res store :=
  s1 <- set_next s ilh head ;;                                     (* ilh->next = head; *)
  hp <- get_prev s1 head ;; s2 <- set_prev s1 ilh hp ;;            (* ilh->prev = head->prev; *)
  hp2 <- get_prev s2 head ;; s3 <- set_next s2 hp2 ilh ;;          (* head->prev->next = ilh; *)
  set_prev s3 head ilh.                                            (* head->prev = ilh; *)

(* the two unlink statements shared by iv_list_del and iv_list_del_init *)
Definition list_unlink (s : store) (ilh : ptr) : res store :=
  p <- get_prev s ilh ;; n <- get_next s ilh ;; s1 <- set_next s p n ;;       (* ilh->prev->next = ilh->next; *)
  n2 <- get_next s1 ilh ;; p2 <- get_prev s1 ilh ;; set_prev s1 n2 p2.        (* ilh->next->prev = ilh->prev; *)

(* iv_list_del(ilh) *)
Definition list_del (s : store) (ilh : ptr) : res store :=
  s2 <- list_unlink s ilh ;;
  s3 <- set_prev s2 ilh None ;;                                    (* ilh->prev = NULL; *)
  set_next s3 ilh None.                                            (* ilh->next = NULL; *)

(* iv_list_del_init(ilh) *)
Definition list_del_init (s : store) (ilh : ptr) : res store :=
  s2 <- list_unlink s ilh ;;
  list_init s2 ilh.                                                (* INIT_IV_LIST_HEAD(ilh); *)

(* iv_list_empty(head): return head->next == head; *)
Definition list_empty (s : store) (head : ptr) : res bool :=
  hn <- get_next s head ;; Ok (ptr_eqb hn head).

(* __iv_list_splice(ilh, prev, next) *)
Definition list_splice_ (s : store) (ilh prev next : ptr) : res store :=
  first <- get_next s ilh ;;                                       (* first = ilh->next; *)
  last <- get_prev s ilh ;;                                        (* last = ilh->prev; *)
  s1 <- set_prev s first prev ;;                                   (* first->prev = prev; *)
  s2 <- set_next s1 prev first ;;                                  (* prev->next = first; *)
  s3 <- set_next s2 last next ;;                                   (* last->next = next; *)
  set_prev s3 next last.                                           (* next->prev = last; *)

(* iv_list_splice(ilh, head) *)
Definition list_splice (s : store) (ilh head : ptr) : res store :=
  e <- list_empty s ilh ;;
  if e then Ok s else (hn <- get_next s head ;; list_splice_ s ilh head hn).

(* iv_list_splice_init(ilh, head) *)
Definition list_splice_init (s : store) (ilh head : ptr) : res store :=
  e <- list_empty s ilh ;;
  if e then Ok s else (hn <- get_next s head ;; s1 <- list_splice_ s ilh head hn ;; list_init s1 ilh).

(* iv_list_splice_tail(ilh, head) *)
Definition list_splice_tail (s : store) (ilh head : ptr) : res store :=
  e <- list_empty s ilh ;;
  if e then Ok s else (hp <- get_prev s head ;; list_splice_ s ilh hp head).

(* iv_list_splice_tail_init(ilh, head) *)
Definition list_splice_tail_init (s : store) (ilh head : ptr) : res store :=
  e <- list_empty s ilh ;;
  if e then Ok s else (hp <- get_prev s head ;; s1 <- list_splice_ s ilh hp head ;; list_init s1 ilh).

(* __iv_list_steal_elements(oldh, newh) of src/iv_private.h *)
Definition list_steal (s : store) (oldh newh : ptr) : res store :=
  first <- get_next s oldh ;;                                      (* first = oldh->next; *)
  last <- get_prev s oldh ;;                                       (* last = oldh->prev; *)
  s1 <- set_next s last newh ;;                                    (* last->next = newh; *)
  s2 <- set_prev s1 first newh ;;                                  (* first->prev = newh; *)
  on <- get_next s2 oldh ;; s3 <- set_next s2 newh on ;;           (* newh->next = oldh->next; *)
  op <- get_prev s3 oldh ;; s4 <- set_prev s3 newh op ;;           (* newh->prev = oldh->prev; *)
  s5 <- set_next s4 oldh oldh ;;                                   (* oldh->next = oldh; *)
  set_prev s5 oldh oldh.                                           (* oldh->prev = oldh; *)

(* iv_list_for_each(ilh, head) body:
     for (ilh = head->next; ilh != head; ilh = ilh->next) body(ilh);
   the body gets the store and the current element and returns the store; the result is the final store and the
   elements visited, in order *)
Fixpoint for_each_loop (fuel : nat) (body : store -> positive -> res store) (s : store) (ilh head : ptr)
    (acc : list positive) : res (store * list positive) :=
  match fuel with
  | O => ErrFuel
  | S f =>
    if ptr_eqb ilh head then Ok (s, rev acc)
    else match ilh with
         | None => ErrNull                                         (* body / ilh->next on NULL *)
         | Some i =>
           s1 <- body s i ;;
           n <- get_next s1 ilh ;;                                 (* ilh = ilh->next *)
           for_each_loop f body s1 n head (i :: acc)
         end
  end.

Definition list_for_each (fuel : nat) (body : store -> positive -> res store) (s : store) (head : ptr)
    : res (store * list positive) :=
  ilh <- get_next s head ;;                                        (* ilh = head->next *)
  for_each_loop fuel body s ilh head [].

(* iv_list_for_each_safe(ilh, ilh2, head) body:
     for (ilh = head->next, ilh2 = ilh->next; ilh != head; ilh = ilh2, ilh2 = ilh->next) body(ilh); *)
Fixpoint for_each_safe_loop (fuel : nat) (body : store -> positive -> res store) (s : store) (ilh ilh2 head : ptr)
    (acc : list positive) : res (store * list positive) :=
  match fuel with
  | O => ErrFuel
  | S f =>
    if ptr_eqb ilh head then Ok (s, rev acc)
    else match ilh with
         | None => ErrNull
         | Some i =>
           s1 <- body s i ;;
           n2 <- get_next s1 ilh2 ;;                               (* ilh = ilh2, ilh2 = ilh->next *)
           for_each_safe_loop f body s1 ilh2 n2 head (i :: acc)
         end
  end.

Definition list_for_each_safe (fuel : nat) (body : store -> positive -> res store) (s : store) (head : ptr)
    : res (store * list positive) :=
  ilh <- get_next s head ;;                                        (* ilh = head->next *)
  ilh2 <- get_next s ilh ;;                                        (* ilh2 = ilh->next *)
  for_each_safe_loop fuel body s ilh ilh2 head [].

(* loop bodies used by the library and the harness *)
Definition body_nop (s : store) (i : positive) : res store := Ok s.
Definition mem_pos (i : positive) (l : list positive) : bool := existsb (Pos.eqb i) l.
(* if (victim(ilh)) iv_list_del(ilh); *)
Definition body_del (victims : list positive) (s : store) (i : positive) : res store :=
  if mem_pos i victims then list_del s (Some i) else Ok s.
(* if (victim(ilh)) iv_list_del_init(ilh); *)
Definition body_del_init (victims : list positive) (s : store) (i : positive) : res store :=
  if mem_pos i victims then list_del_init s (Some i) else Ok s.

(* ---- one harness operation (harness/list_drv.c), for the trace comparison ---- *)
Inductive op : Type :=
| OInit (n : positive)
| OAdd (n h : positive)
| OAddTail (n h : positive)
| ODel (n : positive)
| ODelInit (n : positive)
| OEmpty (h : positive)
| OSplice (a h : positive)
| OSpliceInit (a h : positive)
| OSpliceTail (a h : positive)
| OSpliceTailInit (a h : positive)
| OSteal (o n : positive)
| OForEach (h : positive)
| OSafeDel (h : positive) (victims : list positive)
| OSafeDelInit (h : positive) (victims : list positive).

Inductive obs : Type :=
| ObsNone
| ObsBool (b : bool)
| ObsVisited (l : list positive).

Definition step (fuel : nat) (s : store) (o : op) : res (store * obs) :=
  match o with
  | OInit n => s' <- list_init s (Some n) ;; Ok (s', ObsNone)
  | OAdd n h => s' <- list_add s (Some n) (Some h) ;; Ok (s', ObsNone)
  | OAddTail n h => s' <- list_add_tail s (Some n) (Some h) ;; Ok (s', ObsNone)
  | ODel n => s' <- list_del s (Some n) ;; Ok (s', ObsNone)
  | ODelInit n => s' <- list_del_init s (Some n) ;; Ok (s', ObsNone)
  | OEmpty h => b <- list_empty s (Some h) ;; Ok (s, ObsBool b)
  | OSplice a h => s' <- list_splice s (Some a) (Some h) ;; Ok (s', ObsNone)
  | OSpliceInit a h => s' <- list_splice_init s (Some a) (Some h) ;; Ok (s', ObsNone)
  | OSpliceTail a h => s' <- list_splice_tail s (Some a) (Some h) ;; Ok (s', ObsNone)
  | OSpliceTailInit a h => s' <- list_splice_tail_init s (Some a) (Some h) ;; Ok (s', ObsNone)
  | OSteal o n => s' <- list_steal s (Some o) (Some n) ;; Ok (s', ObsNone)
  | OForEach h => r <- list_for_each fuel body_nop s (Some h) ;; Ok (fst r, ObsVisited (snd r))
  | OSafeDel h v => r <- list_for_each_safe fuel (body_del v) s (Some h) ;; Ok (fst r, ObsVisited (snd r))
  | OSafeDelInit h v => r <- list_for_each_safe fuel (body_del_init v) s (Some h) ;; Ok (fst r, ObsVisited (snd r))
  end.

(* the pool at the start of a harness case: nodes 1..n with both fields NULL *)
Fixpoint pool (n : nat) (i : positive) (s : store) : store :=
  match n with
  | O => s
  | S m => pool m (Pos.succ i) (PositiveMap.add i (mkNode None None) s)
  end.
Definition pool_start (n : nat) : store := pool n 1%positive (PositiveMap.empty node).

Definition field (s : store) (i : positive) : option (ptr * ptr) :=
  match PositiveMap.find i s with Some n => Some (n_next n, n_prev n) | None => None end.
