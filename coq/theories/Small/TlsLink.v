(* TlsLink.v -- links the GENERATED translation of the offset bookkeeping of src/iv_tls.c (Gen/LeafTls.v, regenerated
   from the current C source by gen/c2gallina.py on every check) to the hand-written model Small/TlsModel.v.
   When the C text of iv_tls_user_register or the initialiser of last_offset changes, LeafTls.v changes and these
   lemmas stop checking. *)
From Coq Require Import ZArith Bool List.
From Ivv Require Import Gen.LeafTls Small.TlsModel.
Import ListNotations.
Local Open Scope Z_scope.

(* static int last_offset = (sizeof(struct iv_state) + 15) & ~15; *)
Lemma leaf_tls_initial_offset S :
  LeafTls.tls_initial_offset S = t_last (tls_start S).
Proof. reflexivity. Qed.

(* iv_tls_user_register: the value stored in itu->state_offset, the new last_offset, the abort when called after
   iv_init, and the list primitive used (1 = iv_list_add_tail: users are kept in registration order) *)
Lemma leaf_tls_user_register t u :
  LeafTls.tls_user_register (u_size u) (if t_inited t then 1 else 0) (t_last t) =
  match TlsModel.tls_user_register t u with
  | Done (t', u') => Some (0, u_off u', t_last t', 1)
  | Fatal => None
  end.
Proof.
  unfold LeafTls.tls_user_register, TlsModel.tls_user_register, tls_advance.
  destruct (t_inited t); reflexivity.
Qed.

(* the model appends at the tail, as the C text does (list_call = 1) *)
Lemma leaf_tls_register_appends t u t' u' :
  TlsModel.tls_user_register t u = Done (t', u') -> t_users t' = t_users t ++ [u'].
Proof.
  unfold TlsModel.tls_user_register. destruct (t_inited t); [discriminate |].
  intros [= <- <-]. reflexivity.
Qed.
