(* TlsModel.v -- executable model of /repo/src/iv_tls.c (per-thread state block with module areas at aligned
   offsets).  Definitions only, no proofs.

   C text modelled (src/iv_tls.c):
     static int inited;
     static int last_offset = (sizeof(struct iv_state) + 15) & ~15;
     static struct iv_list_head iv_tls_users;                          -- users in registration order (add_tail)
     iv_tls_user_register / iv_tls_total_state_size / iv_tls_thread_init / iv_tls_thread_deinit / __iv_tls_user_ptr

   Numbers are Z.  The C variable last_offset is an `int` and itu->sizeof_state a `size_t`: the sum is computed in
   unsigned long and converted back to int; c_advance below is that computation with its wrap-arounds (LP64, gcc),
   TlsProofs.c_advance_exact gives the exact bound under which it is the Z computation tls_advance used by the model.
   The intrusive list iv_tls_users is a Coq list here (pointer level of iv_list.h: Small/ListPtrModel.v).
   Calling iv_fatal (abort) is the explicit outcome Fatal. *)
From Coq Require Import List ZArith Bool.
Import ListNotations.
Local Open Scope Z_scope.

(* (x + 15) & ~15 *)
Definition align16 (x : Z) : Z := Z.land (x + 15) (Z.lnot 15).

(* (last_offset + itu->sizeof_state + 15) & ~15 *)
Definition tls_advance (last size : Z) : Z := Z.land (last + size + 15) (Z.lnot 15).

(* the same expression with the C types: int last_offset promoted to unsigned long (modulo 2^64), added to the
   size_t, masked with (unsigned long)~15 = 2^64 - 16, converted to int (modulo 2^32, two's complement) *)
Definition wrap_s32 (x : Z) : Z := (x + 2147483648) mod 4294967296 - 2147483648.
Definition c_advance (last size : Z) : Z :=
  wrap_s32 (Z.land ((last mod 18446744073709551616 + size + 15) mod 18446744073709551616)
                   ((Z.lnot 15) mod 18446744073709551616)).

(* struct iv_tls_user: sizeof_state, init_thread != NULL, deinit_thread != NULL, state_offset (0 in a static struct
   that was never registered); u_id names the object (the hooks are reported by id) *)
Record tls_user : Type := mkUser {
  u_id : Z;
  u_size : Z;
  u_init : bool;
  u_deinit : bool;
  u_off : Z
}.

(* the file-scope state of iv_tls.c *)
Record tls : Type := mkTls {
  t_inited : bool;
  t_last : Z;
  t_users : list tls_user
}.

Inductive out (A : Type) : Type :=
| Done (a : A)
| Fatal.                      (* iv_fatal: message + abort() *)
Arguments Done {A} a.
Arguments Fatal {A}.

(* static initialisers; S = sizeof(struct iv_state) *)
Definition tls_start (S : Z) : tls := mkTls false (align16 S) [].

(* void iv_tls_user_register(struct iv_tls_user *itu): returns the new file-scope state and the struct as written *)
Definition tls_user_register (t : tls) (u : tls_user) : out (tls * tls_user) :=
  if t_inited t then Fatal                                              (* if (inited) iv_fatal(...) *)
  else
    let u' := mkUser (u_id u) (u_size u) (u_init u) (u_deinit u) (t_last t) in     (* itu->state_offset = last_offset *)
    let last' := tls_advance (t_last t) (u_size u) in                   (* last_offset = (last_offset + size + 15) & ~15 *)
    Done (mkTls (t_inited t) last' (t_users t ++ [u']), u').            (* iv_list_add_tail(&itu->list, &iv_tls_users) *)

Fixpoint tls_register_all (t : tls) (us : list tls_user) : out tls :=
  match us with
  | [] => Done t
  | u :: r => match tls_user_register t u with
              | Done (t', _) => tls_register_all t' r
              | Fatal => Fatal
              end
  end.

(* int iv_tls_total_state_size(void) *)
Definition tls_total_state_size (t : tls) : Z := t_last t.

(* a hook call: (id of the user, offset of the area handed to the hook relative to the state block) *)
Definition hook_call : Type := (Z * Z)%type.

(* iv_list_for_each (ilh, &iv_tls_users) { if (itu->init_thread != NULL) itu->init_thread(st + itu->state_offset); } *)
Fixpoint walk_init (us : list tls_user) : list hook_call :=
  match us with
  | [] => []
  | u :: r => if u_init u then (u_id u, u_off u) :: walk_init r else walk_init r
  end.

Fixpoint walk_deinit (us : list tls_user) : list hook_call :=
  match us with
  | [] => []
  | u :: r => if u_deinit u then (u_id u, u_off u) :: walk_deinit r else walk_deinit r
  end.

(* void iv_tls_thread_init(struct iv_state *st): inited = 1; walk *)
Definition tls_thread_init (t : tls) : tls * list hook_call :=
  (mkTls true (t_last t) (t_users t), walk_init (t_users t)).

(* void iv_tls_thread_deinit(struct iv_state *st) *)
Definition tls_thread_deinit (t : tls) : list hook_call := walk_deinit (t_users t).

(* void *__iv_tls_user_ptr(const struct iv_state *st, const struct iv_tls_user *itu):
   Some off = st + off, None = NULL *)
Definition tls_user_ptr (st_nonnull : bool) (u : tls_user) : out (option Z) :=
  if u_off u =? 0 then Fatal                       (* "called on unregistered iv_tls_user" *)
  else if st_nonnull then Done (Some (u_off u))
  else Done None.

(* ---- the run the harness performs (harness/tls_drv.c), for the trace comparison ----
   registrations before iv_init, the total size, iv_init's hook walk, a late registration attempt,
   iv_deinit's hook walk *)
Record tls_run : Type := mkRun {
  r_users : list tls_user;          (* the structs after registration (state_offset filled in) *)
  r_total : Z;
  r_init_calls : list hook_call;
  r_late : bool;                    (* true = a registration after iv_init is fatal *)
  r_deinit_calls : list hook_call
}.

Definition tls_run_all (S : Z) (us : list tls_user) : out tls_run :=
  match tls_register_all (tls_start S) us with
  | Fatal => Fatal
  | Done t =>
    let '(t1, ic) := tls_thread_init t in
    let late := match tls_user_register t1 (mkUser (-1) 8 false false 0) with Fatal => true | Done _ => false end in
    Done (mkRun (t_users t) (tls_total_state_size t) ic late (tls_thread_deinit t1))
  end.
