(* ListPtrOps2.v -- part 2: the splice family and __iv_list_steal_elements. *)
From Coq Require Import List ZArith Bool FMapPositive Lia Setoid.
From Ivv Require Import Small.ListPtrModel Small.ListPtrBase Small.ListPtrOps.
Import ListNotations.

(* __iv_list_splice(ilh, prev, next) with prev / next adjacent nodes of the target list (target = l1 ++ l2, prev
   the last node of h :: l1, next the first node of l2 ++ [h]): the elements of the non-empty source list are
   inserted between them; the source head itself is only read *)
Lemma list_splice__spec s a f la h l1 l2 :
  Rep s a (f :: la) -> Rep s h (l1 ++ l2) ->
  (forall x, In x (h :: l1 ++ l2) -> In x (a :: f :: la) -> False) ->
  exists s', list_splice_ s (Some a) (Some (last_of h l1)) (Some (first_of h l2)) = Ok s' /\
             Seg s' h (l1 ++ (f :: la) ++ l2) h /\
             touches s s' [last_of h l1; last_of a (f :: la)] [f; first_of h l2].
Proof.
  intros [SA NA] [SH NH] D.
  pose proof (Seg_last _ _ _ _ SA) as [A1 A2]. rewrite last_cons in A1, A2.
  cbn [Seg] in SA. destruct SA as (A3 & A4 & SA).
  apply Seg_split in SH. destruct SH as [SH1 SH2].
  pose proof (Seg_last _ _ _ _ SH1) as [B1 B2].
  unfold last_of, first_of. rewrite last_cons.
  pose proof (last_In l1 h) as Hp. pose proof (hd_In l2 h) as Hq. pose proof (last_In la f) as Hl.
  remember (last l1 h) as p eqn:Ep. remember (hd h l2) as q eqn:Eq. remember (last la f) as lst eqn:El.
  apply NoDup_cons_iff in NA. destruct NA as [Na NA].
  apply NoDup_cons_iff in NH. destruct NH as [Nh NH]. rewrite in_app_iff in Nh.
  assert (NH' := NH). apply NoDup_app_iff in NH'. destruct NH' as (N1 & N2 & D12).
  assert (Hq' : In q (h :: l1 ++ l2)).
  { apply in_app_or in Hq. simpl. rewrite in_app_iff. simpl in Hq. tauto. }
  assert (Hp' : In p (h :: l1 ++ l2)).
  { simpl in *. rewrite in_app_iff. tauto. }
  assert (Hl' : In lst (a :: f :: la)) by (right; exact Hl).
  assert (Hf' : In f (a :: f :: la)) by (simpl; auto).
  assert (Dpl : p <> lst) by (intros E; apply (D p Hp'); rewrite E; exact Hl').
  assert (Dpf : p <> f) by (intros E; apply (D p Hp'); rewrite E; exact Hf').
  assert (Dql : q <> lst) by (intros E; apply (D q Hq'); rewrite E; exact Hl').
  assert (Dqf : q <> f) by (intros E; apply (D q Hq'); rewrite E; exact Hf').
  assert (Af : alloc s f) by eauto using nxt_alloc, prv_alloc.
  assert (Ap : alloc s p) by eauto using nxt_alloc, prv_alloc.
  assert (Al : alloc s lst) by eauto using nxt_alloc, prv_alloc.
  assert (Aq : alloc s q) by eauto using nxt_alloc, prv_alloc.
  unfold list_splice_.
  do_get_next (Some f). do_get_prev (Some lst). do_set_prev. do_set_next. do_set_next. do_set_prev.
  eexists. split; [reflexivity |]. split; [| touch_tac].
  replace (l1 ++ (f :: la) ++ l2) with (l1 ++ f :: (la ++ l2)) by reflexivity.
  apply Seg_app. split.
  - eapply Seg_retarget; [exact SH1 | constructor; [tauto | exact N1] | | | rewrite <- Ep; fin | rewrite <- Ep; fin].
    + rewrite <- Ep. intros k Hk Hne. simp.
      destruct (Pos.eqb_spec k lst); [| destruct (Pos.eqb_spec k p); [contradiction | reflexivity]].
      exfalso. subst k. apply (D lst); [| exact Hl']. simpl in *. rewrite in_app_iff. tauto.
    + intros k Hk. simp.
      destruct (Pos.eqb_spec k q) as [-> | _].
      { exfalso. apply in_app_or in Hq. destruct Hq as [Hq | [<- | []]]; [eapply D12; eauto | tauto]. }
      destruct (Pos.eqb_spec k f) as [-> | _]; [| reflexivity].
      exfalso. apply (D f); [| exact Hf']. simpl. rewrite in_app_iff. tauto.
  - apply Seg_split. split.
    + rewrite <- Eq.
      eapply Seg_retarget; [exact SA | exact NA | | | rewrite <- El; fin | rewrite <- El; fin].
      * rewrite <- El. intros k Hk Hne. simp.
        destruct (Pos.eqb_spec k lst); [contradiction |].
        destruct (Pos.eqb_spec k p) as [-> | _]; [| reflexivity].
        exfalso. apply (D p Hp'). right. exact Hk.
      * intros k Hk. simp.
        destruct (Pos.eqb_spec k q) as [-> | _]; [exfalso; apply (D q Hq'); right; right; exact Hk |].
        destruct (Pos.eqb_spec k f) as [-> | _]; [| reflexivity].
        exfalso. apply NoDup_cons_iff in NA. tauto.
    + destruct l2 as [| y r]; [exact I |]. cbn [hd] in Eq. subst q.
      eapply Seg_ext; [| | exact SH2].
      * intros k Hk. simp.
        destruct (Pos.eqb_spec k lst) as [-> | _].
        { exfalso. apply (D lst); [| exact Hl']. simpl. rewrite in_app_iff. tauto. }
        destruct (Pos.eqb_spec k p) as [-> | _]; [| reflexivity].
        exfalso. destruct Hp as [<- | Hp]; [tauto | eapply D12; eauto].
      * intros k Hk. simp.
        destruct (Pos.eqb_spec k y) as [-> | _].
        { exfalso. apply NoDup_cons_iff in N2. apply in_app_or in Hk. destruct Hk as [Hk | [<- | []]]; [tauto |].
          apply Nh. right. left. reflexivity. }
        destruct (Pos.eqb_spec k f) as [-> | _]; [| reflexivity].
        exfalso. apply (D f); [| exact Hf']. simpl. rewrite in_app_iff. simpl.
        apply in_app_or in Hk. destruct Hk as [Hk | [<- | []]]; tauto.
Qed.

Lemma NoDup_insert (h : positive) l1 m l2 :
  NoDup (h :: l1 ++ l2) -> NoDup m -> (forall x, In x (h :: l1 ++ l2) -> In x m -> False) ->
  NoDup (h :: l1 ++ m ++ l2).
Proof.
  intros H1 H2 D.
  assert (H : NoDup (m ++ h :: l1 ++ l2)).
  { apply NoDup_app_iff. repeat split; try assumption. intros x Hx Hx'. eapply D; eauto. }
  change (h :: l1 ++ m ++ l2) with ((h :: l1) ++ m ++ l2).
  change (m ++ h :: l1 ++ l2) with (m ++ (h :: l1) ++ l2) in H.
  revert H. generalize (h :: l1). clear. intros l H.
  apply NoDup_app_iff in H. destruct H as (Hm & H & D).
  apply NoDup_app_iff in H. destruct H as (Hl & Hl2 & D2).
  apply NoDup_app_iff. repeat split; [assumption | |].
  - apply NoDup_app_iff. repeat split; try assumption.
    intros x Hx Hx'. apply (D x Hx). apply in_or_app. tauto.
  - intros x Hx Hx'. apply in_app_or in Hx'. destruct Hx' as [Hx' | Hx'].
    + apply (D x Hx'). apply in_or_app. tauto.
    + eapply D2; eauto.
Qed.

Lemma touches_refl s N P : touches s s N P.
Proof. repeat split; tauto. Qed.

Definition disjoint (A B : list positive) : Prop := forall x, In x A -> In x B -> False.

(* iv_list_splice(ilh, head): the elements of ilh go to the FRONT of head; ilh itself is left stale (its two
   fields still point into the moved chain) -- which is why the library always uses the _init forms or
   re-initialises the source *)
Theorem list_splice_refines s a la h lh :
  Rep s a la -> Rep s h lh -> disjoint (h :: lh) (a :: la) ->
  exists s', list_splice s (Some a) (Some h) = Ok s' /\ Rep s' h (la ++ lh) /\
             touches s s' [h; last_of a la] [first_of a la; first_of h lh] /\ (la = [] -> s' = s).
Proof.
  intros HA HH D. unfold list_splice. rewrite (list_empty_refines _ _ _ HA). cbn [bind].
  destruct la as [| f la].
  - exists s. split; [reflexivity | split; [exact HH | split; [apply touches_refl | reflexivity]]].
  - rewrite (get_next_ok _ _ _ (Rep_next_head _ _ _ HH)). cbn [bind].
    destruct (list_splice__spec s a f la h [] lh HA HH D) as (s' & E & HS & HT).
    cbn [last_of last app] in E. rewrite E. exists s'. split; [reflexivity |]. split; [| split; [exact HT | discriminate]].
    split; [exact HS |]. destruct HA as [_ NA]. destruct HH as [_ NH].
    apply NoDup_cons_iff in NA. destruct NA as [_ NA].
    apply (NoDup_insert h [] (f :: la) lh NH NA).
    intros x Hx Hx'. apply (D x Hx). right. exact Hx'.
Qed.

Theorem list_splice_tail_refines s a la h lh :
  Rep s a la -> Rep s h lh -> disjoint (h :: lh) (a :: la) ->
  exists s', list_splice_tail s (Some a) (Some h) = Ok s' /\ Rep s' h (lh ++ la) /\
             touches s s' [last_of h lh; last_of a la] [first_of a la; h] /\ (la = [] -> s' = s).
Proof.
  intros HA HH D. unfold list_splice_tail. rewrite (list_empty_refines _ _ _ HA). cbn [bind].
  destruct la as [| f la].
  - exists s. rewrite app_nil_r. split; [reflexivity | split; [exact HH | split; [apply touches_refl | reflexivity]]].
  - rewrite (get_prev_ok _ _ _ (Rep_prev_head _ _ _ HH)). cbn [bind].
    assert (HH' : Rep s h (lh ++ [])) by (rewrite app_nil_r; exact HH).
    assert (D' : forall x, In x (h :: lh ++ []) -> In x (a :: f :: la) -> False) by (rewrite app_nil_r; exact D).
    destruct (list_splice__spec s a f la h lh [] HA HH' D') as (s' & E & HS & HT).
    cbn [first_of hd] in E, HT. rewrite E. exists s'. split; [reflexivity |].
    rewrite app_nil_r in HS.
    split; [| split; [exact HT | discriminate]].
    split; [exact HS |]. destruct HA as [_ NA]. destruct HH as [_ NH].
    apply NoDup_cons_iff in NA. destruct NA as [_ NA].
    pose proof (NoDup_insert h lh (f :: la) [] ) as X. rewrite !app_nil_r in X. apply X; [exact NH | exact NA |].
    intros x Hx Hx'. apply (D x Hx). right. exact Hx'.
Qed.

(* the _init forms: additionally the source head is an empty list again *)
Theorem list_splice_init_refines s a la h lh :
  Rep s a la -> Rep s h lh -> disjoint (h :: lh) (a :: la) ->
  exists s', list_splice_init s (Some a) (Some h) = Ok s' /\ Rep s' h (la ++ lh) /\ Rep s' a [] /\
             touches s s' [a; h; last_of a la] [a; first_of a la; first_of h lh].
Proof.
  intros HA HH D. unfold list_splice_init.
  destruct (list_splice_refines s a la h lh HA HH D) as (s1 & E & HR & HT & Hnil).
  unfold list_splice in E. rewrite (list_empty_refines _ _ _ HA) in *. cbn [bind] in *.
  destruct la as [| f la].
  - injection E as <-. exists s. split; [reflexivity | split; [exact HH | split; [exact HA | apply touches_refl]]].
  - destruct (get_next s (Some h)) as [hn | | |]; cbn [bind] in *; try discriminate.
    rewrite E. cbn [bind].
    assert (Aa : alloc s1 a). { apply HT. eapply Rep_alloc; [exact HA | left; reflexivity]. }
    destruct (list_init_refines s1 a Aa) as (s2 & E2 & HR2 & HT2). rewrite E2.
    exists s2. split; [reflexivity |]. split; [| split; [exact HR2 |]].
    + eapply touches_Rep; [exact HT2 | | exact HR].
      intros k Hk. assert (k <> a).
      { intros Ek. subst k. destruct Hk as [Hk | Hk]; [subst h; apply (D a); simpl; auto |].
        apply in_app_or in Hk. destruct Hk as [Hk | Hk].
        - destruct HA as [_ NA]. apply NoDup_cons_iff in NA. tauto.
        - apply (D a); simpl; auto. }
      simpl. intuition congruence.
    + eapply touches_trans; [exact HT | exact HT2 | |]; simpl; tauto.
Qed.

Theorem list_splice_tail_init_refines s a la h lh :
  Rep s a la -> Rep s h lh -> disjoint (h :: lh) (a :: la) ->
  exists s', list_splice_tail_init s (Some a) (Some h) = Ok s' /\ Rep s' h (lh ++ la) /\ Rep s' a [] /\
             touches s s' [a; last_of h lh; last_of a la] [a; first_of a la; h].
Proof.
  intros HA HH D. unfold list_splice_tail_init.
  destruct (list_splice_tail_refines s a la h lh HA HH D) as (s1 & E & HR & HT & Hnil).
  unfold list_splice_tail in E. rewrite (list_empty_refines _ _ _ HA) in *. cbn [bind] in *.
  destruct la as [| f la].
  - injection E as <-. exists s. rewrite app_nil_r in *. split; [reflexivity | split; [exact HH | split; [exact HA | apply touches_refl]]].
  - destruct (get_prev s (Some h)) as [hp | | |]; cbn [bind] in *; try discriminate.
    rewrite E. cbn [bind].
    assert (Aa : alloc s1 a). { apply HT. eapply Rep_alloc; [exact HA | left; reflexivity]. }
    destruct (list_init_refines s1 a Aa) as (s2 & E2 & HR2 & HT2). rewrite E2.
    exists s2. split; [reflexivity |]. split; [| split; [exact HR2 |]].
    + eapply touches_Rep; [exact HT2 | | exact HR].
      intros k Hk. assert (k <> a).
      { intros Ek. subst k. destruct Hk as [Hk | Hk]; [subst h; apply (D a); simpl; auto |].
        apply in_app_or in Hk. destruct Hk as [Hk | Hk].
        - apply (D a); simpl; auto.
        - destruct HA as [_ NA]. apply NoDup_cons_iff in NA. tauto. }
      simpl. intuition congruence.
    + eapply touches_trans; [exact HT | exact HT2 | |]; simpl; tauto.
Qed.
