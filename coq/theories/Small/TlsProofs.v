(* TlsProofs.v -- layout theorems for the model of src/iv_tls.c (Small/TlsModel.v). *)
From Coq Require Import List ZArith Bool Lia.
From Ivv Require Import Small.TlsModel.
Import ListNotations.
Local Open Scope Z_scope.

Ltac Zify.zify_post_hook ::= Z.div_mod_to_equations.

(* ---- bit arithmetic: (x + 15) & ~15 ---- *)

Lemma land_lnot15 a : Z.land a (Z.lnot 15) = 16 * (a / 16).
Proof.
  change 15 with (Z.ones 4).
  rewrite <- Z.ldiff_land, Z.ldiff_ones_r by lia.
  rewrite Z.shiftl_mul_pow2, Z.shiftr_div_pow2 by lia.
  change (2 ^ 4) with 16. lia.
Qed.

Lemma align16_div x : align16 x = 16 * ((x + 15) / 16).
Proof. unfold align16. apply land_lnot15. Qed.

(* the statement asked for: for 0 <= x < 2^31 - 15 (the sum x + 15 fits an int) *)
Lemma align16_int_range x :
  0 <= x < 2147483648 - 15 ->
  align16 x = 16 * ((x + 15) / 16) /\ x <= align16 x < x + 16 /\ align16 x mod 16 = 0 /\ align16 x < 2147483648.
Proof. intros H. rewrite align16_div. lia. Qed.

Lemma tls_advance_div last size : tls_advance last size = 16 * ((last + size + 15) / 16).
Proof. unfold tls_advance. apply land_lnot15. Qed.

Lemma tls_advance_align last size : tls_advance last size = align16 (last + size).
Proof. reflexivity. Qed.

(* a multiple of 16 advances by the size rounded up *)
Lemma tls_advance_aligned last size :
  last mod 16 = 0 -> tls_advance last size = last + align16 size.
Proof. intros H. rewrite tls_advance_div, align16_div. lia. Qed.

(* ---- the C computation with its integer types ---- *)

Lemma land_mask64 a : 0 <= a < 18446744073709551616 -> Z.land a (18446744073709551616 - 16) = 16 * (a / 16).
Proof.
  intros Ha.
  rewrite <- land_lnot15.
  apply Z.bits_inj'. intros n Hn.
  rewrite !Z.land_spec.
  destruct (Z.ltb_spec n 64) as [Hlt | Hge].
  - f_equal.
    replace (18446744073709551616 - 16) with (Z.lnot 15 mod 2 ^ 64) by reflexivity.
    rewrite Z.mod_pow2_bits_low by lia. reflexivity.
  - assert (Z.testbit a n = false) as ->.
    { destruct (Z.eq_dec a 0) as [-> | Hnz]; [apply Z.bits_0 |].
      apply Z.bits_above_log2; [lia |].
      assert (Z.log2 a < 64) by (apply Z.log2_lt_pow2; lia). lia. }
    reflexivity.
Qed.

(* EXACT when the aligned sum fits an int: last_offset + sizeof_state <= 2^31 - 16 *)
Theorem c_advance_exact last size :
  0 <= last -> 0 <= size -> last + size <= 2147483648 - 16 ->
  c_advance last size = tls_advance last size.
Proof.
  intros Hl Hs Hb. unfold c_advance.
  rewrite (Z.mod_small last) by lia.
  rewrite (Z.mod_small (last + size + 15)) by lia.
  change (Z.lnot 15 mod 18446744073709551616) with (18446744073709551616 - 16).
  rewrite land_mask64 by lia.
  rewrite tls_advance_div. unfold wrap_s32. lia.
Qed.

(* OVERFLOW: the first sizes that do not fit make the stored int negative *)
Theorem c_advance_overflow last size :
  0 <= last -> 0 <= size -> 2147483648 - 16 < last + size <= 4294967296 - 16 ->
  c_advance last size = tls_advance last size - 4294967296 /\ c_advance last size < 0.
Proof.
  intros Hl Hs Hb. unfold c_advance.
  rewrite (Z.mod_small last) by lia.
  rewrite (Z.mod_small (last + size + 15)) by lia.
  change (Z.lnot 15 mod 18446744073709551616) with (18446744073709551616 - 16).
  rewrite land_mask64 by lia.
  rewrite tls_advance_div. unfold wrap_s32. lia.
Qed.

(* ---- layout invariant ---- *)

Definition before (u v : tls_user) : Prop := u_off u + u_size u <= u_off v.

Record Layout (S : Z) (t : tls) : Prop := mkLayout {
  L_last16 : t_last t mod 16 = 0;
  L_lastS : align16 S <= t_last t;
  L_user : Forall (fun u => 0 <= u_size u /\ u_off u mod 16 = 0 /\ align16 S <= u_off u /\
                            u_off u + u_size u <= t_last t) (t_users t);
  L_ord : ForallOrdPairs before (t_users t)
}.

Lemma FOP_snoc {A} (R : A -> A -> Prop) l x :
  ForallOrdPairs R l -> Forall (fun y => R y x) l -> ForallOrdPairs R (l ++ [x]).
Proof.
  induction 1 as [| a l Ha Hl IH]; intros Hx; cbn [app].
  - constructor; constructor.
  - inversion Hx; subst. constructor.
    + apply Forall_app. split; [assumption | constructor; [assumption | constructor]].
    + apply IH. assumption.
Qed.

Lemma layout_start S : Layout S (tls_start S).
Proof.
  constructor; cbn [tls_start t_last t_users].
  - rewrite align16_div. lia.
  - lia.
  - constructor.
  - constructor.
Qed.

Lemma layout_register S t u :
  Layout S t -> 0 <= u_size u -> t_inited t = false ->
  exists t' u', tls_user_register t u = Done (t', u') /\ Layout S t' /\ t_inited t' = false /\
    t_users t' = t_users t ++ [u'] /\
    u' = mkUser (u_id u) (u_size u) (u_init u) (u_deinit u) (t_last t) /\
    t_last t' = t_last t + align16 (u_size u).
Proof.
  intros [H16 HS HU HO] Hsz Hin. unfold tls_user_register. rewrite Hin.
  eexists _, _. split; [reflexivity |].
  pose proof (tls_advance_aligned (t_last t) (u_size u) H16) as Hadv.
  pose proof (align16_div (u_size u)) as Hal.
  repeat split; cbn [t_last t_users t_inited]; try assumption; try reflexivity.
  - lia.
  - lia.
  - apply Forall_app. split.
    + eapply Forall_impl; [| exact HU]. cbv beta. intros a Ha. lia.
    + constructor; [| constructor]. cbn [u_size u_off]. lia.
  - apply FOP_snoc; [assumption |].
    eapply Forall_impl; [| exact HU]. cbv beta. unfold before. cbn [u_off]. intros a Ha. lia.
Qed.

Definition set_off (u : tls_user) (o : Z) : tls_user := mkUser (u_id u) (u_size u) (u_init u) (u_deinit u) o.

(* registering a whole sequence before iv_init never aborts; the registered structs are the given ones, in
   order, with their offsets filled in *)
Lemma layout_register_all S us : forall t,
  Layout S t -> t_inited t = false -> Forall (fun u => 0 <= u_size u) us ->
  exists t', tls_register_all t us = Done t' /\ Layout S t' /\ t_inited t' = false /\
    exists offs, length offs = length us /\ t_users t' = t_users t ++ map (fun p => set_off (fst p) (snd p)) (combine us offs) /\
    t_last t' = t_last t + fold_right (fun u acc => align16 (u_size u) + acc) 0 us.
Proof.
  induction us as [| u r IH]; intros t HL Hin Hsz; cbn [tls_register_all].
  - exists t. split; [reflexivity | split; [assumption | split; [assumption |]]].
    exists []. cbn. rewrite app_nil_r. repeat split; lia.
  - inversion Hsz as [| ? ? Hu Hr]; subst.
    destruct (layout_register S t u HL Hu Hin) as (t1 & u1 & E & HL1 & Hin1 & Hus1 & Hu1 & Hlast1).
    rewrite E.
    destruct (IH t1 HL1 Hin1 Hr) as (t' & E' & HL' & Hin' & offs & Hlen & Hus' & Hlast').
    exists t'. split; [assumption | split; [assumption | split; [assumption |]]].
    exists (t_last t :: offs). cbn [length combine map fst snd fold_right]. repeat split.
    + lia.
    + rewrite Hus', Hus1, <- app_assoc. cbn [app]. rewrite Hu1. reflexivity.
    + lia.
Qed.

(* ---- the theorems ---- *)

Definition sizes_ok (us : list tls_user) : Prop := Forall (fun u => 0 <= u_size u) us.

Definition area_disjoint (u v : tls_user) : Prop :=
  u_off u + u_size u <= u_off v \/ u_off v + u_size v <= u_off u.

(* A1: every offset is a multiple of 16, >= S (so the area is disjoint from struct iv_state = [0, S)), never 0;
   every area lies inside [0, total); total is a multiple of 16; areas are pairwise disjoint (in fact laid out in
   registration order); registration before iv_init never aborts and keeps id / size / hooks / order *)
Theorem tls_areas_disjoint_aligned :
  forall S us, 1 <= S -> sizes_ok us ->
  exists t, tls_register_all (tls_start S) us = Done t /\
    map u_id (t_users t) = map u_id us /\ map u_size (t_users t) = map u_size us /\
    map u_init (t_users t) = map u_init us /\ map u_deinit (t_users t) = map u_deinit us /\
    tls_total_state_size t mod 16 = 0 /\ S <= tls_total_state_size t /\
    Forall (fun u => u_off u mod 16 = 0 /\ S <= u_off u /\ u_off u <> 0 /\
                     0 <= u_off u /\ u_off u + u_size u <= tls_total_state_size t) (t_users t) /\
    ForallOrdPairs before (t_users t) /\
    ForallOrdPairs area_disjoint (t_users t) /\
    tls_total_state_size t = align16 S + fold_right (fun u acc => align16 (u_size u) + acc) 0 us.
Proof.
  intros S us HS Hsz.
  destruct (layout_register_all S us (tls_start S) (layout_start S) eq_refl Hsz)
    as (t & E & [H16 HSl HU HO] & _ & offs & Hlen & Hus & Hlast).
  exists t. split; [exact E |].
  cbn [tls_start t_users app] in Hus.
  assert (Hmap : forall (A : Type) (f : tls_user -> A), (forall u o, f (set_off u o) = f u) ->
                 map f (t_users t) = map f us).
  { intros A f Hf. rewrite Hus. clear - Hlen Hf. revert offs Hlen.
    induction us as [| u r IH]; intros [| o offs] Hlen; cbn in *; try reflexivity; try lia.
    rewrite Hf. f_equal. apply IH. lia. }
  pose proof (align16_div S) as HaS.
  unfold tls_total_state_size.
  repeat split.
  - apply Hmap. reflexivity.
  - apply Hmap. reflexivity.
  - apply Hmap. reflexivity.
  - apply Hmap. reflexivity.
  - exact H16.
  - lia.
  - eapply Forall_impl; [| exact HU]. cbv beta. intros a Ha. lia.
  - exact HO.
  - clear - HO. induction HO as [| a l Ha Hl IH]; constructor; [| assumption].
    eapply Forall_impl; [| exact Ha]. intros b Hb. left. exact Hb.
  - cbn [tls_start t_last] in Hlast. exact Hlast.
Qed.

(* the int-overflow bound, explicit: as long as the final total is below 2^31 (i.e. align16 S + the sum of the
   sizes rounded up to 16 <= 2^31 - 16), every intermediate C computation is exact (c_advance = tls_advance at
   every registration); the first registration for which last_offset + sizeof_state > 2^31 - 16 stores a negative
   last_offset (c_advance_overflow) *)
Theorem tls_no_int_overflow :
  forall us last, 0 <= last -> last mod 16 = 0 -> sizes_ok us ->
  last + fold_right (fun u acc => align16 (u_size u) + acc) 0 us < 2147483648 ->
  forall l1 u l2, us = l1 ++ u :: l2 ->
    let cur := last + fold_right (fun u acc => align16 (u_size u) + acc) 0 l1 in
    c_advance cur (u_size u) = tls_advance cur (u_size u).
Proof.
  intros us last Hl H16 Hsz Hb l1 u l2 -> cur.
  assert (Hfold : forall l, sizes_ok l -> 0 <= fold_right (fun u acc => align16 (u_size u) + acc) 0 l /\
                                         fold_right (fun u acc => align16 (u_size u) + acc) 0 l mod 16 = 0).
  { induction 1 as [| a l Ha Hl' IH]; cbn [fold_right]; [lia |]. pose proof (align16_div (u_size a)). lia. }
  unfold sizes_ok in Hsz. apply Forall_app in Hsz. destruct Hsz as [H1 H2]. inversion H2 as [| ? ? Hu H3]; subst.
  rewrite fold_right_app in Hb. cbn [fold_right] in Hb.
  pose proof (Hfold l1 H1) as [F1 F1'].
  pose proof (Hfold l2 H3) as [F2 _].
  assert (Hshift : forall l acc, fold_right (fun u acc => align16 (u_size u) + acc) acc l =
                                 fold_right (fun u acc => align16 (u_size u) + acc) 0 l + acc).
  { induction l as [| a l IH]; intros acc; cbn [fold_right]; [lia |]. rewrite IH. lia. }
  rewrite Hshift in Hb.
  pose proof (align16_div (u_size u)) as Hal.
  apply c_advance_exact; subst cur; lia.
Qed.

(* A2: iv_tls_thread_init calls every non-NULL init hook exactly once, in registration order, each with the area
   of its own user; iv_tls_thread_deinit likewise *)
Lemma walk_init_spec us : walk_init us = map (fun u => (u_id u, u_off u)) (filter u_init us).
Proof. induction us as [| u r IH]; cbn; [reflexivity |]. destruct (u_init u); cbn; rewrite IH; reflexivity. Qed.

Lemma walk_deinit_spec us : walk_deinit us = map (fun u => (u_id u, u_off u)) (filter u_deinit us).
Proof. induction us as [| u r IH]; cbn; [reflexivity |]. destruct (u_deinit u); cbn; rewrite IH; reflexivity. Qed.

Lemma filter_map_id (f : tls_user -> bool) (l l' : list tls_user) :
  map u_id l = map u_id l' -> map f l = map f l' ->
  map u_id (filter f l) = map u_id (filter f l').
Proof.
  revert l'. induction l as [| a l IH]; intros [| b l'] H1 H2; cbn in *; try discriminate; [reflexivity |].
  injection H1 as Ha H1. injection H2 as Hb H2. rewrite Hb.
  destruct (f b); cbn; [rewrite Ha; f_equal |]; apply IH; assumption.
Qed.

Theorem tls_hooks_order :
  forall S us, 1 <= S -> sizes_ok us -> NoDup (map u_id us) ->
  exists t, tls_register_all (tls_start S) us = Done t /\
    let '(t1, ic) := tls_thread_init t in
    let dc := tls_thread_deinit t1 in
    (* which hooks, in which order, each exactly once *)
    map fst ic = map u_id (filter u_init us) /\ NoDup (map fst ic) /\
    map fst dc = map u_id (filter u_deinit us) /\ NoDup (map fst dc) /\
    (* each with its own area *)
    (forall id off, In (id, off) ic -> exists u, In u (t_users t) /\ u_id u = id /\ u_off u = off /\ u_init u = true) /\
    (forall id off, In (id, off) dc -> exists u, In u (t_users t) /\ u_id u = id /\ u_off u = off /\ u_deinit u = true) /\
    (* and from then on registration is refused *)
    (forall u, tls_user_register t1 u = Fatal).
Proof.
  intros S us HS Hsz Hnd.
  destruct (tls_areas_disjoint_aligned S us HS Hsz) as (t & E & Hid & _ & Hi & Hd & _).
  exists t. split; [exact E |].
  cbv beta iota zeta delta [tls_thread_init tls_thread_deinit t_users].
  rewrite walk_init_spec, walk_deinit_spec, !map_map. cbn [fst].
  assert (Hsub : forall (f : tls_user -> bool) (l : list tls_user), NoDup (map u_id l) -> NoDup (map u_id (filter f l))).
  { intros f l. induction l as [| a l IH]; cbn; intros H; [constructor |].
    inversion H as [| ? ? Hn Hr]; subst. destruct (f a); cbn; [constructor |]; auto.
    intros Hin. apply Hn. apply in_map_iff in Hin. destruct Hin as (x & Hx & Hxin).
    apply filter_In in Hxin. apply in_map_iff. exists x. tauto. }
  assert (Hndt : NoDup (map u_id (t_users t))) by (rewrite Hid; exact Hnd).
  repeat split.
  - apply filter_map_id; assumption.
  - apply Hsub, Hndt.
  - apply filter_map_id; assumption.
  - apply Hsub, Hndt.
  - intros id off Hin. apply in_map_iff in Hin. destruct Hin as (u & Hu & Hin).
    apply filter_In in Hin. exists u. injection Hu as <- <-. tauto.
  - intros id off Hin. apply in_map_iff in Hin. destruct Hin as (u & Hu & Hin).
    apply filter_In in Hin. exists u. injection Hu as <- <-. tauto.
Qed.

(* the "unregistered" test of __iv_tls_user_ptr cannot misfire: it is fatal exactly for a struct whose
   state_offset is still 0, and no registered struct has offset 0 *)
Theorem tls_user_ptr_registered :
  forall S us, 1 <= S -> sizes_ok us ->
  exists t, tls_register_all (tls_start S) us = Done t /\
    forall u, In u (t_users t) ->
      tls_user_ptr true u = Done (Some (u_off u)) /\ tls_user_ptr false u = Done None.
Proof.
  intros S us HS Hsz.
  destruct (tls_areas_disjoint_aligned S us HS Hsz) as (t & E & _ & _ & _ & _ & _ & _ & HU & _).
  exists t. split; [exact E |]. intros u Hin.
  rewrite Forall_forall in HU. destruct (HU u Hin) as (_ & _ & Hnz & _).
  unfold tls_user_ptr. destruct (Z.eqb_spec (u_off u) 0); [contradiction |]. split; reflexivity.
Qed.

Lemma tls_user_ptr_unregistered b u : u_off u = 0 -> tls_user_ptr b u = Fatal.
Proof. intros H. unfold tls_user_ptr. rewrite H. reflexivity. Qed.
