(* ListPtrBase.v -- field-level view of the store of Small/ListPtrModel.v, the representation predicate and its
   basic lemmas. *)
From Coq Require Import List ZArith Bool FMapPositive Lia.
From Ivv Require Import Small.ListPtrModel.
Import ListNotations.

Module PM := PositiveMap.

(* the next / prev field of node k, None when k is not allocated *)
Definition nxt (s : store) (k : positive) : option ptr := option_map n_next (PM.find k s).
Definition prv (s : store) (k : positive) : option ptr := option_map n_prev (PM.find k s).
Definition alloc (s : store) (k : positive) : Prop := PM.find k s <> None.

Definition upd_next (s : store) (a : positive) (v : ptr) : store :=
  match PM.find a s with Some n => PM.add a (mkNode v (n_prev n)) s | None => s end.
Definition upd_prev (s : store) (a : positive) (v : ptr) : store :=
  match PM.find a s with Some n => PM.add a (mkNode (n_next n) v) s | None => s end.

Lemma alloc_nxt s k : alloc s k <-> nxt s k <> None.
Proof. unfold alloc, nxt. destruct (PM.find k s); cbn; split; congruence. Qed.

Lemma alloc_prv s k : alloc s k <-> prv s k <> None.
Proof. unfold alloc, prv. destruct (PM.find k s); cbn; split; congruence. Qed.

Lemma nxt_alloc s k v : nxt s k = Some v -> alloc s k.
Proof. intros H. apply alloc_nxt. congruence. Qed.

Lemma prv_alloc s k v : prv s k = Some v -> alloc s k.
Proof. intros H. apply alloc_prv. congruence. Qed.

Lemma get_next_ok s a v : nxt s a = Some v -> get_next s (Some a) = Ok v.
Proof. unfold nxt, get_next, rd. destruct (PM.find a s); cbn; [intros [= <-]; reflexivity | discriminate]. Qed.

Lemma get_prev_ok s a v : prv s a = Some v -> get_prev s (Some a) = Ok v.
Proof. unfold prv, get_prev, rd. destruct (PM.find a s); cbn; [intros [= <-]; reflexivity | discriminate]. Qed.

Lemma set_next_ok s a v : alloc s a -> set_next s (Some a) v = Ok (upd_next s a v).
Proof. unfold alloc, set_next, upd, upd_next. destruct (PM.find a s); [reflexivity | intros H; exfalso; apply H; reflexivity]. Qed.

Lemma set_prev_ok s a v : alloc s a -> set_prev s (Some a) v = Ok (upd_prev s a v).
Proof. unfold alloc, set_prev, upd, upd_prev. destruct (PM.find a s); [reflexivity | intros H; exfalso; apply H; reflexivity]. Qed.

Lemma nxt_upd_next s a v k : alloc s a -> nxt (upd_next s a v) k = if Pos.eqb k a then Some v else nxt s k.
Proof.
  unfold alloc, nxt, upd_next. intros H. destruct (PM.find a s) eqn:E; [| congruence].
  destruct (Pos.eqb_spec k a) as [-> | Hne].
  - rewrite PM.gss. reflexivity.
  - rewrite PM.gso by assumption. reflexivity.
Qed.

Lemma prv_upd_next s a v k : prv (upd_next s a v) k = prv s k.
Proof.
  unfold prv, upd_next. destruct (PM.find a s) eqn:E; [| reflexivity].
  destruct (Pos.eq_dec k a) as [-> | Hne].
  - rewrite PM.gss, E. reflexivity.
  - rewrite PM.gso by assumption. reflexivity.
Qed.

Lemma prv_upd_prev s a v k : alloc s a -> prv (upd_prev s a v) k = if Pos.eqb k a then Some v else prv s k.
Proof.
  unfold alloc, prv, upd_prev. intros H. destruct (PM.find a s) eqn:E; [| congruence].
  destruct (Pos.eqb_spec k a) as [-> | Hne].
  - rewrite PM.gss. reflexivity.
  - rewrite PM.gso by assumption. reflexivity.
Qed.

Lemma nxt_upd_prev s a v k : nxt (upd_prev s a v) k = nxt s k.
Proof.
  unfold nxt, upd_prev. destruct (PM.find a s) eqn:E; [| reflexivity].
  destruct (Pos.eq_dec k a) as [-> | Hne].
  - rewrite PM.gss, E. reflexivity.
  - rewrite PM.gso by assumption. reflexivity.
Qed.

Lemma alloc_upd_next s a v k : alloc (upd_next s a v) k <-> alloc s k.
Proof. rewrite !alloc_prv, prv_upd_next. tauto. Qed.

Lemma alloc_upd_prev s a v k : alloc (upd_prev s a v) k <-> alloc s k.
Proof. rewrite !alloc_nxt, nxt_upd_prev. tauto. Qed.

(* a node is determined by its two fields *)
Lemma find_ext s s' k : nxt s' k = nxt s k -> prv s' k = prv s k -> PM.find k s' = PM.find k s.
Proof.
  unfold nxt, prv. destruct (PM.find k s') as [[a b] |], (PM.find k s) as [[c d] |]; cbn; congruence.
Qed.

(* ---- representation ----
   Seg s a l b: following next from a visits exactly l and then b, and prev is the inverse of next on the way *)
Fixpoint Seg (s : store) (a : positive) (l : list positive) (b : positive) : Prop :=
  match l with
  | [] => nxt s a = Some (Some b) /\ prv s b = Some (Some a)
  | x :: r => nxt s a = Some (Some x) /\ prv s x = Some (Some a) /\ Seg s x r b
  end.

(* Rep s head l: the circular list with head `head` holds exactly the nodes l, in order, no node twice *)
Definition Rep (s : store) (head : positive) (l : list positive) : Prop :=
  Seg s head l head /\ NoDup (head :: l).

Lemma Seg_ext s s' : forall l a b,
  (forall k, In k (a :: l) -> nxt s' k = nxt s k) ->
  (forall k, In k (l ++ [b]) -> prv s' k = prv s k) ->
  Seg s a l b -> Seg s' a l b.
Proof.
  induction l as [| x r IH]; intros a b Hn Hp; cbn [Seg].
  - intros [H1 H2]. rewrite Hn, Hp by (cbn; auto). auto.
  - intros (H1 & H2 & H3). rewrite Hn, Hp by (cbn; auto). repeat split; try assumption.
    apply IH; [| | assumption].
    + intros k Hk. apply Hn. cbn in *. tauto.
    + intros k Hk. apply Hp. cbn. tauto.
Qed.

Lemma Seg_app s : forall l1 a x l2 b,
  Seg s a (l1 ++ x :: l2) b <-> Seg s a l1 x /\ Seg s x l2 b.
Proof.
  induction l1 as [| y r IH]; intros a x l2 b; cbn [app Seg].
  - tauto.
  - rewrite IH. tauto.
Qed.

Lemma Seg_alloc s : forall l a b, Seg s a l b -> alloc s a /\ alloc s b /\ forall k, In k l -> alloc s k.
Proof.
  induction l as [| x r IH]; intros a b; cbn [Seg].
  - intros [H1 H2]. repeat split; eauto using nxt_alloc, prv_alloc. intros k [].
  - intros (H1 & H2 & H3). destruct (IH _ _ H3) as (Hx & Hb & Hr).
    repeat split; eauto using nxt_alloc. intros k [<- | Hk]; auto.
Qed.

(* last element of the segment: the node whose next is b *)
Lemma Seg_snoc s l a x b : Seg s a (l ++ [x]) b <-> Seg s a l x /\ nxt s x = Some (Some b) /\ prv s b = Some (Some x).
Proof. rewrite Seg_app. cbn [Seg]. tauto. Qed.

(* frame: a list none of whose nodes changed is still represented *)
Lemma Rep_frame s s' h l :
  (forall k, In k (h :: l) -> PM.find k s' = PM.find k s) -> Rep s h l -> Rep s' h l.
Proof.
  intros Hf [Hs Hn]. split; [| assumption].
  eapply Seg_ext; [| | exact Hs].
  - intros k Hk. unfold nxt. rewrite Hf by assumption. reflexivity.
  - intros k Hk. unfold prv. rewrite Hf; [reflexivity |].
    apply in_app_or in Hk. cbn in *. tauto.
Qed.

Lemma Rep_alloc s h l : Rep s h l -> forall k, In k (h :: l) -> alloc s k.
Proof.
  intros [Hs _] k Hk. destruct (Seg_alloc _ _ _ _ Hs) as (Ha & _ & Hl). destruct Hk as [<- | Hk]; auto.
Qed.

(* the representation determines the list *)
Lemma Seg_inj s : forall l1 l2 a b,
  Seg s a l1 b -> Seg s a l2 b -> ~ In b l1 -> ~ In b l2 -> l1 = l2.
Proof.
  induction l1 as [| x r IH]; intros [| y r2] a b; cbn [Seg]; intros H1 H2 N1 N2.
  - reflexivity.
  - destruct H1 as [H1 _]. destruct H2 as [H2 _]. rewrite H1 in H2. injection H2 as ->. cbn in N2. tauto.
  - destruct H1 as [H1 _]. destruct H2 as [H2 _]. rewrite H1 in H2. injection H2 as ->. cbn in N1. tauto.
  - destruct H1 as (H1 & _ & H1'). destruct H2 as (H2 & _ & H2'). rewrite H1 in H2. injection H2 as ->.
    f_equal. eapply IH; eauto; cbn in *; tauto.
Qed.

Lemma Rep_inj s h l1 l2 : Rep s h l1 -> Rep s h l2 -> l1 = l2.
Proof.
  intros [H1 N1] [H2 N2]. inversion N1; inversion N2; subst. eapply Seg_inj; eauto.
Qed.

(* first / last node seen from the head *)
Definition first_of (h : positive) (l : list positive) : positive := hd h l.
Definition last_of (h : positive) (l : list positive) : positive := last l h.

Lemma Rep_next_head s h l : Rep s h l -> nxt s h = Some (Some (first_of h l)).
Proof. intros [Hs _]. destruct l; cbn in *; tauto. Qed.

Lemma Rep_prev_head s h l : Rep s h l -> prv s h = Some (Some (last_of h l)).
Proof.
  intros [Hs _]. unfold last_of.
  destruct l as [| y r]; [cbn in *; tauto |].
  destruct (@exists_last _ (y :: r)) as (l' & x & E); [discriminate |].
  rewrite E in *. rewrite last_last. apply Seg_snoc in Hs. tauto.
Qed.

(* ---- more list / segment lemmas ---- *)
Lemma NoDup_app_iff {A} (l1 l2 : list A) :
  NoDup (l1 ++ l2) <-> NoDup l1 /\ NoDup l2 /\ (forall x, In x l1 -> ~ In x l2).
Proof.
  induction l1 as [| a r IH]; cbn [app].
  - split; [intros H; repeat split; [constructor | assumption | intros x []] | tauto].
  - rewrite !NoDup_cons_iff, IH, in_app_iff. split.
    + intros (H1 & H2 & H3 & H4). repeat split; try tauto. intros x [<- | Hx]; [tauto | auto].
    + intros ((H1 & H2) & H3 & H4). repeat split; try tauto.
      * intros [H | H]; [tauto | apply (H4 a); simpl; auto].
      * intros x Hx. apply H4. simpl. auto.
Qed.

Lemma snoc_cases {A} (l : list A) : l = [] \/ exists l' x, l = l' ++ [x].
Proof.
  destruct l as [| y r]; [left; reflexivity | right].
  destruct (@exists_last _ (y :: r)) as (l' & x & E); [discriminate | eauto].
Qed.

Lemma last_cons {A} (x : A) r d : last (x :: r) d = last r x.
Proof.
  revert x d. induction r as [| y r IH]; intros x d; [reflexivity |].
  change (last (x :: y :: r) d) with (last (y :: r) d). rewrite IH. symmetry. apply IH.
Qed.

Lemma last_In {A} (l : list A) d : In (last l d) (d :: l).
Proof.
  revert d. induction l as [| x r IH]; intros d; [left; reflexivity |].
  rewrite last_cons. right. apply IH.
Qed.

Lemma Seg_first s l a b : Seg s a l b -> nxt s a = Some (Some (hd b l)) /\ prv s (hd b l) = Some (Some a).
Proof. destruct l; cbn; tauto. Qed.

Lemma Seg_last s : forall l a b, Seg s a l b -> nxt s (last l a) = Some (Some b) /\ prv s b = Some (Some (last l a)).
Proof.
  induction l as [| x r IH]; intros a b; cbn [Seg]; [tauto |].
  intros (_ & _ & H). rewrite last_cons. apply IH. assumption.
Qed.

(* the same chain with its last link redirected to another node *)
Lemma Seg_retarget s s' : forall l a b b',
  Seg s a l b -> NoDup (a :: l) ->
  (forall k, In k (a :: l) -> k <> last l a -> nxt s' k = nxt s k) ->
  (forall k, In k l -> prv s' k = prv s k) ->
  nxt s' (last l a) = Some (Some b') -> prv s' b' = Some (Some (last l a)) ->
  Seg s' a l b'.
Proof.
  induction l as [| x r IH]; intros a b b' HS HN Hn Hp H1 H2; cbn [Seg] in *.
  - cbn in H1, H2. tauto.
  - destruct HS as (S1 & S2 & S3). rewrite last_cons in *.
    apply NoDup_cons_iff in HN. destruct HN as [Hna HN].
    rewrite Hn, Hp; [| left; reflexivity | left; reflexivity |].
    + repeat split; try assumption.
      eapply IH; eauto.
      * intros k Hk Hne. apply Hn; [right; assumption | assumption].
      * intros k Hk. apply Hp. right. assumption.
    + intros E. apply Hna. rewrite E. apply last_In.
Qed.

Lemma Seg_split s l1 l2 a b :
  Seg s a (l1 ++ l2) b <-> Seg s a l1 (hd b l2) /\ match l2 with [] => True | y :: r => Seg s y r b end.
Proof.
  destruct l2 as [| y r]; cbn [hd].
  - rewrite app_nil_r. tauto.
  - apply Seg_app.
Qed.

Lemma hd_In {A} (l : list A) d : In (hd d l) (l ++ [d]).
Proof. destruct l; cbn; auto. Qed.
