(* ListPtrTop.v -- the statements about iv_list.h collected for Props/Properties_C18.v. *)
From Coq Require Import List ZArith Bool FMapPositive Lia.
From Ivv Require Import Small.ListPtrModel Small.ListPtrBase Small.ListPtrOps Small.ListPtrOps2 Small.ListPtrOps3.
Import ListNotations.

(* every operation of iv_list.h / __iv_list_steal_elements, run on a store that represents the argument lists,
   succeeds (no NULL / dangling dereference) and yields a store that represents the result of the obvious
   operation on Coq lists *)
Theorem list_ops_refine :
  (* INIT_IV_LIST_HEAD: an empty list, whatever the fields held before *)
  (forall s h, alloc s h -> exists s', list_init s (Some h) = Ok s' /\ Rep s' h []) /\
  (* iv_list_add = cons *)
  (forall s h l n, Rep s h l -> alloc s n -> ~ In n (h :: l) ->
     exists s', list_add s (Some n) (Some h) = Ok s' /\ Rep s' h (n :: l)) /\
  (* iv_list_add_tail = snoc *)
  (forall s h l n, Rep s h l -> alloc s n -> ~ In n (h :: l) ->
     exists s', list_add_tail s (Some n) (Some h) = Ok s' /\ Rep s' h (l ++ [n])) /\
  (* iv_list_del = remove, the node's fields become NULL *)
  (forall s h l n, Rep s h l -> In n l ->
     exists s', list_del s (Some n) = Ok s' /\ Rep s' h (remove Pos.eq_dec n l) /\
                nxt s' n = Some None /\ prv s' n = Some None) /\
  (* iv_list_del_init = remove, the node becomes an empty list: iv_list_empty(&node) is the "not on a list" test *)
  (forall s h l1 n l2, Rep s h (l1 ++ n :: l2) ->
     exists s', list_del_init s (Some n) = Ok s' /\ Rep s' h (l1 ++ l2) /\ Rep s' n [] /\
                list_empty s' (Some n) = Ok true) /\
  (* iv_list_empty <-> l = []; a node that is on a list never tests empty *)
  (forall s h l, Rep s h l -> list_empty s (Some h) = Ok (match l with [] => true | _ => false end)) /\
  (forall s h l n, Rep s h l -> In n l -> list_empty s (Some n) = Ok false) /\
  (* iv_list_splice / _tail (+ _init): all elements of the source go to the front / back of the target *)
  (forall s a la h lh, Rep s a la -> Rep s h lh -> disjoint (h :: lh) (a :: la) ->
     exists s', list_splice s (Some a) (Some h) = Ok s' /\ Rep s' h (la ++ lh)) /\
  (forall s a la h lh, Rep s a la -> Rep s h lh -> disjoint (h :: lh) (a :: la) ->
     exists s', list_splice_tail s (Some a) (Some h) = Ok s' /\ Rep s' h (lh ++ la)) /\
  (forall s a la h lh, Rep s a la -> Rep s h lh -> disjoint (h :: lh) (a :: la) ->
     exists s', list_splice_init s (Some a) (Some h) = Ok s' /\ Rep s' h (la ++ lh) /\ Rep s' a []) /\
  (forall s a la h lh, Rep s a la -> Rep s h lh -> disjoint (h :: lh) (a :: la) ->
     exists s', list_splice_tail_init s (Some a) (Some h) = Ok s' /\ Rep s' h (lh ++ la) /\ Rep s' a []) /\
  (* __iv_list_steal_elements: everything moves to the (uninitialised) new head, the old head is empty *)
  (forall s o l n, Rep s o l -> alloc s n -> ~ In n (o :: l) ->
     exists s', list_steal s (Some o) (Some n) = Ok s' /\ Rep s' n l /\ Rep s' o []) /\
  (* iv_list_for_each visits exactly the elements, in order *)
  (forall s h l fuel, Rep s h l -> (length l < fuel)%nat -> list_for_each fuel body_nop s (Some h) = Ok (s, l)) /\
  (* iv_list_for_each_safe tolerates removal (iv_list_del / iv_list_del_init) of the current element *)
  (forall v s h l fuel, Rep s h l -> (length l < fuel)%nat ->
     exists s', list_for_each_safe fuel (body_del v) s (Some h) = Ok (s', l) /\
                Rep s' h (filter (fun x => negb (mem_pos x v)) l)) /\
  (forall v s h l fuel, Rep s h l -> (length l < fuel)%nat ->
     exists s', list_for_each_safe fuel (body_del_init v) s (Some h) = Ok (s', l) /\
                Rep s' h (filter (fun x => negb (mem_pos x v)) l)).
Proof.
  repeat apply conj.
  - intros s h A. destruct (list_init_refines s h A) as (s' & E & R & _). eauto.
  - intros s h l n R A N. destruct (list_add_refines s h l n R A N) as (s' & E & R' & _). eauto.
  - intros s h l n R A N. destruct (list_add_tail_refines s h l n R A N) as (s' & E & R' & _). eauto.
  - exact list_del_remove.
  - intros s h l1 n l2 R. destruct (list_del_init_refines s h l1 n l2 R) as (s' & E & R1 & R2 & _).
    exists s'. repeat split; try assumption; try apply R1; try apply R2. apply (list_empty_refines _ _ _ R2).
  - exact list_empty_refines.
  - exact list_empty_member.
  - intros s a la h lh R1 R2 D. destruct (list_splice_refines s a la h lh R1 R2 D) as (s' & E & R & _). eauto.
  - intros s a la h lh R1 R2 D. destruct (list_splice_tail_refines s a la h lh R1 R2 D) as (s' & E & R & _). eauto.
  - intros s a la h lh R1 R2 D. destruct (list_splice_init_refines s a la h lh R1 R2 D) as (s' & E & R & R' & _). eauto.
  - intros s a la h lh R1 R2 D. destruct (list_splice_tail_init_refines s a la h lh R1 R2 D) as (s' & E & R & R' & _). eauto.
  - intros s o l n R A N. destruct (list_steal_refines s o l n R A N) as (s' & E & R1 & R2 & _). eauto.
  - exact list_for_each_refines.
  - intros v s h l fuel R F.
    destruct (list_for_each_safe_refines _ _ s h l fuel (remover_del v) R F) as (s' & E & R' & _). eauto.
  - intros v s h l fuel R F.
    destruct (list_for_each_safe_refines _ _ s h l fuel (remover_del_init v) R F) as (s' & E & R' & _). eauto.
Qed.

(* frame: each operation writes only the next fields of the nodes in its first list and the prev fields of the
   nodes in its second list -- the head, the node, and their neighbours first_of / last_of -- allocates nothing,
   and therefore every list that does not contain these nodes is still represented afterwards *)
Theorem list_frame :
  (forall s h, alloc s h ->
     exists s', list_init s (Some h) = Ok s' /\ touches s s' [h] [h]) /\
  (forall s h l n, Rep s h l -> alloc s n -> ~ In n (h :: l) ->
     exists s', list_add s (Some n) (Some h) = Ok s' /\ touches s s' [n; h] [n; first_of h l]) /\
  (forall s h l n, Rep s h l -> alloc s n -> ~ In n (h :: l) ->
     exists s', list_add_tail s (Some n) (Some h) = Ok s' /\ touches s s' [n; last_of h l] [n; h]) /\
  (forall s h l1 n l2, Rep s h (l1 ++ n :: l2) ->
     exists s', list_del s (Some n) = Ok s' /\ touches s s' [n; last_of h l1] [n; first_of h l2]) /\
  (forall s h l1 n l2, Rep s h (l1 ++ n :: l2) ->
     exists s', list_del_init s (Some n) = Ok s' /\ touches s s' [n; last_of h l1] [n; first_of h l2]) /\
  (forall s a la h lh, Rep s a la -> Rep s h lh -> disjoint (h :: lh) (a :: la) ->
     exists s', list_splice s (Some a) (Some h) = Ok s' /\
                touches s s' [h; last_of a la] [first_of a la; first_of h lh]) /\
  (forall s a la h lh, Rep s a la -> Rep s h lh -> disjoint (h :: lh) (a :: la) ->
     exists s', list_splice_tail s (Some a) (Some h) = Ok s' /\
                touches s s' [last_of h lh; last_of a la] [first_of a la; h]) /\
  (forall s a la h lh, Rep s a la -> Rep s h lh -> disjoint (h :: lh) (a :: la) ->
     exists s', list_splice_init s (Some a) (Some h) = Ok s' /\
                touches s s' [a; h; last_of a la] [a; first_of a la; first_of h lh]) /\
  (forall s a la h lh, Rep s a la -> Rep s h lh -> disjoint (h :: lh) (a :: la) ->
     exists s', list_splice_tail_init s (Some a) (Some h) = Ok s' /\
                touches s s' [a; last_of h lh; last_of a la] [a; first_of a la; h]) /\
  (forall s o l n, Rep s o l -> alloc s n -> ~ In n (o :: l) ->
     exists s', list_steal s (Some o) (Some n) = Ok s' /\
                touches s s' [o; n; last_of o l] [o; n; first_of o l]) /\
  (forall v s h l fuel, Rep s h l -> (length l < fuel)%nat ->
     exists s', list_for_each_safe fuel (body_del v) s (Some h) = Ok (s', l) /\
                (forall k, ~ In k (h :: l) -> PM.find k s' = PM.find k s) /\ (forall k, alloc s' k <-> alloc s k)) /\
  (* what the frame gives: nodes outside N and P are unchanged, lists disjoint from N and P survive *)
  (forall s s' N P k, touches s s' N P -> ~ In k N -> ~ In k P -> PM.find k s' = PM.find k s) /\
  (forall s s' N P h l, touches s s' N P -> disjoint (h :: l) (N ++ P) -> Rep s h l -> Rep s' h l) /\
  (forall h l, In (first_of h l) (h :: l) /\ In (last_of h l) (h :: l)).
Proof.
  repeat apply conj.
  - intros s h A. destruct (list_init_refines s h A) as (s' & E & _ & T). eauto.
  - intros s h l n R A N. destruct (list_add_refines s h l n R A N) as (s' & E & _ & T). eauto.
  - intros s h l n R A N. destruct (list_add_tail_refines s h l n R A N) as (s' & E & _ & T). eauto.
  - intros s h l1 n l2 R. destruct (list_del_refines s h l1 n l2 R) as (s' & E & _ & _ & _ & T). eauto.
  - intros s h l1 n l2 R. destruct (list_del_init_refines s h l1 n l2 R) as (s' & E & _ & _ & T). eauto.
  - intros s a la h lh R1 R2 D. destruct (list_splice_refines s a la h lh R1 R2 D) as (s' & E & _ & T & _). eauto.
  - intros s a la h lh R1 R2 D. destruct (list_splice_tail_refines s a la h lh R1 R2 D) as (s' & E & _ & T & _). eauto.
  - intros s a la h lh R1 R2 D. destruct (list_splice_init_refines s a la h lh R1 R2 D) as (s' & E & _ & _ & T). eauto.
  - intros s a la h lh R1 R2 D. destruct (list_splice_tail_init_refines s a la h lh R1 R2 D) as (s' & E & _ & _ & T). eauto.
  - intros s o l n R A N. destruct (list_steal_refines s o l n R A N) as (s' & E & _ & _ & T). eauto.
  - intros v s h l fuel R F.
    destruct (list_for_each_safe_refines _ _ s h l fuel (remover_del v) R F) as (s' & E & _ & T1 & T2). eauto.
  - intros s s' N P k T. apply touches_find. exact T.
  - intros s s' N P h l T D R. eapply touches_Rep; [exact T | | exact R].
    intros k Hk. split; intros Hin; apply (D k Hk); apply in_or_app; tauto.
  - intros h l. split; [destruct l; simpl; auto | apply last_In].
Qed.

(* non-vacuity material: a concrete pool, two lists built with the real operations *)
Definition ex_store : res store :=
  let s0 := pool_start 6 in
  s1 <- list_init s0 (Some 1%positive) ;;
  s2 <- list_init s1 (Some 2%positive) ;;
  s3 <- list_add_tail s2 (Some 3%positive) (Some 1%positive) ;;
  s4 <- list_add_tail s3 (Some 4%positive) (Some 1%positive) ;;
  s5 <- list_add s4 (Some 5%positive) (Some 1%positive) ;;
  list_add s5 (Some 6%positive) (Some 2%positive).
