(* ListPtrOps3.v -- part 3: __iv_list_steal_elements, iv_list_for_each, iv_list_for_each_safe. *)
From Coq Require Import List ZArith Bool FMapPositive Lia Setoid.
From Ivv Require Import Small.ListPtrModel Small.ListPtrBase Small.ListPtrOps Small.ListPtrOps2.
Import ListNotations.

(* __iv_list_steal_elements(oldh, newh): all elements move to newh (whose previous contents are irrelevant: it is
   an uninitialised local in the library), oldh is left an empty list.  Works for an empty oldh too. *)
Theorem list_steal_refines s o l n :
  Rep s o l -> alloc s n -> ~ In n (o :: l) ->
  exists s', list_steal s (Some o) (Some n) = Ok s' /\ Rep s' n l /\ Rep s' o [] /\
             touches s s' [o; n; last_of o l] [o; n; first_of o l].
Proof.
  intros HR An Hnin.
  pose proof (Rep_next_head _ _ _ HR) as Hf. pose proof (Rep_prev_head _ _ _ HR) as Hl.
  pose proof (Rep_alloc _ _ _ HR) as HA.
  assert (Ao : alloc s o) by (apply HA; left; reflexivity).
  destruct HR as [HS HN].
  assert (Hno : n <> o) by (intros ->; apply Hnin; left; reflexivity).
  unfold list_steal.
  destruct l as [| f l]; unfold first_of, last_of in *; cbn [hd] in *.
  - cbn [last] in *.
    do_get_next (Some o). do_get_prev (Some o). do_set_next. do_set_prev.
    do_get_next (Some n). do_set_next. do_get_prev (Some n). do_set_prev. do_set_next. do_set_prev.
    eexists. split; [reflexivity |]. split; [| split].
    + split; [cbn [Seg]; split; fin | repeat constructor; simpl; tauto].
    + split; [cbn [Seg]; split; fin | repeat constructor; simpl; tauto].
    + touch_tac.
  - rewrite last_cons in *. pose proof (last_In l f) as Hlin. remember (last l f) as lst eqn:El.
    cbn [Seg] in HS. destruct HS as (S1 & S2 & S3).
    pose proof (Seg_last _ _ _ _ S3) as [L1 L2]. rewrite <- El in L1, L2.
    assert (Af : alloc s f) by eauto using prv_alloc.
    assert (Al : alloc s lst) by eauto using nxt_alloc.
    apply NoDup_cons_iff in HN. destruct HN as [No HN].
    assert (Hfo : f <> o) by (intros ->; apply No; left; reflexivity).
    assert (Hlo : lst <> o) by (intros E; apply No; rewrite <- E; exact Hlin).
    assert (Hfn : f <> n) by (intros ->; apply Hnin; right; left; reflexivity).
    assert (Hln : lst <> n) by (intros E; apply Hnin; rewrite <- E; right; exact Hlin).
    do_get_next (Some f). do_get_prev (Some lst). do_set_next. do_set_prev.
    do_get_next (Some f). do_set_next. do_get_prev (Some lst). do_set_prev. do_set_next. do_set_prev.
    eexists. split; [reflexivity |]. split; [| split].
    + split.
      * cbn [Seg]. split; [fin |]. split; [fin |].
        eapply Seg_retarget; [exact S3 | exact HN | | | rewrite <- El; fin | rewrite <- El; fin].
        -- rewrite <- El. intros k Hk Hne. simp.
           destruct (Pos.eqb_spec k o) as [-> | _]; [exfalso; apply No; exact Hk |].
           destruct (Pos.eqb_spec k n) as [-> | _]; [exfalso; apply Hnin; right; exact Hk |].
           destruct (Pos.eqb_spec k lst); [contradiction | reflexivity].
        -- intros k Hk. simp.
           destruct (Pos.eqb_spec k o) as [-> | _]; [exfalso; apply No; right; exact Hk |].
           destruct (Pos.eqb_spec k n) as [-> | _]; [exfalso; apply Hnin; right; right; exact Hk |].
           destruct (Pos.eqb_spec k f) as [-> | _]; [| reflexivity].
           exfalso. apply NoDup_cons_iff in HN. tauto.
      * constructor; [| exact HN]. intros H. apply Hnin. right. exact H.
    + split; [cbn [Seg]; split; fin | repeat constructor; simpl; tauto].
    + touch_tac.
Qed.

(* ---- iv_list_for_each ---- *)
Lemma for_each_nop_loop s h : forall rem p acc fuel,
  Seg s p rem h -> ~ In h rem -> (length rem < fuel)%nat ->
  for_each_loop fuel body_nop s (Some (hd h rem)) (Some h) acc = Ok (s, rev acc ++ rem).
Proof.
  induction rem as [| x r IH]; intros p acc fuel HS Hh Hf; (destruct fuel as [| fuel]; [simpl in Hf; lia |]);
    cbn [for_each_loop hd ptr_eqb].
  - rewrite Pos.eqb_refl, app_nil_r. reflexivity.
  - destruct (Pos.eqb_spec x h) as [-> | _]; [exfalso; apply Hh; left; reflexivity |].
    cbn [body_nop bind]. cbn [Seg] in HS. destruct HS as (_ & _ & HS).
    pose proof (Seg_first _ _ _ _ HS) as [F1 _].
    rewrite (get_next_ok _ _ _ F1). cbn [bind].
    rewrite (IH x (x :: acc) fuel HS); [| intros H; apply Hh; right; exact H | simpl in Hf; lia].
    cbn [rev]. rewrite <- app_assoc. reflexivity.
Qed.

(* the loop visits exactly the elements of the list, in order, and changes nothing *)
Theorem list_for_each_refines s h l fuel :
  Rep s h l -> (length l < fuel)%nat ->
  list_for_each fuel body_nop s (Some h) = Ok (s, l).
Proof.
  intros HR Hf. pose proof (Rep_next_head _ _ _ HR) as Hn. destruct HR as [HS HN].
  unfold list_for_each. rewrite (get_next_ok _ _ _ Hn). cbn [bind].
  apply NoDup_cons_iff in HN.
  apply (for_each_nop_loop s h l h [] fuel HS); tauto.
Qed.

(* ---- iv_list_for_each_safe with a body that may unlink the current element ----
   a body is a `remover` for the predicate victim when, run on an element x of a list, it removes exactly x if
   victim x and does nothing otherwise, touching only fields of x and its two neighbours *)
Definition remover (victim : positive -> bool) (body : store -> positive -> res store) : Prop :=
  forall s h l1 x l2, Rep s h (l1 ++ x :: l2) ->
    if victim x then
      exists s', body s x = Ok s' /\ Rep s' h (l1 ++ l2) /\
                 touches s s' [x; last_of h l1] [x; first_of h l2]
    else body s x = Ok s.

Lemma remover_del v : remover (fun x => mem_pos x v) (body_del v).
Proof.
  intros s h l1 x l2 HR. unfold body_del. destruct (mem_pos x v); [| reflexivity].
  destruct (list_del_refines _ _ _ _ _ HR) as (s' & E & HR' & _ & _ & HT). eauto.
Qed.

Lemma remover_del_init v : remover (fun x => mem_pos x v) (body_del_init v).
Proof.
  intros s h l1 x l2 HR. unfold body_del_init. destruct (mem_pos x v); [| reflexivity].
  destruct (list_del_init_refines _ _ _ _ _ HR) as (s' & E & HR' & _ & HT). eauto.
Qed.

(* next field of the first node of a suffix *)
Lemma Rep_next_at s h k y r : Rep s h (k ++ y :: r) -> nxt s y = Some (Some (hd h r)).
Proof. intros [HS _]. apply Seg_app in HS. destruct HS as [_ HS]. apply (Seg_first _ _ _ _ HS). Qed.

Definition keep (victim : positive -> bool) (l : list positive) : list positive :=
  filter (fun x => negb (victim x)) l.

Lemma safe_loop_spec victim body h : remover victim body ->
  forall rest kept s acc fuel ilh2,
  Rep s h (kept ++ rest) -> (length rest < fuel)%nat ->
  (rest <> [] -> ilh2 = Some (hd h (tl rest))) ->
  exists s', for_each_safe_loop fuel body s (Some (hd h rest)) ilh2 (Some h) acc = Ok (s', rev acc ++ rest) /\
             Rep s' h (kept ++ keep victim rest) /\
             (forall k, ~ In k (h :: kept ++ rest) -> PM.find k s' = PM.find k s) /\
             (forall k, alloc s' k <-> alloc s k).
Proof.
  intros HB. induction rest as [| x r IH]; intros kept s acc fuel ilh2 HR Hf Hi2;
    (destruct fuel as [| fuel]; [simpl in Hf; lia |]); cbn [for_each_safe_loop hd ptr_eqb].
  - rewrite Pos.eqb_refl, app_nil_r. exists s. cbn [keep filter].
    split; [reflexivity | split; [exact HR | split; [reflexivity | tauto]]].
  - assert (Hxh : x <> h).
    { intros ->. destruct HR as [_ HN]. apply NoDup_cons_iff in HN. apply (proj1 HN). apply in_or_app. simpl. auto. }
    destruct (Pos.eqb_spec x h); [contradiction |].
    rewrite (Hi2 ltac:(discriminate)). cbn [tl].
    pose proof (HB s h kept x r HR) as HBx.
    cbn [keep filter]. destruct (victim x) eqn:Ev; cbn [negb].
    + destruct HBx as (s1 & E1 & HR1 & HT1). rewrite E1. cbn [bind].
      assert (Hn2 : exists v, nxt s1 (hd h r) = Some (Some v) /\ (r <> [] -> v = hd h (tl r))).
      { destruct r as [| y r']; cbn [hd tl].
        - eexists. split; [apply (Rep_next_head _ _ _ HR1) | tauto].
        - eexists. split; [apply (Rep_next_at _ _ _ _ _ HR1) | reflexivity]. }
      destruct Hn2 as (v & Hv & Hv'). rewrite (get_next_ok _ _ _ Hv). cbn [bind].
      destruct (IH kept s1 (x :: acc) fuel (Some v) HR1) as (s' & E' & HR' & HF' & HA').
      { simpl in Hf. lia. }
      { intros Hr. rewrite (Hv' Hr). reflexivity. }
      exists s'. rewrite E'. cbn [rev]. rewrite <- app_assoc. split; [reflexivity |]. split; [exact HR' |]. split.
      * intros k Hk. rewrite HF'.
        -- eapply touches_find; [exact HT1 | |]; intros Hin; apply Hk.
           ++ destruct Hin as [<- | [<- | []]]; [right; apply in_or_app; simpl; auto |].
              pose proof (last_In kept h) as X. unfold last_of. simpl in X |- *. rewrite in_app_iff. tauto.
           ++ destruct Hin as [<- | [<- | []]]; [right; apply in_or_app; simpl; auto |].
              pose proof (hd_In r h) as X. unfold first_of. simpl. rewrite in_app_iff. simpl.
              apply in_app_or in X. simpl in X. tauto.
        -- intros Hin. apply Hk. simpl in *. rewrite in_app_iff in *. simpl. tauto.
      * intros k. rewrite HA'. apply HT1.
    + rewrite HBx. cbn [bind].
      assert (HRx : Rep s h ((kept ++ [x]) ++ r)) by (rewrite <- app_assoc; exact HR).
      assert (Hn2 : exists v, nxt s (hd h r) = Some (Some v) /\ (r <> [] -> v = hd h (tl r))).
      { destruct r as [| y r']; cbn [hd tl].
        - eexists. split; [apply (Rep_next_head _ _ _ HR) | tauto].
        - eexists. split; [apply (Rep_next_at _ _ _ _ _ HRx) | reflexivity]. }
      destruct Hn2 as (v & Hv & Hv'). rewrite (get_next_ok _ _ _ Hv). cbn [bind].
      destruct (IH (kept ++ [x]) s (x :: acc) fuel (Some v) HRx) as (s' & E' & HR' & HF' & HA').
      { simpl in Hf. lia. }
      { intros Hr. rewrite (Hv' Hr). reflexivity. }
      exists s'. rewrite E'. cbn [rev]. rewrite <- !app_assoc in *. split; [reflexivity |]. split; [exact HR' |].
      split; [| exact HA']. intros k Hk. apply HF'. exact Hk.
Qed.

(* iv_list_for_each_safe tolerates removal of the current element: every element of the list as it was at loop
   entry is visited exactly once, in order; afterwards the list holds the elements the body did not remove;
   nodes outside the list are untouched *)
Theorem list_for_each_safe_refines victim body s h l fuel :
  remover victim body -> Rep s h l -> (length l < fuel)%nat ->
  exists s', list_for_each_safe fuel body s (Some h) = Ok (s', l) /\ Rep s' h (keep victim l) /\
             (forall k, ~ In k (h :: l) -> PM.find k s' = PM.find k s) /\
             (forall k, alloc s' k <-> alloc s k).
Proof.
  intros HB HR Hf. pose proof (Rep_next_head _ _ _ HR) as Hn.
  unfold list_for_each_safe. rewrite (get_next_ok _ _ _ Hn). cbn [bind].
  assert (Hn2 : exists v, nxt s (first_of h l) = Some (Some v) /\ (l <> [] -> v = hd h (tl l))).
  { destruct l as [| y r]; cbn [first_of hd tl].
    - eexists. split; [exact Hn | tauto].
    - eexists. split; [apply (Rep_next_at s h [] y r HR) | reflexivity]. }
  destruct Hn2 as (v & Hv & Hv'). rewrite (get_next_ok _ _ _ Hv). cbn [bind].
  destruct (safe_loop_spec victim body h HB l [] s [] fuel (Some v) HR Hf) as (s' & E & HR' & HF & HA).
  { intros Hl. rewrite (Hv' Hl). reflexivity. }
  exists s'. split; [exact E |]. split; [exact HR' |]. split; assumption.
Qed.

(* in contrast, the plain iv_list_for_each with iv_list_del of the current element dereferences NULL *)
Example for_each_del_crashes :
  let s0 := pool_start 3 in
  (s1 <- list_init s0 (Some 1%positive) ;; s2 <- list_add_tail s1 (Some 2%positive) (Some 1%positive) ;;
   s3 <- list_add_tail s2 (Some 3%positive) (Some 1%positive) ;;
   list_for_each 10 (body_del [2%positive]) s3 (Some 1%positive)) = ErrNull.
Proof. vm_compute. reflexivity. Qed.
