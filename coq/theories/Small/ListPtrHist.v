(* ListPtrHist.v -- histories: any sequence of VALID list operations (the ways the library uses iv_list.h) keeps
   every list represented, never dereferences NULL or a dangling pointer, and changes the abstract state the
   obvious way.  Abstract state: the heads with the elements of their lists; all nodes pairwise distinct. *)
From Coq Require Import List ZArith Bool FMapPositive Lia Permutation.
From Ivv Require Import Small.ListPtrModel Small.ListPtrBase Small.ListPtrOps Small.ListPtrOps2 Small.ListPtrOps3.
Import ListNotations.

Definition astate : Type := list (positive * list positive).

Definition nodes_of (p : positive * list positive) : list positive := fst p :: snd p.
Definition flat (a : astate) : list positive := flat_map nodes_of a.

Definition Inv (s : store) (a : astate) : Prop :=
  NoDup (flat a) /\ forall h l, In (h, l) a -> Rep s h l.

(* a valid operation and its effect on the abstract state; the lists concerned are written at the front,
   s_perm moves them there *)
Inductive astep : astate -> op -> astate -> Prop :=
| s_init n a : ~ In n (flat a) -> astep a (OInit n) ((n, []) :: a)
| s_add n h l a : ~ In n (flat ((h, l) :: a)) -> astep ((h, l) :: a) (OAdd n h) ((h, n :: l) :: a)
| s_add_tail n h l a : ~ In n (flat ((h, l) :: a)) -> astep ((h, l) :: a) (OAddTail n h) ((h, l ++ [n]) :: a)
| s_del h l1 n l2 a : astep ((h, l1 ++ n :: l2) :: a) (ODel n) ((h, l1 ++ l2) :: a)
| s_del_init h l1 n l2 a : astep ((h, l1 ++ n :: l2) :: a) (ODelInit n) ((n, []) :: (h, l1 ++ l2) :: a)
| s_empty h l a : astep ((h, l) :: a) (OEmpty h) ((h, l) :: a)
| s_splice_init x lx h lh a :
    astep ((x, lx) :: (h, lh) :: a) (OSpliceInit x h) ((x, []) :: (h, lx ++ lh) :: a)
| s_splice_tail_init x lx h lh a :
    astep ((x, lx) :: (h, lh) :: a) (OSpliceTailInit x h) ((x, []) :: (h, lh ++ lx) :: a)
| s_steal o l n a : ~ In n (flat ((o, l) :: a)) -> astep ((o, l) :: a) (OSteal o n) ((n, l) :: (o, []) :: a)
| s_for_each h l a : astep ((h, l) :: a) (OForEach h) ((h, l) :: a)
| s_safe_del h l v a : astep ((h, l) :: a) (OSafeDel h v) ((h, keep (fun x => mem_pos x v) l) :: a)
| s_safe_del_init h l v a : astep ((h, l) :: a) (OSafeDelInit h v) ((h, keep (fun x => mem_pos x v) l) :: a)
| s_forget h a : astep ((h, []) :: a) (OEmpty h) a         (* an empty head goes out of use (e.g. a local) *)
| s_perm a1 a1' o a2 a2' : Permutation a1 a1' -> astep a1' o a2' -> Permutation a2' a2 -> astep a1 o a2.

(* nodes the operation introduces must be allocated *)
Definition new_node (o : op) : option positive :=
  match o with
  | OInit n | OAdd n _ | OAddTail n _ | OSteal _ n => Some n
  | _ => None
  end.

Lemma flat_perm a a' : Permutation a a' -> Permutation (flat a) (flat a').
Proof. intros H. unfold flat. rewrite H. reflexivity. Qed.

Lemma Inv_perm s a a' : Permutation a a' -> Inv s a -> Inv s a'.
Proof.
  intros HP [HN HR]. split.
  - eapply Permutation_NoDup; [apply flat_perm; exact HP | exact HN].
  - intros h l Hin. apply HR. eapply Permutation_in; [symmetry; exact HP | exact Hin].
Qed.

Lemma in_flat a h l k : In (h, l) a -> In k (h :: l) -> In k (flat a).
Proof. intros H1 H2. unfold flat. apply in_flat_map. exists (h, l). split; assumption. Qed.

(* the lists not concerned survive an operation that touches only nodes outside them *)
Lemma rest_survives s s' N P (rest : astate) :
  touches s s' N P -> (forall k, In k (N ++ P) -> ~ In k (flat rest)) ->
  (forall h l, In (h, l) rest -> Rep s h l) -> forall h l, In (h, l) rest -> Rep s' h l.
Proof.
  intros HT HD HR h l Hin. eapply touches_Rep; [exact HT | | apply HR; exact Hin].
  intros k Hk. split; intros HkN; apply (HD k); try (apply in_or_app; tauto); eapply in_flat; eauto.
Qed.

Lemma first_of_in h l : In (first_of h l) (h :: l).
Proof. destruct l; simpl; auto. Qed.
Lemma last_of_in h l : In (last_of h l) (h :: l).
Proof. apply last_In. Qed.

Lemma flat_app a b : flat (a ++ b) = flat a ++ flat b.
Proof. unfold flat. apply flat_map_app. Qed.

(* the general step: the entries `front` are replaced by `front'`, built from the nodes of front and the new
   nodes `news`; the operation touched only such nodes *)
Lemma Inv_update s s' N P front front' news rest :
  Inv s (front ++ rest) -> touches s s' N P ->
  (forall k, In k (N ++ P) -> In k (flat front ++ news)) ->
  (forall k, In k news -> ~ In k (flat (front ++ rest))) ->
  NoDup (flat front') -> incl (flat front') (flat front ++ news) ->
  (forall h l, In (h, l) front' -> Rep s' h l) ->
  Inv s' (front' ++ rest).
Proof.
  intros [HN HR] HT HNP Hnews HN' Hincl HR'.
  rewrite flat_app in HN. apply NoDup_app_iff in HN. destruct HN as (N1 & N2 & D).
  assert (Hout : forall k, In k (flat front ++ news) -> ~ In k (flat rest)).
  { intros k Hk Hk'. apply in_app_or in Hk. destruct Hk as [Hk | Hk].
    - eapply D; eauto.
    - apply (Hnews k Hk). rewrite flat_app. apply in_or_app. right. exact Hk'. }
  split.
  - rewrite flat_app. apply NoDup_app_iff. repeat split; try assumption.
    intros k Hk. apply Hout. apply Hincl. exact Hk.
  - intros h l Hin. apply in_app_or in Hin. destruct Hin as [Hin | Hin]; [apply HR'; exact Hin |].
    apply (rest_survives s s' N P rest HT); [| | exact Hin].
    + intros k Hk. apply Hout. apply HNP. exact Hk.
    + intros h1 l1 Hin1. apply HR. apply in_or_app. right. exact Hin1.
Qed.

Ltac in_tac :=
  repeat (simpl In in *;
          match goal with
          | H : context [In _ (_ ++ _)] |- _ => rewrite in_app_iff in H
          | |- context [In _ (_ ++ _)] => rewrite in_app_iff
          end);
  simpl In in *; intuition (subst; auto).

Theorem valid_step_preserves fuel : forall a o a',
  astep a o a' -> forall s,
  Inv s a -> (forall n, new_node o = Some n -> alloc s n) -> (forall h l, In (h, l) a -> (length l < fuel)%nat) ->
  exists s' ob, step fuel s o = Ok (s', ob) /\ Inv s' a' /\ (forall k, alloc s' k <-> alloc s k).
Proof.
  induction 1; intros s HI HA HF.
  - (* init *)
    destruct (list_init_refines s n (HA n eq_refl)) as (s' & E & R & T).
    exists s', ObsNone. cbn [step]. rewrite E. split; [reflexivity |]. split; [| apply T].
    apply (Inv_update s s' [n] [n] [] [(n, [])] [n] a HI T).
    + intros k Hk. in_tac.
    + intros k [<- | []]. exact H.
    + repeat constructor. simpl. tauto.
    + intros k Hk. in_tac.
    + intros h l [[= <- <-] | []]. exact R.
  - (* add *)
    assert (R0 : Rep s h l) by (apply (proj2 HI); left; reflexivity).
    assert (Hnin : ~ In n (h :: l)).
    { intros Hin. apply H. eapply in_flat; [left; reflexivity | exact Hin]. }
    destruct (list_add_refines s h l n R0 (HA n eq_refl) Hnin) as (s' & E & R & T).
    exists s', ObsNone. cbn [step]. rewrite E. split; [reflexivity |]. split; [| apply T].
    apply (Inv_update s s' _ _ [(h, l)] [(h, n :: l)] [n] a HI T).
    + intros k Hk. pose proof (first_of_in h l). unfold flat. cbn [flat_map nodes_of fst snd]. in_tac.
    + intros k [<- | []]. exact H.
    + unfold flat. cbn [flat_map nodes_of fst snd]. rewrite app_nil_r. apply R.
    + intros k Hk. unfold flat in *. cbn [flat_map nodes_of fst snd] in *. in_tac.
    + intros h0 l0 [[= <- <-] | []]. exact R.
  - (* add_tail *)
    assert (R0 : Rep s h l) by (apply (proj2 HI); left; reflexivity).
    assert (Hnin : ~ In n (h :: l)).
    { intros Hin. apply H. eapply in_flat; [left; reflexivity | exact Hin]. }
    destruct (list_add_tail_refines s h l n R0 (HA n eq_refl) Hnin) as (s' & E & R & T).
    exists s', ObsNone. cbn [step]. rewrite E. split; [reflexivity |]. split; [| apply T].
    apply (Inv_update s s' _ _ [(h, l)] [(h, l ++ [n])] [n] a HI T).
    + intros k Hk. pose proof (last_of_in h l). unfold flat. cbn [flat_map nodes_of fst snd]. in_tac.
    + intros k [<- | []]. exact H.
    + unfold flat. cbn [flat_map nodes_of fst snd]. rewrite app_nil_r. apply R.
    + intros k Hk. unfold flat in *. cbn [flat_map nodes_of fst snd] in *. in_tac.
    + intros h0 l0 [[= <- <-] | []]. exact R.
  - (* del *)
    assert (R0 : Rep s h (l1 ++ n :: l2)) by (apply (proj2 HI); left; reflexivity).
    destruct (list_del_refines s h l1 n l2 R0) as (s' & E & R & _ & _ & T).
    exists s', ObsNone. cbn [step]. rewrite E. split; [reflexivity |]. split; [| apply T].
    apply (Inv_update s s' _ _ [(h, l1 ++ n :: l2)] [(h, l1 ++ l2)] [] a HI T).
    + intros k Hk. pose proof (last_of_in h l1). pose proof (first_of_in h l2).
      unfold flat. cbn [flat_map nodes_of fst snd]. in_tac.
    + intros k [].
    + unfold flat. cbn [flat_map nodes_of fst snd]. rewrite app_nil_r. apply R.
    + intros k Hk. unfold flat in *. cbn [flat_map nodes_of fst snd] in *. in_tac.
    + intros h0 l0 [[= <- <-] | []]. exact R.
  - (* del_init *)
    assert (R0 : Rep s h (l1 ++ n :: l2)) by (apply (proj2 HI); left; reflexivity).
    destruct (list_del_init_refines s h l1 n l2 R0) as (s' & E & R & Rn & T).
    exists s', ObsNone. cbn [step]. rewrite E. split; [reflexivity |]. split; [| apply T].
    apply (Inv_update s s' _ _ [(h, l1 ++ n :: l2)] [(n, []); (h, l1 ++ l2)] [] a HI T).
    + intros k Hk. pose proof (last_of_in h l1). pose proof (first_of_in h l2).
      unfold flat. cbn [flat_map nodes_of fst snd]. in_tac.
    + intros k [].
    + unfold flat. cbn [flat_map nodes_of fst snd app]. rewrite app_nil_r.
      constructor; [| apply R]. destruct R0 as [_ N0].
      change (h :: l1 ++ n :: l2) with ((h :: l1) ++ n :: l2) in N0. apply NoDup_remove_2 in N0. exact N0.
    + intros k Hk. unfold flat in *. cbn [flat_map nodes_of fst snd app] in *. in_tac.
    + intros h0 l0 [[= <- <-] | [[= <- <-] | []]]; assumption.
  - (* empty *)
    assert (R0 : Rep s h l) by (apply (proj2 HI); left; reflexivity).
    exists s, (ObsBool (match l with [] => true | _ => false end)). cbn [step].
    rewrite (list_empty_refines s h l R0). split; [reflexivity |]. split; [exact HI | tauto].
  - (* splice_init *)
    assert (Rx : Rep s x lx) by (apply (proj2 HI); left; reflexivity).
    assert (Rh : Rep s h lh) by (apply (proj2 HI); right; left; reflexivity).
    assert (N0 : NoDup ((x :: lx) ++ (h :: lh))).
    { destruct HI as [HN _]. unfold flat in HN. cbn [flat_map nodes_of fst snd] in HN.
      rewrite app_assoc in HN. apply NoDup_app_iff in HN. apply HN. }
    assert (D : disjoint (h :: lh) (x :: lx)).
    { apply NoDup_app_iff in N0. destruct N0 as (_ & _ & D). intros k H1 H2. eapply D; eauto. }
    destruct (list_splice_init_refines s x lx h lh Rx Rh D) as (s' & E & R & Rx' & T).
    exists s', ObsNone. cbn [step]. rewrite E. split; [reflexivity |]. split; [| apply T].
    apply (Inv_update s s' _ _ [(x, lx); (h, lh)] [(x, []); (h, lx ++ lh)] [] a HI T).
    + intros k Hk. pose proof (last_of_in x lx). pose proof (first_of_in x lx). pose proof (first_of_in h lh).
      unfold flat. cbn [flat_map nodes_of fst snd]. in_tac.
    + intros k [].
    + unfold flat. cbn [flat_map nodes_of fst snd app]. rewrite app_nil_r.
      constructor; [| apply R]. apply NoDup_app_iff in N0. destruct N0 as (Nx & _ & D0).
      apply NoDup_cons_iff in Nx. intros Hin. simpl in Hin. rewrite in_app_iff in Hin.
      destruct Hin as [Hx | [Hin | Hin]]; [apply (D0 x); [left; reflexivity | left; exact Hx] | tauto | apply (D0 x); simpl; auto].
    + intros k Hk. unfold flat in *. cbn [flat_map nodes_of fst snd app] in *. in_tac.
    + intros h0 l0 [[= <- <-] | [[= <- <-] | []]]; assumption.
  - (* splice_tail_init *)
    assert (Rx : Rep s x lx) by (apply (proj2 HI); left; reflexivity).
    assert (Rh : Rep s h lh) by (apply (proj2 HI); right; left; reflexivity).
    assert (N0 : NoDup ((x :: lx) ++ (h :: lh))).
    { destruct HI as [HN _]. unfold flat in HN. cbn [flat_map nodes_of fst snd] in HN.
      rewrite app_assoc in HN. apply NoDup_app_iff in HN. apply HN. }
    assert (D : disjoint (h :: lh) (x :: lx)).
    { apply NoDup_app_iff in N0. destruct N0 as (_ & _ & D). intros k H1 H2. eapply D; eauto. }
    destruct (list_splice_tail_init_refines s x lx h lh Rx Rh D) as (s' & E & R & Rx' & T).
    exists s', ObsNone. cbn [step]. rewrite E. split; [reflexivity |]. split; [| apply T].
    apply (Inv_update s s' _ _ [(x, lx); (h, lh)] [(x, []); (h, lh ++ lx)] [] a HI T).
    + intros k Hk. pose proof (last_of_in x lx). pose proof (first_of_in x lx). pose proof (last_of_in h lh).
      unfold flat. cbn [flat_map nodes_of fst snd]. in_tac.
    + intros k [].
    + unfold flat. cbn [flat_map nodes_of fst snd app]. rewrite app_nil_r.
      constructor; [| apply R]. apply NoDup_app_iff in N0. destruct N0 as (Nx & _ & D0).
      apply NoDup_cons_iff in Nx. intros Hin. simpl in Hin. rewrite in_app_iff in Hin.
      destruct Hin as [Hx | [Hin | Hin]]; [apply (D0 x); [left; reflexivity | left; exact Hx] | apply (D0 x); simpl; auto | tauto].
    + intros k Hk. unfold flat in *. cbn [flat_map nodes_of fst snd app] in *. in_tac.
    + intros h0 l0 [[= <- <-] | [[= <- <-] | []]]; assumption.
  - (* steal *)
    assert (R0 : Rep s o l) by (apply (proj2 HI); left; reflexivity).
    assert (Hnin : ~ In n (o :: l)).
    { intros Hin. apply H. eapply in_flat; [left; reflexivity | exact Hin]. }
    destruct (list_steal_refines s o l n R0 (HA n eq_refl) Hnin) as (s' & E & Rn & Ro & T).
    exists s', ObsNone. cbn [step]. rewrite E. split; [reflexivity |]. split; [| apply T].
    apply (Inv_update s s' _ _ [(o, l)] [(n, l); (o, [])] [n] a HI T).
    + intros k Hk. pose proof (last_of_in o l). pose proof (first_of_in o l).
      unfold flat. cbn [flat_map nodes_of fst snd]. in_tac.
    + intros k [<- | []]. exact H.
    + unfold flat. cbn [flat_map nodes_of fst snd app]. rewrite ?app_nil_r.
      destruct Rn as [_ Nn]. destruct R0 as [_ No].
      change (n :: l ++ [o]) with ((n :: l) ++ [o]). apply NoDup_app_iff. repeat split; try assumption.
      * repeat constructor. simpl. tauto.
      * intros k Hk [<- | []]. apply NoDup_cons_iff in No. simpl in Hk. destruct Hk as [-> | Hk]; [| tauto].
        apply Hnin. left. reflexivity.
    + intros k Hk. unfold flat in *. cbn [flat_map nodes_of fst snd app] in *. in_tac.
    + intros h0 l0 [[= <- <-] | [[= <- <-] | []]]; assumption.
  - (* for_each *)
    assert (R0 : Rep s h l) by (apply (proj2 HI); left; reflexivity).
    exists s, (ObsVisited l). cbn [step].
    rewrite (list_for_each_refines s h l fuel R0 (HF h l (or_introl eq_refl))). cbn [bind fst snd].
    split; [reflexivity |]. split; [exact HI | tauto].
  - (* for_each_safe + del *)
    assert (R0 : Rep s h l) by (apply (proj2 HI); left; reflexivity).
    destruct (list_for_each_safe_refines _ _ s h l fuel (remover_del v) R0 (HF h l (or_introl eq_refl)))
      as (s' & E & R & F1 & F2).
    exists s', (ObsVisited l). cbn [step]. rewrite E. cbn [bind fst snd]. split; [reflexivity |]. split; [| exact F2].
    assert (T : touches s s' (h :: l) (h :: l)).
    { repeat split; try apply F2; intros k Hk; unfold nxt, prv; rewrite F1 by exact Hk; reflexivity. }
    apply (Inv_update s s' _ _ [(h, l)] [(h, keep (fun x => mem_pos x v) l)] [] a HI T).
    + intros k Hk. unfold flat. cbn [flat_map nodes_of fst snd]. in_tac.
    + intros k [].
    + unfold flat. cbn [flat_map nodes_of fst snd]. rewrite app_nil_r. apply R.
    + intros k Hk. unfold flat in *. cbn [flat_map nodes_of fst snd] in *. rewrite !app_nil_r in *.
      destruct Hk as [<- | Hk]; [left; reflexivity | right]. unfold keep in Hk. apply filter_In in Hk. tauto.
    + intros h0 l0 [[= <- <-] | []]. exact R.
  - (* for_each_safe + del_init *)
    assert (R0 : Rep s h l) by (apply (proj2 HI); left; reflexivity).
    destruct (list_for_each_safe_refines _ _ s h l fuel (remover_del_init v) R0 (HF h l (or_introl eq_refl)))
      as (s' & E & R & F1 & F2).
    exists s', (ObsVisited l). cbn [step]. rewrite E. cbn [bind fst snd]. split; [reflexivity |]. split; [| exact F2].
    assert (T : touches s s' (h :: l) (h :: l)).
    { repeat split; try apply F2; intros k Hk; unfold nxt, prv; rewrite F1 by exact Hk; reflexivity. }
    apply (Inv_update s s' _ _ [(h, l)] [(h, keep (fun x => mem_pos x v) l)] [] a HI T).
    + intros k Hk. unfold flat. cbn [flat_map nodes_of fst snd]. in_tac.
    + intros k [].
    + unfold flat. cbn [flat_map nodes_of fst snd]. rewrite app_nil_r. apply R.
    + intros k Hk. unfold flat in *. cbn [flat_map nodes_of fst snd] in *. rewrite !app_nil_r in *.
      destruct Hk as [<- | Hk]; [left; reflexivity | right]. unfold keep in Hk. apply filter_In in Hk. tauto.
    + intros h0 l0 [[= <- <-] | []]. exact R.
  - (* forget an empty head *)
    assert (R0 : Rep s h []) by (apply (proj2 HI); left; reflexivity).
    exists s, (ObsBool true). cbn [step]. rewrite (list_empty_refines s h [] R0). split; [reflexivity |].
    split; [| tauto]. destruct HI as [HN HR]. split.
    + unfold flat in HN. cbn [flat_map nodes_of fst snd app] in HN. apply NoDup_cons_iff in HN. apply HN.
    + intros h0 l0 Hin. apply HR. right. exact Hin.
  - (* permutation *)
    destruct (IHastep s (Inv_perm s a1 a1' H HI) HA) as (s' & ob & E & HI' & HA').
    { intros h l Hin. apply (HF h l). eapply Permutation_in; [symmetry; exact H | exact Hin]. }
    exists s', ob. split; [exact E |]. split; [| exact HA'].
    eapply Inv_perm; [exact H1 | exact HI'].
Qed.

(* histories: a sequence of valid operations *)
Inductive asteps : astate -> list op -> astate -> Prop :=
| as_nil a : asteps a [] a
| as_cons a o a1 os a2 : astep a o a1 -> asteps a1 os a2 -> asteps a (o :: os) a2.

Fixpoint run (fuel : nat) (s : store) (os : list op) : res (store * list obs) :=
  match os with
  | [] => Ok (s, [])
  | o :: r =>
    match step fuel s o with
    | Ok (s1, ob) => match run fuel s1 r with
                     | Ok (s2, obs) => Ok (s2, ob :: obs)
                     | ErrNull => ErrNull | ErrDangling => ErrDangling | ErrFuel => ErrFuel
                     end
    | ErrNull => ErrNull | ErrDangling => ErrDangling | ErrFuel => ErrFuel
    end
  end.

Definition bounded (fuel : nat) (a : astate) : Prop := (length (flat a) < fuel)%nat.

Lemma astep_nodes a o a' : astep a o a' ->
  forall k, In k (flat a') -> In k (flat a) \/ new_node o = Some k.
Proof.
  induction 1; intros k Hk; unfold flat in *; cbn [flat_map nodes_of fst snd app new_node] in *;
    try (left; exact Hk); try solve [in_tac].
  - (* safe_del *) simpl In in *. rewrite in_app_iff in Hk. rewrite in_app_iff.
    destruct Hk as [<- | [Hk | Hk]]; [left; left; reflexivity | | left; right; right; exact Hk].
    left. right. left. unfold keep in Hk. apply filter_In in Hk. tauto.
  - simpl In in *. rewrite in_app_iff in Hk. rewrite in_app_iff.
    destruct Hk as [<- | [Hk | Hk]]; [left; left; reflexivity | | left; right; right; exact Hk].
    left. right. left. unfold keep in Hk. apply filter_In in Hk. tauto.
  - assert (Hk' : In k (flat_map nodes_of a2')).
    { eapply Permutation_in; [| exact Hk]. apply flat_perm. symmetry. exact H1. }
    destruct (IHastep k Hk') as [Hin | Hn]; [left | right; exact Hn].
    eapply Permutation_in; [| exact Hin]. apply flat_perm. symmetry. exact H.
Qed.

(* every history of valid operations over a pool of at most `fuel - 1` allocated nodes runs without any error
   and ends in a store that represents the abstract end state *)
Theorem valid_history_preserves fuel (U : list positive) : forall os a a',
  asteps a os a' -> forall s,
  Inv s a -> (forall k, In k U -> alloc s k) -> incl (flat a) U ->
  (forall o n, In o os -> new_node o = Some n -> In n U) ->
  (length U < fuel)%nat ->
  exists s' obs, run fuel s os = Ok (s', obs) /\ Inv s' a' /\ (forall k, alloc s' k <-> alloc s k).
Proof.
  induction 1 as [a | a o a1 os a2 Hst Hsts IH]; intros s HI HU Hincl Hnew Hlen.
  - exists s, []. split; [reflexivity |]. split; [exact HI | tauto].
  - assert (HF : forall h l, In (h, l) a -> (length l < fuel)%nat).
    { intros h l Hin. assert (Hl : incl l U).
      { intros k Hk. apply Hincl. eapply in_flat; [exact Hin | right; exact Hk]. }
      assert (Hnd : NoDup l).
      { destruct HI as [_ HR]. destruct (HR h l Hin) as [_ N]. apply NoDup_cons_iff in N. apply N. }
      pose proof (NoDup_incl_length Hnd Hl). lia. }
    destruct (valid_step_preserves fuel a o a1 Hst s HI) as (s1 & ob & E & HI1 & HA1); [| exact HF |].
    { intros n Hn. apply HU. eapply Hnew; [left; reflexivity | exact Hn]. }
    destruct (IH s1 HI1) as (s2 & obs & E2 & HI2 & HA2).
    + intros k Hk. apply HA1. apply HU. exact Hk.
    + intros k Hk. destruct (astep_nodes a o a1 Hst k Hk) as [Hin | Hn]; [apply Hincl; exact Hin |].
      eapply Hnew; [left; reflexivity | exact Hn].
    + intros o' n Hin Hn. eapply Hnew; [right; exact Hin | exact Hn].
    + exact Hlen.
    + exists s2, (ob :: obs). cbn [run]. rewrite E, E2. split; [reflexivity |]. split; [exact HI2 |].
      intros k. rewrite HA2. apply HA1.
Qed.

(* non-vacuity: a history over the pool of 6 nodes *)
Definition ex_history : list op :=
  [OInit 1; OAddTail 3 1; OAdd 5 1; OSteal 1 2; OSafeDel 2 [3]]%positive.

Example ex_history_valid : asteps [] ex_history [(2, [5]); (1, [])]%positive.
Proof.
  unfold ex_history.
  eapply as_cons; [apply s_init; simpl; tauto |].
  eapply as_cons; [apply s_add_tail; simpl; intuition discriminate |].
  eapply as_cons; [apply s_add; simpl; intuition discriminate |].
  eapply as_cons; [apply s_steal; simpl; intuition discriminate |].
  eapply as_cons; [apply (s_safe_del 2 [5; 3] [3] [(1, [])])%positive |].
  apply as_nil.
Qed.
