(* AvlPtrDelete.v -- pieces of iv_avl_tree_delete of AvlPtrModel.v on a
   represented zipper: writing through a context reference, re-parenting,
   unlinking the victim (maximum of the left / minimum of the right subtree)
   and putting the victim in the deleted node's place. *)

From Coq Require Import List ZArith Bool Lia FMapPositive Permutation.
From Ivv Require Import Avl.AvlModel Avl.AvlBasics Avl.AvlRebalance Avl.AvlProofs Avl.AvlPtrModel
  Avl.AvlPtrRep Avl.AvlPtrRot Avl.AvlPtrPath Avl.AvlPtrInsert Avl.AvlPtrTrav.
Import ListNotations.
Local Open Scope Z_scope.

(* the walk to the maximum / minimum is the zipper move rightmost / leftmost *)
Lemma split_max_rightmost : forall lr ll lk lh c1 vl vk c2,
  split_max ll lk lh lr c1 = (vl, vk, c2) ->
  exists vh, plug (N vl vk vh E) c2 = plug (N ll lk lh lr) c1 /\
    forall c, rightmost (N ll lk lh lr) (c1 ++ c) = Some (N vl vk vh E, c2 ++ c).
Proof.
  induction lr as [|rl IHrl rk rh rr IHrr]; intros ll lk lh c1 vl vk c2 Hsp.
  - cbn [split_max] in Hsp. injection Hsp as <- <- <-. exists lh. split; reflexivity.
  - cbn [split_max] in Hsp.
    destruct (IHrr rl rk rh (FR ll lk lh :: c1) vl vk c2 Hsp) as (vh & P & R).
    exists vh. split; [exact P|]. intros c. cbn [rightmost]. apply (R c).
Qed.

Lemma split_min_leftmost : forall rl rk rh rr c1 vr vk c2,
  split_min rl rk rh rr c1 = (vr, vk, c2) ->
  exists vh, plug (N E vk vh vr) c2 = plug (N rl rk rh rr) c1 /\
    forall c, leftmost (N rl rk rh rr) (c1 ++ c) = Some (N E vk vh vr, c2 ++ c).
Proof.
  induction rl as [|ll IHll lk lh lr IHlr]; intros rk rh rr c1 vr vk c2 Hsp.
  - cbn [split_min] in Hsp. injection Hsp as <- <- <-. exists rh. split; reflexivity.
  - cbn [split_min] in Hsp.
    destruct (IHll lk lh lr (FL rk rh rr :: c1) vr vk c2 Hsp) as (vh & P & R).
    exists vh. split; [exact P|]. intros c. cbn [leftmost]. apply (R c).
Qed.

Lemma nodup_swap_del_l (A B R C : list positive) (x y : positive) :
  NoDup ((A ++ [x]) ++ B ++ y :: R ++ C) -> NoDup (A ++ B ++ x :: R ++ C).
Proof.
  intros H.
  assert (P : Permutation (y :: A ++ B ++ x :: R ++ C) ((A ++ [x]) ++ B ++ y :: R ++ C)).
  { replace ((A ++ [x]) ++ B ++ y :: R ++ C) with ((A ++ x :: B) ++ y :: (R ++ C))
      by (rewrite <- !app_assoc; reflexivity).
    apply Permutation_cons_app. rewrite <- app_assoc. apply Permutation_app_head.
    cbn [app]. symmetry. apply Permutation_middle. }
  symmetry in P. apply (Permutation_NoDup P) in H. apply NoDup_cons_iff in H. tauto.
Qed.

Lemma nodup_swap_del_r (A B R C : list positive) (x y : positive) :
  NoDup ((x :: A) ++ B ++ y :: R ++ C) -> NoDup (A ++ B ++ x :: R ++ C).
Proof.
  intros H.
  assert (P : Permutation (y :: A ++ B ++ x :: R ++ C) ((x :: A) ++ B ++ y :: R ++ C)).
  { replace ((x :: A) ++ B ++ y :: R ++ C) with ((x :: A ++ B) ++ y :: (R ++ C))
      by (cbn [app]; rewrite <- !app_assoc; reflexivity).
    apply Permutation_cons_app. cbn [app]. symmetry.
    replace (A ++ B ++ x :: R ++ C) with ((A ++ B) ++ x :: (R ++ C))
      by (rewrite <- !app_assoc; reflexivity).
    apply Permutation_cons_app. reflexivity. }
  symmetry in P. apply (Permutation_NoDup P) in H. apply NoDup_cons_iff in H. tauto.
Qed.

Ltac simp' :=
  unfold with_left, with_right, with_parent, with_height;
  cbn [bind fst snd n_left n_right n_parent n_height n_key st_store st_root].

Section Del.
Variable f : Z -> positive.

Notation zrep := (zrep f).
Notation rep := (rep f).
Notation repc := (repc f).
Notation tptr := (tptr f).
Notation cidl := (cidl f).
Notation cref := (cref f).
Notation cpar := (cpar f).
Notation croot := (croot f).

Lemma cidl_app c1 c2 : cidl (c1 ++ c2) = cidl c1 ++ cidl c2.
Proof.
  induction c1 as [|[k h r|l k h] c1 IH]; cbn [app AvlPtrRep.cidl]; [reflexivity| |];
    rewrite IH, <- app_assoc; reflexivity.
Qed.

Lemma zrep_app st c2 : forall t c, zrep st t (c2 ++ c) <-> zrep st (plug t c2) c.
Proof.
  induction c2 as [|fr c2 IH]; intros t c; cbn [app plug]; [tauto|].
  rewrite zrep_fill. apply IH.
Qed.

Lemma cpar_in c i : cpar c = Some i -> In i (cidl c).
Proof.
  destruct c as [|[k h r|l k h] c]; cbn [AvlPtrRep.cpar AvlPtrRep.cidl fkey]; [discriminate| |];
    intros [= <-]; left; reflexivity.
Qed.

Lemma cpar_app c2 c : c2 <> [] -> cpar (c2 ++ c) = cpar c2.
Proof. destruct c2; [congruence | reflexivity]. Qed.

(* *ref = v through the reference of a context: only the hole changes *)
Lemma store_cref_ctx s root c hole v :
  repc s c hole -> root = croot c hole -> NoDup (cidl c) ->
  exists s' root', store_ref (mkState s root) (cref c) v = Ok (mkState s' root')
    /\ repc s' c v /\ root' = croot c v
    /\ (forall i, Some i <> cpar c -> PM.find i s' = PM.find i s).
Proof.
  intros Hc Hr ND.
  destruct c as [|[k h r|l k h] c];
    cbn [AvlPtrRep.cref store_ref AvlPtrRep.repc AvlPtrRep.croot AvlPtrRep.cpar AvlPtrRep.cidl fkey] in *.
  - exists s, v. repeat split; auto.
  - destruct Hc as (H1 & H2 & H3). rewrite (set_left_ok _ _ _ _ _ H1).
    apply NoDup_cons_iff in ND as [Hk ND3]. rewrite in_app_iff in Hk.
    eexists _, root. split; [reflexivity|].
    unfold with_left. cbn [n_left n_right n_parent n_height n_key].
    split; [split; [apply PM.gss|split]|split; [exact Hr|]].
    + apply rep_add; [tauto | exact H2].
    + eapply repc_frame; [|exact H3]. intros i Hi. apply PM.gso. intros ->. tauto.
    + intros i Hi. apply PM.gso. congruence.
  - destruct Hc as (H1 & H2 & H3). rewrite (set_right_ok _ _ _ _ _ H1).
    apply NoDup_cons_iff in ND as [Hk ND3]. rewrite in_app_iff in Hk.
    eexists _, root. split; [reflexivity|].
    unfold with_right. cbn [n_left n_right n_parent n_height n_key].
    split; [split; [apply PM.gss|split]|split; [exact Hr|]].
    + apply rep_add; [tauto | exact H2].
    + eapply repc_frame; [|exact H3]. intros i Hi. apply PM.gso. intros ->. tauto.
    + intros i Hi. apply PM.gso. congruence.
Qed.

(* if (t != NULL) t->parent = p' *)
Lemma set_parent_tptr s root t p p' :
  rep s t p -> NoDup (idl f t) ->
  exists s', set_parent_if (mkState s root) (tptr t) p' = Ok (mkState s' root)
    /\ rep s' t p'
    /\ (forall i, Some i <> tptr t -> PM.find i s' = PM.find i s).
Proof.
  intros Hr ND. destruct t as [|a x y b]; cbn [AvlPtrRep.tptr set_parent_if].
  - exists s. repeat split; auto.
  - cbn [AvlPtrRep.rep] in Hr. destruct Hr as (Hx & Ha & Hb).
    rewrite (set_parent_ok _ _ _ _ _ Hx). eexists. split; [reflexivity|].
    cbn [inorder] in ND. nd_facts ND.
    unfold with_parent. cbn [AvlPtrRep.rep n_left n_right n_parent n_height n_key].
    split; [split; [apply PM.gss | split; apply rep_add; assumption]|].
    intros i Hi. apply PM.gso. congruence.
Qed.

Lemma replace_reference_z s root t c v :
  t <> E -> zrep (mkState s root) t c -> NoDup (idl f t ++ cidl c) ->
  replace_reference (mkState s root) (tptr t) v = store_ref (mkState s root) (cref c) v.
Proof.
  intros HE Hz ND. unfold replace_reference. rewrite (find_reference_z f _ _ _ _ HE Hz ND). reflexivity.
Qed.

Lemma in_tptr_idl t i : tptr t = Some i -> In i (idl f t).
Proof. apply in_tptr. Qed.

(* ---- unlinking the victim: maximum of the left subtree ---- *)
Lemma unlink_max_z s root fuel lp vl vk vh cv :
  walk_right fuel (mkState s root) lp = Ok (Some (f vk)) ->
  zrep (mkState s root) (N vl vk vh E) cv ->
  NoDup (idl f (N vl vk vh E) ++ cidl cv) ->
  exists s2 root2,
    unlink_max fuel (mkState s root) lp = Ok (mkState s2 root2, Some (f vk))
    /\ zrep (mkState s2 root2) vl cv
    /\ PM.find (f vk) s2 = Some (mkNode (tptr vl) None (cpar cv) vh vk)
    /\ (forall i, ~ In i (idl f vl) -> ~ In i (cidl cv) -> PM.find i s2 = PM.find i s).
Proof.
  intros Hw Hz ND. unfold unlink_max. rewrite Hw. simp.
  pose proof Hz as (Hr & Hc & Hroot). cbn [st_store st_root AvlPtrRep.rep AvlPtrRep.tptr] in Hr, Hc, Hroot.
  destruct Hr as (HV & Hvl & _).
  rewrite (get_left_ok _ _ _ _ HV). simp.
  pose proof (replace_reference_z s root (N vl vk vh E) cv (tptr vl) ltac:(discriminate) Hz ND) as RR.
  cbn [AvlPtrRep.tptr] in RR. rewrite RR. clear RR.
  (* id facts *)
  pose proof (nodup_app_r _ _ ND) as NDc.
  pose proof (nodup_app_l _ _ ND) as NDt.
  pose proof (nodup_app_disj _ _ ND) as Hdisj.
  cbn [inorder] in NDt, Hdisj. rewrite map_app in NDt, Hdisj. cbn [map] in NDt, Hdisj.
  pose proof (nodup_app_l _ _ NDt) as NDvl.
  assert (HVvl : ~ In (f vk) (idl f vl)).
  { intros Hi. apply (nodup_app_disj _ _ NDt _ Hi). left. reflexivity. }
  assert (HVc : ~ In (f vk) (cidl cv)).
  { apply Hdisj. apply in_or_app. right. left. reflexivity. }
  assert (Hvlc : forall i, In i (idl f vl) -> ~ In i (cidl cv)).
  { intros i Hi. apply Hdisj. apply in_or_app. left. exact Hi. }
  destruct (store_cref_ctx s root cv (Some (f vk)) (tptr vl) Hc Hroot NDc) as (s1 & root1 & E1 & Hc1 & Hroot1 & F1).
  rewrite E1. simp.
  assert (HV1 : PM.find (f vk) s1 = PM.find (f vk) s).
  { apply F1. intros Heq. symmetry in Heq. apply cpar_in in Heq. contradiction. }
  rewrite HV in HV1. rewrite (get_left_ok _ _ _ _ HV1). simp.
  assert (Hvl1 : rep s1 vl (Some (f vk))).
  { eapply rep_frame; [|exact Hvl]. intros i Hi. apply F1. intros Heq. symmetry in Heq.
    apply cpar_in in Heq. exact (Hvlc i Hi Heq). }
  assert (Hfix : (match tptr vl with
                  | None => Ok (mkState s1 root1)
                  | Some _ => vp <- get_parent (mkState s1 root1) (Some (f vk)) ;;
                              set_parent (mkState s1 root1) (tptr vl) vp
                  end) = set_parent_if (mkState s1 root1) (tptr vl) (cpar cv)).
  { destruct (tptr vl); [|reflexivity]. rewrite (get_parent_ok _ _ _ _ HV1). reflexivity. }
  rewrite Hfix. clear Hfix.
  destruct (set_parent_tptr s1 root1 vl (Some (f vk)) (cpar cv) Hvl1 NDvl) as (s2 & E2 & Hvl2 & F2).
  rewrite E2. simp. exists s2, root1. split; [reflexivity|].
  assert (Hnr : forall i, ~ In i (idl f vl) -> Some i <> tptr vl).
  { intros i Hi Heq. symmetry in Heq. apply in_tptr_idl in Heq. contradiction. }
  split; [|split].
  - unfold AvlPtrRep.zrep. cbn [st_store st_root]. split; [exact Hvl2|]. split; [|exact Hroot1].
    eapply repc_frame; [|exact Hc1]. intros i Hi. apply F2. apply Hnr. intros Hi2. exact (Hvlc i Hi2 Hi).
  - rewrite F2 by (apply Hnr; exact HVvl). exact HV1.
  - intros i Hi1 Hi2. rewrite F2 by (apply Hnr; exact Hi1). apply F1.
    intros Heq. symmetry in Heq. apply cpar_in in Heq. contradiction.
Qed.

(* ---- unlinking the victim: minimum of the right subtree ---- *)
Lemma unlink_min_z s root fuel rp vr vk vh cv :
  walk_left fuel (mkState s root) rp = Ok (Some (f vk)) ->
  zrep (mkState s root) (N E vk vh vr) cv ->
  NoDup (idl f (N E vk vh vr) ++ cidl cv) ->
  exists s2 root2,
    unlink_min fuel (mkState s root) rp = Ok (mkState s2 root2, Some (f vk))
    /\ zrep (mkState s2 root2) vr cv
    /\ PM.find (f vk) s2 = Some (mkNode None (tptr vr) (cpar cv) vh vk)
    /\ (forall i, ~ In i (idl f vr) -> ~ In i (cidl cv) -> PM.find i s2 = PM.find i s).
Proof.
  intros Hw Hz ND. unfold unlink_min. rewrite Hw. simp.
  pose proof Hz as (Hr & Hc & Hroot). cbn [st_store st_root AvlPtrRep.rep AvlPtrRep.tptr] in Hr, Hc, Hroot.
  destruct Hr as (HV & _ & Hvr).
  rewrite (get_right_ok _ _ _ _ HV). simp.
  pose proof (replace_reference_z s root (N E vk vh vr) cv (tptr vr) ltac:(discriminate) Hz ND) as RR.
  cbn [AvlPtrRep.tptr] in RR. rewrite RR. clear RR.
  pose proof (nodup_app_r _ _ ND) as NDc.
  pose proof (nodup_app_l _ _ ND) as NDt.
  pose proof (nodup_app_disj _ _ ND) as Hdisj.
  cbn [inorder app map] in NDt, Hdisj.
  apply NoDup_cons_iff in NDt as [HVvr NDvr].
  assert (HVc : ~ In (f vk) (cidl cv)).
  { apply Hdisj. left. reflexivity. }
  assert (Hvrc : forall i, In i (idl f vr) -> ~ In i (cidl cv)).
  { intros i Hi. apply Hdisj. right. exact Hi. }
  destruct (store_cref_ctx s root cv (Some (f vk)) (tptr vr) Hc Hroot NDc) as (s1 & root1 & E1 & Hc1 & Hroot1 & F1).
  rewrite E1. simp.
  assert (HV1 : PM.find (f vk) s1 = PM.find (f vk) s).
  { apply F1. intros Heq. symmetry in Heq. apply cpar_in in Heq. contradiction. }
  rewrite HV in HV1. rewrite (get_right_ok _ _ _ _ HV1). simp.
  assert (Hvr1 : rep s1 vr (Some (f vk))).
  { eapply rep_frame; [|exact Hvr]. intros i Hi. apply F1. intros Heq. symmetry in Heq.
    apply cpar_in in Heq. exact (Hvrc i Hi Heq). }
  assert (Hfix : (match tptr vr with
                  | None => Ok (mkState s1 root1)
                  | Some _ => vp <- get_parent (mkState s1 root1) (Some (f vk)) ;;
                              set_parent (mkState s1 root1) (tptr vr) vp
                  end) = set_parent_if (mkState s1 root1) (tptr vr) (cpar cv)).
  { destruct (tptr vr); [|reflexivity]. rewrite (get_parent_ok _ _ _ _ HV1). reflexivity. }
  rewrite Hfix. clear Hfix.
  destruct (set_parent_tptr s1 root1 vr (Some (f vk)) (cpar cv) Hvr1 NDvr) as (s2 & E2 & Hvr2 & F2).
  rewrite E2. simp. exists s2, root1. split; [reflexivity|].
  assert (Hnr : forall i, ~ In i (idl f vr) -> Some i <> tptr vr).
  { intros i Hi Heq. symmetry in Heq. apply in_tptr_idl in Heq. contradiction. }
  split; [|split].
  - unfold AvlPtrRep.zrep. cbn [st_store st_root]. split; [exact Hvr2|]. split; [|exact Hroot1].
    eapply repc_frame; [|exact Hc1]. intros i Hi. apply F2. apply Hnr. intros Hi2. exact (Hvrc i Hi2 Hi).
  - rewrite F2 by (apply Hnr; exact HVvr). exact HV1.
  - intros i Hi1 Hi2. rewrite F2 by (apply Hnr; exact Hi1). apply F1.
    intros Heq. symmetry in Heq. apply cpar_in in Heq. contradiction.
Qed.

(* ---- the victim V (an unlinked node) takes the place of node k ---- *)
Lemma swap_in_z s root l k h r c vk recV :
  zrep (mkState s root) (N l k h r) c ->
  NoDup (idl f (N l k h r) ++ cidl c) ->
  PM.find (f vk) s = Some recV -> n_key recV = vk ->
  ~ In (f vk) (idl f (N l k h r)) -> ~ In (f vk) (cidl c) ->
  exists s' root',
    swap_in (mkState s root) (Some (f k)) (Some (f vk)) = Ok (mkState s' root')
    /\ zrep (mkState s' root') (N l vk h r) c
    /\ (forall i, i <> f vk -> ~ In i (idl f (N l k h r)) -> ~ In i (cidl c) ->
        PM.find i s' = PM.find i s).
Proof.
  intros Hz ND HV HVk HVt HVc. unfold swap_in.
  pose proof (replace_reference_z s root (N l k h r) c (Some (f vk)) ltac:(discriminate) Hz ND) as RR.
  cbn [AvlPtrRep.tptr] in RR. rewrite RR. clear RR.
  pose proof Hz as (Hr & Hc & Hroot). cbn [st_store st_root AvlPtrRep.rep AvlPtrRep.tptr] in Hr, Hc, Hroot.
  destruct Hr as (Hk & Hl & Hrr).
  pose proof (nodup_app_r _ _ ND) as NDc.
  pose proof (nodup_app_l _ _ ND) as NDt.
  pose proof (nodup_app_disj _ _ ND) as Hdisj.
  destruct (store_cref_ctx s root c (Some (f k)) (Some (f vk)) Hc Hroot NDc) as (s1 & root1 & E1 & Hc1 & Hroot1 & F1).
  rewrite E1. simp'.
  assert (Hnc : forall i, ~ In i (cidl c) -> Some i <> cpar c).
  { intros i Hi Heq. symmetry in Heq. apply cpar_in in Heq. contradiction. }
  assert (Hkc : ~ In (f k) (cidl c)).
  { apply Hdisj. apply in_map. cbn [inorder]. apply in_or_app. right. left. reflexivity. }
  assert (Hk1 : PM.find (f k) s1 = Some (mkNode (tptr l) (tptr r) (cpar c) h k)).
  { rewrite F1 by (apply Hnc; exact Hkc). exact Hk. }
  assert (HV1 : PM.find (f vk) s1 = Some recV).
  { rewrite F1 by (apply Hnc; exact HVc). exact HV. }
  cbn [inorder] in NDt, HVt, Hdisj. rewrite map_app in NDt, HVt, Hdisj. cbn [map] in NDt, HVt, Hdisj.
  rewrite in_app_iff in HVt. cbn [In] in HVt.
  assert (HVk' : f k <> f vk) by tauto.
  assert (HVl : ~ In (f vk) (idl f l)) by tauto.
  assert (HVr : ~ In (f vk) (idl f r)) by tauto.
  pose proof NDt as NDt'. nd_facts NDt'.
  pose proof (nodup_app_l _ _ NDt) as NDl.
  pose proof (nodup_app_r _ _ NDt) as NDr. apply NoDup_cons_iff in NDr as [_ NDr].
  assert (Hlr : forall i, In i (idl f l) -> ~ In i (idl f r)).
  { intros i Hi Hi2. apply (nodup_app_disj _ _ NDt i Hi). right. exact Hi2. }
  rewrite (get_left_ok _ _ _ _ Hk1). simp'.
  rewrite (set_left_ok _ _ _ _ _ HV1). simp'.
  erewrite get_right_ok by (rewrite PM.gso by neq; exact Hk1). simp'.
  erewrite set_right_ok by apply PM.gss. simp'.
  erewrite get_parent_ok by (rewrite !PM.gso by neq; exact Hk1). simp'.
  erewrite set_parent_ok by apply PM.gss. simp'.
  erewrite get_height_ok by (rewrite !PM.gso by neq; exact Hk1). simp'.
  erewrite set_height_ok by apply PM.gss. simp'.
  erewrite get_left_ok by apply PM.gss. simp'.
  set (s5 := PM.add (f vk) _ _).
  assert (F5 : forall i, i <> f vk -> PM.find i s5 = PM.find i s1).
  { intros i Hi. unfold s5. rewrite !PM.gso by exact Hi. reflexivity. }
  assert (HV5 : PM.find (f vk) s5 = Some (mkNode (tptr l) (tptr r) (cpar c) h vk)).
  { unfold s5. rewrite PM.gss. rewrite HVk. reflexivity. }
  assert (Hl5 : rep s5 l (Some (f k))).
  { eapply rep_frame; [|exact Hl]. intros i Hi. rewrite F5 by (intros ->; contradiction).
    apply F1. apply Hnc. apply Hdisj. apply in_or_app. left. exact Hi. }
  assert (Hr5 : rep s5 r (Some (f k))).
  { eapply rep_frame; [|exact Hrr]. intros i Hi. rewrite F5 by (intros ->; contradiction).
    apply F1. apply Hnc. apply Hdisj. apply in_or_app. right. right. exact Hi. }
  destruct (set_parent_tptr s5 root1 l (Some (f k)) (Some (f vk)) Hl5 NDl) as (s6 & E6 & Hl6 & F6).
  rewrite E6. simp'.
  assert (Hnl : forall i, ~ In i (idl f l) -> Some i <> tptr l).
  { intros i Hi Heq. symmetry in Heq. apply in_tptr_idl in Heq. contradiction. }
  assert (HV6 : PM.find (f vk) s6 = Some (mkNode (tptr l) (tptr r) (cpar c) h vk)).
  { rewrite F6 by (apply Hnl; exact HVl). exact HV5. }
  rewrite (get_right_ok _ _ _ _ HV6). simp'.
  assert (Hr6 : rep s6 r (Some (f k))).
  { eapply rep_frame; [|exact Hr5]. intros i Hi. apply F6. apply Hnl. intros Hi2. exact (Hlr i Hi2 Hi). }
  destruct (set_parent_tptr s6 root1 r (Some (f k)) (Some (f vk)) Hr6 NDr) as (s7 & E7 & Hr7 & F7).
  rewrite E7. exists s7, root1. split; [reflexivity|].
  assert (Hnrr : forall i, ~ In i (idl f r) -> Some i <> tptr r).
  { intros i Hi Heq. symmetry in Heq. apply in_tptr_idl in Heq. contradiction. }
  split.
  - unfold AvlPtrRep.zrep. cbn [st_store st_root AvlPtrRep.rep AvlPtrRep.tptr].
    split; [split; [|split]|split].
    + rewrite F7 by (apply Hnrr; exact HVr). exact HV6.
    + eapply rep_frame; [|exact Hl6]. intros i Hi. apply F7. apply Hnrr. exact (Hlr i Hi).
    + exact Hr7.
    + eapply repc_frame; [|exact Hc1]. intros i Hi.
      assert (Hit : ~ In i (idl f l ++ f k :: idl f r)).
      { intros Hi2. exact (Hdisj i Hi2 Hi). }
      rewrite in_app_iff in Hit. cbn [In] in Hit.
      rewrite F7 by (apply Hnrr; tauto). rewrite F6 by (apply Hnl; tauto).
      apply F5. intros ->. contradiction.
    + exact Hroot1.
  - intros i Hi1 Hi2 Hi3. cbn [inorder] in Hi2. rewrite map_app in Hi2. cbn [map] in Hi2.
    rewrite in_app_iff in Hi2. cbn [In] in Hi2.
    rewrite F7 by (apply Hnrr; tauto). rewrite F6 by (apply Hnl; tauto).
    rewrite F5 by exact Hi1. apply F1. apply Hnc. exact Hi3.
Qed.

End Del.
