(* AvlProofs.v -- proofs about the AVL model (property C16).
   Insert / delete / traversal / height / monitor / histories. *)

From Coq Require Import List ZArith Bool Lia.
From Ivv Require Import Avl.AvlModel.
From Ivv Require Export Avl.AvlBasics Avl.AvlRebalance.
Import ListNotations.
Local Open Scope Z_scope.

(* ------------------------------------------------------------------ *)
(* insert                                                              *)
(* ------------------------------------------------------------------ *)

Lemma insert_go_ok : forall t c k,
  avl t -> ctx_ok (ht t) c -> sorted (inorder t) -> ~ In k (inorder t) ->
  exists t', insert_go k t c = Some t' /\ avl t' /\
             inorder t' = ctx_left c ++ ins_sorted k (inorder t) ++ ctx_right c.
Proof.
  induction t as [|l IHl k' h r IHr]; intros c k Ht Hc Hs Hn.
  - cbn [insert_go inorder ins_sorted].
    assert (Hleaf : avl (N E k 1 E)) by (constructor; try constructor; cbn [ht]; lia).
    cbn [ht] in Hc.
    assert (Hd : -1 <= ht (N E k 1 E) - 0 <= 1) by (cbn [ht]; lia).
    destruct (rebalance_from_ok c _ 0 Hc Hleaf Hd) as [A1 A2].
    eexists. split; [reflexivity|]. split; [exact A1|].
    rewrite A2, inorder_plug. reflexivity.
  - inversion Ht as [|l0 k0 h0 r0 Hl Hr Hh Hb Heq]; subst l0 k0 h0 r0.
    cbn [inorder] in Hs, Hn |- *.
    pose proof (sorted_mid _ _ _ Hs) as (Hsl & Hsr & Hlk & Hkr & Hlr).
    cbn [insert_go ht] in *.
    destruct (Z.ltb_spec k k') as [Hlt|Hge].
    + destruct (IHl (FL k' h r :: c) k Hl) as (t' & E1 & E2 & E3).
      * cbn [ctx_ok]. repeat split; auto; lia.
      * exact Hsl.
      * intros Hin. apply Hn. apply in_or_app. left. exact Hin.
      * exists t'. split; [exact E1|]. split; [exact E2|].
        rewrite E3. cbn [ctx_left ctx_right].
        rewrite ins_sorted_app_l by exact Hlt.
        rewrite <- !app_assoc. reflexivity.
    + destruct (Z.ltb_spec k' k) as [Hgt|Hle].
      * destruct (IHr (FR l k' h :: c) k Hr) as (t' & E1 & E2 & E3).
        -- cbn [ctx_ok]. repeat split; auto; lia.
        -- exact Hsr.
        -- intros Hin. apply Hn. apply in_or_app. right. right. exact Hin.
        -- exists t'. split; [exact E1|]. split; [exact E2|].
           rewrite E3. cbn [ctx_left ctx_right].
           replace (inorder l ++ k' :: inorder r) with ((inorder l ++ [k']) ++ inorder r)
             by (rewrite <- app_assoc; reflexivity).
           rewrite ins_sorted_app_r.
           ++ rewrite <- !app_assoc. reflexivity.
           ++ intros x Hx. apply in_app_or in Hx. destruct Hx as [Hx|[Hx|[]]].
              ** specialize (Hlk x Hx). lia.
              ** subst x. exact Hgt.
      * exfalso. apply Hn. apply in_or_app. right. left. lia.
Qed.

Lemma insert_go_dup : forall t c k,
  sorted (inorder t) -> In k (inorder t) -> insert_go k t c = None.
Proof.
  induction t as [|l IHl k' h r IHr]; intros c k Hs Hin.
  - destruct Hin.
  - cbn [inorder] in Hs, Hin.
    pose proof (sorted_mid _ _ _ Hs) as (Hsl & Hsr & Hlk & Hkr & Hlr).
    cbn [insert_go].
    apply in_app_or in Hin.
    destruct (Z.ltb_spec k k') as [Hlt|Hge].
    + apply IHl; [exact Hsl|].
      destruct Hin as [Hin|[Hin|Hin]]; [exact Hin | lia | specialize (Hkr k Hin); lia].
    + destruct (Z.ltb_spec k' k) as [Hgt|Hle]; [|reflexivity].
      apply IHr; [exact Hsr|].
      destruct Hin as [Hin|[Hin|Hin]]; [specialize (Hlk k Hin); lia | lia | exact Hin].
Qed.

Lemma avl_insert_fresh :
  forall t k, avl t /\ sorted (inorder t) -> ~ In k (inorder t) ->
    exists t', insert k t = Some t' /\ (avl t' /\ sorted (inorder t')) /\
               inorder t' = ins_sorted k (inorder t).
Proof.
  intros t k [Ht Hs] Hn. unfold insert.
  destruct (insert_go_ok t [] k Ht I Hs Hn) as (t' & E1 & E2 & E3).
  cbn [ctx_left ctx_right app] in E3. rewrite app_nil_r in E3.
  exists t'. split; [exact E1|]. split; [|exact E3].
  split; [exact E2|]. rewrite E3. apply sorted_ins_sorted; assumption.
Qed.

Lemma avl_insert_duplicate :
  forall t k, avl t /\ sorted (inorder t) -> In k (inorder t) ->
    insert k t = None /\ step t (Ins k) = (t, -1).
Proof.
  intros t k [Ht Hs] Hin.
  assert (H : insert k t = None) by (apply insert_go_dup; assumption).
  split; [exact H|]. cbn [step]. rewrite H. reflexivity.
Qed.

(* ------------------------------------------------------------------ *)
(* delete                                                              *)
(* ------------------------------------------------------------------ *)

Lemma find_ok : forall t c k,
  avl t -> ctx_ok (ht t) c -> sorted (inorder t) -> In k (inorder t) ->
  exists l h r c', find k t c = Some (N l k h r, c') /\
                   avl (N l k h r) /\ ctx_ok h c' /\
                   plug (N l k h r) c' = plug t c.
Proof.
  induction t as [|l IHl k' h r IHr]; intros c k Ht Hc Hs Hin.
  - destruct Hin.
  - inversion Ht as [|l0 k0 h0 r0 Hl Hr Hh Hb Heq]; subst l0 k0 h0 r0.
    cbn [inorder] in Hs, Hin.
    pose proof (sorted_mid _ _ _ Hs) as (Hsl & Hsr & Hlk & Hkr & Hlr).
    cbn [find ht] in *.
    apply in_app_or in Hin.
    destruct (Z.ltb_spec k k') as [Hlt|Hge].
    + destruct (IHl (FL k' h r :: c) k Hl) as (l1 & h1 & r1 & c1 & E1 & E2 & E3 & E4).
      * cbn [ctx_ok]. repeat split; auto; lia.
      * exact Hsl.
      * destruct Hin as [Hin|[Hin|Hin]]; [exact Hin | lia | specialize (Hkr k Hin); lia].
      * exists l1, h1, r1, c1. repeat split; auto.
    + destruct (Z.ltb_spec k' k) as [Hgt|Hle].
      * destruct (IHr (FR l k' h :: c) k Hr) as (l1 & h1 & r1 & c1 & E1 & E2 & E3 & E4).
        -- cbn [ctx_ok]. repeat split; auto; lia.
        -- exact Hsr.
        -- destruct Hin as [Hin|[Hin|Hin]]; [specialize (Hlk k Hin); lia | lia | exact Hin].
        -- exists l1, h1, r1, c1. repeat split; auto.
      * assert (k = k') by lia. subst k'.
        exists l, h, r, c. repeat split; auto.
Qed.

Lemma find_absent : forall t c k, ~ In k (inorder t) -> find k t c = None.
Proof.
  induction t as [|l IHl k' h r IHr]; intros c k Hn.
  - reflexivity.
  - cbn [find inorder] in *.
    destruct (Z.ltb_spec k k') as [Hlt|Hge].
    + apply IHl. intros Hin. apply Hn. apply in_or_app. left. exact Hin.
    + destruct (Z.ltb_spec k' k) as [Hgt|Hle].
      * apply IHr. intros Hin. apply Hn. apply in_or_app. right. right. exact Hin.
      * exfalso. apply Hn. apply in_or_app. right. left. lia.
Qed.

(* The walk to the maximum of (N l k h r): the victim is a node
   N vl vk vh E hanging in c2. *)
Lemma split_max_ok : forall r l k h c1 vl vk c2,
  split_max l k h r c1 = (vl, vk, c2) ->
  avl (N l k h r) ->
  exists vh,
    plug (N vl vk vh E) c2 = plug (N l k h r) c1 /\
    ctx_right c2 = ctx_right c1 /\
    avl vl /\ vh = 1 + ht vl /\
    (forall cout, ctx_ok h (c1 ++ cout) -> ctx_ok vh (c2 ++ cout)).
Proof.
  induction r as [|rl IHrl rk rh rr IHrr]; intros l k h c1 vl vk c2 Hsp Ht.
  - cbn [split_max] in Hsp. inversion Hsp; subst vl vk c2.
    inversion Ht as [|l0 k0 h0 r0 Hl Hr Hh Hb Heq]; subst l0 k0 h0 r0.
    pose proof (avl_ht_nonneg _ Hl) as Hl0. cbn [ht] in *.
    exists h. repeat split; auto. lia.
  - cbn [split_max] in Hsp.
    inversion Ht as [|l0 k0 h0 r0 Hl Hr Hh Hb Heq]; subst l0 k0 h0 r0.
    destruct (IHrr rl rk rh (FR l k h :: c1) vl vk c2 Hsp Hr)
      as (vh & E1 & E2 & E3 & E4 & E5).
    exists vh. repeat split; auto.
    intros cout Hc. apply E5. cbn [app ctx_ok]. cbn [ht] in *.
    repeat split; auto; lia.
Qed.

Lemma split_min_ok : forall l k h r c1 vr vk c2,
  split_min l k h r c1 = (vr, vk, c2) ->
  avl (N l k h r) ->
  exists vh,
    plug (N E vk vh vr) c2 = plug (N l k h r) c1 /\
    ctx_left c2 = ctx_left c1 /\
    avl vr /\ vh = 1 + ht vr /\
    (forall cout, ctx_ok h (c1 ++ cout) -> ctx_ok vh (c2 ++ cout)).
Proof.
  induction l as [|ll IHll lk lh lr IHlr]; intros k h r c1 vr vk c2 Hsp Ht.
  - cbn [split_min] in Hsp. inversion Hsp; subst vr vk c2.
    inversion Ht as [|l0 k0 h0 r0 Hl Hr Hh Hb Heq]; subst l0 k0 h0 r0.
    pose proof (avl_ht_nonneg _ Hr) as Hr0. cbn [ht] in *.
    exists h. repeat split; auto. lia.
  - cbn [split_min] in Hsp.
    inversion Ht as [|l0 k0 h0 r0 Hl Hr Hh Hb Heq]; subst l0 k0 h0 r0.
    destruct (IHll lk lh lr (FL k h r :: c1) vr vk c2 Hsp Hl)
      as (vh & E1 & E2 & E3 & E4 & E5).
    exists vh. repeat split; auto.
    intros cout Hc. apply E5. cbn [app ctx_ok]. cbn [ht] in *.
    repeat split; auto; lia.
Qed.

Lemma ctx_left_app c1 c2 : ctx_left (c1 ++ c2) = ctx_left c2 ++ ctx_left c1.
Proof.
  induction c1 as [|[k h r|l k h] c1 IH]; cbn [app ctx_left].
  - rewrite app_nil_r. reflexivity.
  - exact IH.
  - rewrite IH. rewrite <- !app_assoc. reflexivity.
Qed.

Lemma avl_ht_pos l k h r : avl (N l k h r) -> 1 <= h.
Proof.
  intros H. inversion H as [|l0 k0 h0 r0 Hl Hr Hh Hb Heq]; subst.
  pose proof (avl_ht_nonneg _ Hl). pose proof (avl_ht_nonneg _ Hr). lia.
Qed.

Lemma delete_at_ok l k h r c :
  avl (N l k h r) -> ctx_ok h c ->
  avl (delete_at (N l k h r) c) /\
  inorder (delete_at (N l k h r) c) =
    ctx_left c ++ (inorder l ++ inorder r) ++ ctx_right c.
Proof.
  intros Ht Hc.
  inversion Ht as [|l0 k0 h0 r0 Hl Hr Hh Hb Heq]; subst l0 k0 h0 r0.
  pose proof (avl_ht_nonneg _ Hl) as Hl0.
  pose proof (avl_ht_nonneg _ Hr) as Hr0.
  assert (Hleaf : l = E /\ r = E \/
                  (ht r < ht l /\ exists ll lk lh lr, l = N ll lk lh lr) \/
                  (ht l <= ht r /\ exists rl rk rh rr, r = N rl rk rh rr)).
  { destruct l as [|ll lk lh lr], r as [|rl rk rh rr]; cbn [ht] in *.
    - left. auto.
    - right. right. split; [lia|]. eauto.
    - right. left. pose proof (avl_ht_pos _ _ _ _ Hl). split; [lia|]. eauto.
    - destruct (Z.lt_ge_cases rh lh).
      + right. left. split; [lia|]. eauto.
      + right. right. split; [lia|]. eauto. }
  destruct Hleaf as [[-> ->] | [[Hlt (ll & lk & lh & lr & ->)] | [Hle (rl & rk & rh & rr & ->)]]].
  - (* leaf *)
    cbn [delete_at inorder app]. cbn [ht] in Hh.
    assert (Hd : -1 <= ht E - h <= 1) by (cbn [ht]; lia).
    destruct (rebalance_from_ok c E h Hc avl_E Hd) as [A1 A2].
    split; [exact A1|]. rewrite A2, inorder_plug. reflexivity.
  - (* victim = max of left subtree *)
    assert (Hdel : delete_at (N (N ll lk lh lr) k h r) c =
                   let '(vl, vk, c2) := split_max ll lk lh lr [] in
                   rebalance_from (c2 ++ FL vk h r :: c) vl).
    { cbn [delete_at]. destruct (Z.ltb_spec (ht r) (ht (N ll lk lh lr))) as [_|Hge]; [|lia].
      destruct r; reflexivity. }
    rewrite Hdel. clear Hdel.
    destruct (split_max ll lk lh lr []) as [[vl vk] c2] eqn:Hsp.
    destruct (split_max_ok _ _ _ _ _ _ _ _ Hsp Hl) as (vh & E1 & E2 & E3 & E4 & E5).
    cbn [plug ctx_right] in E1, E2.
    assert (Hc2 : ctx_ok vh (c2 ++ FL vk h r :: c)).
    { apply E5. cbn [app ctx_ok]. cbn [ht] in *. repeat split; auto; lia. }
    assert (Hd : -1 <= ht vl - vh <= 1) by lia.
    destruct (rebalance_from_ok _ vl vh Hc2 E3 Hd) as [A1 A2].
    split; [exact A1|]. rewrite A2.
    rewrite plug_app. cbn [plug fill]. rewrite inorder_plug.
    assert (Hl_in : inorder (N ll lk lh lr) = inorder (plug vl c2) ++ [vk]).
    { rewrite <- E1. rewrite !inorder_plug. rewrite E2. cbn [inorder].
      rewrite !app_nil_r. rewrite <- !app_assoc. reflexivity. }
    rewrite Hl_in. cbn [inorder]. rewrite <- !app_assoc. reflexivity.
  - (* victim = min of right subtree *)
    assert (Hdel : delete_at (N l k h (N rl rk rh rr)) c =
                   let '(vr, vk, c2) := split_min rl rk rh rr [] in
                   rebalance_from (c2 ++ FR l vk h :: c) vr).
    { cbn [delete_at]. destruct (Z.ltb_spec (ht (N rl rk rh rr)) (ht l)) as [Hl'|_]; [lia|].
      destruct l; reflexivity. }
    rewrite Hdel. clear Hdel.
    destruct (split_min rl rk rh rr []) as [[vr vk] c2] eqn:Hsp.
    destruct (split_min_ok _ _ _ _ _ _ _ _ Hsp Hr) as (vh & E1 & E2 & E3 & E4 & E5).
    cbn [plug ctx_left] in E1, E2.
    assert (Hc2 : ctx_ok vh (c2 ++ FR l vk h :: c)).
    { apply E5. cbn [app ctx_ok]. cbn [ht] in *. repeat split; auto; lia. }
    assert (Hd : -1 <= ht vr - vh <= 1) by lia.
    destruct (rebalance_from_ok _ vr vh Hc2 E3 Hd) as [A1 A2].
    split; [exact A1|]. rewrite A2.
    rewrite plug_app. cbn [plug fill]. rewrite inorder_plug.
    assert (Hr_in : inorder (N rl rk rh rr) = vk :: inorder (plug vr c2)).
    { rewrite <- E1. rewrite !inorder_plug. rewrite E2. cbn [inorder app].
      reflexivity. }
    rewrite Hr_in. cbn [inorder]. rewrite <- !app_assoc. reflexivity.
Qed.

Lemma avl_delete_present :
  forall t k, avl t /\ sorted (inorder t) -> In k (inorder t) ->
    exists t', delete k t = Some t' /\ (avl t' /\ sorted (inorder t')) /\
               inorder t' = remove Z.eq_dec k (inorder t).
Proof.
  intros t k [Ht Hs] Hin. unfold delete.
  destruct (find_ok t [] k Ht I Hs Hin) as (l & h & r & c & E1 & E2 & E3 & E4).
  rewrite E1. eexists. split; [reflexivity|].
  destruct (delete_at_ok l k h r c E2 E3) as [A1 A2].
  cbn [plug] in E4.
  assert (Hino : inorder t = (ctx_left c ++ inorder l) ++ k :: (inorder r ++ ctx_right c)).
  { rewrite <- E4, inorder_plug. cbn [inorder]. rewrite <- !app_assoc. reflexivity. }
  assert (Hres : inorder (delete_at (N l k h r) c) =
                 (ctx_left c ++ inorder l) ++ (inorder r ++ ctx_right c)).
  { rewrite A2. rewrite <- !app_assoc. reflexivity. }
  rewrite Hino in Hs |- *.
  split; [split; [exact A1|]|].
  - rewrite Hres. eapply sorted_drop_mid. exact Hs.
  - rewrite Hres. symmetry. apply remove_sorted_mid. exact Hs.
Qed.

Lemma delete_absent t k : ~ In k (inorder t) -> delete k t = None.
Proof.
  intros Hn. unfold delete. rewrite find_absent by exact Hn. reflexivity.
Qed.

(* ------------------------------------------------------------------ *)
(* traversal                                                           *)
(* ------------------------------------------------------------------ *)

Definition wf_opt (o : option loc) : Prop :=
  match o with None => True | Some p => fst p <> E end.

(* keys at and after a location, in order *)
Definition after (o : option loc) : list Z :=
  match o with
  | None => []
  | Some (t, c) =>
      match t with
      | E => []
      | N _ k _ r => k :: inorder r ++ ctx_right c
      end
  end.

Lemma leftmost_spec : forall t c, t <> E ->
  wf_opt (leftmost t c) /\ after (leftmost t c) = inorder t ++ ctx_right c.
Proof.
  induction t as [|l IHl k h r IHr]; intros c Hne.
  - congruence.
  - cbn [leftmost]. destruct l as [|ll lk lh lr].
    + cbn [wf_opt fst after inorder app]. split; [congruence | reflexivity].
    + destruct (IHl (FL k h r :: c)) as [W A]; [congruence|].
      split; [exact W|]. rewrite A. cbn [ctx_right].
      change (inorder (N (N ll lk lh lr) k h r))
        with (inorder (N ll lk lh lr) ++ k :: inorder r).
      rewrite <- !app_assoc. reflexivity.
Qed.

Lemma up_while_right_spec : forall c t, t <> E ->
  wf_opt (up_while_right t c) /\ after (up_while_right t c) = ctx_right c.
Proof.
  induction c as [|[k h r|l k h] c IH]; intros t Hne; cbn [up_while_right ctx_right].
  - split; [exact I | reflexivity].
  - cbn [wf_opt fst after]. split; [congruence | reflexivity].
  - apply IH. congruence.
Qed.

Lemma next_spec l k h r c :
  wf_opt (next (N l k h r, c)) /\
  after (next (N l k h r, c)) = inorder r ++ ctx_right c.
Proof.
  cbn [next]. destruct r as [|rl rk rh rr].
  - cbn [inorder app]. apply up_while_right_spec. congruence.
  - destruct (leftmost_spec (N rl rk rh rr) (FR l k h :: c)) as [W A]; [congruence|].
    split; [exact W|]. rewrite A. reflexivity.
Qed.

Lemma iter_next_spec : forall fuel p,
  wf_opt p -> iter_next fuel p = firstn fuel (after p).
Proof.
  induction fuel as [|f IH]; intros p W.
  - destruct p; reflexivity.
  - destruct p as [[t c]|]; [|reflexivity].
    cbn [wf_opt fst] in W. destruct t as [|l k h r]; [congruence|].
    cbn [iter_next key_of fst after firstn].
    destruct (next_spec l k h r c) as [W' A'].
    rewrite IH by exact W'. rewrite A'. reflexivity.
Qed.

Lemma length_inorder t : length (inorder t) = size t.
Proof.
  induction t as [|l IHl k h r IHr]; cbn [inorder size length].
  - reflexivity.
  - rewrite app_length. cbn [length]. rewrite IHl, IHr. lia.
Qed.

Lemma forward_inorder t : forward t = inorder t.
Proof.
  unfold forward, tree_min. destruct t as [|l k h r] eqn:Et.
  - reflexivity.
  - rewrite <- Et.
    destruct (leftmost_spec t []) as [W A]; [subst t; congruence|].
    rewrite iter_next_spec by exact W. rewrite A. cbn [ctx_right].
    rewrite app_nil_r. rewrite <- length_inorder. apply firstn_all.
Qed.

(* keys to the left of the hole, in reverse order *)
Fixpoint ctx_lrev (c : ctx) : list Z :=
  match c with
  | [] => []
  | FL _ _ _ :: c' => ctx_lrev c'
  | FR l k _ :: c' => k :: rev (inorder l) ++ ctx_lrev c'
  end.

Definition before (o : option loc) : list Z :=
  match o with
  | None => []
  | Some (t, c) =>
      match t with
      | E => []
      | N l k _ _ => k :: rev (inorder l) ++ ctx_lrev c
      end
  end.

Lemma rev_inorder_N l k h r :
  rev (inorder (N l k h r)) = rev (inorder r) ++ k :: rev (inorder l).
Proof.
  cbn [inorder]. rewrite rev_app_distr. cbn [rev]. rewrite <- app_assoc. reflexivity.
Qed.

Lemma rightmost_spec : forall t c, t <> E ->
  wf_opt (rightmost t c) /\ before (rightmost t c) = rev (inorder t) ++ ctx_lrev c.
Proof.
  induction t as [|l IHl k h r IHr]; intros c Hne.
  - congruence.
  - cbn [rightmost]. destruct r as [|rl rk rh rr].
    + cbn [wf_opt fst before]. split; [congruence|].
      rewrite rev_inorder_N. reflexivity.
    + destruct (IHr (FR l k h :: c)) as [W A]; [congruence|].
      split; [exact W|]. rewrite A. cbn [ctx_lrev].
      rewrite (rev_inorder_N l k h). rewrite <- !app_assoc. reflexivity.
Qed.

Lemma up_while_left_spec : forall c t, t <> E ->
  wf_opt (up_while_left t c) /\ before (up_while_left t c) = ctx_lrev c.
Proof.
  induction c as [|[k h r|l k h] c IH]; intros t Hne; cbn [up_while_left ctx_lrev].
  - split; [exact I | reflexivity].
  - apply IH. congruence.
  - cbn [wf_opt fst before]. split; [congruence | reflexivity].
Qed.

Lemma prev_spec l k h r c :
  wf_opt (prev (N l k h r, c)) /\
  before (prev (N l k h r, c)) = rev (inorder l) ++ ctx_lrev c.
Proof.
  cbn [prev]. destruct l as [|ll lk lh lr].
  - cbn [inorder rev app]. apply up_while_left_spec. congruence.
  - destruct (rightmost_spec (N ll lk lh lr) (FL k h r :: c)) as [W A]; [congruence|].
    split; [exact W|]. rewrite A. reflexivity.
Qed.

Lemma iter_prev_spec : forall fuel p,
  wf_opt p -> iter_prev fuel p = firstn fuel (before p).
Proof.
  induction fuel as [|f IH]; intros p W.
  - destruct p; reflexivity.
  - destruct p as [[t c]|]; [|reflexivity].
    cbn [wf_opt fst] in W. destruct t as [|l k h r]; [congruence|].
    cbn [iter_prev key_of fst before firstn].
    destruct (prev_spec l k h r c) as [W' A'].
    rewrite IH by exact W'. rewrite A'. reflexivity.
Qed.

Lemma backward_inorder t : backward t = rev (inorder t).
Proof.
  unfold backward, tree_max. destruct t as [|l k h r] eqn:Et.
  - reflexivity.
  - rewrite <- Et.
    destruct (rightmost_spec t []) as [W A]; [subst t; congruence|].
    rewrite iter_prev_spec by exact W. rewrite A. cbn [ctx_lrev].
    rewrite app_nil_r. rewrite <- length_inorder, <- rev_length. apply firstn_all.
Qed.

Lemma avl_traversal :
  forall t, avl t /\ sorted (inorder t) ->
    forward t = inorder t /\ backward t = rev (inorder t).
Proof.
  intros t _. split; [apply forward_inorder | apply backward_inorder].
Qed.

(* ------------------------------------------------------------------ *)
(* logarithmic height                                                  *)
(* ------------------------------------------------------------------ *)

Lemma fibZ_SS n : fibZ (S (S n)) = fibZ (S n) + fibZ n.
Proof. reflexivity. Qed.

Lemma fibZ_nonneg_step : forall n, 0 <= fibZ n /\ fibZ n <= fibZ (S n).
Proof.
  induction n as [|n [IH1 IH2]].
  - cbn. lia.
  - rewrite fibZ_SS. lia.
Qed.

Lemma fibZ_mono : forall n m, (n <= m)%nat -> fibZ n <= fibZ m.
Proof.
  intros n m H. induction H as [|m H IH].
  - lia.
  - pose proof (fibZ_nonneg_step m). lia.
Qed.

Lemma avl_height_fib :
  forall t, avl t -> fibZ (Z.to_nat (ht t) + 2) - 1 <= Z.of_nat (size t).
Proof.
  intros t H. induction H as [|l k h r Hl IHl Hr IHr Hh Hb].
  - cbn. lia.
  - pose proof (avl_ht_nonneg _ Hl) as Hl0.
    pose proof (avl_ht_nonneg _ Hr) as Hr0.
    cbn [ht size].
    remember (Z.to_nat (ht l)) as nl eqn:Enl.
    remember (Z.to_nat (ht r)) as nr eqn:Enr.
    assert (Hcases : (Z.to_nat h = S nl /\ nl <= S nr)%nat \/
                     (Z.to_nat h = S nr /\ nr <= S nl)%nat) by lia.
    rewrite Nat2Z.inj_succ, Nat2Z.inj_add.
    destruct Hcases as [[Eh Hle]|[Eh Hle]]; rewrite Eh.
    + replace (S nl + 2)%nat with (S (S (S nl))) by lia.
      rewrite fibZ_SS.
      replace (nl + 2)%nat with (S (S nl)) in IHl by lia.
      pose proof (fibZ_mono (S nl) (nr + 2) ltac:(lia)) as Hm.
      lia.
    + replace (S nr + 2)%nat with (S (S (S nr))) by lia.
      rewrite fibZ_SS.
      replace (nr + 2)%nat with (S (S nr)) in IHr by lia.
      pose proof (fibZ_mono (S nr) (nl + 2) ltac:(lia)) as Hm.
      lia.
Qed.

(* ------------------------------------------------------------------ *)
(* boolean monitor                                                     *)
(* ------------------------------------------------------------------ *)

Lemma avl_b_spec t : avl_b t = true <-> avl t.
Proof.
  induction t as [|l IHl k h r IHr]; cbn [avl_b].
  - split; [constructor | reflexivity].
  - rewrite !andb_true_iff, Z.eqb_eq, !Z.leb_le, IHl, IHr. split.
    + intros [[[[Hl Hr] Hh] H1] H2]. constructor; auto.
    + intros H. inversion H; subst. repeat split; auto; lia.
Qed.

Lemma sorted_b_spec l : sorted_b l = true <-> sorted l.
Proof.
  induction l as [|x l IH].
  - cbn. tauto.
  - destruct l as [|y l'].
    + cbn. split; auto.
    + change (sorted_b (x :: y :: l')) with ((x <? y) && sorted_b (y :: l')).
      rewrite andb_true_iff, Z.ltb_lt, IH.
      change (sorted (x :: y :: l')) with (Forall (Z.lt x) (y :: l') /\ sorted (y :: l')).
      split.
      * intros [Hxy Hs]. split; [|exact Hs].
        constructor; [exact Hxy|]. destruct Hs as [Hf _].
        eapply Forall_impl; [|exact Hf]. intros z Hz. cbv beta in Hz. lia.
      * intros [Hf Hs]. split; [|exact Hs]. inversion Hf; assumption.
Qed.

Lemma inv_b_spec :
  forall t, inv_b t = true <-> avl t /\ sorted (inorder t).
Proof.
  intros t. unfold inv_b. rewrite andb_true_iff, avl_b_spec, sorted_b_spec. tauto.
Qed.

(* ------------------------------------------------------------------ *)
(* histories                                                           *)
(* ------------------------------------------------------------------ *)

Definition ref_step_l (s : list Z) (o : op) : list Z :=
  match o with
  | Ins k => if existsb (Z.eqb k) s then s else ins_sorted k s
  | Del k => remove Z.eq_dec k s
  end.

Lemma existsb_eqb_In k s : existsb (Z.eqb k) s = true <-> In k s.
Proof.
  rewrite existsb_exists. split.
  - intros (x & Hx & He). apply Z.eqb_eq in He. subst x. exact Hx.
  - intros H. exists k. split; [exact H | apply Z.eqb_refl].
Qed.

Lemma step_ok t o :
  avl t /\ sorted (inorder t) ->
  (avl (fst (step t o)) /\ sorted (inorder (fst (step t o)))) /\
  inorder (fst (step t o)) = ref_step_l (inorder t) o.
Proof.
  intros Hinv. destruct o as [k|k]; cbn [step ref_step_l].
  - destruct (existsb (Z.eqb k) (inorder t)) eqn:Ex.
    + apply existsb_eqb_In in Ex.
      destruct (avl_insert_duplicate t k Hinv Ex) as [H _]. rewrite H.
      cbn [fst]. split; [exact Hinv | reflexivity].
    + assert (Hn : ~ In k (inorder t)).
      { intros Hin. apply existsb_eqb_In in Hin. congruence. }
      destruct (avl_insert_fresh t k Hinv Hn) as (t' & E1 & E2 & E3).
      rewrite E1. cbn [fst]. split; [exact E2 | exact E3].
  - destruct (in_dec Z.eq_dec k (inorder t)) as [Hin|Hn].
    + destruct (avl_delete_present t k Hinv Hin) as (t' & E1 & E2 & E3).
      rewrite E1. cbn [fst]. split; [exact E2 | exact E3].
    + rewrite delete_absent by exact Hn. cbn [fst].
      split; [exact Hinv|]. symmetry. apply notin_remove. exact Hn.
Qed.

Lemma run_ok : forall ops t,
  avl t /\ sorted (inorder t) ->
  (avl (run ops t) /\ sorted (inorder (run ops t))) /\
  inorder (run ops t) = fold_left ref_step_l ops (inorder t).
Proof.
  induction ops as [|o ops IH]; intros t Hinv.
  - cbn. split; [exact Hinv | reflexivity].
  - destruct (step_ok t o Hinv) as [H1 H2].
    unfold run in *. cbn [fold_left]. rewrite <- H2. apply IH. exact H1.
Qed.

Lemma avl_history :
  forall ops : list op,
    (avl (run ops E) /\ sorted (inorder (run ops E))) /\
    inorder (run ops E) = fold_left ref_step_l ops [].
Proof.
  intros ops. apply (run_ok ops E). split; [constructor | exact I].
Qed.
