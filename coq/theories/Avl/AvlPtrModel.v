(* AvlPtrModel.v -- pointer-level executable model of /repo/src/iv_avl.c and of
   the inline helpers iv_avl_tree_min/max of src/include/iv_avl.h.
   Definitions only, no proofs.

   A store maps node ids (positive; NULL = None) to the five fields the C code
   sees of a node: left / right / parent / height of struct iv_avl_node and
   the key of the containing object (read only by tree->compare).  Every C
   function is transcribed statement by statement, field reads and writes in
   the order of the C text.  Dereferencing NULL is ErrNull, dereferencing an
   id that is not in the store (freed / never allocated) is ErrDangling, a
   loop that outlives its fuel is ErrFuel: never hidden behind a default.
   `struct iv_avl_node **` values (find_reference, the pp of insert, the _root
   of the rotations) are the type ref: the root field of the tree, or the
   left / right field of a node.

   Not modelled: the height field is uint8_t in C and a Z here (a tree of
   height 255 needs more than 2^176 nodes, see C16_height_log). *)

From Coq Require Import List ZArith Bool FMapPositive.
Import ListNotations.
Local Open Scope Z_scope.

Definition ptr : Type := option positive.          (* None = NULL *)

Record node : Type := mkNode {
  n_left : ptr;
  n_right : ptr;
  n_parent : ptr;
  n_height : Z;
  n_key : Z
}.

Definition store : Type := PositiveMap.t node.

(* struct iv_avl_tree: the root field (compare = comparison of the key fields) *)
Record state : Type := mkState { st_store : store; st_root : ptr }.

Inductive res (A : Type) : Type :=
| Ok (a : A)
| ErrNull                 (* NULL dereferenced *)
| ErrDangling             (* pointer to an object that is not in the store *)
| ErrFuel.                (* loop bound exhausted *)
Arguments Ok {A} a.
Arguments ErrNull {A}.
Arguments ErrDangling {A}.
Arguments ErrFuel {A}.

Definition bind {A B : Type} (r : res A) (f : A -> res B) : res B :=
  match r with
  | Ok a => f a
  | ErrNull => ErrNull
  | ErrDangling => ErrDangling
  | ErrFuel => ErrFuel
  end.

Notation "x <- e ;; f" := (bind e (fun x => f))
  (at level 61, e at next level, right associativity).

Definition ptr_eqb (a b : ptr) : bool :=
  match a, b with
  | None, None => true
  | Some x, Some y => Pos.eqb x y
  | _, _ => false
  end.

(* ---- field access: p->field ---- *)
Definition rd (s : store) (p : ptr) : res node :=
  match p with
  | None => ErrNull
  | Some i => match PositiveMap.find i s with Some n => Ok n | None => ErrDangling end
  end.

Definition upd (s : store) (p : ptr) (g : node -> node) : res store :=
  match p with
  | None => ErrNull
  | Some i => match PositiveMap.find i s with
              | Some n => Ok (PositiveMap.add i (g n) s)
              | None => ErrDangling
              end
  end.

Definition with_left (v : ptr) (n : node) : node := mkNode v (n_right n) (n_parent n) (n_height n) (n_key n).
Definition with_right (v : ptr) (n : node) : node := mkNode (n_left n) v (n_parent n) (n_height n) (n_key n).
Definition with_parent (v : ptr) (n : node) : node := mkNode (n_left n) (n_right n) v (n_height n) (n_key n).
Definition with_height (v : Z) (n : node) : node := mkNode (n_left n) (n_right n) (n_parent n) v (n_key n).

Definition get_left (st : state) (p : ptr) : res ptr := n <- rd (st_store st) p ;; Ok (n_left n).
Definition get_right (st : state) (p : ptr) : res ptr := n <- rd (st_store st) p ;; Ok (n_right n).
Definition get_parent (st : state) (p : ptr) : res ptr := n <- rd (st_store st) p ;; Ok (n_parent n).
Definition get_height (st : state) (p : ptr) : res Z := n <- rd (st_store st) p ;; Ok (n_height n).
Definition get_key (st : state) (p : ptr) : res Z := n <- rd (st_store st) p ;; Ok (n_key n).

Definition set_left (st : state) (p : ptr) (v : ptr) : res state :=
  s <- upd (st_store st) p (with_left v) ;; Ok (mkState s (st_root st)).
Definition set_right (st : state) (p : ptr) (v : ptr) : res state :=
  s <- upd (st_store st) p (with_right v) ;; Ok (mkState s (st_root st)).
Definition set_parent (st : state) (p : ptr) (v : ptr) : res state :=
  s <- upd (st_store st) p (with_parent v) ;; Ok (mkState s (st_root st)).
Definition set_height (st : state) (p : ptr) (v : Z) : res state :=
  s <- upd (st_store st) p (with_height v) ;; Ok (mkState s (st_root st)).

(* ---- struct iv_avl_node ** ---- *)
Inductive ref : Type :=
| RRoot                          (* &tree->root *)
| RLeft (p : positive)           (* &p->left *)
| RRight (p : positive).         (* &p->right *)

Definition load_ref (st : state) (r : ref) : res ptr :=
  match r with
  | RRoot => Ok (st_root st)
  | RLeft p => get_left st (Some p)
  | RRight p => get_right st (Some p)
  end.

Definition store_ref (st : state) (r : ref) (v : ptr) : res state :=
  match r with
  | RRoot => Ok (mkState (st_store st) v)
  | RLeft p => set_left st (Some p) v
  | RRight p => set_right st (Some p) v
  end.

(* static int height(const struct iv_avl_node *an) *)
Definition height (st : state) (an : ptr) : res Z :=
  match an with
  | None => Ok 0
  | Some _ => get_height st an
  end.

(* static void recalc_height(struct iv_avl_node *an) *)
Definition recalc_height (st : state) (an : ptr) : res state :=
  l <- get_left st an ;;
  hl <- height st l ;;
  r <- get_right st an ;;
  hr <- height st r ;;
  set_height st an (1 + (if hr <? hl then hl else hr)).        (* (hl > hr) ? hl : hr *)

(* if (c != NULL) c->parent = b; *)
Definition set_parent_if (st : state) (c : ptr) (b : ptr) : res state :=
  match c with
  | None => Ok st
  | Some _ => set_parent st c b
  end.

Definition rotate_left (st : state) (root : ref) : res state :=
  b <- load_ref st root ;;
  d <- get_right st b ;;
  c <- get_left st d ;;
  st <- set_right st b c ;;
  st <- set_parent_if st c b ;;
  st <- recalc_height st b ;;
  st <- set_left st d b ;;
  bp <- get_parent st b ;;
  st <- set_parent st d bp ;;
  st <- set_parent st b d ;;
  st <- recalc_height st d ;;
  store_ref st root d.

Definition rotate_right (st : state) (root : ref) : res state :=
  d <- load_ref st root ;;
  b <- get_left st d ;;
  c <- get_right st b ;;
  st <- set_left st d c ;;
  st <- set_parent_if st c d ;;
  st <- recalc_height st d ;;
  st <- set_right st b d ;;
  dp <- get_parent st d ;;
  st <- set_parent st b dp ;;
  st <- set_parent st d b ;;
  st <- recalc_height st b ;;
  store_ref st root b.

Definition rotate_left_right (st : state) (root : ref) : res state :=
  f <- load_ref st root ;;
  b <- get_left st f ;;
  d <- get_right st b ;;
  c <- get_left st d ;;
  st <- set_right st b c ;;
  st <- set_parent_if st c b ;;
  st <- recalc_height st b ;;
  e <- get_right st d ;;
  st <- set_left st f e ;;
  st <- set_parent_if st e f ;;
  st <- recalc_height st f ;;
  st <- set_left st d b ;;
  st <- set_right st d f ;;
  fp <- get_parent st f ;;
  st <- set_parent st d fp ;;
  st <- set_parent st b d ;;
  st <- set_parent st f d ;;
  st <- recalc_height st d ;;
  store_ref st root d.

Definition rotate_right_left (st : state) (root : ref) : res state :=
  b <- load_ref st root ;;
  f <- get_right st b ;;
  d <- get_left st f ;;
  c <- get_left st d ;;
  st <- set_right st b c ;;
  st <- set_parent_if st c b ;;
  st <- recalc_height st b ;;
  e <- get_right st d ;;
  st <- set_left st f e ;;
  st <- set_parent_if st e f ;;
  st <- recalc_height st f ;;
  st <- set_left st d b ;;
  st <- set_right st d f ;;
  bp <- get_parent st b ;;
  st <- set_parent st d bp ;;
  st <- set_parent st b d ;;
  st <- set_parent st f d ;;
  st <- recalc_height st d ;;
  store_ref st root d.

(* static int balance(const struct iv_avl_node *an) *)
Definition balance (st : state) (an : ptr) : res Z :=
  r <- get_right st an ;;
  hr <- height st r ;;
  l <- get_left st an ;;
  hl <- height st l ;;
  Ok (hr - hl).

(* static void rebalance_node(struct iv_avl_node **_root) *)
Definition rebalance_node (st : state) (_root : ref) : res state :=
  root <- load_ref st _root ;;
  bal <- balance st root ;;
  if bal =? -2 then
    l <- get_left st root ;;
    bl <- balance st l ;;
    if bl <=? 0 then rotate_right st _root else rotate_left_right st _root
  else if bal =? 2 then
    r <- get_right st root ;;
    br <- balance st r ;;
    if br <? 0 then rotate_right_left st _root else rotate_left st _root
  else Ok st.

(* find_reference(tree, an) *)
Definition find_reference (st : state) (an : ptr) : res ref :=
  p <- get_parent st an ;;
  match p with
  | Some pi =>
      pl <- get_left st p ;;
      if ptr_eqb pl an then Ok (RLeft pi) else Ok (RRight pi)
  | None => Ok RRoot
  end.

(* replace_reference(tree, an, new_child) *)
Definition replace_reference (st : state) (an : ptr) (new_child : ptr) : res state :=
  r <- find_reference st an ;;
  store_ref st r new_child.

(* rebalance_path(tree, an) *)
Fixpoint rebalance_path (fuel : nat) (st : state) (an : ptr) : res state :=
  match an with
  | None => Ok st                                              (* while (an != NULL) *)
  | Some _ =>
      match fuel with
      | O => ErrFuel
      | S fuel' =>
          old_height <- get_height st an ;;
          st <- recalc_height st an ;;
          r <- find_reference st an ;;
          st <- rebalance_node st r ;;
          an <- load_ref st r ;;
          h <- get_height st an ;;
          if old_height =? h then Ok st                        (* break *)
          else
            p <- get_parent st an ;;
            rebalance_path fuel' st p
      end
  end.

(* the descent loop of iv_avl_tree_insert; None = return -1 *)
Fixpoint insert_loop (fuel : nat) (st : state) (an : ptr) (p : ptr) (pp : ref) : res (option (ptr * ref)) :=
  cur <- load_ref st pp ;;
  match cur with
  | None => Ok (Some (p, pp))                                  (* while ( *pp != NULL ) *)
  | Some ci =>
      match fuel with
      | O => ErrFuel
      | S fuel' =>
          (* p = *pp; ret = tree->compare(an, p) *)
          ka <- get_key st an ;;
          kp <- get_key st cur ;;
          if ka <? kp then insert_loop fuel' st an cur (RLeft ci)
          else if kp <? ka then insert_loop fuel' st an cur (RRight ci)
          else Ok None
      end
  end.

(* int iv_avl_tree_insert(struct iv_avl_tree *tree, struct iv_avl_node *an) *)
Definition iv_avl_tree_insert (fuel : nat) (st : state) (an : ptr) : res (state * Z) :=
  r <- insert_loop fuel st an None RRoot ;;
  match r with
  | None => Ok (st, -1)
  | Some (p, pp) =>
      st <- set_left st an None ;;
      st <- set_right st an None ;;
      st <- set_parent st an p ;;
      st <- set_height st an 1 ;;
      st <- store_ref st pp an ;;
      st <- rebalance_path fuel st p ;;
      Ok (st, 0)
  end.

(* iv_avl_tree_delete_leaf: returns the node to start rebalancing from *)
Definition delete_leaf (st : state) (an : ptr) : res (state * ptr) :=
  st <- replace_reference st an None ;;
  p <- get_parent st an ;;
  Ok (st, p).

(* while (victim->right != NULL) victim = victim->right; *)
Fixpoint walk_right (fuel : nat) (st : state) (an : ptr) : res ptr :=
  r <- get_right st an ;;
  match r with
  | None => Ok an
  | Some _ => match fuel with O => ErrFuel | S fuel' => walk_right fuel' st r end
  end.

Fixpoint walk_left (fuel : nat) (st : state) (an : ptr) : res ptr :=
  l <- get_left st an ;;
  match l with
  | None => Ok an
  | Some _ => match fuel with O => ErrFuel | S fuel' => walk_left fuel' st l end
  end.

(* iv_avl_tree_delete_nonleaf, in three pieces (same statements, same order):
   the two branches of the if that pick the victim and unlink it, and the
   tail that puts the victim in an's place. *)

(* victim = an->left; while (victim->right != NULL) victim = victim->right;
   replace_reference(tree, victim, victim->left);
   if (victim->left != NULL) victim->left->parent = victim->parent; *)
Definition unlink_max (fuel : nat) (st : state) (l : ptr) : res (state * ptr) :=
  victim <- walk_right fuel st l ;;
  vl <- get_left st victim ;;
  st <- replace_reference st victim vl ;;
  vl <- get_left st victim ;;
  st <- (match vl with
         | None => Ok st
         | Some _ => vp <- get_parent st victim ;; set_parent st vl vp
         end) ;;
  Ok (st, victim).

Definition unlink_min (fuel : nat) (st : state) (r : ptr) : res (state * ptr) :=
  victim <- walk_left fuel st r ;;
  vr <- get_right st victim ;;
  st <- replace_reference st victim vr ;;
  vr <- get_right st victim ;;
  st <- (match vr with
         | None => Ok st
         | Some _ => vp <- get_parent st victim ;; set_parent st vr vp
         end) ;;
  Ok (st, victim).

(* replace_reference(tree, an, victim); victim->left = an->left; ... ;
   if (victim->right != NULL) victim->right->parent = victim; *)
Definition swap_in (st : state) (an : ptr) (victim : ptr) : res state :=
  st <- replace_reference st an victim ;;
  al <- get_left st an ;;
  st <- set_left st victim al ;;
  ar <- get_right st an ;;
  st <- set_right st victim ar ;;
  ap <- get_parent st an ;;
  st <- set_parent st victim ap ;;
  ah <- get_height st an ;;
  st <- set_height st victim ah ;;
  vl <- get_left st victim ;;
  st <- set_parent_if st vl victim ;;
  vr <- get_right st victim ;;
  set_parent_if st vr victim.

Definition delete_nonleaf (fuel : nat) (st : state) (an : ptr) : res (state * ptr) :=
  l <- get_left st an ;;
  hl <- height st l ;;
  r <- get_right st an ;;
  hr <- height st r ;;
  sv <- (if hr <? hl then unlink_max fuel st l               (* height(an->left) > height(an->right) *)
         else unlink_min fuel st r) ;;
  let '(st, victim) := sv in
  (* p = victim->parent; if (p == an) p = victim; *)
  p <- get_parent st victim ;;
  let p := if ptr_eqb p an then victim else p in
  st <- swap_in st an victim ;;
  Ok (st, p).

(* void iv_avl_tree_delete(struct iv_avl_tree *tree, struct iv_avl_node *an) *)
Definition iv_avl_tree_delete (fuel : nat) (st : state) (an : ptr) : res state :=
  l <- get_left st an ;;
  sp <- (match l with
         | None =>
             r <- get_right st an ;;
             match r with
             | None => delete_leaf st an
             | Some _ => delete_nonleaf fuel st an
             end
         | Some _ => delete_nonleaf fuel st an
         end) ;;
  let '(st, p) := sp in
  rebalance_path fuel st p.

(* p = an->parent; while (p != NULL && an == p->right) { an = p; p = an->parent; } return p; *)
Fixpoint climb_right (fuel : nat) (st : state) (an : ptr) (p : ptr) : res ptr :=
  match p with
  | None => Ok None
  | Some _ =>
      pr <- get_right st p ;;
      if ptr_eqb an pr then
        match fuel with
        | O => ErrFuel
        | S fuel' => p' <- get_parent st p ;; climb_right fuel' st p p'
        end
      else Ok p
  end.

Fixpoint climb_left (fuel : nat) (st : state) (an : ptr) (p : ptr) : res ptr :=
  match p with
  | None => Ok None
  | Some _ =>
      pl <- get_left st p ;;
      if ptr_eqb an pl then
        match fuel with
        | O => ErrFuel
        | S fuel' => p' <- get_parent st p ;; climb_left fuel' st p p'
        end
      else Ok p
  end.

(* struct iv_avl_node *iv_avl_tree_next(struct iv_avl_node *an) *)
Definition iv_avl_tree_next (fuel : nat) (st : state) (an : ptr) : res ptr :=
  r <- get_right st an ;;
  match r with
  | Some _ => walk_left fuel st r
  | None => p <- get_parent st an ;; climb_right fuel st an p
  end.

Definition iv_avl_tree_prev (fuel : nat) (st : state) (an : ptr) : res ptr :=
  l <- get_left st an ;;
  match l with
  | Some _ => walk_right fuel st l
  | None => p <- get_parent st an ;; climb_left fuel st an p
  end.

(* iv_avl_tree_min / iv_avl_tree_max (iv_avl.h) *)
Definition iv_avl_tree_min (fuel : nat) (st : state) : res ptr :=
  match st_root st with
  | Some _ => walk_left fuel st (st_root st)
  | None => Ok None
  end.

Definition iv_avl_tree_max (fuel : nat) (st : state) : res ptr :=
  match st_root st with
  | Some _ => walk_right fuel st (st_root st)
  | None => Ok None
  end.

(* iv_avl_tree_for_each: for (an = min; an != NULL; an = next(an)) collect an.
   n bounds the number of iterations, fuel the inner loops. *)
Fixpoint iter_next_ptr (n fuel : nat) (st : state) (an : ptr) : res (list positive) :=
  match an with
  | None => Ok []
  | Some i =>
      match n with
      | O => ErrFuel
      | S n' =>
          nx <- iv_avl_tree_next fuel st an ;;
          rest <- iter_next_ptr n' fuel st nx ;;
          Ok (i :: rest)
      end
  end.

Fixpoint iter_prev_ptr (n fuel : nat) (st : state) (an : ptr) : res (list positive) :=
  match an with
  | None => Ok []
  | Some i =>
      match n with
      | O => ErrFuel
      | S n' =>
          nx <- iv_avl_tree_prev fuel st an ;;
          rest <- iter_prev_ptr n' fuel st nx ;;
          Ok (i :: rest)
      end
  end.

Definition forward_ptr (n fuel : nat) (st : state) : res (list positive) :=
  m <- iv_avl_tree_min fuel st ;; iter_next_ptr n fuel st m.

Definition backward_ptr (n fuel : nat) (st : state) : res (list positive) :=
  m <- iv_avl_tree_max fuel st ;; iter_prev_ptr n fuel st m.

(* keys of a list of node ids *)
Fixpoint keys_of (s : store) (l : list positive) : list Z :=
  match l with
  | [] => []
  | i :: l' => match PositiveMap.find i s with
               | Some n => n_key n :: keys_of s l'
               | None => keys_of s l'
               end
  end.

(* ---- histories at the pointer level, as the C driver produces them ----
   A machine is the tree state plus the allocator's next id.  Ins k mallocs a
   node whose fields hold garbage g (only the key is set), calls insert and
   frees the node again when insert returns -1.  Del k finds the node by a
   BST search on the keys (the driver's lookup()), calls delete and frees it;
   rc 1 and no call when the key is absent. *)
Record machine : Type := mkMachine { m_state : state; m_next : positive }.

Definition garbage (g : ptr) (gh : Z) (k : Z) : node := mkNode g g g gh k.

Fixpoint lookup (fuel : nat) (st : state) (an : ptr) (k : Z) : res ptr :=
  match an with
  | None => Ok None
  | Some _ =>
      match fuel with
      | O => ErrFuel
      | S fuel' =>
          kn <- get_key st an ;;
          if k <? kn then l <- get_left st an ;; lookup fuel' st l k
          else if kn <? k then r <- get_right st an ;; lookup fuel' st r k
          else Ok an
      end
  end.

(* PReins k: the caller hands iv_avl_tree_insert the node object that is
   ALREADY linked in the tree and carries key k (double registration); when no
   node carries k it behaves like PIns k. *)
Inductive pop : Type := PIns (k : Z) | PDel (k : Z) | PReins (k : Z).

Definition free_node (st : state) (i : positive) : state :=
  mkState (PositiveMap.remove i (st_store st)) (st_root st).

(* malloc a node (garbage fields, key k), insert it, free it when rejected *)
Definition pstep_ins (fuel : nat) (g : ptr) (gh : Z) (m : machine) (k : Z) : res (machine * Z) :=
  let i := m_next m in
  let st0 := mkState (PositiveMap.add i (garbage g gh k) (st_store (m_state m))) (st_root (m_state m)) in
  r <- iv_avl_tree_insert fuel st0 (Some i) ;;
  let '(st1, rc) := r in
  if rc =? 0 then Ok (mkMachine st1 (Pos.succ i), rc)
  else Ok (mkMachine (free_node st1 i) (Pos.succ i), rc).

Definition pstep (fuel : nat) (g : ptr) (gh : Z) (m : machine) (o : pop) : res (machine * Z) :=
  match o with
  | PIns k => pstep_ins fuel g gh m k
  | PReins k =>
      n <- lookup fuel (m_state m) (st_root (m_state m)) k ;;
      match n with
      | None => pstep_ins fuel g gh m k
      | Some _ =>
          (* the linked object itself is handed to insert: nothing allocated, nothing freed *)
          r <- iv_avl_tree_insert fuel (m_state m) n ;;
          Ok (mkMachine (fst r) (m_next m), snd r)
      end
  | PDel k =>
      n <- lookup fuel (m_state m) (st_root (m_state m)) k ;;
      match n with
      | None => Ok (m, 1)
      | Some i =>
          st1 <- iv_avl_tree_delete fuel (m_state m) n ;;
          Ok (mkMachine (free_node st1 i) (m_next m), 0)
      end
  end.

Fixpoint prun (fuel : nat) (g : ptr) (gh : Z) (ops : list pop) (m : machine) : res machine :=
  match ops with
  | [] => Ok m
  | o :: ops' =>
      r <- pstep fuel g gh m o ;;
      prun fuel g gh ops' (fst r)
  end.

Definition empty_machine : machine := mkMachine (mkState (PositiveMap.empty node) None) 1%positive.
