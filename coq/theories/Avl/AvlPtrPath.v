(* AvlPtrPath.v -- balance, rebalance_node, find_reference, recalc_height and
   rebalance_path of AvlPtrModel.v refine rebalance_node / rebalance_up /
   rebalance_from of AvlModel.v. *)

From Coq Require Import List ZArith Bool Lia FMapPositive Permutation.
From Ivv Require Import Avl.AvlModel Avl.AvlBasics Avl.AvlRebalance Avl.AvlPtrModel Avl.AvlPtrRep Avl.AvlPtrRot.
Import ListNotations.
Local Open Scope Z_scope.

(* ---- facts about the functional rotations on arbitrary trees ---- *)
Lemma rotate_left_inorder t : inorder (AvlModel.rotate_left t) = inorder t.
Proof. destruct t as [|a b h [|c d h' e]]; try reflexivity. cbn [AvlModel.rotate_left]. inorder_eq. Qed.

Lemma rotate_right_inorder t : inorder (AvlModel.rotate_right t) = inorder t.
Proof. destruct t as [|[|a b h c] d h' e]; try reflexivity. cbn [AvlModel.rotate_right]. inorder_eq. Qed.

Lemma rotate_left_right_inorder t : inorder (AvlModel.rotate_left_right t) = inorder t.
Proof.
  destruct t as [|[|a b h [|c d h' e]] k h'' g]; try reflexivity.
  cbn [AvlModel.rotate_left_right]. inorder_eq.
Qed.

Lemma rotate_right_left_inorder t : inorder (AvlModel.rotate_right_left t) = inorder t.
Proof.
  destruct t as [|a b h [|[|c d h' e] k h'' g]]; try reflexivity.
  cbn [AvlModel.rotate_right_left]. inorder_eq.
Qed.

Lemma rebalance_node_inorder t : inorder (AvlModel.rebalance_node t) = inorder t.
Proof.
  unfold AvlModel.rebalance_node. cbv zeta.
  repeat match goal with |- context [if ?b then _ else _] => destruct b end;
    auto using rotate_left_inorder, rotate_right_inorder,
      rotate_left_right_inorder, rotate_right_left_inorder.
Qed.

Lemma rotate_left_hpos t : hpos t -> hpos (AvlModel.rotate_left t).
Proof.
  destruct t as [|a b h [|c d h' e]]; try (intros H; exact H).
  cbn [AvlModel.rotate_left hpos]. intros H. repeat apply hpos_mk; tauto.
Qed.

Lemma rotate_right_hpos t : hpos t -> hpos (AvlModel.rotate_right t).
Proof.
  destruct t as [|[|a b h c] d h' e]; try (intros H; exact H).
  cbn [AvlModel.rotate_right hpos]. intros H. repeat apply hpos_mk; tauto.
Qed.

Lemma rotate_left_right_hpos t : hpos t -> hpos (AvlModel.rotate_left_right t).
Proof.
  destruct t as [|[|a b h [|c d h' e]] k h'' g]; try (intros H; exact H).
  cbn [AvlModel.rotate_left_right hpos]. intros H. repeat apply hpos_mk; tauto.
Qed.

Lemma rotate_right_left_hpos t : hpos t -> hpos (AvlModel.rotate_right_left t).
Proof.
  destruct t as [|a b h [|[|c d h' e] k h'' g]]; try (intros H; exact H).
  cbn [AvlModel.rotate_right_left hpos]. intros H. repeat apply hpos_mk; tauto.
Qed.

Lemma rebalance_node_hpos t : hpos t -> hpos (AvlModel.rebalance_node t).
Proof.
  intros H. unfold AvlModel.rebalance_node. cbv zeta.
  repeat match goal with |- context [if ?b then _ else _] => destruct b end;
    auto using rotate_left_hpos, rotate_right_hpos, rotate_left_right_hpos, rotate_right_left_hpos.
Qed.

Lemma rebalance_node_notE t : t <> E -> AvlModel.rebalance_node t <> E.
Proof.
  intros H. unfold AvlModel.rebalance_node. cbv zeta.
  repeat match goal with |- context [if ?b then _ else _] => destruct b end; try exact H.
  - destruct t as [|[|a b h c] d h' e]; try exact H; discriminate.
  - destruct t as [|[|a b h [|c d h' e]] k h'' g]; try exact H; discriminate.
  - destruct t as [|a b h [|[|c d h' e] k h'' g]]; try exact H; discriminate.
  - destruct t as [|a b h [|c d h' e]]; try exact H; discriminate.
Qed.

(* rebalance_up / rebalance_from keep the in-order key list, on arbitrary trees *)
Lemma rebalance_up_inorder : forall c t, inorder (rebalance_up c t) = inorder (plug t c).
Proof.
  induction c as [|fr c IH]; intros t; destruct t as [|l k old r]; cbn [rebalance_up plug]; try reflexivity.
  - pose proof (rebalance_node_inorder (mk l k r)) as H.
    destruct (old =? ht (AvlModel.rebalance_node (mk l k r))); cbn [plug]; rewrite H; reflexivity.
  - pose proof (rebalance_node_inorder (mk l k r)) as H.
    destruct (old =? ht (AvlModel.rebalance_node (mk l k r))).
    + change (plug (AvlModel.rebalance_node (mk l k r)) (fr :: c))
        with (plug (fill fr (AvlModel.rebalance_node (mk l k r))) c).
      rewrite !inorder_plug. destruct fr; cbn [fill inorder]; rewrite H; reflexivity.
    + rewrite IH. rewrite !inorder_plug. destruct fr; cbn [fill inorder]; rewrite H; reflexivity.
Qed.

Lemma rebalance_from_inorder_gen c t : inorder (rebalance_from c t) = inorder (plug t c).
Proof. destruct c as [|fr c]; cbn [rebalance_from plug]; [reflexivity | apply rebalance_up_inorder]. Qed.

Section Path.
Variable f : Z -> positive.

Notation zrep := (zrep f).
Notation rep := (rep f).
Notation tptr := (tptr f).
Notation cidl := (cidl f).
Notation cref := (cref f).

Lemma balance_rep s root l k h r par :
  rep s (N l k h r) par -> balance (mkState s root) (Some (f k)) = Ok (ht r - ht l).
Proof.
  cbn [AvlPtrRep.rep]. intros (H & Hl & Hr). unfold balance.
  rewrite (get_right_ok _ _ _ _ H). simp. rewrite (height_rep f _ _ _ _ Hr). simp.
  rewrite (get_left_ok _ _ _ _ H). simp. rewrite (height_rep f _ _ _ _ Hl). reflexivity.
Qed.

Lemma rebalance_node_z s root t c :
  t <> E -> hpos t ->
  zrep (mkState s root) t c -> NoDup (idl f t ++ cidl c) ->
  exists st', rebalance_node (mkState s root) (cref c) = Ok st'
    /\ zrep st' (AvlModel.rebalance_node t) c
    /\ frame_ok f t c s st'.
Proof.
  intros HE Hp Hz ND. destruct t as [|l k h r]; [congruence|]. clear HE.
  unfold rebalance_node. rewrite (load_cref f _ _ _ Hz). simp.
  pose proof Hz as (Hr & _ & _). cbn [st_store] in Hr.
  rewrite (balance_rep _ _ _ _ _ _ _ Hr).
  unfold AvlModel.rebalance_node. cbv zeta. cbn [AvlModel.balance left_of right_of bind].
  cbn [hpos] in Hp. destruct Hp as (Hh & Hpl & Hpr).
  pose proof (hpos_ht _ Hpl) as Hl0. pose proof (hpos_ht _ Hpr) as Hr0.
  cbn [AvlPtrRep.rep] in Hr. destruct Hr as (Hk & Hrl & Hrr).
  destruct (Z.eqb_spec (ht r - ht l) (-2)) as [E2|E2].
  - destruct l as [|ll lk lh lr]; [cbn [ht] in *; lia|].
    rewrite (get_left_ok _ _ _ _ Hk). simp.
    rewrite (balance_rep _ _ _ _ _ _ _ Hrl). cbn [bind AvlModel.balance].
    cbn [hpos] in Hpl. destruct Hpl as (Hlh & Hpll & Hplr).
    pose proof (hpos_ht _ Hpll). pose proof (hpos_ht _ Hplr).
    destruct (Z.leb_spec (ht lr - ht ll) 0) as [Hb|Hb].
    + apply rotate_right_z; assumption.
    + destruct lr as [|c0 d hd e0]; [cbn [ht] in *; lia|].
      apply rotate_left_right_z; assumption.
  - destruct (Z.eqb_spec (ht r - ht l) 2) as [E3|E3].
    + destruct r as [|rl rk rh rr]; [cbn [ht] in *; lia|].
      rewrite (get_right_ok _ _ _ _ Hk). simp.
      rewrite (balance_rep _ _ _ _ _ _ _ Hrr). cbn [bind AvlModel.balance].
      cbn [hpos] in Hpr. destruct Hpr as (Hrh & Hprl & Hprr).
      pose proof (hpos_ht _ Hprl). pose proof (hpos_ht _ Hprr).
      destruct (Z.ltb_spec (ht rr - ht rl) 0) as [Hb|Hb].
      * destruct rl as [|c0 d hd e0]; [cbn [ht] in *; lia|].
        apply rotate_right_left_z; assumption.
      * apply rotate_left_z; assumption.
    + eexists. split; [reflexivity|]. split; [exact Hz|]. intros i _ _. reflexivity.
Qed.

Lemma find_reference_z s root t c :
  t <> E -> zrep (mkState s root) t c -> NoDup (idl f t ++ cidl c) ->
  find_reference (mkState s root) (tptr t) = Ok (cref c).
Proof.
  intros HE (Hr & Hc & _) ND. cbn [st_store] in *.
  destruct t as [|l k h r]; [congruence|]. cbn [AvlPtrRep.tptr AvlPtrRep.rep] in *.
  destruct Hr as (Hk & _ & _). unfold find_reference.
  rewrite (get_parent_ok _ _ _ _ Hk). simp.
  destruct c as [|[k' h' r'|l' k' h'] c]; cbn [AvlPtrRep.cpar AvlPtrRep.cref fkey AvlPtrRep.repc] in *.
  - reflexivity.
  - destruct Hc as (Hk' & _ & _). rewrite (get_left_ok _ _ _ _ Hk'). simp.
    rewrite ptr_eqb_refl. reflexivity.
  - destruct Hc as (Hk' & _ & _). rewrite (get_left_ok _ _ _ _ Hk'). simp.
    destruct l' as [|a x y b]; cbn [AvlPtrRep.tptr]; [reflexivity|].
    rewrite ptr_eqb_neq; [reflexivity|].
    intros Heq. eapply (nodup_app_disj _ _ ND (f k)).
    + apply in_map. cbn [inorder]. apply in_or_app. right. left. reflexivity.
    + cbn [AvlPtrRep.cidl]. right. apply in_or_app. left. rewrite <- Heq.
      apply in_map. cbn [inorder]. apply in_or_app. right. left. reflexivity.
Qed.

Lemma recalc_height_z s root l k h r c :
  zrep (mkState s root) (N l k h r) c -> NoDup (idl f (N l k h r) ++ cidl c) ->
  exists s1, recalc_height (mkState s root) (Some (f k)) = Ok (mkState s1 root)
    /\ zrep (mkState s1 root) (mk l k r) c
    /\ (forall i, i <> f k -> PM.find i s1 = PM.find i s).
Proof.
  intros (Hr & Hc & Hroot) ND. cbn [st_store st_root] in *.
  cbn [AvlPtrRep.rep] in Hr. destruct Hr as (Hk & Hl & Hrr).
  unfold recalc_height.
  rewrite (get_left_ok _ _ _ _ Hk). simp. rewrite (height_rep f _ _ _ _ Hl). simp.
  rewrite (get_right_ok _ _ _ _ Hk). simp. rewrite (height_rep f _ _ _ _ Hrr). simp.
  rewrite (set_height_ok _ _ _ _ _ Hk). simp.
  eexists. split; [reflexivity|].
  pose proof (nodup_app_l _ _ ND) as NDt. cbn [inorder] in NDt. nd_facts NDt.
  split; [|intros i Hi; apply PM.gso; exact Hi].
  unfold AvlPtrRep.zrep. cbn [st_store st_root]. unfold mk at 1. cbn [AvlPtrRep.rep].
  split; [split; [apply PM.gss|split; apply rep_add; assumption]|].
  split; [|exact Hroot].
  eapply repc_frame; [|exact Hc]. intros i Hi. apply PM.gso. intros ->.
  eapply (nodup_app_disj _ _ ND (f k)); [|exact Hi].
  apply in_map. cbn [inorder]. apply in_or_app. right. left. reflexivity.
Qed.

Definition frame_all (t : tree) (s : store) (st' : state) : Prop :=
  forall i, ~ In i (idl f t) -> PM.find i (st_store st') = PM.find i s.

Lemma idl_plug_same t t' c :
  inorder t' = inorder t -> inorder (plug t' c) = inorder (plug t c).
Proof. intros H. rewrite !inorder_plug, H. reflexivity. Qed.

Lemma rebalance_up_z : forall c t s root fuel,
  hpos (plug t c) ->
  zrep (mkState s root) t c -> NoDup (idl f (plug t c)) -> (length c < fuel)%nat ->
  exists st', rebalance_path fuel (mkState s root) (tptr t) = Ok st'
    /\ zrep st' (rebalance_up c t) []
    /\ frame_all (plug t c) s st'.
Proof.
  induction c as [|fr c IH]; intros t s root fuel Hp Hz ND Hfuel.
  - (* at the root *)
    destruct t as [|l k old r].
    { cbn [AvlPtrRep.tptr]. destruct fuel; cbn [rebalance_path]; eexists;
        (split; [reflexivity|]); (split; [exact Hz|]); intros i _; reflexivity. }
    destruct fuel as [|fuel]; [cbn [length] in Hfuel; lia|].
    cbn [AvlPtrRep.tptr rebalance_path rebalance_up plug] in *.
    pose proof Hz as (Hr & _ & _). cbn [st_store AvlPtrRep.rep] in Hr. destruct Hr as (Hk & _ & _).
    rewrite (get_height_ok _ _ _ _ Hk). simp.
    assert (ND' : NoDup (idl f (N l k old r) ++ cidl [])) by (cbn [AvlPtrRep.cidl]; rewrite app_nil_r; exact ND).
    destruct (recalc_height_z _ _ _ _ _ _ _ Hz ND') as (s1 & E1 & Hz1 & F1).
    rewrite E1. simp.
    assert (ND1 : NoDup (idl f (mk l k r) ++ cidl [])) by exact ND'.
    pose proof (find_reference_z s1 root (mk l k r) [] ltac:(discriminate) Hz1 ND1) as FRz.
    change (tptr (mk l k r)) with (Some (f k)) in FRz. rewrite FRz. simp.
    assert (Hp1 : hpos (mk l k r)) by (cbn [hpos] in Hp; apply hpos_mk; tauto).
    destruct (rebalance_node_z s1 root (mk l k r) [] ltac:(discriminate) Hp1 Hz1 ND1) as (st2 & E2 & Hz2 & F2).
    rewrite E2. simp.
    rewrite (load_cref f _ _ _ Hz2). simp.
    pose proof (rebalance_node_notE (mk l k r) ltac:(discriminate)) as HnE.
    destruct (AvlModel.rebalance_node (mk l k r)) as [|l2 k2 h2 r2] eqn:Et2; [congruence|].
    destruct st2 as [s2 root2].
    pose proof Hz2 as (Hr2 & _ & _). cbn [st_store AvlPtrRep.rep] in Hr2. destruct Hr2 as (Hk2 & _ & _).
    cbn [AvlPtrRep.tptr]. rewrite (get_height_ok _ _ _ _ Hk2). simp. cbn [ht].
    unfold frame_ok in F2. cbn [st_store] in F2.
    assert (Fr : frame_all (N l k old r) s (mkState s2 root2)).
    { intros i Hi. cbn [st_store]. rewrite (F2 i); [apply F1|exact Hi|intros []].
      intros ->. apply Hi. apply in_map. cbn [inorder]. apply in_or_app. right. left. reflexivity. }
    destruct (old =? h2).
    + eexists. split; [reflexivity|]. split; [exact Hz2 | exact Fr].
    + rewrite (get_parent_ok _ _ _ _ Hk2). simp. cbn [AvlPtrRep.cpar].
      destruct fuel; cbn [rebalance_path]; eexists; (split; [reflexivity|]); (split; [exact Hz2 | exact Fr]).
  - (* below frame fr *)
    destruct t as [|l k old r].
    { cbn [AvlPtrRep.tptr]. destruct fuel; cbn [rebalance_path rebalance_up]; eexists;
        (split; [reflexivity|]); (split; [apply (proj1 (zrep_plug f _ (fr :: c) _)); exact Hz|]); intros i _; reflexivity. }
    destruct fuel as [|fuel]; [cbn [length] in Hfuel; lia|].
    cbn [AvlPtrRep.tptr rebalance_path rebalance_up].
    pose proof Hz as (Hr & _ & _). cbn [st_store AvlPtrRep.rep] in Hr. destruct Hr as (Hk & _ & _).
    rewrite (get_height_ok _ _ _ _ Hk). simp.
    pose proof ND as ND'. rewrite nodup_plug in ND'.
    destruct (recalc_height_z _ _ _ _ _ _ _ Hz ND') as (s1 & E1 & Hz1 & F1).
    rewrite E1. simp.
    assert (ND1 : NoDup (idl f (mk l k r) ++ cidl (fr :: c))) by exact ND'.
    pose proof (find_reference_z s1 root (mk l k r) (fr :: c) ltac:(discriminate) Hz1 ND1) as FRz.
    change (tptr (mk l k r)) with (Some (f k)) in FRz. rewrite FRz. simp.
    apply hpos_plug in Hp. destruct Hp as (Hpt & Hpc).
    assert (Hp1 : hpos (mk l k r)) by (cbn [hpos] in Hpt; apply hpos_mk; tauto).
    destruct (rebalance_node_z s1 root (mk l k r) (fr :: c) ltac:(discriminate) Hp1 Hz1 ND1) as (st2 & E2 & Hz2 & F2).
    rewrite E2. simp.
    rewrite (load_cref f _ _ _ Hz2). simp.
    pose proof (rebalance_node_notE (mk l k r) ltac:(discriminate)) as HnE.
    pose proof (rebalance_node_inorder (mk l k r)) as Hin.
    pose proof (rebalance_node_hpos (mk l k r) Hp1) as Hp2.
    destruct (AvlModel.rebalance_node (mk l k r)) as [|l2 k2 h2 r2] eqn:Et2; [congruence|].
    destruct st2 as [s2 root2].
    pose proof Hz2 as (Hr2 & _ & _). cbn [st_store AvlPtrRep.rep] in Hr2. destruct Hr2 as (Hk2 & _ & _).
    cbn [AvlPtrRep.tptr]. rewrite (get_height_ok _ _ _ _ Hk2). simp. cbn [ht].
    assert (Hin' : inorder (plug (N l2 k2 h2 r2) (fr :: c)) = inorder (plug (N l k old r) (fr :: c))).
    { apply idl_plug_same. rewrite Hin. reflexivity. }
    unfold frame_ok in F2. cbn [st_store] in F2.
    assert (Fr : frame_all (plug (N l k old r) (fr :: c)) s (mkState s2 root2)).
    { intros i Hi. rewrite in_idl_plug in Hi. cbn [st_store].
      rewrite (F2 i); [apply F1| |].
      - intros ->. apply Hi. left. apply in_map. cbn [inorder]. apply in_or_app. right. left. reflexivity.
      - intros Hi2. apply Hi. left. exact Hi2.
      - intros Hi2. apply Hi. right. exact Hi2. }
    destruct (old =? h2).
    + eexists. split; [reflexivity|]. split; [apply (proj1 (zrep_plug f _ (fr :: c) _)); exact Hz2 | exact Fr].
    + rewrite (get_parent_ok _ _ _ _ Hk2). simp.
      apply zrep_fill in Hz2.
      replace (AvlPtrRep.cpar f (fr :: c)) with (tptr (fill fr (N l2 k2 h2 r2)))
        by (rewrite tptr_fill; reflexivity).
      destruct (IH (fill fr (N l2 k2 h2 r2)) s2 root2 fuel) as (st3 & E3 & Hz3 & F3).
      * apply (proj2 (hpos_plug (fr :: c) (N l2 k2 h2 r2))). split; assumption.
      * exact Hz2.
      * change (NoDup (idl f (plug (N l2 k2 h2 r2) (fr :: c)))). rewrite Hin'. exact ND.
      * cbn [length] in Hfuel. lia.
      * exists st3. split; [exact E3|]. split; [exact Hz3|].
        intros i Hi. rewrite F3; [apply Fr; exact Hi|].
        change (~ In i (idl f (plug (N l2 k2 h2 r2) (fr :: c)))). rewrite Hin'. exact Hi.
Qed.

Lemma rebalance_from_z c t s root fuel :
  hpos (plug t c) ->
  zrep (mkState s root) t c -> NoDup (idl f (plug t c)) -> (length c <= fuel)%nat ->
  exists st', rebalance_path fuel (mkState s root) (AvlPtrRep.cpar f c) = Ok st'
    /\ zrep st' (rebalance_from c t) []
    /\ frame_all (plug t c) s st'.
Proof.
  intros Hp Hz ND Hfuel. destruct c as [|fr c].
  - cbn [AvlPtrRep.cpar rebalance_from plug]. destruct fuel; cbn [rebalance_path];
      eexists; (split; [reflexivity|]); (split; [exact Hz|]); intros i _; reflexivity.
  - cbn [AvlPtrRep.cpar rebalance_from].
    replace (Some (f (fkey fr))) with (tptr (fill fr t)) by (rewrite tptr_fill; reflexivity).
    destruct (rebalance_up_z c (fill fr t) s root fuel) as (st' & E & Z & F).
    + exact Hp.
    + apply zrep_fill. exact Hz.
    + exact ND.
    + cbn [length] in Hfuel. lia.
    + exists st'. split; [exact E|]. split; [exact Z | exact F].
Qed.

End Path.
