(* AvlRebalance.v -- the zipper context invariant and the correctness of
   rebalance_path (rebalance_up / rebalance_from of AvlModel.v). *)

From Coq Require Import List ZArith Bool Lia.
From Ivv Require Import Avl.AvlModel Avl.AvlBasics.
Import ListNotations.
Local Open Scope Z_scope.

(* ctx_ok h0 c: the parent chain c is that of an AVL tree whose subtree in
   the hole had (original) height h0. *)
Fixpoint ctx_ok (h0 : Z) (c : ctx) : Prop :=
  match c with
  | [] => True
  | FL k h r :: c' =>
      avl r /\ h = 1 + Z.max h0 (ht r) /\ -1 <= ht r - h0 <= 1 /\ ctx_ok h c'
  | FR l k h :: c' =>
      avl l /\ h = 1 + Z.max (ht l) h0 /\ -1 <= h0 - ht l <= 1 /\ ctx_ok h c'
  end.

(* keys to the left / right of the hole, in order *)
Fixpoint ctx_left (c : ctx) : list Z :=
  match c with
  | [] => []
  | FL _ _ _ :: c' => ctx_left c'
  | FR l k _ :: c' => ctx_left c' ++ inorder l ++ [k]
  end.

Fixpoint ctx_right (c : ctx) : list Z :=
  match c with
  | [] => []
  | FL k _ r :: c' => k :: inorder r ++ ctx_right c'
  | FR _ _ _ :: c' => ctx_right c'
  end.

Lemma inorder_plug t c :
  inorder (plug t c) = ctx_left c ++ inorder t ++ ctx_right c.
Proof.
  revert t. induction c as [|[k h r|l k h] c IH]; intros t;
    cbn [plug fill ctx_left ctx_right].
  - rewrite app_nil_r. reflexivity.
  - rewrite IH. cbn [inorder]. rewrite <- !app_assoc. reflexivity.
  - rewrite IH. cbn [inorder]. rewrite <- !app_assoc. reflexivity.
Qed.

Lemma plug_app t c1 c2 : plug t (c1 ++ c2) = plug (plug t c1) c2.
Proof.
  revert t. induction c1 as [|f c1 IH]; intros t; cbn [app plug].
  - reflexivity.
  - apply IH.
Qed.

Lemma ctx_right_app c1 c2 : ctx_right (c1 ++ c2) = ctx_right c1 ++ ctx_right c2.
Proof.
  induction c1 as [|[k h r|l k h] c1 IH]; cbn [app ctx_right].
  - reflexivity.
  - rewrite IH. rewrite <- !app_assoc. reflexivity.
  - exact IH.
Qed.

Lemma plug_avl_same : forall c t,
  avl t -> ctx_ok (ht t) c -> avl (plug t c).
Proof.
  induction c as [|[k h r|l k h] c IH]; intros t Ht Hc; cbn [plug fill].
  - exact Ht.
  - cbn [ctx_ok] in Hc. destruct Hc as (Hr & Hh & Hb & Hc).
    apply IH; [constructor; auto; lia | cbn [ht]; exact Hc].
  - cbn [ctx_ok] in Hc. destruct Hc as (Hl & Hh & Hb & Hc).
    apply IH; [constructor; auto; lia | cbn [ht]; exact Hc].
Qed.

Lemma rebalance_up_eq c l k h r :
  rebalance_up c (N l k h r) =
  let t1 := rebalance_node (mk l k r) in
  if h =? ht t1 then plug t1 c else rebalance_from c t1.
Proof.
  destruct c; reflexivity.
Qed.

Lemma rebalance_from_ok : forall c t' h0,
  ctx_ok h0 c -> avl t' -> -1 <= ht t' - h0 <= 1 ->
  avl (rebalance_from c t') /\
  inorder (rebalance_from c t') = inorder (plug t' c).
Proof.
  induction c as [|f c IH]; intros t' h0 Hc Ht Hd.
  - cbn [rebalance_from plug]. auto.
  - cbn [rebalance_from plug].
    pose proof (avl_ht_nonneg _ Ht) as Ht0.
    destruct f as [k h r | l k h]; cbn [fill]; cbn [ctx_ok] in Hc.
    + destruct Hc as (Hr & Hh & Hb & Hc).
      rewrite rebalance_up_eq. cbv zeta.
      assert (Hd2 : -2 <= ht r - ht t' <= 2) by lia.
      destruct (rebalance_node_ok t' k r Ht Hr Hd2) as (A1 & A2 & A3 & A4 & A5).
      set (t1 := rebalance_node (mk t' k r)) in *.
      assert (Hin : inorder (plug t1 c) = inorder (plug (N t' k h r) c)).
      { rewrite !inorder_plug, A2. reflexivity. }
      destruct (Z.eqb_spec h (ht t1)) as [Heq|Hne].
      * split; [|exact Hin]. apply plug_avl_same; [exact A1|].
        rewrite <- Heq. exact Hc.
      * assert (Hd3 : -1 <= ht t1 - h <= 1).
        { assert (Hcases : -1 <= ht r - ht t' <= 1 \/ ht r - ht t' = 2 \/ ht r - ht t' = -2) by lia.
          destruct Hcases as [C|[C|C]].
          - specialize (A3 C). lia.
          - specialize (A4 C). lia.
          - specialize (A5 C). lia. }
        destruct (IH t1 h Hc A1 Hd3) as [B1 B2].
        split; [exact B1|]. rewrite B2. exact Hin.
    + destruct Hc as (Hl & Hh & Hb & Hc).
      rewrite rebalance_up_eq. cbv zeta.
      assert (Hd2 : -2 <= ht t' - ht l <= 2) by lia.
      destruct (rebalance_node_ok l k t' Hl Ht Hd2) as (A1 & A2 & A3 & A4 & A5).
      set (t1 := rebalance_node (mk l k t')) in *.
      assert (Hin : inorder (plug t1 c) = inorder (plug (N l k h t') c)).
      { rewrite !inorder_plug, A2. reflexivity. }
      destruct (Z.eqb_spec h (ht t1)) as [Heq|Hne].
      * split; [|exact Hin]. apply plug_avl_same; [exact A1|].
        rewrite <- Heq. exact Hc.
      * assert (Hd3 : -1 <= ht t1 - h <= 1).
        { assert (Hcases : -1 <= ht t' - ht l <= 1 \/ ht t' - ht l = 2 \/ ht t' - ht l = -2) by lia.
          destruct Hcases as [C|[C|C]].
          - specialize (A3 C). lia.
          - specialize (A4 C). lia.
          - specialize (A5 C). lia. }
        destruct (IH t1 h Hc A1 Hd3) as [B1 B2].
        split; [exact B1|]. rewrite B2. exact Hin.
Qed.

Corollary rebalance_from_inorder c t' h0 :
  ctx_ok h0 c -> avl t' -> -1 <= ht t' - h0 <= 1 ->
  inorder (rebalance_from c t') = ctx_left c ++ inorder t' ++ ctx_right c.
Proof.
  intros Hc Ht Hd. destruct (rebalance_from_ok c t' h0 Hc Ht Hd) as [_ H].
  rewrite H. apply inorder_plug.
Qed.
