(* AvlPtrTop.v -- the pointer-level theorems about /repo/src/iv_avl.c as
   transcribed in AvlPtrModel.v:

   RepF f s root t : store s with tree root pointer `root` represents the
     functional tree t of AvlModel.v; f maps the key of each tree node to the
     id of the object carrying it; every left/right/parent/height/key field
     of every tree node is determined by t (in particular every child's
     parent field points to its parent and the root's parent is NULL), and
     NoDup (map f (inorder t)) excludes sharing and cycles.
   Rep s root t := exists f, RepF f s root t.

   insert / delete at the pointer level return, without error and within the
   stated fuel, a store representing exactly the functional result; nodes
   outside the tree are untouched; min/max/next/prev are the extremes and the
   in-order successor / predecessor; a traversal enumerates the in-order node
   list within size t steps. *)

From Coq Require Import List ZArith Bool Lia FMapPositive Permutation.
From Ivv Require Import Avl.AvlModel Avl.AvlBasics Avl.AvlRebalance Avl.AvlProofs Avl.AvlPtrModel
  Avl.AvlPtrRep Avl.AvlPtrRot Avl.AvlPtrPath Avl.AvlPtrInsert Avl.AvlPtrTrav Avl.AvlPtrDelete
  Avl.AvlPtrDelete2.
Import ListNotations.
Local Open Scope Z_scope.

Definition RepF (f : Z -> positive) (s : store) (root : ptr) (t : tree) : Prop :=
  NoDup (idl f t) /\ root = tptr f t /\ rep f s t None.

Definition Rep (s : store) (root : ptr) (t : tree) : Prop := exists f, RepF f s root t.

Lemma RepF_zrep f s root t : RepF f s root t -> zrep f (mkState s root) t [].
Proof. intros (_ & Hr & H). unfold zrep. cbn [st_store st_root cpar repc croot]. auto. Qed.

Lemma zrep_RepF f s root t : zrep f (mkState s root) t [] -> NoDup (idl f t) -> RepF f s root t.
Proof. intros (H & _ & Hr) ND. cbn [st_store st_root cpar croot] in *. repeat split; auto. Qed.

(* ---- helpers ---- *)
Lemma tptr_ext f g t : (forall x, In x (inorder t) -> f x = g x) -> tptr f t = tptr g t.
Proof.
  destruct t as [|l k h r]; cbn [tptr]; [reflexivity|]. intros H. rewrite H; [reflexivity|].
  cbn [inorder]. apply in_or_app. right. left. reflexivity.
Qed.

Lemma rep_ext f g s : forall t par,
  (forall x, In x (inorder t) -> f x = g x) -> rep f s t par -> rep g s t par.
Proof.
  induction t as [|l IHl k h r IHr]; intros par H R; cbn [rep] in *; [exact I|].
  destruct R as (R1 & R2 & R3).
  assert (Hl : forall x, In x (inorder l) -> f x = g x).
  { intros x Hx. apply H. cbn [inorder]. apply in_or_app. auto. }
  assert (Hr : forall x, In x (inorder r) -> f x = g x).
  { intros x Hx. apply H. cbn [inorder]. apply in_or_app. right. right. exact Hx. }
  assert (Hk : f k = g k).
  { apply H. cbn [inorder]. apply in_or_app. right. left. reflexivity. }
  rewrite <- Hk, <- (tptr_ext f g l Hl), <- (tptr_ext f g r Hr).
  split; [exact R1|]. split; [apply IHl | apply IHr]; auto.
Qed.

Lemma rep_find f s : forall t par k, rep f s t par -> In k (inorder t) ->
  exists n, PM.find (f k) s = Some n /\ n_key n = k.
Proof.
  induction t as [|l IHl k' h r IHr]; intros par k R Hin; cbn [rep inorder] in *; [contradiction|].
  destruct R as (R1 & R2 & R3). apply in_app_or in Hin. destruct Hin as [Hin|[->|Hin]].
  - eapply IHl; eauto.
  - eexists. split; [exact R1 | reflexivity].
  - eapply IHr; eauto.
Qed.

Lemma descend_some k : forall t c, ~ In k (inorder t) -> exists c', descend k t c = Some c'.
Proof.
  induction t as [|l IHl k' h r IHr]; intros c Hn; cbn [descend inorder] in *; [eauto|].
  rewrite in_app_iff in Hn. cbn [In] in Hn.
  destruct (Z.ltb_spec k k'); [apply IHl; tauto|].
  destruct (Z.ltb_spec k' k); [apply IHr; tauto|].
  exfalso. apply Hn. right. left. lia.
Qed.

Lemma insert_perm k t t' : AvlModel.insert k t = Some t' -> Permutation (inorder t') (k :: inorder t).
Proof.
  unfold AvlModel.insert. rewrite insert_go_descend.
  destruct (descend k t []) as [c'|] eqn:Hd; [|discriminate]. intros [= <-].
  rewrite rebalance_from_inorder_gen. destruct (descend_plug k t [] c' Hd) as (Hp & _).
  cbn [plug] in Hp. rewrite <- Hp. apply inorder_plug_leaf.
Qed.

Lemma find_some k : forall t c0 tn c, AvlModel.find k t c0 = Some (tn, c) ->
  exists l h r, tn = N l k h r /\ plug tn c = plug t c0.
Proof.
  induction t as [|l IHl k' h r IHr]; intros c0 tn c; cbn [AvlModel.find]; [discriminate|].
  destruct (Z.ltb_spec k k') as [L1|L1].
  - intros Hf. apply IHl in Hf. exact Hf.
  - destruct (Z.ltb_spec k' k) as [L2|L2].
    + intros Hf. apply IHr in Hf. exact Hf.
    + intros [= <- <-]. assert (k' = k) by lia. subst k'. eauto.
Qed.

(* every key of the tree sits at some zipper position *)
Lemma locate k : forall t0 c0, In k (inorder t0) ->
  exists l h r c, plug (N l k h r) c = plug t0 c0.
Proof.
  induction t0 as [|l IHl k' h r IHr]; intros c0 Hin; cbn [inorder] in Hin; [contradiction|].
  apply in_app_or in Hin. destruct Hin as [Hin|[->|Hin]].
  - apply (IHl (FL k' h r :: c0) Hin).
  - eauto.
  - apply (IHr (FR l k' h :: c0) Hin).
Qed.

Lemma nodup_split_unique (a b a' b' : list Z) k :
  NoDup (a ++ k :: b) -> a ++ k :: b = a' ++ k :: b' -> a = a' /\ b = b'.
Proof.
  revert a'. induction a as [|x a IH]; intros a' ND Heq.
  - destruct a' as [|y a']; cbn [app] in *.
    + injection Heq as ->. auto.
    + injection Heq as -> ->. apply NoDup_cons_iff in ND. exfalso. apply (proj1 ND).
      apply in_or_app. right. left. reflexivity.
  - destruct a' as [|y a']; cbn [app] in *.
    + injection Heq as -> <-. apply NoDup_cons_iff in ND. exfalso. apply (proj1 ND).
      apply in_or_app. right. left. reflexivity.
    + injection Heq as -> Heq. apply NoDup_cons_iff in ND. destruct (IH a' (proj2 ND) Heq) as (-> & ->). auto.
Qed.

Lemma ctx_lrev_rev c : ctx_lrev c = rev (ctx_left c).
Proof.
  induction c as [|[k h r|l k h] c IH]; cbn [ctx_lrev ctx_left]; [reflexivity|exact IH|].
  rewrite !rev_app_distr. cbn [rev app]. rewrite IH. reflexivity.
Qed.

Lemma avl_hpos t : avl t -> hpos t.
Proof.
  induction 1 as [|l k h r Hl IHl Hr IHr Hh Hb]; cbn [hpos]; [exact I|].
  pose proof (avl_ht_nonneg _ Hl). pose proof (avl_ht_nonneg _ Hr). repeat split; auto; lia.
Qed.

Lemma avl_depth t : avl t -> Z.of_nat (depth t) = ht t.
Proof.
  induction 1 as [|l k h r Hl IHl Hr IHr Hh Hb]; cbn [depth ht]; [reflexivity|]. lia.
Qed.

(* ---- insert ---- *)
Theorem ptr_insert_fresh f s root t a n fuel :
  RepF f s root t -> hpos t -> PM.find a s = Some n ->
  ~ In (n_key n) (inorder t) -> (depth t < fuel)%nat ->
  exists t' s' root' f',
    AvlModel.insert (n_key n) t = Some t'
    /\ iv_avl_tree_insert fuel (mkState s root) (Some a) = Ok (mkState s' root', 0)
    /\ RepF f' s' root' t'
    /\ f' (n_key n) = a /\ (forall k, In k (inorder t) -> f' k = f k)
    /\ (forall i, i <> a -> ~ In i (idl f t) -> PM.find i s' = PM.find i s).
Proof.
  intros HR Hp Ha Hfresh Hfuel. set (k := n_key n) in *.
  destruct HR as (ND & Hroot & Hrep).
  set (f' := (fun x => if x =? k then a else f x) : Z -> positive).
  assert (Hagree : forall x, In x (inorder t) -> f x = f' x).
  { intros x Hx. unfold f'. destruct (Z.eqb_spec x k); [subst x; contradiction | reflexivity]. }
  assert (Hidl : idl f' t = idl f t).
  { apply map_ext_in. intros x Hx. symmetry. apply Hagree. exact Hx. }
  assert (Hfa : f' k = a) by (unfold f'; rewrite Z.eqb_refl; reflexivity).
  assert (Hna : ~ In a (idl f t)).
  { intros Hi. apply in_map_iff in Hi. destruct Hi as (k' & Hk' & Hin).
    destruct (rep_find f s t None k' Hrep Hin) as (n' & Hn' & Hkey).
    rewrite Hk' in Hn'. rewrite Ha in Hn'. injection Hn' as <-. apply Hfresh. unfold k in *. rewrite Hkey. exact Hin. }
  assert (Hz : zrep f' (mkState s root) t []).
  { apply RepF_zrep. split; [rewrite Hidl; exact ND|]. split.
    - rewrite Hroot. apply tptr_ext. exact Hagree.
    - eapply rep_ext; [exact Hagree | exact Hrep]. }
  destruct (descend_some k t [] Hfresh) as (c' & Hd).
  assert (Hins : AvlModel.insert k t = Some (rebalance_from c' (N E k 1 E))).
  { unfold AvlModel.insert. rewrite insert_go_descend, Hd. reflexivity. }
  destruct (insert_fresh_z f' s root t a n fuel (rebalance_from c' (N E k 1 E)) Hz Hp Ha Hfa) as (st' & E1 & Hz' & F').
  { rewrite Hidl. constructor; assumption. }
  { exact Hfuel. }
  { exact Hins. }
  destruct st' as [s' root'].
  exists (rebalance_from c' (N E k 1 E)), s', root', f'.
  split; [exact Hins|]. split; [exact E1|]. split; [|split; [exact Hfa|split]].
  - apply zrep_RepF; [exact Hz'|].
    eapply Permutation_NoDup; [apply Permutation_map; symmetry; apply (insert_perm k t _ Hins)|].
    cbn [map]. rewrite Hfa, Hidl. constructor; assumption.
  - intros x Hx. symmetry. apply Hagree. exact Hx.
  - intros i Hi1 Hi2. cbn [st_store] in F'. apply F'; [exact Hi1 | rewrite Hidl; exact Hi2].
Qed.

Theorem ptr_insert_dup f s root t a n fuel :
  RepF f s root t -> PM.find a s = Some n -> (depth t <= fuel)%nat ->
  AvlModel.insert (n_key n) t = None ->
  iv_avl_tree_insert fuel (mkState s root) (Some a) = Ok (mkState s root, -1).
Proof.
  intros HR Ha Hfuel Hins. eapply insert_dup_z; eauto. apply RepF_zrep. exact HR.
Qed.

(* ---- delete ---- *)
Theorem ptr_delete f s root t k tn c fuel :
  RepF f s root t -> hpos t -> AvlModel.find k t [] = Some (tn, c) -> (depth t <= fuel)%nat ->
  exists s' root',
    iv_avl_tree_delete fuel (mkState s root) (Some (f k)) = Ok (mkState s' root')
    /\ RepF f s' root' (delete_at tn c)
    /\ (forall i, ~ In i (idl f t) -> PM.find i s' = PM.find i s).
Proof.
  intros HR Hp Hfind Hfuel. pose proof HR as (ND & _ & _).
  destruct (find_some k t [] tn c Hfind) as (l & h & r & -> & Hplug). cbn [plug] in Hplug.
  assert (Hz : zrep f (mkState s root) (N l k h r) c).
  { apply (proj2 (zrep_plug f _ c _)). rewrite Hplug. apply RepF_zrep. exact HR. }
  destruct (delete_z f s root l k h r c fuel Hz) as (st' & E1 & Hz' & ND' & F'); try (rewrite Hplug; assumption).
  destruct st' as [s' root']. exists s', root'. split; [exact E1|]. split.
  - apply zrep_RepF; assumption.
  - rewrite Hplug in F'. exact F'.
Qed.

(* ---- parent pointers, no sharing ---- *)
Definition parent_ok (s : store) (root : ptr) (ids : list positive) : Prop :=
  NoDup ids
  /\ (forall r, root = Some r -> In r ids /\ exists n, PM.find r s = Some n /\ n_parent n = None)
  /\ (root = None -> ids = [])
  /\ (forall p, In p ids -> exists n, PM.find p s = Some n
       /\ (forall c, n_left n = Some c ->
             In c ids /\ exists m, PM.find c s = Some m /\ n_parent m = Some p)
       /\ (forall c, n_right n = Some c ->
             In c ids /\ exists m, PM.find c s = Some m /\ n_parent m = Some p)
       /\ (forall q, n_parent n = Some q ->
             In q ids /\ exists m, PM.find q s = Some m /\ (n_left m = Some p \/ n_right m = Some p))
       /\ (n_parent n = None -> root = Some p)).

Lemma in_idl_root f t i : tptr f t = Some i -> In i (idl f t).
Proof. apply in_tptr. Qed.

Lemma child_ok f s t p i :
  rep f s t (Some p) -> tptr f t = Some i ->
  exists m, PM.find i s = Some m /\ n_parent m = Some p.
Proof.
  destruct t as [|l k h r]; cbn [tptr rep]; [discriminate|]. intros (H & _) [= <-].
  eexists. split; [exact H | reflexivity].
Qed.

Theorem ptr_parent_pointers f s root t : RepF f s root t -> parent_ok s root (idl f t).
Proof.
  intros HR. pose proof (RepF_zrep _ _ _ _ HR) as Hz. destruct HR as (ND & Hroot & Hrep).
  split; [exact ND|]. split; [|split].
  - intros r Hr. rewrite Hroot in Hr. split; [apply in_idl_root; exact Hr|].
    destruct t as [|l k h rr]; cbn [tptr rep] in *; [discriminate|]. injection Hr as <-.
    destruct Hrep as (H & _). eexists. split; [exact H | reflexivity].
  - intros Hr. rewrite Hroot in Hr. destruct t; [reflexivity | discriminate].
  - intros p Hp. apply in_map_iff in Hp. destruct Hp as (k & <- & Hin).
    destruct (locate k t [] Hin) as (l & h & r & c & Hplug). cbn [plug] in Hplug.
    assert (Hzk : zrep f (mkState s root) (N l k h r) c).
    { apply (proj2 (zrep_plug f _ c _)). rewrite Hplug. exact Hz. }
    destruct Hzk as (Hr & Hc & Hrt). cbn [st_store st_root rep tptr] in Hr, Hc, Hrt.
    destruct Hr as (Hk & Hl & Hrr).
    assert (Hsub : forall i, In i (idl f (N l k h r)) \/ In i (cidl f c) -> In i (idl f t)).
    { intros i Hi. rewrite <- Hplug. apply in_idl_plug. exact Hi. }
    eexists. split; [exact Hk|]. cbn [n_left n_right n_parent].
    split; [|split; [|split]].
    + intros ch Hch. split; [|exact (child_ok f s l (f k) ch Hl Hch)].
      apply Hsub. left. cbn [inorder]. rewrite map_app. apply in_or_app. left. apply in_idl_root. exact Hch.
    + intros ch Hch. split; [|exact (child_ok f s r (f k) ch Hrr Hch)].
      apply Hsub. left. cbn [inorder]. rewrite map_app. apply in_or_app. right. right.
      apply in_idl_root. exact Hch.
    + intros q Hq. split; [apply Hsub; right; apply cpar_in; exact Hq|].
      destruct c as [|[k' h' r'|l' k' h'] c]; cbn [cpar fkey repc] in *; [discriminate| |];
        injection Hq as <-; destruct Hc as (Hk' & _); eexists; (split; [exact Hk'|]); cbn [n_left n_right]; auto.
    + intros Hq. destruct c as [|fr c]; cbn [cpar croot] in *; [exact Hrt | discriminate].
Qed.

(* ---- traversal ---- *)
Theorem ptr_forward f s root t fuel :
  RepF f s root t -> (depth t <= fuel)%nat ->
  forward_ptr (size t) fuel (mkState s root) = Ok (idl f t)
  /\ backward_ptr (size t) fuel (mkState s root) = Ok (map f (rev (inorder t)))
  /\ keys_of s (idl f t) = inorder t.
Proof.
  intros HR Hfuel. pose proof (RepF_zrep _ _ _ _ HR) as Hz. destruct HR as (ND & Hroot & Hrep).
  split; [apply forward_z; assumption|]. split; [apply backward_z; assumption|].
  assert (H : forall l, (forall k, In k l -> In k (inorder t)) -> keys_of s (map f l) = l).
  { induction l as [|k l IH]; intros Hl; cbn [map keys_of]; [reflexivity|].
    destruct (rep_find f s t None k Hrep (Hl k (or_introl eq_refl))) as (n & Hn & Hk).
    rewrite Hn, Hk, IH; [reflexivity|]. intros k' Hk'. apply Hl. right. exact Hk'. }
  apply H. auto.
Qed.

Theorem ptr_next_prev f s root t fuel a k b :
  RepF f s root t -> (depth t <= fuel)%nat -> inorder t = a ++ k :: b ->
  iv_avl_tree_next fuel (mkState s root) (Some (f k)) = Ok (hd_ptr f b)
  /\ iv_avl_tree_prev fuel (mkState s root) (Some (f k)) = Ok (hd_ptr f (rev a)).
Proof.
  intros HR Hfuel Hin. pose proof (RepF_zrep _ _ _ _ HR) as Hz. destruct HR as (ND & Hroot & Hrep).
  assert (Hk : In k (inorder t)) by (rewrite Hin; apply in_or_app; right; left; reflexivity).
  destruct (locate k t [] Hk) as (l & h & r & c & Hplug). cbn [plug] in Hplug.
  assert (Hzk : zrep f (mkState s root) (N l k h r) c).
  { apply (proj2 (zrep_plug f _ c _)). rewrite Hplug. exact Hz. }
  pose proof (NoDup_map_inv f _ ND) as NDk.
  assert (Hsplit : a = ctx_left c ++ inorder l /\ b = inorder r ++ ctx_right c).
  { apply (nodup_split_unique _ _ _ _ k); [rewrite <- Hin; exact NDk|].
    rewrite <- Hin, <- Hplug, inorder_plug. cbn [inorder]. rewrite <- !app_assoc. reflexivity. }
  destruct Hsplit as (-> & ->).
  destruct (next_z f _ t l k h r c fuel Hzk Hplug ND Hfuel) as (A & B).
  destruct (prev_z f _ t l k h r c fuel Hzk Hplug ND Hfuel) as (A' & B').
  rewrite A, A'. rewrite (locptr_after f _ _ _ B), (locptr_before f _ _ _ B').
  destruct (next_spec l k h r c) as (_ & C). destruct (prev_spec l k h r c) as (_ & C').
  rewrite C, C'. rewrite rev_app_distr, ctx_lrev_rev. split; reflexivity.
Qed.

Theorem ptr_min_max f s root t fuel :
  RepF f s root t -> (depth t <= S fuel)%nat ->
  iv_avl_tree_min fuel (mkState s root) = Ok (hd_ptr f (inorder t))
  /\ iv_avl_tree_max fuel (mkState s root) = Ok (hd_ptr f (rev (inorder t))).
Proof.
  intros HR Hfuel. pose proof (RepF_zrep _ _ _ _ HR) as Hz.
  destruct (min_z f _ t fuel Hz Hfuel) as (A & B). destruct (max_z f _ t fuel Hz Hfuel) as (A' & B').
  rewrite A, A', (locptr_after f _ _ _ B), (locptr_before f _ _ _ B').
  unfold tree_min, tree_max. destruct t as [|l k h r]; [split; reflexivity|].
  destruct (leftmost_spec (N l k h r) []) as (_ & C); [discriminate|].
  destruct (rightmost_spec (N l k h r) []) as (_ & C'); [discriminate|].
  rewrite C, C'. cbn [ctx_right ctx_lrev]. rewrite !app_nil_r. split; reflexivity.
Qed.
