(* AvlPtrTrav.v -- iv_avl_tree_min/max/next/prev of AvlPtrModel.v (walks over
   left/right/parent pointers) compute the zipper moves leftmost / rightmost /
   next / prev of AvlModel.v, hence in-order successor / predecessor; a full
   traversal enumerates the in-order node list and stops after size t steps. *)

From Coq Require Import List ZArith Bool Lia FMapPositive Permutation.
From Ivv Require Import Avl.AvlModel Avl.AvlBasics Avl.AvlRebalance Avl.AvlProofs Avl.AvlPtrModel
  Avl.AvlPtrRep Avl.AvlPtrRot Avl.AvlPtrPath Avl.AvlPtrInsert.
Import ListNotations.
Local Open Scope Z_scope.

Lemma depth_plug c : forall t, (length c + depth t <= depth (plug t c))%nat.
Proof.
  induction c as [|[k h r|l k h] c IH]; intros t; cbn [plug fill length]; [lia| |].
  - specialize (IH (N t k h r)). cbn [depth] in IH. lia.
  - specialize (IH (N l k h t)). cbn [depth] in IH. lia.
Qed.

Section Trav.
Variable f : Z -> positive.

Notation zrep := (zrep f).
Notation rep := (rep f).
Notation tptr := (tptr f).
Notation cidl := (cidl f).
Notation cref := (cref f).
Notation cpar := (cpar f).

Definition locptr (o : option loc) : ptr :=
  match o with Some (t, _) => tptr t | None => None end.

(* a location inside the represented tree T *)
Definition vloc (st : state) (T : tree) (o : option loc) : Prop :=
  match o with
  | None => True
  | Some (t, c) => t <> E /\ zrep st t c /\ plug t c = T
  end.

Lemma walk_left_z st : forall t c fuel,
  t <> E -> zrep st t c -> (depth t <= S fuel)%nat ->
  walk_left fuel st (tptr t) = Ok (locptr (leftmost t c))
  /\ vloc st (plug t c) (leftmost t c).
Proof.
  destruct st as [s root].
  induction t as [|l IHl k h r IHr]; intros c fuel HE Hz Hfuel; [congruence|].
  pose proof Hz as (Hr & _ & _). cbn [st_store AvlPtrRep.rep] in Hr. destruct Hr as (Hk & _ & _).
  cbn [leftmost AvlPtrRep.tptr].
  destruct l as [|ll lk lh lr].
  - destruct fuel; cbn [walk_left]; rewrite (get_left_ok _ _ _ _ Hk); simp;
      (split; [reflexivity|]); cbn [vloc]; (split; [discriminate | split; [exact Hz | reflexivity]]).
  - cbn [depth] in Hfuel. destruct fuel as [|fuel]; [lia|].
    cbn [walk_left]. rewrite (get_left_ok _ _ _ _ Hk). simp.
    apply (IHl (FL k h r :: c) fuel); [discriminate| |cbn [depth]; lia].
    apply (proj2 (zrep_fill f _ (FL k h r) _ c)). exact Hz.
Qed.

Lemma walk_right_z st : forall t c fuel,
  t <> E -> zrep st t c -> (depth t <= S fuel)%nat ->
  walk_right fuel st (tptr t) = Ok (locptr (rightmost t c))
  /\ vloc st (plug t c) (rightmost t c).
Proof.
  destruct st as [s root].
  induction t as [|l IHl k h r IHr]; intros c fuel HE Hz Hfuel; [congruence|].
  pose proof Hz as (Hr & _ & _). cbn [st_store AvlPtrRep.rep] in Hr. destruct Hr as (Hk & _ & _).
  cbn [rightmost AvlPtrRep.tptr].
  destruct r as [|rl rk rh rr].
  - destruct fuel; cbn [walk_right]; rewrite (get_right_ok _ _ _ _ Hk); simp;
      (split; [reflexivity|]); cbn [vloc]; (split; [discriminate | split; [exact Hz | reflexivity]]).
  - cbn [depth] in Hfuel. destruct fuel as [|fuel]; [lia|].
    cbn [walk_right]. rewrite (get_right_ok _ _ _ _ Hk). simp.
    apply (IHr (FR l k h :: c) fuel); [discriminate| |cbn [depth]; lia].
    apply (proj2 (zrep_fill f _ (FR l k h) _ c)). exact Hz.
Qed.

Lemma tptr_neq_sibling t r :
  t <> E -> (forall i, In i (idl f t) -> ~ In i (idl f r)) -> ptr_eqb (tptr t) (tptr r) = false.
Proof.
  intros HE Hd. destruct t as [|a x y b]; [congruence|]. destruct r as [|a' x' y' b']; [reflexivity|].
  cbn [AvlPtrRep.tptr]. apply ptr_eqb_neq. intros Heq.
  apply (Hd (f x)).
  - apply in_map. cbn [inorder]. apply in_or_app. right. left. reflexivity.
  - rewrite Heq. apply in_map. cbn [inorder]. apply in_or_app. right. left. reflexivity.
Qed.

Lemma climb_right_z st : forall c t fuel,
  t <> E -> zrep st t c -> NoDup (idl f (plug t c)) -> (length c <= fuel)%nat ->
  climb_right fuel st (tptr t) (cpar c) = Ok (locptr (up_while_right t c))
  /\ vloc st (plug t c) (up_while_right t c).
Proof.
  destruct st as [s root].
  induction c as [|[k h r|l k h] c IH]; intros t fuel HE Hz ND Hfuel.
  - cbn [AvlPtrRep.cpar up_while_right locptr vloc]. destruct fuel; cbn [climb_right]; auto.
  - cbn [AvlPtrRep.cpar up_while_right locptr vloc fkey AvlPtrRep.tptr].
    pose proof Hz as (_ & Hc & _). cbn [st_store AvlPtrRep.repc] in Hc. destruct Hc as (Hk & _ & _).
    assert (Hne : ptr_eqb (tptr t) (tptr r) = false).
    { apply tptr_neq_sibling; [exact HE|]. rewrite nodup_plug in ND. cbn [AvlPtrRep.cidl] in ND.
      intros i Hi Hi2. apply (nodup_app_disj _ _ ND i Hi). right. apply in_or_app. left. exact Hi2. }
    assert (Hgoal : climb_right fuel (mkState s root) (tptr t) (Some (f k)) = Ok (Some (f k))).
    { destruct fuel; cbn [climb_right]; rewrite (get_right_ok _ _ _ _ Hk); simp; rewrite Hne; reflexivity. }
    split; [exact Hgoal|]. split; [discriminate|]. split; [|reflexivity].
    apply (proj1 (zrep_fill f _ (FL k h r) t c)). exact Hz.
  - cbn [AvlPtrRep.cpar up_while_right fkey length] in *.
    pose proof Hz as (_ & Hc & _). cbn [st_store AvlPtrRep.repc] in Hc. destruct Hc as (Hk & _ & _).
    destruct fuel as [|fuel]; [lia|]. cbn [climb_right].
    rewrite (get_right_ok _ _ _ _ Hk). simp. rewrite ptr_eqb_refl.
    rewrite (get_parent_ok _ _ _ _ Hk). simp.
    apply (IH (N l k h t) fuel); [discriminate| |exact ND|lia].
    apply (proj1 (zrep_fill f _ (FR l k h) t c)). exact Hz.
Qed.

Lemma climb_left_z st : forall c t fuel,
  t <> E -> zrep st t c -> NoDup (idl f (plug t c)) -> (length c <= fuel)%nat ->
  climb_left fuel st (tptr t) (cpar c) = Ok (locptr (up_while_left t c))
  /\ vloc st (plug t c) (up_while_left t c).
Proof.
  destruct st as [s root].
  induction c as [|[k h r|l k h] c IH]; intros t fuel HE Hz ND Hfuel.
  - cbn [AvlPtrRep.cpar up_while_left locptr vloc]. destruct fuel; cbn [climb_left]; auto.
  - cbn [AvlPtrRep.cpar up_while_left fkey length] in *.
    pose proof Hz as (_ & Hc & _). cbn [st_store AvlPtrRep.repc] in Hc. destruct Hc as (Hk & _ & _).
    destruct fuel as [|fuel]; [lia|]. cbn [climb_left].
    rewrite (get_left_ok _ _ _ _ Hk). simp. rewrite ptr_eqb_refl.
    rewrite (get_parent_ok _ _ _ _ Hk). simp.
    apply (IH (N t k h r) fuel); [discriminate| |exact ND|lia].
    apply (proj1 (zrep_fill f _ (FL k h r) t c)). exact Hz.
  - cbn [AvlPtrRep.cpar up_while_left locptr vloc fkey AvlPtrRep.tptr].
    pose proof Hz as (_ & Hc & _). cbn [st_store AvlPtrRep.repc] in Hc. destruct Hc as (Hk & _ & _).
    assert (Hne : ptr_eqb (tptr t) (tptr l) = false).
    { apply tptr_neq_sibling; [exact HE|]. rewrite nodup_plug in ND. cbn [AvlPtrRep.cidl] in ND.
      intros i Hi Hi2. apply (nodup_app_disj _ _ ND i Hi). right. apply in_or_app. left. exact Hi2. }
    assert (Hgoal : climb_left fuel (mkState s root) (tptr t) (Some (f k)) = Ok (Some (f k))).
    { destruct fuel; cbn [climb_left]; rewrite (get_left_ok _ _ _ _ Hk); simp; rewrite Hne; reflexivity. }
    split; [exact Hgoal|]. split; [discriminate|]. split; [|reflexivity].
    apply (proj1 (zrep_fill f _ (FR l k h) t c)). exact Hz.
Qed.

Lemma next_z st T l k h r c fuel :
  zrep st (N l k h r) c -> plug (N l k h r) c = T -> NoDup (idl f T) -> (depth T <= fuel)%nat ->
  iv_avl_tree_next fuel st (Some (f k)) = Ok (locptr (next (N l k h r, c)))
  /\ vloc st T (next (N l k h r, c)).
Proof.
  intros Hz HT ND Hfuel. pose proof (depth_plug c (N l k h r)) as Hd. rewrite HT in Hd. cbn [depth] in Hd.
  destruct st as [s root].
  pose proof Hz as (Hr & _ & _). cbn [st_store AvlPtrRep.rep] in Hr. destruct Hr as (Hk & _ & _).
  unfold iv_avl_tree_next. rewrite (get_right_ok _ _ _ _ Hk). simp. cbn [next].
  destruct r as [|rl rk rh rr].
  - cbn [AvlPtrRep.tptr]. rewrite (get_parent_ok _ _ _ _ Hk). simp.
    rewrite <- HT. apply (climb_right_z _ c (N l k h E) fuel); [discriminate|exact Hz| |lia].
    rewrite HT. exact ND.
  - cbn [AvlPtrRep.tptr].
    destruct (walk_left_z (mkState s root) (N rl rk rh rr) (FR l k h :: c) fuel) as (A & B).
    + discriminate.
    + apply (proj2 (zrep_fill f _ (FR l k h) _ c)). exact Hz.
    + cbn [depth] in *. lia.
    + split; [exact A|]. cbn [plug fill] in B. rewrite HT in B. exact B.
Qed.

Lemma prev_z st T l k h r c fuel :
  zrep st (N l k h r) c -> plug (N l k h r) c = T -> NoDup (idl f T) -> (depth T <= fuel)%nat ->
  iv_avl_tree_prev fuel st (Some (f k)) = Ok (locptr (prev (N l k h r, c)))
  /\ vloc st T (prev (N l k h r, c)).
Proof.
  intros Hz HT ND Hfuel. pose proof (depth_plug c (N l k h r)) as Hd. rewrite HT in Hd. cbn [depth] in Hd.
  destruct st as [s root].
  pose proof Hz as (Hr & _ & _). cbn [st_store AvlPtrRep.rep] in Hr. destruct Hr as (Hk & _ & _).
  unfold iv_avl_tree_prev. rewrite (get_left_ok _ _ _ _ Hk). simp. cbn [prev].
  destruct l as [|ll lk lh lr].
  - cbn [AvlPtrRep.tptr]. rewrite (get_parent_ok _ _ _ _ Hk). simp.
    rewrite <- HT. apply (climb_left_z _ c (N E k h r) fuel); [discriminate|exact Hz| |lia].
    rewrite HT. exact ND.
  - cbn [AvlPtrRep.tptr].
    destruct (walk_right_z (mkState s root) (N ll lk lh lr) (FL k h r :: c) fuel) as (A & B).
    + discriminate.
    + apply (proj2 (zrep_fill f _ (FL k h r) _ c)). exact Hz.
    + cbn [depth] in *. lia.
    + split; [exact A|]. cbn [plug fill] in B. rewrite HT in B. exact B.
Qed.

(* the pointer of a location is the first element of its remaining traversal *)
Definition hd_ptr (l : list Z) : ptr :=
  match l with [] => None | k :: _ => Some (f k) end.

Lemma locptr_after st T o : vloc st T o -> locptr o = hd_ptr (after o).
Proof.
  destruct o as [[t c]|]; [|reflexivity]. intros (HE & _). destruct t; [congruence|reflexivity].
Qed.

Lemma locptr_before st T o : vloc st T o -> locptr o = hd_ptr (before o).
Proof.
  destruct o as [[t c]|]; [|reflexivity]. intros (HE & _). destruct t; [congruence|reflexivity].
Qed.

Lemma vloc_wf st T o : vloc st T o -> wf_opt o.
Proof. destruct o as [[t c]|]; cbn [vloc wf_opt fst]; tauto. Qed.

Lemma iter_next_z st T fuel : NoDup (idl f T) -> (depth T <= fuel)%nat ->
  forall n o, vloc st T o -> (length (after o) <= n)%nat ->
  iter_next_ptr n fuel st (locptr o) = Ok (map f (after o)).
Proof.
  intros ND Hfuel. induction n as [|n IH]; intros o Hv Hn.
  - destruct o as [[t c]|]; [|reflexivity]. destruct Hv as (HE & _).
    destruct t; [congruence|]. cbn [after length] in Hn. lia.
  - destruct o as [[t c]|]; [|reflexivity]. destruct Hv as (HE & Hz & HT).
    destruct t as [|l k h r]; [congruence|].
    destruct (next_z st T l k h r c fuel Hz HT ND Hfuel) as (A & B).
    destruct (next_spec l k h r c) as (_ & C).
    cbn [locptr AvlPtrRep.tptr iter_next_ptr]. rewrite A. simp.
    rewrite IH; [|exact B|].
    + simp. cbn [after map]. rewrite C. reflexivity.
    + cbn [after length] in Hn. rewrite C. lia.
Qed.

Lemma iter_prev_z st T fuel : NoDup (idl f T) -> (depth T <= fuel)%nat ->
  forall n o, vloc st T o -> (length (before o) <= n)%nat ->
  iter_prev_ptr n fuel st (locptr o) = Ok (map f (before o)).
Proof.
  intros ND Hfuel. induction n as [|n IH]; intros o Hv Hn.
  - destruct o as [[t c]|]; [|reflexivity]. destruct Hv as (HE & _).
    destruct t; [congruence|]. cbn [before length] in Hn. lia.
  - destruct o as [[t c]|]; [|reflexivity]. destruct Hv as (HE & Hz & HT).
    destruct t as [|l k h r]; [congruence|].
    destruct (prev_z st T l k h r c fuel Hz HT ND Hfuel) as (A & B).
    destruct (prev_spec l k h r c) as (_ & C).
    cbn [locptr AvlPtrRep.tptr iter_prev_ptr]. rewrite A. simp.
    rewrite IH; [|exact B|].
    + simp. cbn [before map]. rewrite C. reflexivity.
    + cbn [before length] in Hn. rewrite C. lia.
Qed.

Lemma min_z st T fuel : zrep st T [] -> (depth T <= S fuel)%nat ->
  iv_avl_tree_min fuel st = Ok (locptr (tree_min T)) /\ vloc st T (tree_min T).
Proof.
  intros Hz Hfuel. unfold iv_avl_tree_min, tree_min.
  pose proof Hz as (_ & _ & Hroot). cbn [AvlPtrRep.croot] in Hroot. rewrite Hroot.
  destruct T as [|l k h r]; [cbn [AvlPtrRep.tptr leftmost locptr vloc]; auto|].
  change (match tptr (N l k h r) with Some _ => walk_left fuel st (tptr (N l k h r)) | None => Ok None end)
    with (walk_left fuel st (tptr (N l k h r))).
  apply (walk_left_z st (N l k h r) [] fuel); [discriminate|exact Hz|exact Hfuel].
Qed.

Lemma max_z st T fuel : zrep st T [] -> (depth T <= S fuel)%nat ->
  iv_avl_tree_max fuel st = Ok (locptr (tree_max T)) /\ vloc st T (tree_max T).
Proof.
  intros Hz Hfuel. unfold iv_avl_tree_max, tree_max.
  pose proof Hz as (_ & _ & Hroot). cbn [AvlPtrRep.croot] in Hroot. rewrite Hroot.
  destruct T as [|l k h r]; [cbn [AvlPtrRep.tptr rightmost locptr vloc]; auto|].
  change (match tptr (N l k h r) with Some _ => walk_right fuel st (tptr (N l k h r)) | None => Ok None end)
    with (walk_right fuel st (tptr (N l k h r))).
  apply (walk_right_z st (N l k h r) [] fuel); [discriminate|exact Hz|exact Hfuel].
Qed.

(* iv_avl_tree_for_each visits exactly the in-order node list, size T iterations suffice *)
Lemma forward_z st T fuel : zrep st T [] -> NoDup (idl f T) -> (depth T <= fuel)%nat ->
  forward_ptr (size T) fuel st = Ok (idl f T).
Proof.
  intros Hz ND Hfuel. unfold forward_ptr.
  destruct (min_z st T fuel Hz ltac:(lia)) as (A & B). rewrite A. simp.
  assert (Haft : after (tree_min T) = inorder T).
  { unfold tree_min. destruct T as [|l k h r]; [reflexivity|].
    destruct (leftmost_spec (N l k h r) []) as (_ & C); [discriminate|].
    rewrite C. cbn [ctx_right]. apply app_nil_r. }
  rewrite (iter_next_z st T fuel ND Hfuel (size T) _ B).
  - rewrite Haft. reflexivity.
  - rewrite Haft, length_inorder. lia.
Qed.

Lemma backward_z st T fuel : zrep st T [] -> NoDup (idl f T) -> (depth T <= fuel)%nat ->
  backward_ptr (size T) fuel st = Ok (map f (rev (inorder T))).
Proof.
  intros Hz ND Hfuel. unfold backward_ptr.
  destruct (max_z st T fuel Hz ltac:(lia)) as (A & B). rewrite A. simp.
  assert (Hbef : before (tree_max T) = rev (inorder T)).
  { unfold tree_max. destruct T as [|l k h r]; [reflexivity|].
    destruct (rightmost_spec (N l k h r) []) as (_ & C); [discriminate|].
    rewrite C. cbn [ctx_lrev]. apply app_nil_r. }
  rewrite (iter_prev_z st T fuel ND Hfuel (size T) _ B).
  - rewrite Hbef. reflexivity.
  - rewrite Hbef, rev_length, length_inorder. lia.
Qed.

End Trav.
