(* AvlPtrRep.v -- representation predicate relating a pointer-level store
   (AvlPtrModel.v) to a functional tree (AvlModel.v), and the basic lemmas:
   frame, zipper decomposition, primitive reads/writes.

   Node identity follows the key: f maps the key of a tree node to the id of
   the object that carries it (the C code never changes the key of an object;
   rotations and the victim swap move objects, and the functional model moves
   keys in exactly the same way).  Absence of sharing and cycles is
   NoDup (map f (inorder t)). *)

From Coq Require Import List ZArith Bool Lia FMapPositive Permutation.
From Ivv Require Import Avl.AvlModel Avl.AvlPtrModel.
Import ListNotations.
Local Open Scope Z_scope.

Module PM := PositiveMap.

(* ---- NoDup facts by reflection: a list built from atoms and opaque sublists ---- *)
Inductive item : Type := IA (x : positive) | IL (l : list positive).

Fixpoint flat (its : list item) : list positive :=
  match its with
  | [] => []
  | IA x :: r => x :: flat r
  | IL l :: r => l ++ flat r
  end.

Fixpoint nin (x : positive) (its : list item) : Prop :=
  match its with
  | [] => True
  | IA y :: r => x <> y /\ nin x r
  | IL l :: r => ~ In x l /\ nin x r
  end.

Fixpoint facts (pre its : list item) : Prop :=
  match its with
  | [] => True
  | IA x :: r => nin x pre /\ nin x r /\ facts (IA x :: pre) r
  | IL l :: r => facts (IL l :: pre) r
  end.

Lemma nin_ok x its : ~ In x (flat its) -> nin x its.
Proof.
  induction its as [|[y|l] r IH]; cbn [flat nin]; intros H.
  - exact I.
  - split; [intros ->; apply H; left; reflexivity | apply IH; intros Hx; apply H; right; exact Hx].
  - rewrite in_app_iff in H. split; [tauto | apply IH; tauto].
Qed.

Lemma flat_app a b : flat (a ++ b) = flat a ++ flat b.
Proof.
  induction a as [|[y|l] r IH]; cbn [flat app]; [reflexivity | rewrite IH; reflexivity |].
  rewrite IH, app_assoc. reflexivity.
Qed.

Lemma in_flat_rev x a : In x (flat (rev a)) <-> In x (flat a).
Proof.
  induction a as [|[y|l] r IH]; cbn [rev flat]; [tauto | |];
    rewrite flat_app, in_app_iff, IH; cbn [flat In]; rewrite ?app_nil_r, ?in_app_iff; tauto.
Qed.

Lemma facts_ok : forall its pre, NoDup (flat (rev pre ++ its)) -> facts pre its.
Proof.
  induction its as [|[x|l] r IH]; intros pre H; cbn [facts].
  - exact I.
  - rewrite flat_app in H. cbn [flat] in H.
    pose proof (NoDup_remove_2 _ _ _ H) as H2. rewrite in_app_iff in H2.
    split; [apply nin_ok; rewrite <- in_flat_rev; tauto|].
    split; [apply nin_ok; tauto|].
    apply IH. cbn [rev]. rewrite <- app_assoc. cbn [app]. rewrite flat_app. exact H.
  - apply IH. cbn [rev]. rewrite <- app_assoc. cbn [app]. exact H.
Qed.

Lemma facts_ok0 its : NoDup (flat its) -> facts [] its.
Proof. intros H. apply facts_ok. exact H. Qed.

Ltac reify_ids l :=
  lazymatch l with
  | @nil _ => constr:(@nil item)
  | ?x :: ?r => let r' := reify_ids r in constr:(IA x :: r')
  | ?a ++ ?r => let r' := reify_ids r in constr:(IL a :: r')
  | ?a => constr:([IL a])
  end.

(* H : NoDup <list expression>; normalise to right-nested form and split into
   atomic facts  x <> y  /  ~ In x l *)
Ltac nd_facts H :=
  repeat first [rewrite map_app in H | progress cbn [map] in H];
  repeat first [rewrite <- app_assoc in H | rewrite <- app_comm_cons in H];
  lazymatch type of H with
  | NoDup ?l =>
      let its := reify_ids l in
      let Hf := fresh "Hf" in
      assert (Hf : facts [] its)
        by (apply facts_ok0; cbn [flat]; rewrite ?app_nil_r; exact H);
      cbn [facts nin] in Hf;
      repeat match type of Hf with
             | _ /\ _ => let A := fresh "Hn" in destruct Hf as [A Hf]
             end;
      repeat match goal with
             | X : _ /\ _ |- _ => destruct X
             | X : True |- _ => clear X
             end
  end.

Lemma nodup_app_r (a b : list positive) : NoDup (a ++ b) -> NoDup b.
Proof. induction a as [|x a IH]; cbn [app]; [auto|]. intros H. inversion H; auto. Qed.

Lemma nodup_app_l (a b : list positive) : NoDup (a ++ b) -> NoDup a.
Proof.
  induction a as [|x a IH]; cbn [app]; intros H; [constructor|].
  inversion H as [|? ? Hx H']; subst. constructor; [|auto].
  intros Hi. apply Hx. apply in_or_app. auto.
Qed.

Lemma nodup_app_disj (a b : list positive) : NoDup (a ++ b) -> forall x, In x a -> ~ In x b.
Proof.
  induction a as [|y a IH]; cbn [app]; intros H x Hx; [contradiction|].
  inversion H as [|? ? Hy H']; subst. destruct Hx as [->|Hx].
  - intros Hb. apply Hy. apply in_or_app. auto.
  - apply IH; auto.
Qed.

Section Rep.
Variable f : Z -> positive.

Definition tptr (t : tree) : ptr :=
  match t with E => None | N _ k _ _ => Some (f k) end.

(* rep s t par: the nodes of t are in s with exactly the fields the shape of t
   dictates; par is the parent field of t's root *)
Fixpoint rep (s : store) (t : tree) (par : ptr) : Prop :=
  match t with
  | E => True
  | N l k h r =>
      PM.find (f k) s = Some (mkNode (tptr l) (tptr r) par h k)
      /\ rep s l (Some (f k)) /\ rep s r (Some (f k))
  end.

Notation idl t := (map f (inorder t)).

Definition fkey (fr : frame) : Z :=
  match fr with FL k _ _ => k | FR _ k _ => k end.

Definition cpar (c : ctx) : ptr :=
  match c with [] => None | fr :: _ => Some (f (fkey fr)) end.

Fixpoint cidl (c : ctx) : list positive :=
  match c with
  | [] => []
  | FL k _ r :: c' => f k :: idl r ++ cidl c'
  | FR l k _ :: c' => f k :: idl l ++ cidl c'
  end.

Fixpoint repc (s : store) (c : ctx) (hole : ptr) : Prop :=
  match c with
  | [] => True
  | FL k h r :: c' =>
      PM.find (f k) s = Some (mkNode hole (tptr r) (cpar c') h k)
      /\ rep s r (Some (f k)) /\ repc s c' (Some (f k))
  | FR l k h :: c' =>
      PM.find (f k) s = Some (mkNode (tptr l) hole (cpar c') h k)
      /\ rep s l (Some (f k)) /\ repc s c' (Some (f k))
  end.

Fixpoint croot (c : ctx) (hole : ptr) : ptr :=
  match c with [] => hole | fr :: c' => croot c' (Some (f (fkey fr))) end.

Definition cref (c : ctx) : ref :=
  match c with
  | [] => RRoot
  | FL k _ _ :: _ => RLeft (f k)
  | FR _ k _ :: _ => RRight (f k)
  end.

(* zipper representation: subtree t in the hole of context c *)
Definition zrep (st : state) (t : tree) (c : ctx) : Prop :=
  rep (st_store st) t (cpar c) /\ repc (st_store st) c (tptr t)
  /\ st_root st = croot c (tptr t).

Lemma tptr_fill fr t : tptr (fill fr t) = Some (f (fkey fr)).
Proof. destruct fr; reflexivity. Qed.

Lemma zrep_fill st fr t c : zrep st t (fr :: c) <-> zrep st (fill fr t) c.
Proof.
  unfold zrep. rewrite tptr_fill. destruct fr as [k h r|l k h];
    cbn [fill rep repc cpar croot fkey]; tauto.
Qed.

Lemma zrep_plug st c : forall t, zrep st t c <-> zrep st (plug t c) [].
Proof.
  induction c as [|fr c IH]; intros t; cbn [plug]; [tauto|].
  rewrite zrep_fill. apply IH.
Qed.

(* ---- ids of a plugged tree ---- *)
Lemma idl_fill_perm fr t c :
  Permutation (idl (fill fr t) ++ cidl c) (idl t ++ cidl (fr :: c)).
Proof.
  destruct fr as [k h r|l k h]; cbn [fill inorder cidl].
  - rewrite map_app. cbn [map]. rewrite <- app_assoc. cbn [app]. reflexivity.
  - rewrite map_app. cbn [map]. rewrite <- app_assoc. cbn [app].
    etransitivity; [symmetry; apply Permutation_middle|].
    etransitivity; [|apply Permutation_middle].
    apply perm_skip. apply Permutation_app_swap_app.
Qed.

Lemma idl_plug_perm c : forall t, Permutation (idl (plug t c)) (idl t ++ cidl c).
Proof.
  induction c as [|fr c IH]; intros t; cbn [plug].
  - cbn [cidl]. rewrite app_nil_r. reflexivity.
  - rewrite IH. apply idl_fill_perm.
Qed.

Lemma nodup_plug t c : NoDup (idl (plug t c)) <-> NoDup (idl t ++ cidl c).
Proof.
  split; apply Permutation_NoDup; [|symmetry]; apply idl_plug_perm.
Qed.

Lemma in_idl_plug i t c : In i (idl (plug t c)) <-> In i (idl t) \/ In i (cidl c).
Proof.
  rewrite <- in_app_iff. split; apply Permutation_in; [|symmetry]; apply idl_plug_perm.
Qed.

Lemma in_tptr t i : tptr t = Some i -> In i (idl t).
Proof.
  destruct t as [|l k h r]; cbn [tptr]; [discriminate|].
  intros [= <-]. apply in_map. cbn [inorder]. apply in_or_app. right. left. reflexivity.
Qed.

(* ---- frame ---- *)
Lemma rep_frame s s' : forall t par,
  (forall i, In i (idl t) -> PM.find i s' = PM.find i s) ->
  rep s t par -> rep s' t par.
Proof.
  induction t as [|l IHl k h r IHr]; intros par Hag H; cbn [rep] in *; [exact I|].
  destruct H as (H1 & H2 & H3).
  assert (Hin : forall i, In i (idl l) \/ i = f k \/ In i (idl r) -> In i (idl (N l k h r))).
  { intros i Hi. cbn [inorder]. rewrite map_app, in_app_iff. cbn [map In].
    destruct Hi as [Hi|[Hi|Hi]]; auto. }
  split; [rewrite Hag; [exact H1 | apply Hin; auto]|].
  split; [apply IHl | apply IHr]; auto.
Qed.

Lemma rep_add s t par i n : ~ In i (idl t) -> rep s t par -> rep (PM.add i n s) t par.
Proof.
  intros Hn. apply rep_frame. intros j Hj. apply PM.gso. intros ->. contradiction.
Qed.

Lemma repc_frame s s' : forall c hole,
  (forall i, In i (cidl c) -> PM.find i s' = PM.find i s) ->
  repc s c hole -> repc s' c hole.
Proof.
  induction c as [|[k h r|l k h] c IH]; intros hole Hag H; cbn [repc cidl] in *; [exact I| |].
  - destruct H as (H1 & H2 & H3).
    split; [rewrite Hag; [exact H1 | left; reflexivity]|].
    split.
    + eapply rep_frame; [|exact H2]. intros i Hi. apply Hag. right. apply in_or_app. auto.
    + apply IH; [|exact H3]. intros i Hi. apply Hag. right. apply in_or_app. auto.
  - destruct H as (H1 & H2 & H3).
    split; [rewrite Hag; [exact H1 | left; reflexivity]|].
    split.
    + eapply rep_frame; [|exact H2]. intros i Hi. apply Hag. right. apply in_or_app. auto.
    + apply IH; [|exact H3]. intros i Hi. apply Hag. right. apply in_or_app. auto.
Qed.

(* changing what hangs in the hole only needs the innermost frame *)
Lemma repc_hole s c hole : repc s c hole -> forall i, In i (cidl c) -> exists n, PM.find i s = Some n.
Proof.
  revert hole. induction c as [|[k h r|l k h] c IH]; intros hole H i Hi; cbn [repc cidl] in *; [contradiction| |].
  - destruct H as (H1 & H2 & H3). destruct Hi as [<-|Hi]; [eauto|].
    apply in_app_or in Hi. destruct Hi as [Hi|Hi]; [|eapply IH; eauto].
    clear - H2 Hi. revert H2 Hi. generalize (Some (f k)).
    induction r as [|a IHa x y b IHb]; intros p H2 Hi; cbn [rep inorder] in *; [contradiction|].
    rewrite map_app in Hi. cbn [map] in Hi. apply in_app_or in Hi.
    destruct H2 as (A & B & C). destruct Hi as [Hi|[<-|Hi]]; eauto.
  - destruct H as (H1 & H2 & H3). destruct Hi as [<-|Hi]; [eauto|].
    apply in_app_or in Hi. destruct Hi as [Hi|Hi]; [|eapply IH; eauto].
    clear - H2 Hi. revert H2 Hi. generalize (Some (f k)).
    induction l as [|a IHa x y b IHb]; intros p H2 Hi; cbn [rep inorder] in *; [contradiction|].
    rewrite map_app in Hi. cbn [map] in Hi. apply in_app_or in Hi.
    destruct H2 as (A & B & C). destruct Hi as [Hi|[<-|Hi]]; eauto.
Qed.

(* ---- primitive reads / writes on a state with explicit store ---- *)
Lemma get_left_ok s r i n : PM.find i s = Some n -> get_left (mkState s r) (Some i) = Ok (n_left n).
Proof. intros H. unfold get_left, rd. cbn [st_store]. rewrite H. reflexivity. Qed.
Lemma get_right_ok s r i n : PM.find i s = Some n -> get_right (mkState s r) (Some i) = Ok (n_right n).
Proof. intros H. unfold get_right, rd. cbn [st_store]. rewrite H. reflexivity. Qed.
Lemma get_parent_ok s r i n : PM.find i s = Some n -> get_parent (mkState s r) (Some i) = Ok (n_parent n).
Proof. intros H. unfold get_parent, rd. cbn [st_store]. rewrite H. reflexivity. Qed.
Lemma get_height_ok s r i n : PM.find i s = Some n -> get_height (mkState s r) (Some i) = Ok (n_height n).
Proof. intros H. unfold get_height, rd. cbn [st_store]. rewrite H. reflexivity. Qed.
Lemma get_key_ok s r i n : PM.find i s = Some n -> get_key (mkState s r) (Some i) = Ok (n_key n).
Proof. intros H. unfold get_key, rd. cbn [st_store]. rewrite H. reflexivity. Qed.

Lemma set_left_ok s r i n v : PM.find i s = Some n ->
  set_left (mkState s r) (Some i) v = Ok (mkState (PM.add i (with_left v n) s) r).
Proof. intros H. unfold set_left, upd. cbn [st_store st_root]. rewrite H. reflexivity. Qed.
Lemma set_right_ok s r i n v : PM.find i s = Some n ->
  set_right (mkState s r) (Some i) v = Ok (mkState (PM.add i (with_right v n) s) r).
Proof. intros H. unfold set_right, upd. cbn [st_store st_root]. rewrite H. reflexivity. Qed.
Lemma set_parent_ok s r i n v : PM.find i s = Some n ->
  set_parent (mkState s r) (Some i) v = Ok (mkState (PM.add i (with_parent v n) s) r).
Proof. intros H. unfold set_parent, upd. cbn [st_store st_root]. rewrite H. reflexivity. Qed.
Lemma set_height_ok s r i n v : PM.find i s = Some n ->
  set_height (mkState s r) (Some i) v = Ok (mkState (PM.add i (with_height v n) s) r).
Proof. intros H. unfold set_height, upd. cbn [st_store st_root]. rewrite H. reflexivity. Qed.

Lemma height_rep s r t par : rep s t par -> height (mkState s r) (tptr t) = Ok (ht t).
Proof.
  destruct t as [|l k h rr]; cbn [rep tptr height ht]; [reflexivity|].
  intros (H & _). rewrite (get_height_ok _ _ _ _ H). reflexivity.
Qed.

Lemma ptr_eqb_refl p : ptr_eqb p p = true.
Proof. destruct p; cbn [ptr_eqb]; [apply Pos.eqb_refl | reflexivity]. Qed.

Lemma ptr_eqb_neq i j : i <> j -> ptr_eqb (Some i) (Some j) = false.
Proof. intros H. cbn [ptr_eqb]. apply Pos.eqb_neq. exact H. Qed.

(* ---- reading and writing through the reference of a context ---- *)
Lemma load_cref st t c : zrep st t c -> load_ref st (cref c) = Ok (tptr t).
Proof.
  destruct st as [s root]. intros (_ & Hc & Hr). cbn [st_store st_root] in *.
  destruct c as [|[k h r|l k h] c]; cbn [cref load_ref repc croot st_root] in *.
  - rewrite Hr. reflexivity.
  - destruct Hc as (H & _). rewrite (get_left_ok _ _ _ _ H). reflexivity.
  - destruct Hc as (H & _). rewrite (get_right_ok _ _ _ _ H). reflexivity.
Qed.

(* Write the root pointer of a new subtree t' (already represented in the
   store, on ids disjoint from the context) through the reference of the
   context. *)
Lemma store_cref_gen s root c hole t' :
  repc s c hole -> root = croot c hole -> NoDup (cidl c) ->
  rep s t' (cpar c) ->
  (forall i, In i (idl t') -> ~ In i (cidl c)) ->
  exists st'',
    store_ref (mkState s root) (cref c) (tptr t') = Ok st''
    /\ zrep st'' t' c
    /\ (forall i, ~ In i (cidl c) -> PM.find i (st_store st'') = PM.find i s).
Proof.
  intros Hc Hr ND Ht' Hdisj.
  destruct c as [|[k h r|l k h] c]; cbn [cref store_ref repc croot cpar cidl] in *.
  - eexists. split; [reflexivity|]. unfold zrep. cbn [st_store st_root repc croot cpar].
    repeat split; auto.
  - destruct Hc as (H1 & H2 & H3).
    rewrite (set_left_ok _ _ _ _ _ H1). eexists. split; [reflexivity|].
    apply NoDup_cons_iff in ND as [Hk ND3]. rewrite in_app_iff in Hk.
    unfold zrep. cbn [st_store st_root repc croot cpar fkey with_left n_left n_right n_parent n_height n_key].
    split; [split; [|split; [split; [|split]|]]|].
    + apply rep_add; [|exact Ht']. intros Hi. apply (Hdisj _ Hi). left. reflexivity.
    + rewrite PM.gss. reflexivity.
    + apply rep_add; [tauto | exact H2].
    + eapply repc_frame; [|exact H3]. intros i Hi. apply PM.gso. intros ->. tauto.
    + exact Hr.
    + intros i Hi. apply PM.gso. intros ->. apply Hi. left. reflexivity.
  - destruct Hc as (H1 & H2 & H3).
    rewrite (set_right_ok _ _ _ _ _ H1). eexists. split; [reflexivity|].
    apply NoDup_cons_iff in ND as [Hk ND3]. rewrite in_app_iff in Hk.
    unfold zrep. cbn [st_store st_root repc croot cpar fkey with_right n_left n_right n_parent n_height n_key].
    split; [split; [|split; [split; [|split]|]]|].
    + apply rep_add; [|exact Ht']. intros Hi. apply (Hdisj _ Hi). left. reflexivity.
    + rewrite PM.gss. reflexivity.
    + apply rep_add; [tauto | exact H2].
    + eapply repc_frame; [|exact H3]. intros i Hi. apply PM.gso. intros ->. tauto.
    + exact Hr.
    + intros i Hi. apply PM.gso. intros ->. apply Hi. left. reflexivity.
Qed.

(* Replace the subtree in the hole: given the new subtree t' already
   represented in store s' (which differs from the old one only on ids of the
   old subtree), write its root pointer through the reference. *)
Lemma store_cref s root t c s' t' :
  zrep (mkState s root) t c ->
  NoDup (idl t ++ cidl c) ->
  rep s' t' (cpar c) ->
  (forall i, ~ In i (idl t) -> PM.find i s' = PM.find i s) ->
  (forall i, In i (idl t') -> In i (idl t)) ->
  exists st'',
    store_ref (mkState s' root) (cref c) (tptr t') = Ok st''
    /\ zrep st'' t' c
    /\ (forall i, ~ In i (idl t) -> ~ In i (cidl c) -> PM.find i (st_store st'') = PM.find i s).
Proof.
  intros (Ht & Hc & Hr) ND Ht' Hfr Hsub. cbn [st_store st_root] in *.
  assert (Hdisj : forall i, In i (cidl c) -> ~ In i (idl t)).
  { intros i Hi Hi2. exact (nodup_app_disj _ _ ND i Hi2 Hi). }
  assert (Hc' : repc s' c (tptr t)).
  { eapply repc_frame; [|exact Hc]. intros i Hi. apply Hfr. apply Hdisj. exact Hi. }
  destruct (store_cref_gen s' root c (tptr t) t' Hc' Hr (nodup_app_r _ _ ND) Ht') as (st'' & E & Z & F).
  { intros i Hi Hi2. apply (Hdisj i Hi2). apply Hsub. exact Hi. }
  exists st''. split; [exact E|]. split; [exact Z|].
  intros i Hi1 Hi2. rewrite F; [apply Hfr; exact Hi1 | exact Hi2].
Qed.

End Rep.

Notation idl f t := (map f (inorder t)).

(* heights are at least 1 on every node: what the C code's NULL tests rely on *)
Fixpoint hpos (t : tree) : Prop :=
  match t with
  | E => True
  | N l _ h r => 1 <= h /\ hpos l /\ hpos r
  end.

Fixpoint hposc (c : ctx) : Prop :=
  match c with
  | [] => True
  | FL _ h r :: c' => 1 <= h /\ hpos r /\ hposc c'
  | FR l _ h :: c' => 1 <= h /\ hpos l /\ hposc c'
  end.

Lemma hpos_ht t : hpos t -> 0 <= ht t.
Proof. destruct t; cbn [hpos ht]; lia. Qed.

Lemma hpos_ht_E t : hpos t -> ht t <= 0 -> t = E.
Proof. destruct t; cbn [hpos ht]; [reflexivity | lia]. Qed.

Lemma hpos_mk l k r : hpos l -> hpos r -> hpos (mk l k r).
Proof.
  intros Hl Hr. unfold mk. cbn [hpos]. pose proof (hpos_ht _ Hl). pose proof (hpos_ht _ Hr).
  destruct (ht r <? ht l); repeat split; auto; lia.
Qed.

Lemma hpos_plug c : forall t, hpos (plug t c) <-> hpos t /\ hposc c.
Proof.
  induction c as [|[k h r|l k h] c IH]; intros t; cbn [plug fill hposc]; [tauto| |];
    rewrite IH; cbn [hpos]; tauto.
Qed.
