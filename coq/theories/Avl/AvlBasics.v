(* AvlBasics.v -- invariant definitions, list lemmas, and the correctness of
   recalc_height / rotations / rebalance_node of AvlModel.v. *)

From Coq Require Import List ZArith Bool Lia.
From Ivv Require Import Avl.AvlModel.
Import ListNotations.
Local Open Scope Z_scope.

(* ---- definitions used by the property statements ---- *)

Inductive avl : tree -> Prop :=
| avl_E : avl E
| avl_N l k h r :
    avl l -> avl r ->
    h = 1 + Z.max (ht l) (ht r) ->
    -1 <= ht r - ht l <= 1 ->
    avl (N l k h r).

Fixpoint sorted (l : list Z) : Prop :=
  match l with
  | [] => True
  | x :: l' => Forall (Z.lt x) l' /\ sorted l'
  end.

Fixpoint ins_sorted (k : Z) (l : list Z) : list Z :=
  match l with
  | [] => [k]
  | x :: l' => if k <? x then k :: l else x :: ins_sorted k l'
  end.

Fixpoint fibZ (n : nat) : Z :=
  match n with
  | O => 0
  | S m => match m with
           | O => 1
           | S p => fibZ m + fibZ p
           end
  end.

(* ---- sorted lists ---- *)

Lemma sorted_app a b :
  sorted (a ++ b) <->
  sorted a /\ sorted b /\ (forall x y, In x a -> In y b -> x < y).
Proof.
  induction a as [|x a IH]; cbn [app sorted].
  - split.
    + intros H. repeat split; auto. intros x y [].
    + tauto.
  - rewrite Forall_app, IH. rewrite !Forall_forall. split.
    + intros [[H1 H2] [H3 [H4 H5]]]. repeat split; auto.
      intros x0 y [Hx|Hx] Hy; [subst x0; auto | auto].
    + intros [[H1 H2] [H3 H4]]. repeat split; auto.
      * intros y Hy. apply H4; [left; reflexivity | exact Hy].
      * intros x0 y Hx Hy. apply H4; [right; exact Hx | exact Hy].
Qed.

Lemma sorted_cons_inv x l : sorted (x :: l) -> (forall y, In y l -> x < y) /\ sorted l.
Proof.
  cbn [sorted]. rewrite Forall_forall. tauto.
Qed.

Lemma sorted_mid a k b :
  sorted (a ++ k :: b) ->
  sorted a /\ sorted b /\
  (forall x, In x a -> x < k) /\ (forall y, In y b -> k < y) /\
  (forall x y, In x a -> In y b -> x < y).
Proof.
  intros H. apply sorted_app in H. destruct H as (Ha & Hkb & Hab).
  apply sorted_cons_inv in Hkb. destruct Hkb as (Hk & Hb).
  repeat split; auto.
  - intros x Hx. apply Hab; [exact Hx | left; reflexivity].
  - intros x y Hx Hy. apply Hab; [exact Hx | right; exact Hy].
Qed.

Lemma in_ins_sorted k l x : In x (ins_sorted k l) <-> x = k \/ In x l.
Proof.
  induction l as [|y l IH]; cbn [ins_sorted].
  - cbn. intuition.
  - destruct (k <? y).
    + cbn [In]. intuition.
    + cbn [In]. rewrite IH. intuition.
Qed.

Lemma sorted_ins_sorted k l : sorted l -> ~ In k l -> sorted (ins_sorted k l).
Proof.
  induction l as [|y l IH]; intros Hs Hn; cbn [ins_sorted].
  - cbn. auto.
  - destruct (Z.ltb_spec k y) as [Hlt|Hge].
    + cbn [sorted]. split; [|exact Hs].
      constructor; [exact Hlt|].
      destruct Hs as [Hf _]. rewrite Forall_forall in *.
      intros z Hz. specialize (Hf z Hz). lia.
    + destruct Hs as [Hf Hs]. cbn [sorted]. split.
      * rewrite Forall_forall in *. intros z Hz.
        apply in_ins_sorted in Hz. destruct Hz as [Hz|Hz].
        -- subst z. assert (k <> y) by (intros ->; apply Hn; left; reflexivity). lia.
        -- apply Hf; exact Hz.
      * apply IH; [exact Hs|]. intros Hin. apply Hn. right. exact Hin.
Qed.

Lemma ins_sorted_app_l k a x b :
  k < x -> ins_sorted k (a ++ x :: b) = ins_sorted k a ++ x :: b.
Proof.
  intros Hlt. induction a as [|y a IH]; cbn [app ins_sorted].
  - destruct (Z.ltb_spec k x); [reflexivity | lia].
  - destruct (k <? y); [reflexivity|]. rewrite IH. reflexivity.
Qed.

Lemma ins_sorted_app_r k a b :
  (forall x, In x a -> x < k) -> ins_sorted k (a ++ b) = a ++ ins_sorted k b.
Proof.
  induction a as [|y a IH]; intros H; cbn [app ins_sorted].
  - reflexivity.
  - destruct (Z.ltb_spec k y) as [Hlt|Hge].
    + specialize (H y (or_introl eq_refl)). lia.
    + rewrite IH; [reflexivity|]. intros x Hx. apply H. right. exact Hx.
Qed.

Lemma remove_sorted_mid a k b :
  sorted (a ++ k :: b) -> remove Z.eq_dec k (a ++ k :: b) = a ++ b.
Proof.
  intros H. apply sorted_mid in H. destruct H as (_ & _ & Ha & Hb & _).
  rewrite remove_app, remove_cons.
  rewrite !notin_remove; [reflexivity | |].
  - intros Hin. specialize (Hb _ Hin). lia.
  - intros Hin. specialize (Ha _ Hin). lia.
Qed.

Lemma sorted_drop_mid a k b : sorted (a ++ k :: b) -> sorted (a ++ b).
Proof.
  intros H. apply sorted_mid in H. destruct H as (Ha & Hb & _ & _ & Hab).
  apply sorted_app. auto.
Qed.

(* ---- heights, mk ---- *)

Lemma avl_ht_nonneg t : avl t -> 0 <= ht t.
Proof.
  intros H. induction H; cbn [ht]; lia.
Qed.

Lemma ht_mk l k r : ht (mk l k r) = 1 + Z.max (ht l) (ht r).
Proof.
  unfold mk. cbn [ht]. destruct (Z.ltb_spec (ht r) (ht l)); lia.
Qed.

Lemma mk_avl l k r :
  avl l -> avl r -> -1 <= ht r - ht l <= 1 -> avl (mk l k r).
Proof.
  intros Hl Hr Hb. unfold mk. constructor; auto.
  destruct (Z.ltb_spec (ht r) (ht l)); lia.
Qed.

Lemma inorder_mk l k r : inorder (mk l k r) = inorder l ++ k :: inorder r.
Proof. reflexivity. Qed.

Lemma balance_mk l k r : balance (mk l k r) = ht r - ht l.
Proof. reflexivity. Qed.

Lemma left_of_mk l k r : left_of (mk l k r) = l.
Proof. reflexivity. Qed.

Lemma right_of_mk l k r : right_of (mk l k r) = r.
Proof. reflexivity. Qed.

Lemma rotate_right_mk a b h c d e :
  rotate_right (mk (N a b h c) d e) = mk a b (mk c d e).
Proof. reflexivity. Qed.

Lemma rotate_left_mk a b c d h e :
  rotate_left (mk a b (N c d h e)) = mk (mk a b c) d e.
Proof. reflexivity. Qed.

Lemma rotate_left_right_mk a b h1 c d h2 e f g :
  rotate_left_right (mk (N a b h1 (N c d h2 e)) f g) = mk (mk a b c) d (mk e f g).
Proof. reflexivity. Qed.

Lemma rotate_right_left_mk a b c d h1 e f h2 g :
  rotate_right_left (mk a b (N (N c d h1 e) f h2 g)) = mk (mk a b c) d (mk e f g).
Proof. reflexivity. Qed.

(* ---- rebalance_node ---- *)

Lemma rebalance_node_ok l k r :
  avl l -> avl r -> -2 <= ht r - ht l <= 2 ->
  let t1 := rebalance_node (mk l k r) in
  avl t1 /\
  inorder t1 = inorder l ++ k :: inorder r /\
  (-1 <= ht r - ht l <= 1 -> ht t1 = 1 + Z.max (ht l) (ht r)) /\
  (ht r - ht l = 2 -> ht t1 = ht r \/ ht t1 = ht r + 1) /\
  (ht r - ht l = -2 -> ht t1 = ht l \/ ht t1 = ht l + 1).
Proof.
  intros Hl Hr Hd. cbv zeta. unfold rebalance_node. cbv zeta.
  rewrite balance_mk, left_of_mk, right_of_mk.
  pose proof (avl_ht_nonneg _ Hl) as Hl0.
  pose proof (avl_ht_nonneg _ Hr) as Hr0.
  destruct (Z.eqb_spec (ht r - ht l) (-2)) as [E2|E2].
  - (* left-heavy *)
    inversion Hl as [|ll lk lh lr Hll Hlr Hlh Hlb Heq]; subst l.
    { cbn [ht] in *. lia. }
    cbn [balance ht] in *.
    pose proof (avl_ht_nonneg _ Hll) as Hll0.
    pose proof (avl_ht_nonneg _ Hlr) as Hlr0.
    destruct (Z.leb_spec (ht lr - ht ll) 0) as [Hb|Hb].
    + rewrite rotate_right_mk.
      assert (Hin : avl (mk lr k r)) by (apply mk_avl; auto; lia).
      split; [apply mk_avl; auto; rewrite ht_mk; lia|].
      split; [rewrite !inorder_mk; cbn [inorder]; rewrite <- app_assoc; reflexivity|].
      rewrite !ht_mk. lia.
    + inversion Hlr as [|a b hh c Ha Hc Hhh Hbb Heq2]; subst lr.
      { cbn [ht] in *. lia. }
      cbn [ht] in *.
      pose proof (avl_ht_nonneg _ Ha) as Ha0.
      pose proof (avl_ht_nonneg _ Hc) as Hc0.
      rewrite rotate_left_right_mk.
      assert (Hin1 : avl (mk ll lk a)) by (apply mk_avl; auto; lia).
      assert (Hin2 : avl (mk c k r)) by (apply mk_avl; auto; lia).
      split; [apply mk_avl; auto; rewrite !ht_mk; lia|].
      split.
      { rewrite !inorder_mk. cbn [inorder]. rewrite <- !app_assoc. cbn [app].
        rewrite <- !app_assoc. reflexivity. }
      rewrite !ht_mk. lia.
  - destruct (Z.eqb_spec (ht r - ht l) 2) as [E3|E3].
    + (* right-heavy *)
      inversion Hr as [|rl rk rh rr Hrl Hrr Hrh Hrb Heq]; subst r.
      { cbn [ht] in *. lia. }
      cbn [balance ht] in *.
      pose proof (avl_ht_nonneg _ Hrl) as Hrl0.
      pose proof (avl_ht_nonneg _ Hrr) as Hrr0.
      destruct (Z.ltb_spec (ht rr - ht rl) 0) as [Hb|Hb].
      * inversion Hrl as [|a b hh c Ha Hc Hhh Hbb Heq2]; subst rl.
        { cbn [ht] in *. lia. }
        cbn [ht] in *.
        pose proof (avl_ht_nonneg _ Ha) as Ha0.
        pose proof (avl_ht_nonneg _ Hc) as Hc0.
        rewrite rotate_right_left_mk.
        assert (Hin1 : avl (mk l k a)) by (apply mk_avl; auto; lia).
        assert (Hin2 : avl (mk c rk rr)) by (apply mk_avl; auto; lia).
        split; [apply mk_avl; auto; rewrite !ht_mk; lia|].
        split.
        { rewrite !inorder_mk. cbn [inorder]. rewrite <- !app_assoc. cbn [app].
          reflexivity. }
        rewrite !ht_mk. lia.
      * rewrite rotate_left_mk.
        assert (Hin : avl (mk l k rl)) by (apply mk_avl; auto; lia).
        split; [apply mk_avl; auto; rewrite ht_mk; lia|].
        split.
        { rewrite !inorder_mk. cbn [inorder]. rewrite <- !app_assoc. cbn [app].
          reflexivity. }
        rewrite !ht_mk. lia.
    + (* balanced: no rotation *)
      split; [apply mk_avl; auto; lia|].
      split; [reflexivity|].
      rewrite ht_mk. lia.
Qed.
