(* AvlPtrHist.v -- whole histories at the pointer level, executed the way the
   C driver does (malloc a node with garbage fields for every insert, free it
   again when insert returns -1; find the node to delete by a BST search,
   delete it, free it): from the empty tree, prun never reports a NULL or
   dangling dereference, never runs out of fuel (fuel > number of operations
   is enough) and ends in a store that represents run ops E of AvlModel.v. *)

From Coq Require Import List ZArith Bool Lia FMapPositive Permutation.
From Ivv Require Import Avl.AvlModel Avl.AvlBasics Avl.AvlRebalance Avl.AvlProofs Avl.AvlPtrModel
  Avl.AvlPtrRep Avl.AvlPtrInsert Avl.AvlPtrTrav Avl.AvlPtrTop Avl.AvlPtrC16.
Import ListNotations.
Local Open Scope Z_scope.

Lemma depth_le_size t : (depth t <= size t)%nat.
Proof. induction t as [|l IHl k h r IHr]; cbn [depth size]; lia. Qed.

Lemma length_ins_sorted k l : length (ins_sorted k l) = S (length l).
Proof.
  induction l as [|x l IH]; cbn [ins_sorted length]; [reflexivity|].
  destruct (k <? x); cbn [length]; [reflexivity | rewrite IH; reflexivity].
Qed.

Lemma length_remove_le k l : (length (remove Z.eq_dec k l) <= length l)%nat.
Proof.
  induction l as [|x l IH]; cbn [remove length]; [lia|].
  destruct (Z.eq_dec k x); cbn [length]; lia.
Qed.

(* the driver's lookup() is the descent of AvlModel.find *)
Lemma lookup_z f st k : forall t c fuel,
  zrep f st t c -> (depth t <= fuel)%nat ->
  lookup fuel st (tptr f t) k =
  Ok (match AvlModel.find k t c with Some (tn, _) => tptr f tn | None => None end).
Proof.
  destruct st as [s root].
  induction t as [|l IHl k' h r IHr]; intros c fuel Hz Hfuel.
  - cbn [tptr AvlModel.find]. destruct fuel; reflexivity.
  - cbn [depth] in Hfuel. destruct fuel as [|fuel]; [lia|].
    pose proof Hz as (Hr & _ & _). cbn [st_store rep] in Hr. destruct Hr as (Hk & _ & _).
    cbn [tptr lookup AvlModel.find]. rewrite (get_key_ok _ _ _ _ Hk). cbn [bind n_key].
    destruct (k <? k').
    + rewrite (get_left_ok _ _ _ _ Hk). cbn [bind n_left].
      apply (IHl (FL k' h r :: c) fuel); [|lia].
      apply (proj2 (zrep_fill f _ (FL k' h r) l c)). exact Hz.
    + destruct (k' <? k).
      * rewrite (get_right_ok _ _ _ _ Hk). cbn [bind n_right].
        apply (IHr (FR l k' h :: c) fuel); [|lia].
        apply (proj2 (zrep_fill f _ (FR l k' h) r c)). exact Hz.
      * reflexivity.
Qed.

(* machine invariant: the store represents t and the allocator has never
   handed out an id >= m_next *)
Definition MInv (f : Z -> positive) (m : machine) (t : tree) : Prop :=
  RepF f (st_store (m_state m)) (st_root (m_state m)) t
  /\ (forall i, In i (idl f t) -> (i < m_next m)%positive).

Lemma RepF_frame f s s' root t :
  (forall i, In i (idl f t) -> PM.find i s' = PM.find i s) -> RepF f s root t -> RepF f s' root t.
Proof.
  intros H (ND & Hr & R). split; [exact ND|]. split; [exact Hr|].
  eapply rep_frame; [exact H | exact R].
Qed.

Lemma pstep_ins_ok f m t k fuel g gh :
  MInv f m t -> Inv t -> (size t < fuel)%nat ->
  exists m' f' rc,
    pstep_ins fuel g gh m k = Ok (m', rc)
    /\ step t (Ins k) = (fst (step t (Ins k)), rc)
    /\ MInv f' m' (fst (step t (Ins k))) /\ Inv (fst (step t (Ins k)))
    /\ (size (fst (step t (Ins k))) <= S (size t))%nat.
Proof.
  intros (HR & Hlt) HI Hfuel. destruct m as [[s root] nx]. cbn [m_state m_next st_store st_root] in *.
  pose proof (depth_le_size t) as Hds.
  unfold pstep_ins. cbn [step m_state m_next st_store st_root].
  set (s0 := PM.add nx (garbage g gh k) s).
  assert (Hnx : ~ In nx (idl f t)).
  { intros Hi. apply Hlt in Hi. lia. }
  assert (HR0 : RepF f s0 root t).
  { eapply RepF_frame; [|exact HR]. intros i Hi. unfold s0. apply PM.gso. intros ->. contradiction. }
  assert (Ha : PM.find nx s0 = Some (garbage g gh k)) by (unfold s0; apply PM.gss).
  destruct (ptr_insert_C16 f s0 root t nx (garbage g gh k) fuel HR0 HI Ha ltac:(lia)) as (Hfresh & Hdup).
  cbn [garbage n_key] in Hfresh, Hdup. unfold PM.key in *.
  destruct (in_dec Z.eq_dec k (inorder t)) as [Hin|Hnin].
  + destruct (Hdup Hin) as (E1 & E2). rewrite E2. cbn [bind]. rewrite E1. cbn [fst].
    change (-1 =? 0) with false. cbv iota.
    eexists _, f, (-1). split; [reflexivity|]. split; [reflexivity|].
    split; [|split; [exact HI | lia]].
    split; cbn [m_state m_next free_node st_store st_root].
    * eapply RepF_frame; [|exact HR]. intros i Hi.
      assert (i <> nx) by (intros ->; contradiction).
      rewrite PM.gro by assumption. unfold s0. apply PM.gso. assumption.
    * intros i Hi. apply Hlt in Hi. lia.
  + destruct (Hfresh Hnin) as (t' & s' & root' & f' & E1 & E2 & HR' & HI' & Hino & Hfk & Hag & Fr).
    rewrite E2. cbn [bind]. rewrite E1. cbn [fst]. change (0 =? 0) with true. cbv iota.
    eexists _, f', 0. split; [reflexivity|]. split; [reflexivity|].
    split; [|split; [exact HI'|]].
    * split; cbn [m_state m_next st_store st_root]; [exact HR'|].
      intros i Hi. apply in_map_iff in Hi. destruct Hi as (x & <- & Hx).
      rewrite Hino in Hx. apply in_ins_sorted in Hx. destruct Hx as [->|Hx].
      -- rewrite Hfk. lia.
      -- rewrite (Hag x Hx). assert (f x < nx)%positive by (apply Hlt; apply in_map; exact Hx). lia.
    * rewrite <- !length_inorder, Hino, length_ins_sorted. lia.
Qed.

Lemma pstep_ok f m t p fuel g gh :
  MInv f m t -> Inv t -> (size t < fuel)%nat ->
  exists m' f' rc,
    pstep fuel g gh m p = Ok (m', rc)
    /\ step t (pop_op p) = (fst (step t (pop_op p)), rc)
    /\ MInv f' m' (fst (step t (pop_op p))) /\ Inv (fst (step t (pop_op p)))
    /\ (size (fst (step t (pop_op p))) <= S (size t))%nat.
Proof.
  intros HM HI Hfuel. destruct p as [k|k|k]; cbn [pstep pop_op].
  - apply (pstep_ins_ok f); assumption.
  - destruct HM as (HR & Hlt). destruct m as [[s root] nx]. cbn [m_state m_next st_store st_root] in *.
    pose proof (depth_le_size t) as Hds. cbn [step].
    pose proof (lookup_z f (mkState s root) k t [] fuel (RepF_zrep _ _ _ _ HR) ltac:(lia)) as HL.
    pose proof HR as (_ & Hroot & _). rewrite <- Hroot in HL. rewrite HL. cbn [bind]. unfold AvlModel.delete.
    destruct (AvlModel.find k t []) as [[tn c]|] eqn:Hf.
    + destruct (find_some k t [] tn c Hf) as (l & h & r & -> & Hplug). cbn [tptr plug] in *.
      assert (Hin : In k (inorder t)).
      { rewrite <- Hplug, inorder_plug. cbn [inorder]. rewrite !in_app_iff. cbn [In]. tauto. }
      destruct (ptr_delete_C16 f s root t k fuel HR HI Hin ltac:(lia))
        as (t' & s' & root' & E1 & E2 & HR' & HI' & Hino & Hnk & Fr).
      unfold AvlModel.delete in E1. rewrite Hf in E1.
      assert (Et : delete_at (N l k h r) c = t') by congruence. rewrite Et. clear Et E1.
      rewrite E2. cbn [bind fst].
      eexists _, f, 0. split; [reflexivity|]. split; [reflexivity|].
      split; [|split; [exact HI'|]].
      * split; cbn [m_state m_next free_node st_store st_root].
        -- eapply RepF_frame; [|exact HR']. intros i Hi. apply PM.gro. intros ->. contradiction.
        -- intros i Hi. apply Hlt. apply in_map_iff in Hi. destruct Hi as (x & <- & Hx).
           rewrite Hino in Hx. apply in_remove in Hx. apply in_map. tauto.
      * rewrite <- !length_inorder, Hino. pose proof (length_remove_le k (inorder t)). lia.
    + cbn [fst]. eexists _, f, 1. split; [reflexivity|]. split; [reflexivity|].
      split; [|split; [exact HI | lia]].
      split; cbn [m_state m_next st_store st_root]; [exact HR | exact Hlt].
  - (* the linked node itself is handed to insert again *)
    pose proof HM as (HR & Hlt). destruct m as [[s root] nx]. cbn [m_state m_next st_store st_root] in *.
    pose proof (depth_le_size t) as Hds.
    pose proof (lookup_z f (mkState s root) k t [] fuel (RepF_zrep _ _ _ _ HR) ltac:(lia)) as HL.
    pose proof HR as (_ & Hroot & Hrep). rewrite <- Hroot in HL. rewrite HL. cbn [bind].
    destruct (AvlModel.find k t []) as [[tn c]|] eqn:Hf.
    + destruct (find_some k t [] tn c Hf) as (l & h & r & -> & Hplug). cbn [tptr plug] in *.
      assert (Hin : In k (inorder t)).
      { rewrite <- Hplug, inorder_plug. cbn [inorder]. rewrite !in_app_iff. cbn [In]. tauto. }
      destruct (rep_find f s t None k Hrep Hin) as (n & Hn & Hkey).
      destruct (ptr_insert_C16 f s root t (f k) n fuel HR HI Hn ltac:(lia)) as (_ & Hdup).
      rewrite Hkey in Hdup. destruct (Hdup Hin) as (E1 & E2).
      unfold PM.key in *. rewrite E2. cbn [bind fst snd step]. rewrite E1. cbn [fst].
      eexists _, f, (-1). split; [reflexivity|]. split; [reflexivity|].
      split; [|split; [exact HI | lia]].
      split; cbn [m_state m_next st_store st_root]; assumption.
    + apply (pstep_ins_ok f (mkMachine (mkState s root) nx) t k fuel g gh); [split|..]; assumption.
Qed.

Lemma prun_ok : forall pops f m t fuel g gh,
  MInv f m t -> Inv t -> (size t + length pops < fuel)%nat ->
  exists m' f', prun fuel g gh pops m = Ok m'
    /\ MInv f' m' (run (map pop_op pops) t) /\ Inv (run (map pop_op pops) t).
Proof.
  induction pops as [|o pops IH]; intros f m t fuel g gh HM HI Hfuel.
  - exists m, f. cbn [map prun run fold_left]. auto.
  - cbn [length] in Hfuel.
    destruct (pstep_ok f m t o fuel g gh HM HI ltac:(lia)) as (m' & f' & rc & E1 & E2 & HM' & HI' & Hsz).
    cbn [map prun]. rewrite E1. cbn [bind fst].
    destruct (IH f' m' (fst (step t (pop_op o))) fuel g gh HM' HI' ltac:(lia)) as (m'' & f'' & E3 & HM'' & HI'').
    exists m'', f''. split; [exact E3|]. split; [exact HM'' | exact HI''].
Qed.

(* histories over the three driver operations (fresh insert, delete, insert of
   the already linked node): the functional counterpart of PReins k is Ins k *)
Theorem ptr_history_pops :
  forall pops fuel g gh, (length pops < fuel)%nat ->
    exists m f,
      prun fuel g gh pops empty_machine = Ok m
      /\ RepF f (st_store (m_state m)) (st_root (m_state m)) (run (map pop_op pops) E)
      /\ Inv (run (map pop_op pops) E).
Proof.
  intros pops fuel g gh Hfuel.
  destruct (prun_ok pops (fun _ => 1%positive) empty_machine E fuel g gh) as (m & f & E1 & (HR & _) & HI).
  - split; [|intros i []]. cbn [empty_machine m_state st_store st_root].
    split; [constructor|]. split; reflexivity.
  - split; [constructor | exact I].
  - cbn [size]. lia.
  - exists m, f. auto.
Qed.

Theorem ptr_history :
  forall ops fuel g gh, (length ops < fuel)%nat ->
    exists m f,
      prun fuel g gh (map to_pop ops) empty_machine = Ok m
      /\ RepF f (st_store (m_state m)) (st_root (m_state m)) (run ops E)
      /\ Inv (run ops E).
Proof.
  intros ops fuel g gh Hfuel.
  assert (Hid : map pop_op (map to_pop ops) = ops).
  { rewrite map_map. rewrite <- (map_id ops) at 2. apply map_ext. intros [k|k]; reflexivity. }
  destruct (ptr_history_pops (map to_pop ops) fuel g gh) as (m & f & A & B & C).
  - rewrite map_length. exact Hfuel.
  - rewrite Hid in B, C. exists m, f. auto.
Qed.
