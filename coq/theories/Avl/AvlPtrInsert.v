(* AvlPtrInsert.v -- iv_avl_tree_insert of AvlPtrModel.v refines insert of
   AvlModel.v (zipper form, for a fixed key -> id map f). *)

From Coq Require Import List ZArith Bool Lia FMapPositive Permutation.
From Ivv Require Import Avl.AvlModel Avl.AvlBasics Avl.AvlRebalance Avl.AvlPtrModel
  Avl.AvlPtrRep Avl.AvlPtrRot Avl.AvlPtrPath.
Import ListNotations.
Local Open Scope Z_scope.

(* structural depth: bound on every descending loop *)
Fixpoint depth (t : tree) : nat :=
  match t with
  | E => O
  | N l _ _ r => S (Nat.max (depth l) (depth r))
  end.

(* the descent of insert_go: Some c' = context of the NULL slot reached, None = key present *)
Fixpoint descend (k : Z) (t : tree) (c : ctx) : option ctx :=
  match t with
  | E => Some c
  | N l k' h r =>
      if k <? k' then descend k l (FL k' h r :: c)
      else if k' <? k then descend k r (FR l k' h :: c)
      else None
  end.

Lemma insert_go_descend k : forall t c,
  insert_go k t c =
  match descend k t c with
  | Some c' => Some (rebalance_from c' (N E k 1 E))
  | None => None
  end.
Proof.
  induction t as [|l IHl k' h r IHr]; intros c; cbn [insert_go descend]; [reflexivity|].
  destruct (k <? k'); [apply IHl|]. destruct (k' <? k); [apply IHr | reflexivity].
Qed.

Lemma descend_plug k : forall t c c', descend k t c = Some c' ->
  plug E c' = plug t c /\ (length c' <= length c + depth t)%nat.
Proof.
  induction t as [|l IHl k' h r IHr]; intros c c'; cbn [descend depth].
  - intros [= <-]. split; [reflexivity | lia].
  - destruct (k <? k').
    + intros H. apply IHl in H. cbn [plug fill length] in H. split; [tauto | lia].
    + destruct (k' <? k); [|discriminate].
      intros H. apply IHr in H. cbn [plug fill length] in H. split; [tauto | lia].
Qed.

Section Ins.
Variable f : Z -> positive.

Notation zrep := (zrep f).
Notation rep := (rep f).
Notation tptr := (tptr f).
Notation cidl := (cidl f).
Notation cref := (cref f).
Notation cpar := (cpar f).

Lemma insert_loop_z : forall t c fuel s root a n,
  zrep (mkState s root) t c -> PM.find a s = Some n -> (depth t <= fuel)%nat ->
  match descend (n_key n) t c with
  | Some c' =>
      insert_loop fuel (mkState s root) (Some a) (cpar c) (cref c) = Ok (Some (cpar c', cref c'))
      /\ zrep (mkState s root) E c'
  | None => insert_loop fuel (mkState s root) (Some a) (cpar c) (cref c) = Ok None
  end.
Proof.
  induction t as [|l IHl k' h r IHr]; intros c fuel s root a n Hz Ha Hfuel.
  - cbn [descend]. split; [|exact Hz].
    destruct fuel; cbn [insert_loop]; rewrite (load_cref f _ _ _ Hz); reflexivity.
  - cbn [descend depth] in *. destruct fuel as [|fuel]; [lia|].
    cbn [insert_loop]. rewrite (load_cref f _ _ _ Hz). simp.
    rewrite (get_key_ok _ _ _ _ Ha). simp.
    pose proof Hz as (Hr & _ & _). cbn [st_store AvlPtrRep.rep] in Hr. destruct Hr as (Hk & _ & _).
    rewrite (get_key_ok _ _ _ _ Hk). simp.
    destruct (n_key n <? k').
    + apply (IHl (FL k' h r :: c) fuel s root a n); [|exact Ha|lia].
      apply (proj2 (zrep_fill f _ (FL k' h r) l c)). exact Hz.
    + destruct (k' <? n_key n); [|reflexivity].
      apply (IHr (FR l k' h :: c) fuel s root a n); [|exact Ha|lia].
      apply (proj2 (zrep_fill f _ (FR l k' h) r c)). exact Hz.
Qed.

Lemma inorder_plug_leaf k c :
  Permutation (inorder (plug (N E k 1 E) c)) (k :: inorder (plug E c)).
Proof.
  rewrite !inorder_plug. cbn [inorder app]. symmetry. apply Permutation_middle.
Qed.

(* key already present: -1, nothing written *)
Lemma insert_dup_z s root t a n fuel :
  zrep (mkState s root) t [] -> PM.find a s = Some n -> (depth t <= fuel)%nat ->
  AvlModel.insert (n_key n) t = None ->
  iv_avl_tree_insert fuel (mkState s root) (Some a) = Ok (mkState s root, -1).
Proof.
  intros Hz Ha Hfuel Hins. unfold AvlModel.insert in Hins. rewrite insert_go_descend in Hins.
  pose proof (insert_loop_z t [] fuel s root a n Hz Ha Hfuel) as HL.
  destruct (descend (n_key n) t []) as [c'|]; [discriminate|].
  unfold iv_avl_tree_insert. cbn [AvlPtrRep.cpar AvlPtrRep.cref] in HL. rewrite HL. reflexivity.
Qed.

(* fresh key: the node a = f k is linked in and the path rebalanced *)
Lemma insert_fresh_z s root t a n fuel t' :
  zrep (mkState s root) t [] -> hpos t ->
  PM.find a s = Some n -> f (n_key n) = a ->
  NoDup (a :: idl f t) -> (depth t < fuel)%nat ->
  AvlModel.insert (n_key n) t = Some t' ->
  exists st', iv_avl_tree_insert fuel (mkState s root) (Some a) = Ok (st', 0)
    /\ zrep st' t' []
    /\ (forall i, i <> a -> ~ In i (idl f t) -> PM.find i (st_store st') = PM.find i s).
Proof.
  intros Hz Hp Ha Hfa ND Hfuel Hins. set (k := n_key n) in *.
  unfold AvlModel.insert in Hins. rewrite insert_go_descend in Hins.
  pose proof (insert_loop_z t [] fuel s root a n Hz Ha ltac:(lia)) as HL. fold k in HL.
  pose proof (descend_plug k t []) as HD.
  destruct (descend k t []) as [c'|]; [|discriminate].
  injection Hins as <-. destruct HL as (HL & Hz'). destruct (HD c' eq_refl) as (Hplug & Hlen).
  cbn [plug length] in Hplug, Hlen.
  unfold iv_avl_tree_insert. cbn [AvlPtrRep.cpar AvlPtrRep.cref] in HL. rewrite HL. simp.
  rewrite (set_left_ok _ _ _ _ _ Ha). simp.
  erewrite set_right_ok by apply PM.gss. simp.
  erewrite set_parent_ok by apply PM.gss. simp.
  erewrite set_height_ok by apply PM.gss. simp.
  set (s1 := PM.add a _ _).
  (* ids *)
  assert (NDw : NoDup (idl f (plug (N E k 1 E) c'))).
  { eapply Permutation_NoDup; [apply Permutation_map; symmetry; apply inorder_plug_leaf|].
    rewrite Hplug. cbn [map]. rewrite Hfa. exact ND. }
  pose proof NDw as NDl. rewrite nodup_plug in NDl. cbn [inorder map app] in NDl. rewrite Hfa in NDl.
  apply NoDup_cons_iff in NDl as [Hac NDc].
  destruct Hz' as (_ & Hc' & Hroot). cbn [st_store st_root AvlPtrRep.tptr] in Hc', Hroot.
  assert (Hs1 : forall i, i <> a -> PM.find i s1 = PM.find i s).
  { intros i Hi. unfold s1. rewrite !PM.gso by exact Hi. reflexivity. }
  assert (Hc1 : repc f s1 c' None).
  { eapply repc_frame; [|exact Hc']. intros i Hi. apply Hs1. intros ->. contradiction. }
  destruct (store_cref_gen f s1 root c' None (N E k 1 E) Hc1 Hroot NDc) as (st2 & E2 & Hz2 & F2).
  { cbn [AvlPtrRep.rep AvlPtrRep.tptr]. rewrite Hfa. unfold s1. rewrite PM.gss.
    repeat split. }
  { cbn [inorder map app]. rewrite Hfa. intros i [<-|[]]. exact Hac. }
  cbn [AvlPtrRep.tptr] in E2. rewrite Hfa in E2. unfold PM.key in *. rewrite E2. simp.
  destruct st2 as [s2 root2].
  destruct (rebalance_from_z f c' (N E k 1 E) s2 root2 fuel) as (st3 & E3 & Hz3 & F3).
  - apply hpos_plug. rewrite <- Hplug in Hp. apply hpos_plug in Hp. cbn [hpos]. split; [|tauto]. split; [lia|tauto].
  - exact Hz2.
  - exact NDw.
  - lia.
  - rewrite E3. simp. exists st3. split; [reflexivity|]. split; [exact Hz3|].
    intros i Hia Hit. rewrite F3.
    + cbn [st_store] in F2. rewrite F2; [apply Hs1; exact Hia|].
      intros Hic. apply Hit. rewrite <- Hplug. apply in_idl_plug. right. exact Hic.
    + intros Hi. apply (Permutation_in _ (Permutation_map f (inorder_plug_leaf k c'))) in Hi.
      rewrite Hplug in Hi. cbn [map] in Hi. rewrite Hfa in Hi. destruct Hi as [->|Hi]; auto.
Qed.

End Ins.
