(* AvlMonitor.v -- boolean monitor of property C16 on one observed step
   (used on *implementation* traces by the check; proved to accept every
   model step in Props/Properties_C16.v). *)
From Coq Require Import List ZArith Bool.
From Ivv Require Import Avl.AvlModel.
Import ListNotations.
Local Open Scope Z_scope.

Fixpoint list_eqb (a b : list Z) : bool :=
  match a, b with
  | [], [] => true
  | x :: a', y :: b' => (x =? y) && list_eqb a' b'
  | _, _ => false
  end.

Fixpoint set_ins (k : Z) (l : list Z) : list Z :=
  match l with
  | [] => [k]
  | x :: l' => if k <? x then k :: l else x :: set_ins k l'
  end.

Fixpoint set_del (k : Z) (l : list Z) : list Z :=
  match l with
  | [] => []
  | x :: l' => if k =? x then set_del k l' else x :: set_del k l'
  end.

Definition set_mem (k : Z) (l : list Z) : bool := existsb (Z.eqb k) l.

(* dump with explicit NULLs, as printed by both drivers *)
Fixpoint dumpn_go (t : tree) (parent : Z) : list (option (Z * Z * Z)) :=
  match t with
  | E => [None]
  | N l k h r => Some (k, h, parent) :: dumpn_go l k ++ dumpn_go r k
  end.
Definition dumpn (t : tree) : list (option (Z * Z * Z)) := dumpn_go t (-1).

(* parent keys in the dump are those implied by the structure *)
Fixpoint parents_ok (t : tree) (parent : Z) (d : list (option (Z * Z * Z))) : option (list (option (Z * Z * Z))) :=
  match t with
  | E => match d with None :: d' => Some d' | _ => None end
  | N l k h r =>
      match d with
      | Some (k', h', p') :: d' =>
          if (k =? k') && (h =? h') && (parent =? p') then
            match parents_ok l k d' with
            | Some d'' => parents_ok r k d''
            | None => None
            end
          else None
      | _ => None
      end
  end.

(* s: the reference set before the op; returns the new reference set and the verdict.
   t is the observed tree after the op, fwd/bwd the observed traversals. *)
Definition mon_step (s : list Z) (o : op) (rc : Z) (t : tree) (fwd bwd : list Z) : list Z * bool :=
  let '(s', rc') :=
    match o with
    | Ins k => if set_mem k s then (s, -1) else (set_ins k s, 0)
    | Del k => if set_mem k s then (set_del k s, 0) else (s, 1)
    end in
  (s', (rc =? rc') && inv_b t && list_eqb (inorder t) s' && list_eqb fwd s' && list_eqb bwd (rev s')).
