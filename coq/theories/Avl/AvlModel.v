(* AvlModel.v -- executable model of /repo/src/iv_avl.c (and the inline
   min/max helpers of src/include/iv_avl.h).  No proofs in this file.

   The C code manipulates nodes with left/right/parent pointers and a stored
   uint8_t height.  The model is a functional tree with *stored* heights
   (so stale heights are representable, as they are in the C code while
   rebalance_path is running), and parent pointers are represented by a
   zipper: the list of frames from a node up to the root.  Every function
   is written after the C function of the same name, with the same order
   of height recalculations. *)

From Coq Require Import List ZArith Bool.
Import ListNotations.
Local Open Scope Z_scope.

Inductive tree : Type :=
| E : tree
| N : tree -> Z -> Z -> tree -> tree.      (* left, key, stored height, right *)

(* height(): 0 for NULL, the stored field otherwise *)
Definition ht (t : tree) : Z :=
  match t with E => 0 | N _ _ h _ => h end.

(* recalc_height() applied to a node with children l and r *)
Definition mk (l : tree) (k : Z) (r : tree) : tree :=
  N l k (1 + (if ht r <? ht l then ht l else ht r)) r.

(* The four rotations.  Each is the composition of recalc_height calls in
   the order of the C text (inner node(s) first, new root last).  When the
   shape precondition of the C code (non-NULL d / b / f) fails the C code
   would dereference NULL; the model returns the tree unchanged and the
   theorems show this case is never reached from rebalance_node. *)
Definition rotate_left (t : tree) : tree :=
  match t with
  | N a b _ (N c d _ e) => mk (mk a b c) d e
  | _ => t
  end.

Definition rotate_right (t : tree) : tree :=
  match t with
  | N (N a b _ c) d _ e => mk a b (mk c d e)
  | _ => t
  end.

Definition rotate_left_right (t : tree) : tree :=
  match t with
  | N (N a b _ (N c d _ e)) f _ g => mk (mk a b c) d (mk e f g)
  | _ => t
  end.

Definition rotate_right_left (t : tree) : tree :=
  match t with
  | N a b _ (N (N c d _ e) f _ g) => mk (mk a b c) d (mk e f g)
  | _ => t
  end.

(* balance(): height(right) - height(left), on stored heights *)
Definition balance (t : tree) : Z :=
  match t with E => 0 | N l _ _ r => ht r - ht l end.

Definition left_of (t : tree) : tree := match t with E => E | N l _ _ _ => l end.
Definition right_of (t : tree) : tree := match t with E => E | N _ _ _ r => r end.

(* rebalance_node() *)
Definition rebalance_node (t : tree) : tree :=
  let bal := balance t in
  if bal =? -2 then
    if balance (left_of t) <=? 0 then rotate_right t else rotate_left_right t
  else if bal =? 2 then
    if balance (right_of t) <? 0 then rotate_right_left t else rotate_left t
  else t.

(* One step of the parent chain: the parent node with a hole where the
   current subtree hangs.  FL k h r: the hole is the left child of a node
   with key k, stored height h and right child r.  FR l k h: symmetric. *)
Inductive frame : Type :=
| FL : Z -> Z -> tree -> frame
| FR : tree -> Z -> Z -> frame.

Definition ctx := list frame.          (* innermost frame first *)

Definition fill (f : frame) (t : tree) : tree :=
  match f with
  | FL k h r => N t k h r
  | FR l k h => N l k h t
  end.

Fixpoint plug (t : tree) (c : ctx) : tree :=
  match c with
  | [] => t
  | f :: c' => plug (fill f t) c'
  end.

(* rebalance_path(tree, an) with an = t (context c above it).
   old_height = an->height; recalc_height(an); rebalance_node(ref);
   an = *ref; if (old_height == an->height) break; an = an->parent. *)
Fixpoint rebalance_up (c : ctx) (t : tree) : tree :=
  match t with
  | E => plug E c                                  (* while (an != NULL) *)
  | N l k old_h r =>
      let t1 := rebalance_node (mk l k r) in
      if old_h =? ht t1 then plug t1 c
      else match c with
           | [] => t1
           | f :: c' => rebalance_up c' (fill f t1)
           end
  end.

(* "start rebalancing from the parent of the hole, in which t now hangs" *)
Definition rebalance_from (c : ctx) (t : tree) : tree :=
  match c with
  | [] => t                                         (* rebalance_path(tree, NULL) *)
  | f :: c' => rebalance_up c' (fill f t)
  end.

(* iv_avl_tree_insert(): descend with the comparator; -1 (None) on equal key *)
Fixpoint insert_go (k : Z) (t : tree) (c : ctx) : option tree :=
  match t with
  | E => Some (rebalance_from c (N E k 1 E))
  | N l k' h r =>
      if k <? k' then insert_go k l (FL k' h r :: c)
      else if k' <? k then insert_go k r (FR l k' h :: c)
      else None
  end.

Definition insert (k : Z) (t : tree) : option tree := insert_go k t [].

(* Locate the node carrying key k (the C API is handed the node pointer). *)
Fixpoint find (k : Z) (t : tree) (c : ctx) : option (tree * ctx) :=
  match t with
  | E => None
  | N l k' h r =>
      if k <? k' then find k l (FL k' h r :: c)
      else if k' <? k then find k r (FR l k' h :: c)
      else Some (t, c)
  end.

(* victim = an->left; while (victim->right != NULL) victim = victim->right;
   returns (victim->left, victim key, frames from victim's hole up to, not
   including, an). *)
Fixpoint split_max (l : tree) (k : Z) (h : Z) (r : tree) (c : ctx) : tree * Z * ctx :=
  match r with
  | E => (l, k, c)
  | N rl rk rh rr => split_max rl rk rh rr (FR l k h :: c)
  end.

Fixpoint split_min (l : tree) (k : Z) (h : Z) (r : tree) (c : ctx) : tree * Z * ctx :=
  match l with
  | E => (r, k, c)
  | N ll lk lh lr => split_min ll lk lh lr (FL k h r :: c)
  end.

(* iv_avl_tree_delete() on the node at (N l _ h r, c) *)
Definition delete_at (t : tree) (c : ctx) : tree :=
  match t with
  | E => plug E c
  | N l _ h r =>
      match l, r with
      | E, E => rebalance_from c E                                  (* delete_leaf *)
      | _, _ =>
          if ht r <? ht l then
            match l with
            | E => plug t c                                         (* unreachable *)
            | N ll lk lh lr =>
                let '(vl, vk, c2) := split_max ll lk lh lr [] in
                (* victim takes an's place, keeping an's stored height *)
                rebalance_from (c2 ++ FL vk h r :: c) vl
            end
          else
            match r with
            | E => plug t c                                         (* unreachable for AVL trees *)
            | N rl rk rh rr =>
                let '(vr, vk, c2) := split_min rl rk rh rr [] in
                rebalance_from (c2 ++ FR l vk h :: c) vr
            end
      end
  end.

Definition delete (k : Z) (t : tree) : option tree :=
  match find k t [] with
  | None => None
  | Some (n, c) => Some (delete_at n c)
  end.

(* ---- traversal: iv_avl_tree_min/max/next/prev as parent-pointer walks ---- *)

Definition loc := (tree * ctx)%type.     (* a node (as subtree) and its parent chain *)

Fixpoint leftmost (t : tree) (c : ctx) : option loc :=
  match t with
  | E => None
  | N l k h r =>
      match l with
      | E => Some (t, c)
      | N _ _ _ _ => leftmost l (FL k h r :: c)
      end
  end.

Fixpoint rightmost (t : tree) (c : ctx) : option loc :=
  match t with
  | E => None
  | N l k h r =>
      match r with
      | E => Some (t, c)
      | N _ _ _ _ => rightmost r (FR l k h :: c)
      end
  end.

Definition tree_min (t : tree) : option loc := leftmost t [].
Definition tree_max (t : tree) : option loc := rightmost t [].

(* p = an->parent; while (p != NULL && an == p->right) { an = p; p = an->parent; } return p; *)
Fixpoint up_while_right (t : tree) (c : ctx) : option loc :=
  match c with
  | [] => None
  | FR l k h :: c' => up_while_right (N l k h t) c'
  | FL k h r :: c' => Some (N t k h r, c')
  end.

Fixpoint up_while_left (t : tree) (c : ctx) : option loc :=
  match c with
  | [] => None
  | FL k h r :: c' => up_while_left (N t k h r) c'
  | FR l k h :: c' => Some (N l k h t, c')
  end.

Definition next (p : loc) : option loc :=
  let '(t, c) := p in
  match t with
  | E => None
  | N l k h r =>
      match r with
      | E => up_while_right t c
      | N _ _ _ _ => leftmost r (FR l k h :: c)
      end
  end.

Definition prev (p : loc) : option loc :=
  let '(t, c) := p in
  match t with
  | E => None
  | N l k h r =>
      match l with
      | E => up_while_left t c
      | N _ _ _ _ => rightmost l (FL k h r :: c)
      end
  end.

Definition key_of (p : loc) : option Z :=
  match fst p with E => None | N _ k _ _ => Some k end.

(* iv_avl_tree_for_each: iterate next from min, with fuel *)
Fixpoint iter_next (fuel : nat) (p : option loc) : list Z :=
  match fuel, p with
  | S f, Some q =>
      match key_of q with
      | Some k => k :: iter_next f (next q)
      | None => []
      end
  | _, _ => []
  end.

Fixpoint iter_prev (fuel : nat) (p : option loc) : list Z :=
  match fuel, p with
  | S f, Some q =>
      match key_of q with
      | Some k => k :: iter_prev f (prev q)
      | None => []
      end
  | _, _ => []
  end.

Fixpoint size (t : tree) : nat :=
  match t with E => O | N l _ _ r => S (size l + size r) end.

Definition forward (t : tree) : list Z := iter_next (size t) (tree_min t).
Definition backward (t : tree) : list Z := iter_prev (size t) (tree_max t).

Fixpoint inorder (t : tree) : list Z :=
  match t with E => [] | N l k _ r => inorder l ++ k :: inorder r end.

(* ---- operation histories ---- *)

Inductive op : Type := Ins (k : Z) | Del (k : Z).

(* result code as observed at the C API: insert returns 0 / -1; the harness
   only deletes nodes that are in the tree and reports 1 when the key is
   absent (no call made). *)
Definition step (t : tree) (o : op) : tree * Z :=
  match o with
  | Ins k => match insert k t with Some t' => (t', 0) | None => (t, -1) end
  | Del k => match delete k t with Some t' => (t', 0) | None => (t, 1) end
  end.

Definition run (ops : list op) (t : tree) : tree :=
  fold_left (fun t o => fst (step t o)) ops t.

(* ---- canonical dump, compared with the C structure after every op ----
   pre-order list of (key, stored height, parent key or -1 for the root) *)
Fixpoint dump_go (t : tree) (parent : Z) : list (Z * Z * Z) :=
  match t with
  | E => []
  | N l k h r => (k, h, parent) :: dump_go l k ++ dump_go r k
  end.

Definition dump (t : tree) : list (Z * Z * Z) := dump_go t (-1).

(* ---- boolean monitor of the AVL invariant on a dumped/real tree ---- *)
Fixpoint real_height (t : tree) : Z :=
  match t with E => 0 | N l _ _ r => 1 + Z.max (real_height l) (real_height r) end.

Fixpoint avl_b (t : tree) : bool :=
  match t with
  | E => true
  | N l k h r =>
      avl_b l && avl_b r && (h =? 1 + Z.max (ht l) (ht r))
      && (-1 <=? ht r - ht l) && (ht r - ht l <=? 1)
  end.

Fixpoint sorted_b (l : list Z) : bool :=
  match l with
  | [] => true
  | x :: l' => match l' with [] => true | y :: _ => (x <? y) && sorted_b l' end
  end.

Definition inv_b (t : tree) : bool := avl_b t && sorted_b (inorder t).
