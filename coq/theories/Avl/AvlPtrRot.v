(* AvlPtrRot.v -- the four pointer-level rotations and rebalance_node of
   AvlPtrModel.v refine the functional ones of AvlModel.v (symbolic execution
   of the transcribed statements on a represented subtree in a context). *)

From Coq Require Import List ZArith Bool Lia FMapPositive.
From Ivv Require Import Avl.AvlModel Avl.AvlPtrModel Avl.AvlPtrRep.
Import ListNotations.
Local Open Scope Z_scope.

(* ---- symbolic execution tactics ---- *)
Ltac neq := solve [assumption | apply not_eq_sym; assumption | congruence].

Ltac fnd :=
  lazymatch goal with
  | |- PM.find ?i (PM.add ?i _ _) = _ => rewrite PM.gss; reflexivity
  | |- PM.find ?i (PM.add ?j _ _) = _ => rewrite PM.gso by neq; fnd
  | |- _ => eassumption
  end.

Ltac reps :=
  lazymatch goal with
  | |- rep _ (PM.add _ _ _) _ _ => apply rep_add; [assumption | reps]
  | |- _ => eassumption
  end.

Ltac simp :=
  unfold with_left, with_right, with_parent, with_height, set_parent_if;
  cbn [bind fst snd n_left n_right n_parent n_height n_key tptr height
       st_store st_root].

Ltac head_of m :=
  lazymatch m with
  | bind ?m' _ => head_of m'
  | _ => m
  end.

Ltac step :=
  simp;
  lazymatch goal with
  | |- exists _, ?prog = _ /\ _ =>
      let h := head_of prog in
      lazymatch h with
      | get_left _ _ => erewrite get_left_ok by fnd
      | get_right _ _ => erewrite get_right_ok by fnd
      | get_parent _ _ => erewrite get_parent_ok by fnd
      | get_height _ _ => erewrite get_height_ok by fnd
      | get_key _ _ => erewrite get_key_ok by fnd
      | set_left _ _ _ => erewrite set_left_ok by fnd
      | set_right _ _ _ => erewrite set_right_ok by fnd
      | set_parent _ _ _ => erewrite set_parent_ok by fnd
      | set_height _ _ _ => erewrite set_height_ok by fnd
      | height _ (tptr _ _) => erewrite height_rep by reps
      | recalc_height _ _ => unfold recalc_height at 1
      end
  end.

Ltac steps := repeat step; simp.

(* forall i, ~ In i (idl t) -> find i (add .. (add .. s)) = find i s *)
Ltac frame_solve :=
  let i := fresh "i" in
  let Hi := fresh "Hi" in
  intros i Hi; cbn [inorder] in Hi;
  repeat first [rewrite map_app in Hi | progress cbn [map] in Hi];
  repeat first [rewrite in_app_iff in Hi | progress cbn [In] in Hi];
  repeat (rewrite PM.gso; [|intros ->; clear - Hi; intuition]);
  reflexivity.

Ltac rep_goal :=
  unfold mk; cbn [rep tptr];
  repeat match goal with
         | |- _ /\ _ => split
         | |- PM.find _ _ = _ => fnd
         | |- rep _ _ _ _ => reps
         | |- True => exact I
         end.

Ltac inorder_eq :=
  unfold mk; cbn [inorder];
  repeat first [rewrite <- app_assoc | rewrite app_nil_r | progress cbn [app]];
  reflexivity.

Ltac sub_goal :=
  let i := fresh "i" in
  let Hi := fresh "Hi" in
  intros i Hi;
  lazymatch goal with
  | Hi : In _ (map _ (inorder ?t')) |- In _ (map _ (inorder ?t)) =>
      replace (inorder t) with (inorder t') by inorder_eq; exact Hi
  end.

Section Rot.
Variable f : Z -> positive.

Notation zrep := (zrep f).
Notation rep := (rep f).
Notation tptr := (tptr f).
Notation cidl := (cidl f).
Notation cref := (cref f).

Definition frame_ok (t : tree) (c : ctx) (s : store) (st' : state) : Prop :=
  forall i, ~ In i (idl f t) -> ~ In i (cidl c) -> PM.find i (st_store st') = PM.find i s.

Lemma rotate_left_z s root a b hb c0 d hd e c :
  zrep (mkState s root) (N a b hb (N c0 d hd e)) c ->
  NoDup (idl f (N a b hb (N c0 d hd e)) ++ cidl c) ->
  exists st', rotate_left (mkState s root) (cref c) = Ok st'
    /\ zrep st' (mk (mk a b c0) d e) c
    /\ frame_ok (N a b hb (N c0 d hd e)) c s st'.
Proof.
  intros Hz ND. unfold rotate_left. rewrite (load_cref f _ _ _ Hz).
  pose proof Hz as (Hr & _ & _). cbn [st_store] in Hr.
  pose proof (nodup_app_l _ _ ND) as NDt.
  destruct c0 as [|cl ck ch cr]; cbn [rep AvlPtrRep.tptr] in Hr;
    repeat match goal with H : _ /\ _ |- _ => destruct H end;
    cbn [inorder] in NDt; nd_facts NDt.
  - steps.
    apply (store_cref f s root _ c _ (mk (mk a b E) d e) Hz ND);
      [rep_goal | frame_solve | sub_goal].
  - steps.
    apply (store_cref f s root _ c _ (mk (mk a b (N cl ck ch cr)) d e) Hz ND);
      [rep_goal | frame_solve | sub_goal].
Qed.

Lemma rotate_right_z s root a b hb c0 d hd e c :
  zrep (mkState s root) (N (N a b hb c0) d hd e) c ->
  NoDup (idl f (N (N a b hb c0) d hd e) ++ cidl c) ->
  exists st', rotate_right (mkState s root) (cref c) = Ok st'
    /\ zrep st' (mk a b (mk c0 d e)) c
    /\ frame_ok (N (N a b hb c0) d hd e) c s st'.
Proof.
  intros Hz ND. unfold rotate_right. rewrite (load_cref f _ _ _ Hz).
  pose proof Hz as (Hr & _ & _). cbn [st_store] in Hr.
  pose proof (nodup_app_l _ _ ND) as NDt.
  destruct c0 as [|cl ck ch cr]; cbn [rep AvlPtrRep.tptr] in Hr;
    repeat match goal with H : _ /\ _ |- _ => destruct H end;
    cbn [inorder] in NDt; nd_facts NDt.
  - steps.
    apply (store_cref f s root _ c _ (mk a b (mk E d e)) Hz ND);
      [rep_goal | frame_solve | sub_goal].
  - steps.
    apply (store_cref f s root _ c _ (mk a b (mk (N cl ck ch cr) d e)) Hz ND);
      [rep_goal | frame_solve | sub_goal].
Qed.

Lemma rotate_left_right_z s root a b hb c0 d hd e0 kf hf g c :
  zrep (mkState s root) (N (N a b hb (N c0 d hd e0)) kf hf g) c ->
  NoDup (idl f (N (N a b hb (N c0 d hd e0)) kf hf g) ++ cidl c) ->
  exists st', rotate_left_right (mkState s root) (cref c) = Ok st'
    /\ zrep st' (mk (mk a b c0) d (mk e0 kf g)) c
    /\ frame_ok (N (N a b hb (N c0 d hd e0)) kf hf g) c s st'.
Proof.
  intros Hz ND. unfold rotate_left_right. rewrite (load_cref f _ _ _ Hz).
  pose proof Hz as (Hr & _ & _). cbn [st_store] in Hr.
  pose proof (nodup_app_l _ _ ND) as NDt.
  destruct c0 as [|cl ck ch cr]; destruct e0 as [|el ek eh er]; cbn [rep AvlPtrRep.tptr] in Hr;
    repeat match goal with H : _ /\ _ |- _ => destruct H end;
    cbn [inorder] in NDt; nd_facts NDt.
  - steps.
    apply (store_cref f s root _ c _ (mk (mk a b E) d (mk E kf g)) Hz ND);
      [rep_goal | frame_solve | sub_goal].
  - steps.
    apply (store_cref f s root _ c _ (mk (mk a b E) d (mk (N el ek eh er) kf g)) Hz ND);
      [rep_goal | frame_solve | sub_goal].
  - steps.
    apply (store_cref f s root _ c _ (mk (mk a b (N cl ck ch cr)) d (mk E kf g)) Hz ND);
      [rep_goal | frame_solve | sub_goal].
  - steps.
    apply (store_cref f s root _ c _ (mk (mk a b (N cl ck ch cr)) d (mk (N el ek eh er) kf g)) Hz ND);
      [rep_goal | frame_solve | sub_goal].
Qed.

Lemma rotate_right_left_z s root a b hb c0 d hd e0 kf hf g c :
  zrep (mkState s root) (N a b hb (N (N c0 d hd e0) kf hf g)) c ->
  NoDup (idl f (N a b hb (N (N c0 d hd e0) kf hf g)) ++ cidl c) ->
  exists st', rotate_right_left (mkState s root) (cref c) = Ok st'
    /\ zrep st' (mk (mk a b c0) d (mk e0 kf g)) c
    /\ frame_ok (N a b hb (N (N c0 d hd e0) kf hf g)) c s st'.
Proof.
  intros Hz ND. unfold rotate_right_left. rewrite (load_cref f _ _ _ Hz).
  pose proof Hz as (Hr & _ & _). cbn [st_store] in Hr.
  pose proof (nodup_app_l _ _ ND) as NDt.
  destruct c0 as [|cl ck ch cr]; destruct e0 as [|el ek eh er]; cbn [rep AvlPtrRep.tptr] in Hr;
    repeat match goal with H : _ /\ _ |- _ => destruct H end;
    cbn [inorder] in NDt; nd_facts NDt.
  - steps.
    apply (store_cref f s root _ c _ (mk (mk a b E) d (mk E kf g)) Hz ND);
      [rep_goal | frame_solve | sub_goal].
  - steps.
    apply (store_cref f s root _ c _ (mk (mk a b E) d (mk (N el ek eh er) kf g)) Hz ND);
      [rep_goal | frame_solve | sub_goal].
  - steps.
    apply (store_cref f s root _ c _ (mk (mk a b (N cl ck ch cr)) d (mk E kf g)) Hz ND);
      [rep_goal | frame_solve | sub_goal].
  - steps.
    apply (store_cref f s root _ c _ (mk (mk a b (N cl ck ch cr)) d (mk (N el ek eh er) kf g)) Hz ND);
      [rep_goal | frame_solve | sub_goal].
Qed.

End Rot.
