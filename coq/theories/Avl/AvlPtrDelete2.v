(* AvlPtrDelete2.v -- iv_avl_tree_delete_nonleaf / iv_avl_tree_delete of
   AvlPtrModel.v refine delete_at of AvlModel.v (zipper form, fixed f). *)

From Coq Require Import List ZArith Bool Lia FMapPositive Permutation.
From Ivv Require Import Avl.AvlModel Avl.AvlBasics Avl.AvlRebalance Avl.AvlProofs Avl.AvlPtrModel
  Avl.AvlPtrRep Avl.AvlPtrRot Avl.AvlPtrPath Avl.AvlPtrInsert Avl.AvlPtrTrav Avl.AvlPtrDelete.
Import ListNotations.
Local Open Scope Z_scope.

Section Del2.
Variable f : Z -> positive.

Notation zrep := (zrep f).
Notation rep := (rep f).
Notation repc := (repc f).
Notation tptr := (tptr f).
Notation cidl := (cidl f).
Notation cref := (cref f).
Notation cpar := (cpar f).

(* victim = maximum of the left subtree *)
Lemma delete_nonleaf_left_z s root ll lk lh lr k h r c fuel vl vk c2 :
  (ht r <? ht (N ll lk lh lr)) = true ->
  split_max ll lk lh lr [] = (vl, vk, c2) ->
  zrep (mkState s root) (N (N ll lk lh lr) k h r) c ->
  NoDup (idl f (plug (N (N ll lk lh lr) k h r) c)) ->
  (depth (plug (N (N ll lk lh lr) k h r) c) <= S fuel)%nat ->
  exists s' root',
    delete_nonleaf fuel (mkState s root) (Some (f k))
      = Ok (mkState s' root', cpar (c2 ++ FL vk h r :: c))
    /\ zrep (mkState s' root') vl (c2 ++ FL vk h r :: c)
    /\ NoDup (idl f vl ++ cidl (c2 ++ FL vk h r :: c))
    /\ (forall i, ~ In i (idl f (plug (N (N ll lk lh lr) k h r) c)) -> PM.find i s' = PM.find i s)
    /\ (forall i, In i (idl f vl ++ cidl (c2 ++ FL vk h r :: c)) ->
                  In i (idl f (plug (N (N ll lk lh lr) k h r) c))).
Proof.
  intros Hb Hsp Hz ND Hfuel.
  destruct (split_max_rightmost lr ll lk lh [] vl vk c2 Hsp) as (vh & Hplug & Hrm).
  cbn [plug app] in Hplug, Hrm.
  set (c0 := FL k h r :: c) in *.
  assert (Hz0 : zrep (mkState s root) (N ll lk lh lr) c0).
  { apply (proj2 (zrep_fill f _ (FL k h r) _ c)). exact Hz. }
  pose proof (depth_plug c (N (N ll lk lh lr) k h r)) as Hd. cbn [depth] in Hd.
  destruct (walk_right_z f (mkState s root) (N ll lk lh lr) c0 fuel ltac:(discriminate) Hz0) as (Hw & Hv).
  { cbn [depth]. lia. }
  rewrite (Hrm c0) in Hw, Hv. cbn [locptr AvlPtrRep.tptr] in Hw. destruct Hv as (_ & Hzv & HT).
  set (cv := c2 ++ c0) in *.
  change (plug (N ll lk lh lr) c0) with (plug (N (N ll lk lh lr) k h r) c) in HT.
  assert (NDv : NoDup (idl f (N vl vk vh E) ++ cidl cv)).
  { apply (proj1 (nodup_plug f _ _)). rewrite HT. exact ND. }
  destruct (unlink_max_z f s root fuel _ vl vk vh cv Hw Hzv NDv) as (s2 & root2 & E2 & Hz2 & HV2 & F2).
  unfold delete_nonleaf.
  pose proof Hz as (Hr & _ & _). cbn [st_store AvlPtrRep.rep AvlPtrRep.tptr] in Hr.
  destruct Hr as (Hk & Hl & Hrr).
  rewrite (get_left_ok _ _ _ _ Hk). simp'.
  pose proof (height_rep f s root (N ll lk lh lr) _ Hl) as HL. cbn [AvlPtrRep.tptr] in HL. rewrite HL. simp'.
  rewrite (get_right_ok _ _ _ _ Hk). simp'.
  rewrite (height_rep f _ _ _ _ Hrr). simp'.
  rewrite Hb. rewrite E2. simp'.
  rewrite (get_parent_ok _ _ _ _ HV2). simp'.
  (* the tree with the victim unlinked, seen from node k *)
  assert (Hz2' : zrep (mkState s2 root2) (N (plug vl c2) k h r) c).
  { apply (proj1 (zrep_fill f _ (FL k h r) _ c)). apply (proj1 (zrep_app f _ c2 vl c0)). exact Hz2. }
  assert (Hpl : plug (N (plug vl c2) k h r) c = plug vl cv).
  { unfold cv, c0. rewrite plug_app. reflexivity. }
  cbn [inorder] in NDv. rewrite map_app in NDv. cbn [map] in NDv.
  assert (NDvl : NoDup (idl f vl ++ cidl cv)).
  { rewrite <- app_assoc in NDv. cbn [app] in NDv. exact (NoDup_remove_1 _ _ _ NDv). }
  assert (HVn : ~ In (f vk) (idl f vl ++ cidl cv)).
  { rewrite <- app_assoc in NDv. cbn [app] in NDv. exact (NoDup_remove_2 _ _ _ NDv). }
  assert (NDs : NoDup (idl f (N (plug vl c2) k h r) ++ cidl c)).
  { apply (proj1 (nodup_plug f _ _)). rewrite Hpl. apply (proj2 (nodup_plug f _ _)). exact NDvl. }
  assert (Hmem : forall i, In i (idl f (N (plug vl c2) k h r)) \/ In i (cidl c)
                           <-> In i (idl f vl) \/ In i (cidl cv)).
  { intros i. rewrite <- !in_idl_plug. rewrite Hpl. tauto. }
  assert (HVt : ~ In (f vk) (idl f (N (plug vl c2) k h r))).
  { intros Hi. apply HVn. apply in_or_app. apply Hmem. left. exact Hi. }
  assert (HVc : ~ In (f vk) (cidl c)).
  { intros Hi. apply HVn. apply in_or_app. apply Hmem. right. exact Hi. }
  destruct (swap_in_z f s2 root2 (plug vl c2) k h r c vk _ Hz2' NDs HV2 eq_refl HVt HVc)
    as (s3 & root3 & E3 & Hz3 & F3).
  rewrite E3. simp'.
  assert (Hp : (if ptr_eqb (cpar cv) (Some (f k)) then Some (f vk) else cpar cv)
               = cpar (c2 ++ FL vk h r :: c)).
  { destruct c2 as [|fr2 c2'].
    - cbn [app AvlPtrRep.cpar fkey cv c0]. rewrite ptr_eqb_refl. reflexivity.
    - unfold cv. cbn [app AvlPtrRep.cpar]. rewrite ptr_eqb_neq; [reflexivity|].
      intros Heq. pose proof (nodup_app_r _ _ NDvl) as NDc. unfold cv in NDc.
      rewrite cidl_app in NDc. eapply (nodup_app_disj _ _ NDc (f (fkey fr2))).
      + apply cpar_in. reflexivity.
      + unfold c0. cbn [AvlPtrRep.cidl]. left. symmetry. exact Heq. }
  exists s3, root3. split; [apply f_equal; apply f_equal; exact Hp|].
  assert (HTi : forall i, In i (idl f (plug (N (N ll lk lh lr) k h r) c))
                          <-> In i (idl f vl) \/ i = f vk \/ In i (cidl cv)).
  { intros i. rewrite <- HT. rewrite in_idl_plug. cbn [inorder]. rewrite map_app, in_app_iff. cbn [map In].
    intuition. }
  split; [|split; [|split]].
  - apply (proj2 (zrep_app f _ c2 vl (FL vk h r :: c))).
    apply (proj2 (zrep_fill f _ (FL vk h r) _ c)). exact Hz3.
  - rewrite cidl_app. cbn [AvlPtrRep.cidl]. apply nodup_swap_del_l with (y := f k).
    unfold cv, c0 in NDv. rewrite cidl_app in NDv. cbn [AvlPtrRep.cidl] in NDv. exact NDv.
  - intros i Hi. rewrite HTi in Hi.
    assert (Hi' : ~ (In i (idl f (N (plug vl c2) k h r)) \/ In i (cidl c))) by (rewrite Hmem; tauto).
    rewrite F3; [apply F2; tauto| | |]; [intros ->|..]; tauto.
  - intros i Hi. apply HTi. rewrite in_app_iff, cidl_app in Hi. cbn [AvlPtrRep.cidl] in Hi.
    unfold cv, c0. rewrite cidl_app. cbn [AvlPtrRep.cidl].
    rewrite !in_app_iff in *. cbn [In] in *. rewrite !in_app_iff in *. intuition.
Qed.

(* victim = minimum of the right subtree *)
Lemma delete_nonleaf_right_z s root l k h rl rk rh rr c fuel vr vk c2 :
  (ht (N rl rk rh rr) <? ht l) = false ->
  split_min rl rk rh rr [] = (vr, vk, c2) ->
  zrep (mkState s root) (N l k h (N rl rk rh rr)) c ->
  NoDup (idl f (plug (N l k h (N rl rk rh rr)) c)) ->
  (depth (plug (N l k h (N rl rk rh rr)) c) <= S fuel)%nat ->
  exists s' root',
    delete_nonleaf fuel (mkState s root) (Some (f k))
      = Ok (mkState s' root', cpar (c2 ++ FR l vk h :: c))
    /\ zrep (mkState s' root') vr (c2 ++ FR l vk h :: c)
    /\ NoDup (idl f vr ++ cidl (c2 ++ FR l vk h :: c))
    /\ (forall i, ~ In i (idl f (plug (N l k h (N rl rk rh rr)) c)) -> PM.find i s' = PM.find i s)
    /\ (forall i, In i (idl f vr ++ cidl (c2 ++ FR l vk h :: c)) ->
                  In i (idl f (plug (N l k h (N rl rk rh rr)) c))).
Proof.
  intros Hb Hsp Hz ND Hfuel.
  destruct (split_min_leftmost rl rk rh rr [] vr vk c2 Hsp) as (vh & Hplug & Hlm).
  cbn [plug app] in Hplug, Hlm.
  set (c0 := FR l k h :: c) in *.
  assert (Hz0 : zrep (mkState s root) (N rl rk rh rr) c0).
  { apply (proj2 (zrep_fill f _ (FR l k h) _ c)). exact Hz. }
  pose proof (depth_plug c (N l k h (N rl rk rh rr))) as Hd. cbn [depth] in Hd.
  destruct (walk_left_z f (mkState s root) (N rl rk rh rr) c0 fuel ltac:(discriminate) Hz0) as (Hw & Hv).
  { cbn [depth]. lia. }
  rewrite (Hlm c0) in Hw, Hv. cbn [locptr AvlPtrRep.tptr] in Hw. destruct Hv as (_ & Hzv & HT).
  set (cv := c2 ++ c0) in *.
  change (plug (N rl rk rh rr) c0) with (plug (N l k h (N rl rk rh rr)) c) in HT.
  assert (NDv : NoDup (idl f (N E vk vh vr) ++ cidl cv)).
  { apply (proj1 (nodup_plug f _ _)). rewrite HT. exact ND. }
  destruct (unlink_min_z f s root fuel _ vr vk vh cv Hw Hzv NDv) as (s2 & root2 & E2 & Hz2 & HV2 & F2).
  unfold delete_nonleaf.
  pose proof Hz as (Hr & _ & _). cbn [st_store AvlPtrRep.rep AvlPtrRep.tptr] in Hr.
  destruct Hr as (Hk & Hl & Hrr).
  rewrite (get_left_ok _ _ _ _ Hk). simp'.
  rewrite (height_rep f _ _ _ _ Hl). simp'.
  rewrite (get_right_ok _ _ _ _ Hk). simp'.
  pose proof (height_rep f s root (N rl rk rh rr) _ Hrr) as HR. cbn [AvlPtrRep.tptr] in HR. rewrite HR. simp'.
  rewrite Hb. rewrite E2. simp'.
  rewrite (get_parent_ok _ _ _ _ HV2). simp'.
  assert (Hz2' : zrep (mkState s2 root2) (N l k h (plug vr c2)) c).
  { apply (proj1 (zrep_fill f _ (FR l k h) _ c)). apply (proj1 (zrep_app f _ c2 vr c0)). exact Hz2. }
  assert (Hpl : plug (N l k h (plug vr c2)) c = plug vr cv).
  { unfold cv, c0. rewrite plug_app. reflexivity. }
  cbn [inorder app map] in NDv.
  assert (NDvr : NoDup (idl f vr ++ cidl cv)).
  { apply NoDup_cons_iff in NDv. tauto. }
  assert (HVn : ~ In (f vk) (idl f vr ++ cidl cv)).
  { apply NoDup_cons_iff in NDv. tauto. }
  assert (NDs : NoDup (idl f (N l k h (plug vr c2)) ++ cidl c)).
  { apply (proj1 (nodup_plug f _ _)). rewrite Hpl. apply (proj2 (nodup_plug f _ _)). exact NDvr. }
  assert (Hmem : forall i, In i (idl f (N l k h (plug vr c2))) \/ In i (cidl c)
                           <-> In i (idl f vr) \/ In i (cidl cv)).
  { intros i. rewrite <- !in_idl_plug. rewrite Hpl. tauto. }
  assert (HVt : ~ In (f vk) (idl f (N l k h (plug vr c2)))).
  { intros Hi. apply HVn. apply in_or_app. apply Hmem. left. exact Hi. }
  assert (HVc : ~ In (f vk) (cidl c)).
  { intros Hi. apply HVn. apply in_or_app. apply Hmem. right. exact Hi. }
  destruct (swap_in_z f s2 root2 l k h (plug vr c2) c vk _ Hz2' NDs HV2 eq_refl HVt HVc)
    as (s3 & root3 & E3 & Hz3 & F3).
  rewrite E3. simp'.
  assert (Hp : (if ptr_eqb (cpar cv) (Some (f k)) then Some (f vk) else cpar cv)
               = cpar (c2 ++ FR l vk h :: c)).
  { destruct c2 as [|fr2 c2'].
    - cbn [app AvlPtrRep.cpar fkey cv c0]. rewrite ptr_eqb_refl. reflexivity.
    - unfold cv. cbn [app AvlPtrRep.cpar]. rewrite ptr_eqb_neq; [reflexivity|].
      intros Heq. pose proof (nodup_app_r _ _ NDvr) as NDc. unfold cv in NDc.
      rewrite cidl_app in NDc. eapply (nodup_app_disj _ _ NDc (f (fkey fr2))).
      + apply cpar_in. reflexivity.
      + unfold c0. cbn [AvlPtrRep.cidl]. left. symmetry. exact Heq. }
  exists s3, root3. split; [apply f_equal; apply f_equal; exact Hp|].
  assert (HTi : forall i, In i (idl f (plug (N l k h (N rl rk rh rr)) c))
                          <-> In i (idl f vr) \/ i = f vk \/ In i (cidl cv)).
  { intros i. rewrite <- HT. rewrite in_idl_plug. cbn [inorder app map In]. intuition. }
  split; [|split; [|split]].
  - apply (proj2 (zrep_app f _ c2 vr (FR l vk h :: c))).
    apply (proj2 (zrep_fill f _ (FR l vk h) _ c)). exact Hz3.
  - rewrite cidl_app. cbn [AvlPtrRep.cidl]. apply nodup_swap_del_r with (y := f k).
    unfold cv, c0 in NDv. rewrite cidl_app in NDv. cbn [AvlPtrRep.cidl] in NDv. exact NDv.
  - intros i Hi. rewrite HTi in Hi.
    assert (Hi' : ~ (In i (idl f (N l k h (plug vr c2))) \/ In i (cidl c))) by (rewrite Hmem; tauto).
    rewrite F3; [apply F2; tauto| | |]; [intros ->|..]; tauto.
  - intros i Hi. apply HTi. rewrite in_app_iff, cidl_app in Hi. cbn [AvlPtrRep.cidl] in Hi.
    unfold cv, c0. rewrite cidl_app. cbn [AvlPtrRep.cidl].
    rewrite !in_app_iff in *. cbn [In] in *. rewrite !in_app_iff in *. intuition.
Qed.

Lemma delete_z s root l k h r c fuel :
  zrep (mkState s root) (N l k h r) c ->
  hpos (plug (N l k h r) c) ->
  NoDup (idl f (plug (N l k h r) c)) ->
  (depth (plug (N l k h r) c) <= fuel)%nat ->
  exists st', iv_avl_tree_delete fuel (mkState s root) (Some (f k)) = Ok st'
    /\ zrep st' (delete_at (N l k h r) c) []
    /\ NoDup (idl f (delete_at (N l k h r) c))
    /\ frame_all f (plug (N l k h r) c) s st'.
Proof.
  intros Hz Hp ND Hfuel.
  pose proof Hz as (Hr & Hc & Hroot). cbn [st_store st_root AvlPtrRep.rep AvlPtrRep.tptr] in Hr, Hc, Hroot.
  destruct Hr as (Hk & Hl & Hrr).
  apply hpos_plug in Hp. destruct Hp as (Hpt & Hpc). cbn [hpos] in Hpt. destruct Hpt as (Hh & Hpl & Hpr).
  pose proof (depth_plug c (N l k h r)) as Hd. cbn [depth] in Hd.
  pose proof (proj1 (nodup_plug f _ _) ND) as NDl.
  unfold iv_avl_tree_delete. rewrite (get_left_ok _ _ _ _ Hk). simp'.
  assert (Hcase : (l = E /\ r = E)
                  \/ ((ht r <? ht l) = true /\ exists ll lk lh lr, l = N ll lk lh lr)
                  \/ ((ht r <? ht l) = false /\ exists rl rk rh rr, r = N rl rk rh rr)).
  { destruct l as [|ll lk lh lr], r as [|rl rk rh rr]; cbn [ht hpos] in *.
    - left. auto.
    - right. right. split; [apply Z.ltb_ge; lia | repeat eexists].
    - right. left. split; [apply Z.ltb_lt; lia | repeat eexists].
    - destruct (rh <? lh) eqn:Hb; [right; left | right; right]; (split; [reflexivity | repeat eexists]). }
  destruct Hcase as [[-> ->] | [[Hb (ll & lk & lh & lr & ->)] | [Hb (rl & rk & rh & rr & ->)]]].
  - (* leaf *)
    cbn [AvlPtrRep.tptr] in *. rewrite (get_right_ok _ _ _ _ Hk). simp'.
    unfold delete_leaf.
    pose proof (replace_reference_z f s root (N E k h E) c None ltac:(discriminate) Hz NDl) as RR.
    cbn [AvlPtrRep.tptr] in RR. rewrite RR. clear RR.
    destruct (store_cref_ctx f s root c (Some (f k)) None Hc Hroot (nodup_app_r _ _ NDl))
      as (s1 & root1 & E1 & Hc1 & Hroot1 & F1).
    rewrite E1. simp'.
    assert (Hkc : ~ In (f k) (cidl c)).
    { apply (nodup_app_disj _ _ NDl). cbn [inorder app map]. left. reflexivity. }
    assert (Hk1 : PM.find (f k) s1 = PM.find (f k) s).
    { apply F1. intros Heq. symmetry in Heq. apply cpar_in in Heq. contradiction. }
    rewrite Hk in Hk1. rewrite (get_parent_ok _ _ _ _ Hk1). simp'.
    destruct (rebalance_from_z f c E s1 root1 fuel) as (st3 & E3 & Hz3 & F3).
    + apply hpos_plug. split; [exact I | exact Hpc].
    + unfold AvlPtrRep.zrep. cbn [st_store st_root AvlPtrRep.rep AvlPtrRep.tptr]. auto.
    + apply (proj2 (nodup_plug f _ _)). cbn [inorder map app]. exact (nodup_app_r _ _ NDl).
    + lia.
    + exists st3. split; [exact E3|]. split; [exact Hz3|].
      split.
      { change (delete_at (N E k h E) c) with (rebalance_from c E).
        rewrite rebalance_from_inorder_gen. apply (proj2 (nodup_plug f _ _)).
        cbn [inorder map app]. exact (nodup_app_r _ _ NDl). }
      intros i Hi. rewrite F3.
      * apply F1. intros Heq. symmetry in Heq. apply cpar_in in Heq.
        apply Hi. apply in_idl_plug. right. exact Heq.
      * intros Hi2. apply Hi. apply in_idl_plug. apply in_idl_plug in Hi2.
        destruct Hi2 as [[]|Hi2]. right. exact Hi2.
  - (* victim from the left subtree *)
    cbn [AvlPtrRep.tptr].
    destruct (split_max ll lk lh lr []) as [[vl vk] c2] eqn:Hsp.
    destruct (delete_nonleaf_left_z s root ll lk lh lr k h r c fuel vl vk c2 Hb Hsp Hz ND ltac:(lia))
      as (s' & root' & Edn & Hz' & ND' & F & Sub).
    rewrite Edn. simp'.
    destruct (split_max_rightmost lr ll lk lh [] vl vk c2 Hsp) as (vh & Hplug & _). cbn [plug] in Hplug.
    assert (Hdel : delete_at (N (N ll lk lh lr) k h r) c = rebalance_from (c2 ++ FL vk h r :: c) vl).
    { cbn [delete_at]. rewrite Hb. destruct r; rewrite Hsp; reflexivity. }
    rewrite Hdel.
    destruct (rebalance_from_z f (c2 ++ FL vk h r :: c) vl s' root' fuel) as (st3 & E3 & Hz3 & F3).
    + rewrite plug_app. cbn [plug fill]. apply hpos_plug. split; [|exact Hpc].
      cbn [hpos]. split; [exact Hh|]. split; [|exact Hpr].
      rewrite <- Hplug in Hpl. apply hpos_plug in Hpl. cbn [hpos] in Hpl.
      apply hpos_plug. tauto.
    + exact Hz'.
    + apply (proj2 (nodup_plug f _ _)). exact ND'.
    + pose proof (depth_plug (c2 ++ FL k h r :: c) (N vl vk vh E)) as Hd2.
      rewrite plug_app in Hd2. cbn [plug fill] in Hd2. rewrite Hplug in Hd2.
      rewrite app_length in *. cbn [length depth] in *. lia.
    + exists st3. split; [exact E3|]. split; [exact Hz3|].
      split; [rewrite rebalance_from_inorder_gen; apply (proj2 (nodup_plug f _ _)); exact ND'|].
      intros i Hi. rewrite F3; [apply F; exact Hi|].
      intros Hi2. apply Hi. apply Sub. apply in_or_app. apply in_idl_plug. exact Hi2.
  - (* victim from the right subtree *)
    assert (Hdisp : (match tptr l with
                     | None => r0 <- get_right (mkState s root) (Some (f k)) ;;
                               match r0 with
                               | None => delete_leaf (mkState s root) (Some (f k))
                               | Some _ => delete_nonleaf fuel (mkState s root) (Some (f k))
                               end
                     | Some _ => delete_nonleaf fuel (mkState s root) (Some (f k))
                     end) = delete_nonleaf fuel (mkState s root) (Some (f k))).
    { destruct (tptr l); [reflexivity|]. rewrite (get_right_ok _ _ _ _ Hk). reflexivity. }
    rewrite Hdisp. clear Hdisp.
    destruct (split_min rl rk rh rr []) as [[vr vk] c2] eqn:Hsp.
    destruct (delete_nonleaf_right_z s root l k h rl rk rh rr c fuel vr vk c2 Hb Hsp Hz ND ltac:(lia))
      as (s' & root' & Edn & Hz' & ND' & F & Sub).
    rewrite Edn. simp'.
    destruct (split_min_leftmost rl rk rh rr [] vr vk c2 Hsp) as (vh & Hplug & _). cbn [plug] in Hplug.
    assert (Hdel : delete_at (N l k h (N rl rk rh rr)) c = rebalance_from (c2 ++ FR l vk h :: c) vr).
    { cbn [delete_at]. rewrite Hb. destruct l; rewrite Hsp; reflexivity. }
    rewrite Hdel.
    destruct (rebalance_from_z f (c2 ++ FR l vk h :: c) vr s' root' fuel) as (st3 & E3 & Hz3 & F3).
    + rewrite plug_app. cbn [plug fill]. apply hpos_plug. split; [|exact Hpc].
      cbn [hpos]. split; [exact Hh|]. split; [exact Hpl|].
      rewrite <- Hplug in Hpr. apply hpos_plug in Hpr. cbn [hpos] in Hpr.
      apply hpos_plug. tauto.
    + exact Hz'.
    + apply (proj2 (nodup_plug f _ _)). exact ND'.
    + pose proof (depth_plug (c2 ++ FR l k h :: c) (N E vk vh vr)) as Hd2.
      rewrite plug_app in Hd2. cbn [plug fill] in Hd2. rewrite Hplug in Hd2.
      rewrite app_length in *. cbn [length depth] in *. lia.
    + exists st3. split; [exact E3|]. split; [exact Hz3|].
      split; [rewrite rebalance_from_inorder_gen; apply (proj2 (nodup_plug f _ _)); exact ND'|].
      intros i Hi. rewrite F3; [apply F; exact Hi|].
      intros Hi2. apply Hi. apply Sub. apply in_or_app. apply in_idl_plug. exact Hi2.
Qed.

End Del2.
