(* AvlPtrC16.v -- the pointer-level refinement theorems combined with the
   C16 invariant theorems of AvlProofs.v (the statements used by
   Props/Properties_C16.v), and an executable checker of RepF used by the
   non-vacuity example. *)

From Coq Require Import List ZArith Bool Lia FMapPositive Permutation.
From Ivv Require Import Avl.AvlModel Avl.AvlBasics Avl.AvlRebalance Avl.AvlProofs Avl.AvlPtrModel
  Avl.AvlPtrRep Avl.AvlPtrInsert Avl.AvlPtrTrav Avl.AvlPtrTop.
Import ListNotations.
Local Open Scope Z_scope.

Definition Inv (t : tree) : Prop := avl t /\ sorted (inorder t).

(* nodes other than the listed ones keep all their fields *)
Definition frame_except (ids : list positive) (s s' : store) : Prop :=
  forall i, ~ In i ids -> PM.find i s' = PM.find i s.

Theorem ptr_insert_C16 :
  forall f s root t a n fuel,
    RepF f s root t -> Inv t -> PM.find a s = Some n -> (depth t < fuel)%nat ->
    (~ In (n_key n) (inorder t) ->
       exists t' s' root' f',
         AvlModel.insert (n_key n) t = Some t'
         /\ iv_avl_tree_insert fuel (mkState s root) (Some a) = Ok (mkState s' root', 0)
         /\ RepF f' s' root' t'
         /\ Inv t' /\ inorder t' = ins_sorted (n_key n) (inorder t)
         /\ f' (n_key n) = a /\ (forall k, In k (inorder t) -> f' k = f k)
         /\ frame_except (a :: idl f t) s s')
    /\ (In (n_key n) (inorder t) ->
          AvlModel.insert (n_key n) t = None
          /\ iv_avl_tree_insert fuel (mkState s root) (Some a) = Ok (mkState s root, -1)).
Proof.
  intros f s root t a n fuel HR HI Ha Hfuel. split.
  - intros Hfresh.
    destruct (ptr_insert_fresh f s root t a n fuel HR (avl_hpos _ (proj1 HI)) Ha Hfresh Hfuel)
      as (t' & s' & root' & f' & E1 & E2 & HR' & Hfa & Hag & Fr).
    destruct (avl_insert_fresh t (n_key n) HI Hfresh) as (t'' & E3 & HI' & Hin).
    rewrite E1 in E3. injection E3 as <-.
    exists t', s', root', f'. repeat (split; [assumption|]).
    intros i Hi. apply Fr; intros Hx; apply Hi; [left; auto | right; exact Hx].
  - intros Hdup. destruct (avl_insert_duplicate t (n_key n) HI Hdup) as (E1 & _).
    split; [exact E1|]. apply (ptr_insert_dup f s root t a n fuel HR Ha ltac:(lia) E1).
Qed.

(* double registration: iv_avl_tree_insert is handed the node object that is
   already linked in the tree (a = f k).  It returns -1 and performs no store at
   all: the state, including the fields of that very node, is unchanged. *)
Theorem ptr_reinsert_linked_C16 :
  forall f s root t k fuel,
    RepF f s root t -> Inv t -> In k (inorder t) -> (depth t <= fuel)%nat ->
    exists n, PM.find (f k) s = Some n /\ n_key n = k
      /\ AvlModel.insert k t = None
      /\ iv_avl_tree_insert fuel (mkState s root) (Some (f k)) = Ok (mkState s root, -1).
Proof.
  intros f s root t k fuel HR HI Hin Hfuel. pose proof HR as (_ & _ & Hrep).
  destruct (rep_find f s t None k Hrep Hin) as (n & Hn & Hkey).
  destruct (avl_insert_duplicate t k HI Hin) as (E1 & _).
  exists n. split; [exact Hn|]. split; [exact Hkey|]. split; [exact E1|].
  apply (ptr_insert_dup f s root t (f k) n fuel HR Hn Hfuel). rewrite Hkey. exact E1.
Qed.

Theorem ptr_delete_C16 :
  forall f s root t k fuel,
    RepF f s root t -> Inv t -> In k (inorder t) -> (depth t <= fuel)%nat ->
    exists t' s' root',
      AvlModel.delete k t = Some t'
      /\ iv_avl_tree_delete fuel (mkState s root) (Some (f k)) = Ok (mkState s' root')
      /\ RepF f s' root' t'
      /\ Inv t' /\ inorder t' = remove Z.eq_dec k (inorder t)
      /\ ~ In (f k) (idl f t')
      /\ frame_except (idl f t) s s'.
Proof.
  intros f s root t k fuel HR HI Hin Hfuel.
  destruct (avl_delete_present t k HI Hin) as (t' & E1 & HI' & Hino).
  unfold AvlModel.delete in E1. destruct (AvlModel.find k t []) as [[tn c]|] eqn:Hf; [|discriminate].
  injection E1 as <-.
  destruct (ptr_delete f s root t k tn c fuel HR (avl_hpos _ (proj1 HI)) Hf Hfuel) as (s' & root' & E2 & HR' & Fr).
  exists (delete_at tn c), s', root'.
  split; [unfold AvlModel.delete; rewrite Hf; reflexivity|].
  split; [exact E2|]. split; [exact HR'|]. split; [exact HI'|]. split; [exact Hino|].
  split; [|exact Fr].
  (* the deleted object is not a node of the new tree *)
  rewrite Hino. intros Hi. apply in_map_iff in Hi. destruct Hi as (k' & Hk' & Hin').
  apply in_remove in Hin'. destruct Hin' as (Hin' & Hne).
  destruct HR as (ND & _ & _).
  apply Hne. clear - ND Hk' Hin Hin'.
  induction (inorder t) as [|x l IH]; [contradiction|].
  cbn [map] in ND. apply NoDup_cons_iff in ND. destruct ND as (Hx & ND).
  destruct Hin as [->|Hin], Hin' as [->|Hin'].
  - reflexivity.
  - exfalso. apply Hx. rewrite <- Hk'. apply in_map. exact Hin'.
  - exfalso. apply Hx. rewrite Hk'. apply in_map. exact Hin.
  - apply IH; assumption.
Qed.

Theorem ptr_parent_C16 :
  forall f s root t, RepF f s root t -> parent_ok s root (idl f t).
Proof. exact ptr_parent_pointers. Qed.

Theorem ptr_traversal_C16 :
  forall f s root t fuel,
    RepF f s root t -> (depth t <= fuel)%nat ->
    forward_ptr (size t) fuel (mkState s root) = Ok (idl f t)
    /\ backward_ptr (size t) fuel (mkState s root) = Ok (map f (rev (inorder t)))
    /\ keys_of s (idl f t) = inorder t
    /\ iv_avl_tree_min fuel (mkState s root) = Ok (hd_ptr f (inorder t))
    /\ iv_avl_tree_max fuel (mkState s root) = Ok (hd_ptr f (rev (inorder t)))
    /\ (forall a k b, inorder t = a ++ k :: b ->
          iv_avl_tree_next fuel (mkState s root) (Some (f k)) = Ok (hd_ptr f b)
          /\ iv_avl_tree_prev fuel (mkState s root) (Some (f k)) = Ok (hd_ptr f (rev a))).
Proof.
  intros f s root t fuel HR Hfuel.
  destruct (ptr_forward f s root t fuel HR Hfuel) as (A & B & C).
  destruct (ptr_min_max f s root t fuel HR ltac:(lia)) as (D & D').
  repeat (split; [assumption|]).
  intros a k b Hin. apply (ptr_next_prev f s root t fuel a k b HR Hfuel Hin).
Qed.

(* the fuel needed is the height: logarithmic by avl_height_fib *)
Theorem ptr_fuel_is_height : forall t, avl t -> Z.of_nat (depth t) = ht t.
Proof. exact avl_depth. Qed.

(* ---- executable check of RepF (for examples) ---- *)
Definition optpos_eqb (a b : ptr) : bool := ptr_eqb a b.

Definition node_eqb (a b : node) : bool :=
  optpos_eqb (n_left a) (n_left b) && optpos_eqb (n_right a) (n_right b)
  && optpos_eqb (n_parent a) (n_parent b) && (n_height a =? n_height b) && (n_key a =? n_key b).

Lemma ptr_eqb_eq a b : ptr_eqb a b = true -> a = b.
Proof.
  destruct a, b; cbn [ptr_eqb]; try discriminate; [|reflexivity].
  intros H. apply Pos.eqb_eq in H. congruence.
Qed.

Lemma node_eqb_eq a b : node_eqb a b = true -> a = b.
Proof.
  unfold node_eqb, optpos_eqb. rewrite !andb_true_iff. intros ((((A & B) & C) & D) & F).
  apply ptr_eqb_eq in A, B, C. apply Z.eqb_eq in D, F. destruct a, b. cbn in *. congruence.
Qed.

Fixpoint rep_b (f : Z -> positive) (s : store) (t : tree) (par : ptr) : bool :=
  match t with
  | E => true
  | N l k h r =>
      match PM.find (f k) s with
      | Some n => node_eqb n (mkNode (tptr f l) (tptr f r) par h k)
      | None => false
      end
      && rep_b f s l (Some (f k)) && rep_b f s r (Some (f k))
  end.

Lemma rep_b_spec f s : forall t par, rep_b f s t par = true -> rep f s t par.
Proof.
  induction t as [|l IHl k h r IHr]; intros par; cbn [rep_b rep]; [auto|].
  rewrite !andb_true_iff. intros ((A & B) & C).
  destruct (PM.find (f k) s) as [n|]; [|discriminate]. apply node_eqb_eq in A. subst n. auto.
Qed.

Fixpoint nodup_b (l : list positive) : bool :=
  match l with
  | [] => true
  | x :: r => negb (existsb (Pos.eqb x) r) && nodup_b r
  end.

Lemma nodup_b_spec l : nodup_b l = true -> NoDup l.
Proof.
  induction l as [|x r IH]; cbn [nodup_b]; [constructor|].
  rewrite andb_true_iff, negb_true_iff. intros (A & B). constructor; [|auto].
  intros Hin. assert (existsb (Pos.eqb x) r = true); [|congruence].
  apply existsb_exists. exists x. split; [exact Hin | apply Pos.eqb_refl].
Qed.

Definition repf_b (f : Z -> positive) (s : store) (root : ptr) (t : tree) : bool :=
  nodup_b (idl f t) && ptr_eqb root (tptr f t) && rep_b f s t None.

Lemma repf_b_spec f s root t : repf_b f s root t = true -> RepF f s root t.
Proof.
  unfold repf_b. rewrite !andb_true_iff. intros ((A & B) & C).
  split; [apply nodup_b_spec; exact A|]. split; [apply ptr_eqb_eq; exact B | apply rep_b_spec; exact C].
Qed.

(* the id of the (live) object carrying key k *)
Definition fof (s : store) (k : Z) : positive :=
  match List.find (fun p => n_key (snd p) =? k) (PM.elements s) with
  | Some p => fst p
  | None => 1%positive
  end.

Definition to_pop (o : op) : pop := match o with Ins k => PIns k | Del k => PDel k end.

(* the functional counterpart of a driver operation: inserting the already
   linked node is, for the functional model, a duplicate insert *)
Definition pop_op (p : pop) : op :=
  match p with PIns k => Ins k | PDel k => Del k | PReins k => Ins k end.

Fixpoint ids_eqb (a b : list positive) : bool :=
  match a, b with
  | [], [] => true
  | x :: a', y :: b' => Pos.eqb x y && ids_eqb a' b'
  | _, _ => false
  end.

(* run a history on both levels and check RepF, the return code and the
   forward traversal after every operation *)
Fixpoint check_hist (fuel : nat) (ops : list pop) (m : machine) (t : tree) : bool :=
  match ops with
  | [] => true
  | o :: ops' =>
      match pstep fuel (Some 1%positive) 170 m o with
      | Ok (m', rc) =>
          let '(t', rc') := step t (pop_op o) in
          let s := st_store (m_state m') in
          let f := fof s in
          (rc =? rc') && repf_b f s (st_root (m_state m')) t'
          && match forward_ptr (size t') fuel (m_state m') with
             | Ok ids => ids_eqb ids (idl f t')
             | _ => false
             end
          && check_hist fuel ops' m' t'
      | _ => false
      end
  end.

Definition hist_ok (fuel : nat) (pops : list pop) : bool :=
  match prun fuel (Some 1%positive) 170 pops empty_machine with
  | Ok m => repf_b (fof (st_store (m_state m))) (st_store (m_state m)) (st_root (m_state m))
              (run (map pop_op pops) E)
  | _ => false
  end.

Lemma hist_ok_spec fuel pops :
  hist_ok fuel pops = true ->
  exists m, prun fuel (Some 1%positive) 170 pops empty_machine = Ok m
    /\ RepF (fof (st_store (m_state m))) (st_store (m_state m)) (st_root (m_state m))
         (run (map pop_op pops) E).
Proof.
  unfold hist_ok. destruct (prun fuel (Some 1%positive) 170 pops empty_machine) as [m| | |];
    try discriminate.
  intros H. exists m. split; [reflexivity | apply repf_b_spec; exact H].
Qed.
