(* AvlLink.v -- height(), recalc_height(), balance() and the tests of rebalance_node() of Avl/AvlModel.v ARE the code of
   src/iv_avl.c.  gen/c2gallina.py (TYPED, class CTr) re-translates on every run, from the clang AST of the current
   source, with the C integer semantics explicit (Base/CSem.v; None = null dereference / signed overflow):
     avl_height  an_addr an_height                 `return an != NULL ? an->height : 0;`      (uint8_t promoted to int)
     avl_recalc_height  (left: addr height) (right: addr height)
                                                   `hl = height(an->left); hr = height(an->right);
                                                    an->height = 1 + ((hl > hr) ? hl : hr);`  -> Some (new an->height), converted to uint8_t
     avl_balance  (right: addr height) (left: addr height)      `return height(an->right) - height(an->left);`
     avl_rebalance_bal                             `bal = balance(root);`
     avl_rebalance_left_heavy bal                  `if (bal == -2)`
     avl_rebalance_left_single (root->left's right / left)      `if (balance(root->left) <= 0)`
     avl_rebalance_right_heavy bal                 `else if (bal == 2)`
     avl_rebalance_right_double (root->right's right / left)    `if (balance(root->right) < 0)`
   into Gen/LeafAvl.v.  A node pointer is its address (0 = NULL); `adr` below is ANY assignment of addresses to subtrees
   that gives 0 exactly to the empty tree.  The stored height is a uint8_t in C and a Z in the model: the lemmas hold for
   stored heights in [0, 255]; recalc_height is shown for ALL such heights to be the model's value reduced modulo 256
   (equal to it below 255 -- a tree of height 255 needs more than 2^176 nodes, C16_height_log). *)
From Coq Require Import List ZArith Bool Lia.
From Ivv Require Import Base.CSem Gen.LeafAvl Avl.AvlModel.
Import ListNotations.
Local Open Scope Z_scope.

Ltac Zify.zify_post_hook ::= Z.div_mod_to_equations.

Definition u8 (x : Z) : Prop := 0 <= x <= 255.

(* addresses: 0 exactly for the empty tree *)
Definition addressing (adr : tree -> Z) : Prop := forall t, adr t = 0 <-> t = E.

Lemma leaf_height_null : forall h, avl_height 0 h = Some 0.
Proof. reflexivity. Qed.

Lemma leaf_height_node : forall a h, a <> 0 -> avl_height a h = Some h.
Proof.
  intros a h H. unfold avl_height, c_deref. apply Z.eqb_neq in H. rewrite H. reflexivity.
Qed.

(* height() is the model's ht *)
Lemma leaf_height : forall adr, addressing adr -> forall t, avl_height (adr t) (ht t) = Some (ht t).
Proof.
  intros adr A t. destruct t as [|l k h r].
  - replace (adr E) with 0 by (symmetry; apply A; reflexivity). reflexivity.
  - apply leaf_height_node. intros X. apply A in X. discriminate.
Qed.

Lemma in_s32 : forall x, - 2 ^ 31 <= x < 2 ^ 31 -> c_chk_s 32 x = Some x.
Proof.
  intros x H. unfold c_chk_s, c_in_s. change (2 ^ (32 - 1)) with (2 ^ 31).
  replace (- 2 ^ 31 <=? x) with true by (symmetry; apply Z.leb_le; lia).
  replace (x <? 2 ^ 31) with true by (symmetry; apply Z.ltb_lt; lia). reflexivity.
Qed.

(* recalc_height(): for all uint8_t heights of the children the stored result is the model's, reduced to a uint8_t *)
Lemma leaf_recalc_height_all : forall adr, addressing adr -> forall l k r, u8 (ht l) -> u8 (ht r) ->
  avl_recalc_height (adr l) (ht l) (adr r) (ht r) = Some (ht (mk l k r) mod 256).
Proof.
  intros adr A l k r Hl Hr. unfold avl_recalc_height, u8 in *.
  rewrite (leaf_height adr A l), (leaf_height adr A r). cbn [ub_bind].
  rewrite Z.gtb_ltb. cbn [mk ht].
  rewrite in_s32 by (destruct (ht r <? ht l); lia). reflexivity.
Qed.

Lemma leaf_recalc_height : forall adr, addressing adr -> forall l k r, 0 <= ht l < 255 -> 0 <= ht r < 255 ->
  avl_recalc_height (adr l) (ht l) (adr r) (ht r) = Some (ht (mk l k r)).
Proof.
  intros adr A l k r Hl Hr. rewrite (leaf_recalc_height_all adr A l k r) by (unfold u8; lia).
  f_equal. apply Z.mod_small. cbn [mk ht]. destruct (ht r <? ht l); lia.
Qed.

(* balance() of a node is the model's balance *)
Lemma leaf_balance : forall adr, addressing adr -> forall l k h r, u8 (ht l) -> u8 (ht r) ->
  avl_balance (adr r) (ht r) (adr l) (ht l) = Some (balance (N l k h r)).
Proof.
  intros adr A l k h r Hl Hr. unfold avl_balance, u8 in *.
  rewrite (leaf_height adr A r), (leaf_height adr A l). cbn [ub_bind balance].
  apply in_s32. lia.
Qed.

(* the four tests of rebalance_node with the model's thresholds *)
Lemma leaf_left_heavy : forall bal, avl_rebalance_left_heavy bal = Some (bal =? -2).
Proof. reflexivity. Qed.
Lemma leaf_right_heavy : forall bal, avl_rebalance_right_heavy bal = Some (bal =? 2).
Proof. reflexivity. Qed.
Lemma leaf_left_single : forall adr, addressing adr -> forall l k h r, u8 (ht l) -> u8 (ht r) ->
  avl_rebalance_left_single (adr r) (ht r) (adr l) (ht l) = Some (balance (N l k h r) <=? 0).
Proof.
  intros adr A l k h r Hl Hr. unfold avl_rebalance_left_single. rewrite (leaf_balance adr A l k h r Hl Hr). reflexivity.
Qed.
Lemma leaf_right_double : forall adr, addressing adr -> forall l k h r, u8 (ht l) -> u8 (ht r) ->
  avl_rebalance_right_double (adr r) (ht r) (adr l) (ht l) = Some (balance (N l k h r) <? 0).
Proof.
  intros adr A l k h r Hl Hr. unfold avl_rebalance_right_double. rewrite (leaf_balance adr A l k h r Hl Hr). reflexivity.
Qed.

(* rebalance_node() written with the translated pieces: which rotation is chosen.  None = undefined behaviour in a
   translated piece, or a NULL child where the C code evaluates balance(root->left) / balance(root->right). *)
Definition child_test (adr : tree -> Z) (test : Z -> Z -> Z -> Z -> option bool) (c : tree) : option bool :=
  match c with
  | E => None
  | N cl _ _ cr => test (adr cr) (ht cr) (adr cl) (ht cl)
  end.

Definition rebalance_node_code (adr : tree -> Z) (t : tree) : option tree :=
  match t with
  | E => None
  | N l _ _ r =>
      ub_bind (avl_rebalance_bal (adr r) (ht r) (adr l) (ht l)) (fun bal =>
      ub_bind (avl_rebalance_left_heavy bal) (fun lh =>
      if lh then
        ub_bind (child_test adr avl_rebalance_left_single l) (fun single =>
        Some (if single then rotate_right t else rotate_left_right t))
      else
        ub_bind (avl_rebalance_right_heavy bal) (fun rh =>
        if rh then
          ub_bind (child_test adr avl_rebalance_right_double r) (fun double =>
          Some (if double then rotate_right_left t else rotate_left t))
        else Some t)))
  end.

(* stored heights of the node's children and grandchildren are uint8_t values *)
Definition kids_u8 (t : tree) : Prop :=
  u8 (ht (left_of t)) /\ u8 (ht (right_of t)) /\
  u8 (ht (left_of (left_of t))) /\ u8 (ht (right_of (left_of t))) /\
  u8 (ht (left_of (right_of t))) /\ u8 (ht (right_of (right_of t))).

Lemma rebalance_node_is_the_code : forall adr, addressing adr -> forall l k h r, kids_u8 (N l k h r) ->
  rebalance_node_code adr (N l k h r) = Some (rebalance_node (N l k h r)).
Proof.
  intros adr A l k h r (Hl & Hr & Hll & Hlr & Hrl & Hrr). cbn [left_of right_of] in *.
  unfold rebalance_node_code, avl_rebalance_bal. rewrite (leaf_balance adr A l k h r Hl Hr). cbn [ub_bind].
  rewrite leaf_left_heavy, leaf_right_heavy. cbn [ub_bind].
  unfold rebalance_node. cbn [left_of right_of].
  destruct (Z.eqb_spec (balance (N l k h r)) (-2)) as [B|B].
  - (* left heavy: ht l = ht r + 2 > 0, so l is a node *)
    destruct l as [|ll lk lh lr]; [exfalso; cbn [balance ht] in B; unfold u8 in *; lia|].
    cbn [child_test left_of right_of ht] in *.
    rewrite (leaf_left_single adr A ll lk lh lr Hll Hlr). reflexivity.
  - destruct (Z.eqb_spec (balance (N l k h r)) 2) as [C|C]; [|reflexivity].
    destruct r as [|rl rk rh rr]; [exfalso; cbn [balance ht] in C; unfold u8 in *; lia|].
    cbn [child_test left_of right_of ht] in *.
    rewrite (leaf_right_double adr A rl rk rh rr Hrl Hrr). reflexivity.
Qed.

(* the hypothesis `addressing` is satisfiable *)
Lemma addressing_exists : addressing (fun t => match t with E => 0 | N _ _ _ _ => 1 end).
Proof. intros t. destruct t; split; intros H; try reflexivity; discriminate. Qed.

(* everything together (the statement of Props/Properties_C16.v C16_balance_arith_is_the_code) *)
Lemma avl_link_all : forall adr, addressing adr ->
  (forall t, avl_height (adr t) (ht t) = Some (ht t)) /\
  (forall l k r, 0 <= ht l <= 255 -> 0 <= ht r <= 255 ->
     avl_recalc_height (adr l) (ht l) (adr r) (ht r) = Some (ht (mk l k r) mod 256)) /\
  (forall l k r, 0 <= ht l < 255 -> 0 <= ht r < 255 ->
     avl_recalc_height (adr l) (ht l) (adr r) (ht r) = Some (ht (mk l k r))) /\
  (forall l k h r, 0 <= ht l <= 255 -> 0 <= ht r <= 255 ->
     avl_balance (adr r) (ht r) (adr l) (ht l) = Some (balance (N l k h r))) /\
  (forall bal, avl_rebalance_left_heavy bal = Some (bal =? -2)) /\
  (forall bal, avl_rebalance_right_heavy bal = Some (bal =? 2)) /\
  (forall l k h r, kids_u8 (N l k h r) -> rebalance_node_code adr (N l k h r) = Some (rebalance_node (N l k h r))).
Proof.
  intros adr A.
  exact (conj (leaf_height adr A) (conj (leaf_recalc_height_all adr A) (conj (leaf_recalc_height adr A)
        (conj (leaf_balance adr A) (conj leaf_left_heavy (conj leaf_right_heavy (rebalance_node_is_the_code adr A))))))).
Qed.
