(* HeapSift.v -- the sift loops pull_up / push_down. *)
From Coq Require Import List ZArith Bool Lia.
From Ivv Require Import Timer.HeapModel Timer.HeapSpec Timer.HeapBase.
Import ListNotations.
Local Open Scope Z_scope.

Ltac Zify.zify_post_hook ::= Z.div_mod_to_equations.

(* ---------- structural predicates ---------- *)
Definition Filled (s : tstate) : Prop :=
  forall i, 1 <= i <= num s -> exists t, sget s i = Some t /\ tidx s t = i.
Definition Vacant (s : tstate) : Prop := forall i, num s < i -> sget s i = None.
Definition inslot (s : tstate) (t : id) : Prop :=
  1 <= tidx s t <= num s /\ sget s (tidx s t) = Some t.

Lemma inslot_dec : forall s t, {inslot s t} + {~ inslot s t}.
Proof.
  intros s t. unfold inslot.
  destruct (Z_le_dec 1 (tidx s t)) as [A|A]; [|right; lia].
  destruct (Z_le_dec (tidx s t) (num s)) as [B|B]; [|right; lia].
  destruct (sget s (tidx s t)) as [t'|]; [|right; intros [_ H]; discriminate].
  destruct (Pos.eq_dec t' t) as [->|N]; [left; split; [lia|reflexivity]|].
  right; intros [_ H]; congruence.
Qed.

Lemma filled_tidx : forall s i t, Filled s -> 1 <= i <= num s -> sget s i = Some t -> tidx s t = i.
Proof.
  intros s i t F R E. destruct (F i R) as (t0 & E0 & I0). congruence.
Qed.

Lemma filled_inslot : forall s i t, Filled s -> 1 <= i <= num s -> sget s i = Some t -> inslot s t.
Proof.
  intros s i t F R E. pose proof (filled_tidx s i t F R E) as I.
  unfold inslot. rewrite I. split; [lia|assumption].
Qed.

Lemma inslot_tget : forall s t, inslot s t -> tget s t <> None.
Proof. intros s t [R _]. apply tidx_tget. lia. Qed.

(* ---------- the relation between the states around a sift ---------- *)
Record Sift (s s' : tstate) : Prop := {
  sf_num : num s' = num s;
  sf_depth : depth s' = depth s;
  sf_batch : batch s' = batch s;
  sf_numobjs : numobjs s' = numobjs s;
  sf_now : now s' = now s;
  sf_texp : forall t, texp s' t = texp s t;
  sf_high : forall i, ~ (1 <= i <= num s) -> sget s' i = sget s i;
  sf_filled : Filled s';
  sf_in : forall t, inslot s' t <-> inslot s t;
  sf_out : forall t, ~ inslot s t -> tget s' t = tget s t }.

Lemma Sift_refl : forall s, Filled s -> Sift s s.
Proof. intros s F; constructor; try reflexivity; try assumption. Qed.

Lemma Sift_trans : forall s1 s2 s3, Sift s1 s2 -> Sift s2 s3 -> Sift s1 s3.
Proof.
  intros s1 s2 s3 A B. constructor.
  - rewrite (sf_num _ _ B). apply (sf_num _ _ A).
  - rewrite (sf_depth _ _ B). apply (sf_depth _ _ A).
  - rewrite (sf_batch _ _ B). apply (sf_batch _ _ A).
  - rewrite (sf_numobjs _ _ B). apply (sf_numobjs _ _ A).
  - rewrite (sf_now _ _ B). apply (sf_now _ _ A).
  - intros t. rewrite (sf_texp _ _ B). apply (sf_texp _ _ A).
  - intros i H. rewrite (sf_high _ _ B) by (rewrite (sf_num _ _ A); assumption).
    apply (sf_high _ _ A); assumption.
  - apply (sf_filled _ _ B).
  - intros t. rewrite (sf_in _ _ B). apply (sf_in _ _ A).
  - intros t H. rewrite (sf_out _ _ B).
    + apply (sf_out _ _ A); assumption.
    + intro H2. apply H. apply (sf_in _ _ A). assumption.
Qed.

Lemma Sift_vacant : forall s s', Sift s s' -> Vacant s -> Vacant s'.
Proof.
  intros s s' S V i H. rewrite (sf_num _ _ S) in H.
  rewrite (sf_high _ _ S) by lia. apply V; assumption.
Qed.

(* every timer is either in a slot before and after, or untouched *)
Lemma Sift_cases : forall s s' t, Sift s s' ->
  (inslot s t /\ inslot s' t) \/ (~ inslot s t /\ ~ inslot s' t /\ tget s' t = tget s t).
Proof.
  intros s s' t S. destruct (inslot_dec s t) as [I|I].
  - left; split; [assumption|apply (sf_in _ _ S); assumption].
  - right; split; [assumption|split].
    + intro H; apply I; apply (sf_in _ _ S); assumption.
    + apply (sf_out _ _ S); assumption.
Qed.

(* ---------- one swap ---------- *)
Section Swap.
  Variables (s : tstate) (i j : Z) (ti tj : id).
  Hypothesis F : Filled s.
  Hypothesis Ri : 1 <= i <= num s.
  Hypothesis Rj : 1 <= j <= num s.
  Hypothesis Nij : i <> j.
  Hypothesis Ei : sget s i = Some ti.
  Hypothesis Ej : sget s j = Some tj.

  Let s' := swap_slots s i j ti tj.

  Lemma swap_Ii : tidx s ti = i. Proof. apply filled_tidx; assumption. Qed.
  Lemma swap_Ij : tidx s tj = j. Proof. apply filled_tidx; assumption. Qed.
  Lemma swap_Nt : ti <> tj.
  Proof. intro E. pose proof swap_Ii. pose proof swap_Ij. subst tj. congruence. Qed.

  Lemma swap_sget_i : sget s' i = Some tj.
  Proof.
    unfold s', swap_slots. rewrite !sget_set_idx.
    rewrite sget_sset_other by congruence. apply sget_sset_same; lia.
  Qed.
  Lemma swap_sget_j : sget s' j = Some ti.
  Proof.
    unfold s', swap_slots. rewrite !sget_set_idx. apply sget_sset_same; lia.
  Qed.
  Lemma swap_sget_o : forall k, k <> i -> k <> j -> sget s' k = sget s k.
  Proof.
    intros k A B. unfold s', swap_slots. rewrite !sget_set_idx.
    rewrite !sget_sset_other by congruence. reflexivity.
  Qed.
  Lemma swap_texp : forall t, texp s' t = texp s t.
  Proof.
    intros t. unfold s', swap_slots. rewrite !texp_set_idx, !texp_sset. reflexivity.
  Qed.
  Lemma swap_tget_o : forall t, t <> ti -> t <> tj -> tget s' t = tget s t.
  Proof.
    intros t A B. unfold s', swap_slots.
    rewrite !tget_set_idx_other by assumption. rewrite !tget_sset. reflexivity.
  Qed.
  Lemma swap_tidx_ti : tidx s' ti = j.
  Proof.
    unfold s', swap_slots. apply tidx_set_idx_same.
    rewrite tget_set_idx_other by (apply swap_Nt). rewrite !tget_sset.
    apply tidx_tget. rewrite swap_Ii. lia.
  Qed.
  Lemma swap_tidx_tj : tidx s' tj = i.
  Proof.
    unfold s', swap_slots.
    rewrite tidx_set_idx_other by (intro E; apply swap_Nt; congruence).
    apply tidx_set_idx_same. rewrite !tget_sset.
    apply tidx_tget. rewrite swap_Ij. lia.
  Qed.
  Lemma swap_tidx_o : forall t, t <> ti -> t <> tj -> tidx s' t = tidx s t.
  Proof. intros t A B. unfold tidx. rewrite swap_tget_o by assumption. reflexivity. Qed.
  Lemma swap_num : num s' = num s.
  Proof. unfold s', swap_slots. rewrite !num_set_idx, !num_sset. reflexivity. Qed.

  Lemma swap_sift : Sift s s'.
  Proof.
    pose proof swap_Ii as Ii. pose proof swap_Ij as Ij. pose proof swap_Nt as Nt.
    constructor.
    - apply swap_num.
    - unfold s', swap_slots. rewrite !depth_set_idx, !depth_sset. reflexivity.
    - unfold s', swap_slots. rewrite !batch_set_idx, !batch_sset. reflexivity.
    - unfold s', swap_slots. rewrite !numobjs_set_idx, !numobjs_sset. reflexivity.
    - unfold s', swap_slots. rewrite !now_set_idx, !now_sset. reflexivity.
    - apply swap_texp.
    - intros k H. apply swap_sget_o; lia.
    - intros k R. rewrite swap_num in R.
      destruct (Z.eq_dec k i) as [->|Ki]; [exists tj; split; [apply swap_sget_i|apply swap_tidx_tj]|].
      destruct (Z.eq_dec k j) as [->|Kj]; [exists ti; split; [apply swap_sget_j|apply swap_tidx_ti]|].
      destruct (F k R) as (t & E & I). exists t. rewrite swap_sget_o by assumption.
      split; [assumption|]. rewrite swap_tidx_o; [assumption| |]; intro; subst t; congruence.
    - intros t. unfold inslot. rewrite swap_num.
      destruct (Pos.eq_dec t ti) as [->|Ati].
      { rewrite swap_tidx_ti, Ii. rewrite swap_sget_j, Ei. split; intros _; (split; [lia|reflexivity]). }
      destruct (Pos.eq_dec t tj) as [->|Atj].
      { rewrite swap_tidx_tj, Ij. rewrite swap_sget_i, Ej. split; intros _; (split; [lia|reflexivity]). }
      rewrite swap_tidx_o by assumption.
      destruct (Z.eq_dec (tidx s t) i) as [Ki|Ki].
      { rewrite Ki. rewrite swap_sget_i, Ei. split; intros [_ H]; congruence. }
      destruct (Z.eq_dec (tidx s t) j) as [Kj|Kj].
      { rewrite Kj. rewrite swap_sget_j, Ej. split; intros [_ H]; congruence. }
      rewrite swap_sget_o by assumption. reflexivity.
    - intros t H. apply swap_tget_o; intro; subst t; apply H.
      + apply (filled_inslot s i); assumption.
      + apply (filled_inslot s j); assumption.
  Qed.

  Lemma swap_key_i : key s' i = key s j.
  Proof. unfold key. rewrite swap_sget_i, Ej. apply swap_texp. Qed.
  Lemma swap_key_j : key s' j = key s i.
  Proof. unfold key. rewrite swap_sget_j, Ei. apply swap_texp. Qed.
  Lemma swap_key_o : forall k, k <> i -> k <> j -> key s' k = key s k.
  Proof.
    intros k A B. unfold key. rewrite swap_sget_o by assumption.
    destruct (sget s k); [apply swap_texp|reflexivity].
  Qed.
End Swap.

(* ---------- order predicates on a key function ---------- *)
Definition Full (n : Z) (k : Z -> Z) : Prop := forall j, 2 <= j <= n -> k (j / 2) <= k j.
Definition ChildOK (n : Z) (k : Z -> Z) (i : Z) : Prop :=
  forall c, 2 <= c <= n -> c / 2 = i -> k i <= k c.
Definition Bridge (n : Z) (k : Z -> Z) (i : Z) : Prop :=
  2 <= i -> forall c, 2 <= c <= n -> c / 2 = i -> k (i / 2) <= k c.
Definition UpInv (n : Z) (k : Z -> Z) (i : Z) : Prop :=
  (forall j, 2 <= j <= n -> j <> i -> j / 2 <> i -> k (j / 2) <= k j) /\ Bridge n k i.
Definition DownInv (n : Z) (k : Z -> Z) (i : Z) : Prop :=
  (forall j, 2 <= j <= n -> j / 2 <> i -> k (j / 2) <= k j) /\ Bridge n k i.

Lemma Full_Down : forall n k i, Full n k -> 1 <= i <= n -> DownInv n k i.
Proof.
  intros n k i H R. split.
  - intros j Rj _. apply H; assumption.
  - intros I2 c Rc E. pose proof (H i ltac:(lia)). pose proof (H c Rc). rewrite E in *. lia.
Qed.

Lemma Down_Full : forall n k i, DownInv n k i -> ChildOK n k i -> Full n k.
Proof.
  intros n k i [A _] C j Rj. destruct (Z.eq_dec (j / 2) i) as [E|E].
  - rewrite E. apply C; assumption.
  - apply A; assumption.
Qed.

Lemma up_step : forall n k k' i,
  UpInv n k i -> 2 <= i <= n -> k i < k (i / 2) ->
  k' i = k (i / 2) -> k' (i / 2) = k i -> (forall x, x <> i -> x <> i / 2 -> k' x = k x) ->
  UpInv n k' (i / 2) /\ ChildOK n k' (i / 2).
Proof.
  intros n k k' i [A B] R Lt Hi Hp Ho.
  assert (Pn : i / 2 <> i) by lia.
  split; [split|].
  - intros j Rj J1 J2.
    assert (J3 : j <> i) by (intro; subst j; congruence).
    rewrite (Ho j) by assumption.
    destruct (Z.eq_dec (j / 2) i) as [E|E].
    + rewrite E, Hi. apply B; [lia|assumption|assumption].
    + rewrite (Ho (j / 2)) by assumption. apply A; assumption.
  - intros P2 c Rc E.
    assert (Q : k (i / 2 / 2) <= k (i / 2)) by (apply A; lia).
    rewrite (Ho (i / 2 / 2)) by lia.
    destruct (Z.eq_dec c i) as [->|Ci].
    + rewrite Hi. assumption.
    + rewrite (Ho c) by lia.
      assert (k (c / 2) <= k c) by (apply A; lia). rewrite E in *. lia.
  - intros c Rc E. rewrite Hp.
    destruct (Z.eq_dec c i) as [->|Ci].
    + rewrite Hi. lia.
    + rewrite (Ho c) by lia.
      assert (k (c / 2) <= k c) by (apply A; lia). rewrite E in *. lia.
Qed.

Lemma down_step : forall n k k' i m,
  DownInv n k i -> 1 <= i -> m / 2 = i -> 2 <= m <= n -> k m < k i ->
  (forall c, 2 <= c <= n -> c / 2 = i -> k m <= k c) ->
  k' i = k m -> k' m = k i -> (forall x, x <> i -> x <> m -> k' x = k x) ->
  DownInv n k' m.
Proof.
  intros n k k' i m [A B] I1 Em Rm Lt Hmin Hi Hm Ho.
  split.
  - intros j Rj J1.
    destruct (Z.eq_dec j m) as [->|Jm].
    { rewrite Em, Hi, Hm. lia. }
    destruct (Z.eq_dec j i) as [->|Ji].
    { rewrite Hi. rewrite (Ho (i / 2)) by lia. apply B; [lia|assumption|assumption]. }
    rewrite (Ho j) by assumption.
    destruct (Z.eq_dec (j / 2) i) as [E|E].
    + rewrite E, Hi. apply Hmin; assumption.
    + rewrite (Ho (j / 2)) by assumption. apply A; assumption.
  - intros M2 c Rc E. rewrite Em, Hi. rewrite (Ho c) by lia.
    assert (k (c / 2) <= k c) by (apply A; lia). rewrite E in *. assumption.
Qed.

(* ---------- pull_up ---------- *)
Lemma pull_up_ok : forall fuel s i,
  Filled s -> 0 <= depth s -> num s < cap (depth s) -> 1 <= i <= num s ->
  Z.log2 i < Z.of_nat fuel -> UpInv (num s) (key s) i ->
  exists s', pull_up fuel s i = Some s' /\ Sift s s' /\
             DownInv (num s) (key s') i /\
             (ChildOK (num s) (key s) i -> Full (num s) (key s')).
Proof.
  induction fuel as [|f IH]; intros s i F D C R L U.
  - assert (i = 1).
    { destruct (Z.eq_dec i 1); [assumption|].
      assert (1 <= Z.log2 i) by (apply Z.log2_le_pow2; simpl; lia). lia. }
    subst i. cbn [pull_up]. rewrite Z.eqb_refl. exists s.
    split; [reflexivity|split; [apply Sift_refl; assumption|]].
    assert (DI : DownInv (num s) (key s) 1).
    { split; [|intros ?; lia]. intros j Rj J. apply (proj1 U); lia. }
    split; [assumption|intros CO; eapply Down_Full; eassumption].
  - cbn [pull_up]. destruct (Z.eqb_spec i 1) as [->|N1].
    { exists s. split; [reflexivity|split; [apply Sift_refl; assumption|]].
      assert (DI : DownInv (num s) (key s) 1).
      { split; [|intros ?; lia]. intros j Rj J. apply (proj1 U); lia. }
      split; [assumption|intros CO; eapply Down_Full; eassumption]. }
    assert (Rp : 1 <= i / 2 <= num s) by lia.
    rewrite get_node_same by lia.
    destruct (F (i / 2) Rp) as (tp & Ep & Ip).
    destruct (F i R) as (ti & Ei & Ii).
    rewrite Ep, Ei. unfold ptr_gt.
    assert (Kp : key s (i / 2) = texp s tp) by (unfold key; rewrite Ep; reflexivity).
    assert (Ki : key s i = texp s ti) by (unfold key; rewrite Ei; reflexivity).
    destruct (Z.ltb_spec (texp s ti) (texp s tp)) as [Lt|Ge].
    + assert (Nip : i <> i / 2) by lia.
      pose proof (swap_sift s i (i / 2) ti tp F R Rp Nip Ei Ep) as S1.
      set (s1 := swap_slots s i (i / 2) ti tp) in *.
      assert (N1' : num s1 = num s) by (apply (sf_num _ _ S1)).
      destruct (up_step (num s) (key s) (key s1) i U ltac:(lia) ltac:(lia)) as [U1 C1].
      { apply swap_key_i; assumption. }
      { apply swap_key_j; assumption. }
      { intros x A B. apply swap_key_o; assumption. }
      destruct (IH s1 (i / 2)) as (s' & P & S2 & _ & FU).
      * apply (sf_filled _ _ S1).
      * rewrite (sf_depth _ _ S1); assumption.
      * rewrite N1', (sf_depth _ _ S1); assumption.
      * rewrite N1'; assumption.
      * rewrite log2_half by lia. lia.
      * rewrite N1'; assumption.
      * rewrite N1' in FU. specialize (FU C1).
        exists s'. split; [assumption|split; [eapply Sift_trans; eassumption|]].
        split; [apply Full_Down; assumption|intros _; assumption].
    + exists s. split; [reflexivity|split; [apply Sift_refl; assumption|]].
      destruct U as [A B]. split.
      * split; [|assumption]. intros j Rj J.
        destruct (Z.eq_dec j i) as [->|Ji]; [lia|apply A; assumption].
      * intros CO. intros j Rj.
        destruct (Z.eq_dec j i) as [->|Ji]; [lia|].
        destruct (Z.eq_dec (j / 2) i) as [E|E]; [rewrite E; apply CO; assumption|apply A; assumption].
Qed.

(* ---------- push_down ---------- *)
Lemma log2_child : forall m, 2 <= m -> Z.log2 m = Z.log2 (m / 2) + 1.
Proof. intros m H. rewrite log2_half by assumption. lia. Qed.

Lemma push_down_ok : forall fuel s i,
  Filled s -> Vacant s -> 0 <= depth s -> num s < cap (depth s) -> 1 <= i <= num s ->
  Z.log2 (num s) - Z.log2 i < Z.of_nat fuel -> DownInv (num s) (key s) i ->
  exists s', push_down fuel s i = Some s' /\ Sift s s' /\ Full (num s) (key s').
Proof.
  induction fuel as [|f IH]; intros s i F V D C R L U.
  - assert (Z.log2 i <= Z.log2 (num s)) by (apply Z.log2_le_mono; lia). lia.
  - cbn [push_down].
    destruct (F i R) as (ti & Ei & Ii). rewrite Ei.
    assert (Ki : key s i = texp s ti) by (unfold key; rewrite Ei; reflexivity).
    assert (STOP : ChildOK (num s) (key s) i ->
                   exists s', Some s = Some s' /\ Sift s s' /\ Full (num s) (key s')).
    { intros CO. exists s. split; [reflexivity|split; [apply Sift_refl; assumption|]].
      eapply Down_Full; eassumption. }
    destruct (Z.leb_spec (2 * i) (num s)) as [Le|Gt].
    2:{ apply STOP. intros c Rc E. lia. }
    rewrite get_node_same by lia.
    assert (Rl : 1 <= 2 * i <= num s) by lia.
    destruct (F (2 * i) Rl) as (tl & El & Il). rewrite El.
    assert (Kl : key s (2 * i) = texp s tl) by (unfold key; rewrite El; reflexivity).
    assert (REC : forall m tm, m / 2 = i -> 2 <= m <= num s -> sget s m = Some tm ->
              key s m < key s i ->
              (forall c, 2 <= c <= num s -> c / 2 = i -> key s m <= key s c) ->
              exists s', push_down f (swap_slots s i m ti tm) m = Some s' /\
                         Sift s s' /\ Full (num s) (key s')).
    { intros m tm Em Rm Esm Lt Hmin.
      assert (Nim : i <> m) by lia.
      pose proof (swap_sift s i m ti tm F R ltac:(lia) Nim Ei Esm) as S1.
      set (s1 := swap_slots s i m ti tm) in *.
      assert (N1' : num s1 = num s) by (apply (sf_num _ _ S1)).
      assert (U1 : DownInv (num s) (key s1) m).
      { apply (down_step (num s) (key s) (key s1) i m U); try assumption; try lia.
        - apply swap_key_i; (assumption || lia).
        - apply swap_key_j; (assumption || lia).
        - intros x A B. apply swap_key_o; (assumption || lia). }
      destruct (IH s1 m) as (s' & P & S2 & FU).
      - apply (sf_filled _ _ S1).
      - eapply Sift_vacant; eassumption.
      - rewrite (sf_depth _ _ S1); assumption.
      - rewrite N1', (sf_depth _ _ S1); assumption.
      - rewrite N1'; lia.
      - rewrite N1'. rewrite (log2_child m) by lia. rewrite Em. lia.
      - rewrite N1'; assumption.
      - rewrite N1' in FU. exists s'. split; [assumption|split; [eapply Sift_trans; eassumption|assumption]]. }
    unfold ptr_gt.
    destruct (Z.leb_spec (2 * i + 1) (num s)) as [Ler|Gtr].
    + (* two children *)
      assert (Rr : 1 <= 2 * i + 1 <= num s) by lia.
      destruct (F (2 * i + 1) Rr) as (tr & Er & Ir). rewrite Er.
      assert (Kr : key s (2 * i + 1) = texp s tr) by (unfold key; rewrite Er; reflexivity).
      destruct (Z.ltb_spec (texp s tl) (texp s ti)) as [L1|G1].
      * destruct (Z.ltb_spec (texp s tr) (texp s tl)) as [L2|G2].
        -- assert (Q : (2 * i + 1 =? i) = false) by (apply Z.eqb_neq; lia). rewrite Q.
           apply REC; [lia|lia|assumption|lia|].
           intros c Rc E. assert (c = 2 * i \/ c = 2 * i + 1) as [->| ->] by lia; lia.
        -- assert (Q : (2 * i =? i) = false) by (apply Z.eqb_neq; lia). rewrite Q.
           apply REC; [lia|lia|assumption|lia|].
           intros c Rc E. assert (c = 2 * i \/ c = 2 * i + 1) as [->| ->] by lia; lia.
      * destruct (Z.ltb_spec (texp s tr) (texp s ti)) as [L2|G2].
        -- assert (Q : (2 * i + 1 =? i) = false) by (apply Z.eqb_neq; lia). rewrite Q.
           apply REC; [lia|lia|assumption|lia|].
           intros c Rc E. assert (c = 2 * i \/ c = 2 * i + 1) as [->| ->] by lia; lia.
        -- rewrite Z.eqb_refl. apply STOP.
           intros c Rc E. assert (c = 2 * i \/ c = 2 * i + 1) as [->| ->] by lia; lia.
    + (* only the left child *)
      rewrite (V (2 * i + 1)) by lia.
      destruct (Z.ltb_spec (texp s tl) (texp s ti)) as [L1|G1].
      * assert (Q : (2 * i =? i) = false) by (apply Z.eqb_neq; lia). rewrite Q.
        apply REC; [lia|lia|assumption|lia|].
        intros c Rc E. assert (c = 2 * i) as -> by lia. lia.
      * rewrite Z.eqb_refl. apply STOP.
        intros c Rc E. assert (c = 2 * i) as -> by lia. lia.
Qed.
