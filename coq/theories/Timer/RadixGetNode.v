(* RadixGetNode.v -- iv_timer_get_node: lazy allocation along the path, growth by one level. *)
From Coq Require Import List ZArith Bool Lia FMapPositive.
From Ivv Require Import Timer.HeapModel Timer.HeapSpec Timer.HeapBase Timer.RadixModel Timer.RadixSpec
  Timer.RadixArith Timer.RadixMem.
Import ListNotations.
Local Open Scope Z_scope.

Ltac Zify.zify_post_hook ::= Z.div_mod_to_equations.

Definition eqp (l q l' q' : Z) : bool := (l' =? l) && (q' =? q).

Lemma eqp_true : forall l q l' q', eqp l q l' q' = true <-> l' = l /\ q' = q.
Proof. intros. unfold eqp. rewrite andb_true_iff, !Z.eqb_eq. tauto. Qed.

Lemma eqp_false : forall l q l' q', eqp l q l' q' = false <-> ~ (l' = l /\ q' = q).
Proof.
  intros. rewrite <- eqp_true. destruct (eqp l q l' q'); split; intros; try congruence; try tauto.
Qed.

Lemma eqp_refl : forall l q, eqp l q l q = true.
Proof. intros. apply eqp_true. auto. Qed.

(* the ghost functions after one allocation *)
Definition na_upd (na : Z -> Z -> Z) (l q n : Z) : Z -> Z -> Z :=
  fun l' q' => if eqp l q l' q' then n else na l' q'.
Definition D_add (D : Z -> Z -> bool) (l q : Z) : Z -> Z -> bool :=
  fun l' q' => D l' q' || eqp l q l' q'.

Lemma Shape_Dext : forall rs na D D',
  (forall l q, 0 <= l <= rdepth rs -> D l q = D' l q) -> Shape rs na D -> Shape rs na D'.
Proof.
  intros rs na D D' E S. destruct S as [S1 S2 S3 S4 S5 S6 S7 S8 S9 S10 S11 S12 S13 S14].
  constructor; try assumption.
  - rewrite <- E by lia. assumption.
  - rewrite <- E by lia. assumption.
  - intros l q Hl. rewrite <- !E by lia. apply S6. assumption.
  - intros l q Hl. rewrite <- E by lia. apply S7. assumption.
  - intros l q l' q' Hl Hd Hl' Hd'. rewrite <- E in Hd, Hd' by lia. apply S8; assumption.
  - intros l q j Hl Hd Hj. rewrite <- E in Hd by lia. rewrite <- E by lia. apply S9; assumption.
  - intros n Hn. destruct (S10 n Hn) as (l & q & Hl & Hd & En). exists l, q. rewrite <- E by lia. auto.
Qed.

Lemma live_true_alloc_new : forall rs, 2 <= next rs -> live_true (fst (alloc rs)) (next rs).
Proof.
  intros rs H. unfold alloc, live_true. cbn [fst live]. destruct (next rs) as [|p|p]; try lia.
  cbn [Z.to_pos]. apply PM.gss.
Qed.

Lemma live_true_alloc_old : forall rs n, n <> next rs -> 1 <= n -> 2 <= next rs ->
  (live_true (fst (alloc rs)) n <-> live_true rs n).
Proof.
  intros rs n N Hn H. unfold alloc, live_true. cbn [fst live].
  destruct n as [|p|p]; try tauto. destruct (next rs) as [|p'|p'] eqn:E; try lia.
  cbn [Z.to_pos]. rewrite PM.gso by congruence. tauto.
Qed.

(* one lazily allocated child *)
Lemma Shape_add_child : forall rs na D l q j,
  Shape rs na D -> 1 <= l <= rdepth rs -> D l q = true -> 0 <= j < NODES ->
  D (l - 1) (q * NODES + j) = false ->
  let n := next rs in
  let rs2 := set_mem (fst (alloc rs)) (mset (mem rs) (na l q * NODES + j) (CNode n)) in
  store (fst (alloc rs)) (na l q * NODES + j) (CNode n) = Good rs2 /\
  Shape rs2 (na_upd na (l - 1) (q * NODES + j) n) (D_add D (l - 1) (q * NODES + j)).
Proof.
  intros rs na D l q j S Hl Dq Hj Dc n rs2.
  set (c := q * NODES + j) in *.
  pose proof (shape_node_pos rs na D S l q ltac:(lia) Dq) as Pq.
  pose proof (sh_next _ _ _ S) as Nx.
  assert (Lq : live_true rs (na l q)) by (apply (sh_live _ _ _ S l q); [lia|assumption|lia]).
  assert (Old : forall l' q', D l' q' = true -> eqp (l - 1) c l' q' = false).
  { intros l' q' Hd. apply eqp_false. intros [-> ->]. congruence. }
  assert (OldNa : forall l' q', D l' q' = true -> na_upd na (l - 1) c n l' q' = na l' q').
  { intros l' q' Hd. unfold na_upd. rewrite (Old l' q' Hd). reflexivity. }
  split.
  - apply store_ok; [unfold NODES in *; lia|]. rewrite addr_div by assumption.
    apply node_check_live. apply live_true_alloc_old; try lia. assumption.
  - assert (Addr : forall l' q' j', 0 <= l' <= rdepth rs -> D l' q' = true -> 0 <= j' < NODES ->
                     na l q * NODES + j = na l' q' * NODES + j' -> l' = l /\ q' = q /\ j' = j).
    { intros l' q' j' Hl' Hd' Hj' E.
      destruct (shape_addr_inj rs na D S l q j l' q' j' ltac:(lia) Dq Hj Hl' Hd' Hj' E) as (A & B & C). auto. }
    assert (RD : forall m, rdepth (set_mem (fst (alloc rs)) m) = rdepth rs) by reflexivity.
    subst rs2. constructor; rewrite ?RD; cbn [set_mem alloc fst mem next]; fold n.
    + apply (sh_depth _ _ _ S).
    + rewrite mget_mset_other.
      * rewrite (sh_root _ _ _ S). rewrite OldNa by apply (sh_rootD _ _ _ S). reflexivity.
      * intro E. rewrite (shape_root_cell rs na D S) in E.
        destruct (Addr 0 0 0 ltac:(lia) (sh_firstD _ _ _ S) ltac:(unfold NODES; lia) E). lia.
    + unfold D_add. rewrite (sh_rootD _ _ _ S). reflexivity.
    + rewrite OldNa by apply (sh_firstD _ _ _ S). apply (sh_first _ _ _ S).
    + unfold D_add. rewrite (sh_firstD _ _ _ S). reflexivity.
    + intros l' q' Hl' Hd'. unfold D_add in *. apply orb_true_iff in Hd'. destruct Hd' as [Hd'|Hd'].
      * rewrite (sh_closed _ _ _ S l' q' Hl' Hd'). reflexivity.
      * apply eqp_true in Hd'. destruct Hd' as [E1 ->]. assert (l' = l) by lia. subst l'.
        unfold c. rewrite addr_div by assumption. rewrite Dq. reflexivity.
    + intros l' q' Hl' Hd' N0. unfold D_add in Hd'. apply orb_true_iff in Hd'. destruct Hd' as [Hd'|Hd'].
      * rewrite OldNa by assumption.
        destruct (sh_live _ _ _ S l' q' Hl' Hd' N0) as [B L]. split; [lia|].
        apply live_true_alloc_old; [lia|lia|assumption|assumption].
      * apply eqp_true in Hd'. destruct Hd' as [-> ->]. unfold na_upd. rewrite eqp_refl.
        split; [lia|]. apply live_true_alloc_new. assumption.
    + intros l1 q1 l2 q2 Hl1 Hd1 Hl2 Hd2 E. unfold D_add in Hd1, Hd2.
      apply orb_true_iff in Hd1. apply orb_true_iff in Hd2. unfold na_upd in E.
      destruct Hd1 as [Hd1|Hd1]; destruct Hd2 as [Hd2|Hd2].
      * rewrite (Old _ _ Hd1), (Old _ _ Hd2) in E. apply (sh_inj _ _ _ S); assumption.
      * rewrite (Old _ _ Hd1), Hd2 in E.
        pose proof (shape_node_pos rs na D S l1 q1 Hl1 Hd1). lia.
      * rewrite Hd1, (Old _ _ Hd2) in E.
        pose proof (shape_node_pos rs na D S l2 q2 Hl2 Hd2). lia.
      * apply eqp_true in Hd1. apply eqp_true in Hd2. lia.
    + intros l' q' j' Hl' Hd' Hj'. unfold D_add in Hd'. apply orb_true_iff in Hd'. destruct Hd' as [Hd'|Hd'].
      * rewrite OldNa by assumption.
        destruct (Z.eq_dec (na l q * NODES + j) (na l' q' * NODES + j')) as [E|NE].
        -- destruct (Addr l' q' j' ltac:(lia) Hd' Hj' E) as (-> & -> & ->).
           rewrite mget_mset_same by (unfold NODES in *; lia).
           unfold D_add, na_upd. fold c. rewrite eqp_refl, orb_true_r. reflexivity.
        -- rewrite mget_mset_other by assumption.
           rewrite (sh_cells _ _ _ S l' q' j' Hl' Hd' Hj').
           assert (NP : eqp (l - 1) c (l' - 1) (q' * NODES + j') = false).
           { apply eqp_false. intros [E1 E2]. assert (l' = l) by lia. subst l'.
             unfold c in E2. assert (q' = q /\ j' = j) by (unfold NODES in *; lia).
             apply NE. destruct H as [-> ->]. reflexivity. }
           unfold D_add, na_upd. rewrite NP, orb_false_r. reflexivity.
      * apply eqp_true in Hd'. destruct Hd' as [-> ->]. unfold na_upd at 1. rewrite eqp_refl.
        rewrite mget_mset_other by (unfold NODES in *; lia).
        rewrite (sh_fresh_mem _ _ _ S) by (unfold NODES in *; lia).
        assert (DF : D (l - 1 - 1) (c * NODES + j') = false).
        { destruct (D (l - 1 - 1) (c * NODES + j')) eqn:E; [|reflexivity].
          pose proof (sh_closed _ _ _ S (l - 1) (c * NODES + j') ltac:(lia) E) as K.
          rewrite addr_div in K by assumption. congruence. }
        unfold D_add. rewrite DF.
        assert (NP : eqp (l - 1) c (l - 1 - 1) (c * NODES + j') = false) by (apply eqp_false; lia).
        rewrite NP. reflexivity.
    + intros n0 Ln0.
      destruct (Z.eq_dec n0 n) as [->|NE].
      * exists (l - 1), c. split; [lia|]. unfold D_add, na_upd. rewrite eqp_refl, orb_true_r. auto.
      * assert (1 <= n0) by (destruct n0; cbn in Ln0; try contradiction; lia).
        assert (Ln1 : live_true (fst (alloc rs)) n0) by exact Ln0.
        apply (proj1 (live_true_alloc_old rs n0 NE H Nx)) in Ln1.
        destruct (sh_only _ _ _ S n0 Ln1) as (l' & q' & Hl' & Hd' & En).
        exists l', q'. split; [assumption|]. unfold D_add. rewrite Hd', OldNa by assumption. auto.
    + lia.
    + intros p Hp. destruct n as [|pn|pn] eqn:En; try lia. cbn [Z.to_pos live set_mem].
      rewrite PM.gso by (intro; subst; lia). apply (sh_fresh_live _ _ _ S). lia.
    + intros a Ha. rewrite mget_mset_other by (unfold NODES in *; lia).
      apply (sh_fresh_mem _ _ _ S). unfold NODES in *. lia.
    + intro L1.
      assert (L2 : live_true (fst (alloc rs)) FIRST_LEAF) by exact L1.
      apply (live_true_alloc_old rs FIRST_LEAF) in L2; [|unfold FIRST_LEAF; lia|unfold FIRST_LEAF; lia|assumption].
      exact (sh_first_dead _ _ _ S L2).
Qed.

(* ---------- the descent loop ---------- *)
Lemma walk_eq : forall fuel rs r i index,
  walk fuel rs r i index =
  if i <=? 0 then Good (rs, r) else
  match fuel with
  | O => Bad EFuel
  | S f =>
      do sh <- shr_int index (i * SPLIT_BITS);
      let bits := Z.land sh (NODES - 1) in
      do c <- load_node rs (r * NODES + bits);
      match c with
      | Some n => walk f rs n (i - 1) index
      | None =>
          let '(rs1, n) := alloc rs in
          do rs2 <- store rs1 (r * NODES + bits) (CNode n);
          walk f rs2 n (i - 1) index
      end
  end.
Proof. intros. destruct fuel; reflexivity. Qed.

(* the shifts of the descent are defined: at most five levels *)
Lemma shr_int_ok : forall x c, 0 <= c < 32 -> shr_int x c = Good (Z.shiftr x c).
Proof.
  intros x c H. unfold shr_int, INT_BITS.
  replace (0 <=? c) with true by (symmetry; apply Z.leb_le; lia).
  replace (c <? 32) with true by (symmetry; apply Z.ltb_lt; lia). reflexivity.
Qed.

Lemma walk_shift : forall rs na D i index, Shape rs na D -> 0 <= i <= rdepth rs ->
  shr_int index (i * SPLIT_BITS) = Good (Z.shiftr index (i * SPLIT_BITS)).
Proof.
  intros rs na D i index S Hi. pose proof (sh_depth _ _ _ S). apply shr_int_ok. unfold SPLIT_BITS. lia.
Qed.

Lemma child_prefix : forall index i, 1 <= i ->
  index / P (i + 1) * NODES + digit index i = index / P (i - 1 + 1).
Proof. intros. replace (i - 1 + 1) with i by lia. symmetry. apply div_P_step. lia. Qed.

(* the child cell read by one iteration *)
Lemma walk_cell : forall rs na D i index,
  Shape rs na D -> 1 <= i <= rdepth rs -> D i (index / P (i + 1)) = true ->
  load_node rs (na i (index / P (i + 1)) * NODES + digit index i) =
  Good (if D (i - 1) (index / P (i - 1 + 1)) then Some (na (i - 1) (index / P (i - 1 + 1))) else None).
Proof.
  intros rs na D i index S Hi Dq. unfold load_node, bind.
  rewrite (shape_load rs na D S i) by (try apply digit_range; try assumption; lia).
  rewrite (sh_cells _ _ _ S i _ _ Hi Dq (digit_range index i)).
  rewrite child_prefix by lia.
  destruct (D (i - 1) (index / P (i - 1 + 1))); reflexivity.
Qed.

(* no allocation when the whole path exists *)
Lemma walk_nop : forall fuel rs na D i index,
  Shape rs na D -> 0 <= i <= rdepth rs -> i <= Z.of_nat fuel ->
  (forall l, 0 <= l <= i -> D l (index / P (l + 1)) = true) ->
  walk fuel rs (na i (index / P (i + 1))) i index = Good (rs, na 0 (index / P (0 + 1))).
Proof.
  induction fuel as [|f IH]; intros rs na D i index S Hi Hf Hp; rewrite walk_eq.
  - assert (i = 0) by lia. subst i. reflexivity.
  - destruct (Z.leb_spec i 0) as [L|L].
    + assert (i = 0) by lia. subst i. reflexivity.
    + rewrite (walk_shift rs na D i index S ltac:(lia)). unfold bind at 1.
      cbv zeta. rewrite bits_digit by lia.
      rewrite (walk_cell rs na D i index S ltac:(lia) (Hp i ltac:(lia))). unfold bind.
      rewrite (Hp (i - 1)) by lia.
      apply (IH rs na D (i - 1) index S); [lia|lia|].
      intros l Hl. apply Hp. lia.
Qed.

Definition D_path (D : Z -> Z -> bool) (i index : Z) : Z -> Z -> bool :=
  fun l q => D l q || ((0 <=? l) && (l <? i) && (q =? index / P (l + 1))).

Lemma D_path_old : forall D i index l q, D l q = true -> D_path D i index l q = true.
Proof. intros. unfold D_path. rewrite H. reflexivity. Qed.

Lemma D_path_0 : forall D index l q, D_path D 0 index l q = D l q.
Proof.
  intros. unfold D_path.
  assert (E : (0 <=? l) && (l <? 0) = false) by (destruct (Z.leb_spec 0 l), (Z.ltb_spec l 0); try reflexivity; lia).
  rewrite E. cbn [andb]. apply orb_false_r.
Qed.

Lemma ltb_step : forall l i, l <> i - 1 -> (l <? i - 1) = (l <? i).
Proof. intros. destruct (Z.ltb_spec l (i - 1)), (Z.ltb_spec l i); try reflexivity; lia. Qed.

Lemma D_path_step_old : forall D i index, 1 <= i -> D (i - 1) (index / P (i - 1 + 1)) = true ->
  forall l q, D_path D (i - 1) index l q = D_path D i index l q.
Proof.
  intros D i index Hi Dc l q. unfold D_path.
  destruct (Z.eq_dec l (i - 1)) as [->|N].
  - rewrite Z.ltb_irrefl. replace (i - 1 <? i) with true by (symmetry; apply Z.ltb_lt; lia).
    rewrite andb_false_r, andb_true_r. cbn [andb].
    destruct (Z.eqb_spec q (index / P (i - 1 + 1))) as [->|Nq].
    + rewrite Dc. reflexivity.
    + rewrite andb_false_r. reflexivity.
  - rewrite (ltb_step l i N). reflexivity.
Qed.

Lemma D_path_step_new : forall D i index, 1 <= i ->
  forall l q, D_path (D_add D (i - 1) (index / P (i - 1 + 1))) (i - 1) index l q = D_path D i index l q.
Proof.
  intros D i index Hi l q. unfold D_path, D_add, eqp.
  destruct (Z.eq_dec l (i - 1)) as [->|N].
  - rewrite Z.ltb_irrefl, Z.eqb_refl. replace (i - 1 <? i) with true by (symmetry; apply Z.ltb_lt; lia).
    replace (0 <=? i - 1) with true by (symmetry; apply Z.leb_le; lia).
    rewrite andb_false_r. cbn [andb]. rewrite orb_false_r. reflexivity.
  - rewrite (ltb_step l i N). replace (l =? i - 1) with false by (symmetry; apply Z.eqb_neq; assumption).
    cbn [andb]. rewrite orb_false_r. reflexivity.
Qed.

Lemma D_path_leaf : forall D i index q, 1 <= i -> D_path D i index 0 q = true ->
  forall D1, (forall l q, D l q = true -> D1 l q = true) -> D1 (i - 1) (index / P (i - 1 + 1)) = true ->
  D_path D1 (i - 1) index 0 q = true.
Proof.
  intros D i index q Hi Hd D1 Sub D1c. unfold D_path in *.
  apply orb_true_iff in Hd. destruct Hd as [Hd|Hd]; [rewrite (Sub _ _ Hd); reflexivity|].
  apply andb_true_iff in Hd. destruct Hd as [Hd1 Hd2]. apply Z.eqb_eq in Hd2. subst q.
  destruct (Z.eq_dec i 1) as [->|N1].
  - change (1 - 1) with 0 in D1c. rewrite D1c. reflexivity.
  - apply orb_true_iff. right. rewrite Z.eqb_refl, andb_true_r.
    apply andb_true_iff. split; [reflexivity|apply Z.ltb_lt; lia].
Qed.

Lemma walk_spec : forall fuel rs na D i index,
  Shape rs na D -> 0 <= i <= rdepth rs -> i <= Z.of_nat fuel ->
  D i (index / P (i + 1)) = true ->
  exists rs' na',
    walk fuel rs (na i (index / P (i + 1))) i index = Good (rs', na' 0 (index / P (0 + 1))) /\
    Shape rs' na' (D_path D i index) /\
    hs rs' = hs rs /\
    (forall l q, D l q = true -> na' l q = na l q) /\
    (forall q j, 0 <= j < NODES -> D_path D i index 0 q = true ->
       mget (mem rs') (na' 0 q * NODES + j) = if D 0 q then mget (mem rs) (na 0 q * NODES + j) else CNull).
Proof.
  induction fuel as [|f IH]; intros rs na D i index S Hi Hf Dq; rewrite walk_eq.
  - assert (i = 0) by lia. subst i. exists rs, na. split; [reflexivity|].
    split; [|split; [reflexivity|split; [auto|]]].
    + apply (Shape_Dext rs na D); [|assumption]. intros l q _. symmetry. apply D_path_0.
    + intros q j Hj Hd. rewrite D_path_0 in Hd. rewrite Hd. reflexivity.
  - destruct (Z.leb_spec i 0) as [L|L].
    + assert (i = 0) by lia. subst i. exists rs, na. split; [reflexivity|].
      split; [|split; [reflexivity|split; [auto|]]].
      * apply (Shape_Dext rs na D); [|assumption]. intros l q _. symmetry. apply D_path_0.
      * intros q j Hj Hd. rewrite D_path_0 in Hd. rewrite Hd. reflexivity.
    + rewrite (walk_shift rs na D i index S ltac:(lia)). unfold bind at 1.
      cbv zeta. rewrite bits_digit by lia.
      rewrite (walk_cell rs na D i index S ltac:(lia) Dq). unfold bind.
      set (c := index / P (i - 1 + 1)) in *.
      destruct (D (i - 1) c) eqn:Dc.
      * (* the child exists *)
        destruct (IH rs na D (i - 1) index S ltac:(lia) ltac:(lia) Dc) as (rs' & na' & W & S' & Eh & Ena & Fr).
        exists rs', na'. split; [exact W|]. split; [|split; [assumption|split; [assumption|]]].
        -- apply (Shape_Dext rs' na' (D_path D (i - 1) index)); [|assumption].
           intros l q _. apply D_path_step_old; [lia|exact Dc].
        -- intros q j Hj Hd. apply Fr; [assumption|].
           apply (D_path_leaf D i index q ltac:(lia) Hd D); [auto|exact Dc].
      * (* allocate it *)
        destruct (alloc rs) as [rs1 n] eqn:Ea.
        assert (Er : rs1 = fst (alloc rs)) by (rewrite Ea; reflexivity).
        assert (En : n = next rs) by (unfold alloc in Ea; congruence).
        pose proof (child_prefix index i ltac:(lia)) as CP. fold c in CP.
        pose proof (Shape_add_child rs na D i (index / P (i + 1)) (digit index i) S ltac:(lia) Dq
                      (digit_range index i)) as AC.
        rewrite CP in AC. specialize (AC Dc). cbv zeta in AC. destruct AC as [St S2].
        rewrite <- Er, <- En in St, S2. rewrite St.
        set (rs2 := set_mem rs1 (mset (mem rs) (na i (index / P (i + 1)) * NODES + digit index i) (CNode n))) in *.
        set (na1 := na_upd na (i - 1) c n) in *. set (D1 := D_add D (i - 1) c) in *.
        assert (D1c : D1 (i - 1) c = true) by (unfold D1, D_add; rewrite eqp_refl, orb_true_r; reflexivity).
        assert (N1 : na1 (i - 1) c = n) by (unfold na1, na_upd; rewrite eqp_refl; reflexivity).
        assert (Rd2 : rdepth rs2 = rdepth rs) by (unfold rs2; rewrite Er; reflexivity).
        destruct (IH rs2 na1 D1 (i - 1) index S2 ltac:(lia) ltac:(lia) D1c) as (rs' & na' & W & S' & Eh & Ena & Fr).
        fold c in W. rewrite N1 in W.
        assert (OldNa : forall l q, D l q = true -> na1 l q = na l q).
        { intros l q Hd. unfold na1, na_upd.
          assert (eqp (i - 1) c l q = false) by (apply eqp_false; intros [-> ->]; congruence).
          rewrite H. reflexivity. }
        exists rs', na'. split; [exact W|]. split; [|split; [|split]].
        -- apply (Shape_Dext rs' na' (D_path D1 (i - 1) index)); [|assumption].
           intros l q _. apply D_path_step_new. lia.
        -- rewrite Eh. unfold rs2. rewrite Er. reflexivity.
        -- intros l q Hd. rewrite Ena; [apply OldNa; assumption|]. unfold D1, D_add. rewrite Hd. reflexivity.
        -- intros q j Hj Hd.
           assert (Hd1 : D_path D1 (i - 1) index 0 q = true).
           { apply (D_path_leaf D i index q ltac:(lia) Hd D1); [|exact D1c].
             intros l0 q0 H0. unfold D1, D_add. rewrite H0. reflexivity. }
           rewrite (Fr q j Hj Hd1).
           destruct (D 0 q) eqn:D0q.
           ++ assert (D1q : D1 0 q = true) by (unfold D1, D_add; rewrite D0q; reflexivity).
              rewrite D1q. rewrite OldNa by assumption.
              unfold rs2. cbn [mem set_mem]. apply mget_mset_other.
              intro E.
              destruct (shape_addr_inj rs na D S i (index / P (i + 1)) (digit index i) 0 q j
                          ltac:(lia) Dq (digit_range index i) ltac:(lia) D0q Hj E). lia.
           ++ destruct (D1 0 q) eqn:D1q; [|reflexivity].
              unfold D1, D_add in D1q. rewrite D0q in D1q. cbn [orb] in D1q. apply eqp_true in D1q.
              destruct D1q as [E0 ->]. rewrite E0, N1.
              unfold rs2. cbn [mem set_mem]. rewrite mget_mset_other.
              ** apply (sh_fresh_mem _ _ _ S). unfold NODES in *. lia.
              ** pose proof (shape_node_pos rs na D S i _ ltac:(lia) Dq).
                 pose proof (digit_range index i). unfold NODES in *. lia.
Qed.

(* ---------- growth by one level ---------- *)
Lemma Shape_grow : forall rs na D,
  Shape rs na D -> rdepth rs <= 3 ->
  (forall q, D (rdepth rs) q = true -> q = 0) ->
  (forall q, D (rdepth rs + 1) q = (q =? 0)) ->
  let d := rdepth rs in
  let n := next rs in
  let rs2 := fst (alloc (rset_depth rs (d + 1))) in
  let rs3 := set_mem rs2 (mset (mem rs) (n * NODES) (CNode (na d 0))) in
  let rs4 := set_mem rs3 (mset (mem rs3) ROOT_CELL (CNode n)) in
  load rs2 ROOT_CELL = Good (CNode (na d 0)) /\
  store rs2 (n * NODES) (CNode (na d 0)) = Good rs3 /\
  store rs3 ROOT_CELL (CNode n) = Good rs4 /\
  Shape rs4 (na_upd na (d + 1) 0 n) D /\
  (forall q j, 0 <= j < NODES -> D 0 q = true -> ~ (q = 0 /\ j = 0) ->
     mget (mem rs4) (na 0 q * NODES + j) = mget (mem rs) (na 0 q * NODES + j)).
Proof.
  intros rs na D S D3 Top Above d n rs2 rs3 rs4.
  pose proof (sh_next _ _ _ S) as Nx. pose proof (sh_depth _ _ _ S) as Dp. fold d in Dp, D3.
  assert (Ln : live_true rs2 n) by (apply (live_true_alloc_new (rset_depth rs (d + 1))); assumption).
  assert (NCn : node_check rs2 n = None) by (apply node_check_live; assumption).
  assert (OldNa : forall l q, 0 <= l <= d -> na_upd na (d + 1) 0 n l q = na l q).
  { intros l q Hl. unfold na_upd. assert (E : eqp (d + 1) 0 l q = false) by (apply eqp_false; lia).
    rewrite E. reflexivity. }
  assert (RootNe : forall n0 j, 2 <= n0 -> 0 <= j < NODES -> n0 * NODES + j <> ROOT_CELL).
  { intros n0 j H2 Hj. unfold ROOT_CELL, FIRST_LEAF, NODES in *. lia. }
  split; [|split; [|split; [|split]]].
  - unfold load. replace (ROOT_CELL <=? 0) with false by reflexivity.
    replace (ROOT_CELL / NODES) with FIRST_LEAF by reflexivity. rewrite node_check_first.
    unfold rs2. cbn [alloc fst mem rset_depth set_hs]. rewrite (sh_root _ _ _ S). reflexivity.
  - apply store_ok; [fold n in Nx; unfold NODES; lia|].
    replace (n * NODES / NODES) with n by (unfold NODES; lia). assumption.
  - apply store_ok; [reflexivity|]. reflexivity.
  - assert (RD : rdepth rs4 = d + 1) by reflexivity.
    assert (M4 : forall a, mget (mem rs4) a =
                   if a =? ROOT_CELL then CNode n else if a =? n * NODES then CNode (na d 0) else mget (mem rs) a).
    { intros a. unfold rs4, rs3. cbn [mem set_mem].
      destruct (Z.eqb_spec a ROOT_CELL) as [->|N1].
      - apply mget_mset_same. reflexivity.
      - rewrite mget_mset_other by congruence.
        destruct (Z.eqb_spec a (n * NODES)) as [->|N2].
        + apply mget_mset_same. fold n in Nx. unfold NODES. lia.
        + apply mget_mset_other. congruence. }
    assert (LT : forall n0, n0 <> n -> 1 <= n0 -> (live_true rs4 n0 <-> live_true rs n0)).
    { intros n0 N0 P0. apply (live_true_alloc_old (rset_depth rs (d + 1)) n0); assumption. }
    constructor; rewrite ?RD.
    + lia.
    + rewrite M4. cbn. unfold na_upd. rewrite eqp_refl. reflexivity.
    + rewrite Above. reflexivity.
    + rewrite OldNa by lia. apply (sh_first _ _ _ S).
    + apply (sh_firstD _ _ _ S).
    + intros l q Hl Hd. destruct (Z.eq_dec l (d + 1)) as [->|N].
      * replace (d + 1 - 1) with d in Hd by lia. rewrite (Top q Hd). rewrite Above. reflexivity.
      * apply (sh_closed _ _ _ S); [fold d; lia|assumption].
    + intros l q Hl Hd N0. destruct (Z.eq_dec l (d + 1)) as [->|N].
      * rewrite Above in Hd. apply Z.eqb_eq in Hd. subst q. unfold na_upd. rewrite eqp_refl.
        split; [unfold rs4, rs3, rs2; cbn [next set_mem alloc fst rset_depth set_hs]; fold n; lia|exact Ln].
      * rewrite OldNa by lia. destruct (sh_live _ _ _ S l q ltac:(fold d; lia) Hd N0) as [B L].
        split; [unfold rs4, rs3, rs2; cbn [next set_mem alloc fst rset_depth set_hs]; lia|].
        apply LT; [fold n; lia|lia|assumption].
    + intros l q l' q' Hl Hd Hl' Hd' E.
      destruct (Z.eq_dec l (d + 1)) as [->|N]; destruct (Z.eq_dec l' (d + 1)) as [->|N'].
      * rewrite Above in Hd, Hd'. apply Z.eqb_eq in Hd. apply Z.eqb_eq in Hd'. lia.
      * rewrite Above in Hd. apply Z.eqb_eq in Hd. subst q. unfold na_upd at 1 in E. rewrite eqp_refl in E.
        rewrite OldNa in E by lia.
        pose proof (shape_node_pos rs na D S l' q' ltac:(fold d; lia) Hd'). fold n in H. lia.
      * rewrite Above in Hd'. apply Z.eqb_eq in Hd'. subst q'. unfold na_upd at 2 in E. rewrite eqp_refl in E.
        rewrite OldNa in E by lia.
        pose proof (shape_node_pos rs na D S l q ltac:(fold d; lia) Hd). fold n in H. lia.
      * rewrite !OldNa in E by lia. apply (sh_inj _ _ _ S); try assumption; fold d; lia.
    + intros l q j Hl Hd Hj.
      destruct (Z.eq_dec l (d + 1)) as [->|N].
      * rewrite Above in Hd. apply Z.eqb_eq in Hd. subst q.
        assert (En : na_upd na (d + 1) 0 n (d + 1) 0 = n) by (unfold na_upd; rewrite eqp_refl; reflexivity).
        rewrite En, M4.
        replace (d + 1 - 1) with d by lia. rewrite OldNa by lia.
        replace (n * NODES + j =? ROOT_CELL) with false
          by (symmetry; apply Z.eqb_neq; apply RootNe; [fold n in Nx; lia|assumption]).
        destruct (Z.eq_dec j 0) as [->|Nj].
        -- replace (n * NODES + 0 =? n * NODES) with true by (symmetry; apply Z.eqb_eq; lia).
           change (0 * NODES + 0) with 0. unfold d. rewrite (sh_rootD _ _ _ S). reflexivity.
        -- replace (n * NODES + j =? n * NODES) with false by (symmetry; apply Z.eqb_neq; lia).
           rewrite (sh_fresh_mem _ _ _ S) by (fold n; unfold NODES in *; lia).
           destruct (D d (0 * NODES + j)) eqn:E; [|reflexivity].
           apply Top in E. lia.
      * rewrite OldNa by lia. rewrite OldNa by lia. rewrite M4.
        pose proof (shape_node_pos rs na D S l q ltac:(fold d; lia) Hd) as Pq. fold n in Pq.
        replace (na l q * NODES + j =? n * NODES) with false by (symmetry; apply Z.eqb_neq; unfold NODES in *; lia).
        destruct (Z.eqb_spec (na l q * NODES + j) ROOT_CELL) as [E|NE].
        -- exfalso. rewrite (shape_root_cell rs na D S) in E.
           assert (Z0 : 0 <= 0 < NODES) by (unfold NODES; lia).
           destruct (shape_addr_inj rs na D S l q j 0 0 0 ltac:(fold d; lia) Hd Hj ltac:(fold d; lia)
                       (sh_firstD _ _ _ S) Z0 E). lia.
        -- apply (sh_cells _ _ _ S); [fold d; lia|assumption|assumption].
    + intros n0 L0. destruct (Z.eq_dec n0 n) as [->|NE].
      * exists (d + 1), 0. split; [lia|]. rewrite Above. unfold na_upd. rewrite eqp_refl. auto.
      * assert (1 <= n0) by (destruct n0; cbn in L0; try contradiction; lia).
        apply LT in L0; [|assumption|assumption].
        destruct (sh_only _ _ _ S n0 L0) as (l & q & Hl & Hd & En). fold d in Hl.
        exists l, q. rewrite OldNa by lia. split; [lia|auto].
    + unfold rs4, rs3, rs2. cbn [next set_mem alloc fst rset_depth set_hs]. lia.
    + intros p Hp. unfold rs4, rs3, rs2 in *. cbn [next live set_mem alloc fst rset_depth set_hs] in *.
      fold n in Hp. fold n. destruct n as [|pn|pn] eqn:En; try lia. cbn [Z.to_pos].
      rewrite PM.gso by (intro; subst; lia). apply (sh_fresh_live _ _ _ S). lia.
    + intros a Ha. unfold rs4, rs3, rs2 in Ha. cbn [next set_mem alloc fst rset_depth set_hs] in Ha. fold n in Ha.
      rewrite M4.
      replace (a =? ROOT_CELL) with false by (symmetry; apply Z.eqb_neq; unfold ROOT_CELL, FIRST_LEAF, NODES in *; lia).
      replace (a =? n * NODES) with false by (symmetry; apply Z.eqb_neq; unfold NODES in *; lia).
      apply (sh_fresh_mem _ _ _ S). fold n. unfold NODES in *. lia.
    + intro L1. apply LT in L1; [|fold n in Nx; unfold FIRST_LEAF; lia|unfold FIRST_LEAF; lia].
      exact (sh_first_dead _ _ _ S L1).
  - intros q j Hj Dq N0.
    pose proof (shape_node_pos rs na D S 0 q ltac:(fold d; lia) Dq) as Pq. fold n in Pq.
    unfold rs4, rs3. cbn [mem set_mem].
    rewrite mget_mset_other.
    + apply mget_mset_other. unfold NODES in *. lia.
    + intro E. rewrite (shape_root_cell rs na D S) in E.
      assert (Z0 : 0 <= 0 < NODES) by (unfold NODES; lia).
      destruct (shape_addr_inj rs na D S 0 0 0 0 q j ltac:(fold d; lia) (sh_firstD _ _ _ S) Z0
                  ltac:(fold d; lia) Dq Hj E). lia.
Qed.

(* the growth test: defined (the guard keeps the shift count below 32), and it is `index >= 128^(depth+1)`
   for every index that five levels can address *)
Lemma grow_test_spec : forall d index, 0 <= d <= 4 -> 0 <= index < P 5 ->
  grow_test d index = Good (negb (index <? P (d + 1))).
Proof.
  intros d index Hd Hi. unfold grow_test. change (8 * 4) with 32.
  destruct (Z.ltb_spec ((d + 1) * SPLIT_BITS) 32) as [L|L].
  - rewrite shr_int_ok by (unfold SPLIT_BITS in *; lia). unfold bind.
    rewrite shiftr_P by lia. reflexivity.
  - assert (d = 4) by (unfold SPLIT_BITS in *; lia). subst d.
    replace (index <? P (4 + 1)) with true by (symmetry; apply Z.ltb_lt; apply Hi). reflexivity.
Qed.

(* ---------- iv_timer_get_node ---------- *)
Lemma to_nat_fuel : forall d, 0 <= d -> d <= Z.of_nat (Z.to_nat d).
Proof. intros. rewrite Z2Nat.id; lia. Qed.

(* an index whose nodes all exist: nothing changes, the result is the slot address *)
Lemma rget_node_same : forall rs na H index, ShapeH rs na H -> 1 <= index <= H ->
  rget_node rs index = Good (rs, p_of na index).
Proof.
  intros rs na H index (S & B1 & B2) Hi.
  pose proof (sh_depth _ _ _ S) as Dp.
  pose proof (P_le (rdepth rs + 1) 5 ltac:(lia)) as P5.
  unfold rget_node. rewrite grow_test_spec by lia. unfold bind at 1.
  replace (index <? P (rdepth rs + 1)) with true by (symmetry; apply Z.ltb_lt; lia). cbn [negb].
  unfold bind at 1. unfold load_node. rewrite (shape_load_root rs na _ S). unfold bind at 2. unfold bind at 1.
  assert (E0 : index / P (rdepth rs + 1) = 0) by (apply Z.div_small; lia).
  rewrite <- E0.
  rewrite (walk_nop (Z.to_nat (rdepth rs)) rs na (domH H) (rdepth rs) index S ltac:(lia) (to_nat_fuel _ (proj1 Dp))).
  - unfold bind. unfold p_of. rewrite land_mod. reflexivity.
  - intros l Hl. apply domH_path; lia.
Qed.

Lemma D_path_domH : forall H d l q, 0 <= H -> 0 <= l <= d -> H + 1 < P (d + 1) ->
  D_path (domH H) d (H + 1) l q = domH (H + 1) l q.
Proof.
  intros H d l q HH Hl B. unfold D_path. rewrite domH_succ by lia.
  replace (0 <=? l) with true by (symmetry; apply Z.leb_le; lia). cbn [andb].
  destruct (Z.ltb_spec l d) as [L|L]; [reflexivity|].
  assert (l = d) by lia. subst l. cbn [andb].
  assert (E0 : (H + 1) / P (d + 1) = 0) by (apply Z.div_small; lia). rewrite E0.
  rewrite orb_false_r.
  destruct (Z.eqb_spec q 0) as [->|N]; [rewrite domH_00 by lia; reflexivity|rewrite orb_false_r; reflexivity].
Qed.

Local Transparent sget.
Lemma sget_set_depth' : forall s d i, sget (set_depth s d) i = sget s i.
Proof. reflexivity. Qed.
Local Opaque sget.

Definition grow_part (rs : rstate) (index : Z) : rres rstate :=
  do grow <- grow_test (rdepth rs) index;
  if negb grow then Good rs else
    let rs1 := rset_depth rs (rdepth rs + 1) in
    let '(rs2, r) := alloc rs1 in
    do c <- load rs2 ROOT_CELL;
    do rs3 <- store rs2 (r * NODES) c;
    store rs3 ROOT_CELL (CNode r).

Definition walk_part (rs1 : rstate) (index : Z) : rres (rstate * Z) :=
  do r <- load_node rs1 ROOT_CELL;
  match r with
  | None => Bad ENull
  | Some r =>
      do x <- walk (Z.to_nat (rdepth rs1)) rs1 r (rdepth rs1) index;
      let '(rs2, r') := x in
      Good (rs2, r' * NODES + Z.land index (NODES - 1))
  end.

Lemma rget_node_eq : forall rs index, rget_node rs index = do rs1 <- grow_part rs index; walk_part rs1 index.
Proof. intros. unfold rget_node, grow_part, bind. destruct (grow_test (rdepth rs) index); reflexivity. Qed.


(* the next index (register): lazy allocation along its path, growth when it is 128^(depth+1) *)
Lemma rget_node_next : forall rs s na H, ShapeH rs na H -> Rel rs s na H -> H + 1 < P 5 ->
  let index := H + 1 in
  let d' := if index <? P (rdepth rs + 1) then rdepth rs else rdepth rs + 1 in
  exists rs' na', rget_node rs index = Good (rs', p_of na' index) /\
    ShapeH rs' na' index /\ Rel rs' (set_depth s d') na' index /\
    get_node s index = Some (set_depth s d').
Proof.
  intros rs s na H (S & B1 & B2) R H5 index d'.
  pose proof (sh_depth _ _ _ S) as Dp. set (d := rdepth rs) in *.
  destruct (Rel_fields _ _ _ _ R) as (_ & Eds & _). fold d in Eds.
  assert (Pd1 : 0 < P (d + 1)) by (apply P_pos; lia).
  (* the optional growth *)
  assert (G : exists rsg nag,
    grow_part rs index = Good rsg /\
    Shape rsg nag (domH H) /\ hs rsg = set_depth (hs rs) d' /\
    (forall q, domH H 0 q = true -> nag 0 q = na 0 q) /\
    (forall q j, 0 <= j < NODES -> domH H 0 q = true -> ~ (q = 0 /\ j = 0) ->
       mget (mem rsg) (na 0 q * NODES + j) = mget (mem rs) (na 0 q * NODES + j)) /\
    get_node s index = Some (set_depth s d')).
  { unfold grow_part. fold d. rewrite grow_test_spec by (unfold index; lia). unfold bind at 1. unfold d'. fold d.
    destruct (Z.ltb_spec index (P (d + 1))) as [L|L]; cbn [negb].
    - exists rs, na. split; [reflexivity|]. split; [assumption|].
      split; [unfold d, rdepth; symmetry; apply set_depth_same|]. split; [auto|]. split; [auto|].
      rewrite <- Eds. rewrite set_depth_same. apply get_node_same; rewrite ?cap_P, ?Eds; unfold index in *; lia.
    - assert (Ei : index = P (d + 1)) by (unfold index in *; lia).
      pose proof (Shape_grow rs na (domH H) S) as SG. fold d in SG. cbv zeta in SG.
      destruct SG as (L1 & St1 & St2 & S4 & Fr).
      + destruct (Z.eq_dec d 4) as [E4|N4]; [|lia].
        rewrite E4 in L. change (4 + 1) with 5 in L. unfold index in *. lia.
      + intros q Hq. apply (domH_top H d q); [lia|lia|assumption].
      + intros q. apply domH_above; lia.
      + destruct (alloc (rset_depth rs (d + 1))) as [rs2 r] eqn:Ea.
        assert (En : r = next rs) by (unfold alloc in Ea; cbn [next rset_depth set_hs] in Ea; congruence).
        assert (Er : hs rs2 = set_depth (hs rs) (d + 1)) by (unfold alloc in Ea; inversion Ea; reflexivity).
        cbn [fst] in L1, St1, St2, S4, Fr. rewrite <- En in St1, St2, S4, Fr.
        eexists. exists (na_upd na (d + 1) 0 r).
        split; [unfold bind; rewrite L1, St1; exact St2|].
        split; [exact S4|]. split; [exact Er|].
        split; [|split].
        * intros q Hq. unfold na_upd. assert (E : eqp (d + 1) 0 0 q = false) by (apply eqp_false; lia).
          rewrite E. reflexivity.
        * exact Fr.
        * rewrite <- Eds. apply get_node_grow; [lia|]. rewrite cap_P, Eds. exact Ei. }
  destruct G as (rsg & nag & G1 & Sg & Ehg & Nag & Frg & HG).
  assert (Dg : rdepth rsg = d') by (unfold rdepth; rewrite Ehg; reflexivity).
  assert (Bd' : 0 <= d' /\ index < P (d' + 1) /\ (0 < d' -> P d' <= index)).
  { unfold d'. destruct (Z.ltb_spec index (P (d + 1))) as [L|L].
    - split; [lia|]. split; [lia|]. unfold index. intros. specialize (B2 H0). lia.
    - split; [lia|]. split; [|intros; lia].
      replace (d + 1 + 1) with ((d + 1) + 1) by lia. rewrite (P_succ (d + 1)) by lia.
      unfold index, NODES in *. lia. }
  destruct Bd' as (Bd0 & Bd1 & Bd2).
  rewrite rget_node_eq, G1. unfold bind at 1. unfold walk_part.
  unfold load_node. rewrite (shape_load_root rsg nag _ Sg). unfold bind at 2. unfold bind at 1. rewrite Dg.
  assert (E0 : index / P (d' + 1) = 0) by (apply Z.div_small; unfold index in *; lia).
  replace (nag d' 0) with (nag d' (index / P (d' + 1))) by (rewrite E0; reflexivity).
  destruct (walk_spec (Z.to_nat d') rsg nag (domH H) d' index Sg ltac:(lia) (to_nat_fuel _ Bd0))
    as (rs' & na' & W & S' & Eh & Ena & Fr).
  { rewrite E0. apply domH_00. lia. }
  rewrite W. exists rs', na'. unfold bind.
  split; [unfold p_of; rewrite land_mod; reflexivity|].
  assert (Dr' : rdepth rs' = d') by (unfold rdepth; rewrite Eh, Ehg; reflexivity).
  assert (S'' : Shape rs' na' (domH index)).
  { apply (Shape_Dext rs' na' (D_path (domH H) d' index)); [|assumption].
    intros l q Hl. rewrite Dr' in Hl. apply D_path_domH; unfold index in *; lia. }
  split; [|split; [|assumption]].
  - split; [assumption|]. rewrite Dr'. split; [unfold index in *; lia|]. intros. specialize (Bd2 H0). lia.
  - destruct R as [Rh Rc Rv]. constructor.
    + rewrite Eh, Ehg. rewrite <- Rh at 2. destruct (hs rs); reflexivity.
    + intros i Hi Hh. rewrite sget_set_depth'. unfold p_of.
      assert (Dq : D_path (domH H) d' index 0 (i / NODES) = true).
      { destruct (Z.eq_dec d' 0) as [Z0|NZ].
        - rewrite Z0 in *. rewrite D_path_0. apply domH_true. change (P (0 + 1)) with NODES.
          assert (i < NODES) by (change (P (0 + 1)) with NODES in Bd1; unfold index, NODES in *; lia).
          unfold NODES in *. lia.
        - rewrite D_path_domH by (unfold index in *; lia). apply domH_true.
          change (P (0 + 1)) with NODES. unfold NODES in *. lia. }
      rewrite (Fr (i / NODES) (i mod NODES) ltac:(unfold NODES; lia) Dq).
      destruct (domH H 0 (i / NODES)) eqn:D0.
      * rewrite Nag by assumption.
        rewrite Frg by (try assumption; unfold NODES in *; lia).
        apply domH_true in D0. change (P (0 + 1)) with NODES in D0.
        apply (Rc i Hi). lia.
      * apply domH_false in D0. change (P (0 + 1)) with NODES in D0.
        rewrite Rv; [reflexivity|]. unfold NODES in *. lia.
    + intros i Hi. rewrite sget_set_depth'. apply Rv. unfold index in *. lia.
Qed.
