(* RadixProofs.v -- the radix-tree timer store refines the flat-map store of HeapModel:
   top-level theorems (history refinement with equal traces, invariant, no dangling slot
   pointer, no leak, deinit). *)
From Coq Require Import List ZArith Bool Lia FMapPositive.
From Ivv Require Import Timer.HeapModel Timer.HeapSpec Timer.HeapBase Timer.HeapSift Timer.HeapFacts Timer.HeapProofs
  Timer.RadixModel Timer.RadixSpec Timer.RadixArith Timer.RadixMem Timer.RadixGetNode Timer.RadixFree Timer.RadixSim.
Import ListNotations.
Local Open Scope Z_scope.

Ltac Zify.zify_post_hook ::= Z.div_mod_to_equations.

(* ---------- the initial state ---------- *)
Definition na0 : Z -> Z -> Z := fun _ _ => FIRST_LEAF.

Lemma domH0_level0 : forall q, domH 0 0 q = true -> q = 0.
Proof. intros q D. apply domH_true in D. change (P (0 + 1)) with NODES in D. unfold NODES in *. lia. Qed.

Lemma Ref_init : Ref rinit init na0 0.
Proof.
  split; [|split].
  - split; [|split; [change (P (rdepth rinit + 1)) with NODES; unfold NODES; lia|intros K; cbn in K; lia]].
    constructor.
    + cbn. lia.
    + reflexivity.
    + reflexivity.
    + reflexivity.
    + reflexivity.
    + intros l q Hl. cbn in Hl. lia.
    + intros l q Hl D N. change (rdepth rinit) with 0 in Hl. assert (l = 0) by lia. subst l.
      apply domH0_level0 in D. lia.
    + intros l q l' q' Hl D Hl' D' _. change (rdepth rinit) with 0 in *.
      assert (l = 0) by lia. assert (l' = 0) by lia. subst l l'.
      apply domH0_level0 in D. apply domH0_level0 in D'. lia.
    + intros l q j Hl. cbn in Hl. lia.
    + intros n L. destruct n; unfold live_true in L; try contradiction. cbn [live rinit] in L.
      rewrite PM.gempty in L. discriminate.
    + cbn. lia.
    + intros p _. apply PM.gempty.
    + intros a Ha. cbn [next rinit] in Ha. destruct a as [|p|p]; try reflexivity.
      unfold mget, rinit, mem. rewrite PM.gso; [rewrite PM.gempty; reflexivity|].
      intro E. assert (Z.pos p = 128) by (rewrite E; reflexivity). unfold NODES in Ha. lia.
    + intro L. unfold live_true, FIRST_LEAF in L. cbn [live rinit] in L. rewrite PM.gempty in L. discriminate.
  - constructor.
    + reflexivity.
    + intros i Hi Hh. rewrite sget_init. cbn [cell_of]. unfold p_of, na0.
      assert (Hi2 : i < NODES) by (unfold NODES in *; lia).
      replace (i / NODES) with 0 by (unfold NODES in *; lia).
      replace (i mod NODES) with i by (unfold NODES in *; lia).
      unfold FIRST_LEAF, NODES in *.
      destruct (1 * 128 + i) as [|p|p] eqn:E; try reflexivity.
      unfold mget, rinit, mem. rewrite PM.gso; [rewrite PM.gempty; reflexivity|].
      intro E'. assert (Z.pos p = 128) by (rewrite E'; reflexivity). lia.
    + intros i _. apply sget_init.
  - split; [cbn; lia|unfold POP_BOUND; lia].
Qed.

(* ---------- one top-level operation ---------- *)
Lemma RegBelow_init : forall b, RegBelow b init.
Proof. intros b t H. unfold tidx in H. rewrite tget_init in H. lia. Qed.

Theorem radix_step_refines : forall sc rs s o, Refines rs s -> HeapInv s -> batch s = [] ->
  RegBelow POP_BOUND s -> scripts_below POP_BOUND sc -> op_below POP_BOUND o ->
  exists rs' s' rc fired,
    step sc s o = (Ok s', rc, fired) /\ rstep sc rs o = (ROk rs', rc, fired) /\
    Refines rs' s' /\ HeapInv s' /\ batch s' = [] /\ RegBelow POP_BOUND s'.
Proof.
  intros sc rs s o (na & H & Rf) I B RB Hsc Ho.
  pose proof (HeapInv_Inv s I) as Iv.
  destruct (step_ok sc s o Iv B) as (s' & E & I' & B').
  destruct (step sc s o) as [[r rc] fired] eqn:Es. cbn [fst] in E. subst r.
  destruct (rstep_sim sc rs s na H o s' rc fired Rf Iv B RB Hsc Ho Es) as (rs' & na' & H' & E' & Rf').
  exists rs', s', rc, fired. split; [reflexivity|]. split; [exact E'|].
  split; [exists na', H'; exact Rf'|]. split; [apply Inv_HeapInv; assumption|].
  split; [assumption|]. apply (step_below sc s o s' rc fired Iv B RB Hsc Ho Es).
Qed.

(* ---------- the observers ---------- *)
Lemma peek_walk_eq : forall fuel rs r i index,
  peek_walk fuel rs r i index =
  if i <=? 0 then Some r else
  match fuel with
  | O => None
  | S f =>
      match mget (mem rs) (r * NODES + Z.land (Z.shiftr index (i * SPLIT_BITS)) (NODES - 1)) with
      | CNode n => peek_walk f rs n (i - 1) index
      | _ => None
      end
  end.
Proof. intros. destruct fuel; reflexivity. Qed.

Lemma peek_walk_path : forall fuel rs na D i index,
  Shape rs na D -> 0 <= i <= rdepth rs -> i <= Z.of_nat fuel ->
  (forall l, 0 <= l <= i -> D l (index / P (l + 1)) = true) ->
  peek_walk fuel rs (na i (index / P (i + 1))) i index = Some (na 0 (index / P (0 + 1))).
Proof.
  induction fuel as [|f IH]; intros rs na D i index S Hi Hf Hp; rewrite peek_walk_eq.
  - assert (i = 0) by lia. subst i. reflexivity.
  - destruct (Z.leb_spec i 0) as [L|L].
    + assert (i = 0) by lia. subst i. reflexivity.
    + rewrite bits_digit by lia.
      rewrite (sh_cells _ _ _ S i _ _ ltac:(lia) (Hp i ltac:(lia)) (digit_range index i)).
      rewrite child_prefix by lia. rewrite (Hp (i - 1)) by lia.
      apply (IH rs na D (i - 1) index S); [lia|lia|]. intros l Hl. apply Hp. lia.
Qed.

Lemma rslot_sget : forall rs s na H i, Ref rs s na H -> 1 <= i <= H -> rslot rs i = sget s i.
Proof.
  intros rs s na H i ((S & B1 & B2) & R & N) Hi. pose proof (sh_depth _ _ _ S) as Dp.
  unfold rslot, slot_addr. rewrite shiftr_P by lia.
  replace (i <? P (rdepth rs + 1)) with true by (symmetry; apply Z.ltb_lt; lia). cbn [negb].
  rewrite (sh_root _ _ _ S).
  assert (E0 : i / P (rdepth rs + 1) = 0) by (apply Z.div_small; lia).
  rewrite <- E0.
  rewrite (peek_walk_path (Z.to_nat (rdepth rs)) rs na (domH H) (rdepth rs) i S ltac:(lia) (to_nat_fuel _ (proj1 Dp))).
  - rewrite land_mod. change (na 0 (i / P (0 + 1)) * NODES + i mod NODES) with (p_of na i).
    rewrite (r_cells _ _ _ _ R i ltac:(lia) (leaf_le i H ltac:(lia))).
    destruct (sget s i); reflexivity.
  - intros l Hl. apply domH_path; lia.
Qed.

Lemma zrange_in : forall n lo x, In x (zrange lo n) -> lo <= x < lo + Z.of_nat n.
Proof.
  induction n as [|n IH]; intros lo x Hx; cbn [zrange] in Hx; [contradiction|].
  destruct Hx as [<-|Hx]; [lia|]. apply IH in Hx. lia.
Qed.

Lemma Ref_dump : forall rs s na H, Ref rs s na H -> rdump_slots rs = dump_slots s.
Proof.
  intros rs s na H Rf. destruct (Ref_fields _ _ _ _ Rf) as (En & _).
  unfold rdump_slots, dump_slots. rewrite <- En. apply map_ext_in.
  intros x Hx. apply zrange_in in Hx. apply (rslot_sget rs s na H x Rf).
  destruct Rf as (_ & _ & N). lia.
Qed.

Lemma Ref_obs : forall rs s na H, Ref rs s na H -> robs rs = hobs s.
Proof.
  intros rs s na H Rf. unfold robs, hobs. rewrite (Ref_dump rs s na H Rf).
  destruct (Ref_fields _ _ _ _ Rf) as (En & Ed & _ & Eo & _). rewrite En, Ed, Eo. reflexivity.
Qed.

(* the executable abstraction function computes, pointwise, the flat map of the heap state *)
Lemma flat_fold_find : forall (f : Z -> option id) n lo m0 p, 1 <= lo ->
  PM.find p (fold_left (fun m i => match i, f i with
                                   | Zpos q, Some t => PM.add q t m
                                   | _, _ => m
                                   end) (zrange lo n) m0) =
  if (lo <=? Zpos p) && (Zpos p <? lo + Z.of_nat n)
  then match f (Zpos p) with Some t => Some t | None => PM.find p m0 end
  else PM.find p m0.
Proof.
  induction n as [|n IH]; intros lo m0 p Hlo.
  - cbn [zrange fold_left]. destruct (Z.leb_spec lo (Z.pos p)), (Z.ltb_spec (Z.pos p) (lo + Z.of_nat 0)); try reflexivity. exfalso; lia.
  - cbn [zrange fold_left]. rewrite IH by lia.
    destruct lo as [|q|q]; try lia.
    destruct (Z.leb_spec (Z.pos q + 1) (Z.pos p)), (Z.ltb_spec (Z.pos p) (Z.pos q + 1 + Z.of_nat n)),
             (Z.leb_spec (Z.pos q) (Z.pos p)), (Z.ltb_spec (Z.pos p) (Z.pos q + Z.of_nat (S n))); try (exfalso; lia); cbn [andb].
    + destruct (f (Z.pos p)); [reflexivity|]. destruct (f (Z.pos q)); [|reflexivity].
      apply PM.gso. intro; subst; lia.
    + destruct (f (Z.pos q)); [|reflexivity]. apply PM.gso. intro; subst; lia.
    + assert (p = q) by lia. subst q. destruct (f (Z.pos p)); [apply PM.gss|reflexivity].
    + destruct (f (Z.pos q)); [|reflexivity]. apply PM.gso. intro; subst; lia.
Qed.

Lemma flat_of_slots : forall rs s na H, Ref rs s na H -> (forall i, num s < i -> sget s i = None) ->
  forall p, PM.find p (flat_of rs) = PM.find p (slots s).
Proof.
  intros rs s na H Rf V p. unfold flat_of. rewrite flat_fold_find by lia.
  destruct (Ref_fields _ _ _ _ Rf) as (En & _). rewrite <- En. rewrite PM.gempty.
  rewrite <- sget_pos.
  destruct (Z.leb_spec 1 (Z.pos p)); [|lia]. cbn [andb].
  destruct (Z.ltb_spec (Z.pos p) (1 + Z.of_nat (Z.to_nat (num s)))) as [L|L].
  - rewrite (rslot_sget rs s na H (Z.pos p) Rf) by (destruct Rf as (_ & _ & N); lia).
    destruct (sget s (Z.pos p)); reflexivity.
  - symmetry. apply V. lia.
Qed.

(* ---------- (c) every history: the radix store and the flat store produce the same trace ---------- *)
Lemma ops_below_cons : forall b o ops, ops_below b (o :: ops) -> op_below b o /\ ops_below b ops.
Proof.
  intros b o ops Hb. split; [apply (Hb o); left; reflexivity|]. intros x Hx. apply Hb. right. assumption.
Qed.

Lemma trace_refines : forall sc, scripts_below POP_BOUND sc ->
  forall ops rs s, ops_below POP_BOUND ops -> Refines rs s -> HeapInv s -> batch s = [] -> RegBelow POP_BOUND s ->
  rtrace sc ops rs = htrace sc ops s /\ length (htrace sc ops s) = length ops.
Proof.
  intros sc Hsc. induction ops as [|o ops IH]; intros rs s Hops Rf I B RB; [split; reflexivity|].
  destruct (ops_below_cons _ _ _ Hops) as [Ho Hops'].
  destruct (radix_step_refines sc rs s o Rf I B RB Hsc Ho) as (rs' & s' & rc & fired & Es & Er & Rf' & I' & B' & RB').
  cbn [rtrace htrace]. rewrite Es, Er.
  destruct (IH rs' s' Hops' Rf' I' B' RB') as [T L]. cbn [length]. rewrite T, L.
  destruct Rf' as (na' & H' & Rf').
  rewrite (Ref_obs rs' s' na' H' Rf'). split; reflexivity.
Qed.

Lemma Refines_init : Refines rinit init.
Proof. exists na0, 0. exact Ref_init. Qed.

(* for every history in which all timer ids are below POP_BOUND = 2^30 (hence every population is) *)
Theorem radix_refines_heap : forall sc ops, scripts_below POP_BOUND sc -> ops_below POP_BOUND ops ->
  rtrace sc ops rinit = htrace sc ops init /\ length (htrace sc ops init) = length ops /\
  exists rs s, rrun_ops sc ops rinit = ROk rs /\ run_ops sc ops init = Ok s /\
               Refines rs s /\ HeapInv s /\ batch s = [] /\
               (forall p, PM.find p (flat_of rs) = PM.find p (slots s)) /\ tm (hs rs) = tm s.
Proof.
  intros sc ops Hsc Hops.
  destruct (trace_refines sc Hsc ops rinit init Hops Refines_init (Inv_HeapInv _ Inv_init) eq_refl
              (RegBelow_init POP_BOUND)) as [T L].
  split; [exact T|]. split; [exact L|].
  assert (G : forall ops rs s, ops_below POP_BOUND ops -> Refines rs s -> HeapInv s -> batch s = [] ->
            RegBelow POP_BOUND s ->
            exists rs' s', rrun_ops sc ops rs = ROk rs' /\ run_ops sc ops s = Ok s' /\
                           Refines rs' s' /\ HeapInv s' /\ batch s' = []).
  { clear ops Hops T L. induction ops as [|o ops IH]; intros rs s Hops Rf I B RB.
    - exists rs, s. auto.
    - destruct (ops_below_cons _ _ _ Hops) as [Ho Hops'].
      destruct (radix_step_refines sc rs s o Rf I B RB Hsc Ho) as (rs' & s' & rc & fired & Es & Er & Rf' & I' & B' & RB').
      destruct (IH rs' s' Hops' Rf' I' B' RB') as (rs2 & s2 & E1 & E2 & K).
      exists rs2, s2. unfold rrun_ops, run_ops in *. cbn [fold_left]. rewrite Es, Er. cbn [fst]. auto. }
  destruct (G ops rinit init Hops Refines_init (Inv_HeapInv _ Inv_init) eq_refl (RegBelow_init POP_BOUND))
    as (rs & s & E1 & E2 & Rf & I & B).
  exists rs, s. split; [assumption|]. split; [assumption|]. split; [assumption|]. split; [assumption|].
  split; [assumption|]. destruct Rf as (na & H & Rf). split.
  - apply (flat_of_slots rs s na H Rf).
    pose proof (i_vacant s (HeapInv_Inv s I)) as V. exact V.
  - symmetry. destruct Rf as (_ & R & _). apply (Rel_fields _ _ _ _ R).
Qed.

(* ---------- (b) the invariant ---------- *)
Lemma Refines_RInv : forall rs s, Refines rs s -> HeapInv s -> RInv rs.
Proof.
  intros rs s (na & H & SH & R & N & HB) I. apply HeapInv_Inv in I.
  destruct (Rel_fields _ _ _ _ R) as (En & Ed & _).
  destruct (i_depth s I) as (D1 & D2 & D3). pose proof (i_num s I) as N0.
  exists na, H. split; [assumption|]. rewrite <- En, <- Ed. split; [lia|]. split; [assumption|exact D3].
Qed.

Theorem radix_invariant : forall sc ops, scripts_below POP_BOUND sc -> ops_below POP_BOUND ops ->
  exists rs, rrun_ops sc ops rinit = ROk rs /\ RInv rs.
Proof.
  intros sc ops Hsc Hops. destruct (radix_refines_heap sc ops Hsc Hops) as (_ & _ & rs & s & E & _ & Rf & I & _).
  exists rs. split; [assumption|]. apply (Refines_RInv rs s); assumption.
Qed.

(* nodes reachable from timer_root = nodes calloc'ed and not freed (+ first_leaf), without ghosts *)
Lemma reach_of_dom : forall rs na H, ShapeH rs na H ->
  forall k l q, l = rdepth rs - Z.of_nat k -> 0 <= l -> domH H l q = true -> reach rs l (na l q).
Proof.
  intros rs na H (S & B1 & B2). pose proof (sh_depth _ _ _ S) as Dp.
  induction k as [|k IH]; intros l q El Hl Dq.
  - assert (E : l = rdepth rs) by lia. clear El. subst l.
    rewrite (domH_top H (rdepth rs) q (proj1 Dp) ltac:(lia) Dq). apply reach_root. apply (sh_root _ _ _ S).
  - assert (Dpar : domH H (l + 1) (q / NODES) = true).
    { apply domH_closed; [lia|]. replace (l + 1 - 1) with l by lia. assumption. }
    pose proof (IH (l + 1) (q / NODES) ltac:(lia) ltac:(lia) Dpar) as Rp.
    replace l with (l + 1 - 1) at 1 by lia.
    apply (reach_child rs (l + 1) (na (l + 1) (q / NODES)) (q mod NODES)); [assumption|lia|unfold NODES; lia|].
    rewrite (sh_cells _ _ _ S (l + 1) (q / NODES) (q mod NODES) ltac:(lia) Dpar ltac:(unfold NODES; lia)).
    replace (l + 1 - 1) with l by lia.
    replace (q / NODES * NODES + q mod NODES) with q by (unfold NODES; lia).
    rewrite Dq. reflexivity.
Qed.

Lemma dom_of_reach : forall rs na H, ShapeH rs na H ->
  forall l n, reach rs l n -> 0 <= l <= rdepth rs /\ exists q, domH H l q = true /\ n = na l q.
Proof.
  intros rs na H (S & B1 & B2) l n Rn. pose proof (sh_depth _ _ _ S) as Dp.
  induction Rn as [r Er|l n j k Rn IH Hl Hj Ek].
  - split; [lia|]. exists 0. split; [apply domH_00; lia|]. rewrite (sh_root _ _ _ S) in Er. congruence.
  - destruct IH as (Hl' & q & Dq & ->). split; [lia|].
    rewrite (sh_cells _ _ _ S l q j ltac:(lia) Dq Hj) in Ek.
    destruct (domH H (l - 1) (q * NODES + j)) eqn:Dc; [|discriminate].
    exists (q * NODES + j). split; [assumption|congruence].
Qed.

Theorem reach_iff_live : forall rs, RInv rs ->
  forall n, live_true rs n <-> n <> FIRST_LEAF /\ exists l, reach rs l n.
Proof.
  intros rs (na & H & SH & _) n. pose proof SH as (S & _). split.
  - intros L. split; [intro; subst n; exact (sh_first_dead _ _ _ S L)|].
    destruct (sh_only _ _ _ S n L) as (l & q & Hl & Dq & <-). exists l.
    apply (reach_of_dom rs na H SH (Z.to_nat (rdepth rs - l))); [rewrite Z2Nat.id; lia|lia|assumption].
  - intros (N1 & l & Rn). destruct (dom_of_reach rs na H SH l n Rn) as (Hl & q & Dq & ->).
    apply (sh_live _ _ _ S l q Hl Dq). intros [-> ->]. apply N1. apply (sh_first _ _ _ S).
Qed.

(* ---------- (d) the slot pointer used after remove_level is never dangling ---------- *)
Theorem radix_unregister_no_dangling : forall rs s t, Refines rs s -> HeapInv s -> 1 <= tidx s t ->
  exists rs' s', runregister rs t = ROk rs' /\ unregister s t = Ok s' /\ Refines rs' s' /\ HeapInv s'.
Proof.
  intros rs s t (na & H & Rf) I T.
  destruct (heap_unregister_ok s t I T) as (s' & E & I' & _).
  destruct (runregister_sim rs s na H t s' Rf E) as (rs' & H' & E' & Rf').
  exists rs', s'. split; [assumption|]. split; [assumption|]. split; [exists na, H'; exact Rf'|assumption].
Qed.

Theorem radix_no_error : forall sc ops e, scripts_below POP_BOUND sc -> ops_below POP_BOUND ops ->
  rrun_ops sc ops rinit <> RCrash e.
Proof.
  intros sc ops e Hsc Hops. destruct (radix_invariant sc ops Hsc Hops) as (rs & E & _). rewrite E. discriminate.
Qed.

(* ---------- (e) no leak; deinit ---------- *)
Lemma RInv_empty : forall rs, RInv rs -> rnum rs = 0 -> rdepth rs = 0 /\ all_freed rs.
Proof.
  intros rs (na & H & SH & N & HB & Dm) E0. pose proof (sh_depth _ _ _ (proj1 SH)) as Dp.
  assert (D0 : rdepth rs = 0).
  { destruct (Z.eq_dec (rdepth rs) 0); [assumption|].
    pose proof (P_pos (rdepth rs) (proj1 Dp)). specialize (Dm ltac:(lia)). lia. }
  split; [assumption|]. apply (shape_depth0_all_freed rs na H SH D0).
Qed.

Theorem radix_no_leak : forall sc ops, scripts_below POP_BOUND sc -> ops_below POP_BOUND ops -> exists rs,
  rrun_ops sc ops rinit = ROk rs /\ RInv rs /\
  (forall n, live_true rs n <-> n <> FIRST_LEAF /\ exists l, reach rs l n) /\
  (rnum rs = 0 -> rdepth rs = 0 /\ all_freed rs) /\
  exists rs', rdeinit rs = Good rs' /\ rdepth rs' = 0 /\ all_freed rs' /\ mget (mem rs') ROOT_CELL = CNull.
Proof.
  intros sc ops Hsc Hops. destruct (radix_invariant sc ops Hsc Hops) as (rs & E & I). exists rs.
  split; [assumption|]. split; [assumption|]. split; [apply reach_iff_live; assumption|].
  split; [apply RInv_empty; assumption|].
  destruct I as (na & H & SH & _).
  destruct (rdeinit_spec rs na H SH) as (rs' & E' & D' & A' & M' & _).
  exists rs'. auto.
Qed.

(* ---------- int arithmetic ---------- *)
(* the tree never has more than five levels (the guard of the growth test) *)
Lemma radix_depth_le_4 : forall rs, RInv rs -> 0 <= rdepth rs <= 4.
Proof. intros rs (na & H & (S & _) & _). apply (sh_depth _ _ _ S). Qed.

(* the guarded growth test never executes an undefined shift, whatever the depth and the index *)
Lemma grow_test_defined : forall d index, 0 <= d -> exists b, grow_test d index = Good b.
Proof.
  intros d index Hd. unfold grow_test. change (8 * 4) with 32.
  destruct (Z.ltb_spec ((d + 1) * SPLIT_BITS) 32) as [L|L]; [|eexists; reflexivity].
  rewrite shr_int_ok by (unfold SPLIT_BITS in *; lia). eexists; reflexivity.
Qed.

(* what remains of the int range: push_down computes 2 * index, so an index >= 2^30 overflows *)
Lemma push_down_overflow_refuted : forall f rs index i, POP_BOUND <= index ->
  rpush_down (S f) rs index i = Bad EOverflow.
Proof.
  intros f rs index i H. rewrite rpush_down_eq. unfold chk_int.
  replace (2 * index <=? INT_MAX) with false by (symmetry; apply Z.leb_gt; unfold POP_BOUND, INT_MAX in *; lia).
  reflexivity.
Qed.

(* the depth part of the monitor radix_mon holds in every reachable state of the model (the node
   counts L = A - X + 1 are compared with the implementation by the correspondence stage only) *)
Lemma radix_depth_mon_ok : forall rs, RInv rs -> depth_mon (rnum rs) (rdepth rs) = true.
Proof.
  intros rs (na & H & (S & B1 & B2) & N & HB & Dm). pose proof (sh_depth _ _ _ S) as Dp.
  unfold depth_mon. rewrite cap_P.
  replace (0 <=? rdepth rs) with true by (symmetry; apply Z.leb_le; lia).
  replace (0 <=? rnum rs) with true by (symmetry; apply Z.leb_le; lia).
  replace (rnum rs <? P (rdepth rs + 1)) with true by (symmetry; apply Z.ltb_lt; lia).
  cbn [andb]. destruct (Z.eqb_spec (rdepth rs) 0) as [E|NE]; [reflexivity|].
  cbn [orb]. apply Z.leb_le. apply Dm. lia.
Qed.
