(* RadixMem.v -- the memory of RadixModel: loads, stores, and what they do to Shape / Rel. *)
From Coq Require Import List ZArith Bool Lia FMapPositive.
From Ivv Require Import Timer.HeapModel Timer.HeapSpec Timer.HeapBase Timer.RadixModel Timer.RadixSpec Timer.RadixArith.
Import ListNotations.
Local Open Scope Z_scope.

Ltac Zify.zify_post_hook ::= Z.div_mod_to_equations.

(* ---------- cells ---------- *)
Lemma mget_mset_same : forall m a c, 0 < a -> mget (mset m a c) a = c.
Proof.
  intros m a c H. destruct a as [|p|p]; try lia. unfold mget, mset. rewrite PM.gss. reflexivity.
Qed.

Lemma mget_mset_other : forall m a a' c, a <> a' -> mget (mset m a c) a' = mget m a'.
Proof.
  intros m a a' c H. destruct a as [|p|p]; try reflexivity.
  destruct a' as [|p'|p']; try reflexivity. unfold mget, mset.
  rewrite PM.gso by congruence. reflexivity.
Qed.

Lemma addr_div : forall n j, 0 <= j < NODES -> (n * NODES + j) / NODES = n.
Proof. intros n j H. unfold NODES in *. lia. Qed.

Lemma addr_mod : forall n j, 0 <= j < NODES -> (n * NODES + j) mod NODES = j.
Proof. intros n j H. unfold NODES in *. lia. Qed.

Lemma addr_inj : forall n j n' j', 0 <= j < NODES -> 0 <= j' < NODES ->
  n * NODES + j = n' * NODES + j' -> n = n' /\ j = j'.
Proof. intros. unfold NODES in *. lia. Qed.

(* ---------- access checks ---------- *)
Lemma node_check_first : forall rs, node_check rs FIRST_LEAF = None.
Proof. reflexivity. Qed.

Lemma node_check_live : forall rs n, live_true rs n -> node_check rs n = None.
Proof.
  intros rs n H. unfold node_check. destruct (n =? FIRST_LEAF); [reflexivity|].
  destruct n as [|p|p]; try contradiction. cbn in H. rewrite H. reflexivity.
Qed.

Lemma load_ok : forall rs a, 0 < a -> node_check rs (a / NODES) = None -> load rs a = Good (mget (mem rs) a).
Proof.
  intros rs a H C. unfold load. destruct (Z.leb_spec a 0); [lia|]. rewrite C. reflexivity.
Qed.

Lemma store_ok : forall rs a c, 0 < a -> node_check rs (a / NODES) = None ->
  store rs a c = Good (set_mem rs (mset (mem rs) a c)).
Proof.
  intros rs a c H C. unfold store. destruct (Z.leb_spec a 0); [lia|]. rewrite C. reflexivity.
Qed.

(* ---------- Shape: nodes of the tree are accessible ---------- *)
Section ShapeFacts.
Variables (rs : rstate) (na : Z -> Z -> Z) (D : Z -> Z -> bool).
Hypothesis S : Shape rs na D.

Lemma shape_node_pos : forall l q, 0 <= l <= rdepth rs -> D l q = true -> 1 <= na l q < next rs.
Proof.
  intros l q Hl Hd.
  destruct (Z.eq_dec l 0) as [->|Nl].
  - destruct (Z.eq_dec q 0) as [->|Nq].
    + rewrite (sh_first _ _ _ S). pose proof (sh_next _ _ _ S). unfold FIRST_LEAF. lia.
    + destruct (sh_live _ _ _ S 0 q Hl Hd ltac:(lia)). lia.
  - destruct (sh_live _ _ _ S l q Hl Hd ltac:(lia)). lia.
Qed.

Lemma shape_node_check : forall l q, 0 <= l <= rdepth rs -> D l q = true -> node_check rs (na l q) = None.
Proof.
  intros l q Hl Hd.
  destruct (Z.eq_dec l 0) as [->|Nl].
  - destruct (Z.eq_dec q 0) as [->|Nq].
    + rewrite (sh_first _ _ _ S). reflexivity.
    + apply node_check_live. apply (sh_live _ _ _ S 0 q Hl Hd). lia.
  - apply node_check_live. apply (sh_live _ _ _ S l q Hl Hd). lia.
Qed.

Lemma shape_load : forall l q j, 0 <= l <= rdepth rs -> D l q = true -> 0 <= j < NODES ->
  load rs (na l q * NODES + j) = Good (mget (mem rs) (na l q * NODES + j)).
Proof.
  intros l q j Hl Hd Hj. pose proof (shape_node_pos l q Hl Hd).
  apply load_ok; [unfold NODES in *; lia|].
  rewrite addr_div by assumption. apply shape_node_check; assumption.
Qed.

Lemma shape_store : forall l q j c, 0 <= l <= rdepth rs -> D l q = true -> 0 <= j < NODES ->
  store rs (na l q * NODES + j) c = Good (set_mem rs (mset (mem rs) (na l q * NODES + j) c)).
Proof.
  intros l q j c Hl Hd Hj. pose proof (shape_node_pos l q Hl Hd).
  apply store_ok; [unfold NODES in *; lia|].
  rewrite addr_div by assumption. apply shape_node_check; assumption.
Qed.

Lemma shape_root_cell : ROOT_CELL = na 0 0 * NODES + 0.
Proof. rewrite (sh_first _ _ _ S). reflexivity. Qed.

Lemma shape_load_root : load rs ROOT_CELL = Good (CNode (na (rdepth rs) 0)).
Proof.
  rewrite load_ok; [rewrite (sh_root _ _ _ S); reflexivity|reflexivity|reflexivity].
Qed.

(* distinct (node, offset) pairs of the tree have distinct addresses *)
Lemma shape_addr_inj : forall l q j l' q' j',
  0 <= l <= rdepth rs -> D l q = true -> 0 <= j < NODES ->
  0 <= l' <= rdepth rs -> D l' q' = true -> 0 <= j' < NODES ->
  na l q * NODES + j = na l' q' * NODES + j' -> l = l' /\ q = q' /\ j = j'.
Proof.
  intros l q j l' q' j' Hl Hd Hj Hl' Hd' Hj' E.
  destruct (addr_inj _ _ _ _ Hj Hj' E) as [En Ej].
  destruct (sh_inj _ _ _ S l q l' q' Hl Hd Hl' Hd' En). auto.
Qed.
End ShapeFacts.

(* Shape looks only at mem, live, next and the depth *)
Lemma Shape_ext : forall rs rs' na D,
  mem rs' = mem rs -> live rs' = live rs -> next rs' = next rs -> rdepth rs' = rdepth rs ->
  Shape rs na D -> Shape rs' na D.
Proof.
  intros rs rs' na D Em El En Ed S.
  destruct S as [S1 S2 S3 S4 S5 S6 S7 S8 S9 S10 S11 S12 S13 S14].
  constructor; unfold live_true in *; rewrite ?Em, ?El, ?En, ?Ed; try assumption.
Qed.

Lemma Shape_set_hs : forall rs h na D, depth h = rdepth rs -> Shape rs na D -> Shape (set_hs rs h) na D.
Proof. intros rs h na D E S. apply (Shape_ext rs); try reflexivity; assumption. Qed.

(* a store into a leaf cell other than timer_root keeps the shape *)
Lemma Shape_leaf_store : forall rs na D q j c,
  Shape rs na D -> 0 <= rdepth rs -> D 0 q = true -> 0 <= j < NODES -> ~ (q = 0 /\ j = 0) ->
  Shape (set_mem rs (mset (mem rs) (na 0 q * NODES + j) c)) na D.
Proof.
  intros rs na D q j c S Hd Dq Hj N.
  pose proof (shape_node_pos rs na D S 0 q ltac:(lia) Dq) as Pq.
  destruct S as [S1 S2 S3 S4 S5 S6 S7 S8 S9 S10 S11 S12 S13 S14].
  constructor; try assumption; unfold rdepth in *; cbn [hs set_mem mem next] in *.
  - rewrite mget_mset_other; [assumption|].
    intro E. unfold ROOT_CELL in E. rewrite <- S4 in E.
    replace (na 0 0 * NODES) with (na 0 0 * NODES + 0) in E by lia.
    assert (Z0 : 0 <= 0 < NODES) by (unfold NODES; lia).
    destruct (addr_inj _ _ _ _ Hj Z0 E) as [E1 E2].
    destruct (S8 0 q 0 0 ltac:(lia) Dq ltac:(lia) S5 E1). lia.
  - intros l q' j' Hl Hd' Hj'. rewrite mget_mset_other; [apply S9; assumption|].
    intro E. destruct (addr_inj _ _ _ _ Hj Hj' E) as [E1 E2].
    destruct (S8 0 q l q' ltac:(lia) Dq ltac:(lia) Hd' E1). lia.
  - intros a Ha. rewrite mget_mset_other; [apply S13; assumption|].
    unfold NODES in *. lia.
Qed.

(* ---------- ShapeH: slot addresses ---------- *)
Section SlotFacts.
Variables (rs : rstate) (na : Z -> Z -> Z) (H : Z).
Hypothesis SH : ShapeH rs na H.

Let S : Shape rs na (domH H) := proj1 SH.

Lemma slot_leaf_dom : forall i, 0 <= i -> i / NODES * NODES <= H -> domH H 0 (i / NODES) = true.
Proof.
  intros i Hi Hh. apply domH_true. change (P (0 + 1)) with NODES. split; [unfold NODES; lia|assumption].
Qed.

Lemma slot_leaf_dom_le : forall i, 0 <= i <= H -> domH H 0 (i / NODES) = true.
Proof. intros i Hi. apply slot_leaf_dom; unfold NODES; lia. Qed.

Lemma slot_node_check : forall i, 0 <= i -> i / NODES * NODES <= H -> node_check rs (p_of na i / NODES) = None.
Proof.
  intros i Hi Hh. unfold p_of. rewrite addr_div by (unfold NODES; lia).
  apply (shape_node_check rs na (domH H) S 0); [pose proof (sh_depth _ _ _ S); lia|].
  apply slot_leaf_dom; assumption.
Qed.

Lemma slot_pos : forall i, 0 <= i -> i / NODES * NODES <= H -> 0 < p_of na i.
Proof.
  intros i Hi Hh. unfold p_of.
  pose proof (shape_node_pos rs na (domH H) S 0 (i / NODES) ltac:(pose proof (sh_depth _ _ _ S); lia)
                (slot_leaf_dom i Hi Hh)).
  unfold NODES in *. lia.
Qed.

Lemma slot_load : forall i, 0 <= i -> i / NODES * NODES <= H -> load rs (p_of na i) = Good (mget (mem rs) (p_of na i)).
Proof. intros i Hi Hh. apply load_ok; [apply slot_pos|apply slot_node_check]; assumption. Qed.

Lemma slot_store : forall i c, 0 <= i -> i / NODES * NODES <= H ->
  store rs (p_of na i) c = Good (set_mem rs (mset (mem rs) (p_of na i) c)).
Proof. intros i c Hi Hh. apply store_ok; [apply slot_pos|apply slot_node_check]; assumption. Qed.

(* (a) distinct indices have distinct slots *)
Lemma slot_inj : forall i i', 0 <= i -> i / NODES * NODES <= H -> 0 <= i' -> i' / NODES * NODES <= H ->
  p_of na i = p_of na i' -> i = i'.
Proof.
  intros i i' Hi Hh Hi' Hh' E. unfold p_of in E.
  pose proof (sh_depth _ _ _ S) as Dp.
  destruct (shape_addr_inj rs na (domH H) S 0 (i / NODES) (i mod NODES) 0 (i' / NODES) (i' mod NODES)
              ltac:(lia) (slot_leaf_dom i Hi Hh) ltac:(unfold NODES; lia)
              ltac:(lia) (slot_leaf_dom i' Hi' Hh') ltac:(unfold NODES; lia) E) as (_ & E1 & E2).
  unfold NODES in *. lia.
Qed.

Lemma slot_mod : forall i, p_of na i mod NODES = i mod NODES.
Proof. intros i. unfold p_of. apply addr_mod. unfold NODES. lia. Qed.

Lemma slot_not_root : forall i, 1 <= i -> i / NODES * NODES <= H -> p_of na i <> ROOT_CELL.
Proof.
  intros i Hi Hh E. rewrite (shape_root_cell rs na (domH H) S) in E.
  pose proof (sh_depth _ _ _ S) as Dp. unfold p_of in E.
  destruct (shape_addr_inj rs na (domH H) S 0 (i / NODES) (i mod NODES) 0 0 0
              ltac:(lia) (slot_leaf_dom i ltac:(lia) Hh) ltac:(unfold NODES; lia)
              ltac:(lia) (sh_firstD _ _ _ S) ltac:(unfold NODES; lia) E) as (_ & E1 & E2).
  unfold NODES in *. lia.
Qed.

(* a store into a slot keeps the shape *)
Lemma ShapeH_slot_store : forall i c, 1 <= i -> i / NODES * NODES <= H ->
  ShapeH (set_mem rs (mset (mem rs) (p_of na i) c)) na H.
Proof.
  intros i c Hi Hh. destruct SH as (S0 & B1 & B2). split; [|split; assumption].
  unfold p_of. apply Shape_leaf_store; try assumption.
  - apply (sh_depth _ _ _ S0).
  - apply slot_leaf_dom; [lia|assumption].
  - unfold NODES; lia.
  - unfold NODES in *. lia.
Qed.
End SlotFacts.

Lemma ShapeH_set_hs : forall rs h na H, depth h = rdepth rs -> ShapeH rs na H -> ShapeH (set_hs rs h) na H.
Proof.
  intros rs h na H E (S & B). split; [apply Shape_set_hs; assumption|].
  unfold rdepth in *. cbn [hs set_hs]. rewrite E. assumption.
Qed.

(* ---------- Rel ---------- *)
Local Transparent sget sset tget set_idx set_exp get_node remove_level.

Lemma Rel_fields : forall rs s na H, Rel rs s na H ->
  num s = rnum rs /\ depth s = rdepth rs /\ tm s = tm (hs rs) /\ batch s = batch (hs rs) /\
  numobjs s = numobjs (hs rs) /\ now s = now (hs rs).
Proof.
  intros rs s na H R. destruct R as [E _ _]. rewrite <- E. repeat split; reflexivity.
Qed.

Lemma Rel_tidx : forall rs s na H t, Rel rs s na H -> tidx (hs rs) t = tidx s t.
Proof. intros rs s na H t R. apply tidx_ext. symmetry. apply (Rel_fields _ _ _ _ R). Qed.

Lemma Rel_texp : forall rs s na H t, Rel rs s na H -> texp (hs rs) t = texp s t.
Proof. intros rs s na H t R. apply texp_ext. symmetry. apply (Rel_fields _ _ _ _ R). Qed.

Lemma Rel_ptr_gt : forall rs s na H a b, Rel rs s na H -> ptr_gt (hs rs) a b = ptr_gt s a b.
Proof. intros. unfold ptr_gt. rewrite !(Rel_texp rs s na H) by assumption. reflexivity. Qed.

(* updates of the non-slot part commute *)
Lemma Rel_upd : forall (f : tstate -> tstate) rs s na H,
  (forall h m, f (set_slots h m) = set_slots (f h) m) ->
  Rel rs s na H -> Rel (set_hs rs (f (hs rs))) (f s) na H.
Proof.
  intros f rs s na H C R. destruct R as [E Rc Rv].
  assert (Es : f s = set_slots (f (hs rs)) (slots s)) by (rewrite <- C, E; reflexivity).
  constructor.
  - cbn [hs set_hs]. rewrite Es. reflexivity.
  - intros i Hi Hh. cbn [mem set_hs]. rewrite Rc by assumption. rewrite Es. reflexivity.
  - intros i Hi. rewrite Es. apply (Rv i Hi).
Qed.

Lemma set_idx_comm : forall t i h m, set_idx (set_slots h m) t i = set_slots (set_idx h t i) m.
Proof. intros. unfold set_idx, tget. cbn [tm set_slots]. destruct (PM.find t (tm h)); reflexivity. Qed.

Lemma set_exp_comm : forall t e h m, set_exp (set_slots h m) t e = set_slots (set_exp h t e) m.
Proof. intros. unfold set_exp, tget. cbn [tm set_slots]. destruct (PM.find t (tm h)); reflexivity. Qed.

Lemma Rel_set_idx : forall rs s na H t i, Rel rs s na H -> Rel (rset_idx rs t i) (set_idx s t i) na H.
Proof. intros. apply (Rel_upd (fun h => set_idx h t i)); [intros; apply set_idx_comm|assumption]. Qed.

Lemma Rel_set_exp : forall rs s na H t e, Rel rs s na H -> Rel (set_hs rs (set_exp (hs rs) t e)) (set_exp s t e) na H.
Proof. intros. apply (Rel_upd (fun h => set_exp h t e)); [intros; apply set_exp_comm|assumption]. Qed.

Lemma Rel_set_num : forall rs s na H n, Rel rs s na H -> Rel (rset_num rs n) (set_num s n) na H.
Proof. intros. apply (Rel_upd (fun h => set_num h n)); [reflexivity|assumption]. Qed.

Lemma Rel_set_depth : forall rs s na H n, Rel rs s na H -> Rel (rset_depth rs n) (set_depth s n) na H.
Proof. intros. apply (Rel_upd (fun h => set_depth h n)); [reflexivity|assumption]. Qed.

Lemma Rel_set_numobjs : forall rs s na H n, Rel rs s na H ->
  Rel (set_hs rs (set_numobjs (hs rs) n)) (set_numobjs s n) na H.
Proof. intros. apply (Rel_upd (fun h => set_numobjs h n)); [reflexivity|assumption]. Qed.

Lemma Rel_set_batch : forall rs s na H b, Rel rs s na H ->
  Rel (set_hs rs (set_batch (hs rs) b)) (set_batch s b) na H.
Proof. intros. apply (Rel_upd (fun h => set_batch h b)); [reflexivity|assumption]. Qed.

Lemma Rel_set_now : forall rs s na H n, Rel rs s na H ->
  Rel (set_hs rs (set_now (hs rs) n)) (set_now s n) na H.
Proof. intros. apply (Rel_upd (fun h => set_now h n)); [reflexivity|assumption]. Qed.

Local Opaque sget sset tget set_idx set_exp get_node remove_level.

Lemma sset_as_set_slots : forall s i v, exists m, sset s i v = set_slots s m.
Proof.
  intros. Local Transparent sset. unfold sset. destruct i; try (exists (slots s); destruct s; reflexivity).
  eexists; reflexivity. Local Opaque sset.
Qed.

(* reading / writing a slot through its address *)
Lemma Rel_load : forall rs s na H i, ShapeH rs na H -> Rel rs s na H -> 1 <= i -> i / NODES * NODES <= H ->
  load rs (p_of na i) = Good (cell_of (sget s i)).
Proof.
  intros rs s na H i SH R Hi Hh. rewrite (slot_load rs na H SH) by (assumption || lia).
  rewrite (r_cells _ _ _ _ R) by assumption. reflexivity.
Qed.

Lemma Rel_store : forall rs s na H i v, ShapeH rs na H -> Rel rs s na H -> 1 <= i <= H ->
  Rel (set_mem rs (mset (mem rs) (p_of na i) (cell_of v))) (sset s i v) na H.
Proof.
  intros rs s na H i v SH R Hi.
  assert (Hh : i / NODES * NODES <= H) by (unfold NODES; lia).
  destruct R as [E Rc Rv]. constructor.
  - cbn [hs set_mem]. destruct (sset_as_set_slots s i v) as (m & Em).
    rewrite Em. cbn [slots set_slots]. rewrite <- E. reflexivity.
  - intros i' Hi' Hh'. cbn [mem set_mem].
    destruct (Z.eq_dec i i') as [<-|N].
    + rewrite mget_mset_same by (apply (slot_pos rs na H SH); lia || assumption).
      rewrite sget_sset_same by lia. reflexivity.
    + rewrite mget_mset_other.
      * rewrite sget_sset_other by assumption. apply Rc; assumption.
      * intro Ep. apply N. apply (slot_inj rs na H SH); try assumption; lia.
  - intros i' Hi'. rewrite sget_sset_other by lia. apply Rv. assumption.
Qed.
