(* HeapSpec.v -- the invariant and the abstraction used to state property C05
   about Timer/HeapModel.v.  Definitions only. *)
From Coq Require Import List ZArith Bool Sorted.
From Ivv Require Import Timer.HeapModel.
Import ListNotations.
Local Open Scope Z_scope.

(* the abstract content of the timer store: which timers are waiting in the
   heap, and with which expiry *)
Definition abs (s : tstate) (t : id) : option Z :=
  if 1 <=? tidx s t then Some (texp s t) else None.

Definition HeapInv (s : tstate) : Prop :=
  0 <= num s /\
  (* radix tree: every live index is addressable and the depth is minimal *)
  0 <= depth s /\ num s < cap (depth s) /\ (0 < depth s -> 2 ^ (SPLIT_BITS * depth s) <= num s) /\
  (* slots 1..num are filled, with exact back indices; everything above is vacant *)
  (forall i, 1 <= i <= num s -> exists t, sget s i = Some t /\ tidx s t = i) /\
  (forall p, num s < Zpos p -> PM.find p (slots s) = None) /\
  (forall t, 1 <= tidx s t -> tidx s t <= num s /\ sget s (tidx s t) = Some t) /\
  (* heap order *)
  (forall i t tp, 2 <= i <= num s -> sget s i = Some t -> sget s (i / 2) = Some tp ->
                  texp s tp <= texp s t) /\
  (* the expired batch *)
  (forall t, In t (batch s) <-> tidx s t = 0) /\ NoDup (batch s) /\
  (forall t, -1 <= tidx s t) /\
  numobjs s = num s.

Definition le_exp (s : tstate) (a b : id) : Prop := texp s a <= texp s b.

Definition no_scripts : scripts := fun _ => [].

(* the slot array as the monitor sees it: (expiry, back index) per slot *)
Definition slot_array (s : tstate) : list (Z * Z) :=
  map (fun o => match o with Some t => (texp s t, tidx s t) | None => (0, -2) end) (dump_slots s).

Definition run_ops (sc : scripts) (ops : list op) (s : tstate) : outcome :=
  fold_left (fun o x => match o with Ok s => fst (fst (step sc s x)) | _ => o end) ops (Ok s).
