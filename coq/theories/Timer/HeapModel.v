(* HeapModel.v -- executable model of the timer store of /repo/src/iv_timer.c:
   the binary heap (pull_up, push_down, iv_timer_register, iv_timer_unregister,
   iv_run_timers) laid out in the 128-ary radix tree (iv_timer_get_node,
   iv_timer_radix_tree_remove_level).  No proofs in this file.

   Representation.  The radix tree is modelled by what it implements: a
   partial map from heap index to timer, together with the tree depth
   `depth` (rat_depth).  What the depth does in the C code is kept:
     - an index is addressable iff 0 < index < 128^(depth+1); iv_timer_get_node
       grows the tree by exactly ONE level when index >> 7*(depth+1) != 0;
     - iv_timer_radix_tree_remove_level drops every slot >= 128^depth (the
       sub-trees root->child[1..127] are freed) and decrements depth.
   An access outside the addressable range is the outcome `None` (in C: a
   wrong digit after masking / a wild slot); the theorems show it unreachable.
   A slot that holds no timer is NULL in C (calloc / the `*m = NULL` in
   unregister) and absent in the map.

   Timers are identified by positive numbers; `tm` gives their expiry (ns as
   Z; see Base/Timespec.v for timespec_gt) and heap index (-1 unregistered,
   0 on the expired batch of the running iv_run_timers, >= 1 heap slot). *)

From Coq Require Import List ZArith Bool FMapPositive FMapFacts.
Import ListNotations.
Local Open Scope Z_scope.

Module PM := PositiveMap.
Module PMP := FMapFacts.WProperties_fun PositiveMap.E PositiveMap.

Definition id := positive.

Record timer := { expires : Z; index : Z }.

Record tstate := {
  slots : PM.t id;          (* heap index -> timer *)
  num : Z;                  (* st->num_timers *)
  depth : Z;                (* st->rat_depth *)
  tm : PM.t timer;          (* every timer object known to the scenario *)
  batch : list id;          (* the local list `timers` of a running iv_run_timers *)
  numobjs : Z;              (* st->numobjs (timers' share) *)
  now : Z;                  (* st->time *)
}.

Definition init : tstate :=
  {| slots := PM.empty id; num := 0; depth := 0; tm := PM.empty timer;
     batch := []; numobjs := 0; now := 0 |}.

Definition SPLIT_BITS : Z := 7.

(* number of addressable indices with depth d: 128^(d+1) *)
Definition cap (d : Z) : Z := 2 ^ (SPLIT_BITS * (d + 1)).

Definition set_slots (s : tstate) (m : PM.t id) : tstate :=
  {| slots := m; num := num s; depth := depth s; tm := tm s; batch := batch s;
     numobjs := numobjs s; now := now s |}.
Definition set_num (s : tstate) (n : Z) : tstate :=
  {| slots := slots s; num := n; depth := depth s; tm := tm s; batch := batch s;
     numobjs := numobjs s; now := now s |}.
Definition set_depth (s : tstate) (d : Z) : tstate :=
  {| slots := slots s; num := num s; depth := d; tm := tm s; batch := batch s;
     numobjs := numobjs s; now := now s |}.
Definition set_tm (s : tstate) (m : PM.t timer) : tstate :=
  {| slots := slots s; num := num s; depth := depth s; tm := m; batch := batch s;
     numobjs := numobjs s; now := now s |}.
Definition set_batch (s : tstate) (b : list id) : tstate :=
  {| slots := slots s; num := num s; depth := depth s; tm := tm s; batch := b;
     numobjs := numobjs s; now := now s |}.
Definition set_numobjs (s : tstate) (n : Z) : tstate :=
  {| slots := slots s; num := num s; depth := depth s; tm := tm s; batch := batch s;
     numobjs := n; now := now s |}.
Definition set_now (s : tstate) (n : Z) : tstate :=
  {| slots := slots s; num := num s; depth := depth s; tm := tm s; batch := batch s;
     numobjs := numobjs s; now := n |}.

(* slot read / write at an (addressable, positive) index *)
Definition sget (s : tstate) (i : Z) : option id :=
  match i with Zpos p => PM.find p (slots s) | _ => None end.

Definition sset (s : tstate) (i : Z) (v : option id) : tstate :=
  match i with
  | Zpos p => set_slots s (match v with Some t => PM.add p t (slots s) | None => PM.remove p (slots s) end)
  | _ => s
  end.

Definition tget (s : tstate) (t : id) : option timer := PM.find t (tm s).
Definition texp (s : tstate) (t : id) : Z :=
  match tget s t with Some x => expires x | None => 0 end.
Definition tidx (s : tstate) (t : id) : Z :=
  match tget s t with Some x => index x | None => -1 end.
Definition set_idx (s : tstate) (t : id) (i : Z) : tstate :=
  match tget s t with
  | Some x => set_tm s (PM.add t {| expires := expires x; index := i |} (tm s))
  | None => s
  end.
Definition set_exp (s : tstate) (t : id) (e : Z) : tstate :=
  match tget s t with
  | Some x => set_tm s (PM.add t {| expires := e; index := index x |} (tm s))
  | None => set_tm s (PM.add t {| expires := e; index := -1 |} (tm s))     (* IV_TIMER_INIT *)
  end.

(* iv_timer_get_node(st, index): the address computation.  Returns the state
   after the possible one-level growth, or None when the index is not
   addressable afterwards. *)
Definition get_node (s : tstate) (i : Z) : option tstate :=
  let d' := if Z.shiftr i (SPLIT_BITS * (depth s + 1)) =? 0 then depth s else depth s + 1 in
  if (0 <? i) && (i <? cap d') then Some (set_depth s d') else None.

(* keep the slots satisfying f.  This is, by definition (reflexivity), PMP.filter f m;
   it is spelled out so that extraction does not have to open the FMapFacts functor. *)
Definition slot_filter (f : positive -> id -> bool) (m : PM.t id) : PM.t id :=
  PM.fold (fun k e acc => if f k e then PM.add k e acc else acc) m (PM.empty id).

(* iv_timer_radix_tree_remove_level *)
Definition remove_level (s : tstate) : tstate :=
  let d' := depth s - 1 in
  let lim := cap d' in
  set_depth (set_slots s (slot_filter (fun k _ => Zpos k <? lim) (slots s))) d'.

(* timer_ptr_gt(a, b) = timespec_gt(&a->expires, &b->expires) *)
Definition ptr_gt (s : tstate) (a b : id) : bool := texp s b <? texp s a.

(* exchange the contents of slots i and j (holding ti and tj) and fix the back indices:
   et = [i]; [i] = [p]; [p] = et; [i]->index = index; [p]->index = parent *)
Definition swap_slots (s : tstate) (i j : Z) (ti tj : id) : tstate :=
  let s1 := sset (sset s i (Some tj)) j (Some ti) in
  set_idx (set_idx s1 tj i) ti j.

(* pull_up(st, index, i) *)
Fixpoint pull_up (fuel : nat) (s : tstate) (i : Z) : option tstate :=
  if i =? 1 then Some s else
  match fuel with
  | O => None
  | S f =>
      let parent := i / 2 in
      match get_node s parent with
      | None => None
      | Some s1 =>
          match sget s1 parent, sget s1 i with
          | Some tp, Some ti =>
              if ptr_gt s1 tp ti then pull_up f (swap_slots s1 i parent ti tp) parent
              else Some s1
          | _, _ => None                               (* NULL dereference *)
          end
      end
  end.

(* push_down(st, index, i) *)
Fixpoint push_down (fuel : nat) (s : tstate) (i : Z) : option tstate :=
  match fuel with
  | O => None
  | S f =>
      match sget s i with
      | None => None
      | Some ti =>
          if 2 * i <=? num s then
            match get_node s (2 * i) with
            | None => None
            | Some s1 =>
                match sget s1 (2 * i) with
                | None => None                          (* p[0] is dereferenced unconditionally *)
                | Some tl =>
                    let '(imin, tmin) := if ptr_gt s1 ti tl then (2 * i, tl) else (i, ti) in
                    let '(imin, tmin) :=
                      match sget s1 (2 * i + 1) with      (* p[1] && timer_ptr_gt( *imin, p[1]) *)
                      | Some tr => if ptr_gt s1 tmin tr then (2 * i + 1, tr) else (imin, tmin)
                      | None => (imin, tmin)
                      end in
                    if imin =? i then Some s1
                    else push_down f (swap_slots s1 i imin ti tmin) imin
                end
            end
          else Some s
      end
  end.

Definition log2_fuel (n : Z) : nat := S (S (Z.to_nat (Z.log2 n))).

Inductive outcome : Type :=
| Ok (s : tstate)
| Fatal (s : tstate)         (* iv_fatal: API misuse detected by the library *)
| Crash.                     (* out-of-model access (NULL / unaddressable slot / fuel) *)

(* iv_timer_register *)
Definition register (s : tstate) (t : id) : outcome :=
  if negb (tidx s t =? -1) then Fatal s else
  let s := set_numobjs s (numobjs s + 1) in
  let i := num s + 1 in
  let s := set_num s i in
  match get_node s i with
  | None => Crash
  | Some s1 =>
      let s2 := set_idx (sset s1 i (Some t)) t i in
      match pull_up (log2_fuel i) s2 i with
      | Some s3 => Ok s3
      | None => Crash
      end
  end.

Fixpoint remove_first (t : id) (l : list id) : list id :=
  match l with
  | [] => []
  | x :: l' => if Pos.eqb x t then l' else x :: remove_first t l'
  end.

(* iv_timer_unregister *)
Definition unregister (s : tstate) (t : id) : outcome :=
  let ix := tidx s t in
  if ix =? -1 then Fatal s else
  if negb (ix =? 0) then
    if num s <? ix then Fatal s else
    match get_node s ix with
    | None => Crash
    | Some s1 =>
        match sget s1 ix with
        | None => Fatal s1                                   (* *p != t *)
        | Some tp =>
            if negb (Pos.eqb tp t) then Fatal s1 else
            match get_node s1 (num s1) with
            | None => Crash
            | Some s2 =>
                match sget s2 (num s2) with
                | None => Crash                              (* ( *p)->index on NULL *)
                | Some tlast =>
                    let n := num s2 in
                    let s3 := sset s2 ix (Some tlast) in        (* *p = *m *)
                    let s3 := set_idx s3 tlast ix in            (* ( *p)->index = t->index *)
                    let s3 := sset s3 n None in                 (* *m = NULL *)
                    let s4 := if (0 <? depth s3) && (n =? 2 ^ (depth s3 * SPLIT_BITS))
                              then remove_level s3 else s3 in
                    let s5 := set_num s4 (n - 1) in
                    let r :=
                      if ix =? n then Some s5                   (* p == m *)
                      else match pull_up (log2_fuel ix) s5 ix with
                           | None => None
                           | Some s6 => push_down (log2_fuel n) s6 ix
                           end in
                    match r with
                    | None => Crash
                    | Some s7 => Ok (set_idx (set_numobjs s7 (numobjs s7 - 1)) t (-1))
                    end
                end
            end
        end
    end
  else
    Ok (set_idx (set_batch s (remove_first t (batch s))) t (-1)).   (* iv_list_del(&t->list_expired) *)

(* ---- handler scripts ---- *)
Inductive act : Type :=
| AReg (t : id) (e : Z)         (* if not registered: set expires, iv_timer_register *)
| AUnreg (t : id).              (* if registered: iv_timer_unregister *)

Definition scripts := id -> list act.

Definition do_act (s : tstate) (a : act) : outcome * Z :=
  match a with
  | AReg t e => if tidx s t =? -1 then (register (set_exp s t e) t, 0) else (Ok s, 1)
  | AUnreg t => if tidx s t =? -1 then (Ok s, 1) else (unregister s t, 0)
  end.

Fixpoint do_acts (s : tstate) (l : list act) : outcome :=
  match l with
  | [] => Ok s
  | a :: l' => match fst (do_act s a) with
               | Ok s' => do_acts s' l'
               | o => o
               end
  end.

(* first loop of iv_run_timers: move every timer that is not after `now` to the batch *)
Fixpoint collect (fuel : nat) (s : tstate) : outcome :=
  if num s =? 0 then Ok s else
  match fuel with
  | O => Crash
  | S f =>
      match sget s 1 with
      | None => Crash
      | Some t =>
          if negb (tidx s t =? 1) then Fatal s else
          if now s <? texp s t then Ok s else            (* timespec_gt(&t->expires, &st->time) *)
          match unregister s t with
          | Ok s1 => collect f (set_idx (set_batch s1 (batch s1 ++ [t])) t 0)
          | o => o
          end
      end
  end.

(* second loop: pop the head of the batch, mark it unregistered, run its handler *)
Fixpoint dispatch (fuel : nat) (sc : scripts) (s : tstate) (fired : list id) : outcome * list id :=
  match batch s with
  | [] => (Ok s, fired)
  | t :: rest =>
      match fuel with
      | O => (Crash, fired)
      | S f =>
          let s1 := set_idx (set_batch s rest) t (-1) in
          match do_acts s1 (sc t) with
          | Ok s2 => dispatch f sc s2 (fired ++ [t])
          | o => (o, fired ++ [t])
          end
      end
  end.

(* iv_run_timers with st->time = clock *)
Definition run_timers (sc : scripts) (s : tstate) (clock : Z) : outcome * list id :=
  if num s =? 0 then (Ok s, []) else
  let s := set_now s clock in
  match collect (S (Z.to_nat (num s))) s with
  | Ok s1 => dispatch (S (length (batch s1))) sc s1 []
  | o => (o, [])
  end.

(* ---- top-level operations of a C05 case ---- *)
Inductive op : Type :=
| OAct (a : act)
| ORun (clock : Z).

Definition step (sc : scripts) (s : tstate) (o : op) : outcome * Z * list id :=
  match o with
  | OAct a => let '(r, rc) := do_act s a in (r, rc, [])
  | ORun c => let '(r, f) := run_timers sc s c in (r, 0, f)
  end.

(* ---- dumps compared with the implementation ---- *)
Fixpoint zrange (lo : Z) (n : nat) : list Z :=
  match n with O => [] | S k => lo :: zrange (lo + 1) k end.

Definition dump_slots (s : tstate) : list (option id) :=
  map (sget s) (zrange 1 (Z.to_nat (num s))).

Definition dump_indices (s : tstate) (ids : list id) : list (id * Z) :=
  map (fun t => (t, tidx s t)) ids.

(* soonest timeout: st->ratnode.first_leaf.child[1] *)
Definition soonest (s : tstate) : option Z :=
  if num s =? 0 then None else
  match sget s 1 with Some t => Some (texp s t) | None => None end.

(* ---- boolean monitor of the heap invariant on a dumped array ---- *)
(* arr: slots 1..n as (expiry, back index) of the timer sitting there *)
Fixpoint nth_opt {A} (l : list A) (n : nat) : option A :=
  match l, n with
  | [], _ => None
  | x :: _, O => Some x
  | _ :: l', S k => nth_opt l' k
  end.

Definition heap_ok_at (arr : list (Z * Z)) (i : nat) : bool :=
  (* i is 0-based position, heap index i+1; parent index (i+1)/2 *)
  match nth_opt arr i with
  | None => false
  | Some (e, ix) =>
      (ix =? Z.of_nat (S i)) &&
      match i with
      | O => true
      | _ => match nth_opt arr (Nat.div2 (S i) - 1) with
             | Some (ep, _) => ep <=? e
             | None => false
             end
      end
  end.

Definition heap_ok (arr : list (Z * Z)) : bool :=
  forallb (heap_ok_at arr) (seq 0 (length arr)).
