(* HeapProofs.v -- the lemmas behind the statements of Props/Properties_C05.v.
   Build order: HeapModel, HeapSpec, HeapBase, HeapSift, HeapFacts, HeapReg,
   HeapUnreg, HeapCollect, HeapDispatch, HeapProofs. *)
From Coq Require Import List ZArith Bool Lia Sorted.
From Ivv Require Import Timer.HeapModel Timer.HeapSpec Timer.HeapBase Timer.HeapSift
  Timer.HeapFacts Timer.HeapReg Timer.HeapUnreg Timer.HeapCollect Timer.HeapDispatch.
Import ListNotations.
Local Open Scope Z_scope.

Ltac Zify.zify_post_hook ::= Z.div_mod_to_equations.

(* ---------- register ---------- *)
Lemma heap_register_ok :
  forall s t, HeapInv s -> tget s t <> None -> tidx s t = -1 ->
    exists s', register s t = Ok s' /\ HeapInv s' /\
      abs s' t = Some (texp s t) /\
      (forall t', t' <> t -> abs s' t' = abs s t') /\
      batch s' = batch s /\ num s' = num s + 1.
Proof.
  intros s t H TG TI. apply HeapInv_Inv in H.
  destruct (register_inv s t H TG TI) as (s' & R & I' & A & TS & X & B & N & _).
  exists s'. split; [assumption|split; [apply Inv_HeapInv; assumption|]].
  split; [assumption|split; [|split; assumption]].
  intros t' K. apply tsim_abs; [apply TS; assumption|apply X].
Qed.

(* ---------- unregister ---------- *)
Lemma heap_unregister_ok :
  forall s t, HeapInv s -> 1 <= tidx s t ->
    exists s', unregister s t = Ok s' /\ HeapInv s' /\
      abs s' t = None /\ tidx s' t = -1 /\
      (forall t', t' <> t -> abs s' t' = abs s t') /\
      batch s' = batch s /\ num s' = num s - 1.
Proof.
  intros s t H TI. apply HeapInv_Inv in H.
  destruct (unregister_inv s t H TI) as (s' & U & I' & T & TS & X & B & N & _).
  exists s'. split; [assumption|split; [apply Inv_HeapInv; assumption|]].
  split; [unfold abs; rewrite T; reflexivity|].
  split; [assumption|split; [|split; assumption]].
  intros t' K. apply tsim_abs; [apply TS; assumption|apply X].
Qed.

Lemma heap_unregister_expired_ok :
  forall s t, HeapInv s -> tidx s t = 0 ->
    exists s', unregister s t = Ok s' /\ HeapInv s' /\ tidx s' t = -1 /\
      (forall t', abs s' t' = abs s t') /\ ~ In t (batch s') /\
      (forall t', t' <> t -> (In t' (batch s') <-> In t' (batch s))).
Proof.
  intros s t H TI. apply HeapInv_Inv in H.
  rewrite (unregister_expired_eq s t TI).
  destruct (pop_inv s t H TI) as (I' & T & _ & _ & B & _ & _ & A).
  pose proof (proj1 (proj2 (i_batch s H))) as ND.
  eexists. split; [reflexivity|split; [apply Inv_HeapInv; exact I'|]].
  split; [assumption|split; [assumption|]]. rewrite B. split.
  - intro Hx. apply (remove_first_in t (batch s) t ND) in Hx. destruct Hx as [_ Hx]. congruence.
  - intros t' K. rewrite (remove_first_in t (batch s) t' ND). tauto.
Qed.

(* ---------- the collection loop ---------- *)
Lemma heap_collect_ok :
  forall s clock, HeapInv s -> batch s = [] ->
    exists s', collect (S (Z.to_nat (num s))) (set_now s clock) = Ok s' /\ HeapInv s' /\
      StronglySorted (le_exp s) (batch s') /\
      (forall t, In t (batch s') <-> exists e, abs s t = Some e /\ e <= clock) /\
      (forall t e, abs s' t = Some e -> clock < e /\ abs s t = Some e) /\
      (forall t e, abs s t = Some e -> clock < e -> abs s' t = Some e).
Proof.
  intros s clock H B. apply HeapInv_Inv in H.
  destruct (collect_round s clock H B) as (s' & C & I' & R).
  exists s'. split; [assumption|split; [apply Inv_HeapInv; assumption|assumption]].
Qed.

(* ---------- whole rounds ---------- *)
Lemma abs_num0 : forall s t, Inv s -> num s = 0 -> abs s t = None.
Proof.
  intros s t I Z0. unfold abs. destruct (Z.leb_spec 1 (tidx s t)) as [Q|Q]; [|reflexivity].
  destruct (i_back s I t Q) as [R _]. lia.
Qed.

Lemma run_timers_inv : forall sc s clock, Inv s -> batch s = [] ->
  exists s' fired, run_timers sc s clock = (Ok s', fired) /\ Inv s' /\ batch s' = [] /\
    StronglySorted (le_exp s) fired /\ NoDup fired /\
    (forall t, In t fired -> exists e, abs s t = Some e /\ e <= clock) /\
    (forall t e, abs s t = Some e -> e <= clock ->
       In t fired \/ exists t0, In t0 fired /\ In (AUnreg t) (sc t0)).
Proof.
  intros sc s clock I B. unfold run_timers.
  destruct (Z.eqb_spec (num s) 0) as [Z0|NZ].
  - exists s, []. split; [reflexivity|split; [assumption|split; [assumption|]]].
    split; [constructor|split; [constructor|split]].
    + intros t [].
    + intros t e H. rewrite (abs_num0 s t I Z0) in H. discriminate.
  - change (num (set_now s clock)) with (num s).
    destruct (collect_round s clock I B) as (s1 & C & I1 & SS1 & IN1 & _).
    rewrite C.
    destruct (dispatch_ok sc (S (length (batch s1))) s1 [] I1 ltac:(lia))
      as (s' & fl & D & I' & B' & SU & CV).
    rewrite D. simpl. exists s', fl.
    split; [reflexivity|split; [assumption|split; [assumption|]]].
    split; [eapply sub_sorted; eassumption|].
    split; [eapply sub_nodup; [eassumption|apply (i_batch s1 I1)]|].
    split.
    + intros t Ht. apply IN1. eapply sub_in; eassumption.
    + intros t e H1 H2. apply CV. apply IN1. exists e. split; assumption.
Qed.

Lemma heap_run_timers_ok :
  forall sc s clock, HeapInv s -> batch s = [] ->
    exists s' fired, run_timers sc s clock = (Ok s', fired) /\ HeapInv s' /\ batch s' = [] /\
      StronglySorted (le_exp s) fired /\ NoDup fired /\
      (forall t, In t fired -> exists e, abs s t = Some e /\ e <= clock) /\
      (forall t e, abs s t = Some e -> e <= clock ->
         In t fired \/ exists t0, In t0 fired /\ In (AUnreg t) (sc t0)).
Proof.
  intros sc s clock H B. apply HeapInv_Inv in H.
  destruct (run_timers_inv sc s clock H B) as (s' & fired & R & I' & Rest).
  exists s', fired. split; [assumption|split; [apply Inv_HeapInv; assumption|assumption]].
Qed.

Lemma heap_run_timers_pure :
  forall s clock, HeapInv s -> batch s = [] ->
    exists s' fired, run_timers no_scripts s clock = (Ok s', fired) /\ HeapInv s' /\
      (forall t, In t fired <-> exists e, abs s t = Some e /\ e <= clock) /\
      (forall t, abs s' t = match abs s t with
                            | Some e => if e <=? clock then None else Some e
                            | None => None end).
Proof.
  intros s clock H B. apply HeapInv_Inv in H. unfold run_timers.
  destruct (Z.eqb_spec (num s) 0) as [Z0|NZ].
  - exists s, []. split; [reflexivity|split; [apply Inv_HeapInv; assumption|]].
    split.
    + intros t. split; [intros []|]. intros (e & H1 & _).
      rewrite (abs_num0 s t H Z0) in H1. discriminate.
    + intros t. rewrite (abs_num0 s t H Z0). reflexivity.
  - change (num (set_now s clock)) with (num s).
    destruct (collect_round s clock H B) as (s1 & C & I1 & _ & IN1 & A1 & A2).
    rewrite C.
    destruct (dispatch_pure (S (length (batch s1))) s1 [] I1 ltac:(lia)) as (s' & D & I' & A').
    rewrite D. simpl. exists s', (batch s1).
    split; [reflexivity|split; [apply Inv_HeapInv; assumption|]].
    split; [assumption|].
    intros t. rewrite A'. destruct (abs s t) as [e|] eqn:E.
    + destruct (Z.leb_spec e clock) as [Le|Gt].
      * destruct (abs s1 t) as [e'|] eqn:E1; [|reflexivity].
        destruct (A1 t e' E1) as [Q1 Q2]. rewrite E in Q2. inversion Q2; subst. lia.
      * apply A2; assumption.
    + destruct (abs s1 t) as [e'|] eqn:E1; [|reflexivity].
      destruct (A1 t e' E1) as [_ Q2]. rewrite E in Q2. discriminate.
Qed.

(* ---------- histories ---------- *)
Lemma Inv_init : Inv init.
Proof.
  assert (T : forall t, tidx init t = -1).
  { intros t. unfold tidx. rewrite tget_init. reflexivity. }
  constructor.
  - simpl. lia.
  - unfold DepthOK. cbn [depth num init]. pose proof (cap_pos 0). lia.
  - intros i R. cbn [num init] in R. lia.
  - intros i _. apply sget_init.
  - intros t H. rewrite T in H. lia.
  - intros j R. cbn [num init] in R. lia.
  - unfold BatchOK. cbn [batch init]. split; [|split; [constructor|]].
    + intros t. rewrite T. split; [intros []|lia].
    + intros t. rewrite T. lia.
  - reflexivity.
Qed.

Lemma step_ok : forall sc s o, Inv s -> batch s = [] ->
  exists s', fst (fst (step sc s o)) = Ok s' /\ Inv s' /\ batch s' = [].
Proof.
  intros sc s o I B. destruct o as [a|c]; cbn [step].
  - destruct (do_act_ok s a I) as (s' & E & I' & S & _).
    destruct (do_act s a) as [r rc]. cbn [fst] in *.
    exists s'. split; [assumption|split; [assumption|]].
    rewrite B in S. apply sub_nil_inv. assumption.
  - destruct (run_timers_inv sc s c I B) as (s' & fired & R & I' & B' & _).
    rewrite R. cbn [fst]. exists s'. split; [reflexivity|split; assumption].
Qed.

Lemma run_ops_ok : forall sc ops s, Inv s -> batch s = [] ->
  exists s', run_ops sc ops s = Ok s' /\ Inv s' /\ batch s' = [].
Proof.
  intros sc. unfold run_ops. induction ops as [|o ops IH]; intros s I B.
  - exists s. split; [reflexivity|split; assumption].
  - cbn [fold_left]. destruct (step_ok sc s o I B) as (s1 & E & I1 & B1). rewrite E.
    apply IH; assumption.
Qed.

Lemma heap_history_ok :
  forall sc ops, exists s, run_ops sc ops init = Ok s /\ HeapInv s /\ batch s = [].
Proof.
  intros sc ops. destruct (run_ops_ok sc ops init Inv_init eq_refl) as (s & R & I & B).
  exists s. split; [assumption|split; [apply Inv_HeapInv; assumption|assumption]].
Qed.

(* ---------- the monitor ---------- *)
Lemma zrange_length : forall n lo, length (zrange lo n) = n.
Proof. induction n as [|n IH]; intros lo; simpl; [reflexivity|rewrite IH; reflexivity]. Qed.

Lemma nth_opt_zrange : forall n lo i, (i < n)%nat -> nth_opt (zrange lo n) i = Some (lo + Z.of_nat i).
Proof.
  induction n as [|n IH]; intros lo i L; [lia|].
  destruct i as [|i]; cbn [zrange nth_opt].
  - f_equal. lia.
  - rewrite IH by lia. f_equal. lia.
Qed.

Lemma nth_opt_map : forall (A B : Type) (f : A -> B) l i,
  nth_opt (map f l) i = match nth_opt l i with Some x => Some (f x) | None => None end.
Proof.
  intros A B f. induction l as [|a l IH]; intros i.
  - destruct i; reflexivity.
  - destruct i as [|i]; cbn [map nth_opt]; [reflexivity|apply IH].
Qed.

Lemma slot_array_length : forall s, length (slot_array s) = Z.to_nat (num s).
Proof. intros s. unfold slot_array, dump_slots. rewrite !map_length. apply zrange_length. Qed.

Lemma slot_array_nth : forall s i, Inv s -> (i < Z.to_nat (num s))%nat ->
  exists t, sget s (1 + Z.of_nat i) = Some t /\ tidx s t = 1 + Z.of_nat i /\
            nth_opt (slot_array s) i = Some (texp s t, 1 + Z.of_nat i).
Proof.
  intros s i I L. destruct (i_filled s I (1 + Z.of_nat i) ltac:(lia)) as (t & E & T).
  exists t. split; [assumption|split; [assumption|]].
  unfold slot_array, dump_slots. rewrite !nth_opt_map, nth_opt_zrange by assumption.
  rewrite E, T. reflexivity.
Qed.

Lemma parent_pos : forall i, Z.of_nat (Nat.div2 (S (S i)) - 1) + 1 = (1 + Z.of_nat (S i)) / 2.
Proof.
  intros i. cbn [Nat.div2]. replace (S (Nat.div2 i) - 1)%nat with (Nat.div2 i) by lia.
  rewrite Nat.div2_div, Nat2Z.inj_div. lia.
Qed.

Lemma heap_ok_of_inv : forall s, HeapInv s -> heap_ok (slot_array s) = true.
Proof.
  intros s H. apply HeapInv_Inv in H. unfold heap_ok. apply forallb_forall.
  intros i Hi. apply in_seq in Hi. rewrite slot_array_length in Hi.
  destruct (slot_array_nth s i H ltac:(lia)) as (t & E & T & NT).
  unfold heap_ok_at. rewrite NT.
  assert (Q : (1 + Z.of_nat i =? Z.of_nat (S i)) = true) by (apply Z.eqb_eq; lia).
  rewrite Q. cbn [andb].
  destruct i as [|i]; [reflexivity|].
  pose proof (parent_pos i) as PP.
  set (pi := (Nat.div2 (S (S i)) - 1)%nat) in *.
  assert (Lp : (pi < Z.to_nat (num s))%nat) by lia.
  destruct (slot_array_nth s pi H Lp) as (tp & Ep & Tp & NTp).
  rewrite NTp. apply Z.leb_le.
  pose proof (i_ord s H (1 + Z.of_nat (S i)) ltac:(lia)) as O.
  unfold key in O. replace ((1 + Z.of_nat (S i)) / 2) with (1 + Z.of_nat pi) in O by lia.
  rewrite E, Ep in O. assumption.
Qed.
