(* RadixArith.v -- arithmetic of the 128-ary radix tree: powers, digits, paths. *)
From Coq Require Import List ZArith Bool Lia.
From Ivv Require Import Timer.HeapModel Timer.HeapSpec Timer.HeapBase Timer.RadixModel Timer.RadixSpec.
Import ListNotations.
Local Open Scope Z_scope.

Lemma P_0 : P 0 = 1.
Proof. reflexivity. Qed.

Lemma P_pos : forall l, 0 <= l -> 0 < P l.
Proof. intros l H. unfold P, SPLIT_BITS. apply Z.pow_pos_nonneg; lia. Qed.

Lemma P_succ : forall l, 0 <= l -> P (l + 1) = NODES * P l.
Proof.
  intros l H. unfold P, SPLIT_BITS, NODES.
  replace (7 * (l + 1)) with (7 + 7 * l) by lia.
  rewrite Z.pow_add_r by lia. reflexivity.
Qed.

Lemma P_pred : forall l, 1 <= l -> P l = NODES * P (l - 1).
Proof. intros l H. replace l with (l - 1 + 1) at 1 by lia. apply P_succ. lia. Qed.

Lemma cap_P : forall d, cap d = P (d + 1).
Proof. intros d. unfold P. rewrite <- (cap_pred (d + 1)). f_equal. lia. Qed.

Lemma P_1 : P 1 = NODES.
Proof. reflexivity. Qed.

Lemma P_le : forall a b, 0 <= a <= b -> P a <= P b.
Proof. intros a b H. unfold P, SPLIT_BITS. apply Z.pow_le_mono_r; lia. Qed.

Lemma P_ge_1 : forall l, 0 <= l -> 1 <= P l.
Proof. intros l H. pose proof (P_pos l H). lia. Qed.

Lemma P_add : forall a b, 0 <= a -> 0 <= b -> P (a + b) = P a * P b.
Proof.
  intros a b Ha Hb. unfold P, SPLIT_BITS.
  replace (7 * (a + b)) with (7 * a + 7 * b) by lia.
  apply Z.pow_add_r; lia.
Qed.

(* ---------- digits ---------- *)
Lemma digit_range : forall index l, 0 <= digit index l < NODES.
Proof. intros. unfold digit, NODES. apply Z.mod_pos_bound. lia. Qed.

Lemma div_P_succ : forall index l, 0 <= l -> index / P (l + 1) = index / P l / NODES.
Proof.
  intros index l H. rewrite P_succ by assumption. rewrite (Z.mul_comm NODES).
  rewrite Z.div_div; [reflexivity| |unfold NODES; lia].
  pose proof (P_pos l H). lia.
Qed.

Lemma div_P_step : forall index l, 0 <= l ->
  index / P l = index / P (l + 1) * NODES + digit index l.
Proof.
  intros index l H. rewrite div_P_succ by assumption. unfold digit.
  pose proof (Z.div_mod (index / P l) NODES ltac:(unfold NODES; lia)). lia.
Qed.

Lemma bits_digit : forall index i, 0 <= i ->
  Z.land (Z.shiftr index (i * SPLIT_BITS)) (NODES - 1) = digit index i.
Proof.
  intros index i H. unfold digit, P.
  rewrite Z.shiftr_div_pow2 by (unfold SPLIT_BITS; lia).
  replace (NODES - 1) with (Z.ones 7) by reflexivity.
  rewrite Z.land_ones by lia.
  rewrite (Z.mul_comm i SPLIT_BITS). reflexivity.
Qed.

Lemma land_mod : forall index, Z.land index (NODES - 1) = index mod NODES.
Proof.
  intros index. replace (NODES - 1) with (Z.ones 7) by reflexivity.
  rewrite Z.land_ones by lia. reflexivity.
Qed.

Lemma digit_0 : forall index, digit index 0 = index mod NODES.
Proof. intros. unfold digit. rewrite P_0, Z.div_1_r. reflexivity. Qed.

Lemma div_P_0 : forall index, index / P 0 = index.
Proof. intros. rewrite P_0. apply Z.div_1_r. Qed.

Lemma div_P_1 : forall index, index / P 1 = index / NODES.
Proof. reflexivity. Qed.

Lemma div_P_nonneg : forall index l, 0 <= l -> 0 <= index -> 0 <= index / P l.
Proof. intros. apply Z.div_pos; [assumption|apply P_pos; assumption]. Qed.

Lemma div_P_mul_le : forall index l, 0 <= l -> 0 <= index -> index / P l * P l <= index.
Proof.
  intros index l H Hi. pose proof (P_pos l H).
  rewrite Z.mul_comm. apply Z.mul_div_le. assumption.
Qed.

Lemma div_P_small : forall index l, 0 <= l -> 0 <= index < P l -> index / P l = 0.
Proof. intros. apply Z.div_small. assumption. Qed.

Lemma shiftr_P : forall index d, 0 <= d -> 0 <= index ->
  (Z.shiftr index ((d + 1) * SPLIT_BITS) =? 0) = (index <? P (d + 1)).
Proof.
  intros index d Hd Hi. rewrite (Z.mul_comm (d + 1)). rewrite shiftr_zero_iff by assumption.
  rewrite cap_P. reflexivity.
Qed.

Lemma shiftl_P : forall d, 0 <= d -> Z.shiftl 1 (d * SPLIT_BITS) = P d.
Proof.
  intros d H. rewrite Z.shiftl_mul_pow2 by (unfold SPLIT_BITS; lia).
  unfold P. rewrite (Z.mul_comm d). lia.
Qed.

(* ---------- (a) path arithmetic ---------- *)
(* the index is determined by its digits *)
Lemma index_digits : forall d index, 0 <= index ->
  index / P (Z.of_nat d + 1) = 0 ->
  index = fold_left (fun acc g => acc * NODES + g) (path d index) 0.
Proof.
  intros d index Hi.
  assert (G : forall d, fold_left (fun acc g => acc * NODES + g) (path d index) (index / P (Z.of_nat d + 1)) = index).
  { clear d. induction d as [|d IH].
    - cbn [path fold_left]. change (Z.of_nat 0 + 1) with 1.
      rewrite div_P_1, digit_0.
      pose proof (Z.div_mod index NODES ltac:(unfold NODES; lia)). lia.
    - cbn [path fold_left]. rewrite <- div_P_step by lia.
      replace (Z.of_nat (S d)) with (Z.of_nat d + 1) by lia. exact IH. }
  intros E. rewrite <- (G d) at 1. rewrite E. reflexivity.
Qed.

Theorem path_inj : forall d i j,
  0 <= i < P (Z.of_nat d + 1) -> 0 <= j < P (Z.of_nat d + 1) ->
  path d i = path d j -> i = j.
Proof.
  intros d i j Hi Hj E.
  rewrite (index_digits d i) by (try apply Z.div_small; lia).
  rewrite (index_digits d j) by (try apply Z.div_small; lia).
  rewrite E. reflexivity.
Qed.

Lemma path_digits : forall d index g, In g (path d index) -> 0 <= g < NODES.
Proof.
  induction d as [|d IH]; intros index g H; cbn [path] in H.
  - destruct H as [<-|[]]. apply digit_range.
  - destruct H as [<-|H]; [apply digit_range|apply IH with index; assumption].
Qed.

Lemma path_length : forall d index, length (path d index) = S d.
Proof. induction d as [|d IH]; intros; cbn [path length]; [reflexivity|rewrite IH; reflexivity]. Qed.

(* ---------- the domain domH ---------- *)
Lemma domH_true : forall H l q, domH H l q = true <-> 0 <= q /\ q * P (l + 1) <= H.
Proof.
  intros. unfold domH. rewrite andb_true_iff, Z.leb_le, Z.leb_le. tauto.
Qed.

Lemma domH_false : forall H l q, domH H l q = false <-> ~ (0 <= q /\ q * P (l + 1) <= H).
Proof.
  intros. rewrite <- domH_true. destruct (domH H l q); split; intros; try congruence; try tauto.
Qed.

Lemma domH_path : forall H l index, 0 <= l -> 0 <= index <= H -> domH H l (index / P (l + 1)) = true.
Proof.
  intros H l index Hl Hi. apply domH_true. split.
  - apply div_P_nonneg; lia.
  - pose proof (div_P_mul_le index (l + 1) ltac:(lia) ltac:(lia)). lia.
Qed.

Lemma domH_closed : forall H l q, 1 <= l -> domH H (l - 1) q = true -> domH H l (q / NODES) = true.
Proof.
  intros H l q Hl D. apply domH_true in D. destruct D as [Q0 Q1]. apply domH_true.
  replace (l - 1 + 1) with l in Q1 by lia.
  split; [apply Z.div_pos; unfold NODES; lia|].
  rewrite P_succ by lia.
  pose proof (P_pos l ltac:(lia)).
  assert (q / NODES * NODES <= q) by (rewrite Z.mul_comm; apply Z.mul_div_le; unfold NODES; lia).
  nia.
Qed.

Lemma domH_00 : forall H l, 0 <= H -> domH H l 0 = true.
Proof. intros. apply domH_true. lia. Qed.

Lemma domH_mono : forall H H' l q, H <= H' -> domH H l q = true -> domH H' l q = true.
Proof. intros H H' l q L D. apply domH_true in D. apply domH_true. lia. Qed.

(* at the top level only prefix 0 exists *)
Lemma domH_top : forall H d q, 0 <= d -> H < P (d + 1) -> domH H d q = true -> q = 0.
Proof.
  intros H d q Hd HH D. apply domH_true in D. destruct D as [Q0 Q1].
  pose proof (P_pos (d + 1) ltac:(lia)). nia.
Qed.

(* one more index: exactly the nodes whose range starts at H + 1 are new *)
Lemma domH_succ : forall H l q, 0 <= H -> 0 <= l ->
  domH (H + 1) l q = domH H l q || (q =? (H + 1) / P (l + 1)).
Proof.
  intros H l q HH Hl.
  pose proof (P_pos (l + 1) ltac:(lia)) as PX. set (X := P (l + 1)) in *.
  pose proof (Z.div_mod (H + 1) X ltac:(lia)) as DM.
  pose proof (Z.mod_pos_bound (H + 1) X PX) as MB.
  set (k := (H + 1) / X) in *. set (r := (H + 1) mod X) in *.
  assert (K0 : 0 <= k) by (apply Z.div_pos; lia).
  destruct (domH H l q) eqn:E1.
  - apply domH_true in E1. fold X in E1. cbn [orb]. apply domH_true. fold X. lia.
  - cbn [orb]. apply domH_false in E1. fold X in E1.
    destruct (Z.eqb_spec q k) as [->|N].
    + apply domH_true. fold X. nia.
    + apply domH_false. fold X. intros [Q0 Q1]. apply N. nia.
Qed.

Lemma domH_level_top : forall H H' d q, 0 <= d -> 0 <= H < P (d + 1) -> 0 <= H' < P (d + 1) ->
  domH H d q = domH H' d q.
Proof.
  intros H H' d q Hd B B'.
  destruct (domH H d q) eqn:E.
  - pose proof (domH_top H d q Hd ltac:(lia) E). subst q. symmetry. apply domH_00. lia.
  - destruct (domH H' d q) eqn:E'; [|reflexivity].
    pose proof (domH_top H' d q Hd ltac:(lia) E'). subst q. rewrite domH_00 in E by lia. discriminate.
Qed.

Lemma domH_above : forall H d q, 0 <= d -> 0 <= H < P (d + 1) -> domH H (d + 1) q = (q =? 0).
Proof.
  intros H d q Hd B.
  pose proof (P_le (d + 1) (d + 1 + 1) ltac:(lia)).
  destruct (Z.eqb_spec q 0) as [->|N].
  - apply domH_00. lia.
  - destruct (domH H (d + 1) q) eqn:E; [|reflexivity].
    exfalso. apply N. apply (domH_top H (d + 1) q); [lia|lia|assumption].
Qed.
