(* RadixSpec.v -- representation invariant of Timer/RadixModel.v and its
   relation to the flat-map model Timer/HeapModel.v.  Definitions only.

   Ghost description of the tree.  A node is named by (l, q): level l above the
   leaves (leaves l = 0, the root l = rat_depth) and prefix q -- it covers the
   heap indices q * 128^(l+1) .. (q+1) * 128^(l+1) - 1.  `na l q` is the node
   number at which (l, q) lives; `D l q` says that (l, q) is allocated.  In a
   quiescent state D is `domH H`: exactly the nodes that contain an index <= H,
   where H ("high-water mark") is the largest index for which iv_timer_get_node
   has been called since the tree last had its present root subtree: interior
   and leaf nodes are allocated lazily and stay allocated until
   iv_timer_radix_tree_remove_level frees them. *)

From Coq Require Import List ZArith Bool FMapPositive.
From Ivv Require Import Timer.HeapModel Timer.HeapSpec Timer.RadixModel.
Import ListNotations.
Local Open Scope Z_scope.

(* 128^l *)
Definition P (l : Z) : Z := 2 ^ (SPLIT_BITS * l).

(* the digits of an index: digit l selects the child in the node at level l *)
Definition digit (index l : Z) : Z := (index / P l) mod NODES.
(* the path from the root (level d) down to the leaf: digits d, d-1, .., 0 *)
Fixpoint path (d : nat) (index : Z) : list Z :=
  match d with
  | O => [digit index 0]
  | S d' => digit index (Z.of_nat d) :: path d' index
  end.

Definition domH (H l q : Z) : bool := (0 <=? q) && (q * P (l + 1) <=? H).

Definition live_true (rs : rstate) (n : Z) : Prop :=
  match n with Zpos p => PM.find p (live rs) = Some true | _ => False end.

(* the memory encodes the tree (na, D) *)
Record Shape (rs : rstate) (na : Z -> Z -> Z) (D : Z -> Z -> bool) : Prop := {
  sh_depth : 0 <= rdepth rs <= 4;            (* five levels address every positive int *)
  sh_root : mget (mem rs) ROOT_CELL = CNode (na (rdepth rs) 0);
  sh_rootD : D (rdepth rs) 0 = true;
  sh_first : na 0 0 = FIRST_LEAF;
  sh_firstD : D 0 0 = true;
  sh_closed : forall l q, 1 <= l <= rdepth rs -> D (l - 1) q = true -> D l (q / NODES) = true;
  sh_live : forall l q, 0 <= l <= rdepth rs -> D l q = true -> ~ (l = 0 /\ q = 0) ->
              2 <= na l q < next rs /\ live_true rs (na l q);
  sh_inj : forall l q l' q', 0 <= l <= rdepth rs -> D l q = true ->
              0 <= l' <= rdepth rs -> D l' q' = true -> na l q = na l' q' -> l = l' /\ q = q';
  sh_cells : forall l q j, 1 <= l <= rdepth rs -> D l q = true -> 0 <= j < NODES ->
              mget (mem rs) (na l q * NODES + j) =
              if D (l - 1) (q * NODES + j) then CNode (na (l - 1) (q * NODES + j)) else CNull;
  (* no leak: every live calloc'ed node is a node of the tree *)
  sh_only : forall n, live_true rs n ->
              exists l q, 0 <= l <= rdepth rs /\ D l q = true /\ na l q = n;
  sh_next : 2 <= next rs;
  sh_fresh_live : forall p, next rs <= Zpos p -> PM.find p (live rs) = None;
  sh_fresh_mem : forall a, next rs * NODES <= a -> mget (mem rs) a = CNull;
  sh_first_dead : ~ live_true rs FIRST_LEAF;     (* first_leaf is not a calloc'ed block *)
}.

(* quiescent shape: the allocated nodes are those containing an index <= H *)
Definition ShapeH (rs : rstate) (na : Z -> Z -> Z) (H : Z) : Prop :=
  Shape rs na (domH H) /\ 0 <= H < P (rdepth rs + 1) /\ (0 < rdepth rs -> P (rdepth rs) <= H + 1).

(* the slot address of a heap index *)
Definition p_of (na : Z -> Z -> Z) (i : Z) : Z := na 0 (i / NODES) * NODES + i mod NODES.

Definition cell_of (o : option id) : cell :=
  match o with Some t => CTimer t | None => CNull end.

(* the tree holds exactly the flat map of the heap state s; everything else agrees *)
Record Rel (rs : rstate) (s : tstate) (na : Z -> Z -> Z) (H : Z) : Prop := {
  r_hs : set_slots (hs rs) (slots s) = s;
  r_cells : forall i, 1 <= i -> i / NODES * NODES <= H -> mget (mem rs) (p_of na i) = cell_of (sget s i);
  r_vac : forall i, H < i -> sget s i = None;
}.

(* the verified range of populations: below it no int computation of iv_timer.c leaves the
   range of int (2 * index in push_down needs index < 2^30; ++num_timers needs num_timers < INT_MAX) *)
Definition POP_BOUND : Z := 2 ^ 30.

(* the invariant of the radix-tree store, as the C code maintains it between operations *)
Definition RInv (rs : rstate) : Prop :=
  exists na H, ShapeH rs na H /\ 0 <= rnum rs <= H /\ H < POP_BOUND /\
    (* the depth is minimal: a level is added when index reaches 128^(depth+1),
       removed when num_timers == 128^depth is about to be decremented *)
    (0 < rdepth rs -> P (rdepth rs) <= rnum rs).

(* the flat-map state implemented by rs *)
Definition Refines (rs : rstate) (s : tstate) : Prop :=
  exists na H, ShapeH rs na H /\ Rel rs s na H /\ num s <= H /\ H < POP_BOUND.

(* nothing calloc'ed is live *)
Definition all_freed (rs : rstate) : Prop := forall n, ~ live_true rs n.

(* rs' is rs with the nodes satisfying F freed (used in the specification of free_ratnode) *)
Record Frees (rs rs' : rstate) (F : Z -> Prop) : Prop := {
  fr_mem : mem rs' = mem rs;
  fr_next : next rs' = next rs;
  fr_in : forall p, F (Zpos p) -> PM.find p (live rs') = Some false /\ PM.find p (live rs) = Some true;
  fr_out : forall p, ~ F (Zpos p) -> PM.find p (live rs') = PM.find p (live rs);
}.

Definition rok_state (o : routcome) : option rstate :=
  match o with ROk rs => Some rs | _ => None end.

(* ---------- observable traces of histories (what the drivers print) ---------- *)
Definition obs : Type := (Z * list id * (Z * Z * Z * list (option id)))%type.

Definition hobs (s : tstate) : Z * Z * Z * list (option id) := (num s, depth s, numobjs s, dump_slots s).
Definition robs (rs : rstate) : Z * Z * Z * list (option id) :=
  (rnum rs, rdepth rs, numobjs (hs rs), rdump_slots rs).

Fixpoint htrace (sc : scripts) (ops : list op) (s : tstate) : list obs :=
  match ops with
  | [] => []
  | o :: ops' =>
      match step sc s o with
      | (Ok s', rc, f) => (rc, f, hobs s') :: htrace sc ops' s'
      | _ => []
      end
  end.

Fixpoint rtrace (sc : scripts) (ops : list op) (rs : rstate) : list obs :=
  match ops with
  | [] => []
  | o :: ops' =>
      match rstep sc rs o with
      | (ROk rs', rc, f) => (rc, f, robs rs') :: rtrace sc ops' rs'
      | _ => []
      end
  end.

(* ghost-free reachability: the nodes found by following child pointers from timer_root *)
Inductive reach (rs : rstate) : Z -> Z -> Prop :=
| reach_root : forall r, mget (mem rs) ROOT_CELL = CNode r -> reach rs (rdepth rs) r
| reach_child : forall l n j k, reach rs l n -> 1 <= l -> 0 <= j < NODES ->
    mget (mem rs) (n * NODES + j) = CNode k -> reach rs (l - 1) k.

(* every timer id used by a history (top-level operations and handler scripts) is below b *)
Definition act_id (a : act) : id := match a with AReg t _ => t | AUnreg t => t end.
Definition acts_below (b : Z) (l : list act) : Prop := forall a, In a l -> Zpos (act_id a) < b.
Definition scripts_below (b : Z) (sc : scripts) : Prop := forall t, acts_below b (sc t).
Definition ops_below (b : Z) (ops : list op) : Prop :=
  forall o, In o ops -> match o with OAct a => Zpos (act_id a) < b | ORun _ => True end.

(* the registered timers have ids below b *)
Definition RegBelow (b : Z) (s : tstate) : Prop := forall t, 1 <= tidx s t -> Zpos t < b.
