(* HeapReg.v -- iv_timer_register. *)
From Coq Require Import List ZArith Bool Lia.
From Ivv Require Import Timer.HeapModel Timer.HeapSpec Timer.HeapBase Timer.HeapSift Timer.HeapFacts.
Import ListNotations.
Local Open Scope Z_scope.

Ltac Zify.zify_post_hook ::= Z.div_mod_to_equations.

Lemma register_unfold : forall s t, tidx s t = -1 ->
  register s t =
  match get_node (set_num (set_numobjs s (numobjs s + 1)) (num s + 1)) (num s + 1) with
  | None => Crash
  | Some s1 =>
      match pull_up (log2_fuel (num s + 1))
                    (set_idx (sset s1 (num s + 1) (Some t)) t (num s + 1)) (num s + 1) with
      | Some s3 => Ok s3
      | None => Crash
      end
  end.
Proof. intros s t H. unfold register. rewrite H. reflexivity. Qed.

(* the address computation of register, with the possible growth *)
Lemma register_node : forall s, 0 <= num s -> DepthOK s ->
  exists s1,
    get_node (set_num (set_numobjs s (numobjs s + 1)) (num s + 1)) (num s + 1) = Some s1 /\
    slots s1 = slots s /\ tm s1 = tm s /\ num s1 = num s + 1 /\ batch s1 = batch s /\
    numobjs s1 = numobjs s + 1 /\ now s1 = now s /\ DepthOK s1.
Proof.
  intros s N (D1 & D2 & D3).
  set (sB := set_num (set_numobjs s (numobjs s + 1)) (num s + 1)).
  assert (EdB : depth sB = depth s) by reflexivity.
  destruct (Z_lt_dec (num s + 1) (cap (depth s))) as [Lt|Ge].
  - exists sB. split; [apply get_node_same; rewrite ?EdB; lia|].
    repeat split; try reflexivity.
    + rewrite EdB; assumption.
    + rewrite EdB. change (num sB) with (num s + 1). assumption.
    + rewrite EdB. change (num sB) with (num s + 1). intros H; specialize (D3 H); lia.
  - assert (E : num s + 1 = cap (depth s)) by lia.
    exists (set_depth sB (depth sB + 1)).
    split; [apply get_node_grow; rewrite ?EdB; lia|].
    repeat split; try reflexivity.
    + change (depth (set_depth sB (depth sB + 1))) with (depth s + 1). lia.
    + change (depth (set_depth sB (depth sB + 1))) with (depth s + 1).
      change (num (set_depth sB (depth sB + 1))) with (num s + 1).
      rewrite cap_succ by lia. pose proof (cap_pos (depth s) D1). lia.
    + change (depth (set_depth sB (depth sB + 1))) with (depth s + 1).
      change (num (set_depth sB (depth sB + 1))) with (num s + 1).
      intros _. rewrite E. rewrite <- cap_pred. replace (depth s + 1 - 1) with (depth s) by lia. lia.
Qed.

Lemma register_inv : forall s t, Inv s -> tget s t <> None -> tidx s t = -1 ->
  exists s', register s t = Ok s' /\ Inv s' /\
    abs s' t = Some (texp s t) /\
    (forall t', t' <> t -> tsim s s' t') /\
    (forall t', texp s' t' = texp s t') /\
    batch s' = batch s /\ num s' = num s + 1 /\ now s' = now s.
Proof.
  intros s t I TG TI.
  destruct I as [N D F V B O BO NO].
  rewrite register_unfold by assumption.
  destruct (register_node s N D) as (s1 & G & Sl & Tm & N1 & B1 & NO1 & NW1 & D1).
  rewrite G.
  set (i := num s + 1) in *.
  set (s2 := set_idx (sset s1 i (Some t)) t i).
  (* facts about s2 *)
  assert (N2 : num s2 = i).
  { unfold s2. rewrite num_set_idx, num_sset. assumption. }
  assert (Dp2 : depth s2 = depth s1).
  { unfold s2. rewrite depth_set_idx, depth_sset. reflexivity. }
  assert (G2i : sget s2 i = Some t).
  { unfold s2. rewrite sget_set_idx. apply sget_sset_same. lia. }
  assert (G2o : forall k, k <> i -> sget s2 k = sget s k).
  { intros k K. unfold s2. rewrite sget_set_idx, sget_sset_other by congruence.
    apply sget_ext; assumption. }
  assert (X2 : forall t', texp s2 t' = texp s t').
  { intros t'. unfold s2. rewrite texp_set_idx, texp_sset. apply texp_ext; assumption. }
  assert (T2t : tidx s2 t = i).
  { unfold s2. apply tidx_set_idx_same. rewrite tget_sset, (tget_ext s s1 t Tm). assumption. }
  assert (T2o : forall t', t' <> t -> tidx s2 t' = tidx s t').
  { intros t' K. unfold s2. rewrite tidx_set_idx_other, tidx_sset by assumption.
    apply tidx_ext; assumption. }
  assert (K2 : forall k, 1 <= k <= num s -> key s2 k = key s k).
  { intros k K. unfold key. rewrite G2o by lia. destruct (sget s k); [apply X2|reflexivity]. }
  assert (F2 : Filled s2).
  { intros k K. rewrite N2 in K. destruct (Z.eq_dec k i) as [->|Ki].
    - exists t. split; assumption.
    - destruct (F k ltac:(lia)) as (t0 & E0 & I0). exists t0. rewrite G2o by assumption.
      split; [assumption|]. rewrite T2o; [assumption|]. intro; subst t0. lia. }
  assert (V2 : Vacant s2).
  { intros k K. rewrite N2 in K. rewrite G2o by lia. apply V. lia. }
  assert (U2 : UpInv (num s2) (key s2) i).
  { rewrite N2. split.
    - intros j Rj J1 J2. rewrite !K2 by lia. apply O. lia.
    - intros I2 c Rc E. lia. }
  assert (C2 : ChildOK (num s2) (key s2) i).
  { rewrite N2. intros c Rc E. lia. }
  destruct D1 as (D1a & D1b & D1c).
  destruct (pull_up_ok (log2_fuel i) s2 i F2) as (s3 & P & S & _ & FU).
  { rewrite Dp2; assumption. }
  { rewrite Dp2, N2, <- N1; assumption. }
  { rewrite N2; lia. }
  { apply log2_fuel_gt. }
  { assumption. }
  specialize (FU C2). fold s2. rewrite P.
  exists s3. split; [reflexivity|].
  assert (N3 : num s3 = i) by (rewrite (sf_num _ _ S); assumption).
  assert (B2 : Back s2).
  { intros t' H. destruct (Pos.eq_dec t' t) as [->|K].
    - unfold inslot. rewrite T2t, N2, G2i. split; [lia|reflexivity].
    - rewrite T2o in H by assumption. destruct (B t' H) as [R E].
      unfold inslot. rewrite T2o, N2 by assumption. rewrite G2o by lia. split; [lia|assumption]. }
  assert (TS2 : forall t', t' <> t -> tsim s s2 t').
  { intros t' K. apply tsim_eq. apply T2o; assumption. }
  split; [|split; [|split; [|split; [|split; [|split]]]]].
  - constructor.
    + lia.
    + unfold DepthOK. rewrite (sf_depth _ _ S), Dp2, N3, <- N1. repeat split; assumption.
    + apply (sf_filled _ _ S).
    + eapply Sift_vacant; eassumption.
    + eapply Sift_back; eassumption.
    + unfold Ordered. rewrite N3, <- N2. assumption.
    + destruct BO as (BO1 & BO2 & BO3).
      assert (Bt : batch s3 = batch s).
      { rewrite (sf_batch _ _ S). unfold s2. rewrite batch_set_idx, batch_sset. assumption. }
      unfold BatchOK. rewrite Bt. split; [|split; [assumption|]].
      * intros t'. rewrite BO1. destruct (Pos.eq_dec t' t) as [->|K].
        -- pose proof (Sift_tsim s2 s3 t S) as T. unfold tsim in T. lia.
        -- pose proof (tsim_trans _ _ _ _ (TS2 t' K) (Sift_tsim s2 s3 t' S)) as T.
           unfold tsim in T. lia.
      * intros t'. destruct (Pos.eq_dec t' t) as [->|K].
        -- pose proof (Sift_tsim s2 s3 t S) as T. unfold tsim in T. lia.
        -- pose proof (tsim_trans _ _ _ _ (TS2 t' K) (Sift_tsim s2 s3 t' S)) as T.
           specialize (BO3 t'). unfold tsim in T. lia.
    + rewrite (sf_numobjs _ _ S). unfold s2. rewrite numobjs_set_idx, numobjs_sset. lia.
  - rewrite (Sift_abs s2 s3 t S). unfold abs. rewrite T2t, X2.
    destruct (Z.leb_spec 1 i); [reflexivity|lia].
  - intros t' K. eapply tsim_trans; [apply TS2; assumption|apply Sift_tsim; assumption].
  - intros t'. rewrite (sf_texp _ _ S). apply X2.
  - rewrite (sf_batch _ _ S). unfold s2. rewrite batch_set_idx, batch_sset. assumption.
  - assumption.
  - rewrite (sf_now _ _ S). unfold s2. rewrite now_set_idx, now_sset. assumption.
Qed.
