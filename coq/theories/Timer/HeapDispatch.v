(* HeapDispatch.v -- handler scripts, the second loop of iv_run_timers, whole rounds. *)
From Coq Require Import List ZArith Bool Lia Sorted.
From Ivv Require Import Timer.HeapModel Timer.HeapSpec Timer.HeapBase Timer.HeapSift
  Timer.HeapFacts Timer.HeapReg Timer.HeapUnreg Timer.HeapCollect.
Import ListNotations.
Local Open Scope Z_scope.

Ltac Zify.zify_post_hook ::= Z.div_mod_to_equations.

(* ---------- sub-sequences ---------- *)
Inductive sub : list id -> list id -> Prop :=
| sub_nil : sub [] []
| sub_skip : forall x l1 l2, sub l1 l2 -> sub l1 (x :: l2)
| sub_keep : forall x l1 l2, sub l1 l2 -> sub (x :: l1) (x :: l2).

Lemma sub_refl : forall l, sub l l.
Proof. induction l; constructor; assumption. Qed.

Lemma sub_nil_inv : forall l, sub l [] -> l = [].
Proof. intros l H. inversion H. reflexivity. Qed.

Lemma sub_trans : forall l1 l2 l3, sub l1 l2 -> sub l2 l3 -> sub l1 l3.
Proof.
  intros l1 l2 l3 H12 H23. revert l1 H12.
  induction H23 as [|x l2 l3 H IH|x l2 l3 H IH]; intros l1 H12.
  - assumption.
  - apply sub_skip. apply IH. assumption.
  - inversion H12 as [|y a b H'|y a b H']; subst.
    + apply sub_skip. apply IH. assumption.
    + apply sub_keep. apply IH. assumption.
Qed.

Lemma sub_in : forall l1 l2 x, sub l1 l2 -> In x l1 -> In x l2.
Proof.
  intros l1 l2 x H. induction H as [|y l1 l2 H IH|y l1 l2 H IH]; intros Hx.
  - assumption.
  - right. apply IH. assumption.
  - destruct Hx as [->|Hx]; [left; reflexivity|right; apply IH; assumption].
Qed.

Lemma sub_length : forall l1 l2, sub l1 l2 -> (length l1 <= length l2)%nat.
Proof. intros l1 l2 H. induction H; simpl; lia. Qed.

Lemma sub_remove_first : forall t l, sub (remove_first t l) l.
Proof.
  intros t l. induction l as [|a l IH]; [constructor|].
  cbn [remove_first]. destruct (Pos.eqb a t).
  - apply sub_skip. apply sub_refl.
  - apply sub_keep. assumption.
Qed.

Lemma sub_sorted : forall (R : id -> id -> Prop) l1 l2, sub l1 l2 ->
  StronglySorted R l2 -> StronglySorted R l1.
Proof.
  intros R l1 l2 H. induction H as [|y l1 l2 H IH|y l1 l2 H IH]; intros S.
  - assumption.
  - inversion S; subst. apply IH. assumption.
  - inversion S as [|? ? S' FA]; subst. constructor; [apply IH; assumption|].
    rewrite Forall_forall in *. intros x Hx. apply FA. eapply sub_in; eassumption.
Qed.

Lemma sub_nodup : forall l1 l2, sub l1 l2 -> NoDup l2 -> NoDup l1.
Proof.
  intros l1 l2 H. induction H as [|y l1 l2 H IH|y l1 l2 H IH]; intros S.
  - assumption.
  - inversion S; subst. apply IH. assumption.
  - inversion S as [|? ? NI S']; subst. constructor; [|apply IH; assumption].
    intro Hx. apply NI. eapply sub_in; eassumption.
Qed.

(* ---------- set_exp on an unregistered timer ---------- *)
Lemma set_exp_inv : forall s t e, Inv s -> tidx s t = -1 -> Inv (set_exp s t e).
Proof.
  intros s t e [N D F V B O BO NO] TI.
  destruct (set_exp_fields s t e) as (Sl & Nm & Dp & Bt & No & Nw).
  set (s' := set_exp s t e) in *.
  assert (G : forall k, sget s' k = sget s k) by (intros; apply sget_set_exp).
  assert (T : forall x, tidx s' x = tidx s x) by (intros; apply tidx_set_exp).
  constructor.
  - lia.
  - unfold DepthOK. rewrite Dp, Nm. exact D.
  - intros k K. rewrite Nm in K. destruct (F k K) as (t0 & E0 & I0). exists t0.
    rewrite G, T. split; assumption.
  - intros k K. rewrite Nm in K. rewrite G. apply V; assumption.
  - intros x H. rewrite T in H. destruct (B x H) as [R E]. unfold inslot.
    rewrite T, Nm, G. split; assumption.
  - unfold Ordered. rewrite Nm.
    assert (KE : forall k, 1 <= k <= num s -> key s' k = key s k).
    { intros k K. unfold key. rewrite G. destruct (F k K) as (t0 & E0 & I0). rewrite E0.
      apply texp_set_exp_other. intro; subst t0. lia. }
    intros j Rj. rewrite !KE by lia. apply O; assumption.
  - destruct BO as (B1 & B2 & B3). unfold BatchOK. rewrite Bt. split; [|split; [assumption|]].
    + intros x. rewrite T. apply B1.
    + intros x. rewrite T. apply B3.
  - lia.
Qed.

(* ---------- one handler action ---------- *)
Lemma do_act_ok : forall s a, Inv s ->
  exists s', fst (do_act s a) = Ok s' /\ Inv s' /\ sub (batch s') (batch s) /\
    (forall t, In t (batch s) -> ~ In t (batch s') -> a = AUnreg t).
Proof.
  intros s a I. destruct a as [t e|t]; cbn [do_act].
  - destruct (Z.eqb_spec (tidx s t) (-1)) as [E|NE]; cbn [fst].
    + destruct (register_inv (set_exp s t e) t) as (s' & R & I' & _ & _ & _ & Bt & _).
      * apply set_exp_inv; assumption.
      * apply tget_set_exp_same.
      * rewrite tidx_set_exp. assumption.
      * destruct (set_exp_fields s t e) as (_ & _ & _ & Bt0 & _).
        exists s'. split; [assumption|split; [assumption|]].
        rewrite Bt, Bt0. split; [apply sub_refl|]. intros x H1 H2. contradiction.
    + exists s. split; [reflexivity|split; [assumption|split; [apply sub_refl|]]].
      intros x H1 H2. contradiction.
  - destruct (Z.eqb_spec (tidx s t) (-1)) as [E|NE]; cbn [fst].
    + exists s. split; [reflexivity|split; [assumption|split; [apply sub_refl|]]].
      intros x H1 H2. contradiction.
    + pose proof (proj2 (proj2 (i_batch s I)) t) as Ge.
      destruct (Z.eq_dec (tidx s t) 0) as [Z0|NZ].
      * rewrite (unregister_expired_eq s t Z0).
        destruct (pop_inv s t I Z0) as (I' & _ & _ & _ & Bt & _).
        eexists. split; [reflexivity|split; [exact I'|]].
        rewrite Bt. split; [apply sub_remove_first|].
        intros x H1 H2. destruct (Pos.eq_dec x t) as [->|K]; [reflexivity|].
        exfalso. apply H2. apply remove_first_in; [apply (i_batch s I)|]. split; assumption.
      * destruct (unregister_inv s t I ltac:(lia)) as (s' & U & I' & _ & _ & _ & Bt & _).
        exists s'. split; [assumption|split; [assumption|]].
        rewrite Bt. split; [apply sub_refl|]. intros x H1 H2. contradiction.
Qed.

Lemma do_acts_ok : forall l s, Inv s ->
  exists s', do_acts s l = Ok s' /\ Inv s' /\ sub (batch s') (batch s) /\
    (forall t, In t (batch s) -> ~ In t (batch s') -> In (AUnreg t) l).
Proof.
  induction l as [|a l IH]; intros s I.
  - exists s. split; [reflexivity|split; [assumption|split; [apply sub_refl|]]].
    intros x H1 H2. contradiction.
  - cbn [do_acts]. destruct (do_act_ok s a I) as (s1 & E1 & I1 & S1 & U1). rewrite E1.
    destruct (IH s1 I1) as (s' & E' & I' & S' & U').
    exists s'. split; [assumption|split; [assumption|split; [eapply sub_trans; eassumption|]]].
    intros x H1 H2. destruct (in_dec Pos.eq_dec x (batch s1)) as [Y|Nn].
    + right. apply U'; assumption.
    + left. apply U1; assumption.
Qed.

(* ---------- the dispatch loop ---------- *)
Lemma dispatch_ok : forall sc fuel s fired0, Inv s -> (length (batch s) < fuel)%nat ->
  exists s' fl, dispatch fuel sc s fired0 = (Ok s', fired0 ++ fl) /\ Inv s' /\ batch s' = [] /\
    sub fl (batch s) /\
    (forall t, In t (batch s) -> In t fl \/ exists t0, In t0 fl /\ In (AUnreg t) (sc t0)).
Proof.
  intros sc. induction fuel as [|f IH]; intros s fired0 I L; [lia|].
  cbn [dispatch]. destruct (batch s) as [|t rest] eqn:Eb.
  - exists s, []. rewrite app_nil_r. split; [reflexivity|split; [assumption|split; [assumption|]]].
    split; [constructor|]. intros x [].
  - assert (T0 : tidx s t = 0).
    { apply (proj1 (i_batch s I)). rewrite Eb. left. reflexivity. }
    destruct (pop_inv s t I T0) as (I1 & _ & _ & _ & B1 & _).
    rewrite Eb in I1, B1. cbn [remove_first] in I1, B1. rewrite Pos.eqb_refl in I1, B1.
    set (s1 := set_idx (set_batch s rest) t (-1)) in *.
    destruct (do_acts_ok (sc t) s1 I1) as (s2 & E2 & I2 & S2 & U2). rewrite E2.
    rewrite B1 in S2, U2.
    destruct (IH s2 (fired0 ++ [t]) I2) as (s' & fl & D & I' & B' & S' & C').
    { pose proof (sub_length _ _ S2). simpl in L. lia. }
    exists s', (t :: fl). rewrite D, <- app_assoc.
    split; [reflexivity|split; [assumption|split; [assumption|]]].
    split; [apply sub_keep; eapply sub_trans; eassumption|].
    intros x [->|Hx]; [left; left; reflexivity|].
    destruct (in_dec Pos.eq_dec x (batch s2)) as [Y|Nn].
    + destruct (C' x Y) as [H|(t0 & H1 & H2)]; [left; right; assumption|].
      right. exists t0. split; [right; assumption|assumption].
    + right. exists t. split; [left; reflexivity|]. apply U2; assumption.
Qed.

Lemma dispatch_pure : forall fuel s fired0, Inv s -> (length (batch s) < fuel)%nat ->
  exists s', dispatch fuel no_scripts s fired0 = (Ok s', fired0 ++ batch s) /\ Inv s' /\
    (forall t, abs s' t = abs s t).
Proof.
  induction fuel as [|f IH]; intros s fired0 I L; [lia|].
  cbn [dispatch]. destruct (batch s) as [|t rest] eqn:Eb.
  - exists s. rewrite app_nil_r. split; [reflexivity|split; [assumption|reflexivity]].
  - assert (T0 : tidx s t = 0).
    { apply (proj1 (i_batch s I)). rewrite Eb. left. reflexivity. }
    destruct (pop_inv s t I T0) as (I1 & _ & _ & _ & B1 & _ & _ & A1).
    rewrite Eb in I1, B1, A1. cbn [remove_first] in I1, B1, A1. rewrite Pos.eqb_refl in I1, B1, A1.
    set (s1 := set_idx (set_batch s rest) t (-1)) in *.
    unfold no_scripts at 1. cbn [do_acts].
    destruct (IH s1 (fired0 ++ [t]) I1) as (s' & D & I' & A').
    { rewrite B1. simpl in L. lia. }
    exists s'. rewrite D, B1, <- app_assoc.
    split; [reflexivity|split; [assumption|]].
    intros x. rewrite A'. apply A1.
Qed.

(* ---------- the collection loop as used by run_timers ---------- *)
Lemma collect_round : forall s clock, Inv s -> batch s = [] ->
  exists s', collect (S (Z.to_nat (num s))) (set_now s clock) = Ok s' /\ Inv s' /\
    StronglySorted (le_exp s) (batch s') /\
    (forall t, In t (batch s') <-> exists e, abs s t = Some e /\ e <= clock) /\
    (forall t e, abs s' t = Some e -> clock < e /\ abs s t = Some e) /\
    (forall t e, abs s t = Some e -> clock < e -> abs s' t = Some e).
Proof.
  intros s clock I Bn.
  set (s0 := set_now s clock).
  assert (I0 : Inv s0) by (apply (Inv_ext s s0); try reflexivity; assumption).
  assert (T0 : forall t, tidx s0 t = tidx s t) by (intros; apply tidx_ext; reflexivity).
  assert (X0 : forall t, texp s0 t = texp s t) by (intros; apply texp_ext; reflexivity).
  destruct (collect_ok (S (Z.to_nat (num s))) s0 I0) as (s' & l & C & I' & B' & X' & NW' & SS' & IN' & GE').
  { change (num s0) with (num s). pose proof (i_num s I). lia. }
  change (batch s0) with (batch s) in B'. rewrite Bn in B'. simpl in B'.
  change (now s0) with clock in *.
  exists s'. split; [assumption|split; [assumption|]].
  assert (AB : forall t e, abs s t = Some e <-> 1 <= tidx s t /\ e = texp s t).
  { intros t e. unfold abs. destruct (Z.leb_spec 1 (tidx s t)) as [Q|Q].
    - split; [intros H; inversion H; split; [assumption|reflexivity]|intros [_ ->]; reflexivity].
    - split; [discriminate|lia]. }
  assert (AB' : forall t e, abs s' t = Some e <-> 1 <= tidx s' t /\ e = texp s t).
  { intros t e. unfold abs. rewrite X', X0. destruct (Z.leb_spec 1 (tidx s' t)) as [Q|Q].
    - split; [intros H; inversion H; split; [assumption|reflexivity]|intros [_ ->]; reflexivity].
    - split; [discriminate|lia]. }
  split; [|split; [|split]].
  - rewrite B'. apply (SS_ext (le_exp s0)); [|assumption].
    intros a b. unfold le_exp. rewrite !X0. tauto.
  - intros t. rewrite B', IN', T0, X0. split.
    + intros [H1 H2]. exists (texp s t). split; [apply AB; split; [assumption|reflexivity]|assumption].
    + intros (e & H1 & H2). apply AB in H1. destruct H1 as [H1 ->]. split; assumption.
  - intros t e H. apply AB' in H. destruct H as [H ->]. apply GE' in H.
    rewrite T0, X0 in H. destruct H as [H1 H2]. split; [assumption|].
    apply AB. split; [assumption|reflexivity].
  - intros t e H Lt. apply AB in H. destruct H as [H ->]. apply AB'. split; [|reflexivity].
    apply GE'. rewrite T0, X0. split; assumption.
Qed.
