(* HeapLink.v -- the index arithmetic and the guards of Timer/HeapModel.v ARE the code of pull_up, push_down,
   iv_timer_register, iv_timer_unregister, iv_run_timers and iv_get_soonest_timeout of src/iv_timer.c.

   gen/c2gallina.py re-translates on every run into Gen/LeafHeap.v (C `int` arithmetic is range-checked: None =
   signed overflow, which C leaves undefined):
     heap_pull_more `while (index != 1)`      heap_pull_parent `parent = index / 2`      heap_pull_next `index = parent`
     heap_push_has_child `if (2 * index <= st->num_timers)`     heap_push_self/left/right `index_min = index / 2 * index / 2 * index + 1`
     heap_push_node  the index passed to iv_timer_get_node      heap_push_done `if (index == index_min)`
     heap_reg_misuse `if (t->index != -1)`    heap_reg_index `index = ++st->num_timers`  heap_reg_numobjs `st->numobjs++`
     heap_unreg_misuse `t->index == -1`   heap_unreg_in_heap `t->index != 0` (0 = in the expired batch)   heap_unreg_range `t->index > st->num_timers`
     heap_run_none `!st->num_timers`   heap_run_more `while (st->num_timers)`   heap_run_root_index `t->index != 1`
     heap_soonest_any `if (st->num_timers)`
   They are proved equal to what the model computes on the verified range of heap indices (below 2^30); beyond it the
   translated `2 * index` is UNDEFINED (heap_push_overflows): this is the latent finding of section 9.3 of DESIGN.md
   (C05_radix_int_range_refuted), now read off the current source on every run. *)
From Coq Require Import List ZArith Bool Lia.
From Ivv Require Import Base.CSem Gen.LeafHeap Timer.HeapModel.
Import ListNotations.
Local Open Scope Z_scope.

Ltac Zify.zify_post_hook ::= Z.div_mod_to_equations.

Definition int_ok (x : Z) : Prop := - 2147483648 <= x < 2147483648.
Lemma chk_s32 x : int_ok x -> c_chk_s 32 x = Some x.
Proof.
  unfold int_ok, c_chk_s, c_in_s. intros H.
  assert (H1 : (- 2 ^ (32 - 1) <=? x) = true) by (apply Z.leb_le; change (2 ^ (32 - 1)) with 2147483648; lia).
  assert (H2 : (x <? 2 ^ (32 - 1)) = true) by (apply Z.ltb_lt; change (2 ^ (32 - 1)) with 2147483648; lia).
  rewrite H1, H2. reflexivity.
Qed.
Lemma chk_s32_none x : 2147483648 <= x -> c_chk_s 32 x = None.
Proof.
  unfold c_chk_s, c_in_s. intros H.
  assert (H2 : (x <? 2 ^ (32 - 1)) = false) by (apply Z.ltb_ge; change (2 ^ (32 - 1)) with 2147483648; lia).
  rewrite H2, andb_false_r. reflexivity.
Qed.

(* ---- pull_up ---- *)
Lemma leaf_pull_more : forall i, heap_pull_more i = Some (negb (i =? 1)).
Proof. reflexivity. Qed.

Lemma leaf_pull_parent : forall i, 0 <= i < 2147483648 -> heap_pull_parent i = Some (i / 2).
Proof.
  intros i H. unfold heap_pull_parent, c_div_s. cbn [Z.eqb].
  rewrite Z.quot_div_nonneg by lia. apply chk_s32. unfold int_ok. lia.
Qed.

Lemma leaf_pull_next : forall p, heap_pull_next p = Some p.
Proof. reflexivity. Qed.

(* one iteration of pull_up of the model, with the translated loop test and parent computation *)
Theorem pull_up_step_is_the_code : forall f s i, 0 <= i < 2147483648 ->
  pull_up (S f) s i =
  match heap_pull_more i, heap_pull_parent i with
  | Some more, Some parent =>
      if more then
        match get_node s parent with
        | None => None
        | Some s1 =>
            match sget s1 parent, sget s1 i with
            | Some tp, Some ti =>
                if ptr_gt s1 tp ti then
                  match heap_pull_next parent with Some nx => pull_up f (swap_slots s1 i parent ti tp) nx | None => None end
                else Some s1
            | _, _ => None
            end
        end
      else Some s
  | _, _ => None
  end.
Proof.
  intros f s i H. rewrite leaf_pull_more, leaf_pull_parent by assumption. cbn [pull_up].
  destruct (i =? 1); reflexivity.
Qed.

(* ---- push_down ---- *)
Lemma leaf_push_indices : forall i n, 0 <= i < 1073741824 ->
  heap_push_has_child i n = Some (2 * i <=? n) /\ heap_push_self i = Some i /\
  heap_push_left i = Some (2 * i) /\ heap_push_right i = Some (2 * i + 1) /\ heap_push_node i = Some (2 * i).
Proof.
  intros i n H. unfold heap_push_has_child, heap_push_left, heap_push_right, heap_push_node, heap_push_self.
  rewrite (chk_s32 (2 * i)) by (unfold int_ok; lia). cbn [ub_bind].
  rewrite (chk_s32 (2 * i + 1)) by (unfold int_ok; lia). repeat split; reflexivity.
Qed.

(* beyond 2^30 the test of push_down itself is undefined behaviour (signed overflow of `2 * index`) *)
Theorem heap_push_overflows : forall i n, 1073741824 <= i -> heap_push_has_child i n = None.
Proof.
  intros i n H. unfold heap_push_has_child. rewrite chk_s32_none by lia. reflexivity.
Qed.

Lemma leaf_push_done : forall i m, heap_push_done i m = Some (i =? m).
Proof. reflexivity. Qed.
Lemma leaf_push_next : forall m, heap_push_next m = Some m.
Proof. reflexivity. Qed.

(* the choice of the smaller child, as the model makes it, from the translated indices: [gl] = timer_ptr_gt( *imin, p[0]),
   [gr] = p[1] && timer_ptr_gt( *imin, p[1]) evaluated after the first assignment *)
Definition push_choice_code (i : Z) (gl gr : bool) : option Z :=
  ub_bind (heap_push_self i) (fun m0 =>
  ub_bind (heap_push_left i) (fun l =>
  ub_bind (heap_push_right i) (fun r =>
  Some (if gr then r else if gl then l else m0)))).

Lemma push_choice_is_the_code : forall i gl gr, 0 <= i < 1073741824 ->
  push_choice_code i gl gr = Some (if gr then 2 * i + 1 else if gl then 2 * i else i).
Proof.
  intros i gl gr H. unfold push_choice_code.
  destruct (leaf_push_indices i 0 H) as (_ & -> & -> & -> & _). reflexivity.
Qed.

(* ---- register / unregister / run_timers / soonest: guards ---- *)
Lemma leaf_reg : forall ix n no, int_ok (n + 1) -> int_ok (no + 1) ->
  heap_reg_misuse ix = Some (negb (ix =? -1)) /\ heap_reg_index n = Some (n + 1, n + 1) /\ heap_reg_numobjs no = Some (no + 1).
Proof.
  intros ix n no H1 H2. unfold heap_reg_misuse, heap_reg_index, heap_reg_numobjs.
  rewrite !chk_s32 by assumption. repeat split; reflexivity.
Qed.

Lemma leaf_unreg : forall ix n,
  heap_unreg_misuse ix = Some (ix =? -1) /\ heap_unreg_in_heap ix = Some (negb (ix =? 0)) /\
  heap_unreg_range ix n = Some (n <? ix).
Proof. intros. unfold heap_unreg_range. rewrite Z.gtb_ltb. repeat split; reflexivity. Qed.

Lemma leaf_run : forall n ix,
  heap_run_none n = Some (n =? 0) /\ heap_run_more n = Some (negb (n =? 0)) /\
  heap_run_root_index ix = Some (negb (ix =? 1)) /\ heap_soonest_any n = Some (negb (n =? 0)).
Proof. intros. unfold heap_run_none. rewrite negb_involutive. repeat split; reflexivity. Qed.

(* iv_timer_register of the model: misuse test, new heap index and object count are the translated ones *)
Theorem register_is_the_code : forall s t, int_ok (num s + 1) -> int_ok (numobjs s + 1) ->
  register s t =
  match heap_reg_misuse (tidx s t), heap_reg_numobjs (numobjs s), heap_reg_index (num s) with
  | Some misuse, Some no, Some (i, n') =>
      if misuse then Fatal s else
      let s := set_num (set_numobjs s no) n' in
      match get_node s i with
      | None => Crash
      | Some s1 =>
          match pull_up (log2_fuel i) (set_idx (sset s1 i (Some t)) t i) i with
          | Some s3 => Ok s3
          | None => Crash
          end
      end
  | _, _, _ => Crash
  end.
Proof.
  intros s t H1 H2. destruct (leaf_reg (tidx s t) (num s) (numobjs s) H1 H2) as (-> & -> & ->).
  unfold register. destruct (negb (tidx s t =? -1)); reflexivity.
Qed.

(* the guard chain of iv_timer_unregister *)
Theorem unregister_guards_are_the_code : forall s t,
  match heap_unreg_misuse (tidx s t), heap_unreg_in_heap (tidx s t), heap_unreg_range (tidx s t) (num s) with
  | Some misuse, Some in_heap, Some out_of_range =>
      (misuse = true -> unregister s t = Fatal s) /\
      (misuse = false -> in_heap = true -> out_of_range = true -> unregister s t = Fatal s)
  | _, _, _ => False
  end.
Proof.
  intros s t. destruct (leaf_unreg (tidx s t) (num s)) as (-> & -> & ->). unfold unregister.
  split.
  - intros ->. reflexivity.
  - intros -> -> ->. reflexivity.
Qed.

(* iv_get_soonest_timeout *)
Theorem soonest_is_the_code : forall s,
  soonest s =
  match heap_soonest_any (num s) with
  | Some true => match sget s 1 with Some t => Some (texp s t) | None => None end
  | _ => None
  end.
Proof.
  intros s. unfold soonest. destruct (leaf_run (num s) 0) as (_ & _ & _ & ->). destruct (num s =? 0); reflexivity.
Qed.

(* the loop of iv_run_timers that collects the expired timers: its exit test and the root-index sanity test *)
Theorem collect_step_is_the_code : forall f s,
  collect (S f) s =
  match heap_run_more (num s) with
  | Some true =>
      match sget s 1 with
      | None => Crash
      | Some t =>
          match heap_run_root_index (tidx s t) with
          | Some true => Fatal s
          | Some false =>
              if now s <? texp s t then Ok s else
              match unregister s t with
              | Ok s1 => collect f (set_idx (set_batch s1 (batch s1 ++ [t])) t 0)
              | o => o
              end
          | None => Crash
          end
      end
  | Some false => Ok s
  | None => Crash
  end.
Proof.
  intros f s. destruct (leaf_run (num s) 0) as (_ & -> & _ & _). cbn [collect].
  destruct (num s =? 0); cbn [negb]; [reflexivity|].
  destruct (sget s 1) as [t|]; [|reflexivity].
  destruct (leaf_run 0 (tidx s t)) as (_ & _ & -> & _).
  destruct (negb (tidx s t =? 1)); reflexivity.
Qed.

Example heap_link_samples :
  heap_pull_parent 7 = Some 3 /\ heap_push_left 5 = Some 10 /\ heap_push_right 5 = Some 11 /\
  heap_push_has_child 1073741824 5 = None /\ heap_unreg_range 9 8 = Some true /\ heap_unreg_range 8 8 = Some false.
Proof. repeat split; reflexivity. Qed.
