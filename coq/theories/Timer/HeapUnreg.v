(* HeapUnreg.v -- iv_timer_unregister. *)
From Coq Require Import List ZArith Bool Lia.
From Ivv Require Import Timer.HeapModel Timer.HeapSpec Timer.HeapBase Timer.HeapSift Timer.HeapFacts.
Import ListNotations.
Local Open Scope Z_scope.

Ltac Zify.zify_post_hook ::= Z.div_mod_to_equations.

(* ---------- the shrink test ---------- *)
Lemma shrink_ok : forall s3 n s4,
  1 <= n -> 0 <= depth s3 -> n < cap (depth s3) ->
  (0 < depth s3 -> 2 ^ (SPLIT_BITS * depth s3) <= n) ->
  (forall k, n <= k -> sget s3 k = None) ->
  s4 = (if (0 <? depth s3) && (n =? 2 ^ (depth s3 * SPLIT_BITS)) then remove_level s3 else s3) ->
  (forall k, sget s4 k = sget s3 k) /\ tm s4 = tm s3 /\ batch s4 = batch s3 /\
  numobjs s4 = numobjs s3 /\ now s4 = now s3 /\
  0 <= depth s4 /\ n - 1 < cap (depth s4) /\ (0 < depth s4 -> 2 ^ (SPLIT_BITS * depth s4) <= n - 1).
Proof.
  intros s3 n s4 N D1 D2 D3 H E.
  rewrite (Z.mul_comm (depth s3) SPLIT_BITS) in E.
  destruct (Z.ltb_spec 0 (depth s3)) as [Dp|Dz]; cbn [andb] in E.
  - destruct (Z.eqb_spec n (2 ^ (SPLIT_BITS * depth s3))) as [En|Nn].
    + subst s4. destruct (remove_level_fields s3) as (_ & Rd & Rt & Rb & Ro & Rn).
      assert (Cn : cap (depth s3 - 1) = n) by (rewrite cap_pred; congruence).
      split; [|split; [assumption|split; [assumption|split; [assumption|split; [assumption|split; [|split]]]]]].
      * intros k. rewrite sget_remove_level, Cn.
        destruct (Z.ltb_spec k n); [reflexivity|symmetry; apply H; assumption].
      * rewrite Rd; lia.
      * rewrite Rd, Cn; lia.
      * rewrite Rd. intros Dp2.
        replace (depth s3 - 1) with ((depth s3 - 2) + 1) in Cn by lia.
        rewrite cap_succ in Cn by lia.
        replace (depth s3 - 2) with ((depth s3 - 1) - 1) in Cn by lia.
        rewrite cap_pred in Cn.
        assert (0 < 2 ^ (SPLIT_BITS * (depth s3 - 1))).
        { apply Z.pow_pos_nonneg; unfold SPLIT_BITS; lia. }
        lia.
    + subst s4. split; [reflexivity|].
      split; [reflexivity|split; [reflexivity|split; [reflexivity|split; [reflexivity|]]]].
      split; [assumption|split; [lia|]].
      intros _. specialize (D3 Dp). lia.
  - subst s4. split; [reflexivity|].
    split; [reflexivity|split; [reflexivity|split; [reflexivity|split; [reflexivity|]]]].
    split; [assumption|split; [lia|lia]].
Qed.

(* ---------- unfolding unregister on a registered timer ---------- *)
Lemma unregister_unfold : forall s t tlast s3 s4 s5,
  1 <= tidx s t <= num s ->
  get_node s (tidx s t) = Some s -> sget s (tidx s t) = Some t ->
  get_node s (num s) = Some s -> sget s (num s) = Some tlast ->
  s3 = sset (set_idx (sset s (tidx s t) (Some tlast)) tlast (tidx s t)) (num s) None ->
  s4 = (if (0 <? depth s3) && (num s =? 2 ^ (depth s3 * SPLIT_BITS)) then remove_level s3 else s3) ->
  s5 = set_num s4 (num s - 1) ->
  unregister s t =
  match (if tidx s t =? num s then Some s5
         else match pull_up (log2_fuel (tidx s t)) s5 (tidx s t) with
              | None => None
              | Some s6 => push_down (log2_fuel (num s)) s6 (tidx s t)
              end) with
  | None => Crash
  | Some s7 => Ok (set_idx (set_numobjs s7 (numobjs s7 - 1)) t (-1))
  end.
Proof.
  intros s t tlast s3 s4 s5 R G1 E1 G2 E2 -> -> ->.
  unfold unregister. cbv zeta.
  assert (Q1 : (tidx s t =? -1) = false) by (apply Z.eqb_neq; lia).
  assert (Q2 : (tidx s t =? 0) = false) by (apply Z.eqb_neq; lia).
  assert (Q3 : (num s <? tidx s t) = false) by (apply Z.ltb_ge; lia).
  rewrite Q1, Q2. cbn [negb]. rewrite Q3, G1, E1, Pos.eqb_refl. cbn [negb].
  rewrite G2, E2. reflexivity.
Qed.

Lemma unregister_inv : forall s t, Inv s -> 1 <= tidx s t ->
  exists s', unregister s t = Ok s' /\ Inv s' /\ tidx s' t = -1 /\
    (forall t', t' <> t -> tsim s s' t') /\
    (forall t', texp s' t' = texp s t') /\
    batch s' = batch s /\ num s' = num s - 1 /\ now s' = now s /\ tget s' t <> None.
Proof.
  intros s t I TI.
  destruct I as [N D F V B O BO NO].
  destruct D as (D1 & D2 & D3).
  destruct (B t TI) as [Rix Eix].
  set (ix := tidx s t) in *. set (n := num s) in *.
  assert (Rn : 1 <= n <= n) by lia.
  destruct (F n Rn) as (tlast & El & Il).
  assert (TGl : tget s tlast <> None) by (apply tidx_tget; lia).
  assert (TGt : tget s t <> None) by (apply tidx_tget; fold ix; lia).
  pose (s3 := sset (set_idx (sset s ix (Some tlast)) tlast ix) n None).
  pose (s4 := if (0 <? depth s3) && (n =? 2 ^ (depth s3 * SPLIT_BITS)) then remove_level s3 else s3).
  pose (s5 := set_num s4 (n - 1)).
  rewrite (unregister_unfold s t tlast s3 s4 s5); try reflexivity; try assumption;
    try (apply get_node_same; fold ix n; lia).
  fold ix n.
  (* s3 *)
  assert (Dp3 : depth s3 = depth s).
  { unfold s3. rewrite depth_sset, depth_set_idx, depth_sset. reflexivity. }
  assert (G3n : sget s3 n = None).
  { unfold s3. apply sget_sset_same. lia. }
  assert (G3x : ix <> n -> sget s3 ix = Some tlast).
  { intros K. unfold s3. rewrite sget_sset_other by congruence.
    rewrite sget_set_idx. apply sget_sset_same. lia. }
  assert (G3o : forall k, k <> n -> k <> ix -> sget s3 k = sget s k).
  { intros k K1 K2. unfold s3. rewrite sget_sset_other by congruence.
    rewrite sget_set_idx. apply sget_sset_other. congruence. }
  assert (G3h : forall k, n <= k -> sget s3 k = None).
  { intros k K. destruct (Z.eq_dec k n) as [->|Kn]; [assumption|].
    rewrite G3o by lia. apply V. fold n. lia. }
  assert (TG3 : forall t', t' <> tlast -> tget s3 t' = tget s t').
  { intros t' K. unfold s3. rewrite tget_sset, tget_set_idx_other by assumption.
    apply tget_sset. }
  assert (T3l : tidx s3 tlast = ix).
  { unfold s3. rewrite tidx_sset. apply tidx_set_idx_same. rewrite tget_sset. assumption. }
  assert (X3 : forall t', texp s3 t' = texp s t').
  { intros t'. unfold s3. rewrite texp_sset, texp_set_idx, texp_sset. reflexivity. }
  assert (B3 : batch s3 = batch s).
  { unfold s3. rewrite batch_sset, batch_set_idx, batch_sset. reflexivity. }
  assert (NO3 : numobjs s3 = numobjs s).
  { unfold s3. rewrite numobjs_sset, numobjs_set_idx, numobjs_sset. reflexivity. }
  assert (NW3 : now s3 = now s).
  { unfold s3. rewrite now_sset, now_set_idx, now_sset. reflexivity. }
  (* s4 *)
  destruct (shrink_ok s3 n s4) as (G4 & Tm4 & B4 & NO4 & NW4 & D4a & D4b & D4c);
    try (rewrite ?Dp3; assumption); try reflexivity; try lia.
  (* s5 *)
  assert (N5 : num s5 = n - 1) by reflexivity.
  assert (Dp5 : depth s5 = depth s4) by reflexivity.
  assert (G5 : forall k, sget s5 k = sget s3 k).
  { intros k. unfold s5. rewrite sget_set_num. apply G4. }
  assert (Tm5 : tm s5 = tm s3) by exact Tm4.
  assert (X5 : forall t', texp s5 t' = texp s t').
  { intros t'. rewrite (texp_ext s3 s5 t' Tm5). apply X3. }
  assert (T5l : tidx s5 tlast = ix).
  { rewrite (tidx_ext s3 s5 tlast Tm5). assumption. }
  assert (TG5 : forall t', t' <> tlast -> tget s5 t' = tget s t').
  { intros t' K. rewrite (tget_ext s3 s5 t' Tm5). apply TG3; assumption. }
  assert (T5o : forall t', t' <> tlast -> tidx s5 t' = tidx s t').
  { intros t' K. unfold tidx. rewrite TG5 by assumption. reflexivity. }
  assert (K5 : forall k, 1 <= k <= n - 1 -> k <> ix -> key s5 k = key s k).
  { intros k K1 K2. unfold key. rewrite G5, G3o by lia.
    destruct (sget s k); [apply X5|reflexivity]. }
  assert (F5 : Filled s5).
  { intros k K. rewrite N5 in K. destruct (Z.eq_dec k ix) as [->|Kx].
    - exists tlast. rewrite G5, G3x by lia. split; [reflexivity|assumption].
    - destruct (F k ltac:(fold n; lia)) as (t0 & E0 & I0). exists t0.
      rewrite G5, G3o by lia. split; [assumption|].
      rewrite T5o; [assumption|]. intro; subst t0. lia. }
  assert (V5 : Vacant s5).
  { intros k K. rewrite N5 in K. rewrite G5. apply G3h. lia. }
  assert (NI5 : ~ inslot s5 t).
  { unfold inslot. rewrite N5. destruct (Pos.eq_dec t tlast) as [->|K].
    - rewrite T5l. fold ix in Il. lia.
    - rewrite T5o by assumption. fold ix. intros [R5 E5].
      rewrite G5, G3x in E5 by lia. congruence. }
  assert (BX5 : BackEx s5 t).
  { intros t' K H. unfold inslot. rewrite N5. destruct (Pos.eq_dec t' tlast) as [->|Kl].
    - rewrite T5l. assert (ix <> n) by (intro Q; apply K; fold ix in Eix; rewrite Q in Eix; congruence).
      rewrite G5, G3x by assumption. split; [lia|reflexivity].
    - rewrite T5o in * by assumption. destruct (B t' H) as [R' E'].
      assert (tidx s t' <> ix) by (intro Q; rewrite Q in E'; congruence).
      assert (tidx s t' <> n) by (intro Q; rewrite Q in E'; fold n in El; congruence).
      fold n in R'. rewrite G5, G3o by assumption. split; [lia|assumption]. }
  (* the two sifts *)
  assert (SIFT : exists s7,
    (if ix =? n then Some s5
     else match pull_up (log2_fuel ix) s5 ix with
          | None => None
          | Some s6 => push_down (log2_fuel n) s6 ix
          end) = Some s7 /\ Sift s5 s7 /\ Full (n - 1) (key s7)).
  { destruct (Z.eqb_spec ix n) as [Exn|Nxn].
    - exists s5. split; [reflexivity|split; [apply Sift_refl; assumption|]].
      intros j Rj. rewrite !K5 by lia. apply O. fold n. lia.
    - assert (U5 : UpInv (num s5) (key s5) ix).
      { rewrite N5. split.
        - intros j Rj J1 J2. rewrite !K5 by lia. apply O. fold n. lia.
        - intros I2 c Rc E. rewrite !K5 by lia.
          pose proof (O ix ltac:(fold n; lia)) as O1.
          pose proof (O c ltac:(fold n; lia)) as O2. rewrite E in O2. lia. }
      destruct (pull_up_ok (log2_fuel ix) s5 ix F5) as (s6 & P6 & S6 & DI6 & _).
      { rewrite Dp5; assumption. }
      { rewrite Dp5, N5; assumption. }
      { rewrite N5; lia. }
      { apply log2_fuel_gt. }
      { assumption. }
      rewrite P6.
      assert (N6 : num s6 = n - 1) by (rewrite (sf_num _ _ S6); assumption).
      destruct (push_down_ok (log2_fuel n) s6 ix) as (s7 & P7 & S7 & FU7).
      { apply (sf_filled _ _ S6). }
      { eapply Sift_vacant; eassumption. }
      { rewrite (sf_depth _ _ S6), Dp5; assumption. }
      { rewrite (sf_depth _ _ S6), Dp5, N6; assumption. }
      { rewrite N6; lia. }
      { rewrite N6. pose proof (log2_fuel_gt n).
        assert (Z.log2 (n - 1) <= Z.log2 n) by (apply Z.log2_le_mono; lia).
        pose proof (Z.log2_nonneg ix). lia. }
      { rewrite N6, <- N5. assumption. }
      exists s7. split; [assumption|split; [eapply Sift_trans; eassumption|]].
      rewrite N6 in FU7. assumption. }
  destruct SIFT as (s7 & -> & S & FU).
  set (f := set_idx (set_numobjs s7 (numobjs s7 - 1)) t (-1)).
  exists f. split; [reflexivity|].
  assert (N7 : num s7 = n - 1) by (rewrite (sf_num _ _ S); assumption).
  assert (NI7 : ~ inslot s7 t) by (intro Q; apply NI5; apply (sf_in _ _ S); assumption).
  assert (TG7 : tget s7 t <> None).
  { rewrite (sf_out _ _ S) by assumption.
    destruct (Pos.eq_dec t tlast) as [->|K].
    - apply tidx_tget. rewrite T5l. lia.
    - rewrite TG5 by assumption. assumption. }
  assert (Nf : num f = n - 1).
  { unfold f. rewrite num_set_idx. assumption. }
  assert (Gf : forall k, sget f k = sget s7 k).
  { intros k. unfold f. rewrite sget_set_idx. apply sget_set_numobjs. }
  assert (Tft : tidx f t = -1).
  { unfold f. apply tidx_set_idx_same. assumption. }
  assert (Tfo : forall t', t' <> t -> tidx f t' = tidx s7 t').
  { intros t' K. unfold f. rewrite tidx_set_idx_other by assumption. apply tidx_ext. reflexivity. }
  assert (Xf : forall t', texp f t' = texp s t').
  { intros t'. unfold f. rewrite texp_set_idx.
    rewrite (texp_ext s7 (set_numobjs s7 (numobjs s7 - 1)) t' eq_refl).
    rewrite (sf_texp _ _ S). apply X5. }
  assert (TS5 : forall t', t' <> t -> tsim s s5 t').
  { intros t' K. destruct (Pos.eq_dec t' tlast) as [->|Kl].
    - left. rewrite T5l. lia.
    - apply tsim_eq. apply T5o; assumption. }
  assert (TSf : forall t', t' <> t -> tsim s f t').
  { intros t' K. eapply tsim_trans; [apply TS5; assumption|].
    eapply tsim_trans; [apply (Sift_tsim s5 s7 t' S)|]. apply tsim_eq. apply Tfo; assumption. }
  assert (Bf : batch f = batch s).
  { unfold f. rewrite batch_set_idx. change (batch s7 = batch s).
    rewrite (sf_batch _ _ S). change (batch s4 = batch s). congruence. }
  split; [|split; [|split; [|split; [|split; [|split; [|split]]]]]].
  - constructor.
    + lia.
    + assert (Dpf : depth f = depth s4).
      { unfold f. rewrite depth_set_idx.
        change (depth (set_numobjs s7 (numobjs s7 - 1))) with (depth s7).
        rewrite (sf_depth _ _ S). exact Dp5. }
      unfold DepthOK. rewrite Dpf, Nf. split; [assumption|split; assumption].
    + intros k K. rewrite Nf in K.
      destruct (sf_filled _ _ S k ltac:(lia)) as (t0 & E0 & I0).
      exists t0. rewrite Gf. split; [assumption|].
      rewrite Tfo; [assumption|]. intro; subst t0. apply NI7.
      apply (filled_inslot s7 k); [apply (sf_filled _ _ S)|lia|assumption].
    + intros k K. rewrite Nf in K. rewrite Gf.
      apply (Sift_vacant s5 s7 S V5). lia.
    + intros t' H. destruct (Pos.eq_dec t' t) as [->|K]; [lia|].
      rewrite Tfo in H by assumption.
      destruct (Sift_backex s5 s7 t S BX5 t' K H) as [R7 E7].
      unfold inslot. rewrite Tfo, Nf, Gf by assumption. rewrite N7 in R7. split; assumption.
    + unfold Ordered. rewrite Nf. intros j Rj.
      assert (KE : forall k, key f k = key s7 k).
      { intros k. unfold key. rewrite Gf. destruct (sget s7 k); [|reflexivity].
        rewrite Xf, (sf_texp _ _ S), X5. reflexivity. }
      rewrite !KE. apply FU; assumption.
    + destruct BO as (BO1 & BO2 & BO3). unfold BatchOK. rewrite Bf.
      split; [|split; [assumption|]].
      * intros t'. rewrite BO1. destruct (Pos.eq_dec t' t) as [->|K]; [fold ix; lia|].
        pose proof (TSf t' K) as T. unfold tsim in T. lia.
      * intros t'. destruct (Pos.eq_dec t' t) as [->|K]; [lia|].
        pose proof (TSf t' K) as T. specialize (BO3 t'). unfold tsim in T. lia.
    + unfold f. rewrite numobjs_set_idx. change (numobjs s7 - 1 = num f).
      rewrite (sf_numobjs _ _ S), Nf. change (numobjs s4 - 1 = n - 1). lia.
  - assumption.
  - assumption.
  - assumption.
  - assumption.
  - assumption.
  - unfold f. rewrite now_set_idx. change (now s7 = now s).
    rewrite (sf_now _ _ S). change (now s4 = now s). congruence.
  - unfold f. rewrite tget_set_idx_same.
    rewrite (tget_ext s7 (set_numobjs s7 (numobjs s7 - 1)) t eq_refl).
    destruct (tget s7 t); [discriminate|congruence].
Qed.

(* ---------- unregistering a timer of the expired batch ---------- *)
Lemma unregister_expired_eq : forall s t, tidx s t = 0 ->
  unregister s t = Ok (set_idx (set_batch s (remove_first t (batch s))) t (-1)).
Proof. intros s t H. unfold unregister. rewrite H. reflexivity. Qed.

Lemma pop_inv : forall s t, Inv s -> tidx s t = 0 ->
  let s' := set_idx (set_batch s (remove_first t (batch s))) t (-1) in
  Inv s' /\ tidx s' t = -1 /\ (forall t', t' <> t -> tidx s' t' = tidx s t') /\
  (forall t', texp s' t' = texp s t') /\ batch s' = remove_first t (batch s) /\
  num s' = num s /\ now s' = now s /\ (forall t', abs s' t' = abs s t').
Proof.
  intros s t I TI s'.
  destruct I as [N D F V B O BO NO].
  assert (TG : tget s t <> None) by (apply tidx_tget; lia).
  assert (Ns : num s' = num s) by (unfold s'; rewrite num_set_idx; reflexivity).
  assert (Gs : forall k, sget s' k = sget s k).
  { intros k. unfold s'. rewrite sget_set_idx. reflexivity. }
  assert (Tt : tidx s' t = -1) by (unfold s'; apply tidx_set_idx_same; assumption).
  assert (To : forall t', t' <> t -> tidx s' t' = tidx s t').
  { intros t' K. unfold s'. rewrite tidx_set_idx_other by assumption. reflexivity. }
  assert (Xs : forall t', texp s' t' = texp s t').
  { intros t'. unfold s'. rewrite texp_set_idx. reflexivity. }
  assert (Bs : batch s' = remove_first t (batch s)).
  { unfold s'. rewrite batch_set_idx. reflexivity. }
  split; [|repeat split; try assumption].
  - constructor.
    + lia.
    + assert (Dps : depth s' = depth s) by (unfold s'; rewrite depth_set_idx; reflexivity).
      unfold DepthOK. rewrite Dps, Ns. exact D.
    + intros k K. rewrite Ns in K. destruct (F k K) as (t0 & E0 & I0). exists t0.
      rewrite Gs. split; [assumption|]. rewrite To; [assumption|]. intro; subst t0. lia.
    + intros k K. rewrite Ns in K. rewrite Gs. apply V; assumption.
    + intros t' H. destruct (Pos.eq_dec t' t) as [->|K]; [lia|].
      rewrite To in H by assumption. destruct (B t' H) as [R E].
      unfold inslot. rewrite To, Ns, Gs by assumption. split; assumption.
    + unfold Ordered. rewrite Ns. intros j Rj.
      assert (KE : forall k, key s' k = key s k).
      { intros k. unfold key. rewrite Gs. destruct (sget s k); [apply Xs|reflexivity]. }
      rewrite !KE. apply O; assumption.
    + destruct BO as (BO1 & BO2 & BO3). unfold BatchOK. rewrite Bs.
      split; [|split].
      * intros t'. rewrite (remove_first_in t (batch s) t' BO2), BO1.
        destruct (Pos.eq_dec t' t) as [->|K]; [lia|]. rewrite To by assumption. tauto.
      * apply remove_first_nodup; assumption.
      * intros t'. destruct (Pos.eq_dec t' t) as [->|K]; [lia|]. rewrite To by assumption. apply BO3.
    + unfold s'. rewrite numobjs_set_idx. change (numobjs s = num s'). lia.
  - unfold s'. rewrite now_set_idx. reflexivity.
  - intros t'. destruct (Pos.eq_dec t' t) as [->|K].
    + unfold abs. rewrite Tt, TI. reflexivity.
    + apply tsim_abs; [apply tsim_eq; apply To; assumption|apply Xs].
Qed.
