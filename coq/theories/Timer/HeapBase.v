(* HeapBase.v -- interface lemmas about the state accessors of HeapModel.v.
   After this file nothing unfolds sget/sset/tget/set_idx/set_exp/get_node. *)
From Coq Require Import List ZArith Bool FMapPositive FMapFacts Lia Morphisms.
From Ivv Require Import Timer.HeapModel Timer.HeapSpec.
Import ListNotations.
Local Open Scope Z_scope.

Ltac Zify.zify_post_hook ::= Z.div_mod_to_equations.

(* ---------- record updaters ---------- *)
Lemma set_depth_same : forall s, set_depth s (depth s) = s.
Proof. intros s; destruct s; reflexivity. Qed.

(* ---------- sget / sset ---------- *)
Lemma sget_nonpos : forall s i, i <= 0 -> sget s i = None.
Proof. intros s i H; destruct i; try reflexivity; lia. Qed.

Lemma sget_sset_same : forall s i v, 0 < i -> sget (sset s i v) i = v.
Proof.
  intros s i v H; destruct i as [|p|p]; try lia.
  unfold sget, sset, set_slots; cbn [slots].
  destruct v; [apply PM.gss | apply PM.grs].
Qed.

Lemma sget_sset_other : forall s i j v, i <> j -> sget (sset s i v) j = sget s j.
Proof.
  intros s i j v H; destruct i as [|p|p]; try reflexivity.
  destruct j as [|q|q]; try reflexivity.
  unfold sget, sset, set_slots; cbn [slots].
  assert (q <> p) by congruence.
  destruct v; [apply PM.gso | apply PM.gro]; assumption.
Qed.

Lemma sset_fields : forall s i v,
  num (sset s i v) = num s /\ depth (sset s i v) = depth s /\ tm (sset s i v) = tm s /\
  batch (sset s i v) = batch s /\ numobjs (sset s i v) = numobjs s /\ now (sset s i v) = now s.
Proof. intros s i v; destruct i; repeat split; reflexivity. Qed.

Lemma num_sset : forall s i v, num (sset s i v) = num s.
Proof. intros; apply sset_fields. Qed.
Lemma depth_sset : forall s i v, depth (sset s i v) = depth s.
Proof. intros; apply sset_fields. Qed.
Lemma batch_sset : forall s i v, batch (sset s i v) = batch s.
Proof. intros; apply sset_fields. Qed.
Lemma numobjs_sset : forall s i v, numobjs (sset s i v) = numobjs s.
Proof. intros; apply sset_fields. Qed.
Lemma now_sset : forall s i v, now (sset s i v) = now s.
Proof. intros; apply sset_fields. Qed.
Lemma tget_sset : forall s i v t, tget (sset s i v) t = tget s t.
Proof. intros s i v t; unfold tget; destruct (sset_fields s i v) as (_ & _ & -> & _); reflexivity. Qed.
Lemma tidx_sset : forall s i v t, tidx (sset s i v) t = tidx s t.
Proof. intros; unfold tidx; rewrite tget_sset; reflexivity. Qed.
Lemma texp_sset : forall s i v t, texp (sset s i v) t = texp s t.
Proof. intros; unfold texp; rewrite tget_sset; reflexivity. Qed.

(* ---------- tget / set_idx ---------- *)
Lemma tget_set_idx_same : forall s t i,
  tget (set_idx s t i) t =
  match tget s t with Some x => Some {| expires := expires x; index := i |} | None => None end.
Proof.
  intros s t i; unfold set_idx.
  destruct (tget s t) as [x|] eqn:E.
  - unfold tget, set_tm; cbn [tm]. apply PM.gss.
  - exact E.
Qed.

Lemma tget_set_idx_other : forall s t i t', t' <> t -> tget (set_idx s t i) t' = tget s t'.
Proof.
  intros s t i t' H; unfold set_idx.
  destruct (tget s t) as [x|] eqn:E; [|reflexivity].
  unfold tget, set_tm; cbn [tm]. apply PM.gso; assumption.
Qed.

Lemma set_idx_fields : forall s t i,
  slots (set_idx s t i) = slots s /\ num (set_idx s t i) = num s /\
  depth (set_idx s t i) = depth s /\ batch (set_idx s t i) = batch s /\
  numobjs (set_idx s t i) = numobjs s /\ now (set_idx s t i) = now s.
Proof. intros s t i; unfold set_idx; destruct (tget s t); repeat split; reflexivity. Qed.

Lemma num_set_idx : forall s t i, num (set_idx s t i) = num s.
Proof. intros; apply set_idx_fields. Qed.
Lemma depth_set_idx : forall s t i, depth (set_idx s t i) = depth s.
Proof. intros; apply set_idx_fields. Qed.
Lemma batch_set_idx : forall s t i, batch (set_idx s t i) = batch s.
Proof. intros; apply set_idx_fields. Qed.
Lemma numobjs_set_idx : forall s t i, numobjs (set_idx s t i) = numobjs s.
Proof. intros; apply set_idx_fields. Qed.
Lemma now_set_idx : forall s t i, now (set_idx s t i) = now s.
Proof. intros; apply set_idx_fields. Qed.
Lemma sget_set_idx : forall s t i j, sget (set_idx s t i) j = sget s j.
Proof. intros s t i j; unfold sget; destruct (set_idx_fields s t i) as (-> & _); reflexivity. Qed.

Lemma tidx_set_idx_same : forall s t i, tget s t <> None -> tidx (set_idx s t i) t = i.
Proof.
  intros s t i H; unfold tidx; rewrite tget_set_idx_same.
  destruct (tget s t); [reflexivity | congruence].
Qed.
Lemma tidx_set_idx_other : forall s t i t', t' <> t -> tidx (set_idx s t i) t' = tidx s t'.
Proof. intros; unfold tidx; rewrite tget_set_idx_other by assumption; reflexivity. Qed.
Lemma texp_set_idx : forall s t i t', texp (set_idx s t i) t' = texp s t'.
Proof.
  intros s t i t'; unfold texp.
  destruct (Pos.eq_dec t' t) as [->|N].
  - rewrite tget_set_idx_same; destruct (tget s t); reflexivity.
  - rewrite tget_set_idx_other by assumption; reflexivity.
Qed.

Lemma tidx_tget : forall s t, tidx s t <> -1 -> tget s t <> None.
Proof. intros s t H E; apply H; unfold tidx; rewrite E; reflexivity. Qed.

(* ---------- set_exp ---------- *)
Lemma set_exp_fields : forall s t e,
  slots (set_exp s t e) = slots s /\ num (set_exp s t e) = num s /\
  depth (set_exp s t e) = depth s /\ batch (set_exp s t e) = batch s /\
  numobjs (set_exp s t e) = numobjs s /\ now (set_exp s t e) = now s.
Proof. intros s t e; unfold set_exp; destruct (tget s t); repeat split; reflexivity. Qed.
Lemma sget_set_exp : forall s t e j, sget (set_exp s t e) j = sget s j.
Proof. intros s t e j; unfold sget; destruct (set_exp_fields s t e) as (-> & _); reflexivity. Qed.
Lemma tget_set_exp_other : forall s t e t', t' <> t -> tget (set_exp s t e) t' = tget s t'.
Proof.
  intros s t e t' H; unfold set_exp.
  destruct (tget s t); unfold tget, set_tm; cbn [tm]; apply PM.gso; assumption.
Qed.
Lemma tget_set_exp_same : forall s t e, tget (set_exp s t e) t <> None.
Proof.
  intros s t e; unfold set_exp.
  destruct (tget s t); unfold tget, set_tm; cbn [tm]; rewrite PM.gss; discriminate.
Qed.
Lemma tidx_set_exp : forall s t e t', tidx (set_exp s t e) t' = tidx s t'.
Proof.
  intros s t e t'. destruct (Pos.eq_dec t' t) as [->|N].
  - unfold tidx at 1, set_exp. destruct (tget s t) as [x|] eqn:E;
      unfold tget, set_tm; cbn [tm]; rewrite PM.gss; cbn [index];
      unfold tidx; rewrite E; reflexivity.
  - unfold tidx; rewrite tget_set_exp_other by assumption; reflexivity.
Qed.
Lemma texp_set_exp_same : forall s t e, texp (set_exp s t e) t = e.
Proof.
  intros s t e; unfold texp at 1, set_exp.
  destruct (tget s t); unfold tget, set_tm; cbn [tm]; rewrite PM.gss; reflexivity.
Qed.
Lemma texp_set_exp_other : forall s t e t', t' <> t -> texp (set_exp s t e) t' = texp s t'.
Proof. intros; unfold texp; rewrite tget_set_exp_other by assumption; reflexivity. Qed.

(* ---------- simple updaters on the interface ---------- *)
Lemma sget_set_num : forall s n i, sget (set_num s n) i = sget s i.
Proof. reflexivity. Qed.
Lemma tget_set_num : forall s n t, tget (set_num s n) t = tget s t.
Proof. reflexivity. Qed.
Lemma sget_set_numobjs : forall s n i, sget (set_numobjs s n) i = sget s i.
Proof. reflexivity. Qed.
Lemma sget_set_batch : forall s b i, sget (set_batch s b) i = sget s i.
Proof. reflexivity. Qed.
Lemma sget_set_now : forall s n i, sget (set_now s n) i = sget s i.
Proof. reflexivity. Qed.
Lemma sget_set_depth : forall s n i, sget (set_depth s n) i = sget s i.
Proof. reflexivity. Qed.

(* ---------- cap and powers ---------- *)
Lemma cap_pos : forall d, 0 <= d -> 0 < cap d.
Proof. intros d H; unfold cap, SPLIT_BITS; apply Z.pow_pos_nonneg; lia. Qed.

Lemma cap_pred : forall d, cap (d - 1) = 2 ^ (SPLIT_BITS * d).
Proof. intros d; unfold cap; f_equal; lia. Qed.

Lemma cap_succ : forall d, 0 <= d -> cap (d + 1) = 128 * cap d.
Proof.
  intros d H; unfold cap, SPLIT_BITS.
  replace (7 * (d + 1 + 1)) with (7 + 7 * (d + 1)) by lia.
  rewrite Z.pow_add_r by lia. reflexivity.
Qed.

Lemma shiftr_zero_iff : forall i d, 0 <= d -> 0 <= i ->
  (Z.shiftr i (SPLIT_BITS * (d + 1)) =? 0) = (i <? cap d).
Proof.
  intros i d Hd Hi. unfold cap, SPLIT_BITS.
  rewrite Z.shiftr_div_pow2 by lia.
  assert (P : 0 < 2 ^ (7 * (d + 1))) by (apply Z.pow_pos_nonneg; lia).
  destruct (Z.ltb_spec i (2 ^ (7 * (d + 1)))) as [L|L].
  - apply Z.eqb_eq. apply Z.div_small; lia.
  - apply Z.eqb_neq. intro E. apply Z.div_small_iff in E; lia.
Qed.

(* get_node on an index already addressable: no growth *)
Lemma get_node_same : forall s i, 0 <= depth s -> 0 < i -> i < cap (depth s) ->
  get_node s i = Some s.
Proof.
  intros s i Hd Hi Hc. unfold get_node.
  rewrite shiftr_zero_iff by lia.
  assert (E : (i <? cap (depth s)) = true) by (apply Z.ltb_lt; assumption).
  rewrite E. cbv iota. rewrite E.
  assert (E0 : (0 <? i) = true) by (apply Z.ltb_lt; assumption).
  rewrite E0; cbn [andb]. rewrite set_depth_same. reflexivity.
Qed.

(* get_node on index = cap depth: growth by one level *)
Lemma get_node_grow : forall s i, 0 <= depth s -> i = cap (depth s) ->
  get_node s i = Some (set_depth s (depth s + 1)).
Proof.
  intros s i Hd Hi. unfold get_node.
  assert (P := cap_pos (depth s) Hd).
  rewrite shiftr_zero_iff by lia.
  assert (E : (i <? cap (depth s)) = false) by (apply Z.ltb_ge; lia).
  rewrite E. cbv iota.
  assert (E0 : (0 <? i) = true) by (apply Z.ltb_lt; lia).
  rewrite E0; cbn [andb].
  assert (E1 : (i <? cap (depth s + 1)) = true).
  { apply Z.ltb_lt. rewrite cap_succ by lia. lia. }
  rewrite E1. reflexivity.
Qed.

(* ---------- remove_level ---------- *)
Lemma find_filter : forall (f : positive -> id -> bool) (m : PM.t id) k,
  PM.find k (PMP.filter f m) =
  match PM.find k m with Some v => if f k v then Some v else None | None => None end.
Proof.
  intros f m k.
  assert (Pr : Proper (eq ==> eq ==> eq) f).
  { intros a b -> c d ->; reflexivity. }
  destruct (PM.find k (PMP.filter f m)) as [v|] eqn:E.
  - apply PM.find_2 in E. apply (PMP.filter_iff Pr) in E. destruct E as [E1 E2].
    apply PM.find_1 in E1. rewrite E1, E2. reflexivity.
  - destruct (PM.find k m) as [v|] eqn:E1; [|reflexivity].
    destruct (f k v) eqn:E2; [|reflexivity].
    assert (M : PM.MapsTo k v (PMP.filter f m)).
    { apply (PMP.filter_iff Pr). split; [apply PM.find_2; assumption | assumption]. }
    apply PM.find_1 in M. congruence.
Qed.

Lemma slot_filter_eq : forall f m, slot_filter f m = PMP.filter f m.
Proof. reflexivity. Qed.

Lemma sget_remove_level : forall s i,
  sget (remove_level s) i = if i <? cap (depth s - 1) then sget s i else None.
Proof.
  intros s i. unfold remove_level, sget, set_depth, set_slots; cbn [slots].
  destruct i as [|p|p].
  - destruct (0 <? cap (depth s - 1)); reflexivity.
  - rewrite slot_filter_eq, find_filter. destruct (PM.find p (slots s)); [|destruct (Z.pos p <? _); reflexivity].
    reflexivity.
  - destruct (Z.neg p <? cap (depth s - 1)); reflexivity.
Qed.

Lemma remove_level_fields : forall s,
  num (remove_level s) = num s /\ depth (remove_level s) = depth s - 1 /\
  tm (remove_level s) = tm s /\ batch (remove_level s) = batch s /\
  numobjs (remove_level s) = numobjs s /\ now (remove_level s) = now s.
Proof. intros s; repeat split; reflexivity. Qed.

Lemma tget_remove_level : forall s t, tget (remove_level s) t = tget s t.
Proof. reflexivity. Qed.

(* ---------- logarithms for the fuel ---------- *)
Lemma log2_half : forall i, 2 <= i -> Z.log2 (i / 2) = Z.log2 i - 1.
Proof.
  intros i H.
  replace (i / 2) with (Z.shiftr i 1) by (rewrite Z.shiftr_div_pow2 by lia; reflexivity).
  rewrite Z.log2_shiftr by lia.
  assert (1 <= Z.log2 i) by (apply Z.log2_le_pow2; simpl; lia).
  lia.
Qed.

(* ---------- key of a slot ---------- *)
Definition key (s : tstate) (i : Z) : Z :=
  match sget s i with Some t => texp s t | None => 0 end.

(* ---------- extensionality over the two maps ---------- *)
Lemma sget_pos : forall s p, sget s (Zpos p) = PM.find p (slots s).
Proof. reflexivity. Qed.
Lemma sget_ext : forall s s' i, slots s' = slots s -> sget s' i = sget s i.
Proof. intros s s' i H; unfold sget; rewrite H; reflexivity. Qed.
Lemma tget_ext : forall s s' t, tm s' = tm s -> tget s' t = tget s t.
Proof. intros s s' t H; unfold tget; rewrite H; reflexivity. Qed.
Lemma tidx_ext : forall s s' t, tm s' = tm s -> tidx s' t = tidx s t.
Proof. intros s s' t H; unfold tidx; rewrite (tget_ext s s' t H); reflexivity. Qed.
Lemma texp_ext : forall s s' t, tm s' = tm s -> texp s' t = texp s t.
Proof. intros s s' t H; unfold texp; rewrite (tget_ext s s' t H); reflexivity. Qed.
Lemma tm_sset : forall s i v, tm (sset s i v) = tm s.
Proof. intros; apply sset_fields. Qed.
Lemma slots_set_idx : forall s t i, slots (set_idx s t i) = slots s.
Proof. intros; apply set_idx_fields. Qed.
Lemma slots_set_exp : forall s t e, slots (set_exp s t e) = slots s.
Proof. intros; apply set_exp_fields. Qed.

Lemma log2_fuel_gt : forall i, Z.log2 i < Z.of_nat (log2_fuel i).
Proof. intros i. unfold log2_fuel. pose proof (Z.log2_nonneg i). lia. Qed.

Lemma sget_init : forall i, sget init i = None.
Proof. intros i; destruct i; try reflexivity. unfold sget, init; cbn [slots]. apply PM.gempty. Qed.
Lemma tget_init : forall t, tget init t = None.
Proof. intros t; unfold tget, init; cbn [tm]. apply PM.gempty. Qed.

Global Opaque sget sset tget set_idx set_exp get_node remove_level cap.
