(* RadixFree.v -- iv_timer_free_ratnode, iv_timer_radix_tree_remove_level, iv_timer_deinit:
   exactly the nodes outside the child[0] subtree are freed, each once; what stays is
   the tree of depth - 1 with every node present (high-water mark 128^depth - 1). *)
From Coq Require Import List ZArith Bool Lia FMapPositive.
From Ivv Require Import Timer.HeapModel Timer.HeapSpec Timer.HeapBase Timer.RadixModel Timer.RadixSpec
  Timer.RadixArith Timer.RadixMem.
Import ListNotations.
Local Open Scope Z_scope.

Ltac Zify.zify_post_hook ::= Z.div_mod_to_equations.

(* (l', q') lies in the subtree of (l, q) *)
Definition sub (l q l' q' : Z) : Prop := 0 <= l' <= l /\ q' / P (l - l') = q.

(* the node numbers of the allocated nodes in the subtree of (l, q) *)
Definition Fsub (na : Z -> Z -> Z) (H l q n : Z) : Prop :=
  exists l' q', sub l q l' q' /\ domH H l' q' = true /\ na l' q' = n.

Lemma sub_refl : forall l q, 0 <= l -> sub l q l q.
Proof. intros. split; [lia|]. replace (l - l) with 0 by lia. apply div_P_0. Qed.

Lemma sub_same_level : forall l q q', sub l q l q' -> q' = q.
Proof. intros l q q' [_ E]. replace (l - l) with 0 in E by lia. rewrite div_P_0 in E. assumption. Qed.

Lemma sub_dom : forall H l q l' q', sub l q l' q' -> domH H l' q' = true -> domH H l q = true.
Proof.
  intros H l q l' q' [Hl E] D. apply domH_true in D. destruct D as [Q0 Q1]. apply domH_true.
  pose proof (P_pos (l - l') ltac:(lia)) as PX. pose proof (P_pos (l' + 1) ltac:(lia)) as PY.
  replace (l + 1) with ((l - l') + (l' + 1)) by lia. rewrite P_add by lia.
  set (X := P (l - l')) in *. set (Y := P (l' + 1)) in *.
  assert (q * X <= q') by (subst q; rewrite Z.mul_comm; apply Z.mul_div_le; lia).
  assert (0 <= q) by (subst q; apply Z.div_pos; lia).
  split; [assumption|]. nia.
Qed.

Lemma sub_step : forall l q l' q', 1 <= l -> 0 <= l' <= l - 1 ->
  (sub l q l' q' <-> exists j, 0 <= j < NODES /\ sub (l - 1) (q * NODES + j) l' q').
Proof.
  intros l q l' q' Hl Hl'. unfold sub.
  assert (E : q' / P (l - l') = q' / P (l - 1 - l') / NODES).
  { replace (l - l') with (l - 1 - l' + 1) by lia. apply div_P_succ. lia. }
  rewrite E. set (a := q' / P (l - 1 - l')). split.
  - intros [_ Ea]. exists (a mod NODES). unfold NODES in *. split; [lia|]. split; lia.
  - intros (j & Hj & _ & Ea). split; [lia|]. unfold NODES in *. lia.
Qed.

Lemma Fsub_leaf : forall na H q n, Fsub na H 0 q n <-> domH H 0 q = true /\ n = na 0 q.
Proof.
  intros. unfold Fsub. split.
  - intros (l' & q' & Sb & D & E). assert (l' = 0) by (destruct Sb; lia). subst l'.
    apply sub_same_level in Sb. subst q'. auto.
  - intros [D ->]. exists 0, q. split; [apply sub_refl; lia|auto].
Qed.

Lemma Fsub_step : forall na H l q n, 1 <= l ->
  (Fsub na H l q n <->
   (domH H l q = true /\ n = na l q) \/ exists j, 0 <= j < NODES /\ Fsub na H (l - 1) (q * NODES + j) n).
Proof.
  intros na H l q n Hl. unfold Fsub. split.
  - intros (l' & q' & Sb & D & E).
    destruct (Z.eq_dec l' l) as [->|N].
    + apply sub_same_level in Sb. subst q'. left. auto.
    + right. assert (Hl' : 0 <= l' <= l - 1) by (destruct Sb; lia).
      apply (sub_step l q l' q' Hl Hl') in Sb. destruct Sb as (j & Hj & Sb).
      exists j. split; [assumption|]. exists l', q'. auto.
  - intros [[D ->]|(j & Hj & l' & q' & Sb & D & E)].
    + exists l, q. split; [apply sub_refl; lia|auto].
    + exists l', q'. split; [|auto]. assert (Hl' : 0 <= l' <= l - 1) by (destruct Sb; lia).
      apply (sub_step l q l' q' Hl Hl'). exists j. auto.
Qed.

Lemma Fsub_empty : forall na H l q n, domH H l q = false -> ~ Fsub na H l q n.
Proof.
  intros na H l q n D (l' & q' & Sb & D' & _). rewrite (sub_dom H l q l' q' Sb D') in D. discriminate.
Qed.

(* children in the domain form a prefix *)
Lemma domH_child_mono : forall H l q j j', 0 <= l -> 0 <= q -> 0 <= j <= j' ->
  domH H l (q * NODES + j') = true -> domH H l (q * NODES + j) = true.
Proof.
  intros H l q j j' Hl Hq Hj D. apply domH_true in D. apply domH_true.
  pose proof (P_pos (l + 1) ltac:(lia)). unfold NODES in *. split; [lia|nia].
Qed.

(* ---------- Frees ---------- *)
Lemma Frees_refl : forall rs, Frees rs rs (fun _ => False).
Proof. intros. constructor; try reflexivity; intros; tauto. Qed.

Lemma Frees_ext : forall rs rs' F F', (forall n, F n <-> F' n) -> Frees rs rs' F -> Frees rs rs' F'.
Proof.
  intros rs rs' F F' E [A B C D]. constructor; try assumption.
  - intros p Hp. apply C. apply E. assumption.
  - intros p Hp. apply D. intro. apply Hp. apply E. assumption.
Qed.

Lemma Frees_set_hs : forall rs rs' F h, Frees rs rs' F -> Frees rs (set_hs rs' h) F.
Proof. intros rs rs' F h [A B C D]. constructor; assumption. Qed.

Lemma Frees_live : forall rs rs' F n, Frees rs rs' F -> live_true rs n -> ~ F n -> live_true rs' n.
Proof.
  intros rs rs' F n Fr L N. destruct n as [|p|p]; try contradiction. cbn in *.
  rewrite (fr_out _ _ _ Fr p N). assumption.
Qed.

Lemma Frees_live_inv : forall rs rs' F n, Frees rs rs' F -> live_true rs' n -> live_true rs n /\ ~ F n.
Proof.
  intros rs rs' F n Fr L. destruct n as [|p|p]; try contradiction. cbn in *.
  assert (N : ~ F (Z.pos p)).
  { intro Hf. destruct (fr_in _ _ _ Fr p Hf) as [A _]. congruence. }
  rewrite (fr_out _ _ _ Fr p N) in L. auto.
Qed.

Lemma free_node_frees : forall rs0 rs F n, Frees rs0 rs F -> live_true rs n -> 2 <= n ->
  exists rs', free_node rs n = Good rs' /\ hs rs' = hs rs /\ Frees rs0 rs' (fun x => F x \/ x = n).
Proof.
  intros rs0 rs F n Fr L Hn.
  destruct (Frees_live_inv _ _ _ _ Fr L) as [L0 NF].
  destruct n as [|p|p]; try lia. cbn in L, L0.
  unfold free_node. replace (Z.pos p =? FIRST_LEAF) with false by (symmetry; apply Z.eqb_neq; unfold FIRST_LEAF; lia).
  rewrite L. eexists. split; [reflexivity|]. split; [reflexivity|].
  destruct Fr as [A B C D]. constructor; cbn [mem next live]; try assumption.
  - intros p' [Hf|E].
    + destruct (Pos.eq_dec p' p) as [->|N]; [contradiction|].
      rewrite PM.gso by assumption. apply C. assumption.
    + inversion E; subst p'. rewrite PM.gss. auto.
  - intros p' Hn'. assert (p' <> p) by (intro; subst; apply Hn'; right; reflexivity).
    rewrite PM.gso by assumption. apply D. intro. apply Hn'. left. assumption.
Qed.

(* ---------- iv_timer_free_ratnode ---------- *)
Section FreeSpec.
Variables (rs0 : rstate) (na : Z -> Z -> Z) (H : Z).
Hypothesis SH : ShapeH rs0 na H.

Let S : Shape rs0 na (domH H) := proj1 SH.

Lemma Fsub_level : forall l q n, Fsub na H l q n ->
  exists l' q', 0 <= l' <= l /\ sub l q l' q' /\ domH H l' q' = true /\ na l' q' = n.
Proof.
  intros l q n (l' & q' & Sb & D & E). exists l', q'. pose proof Sb as [A B].
  split; [assumption|]. split; [assumption|]. split; assumption.
Qed.

Lemma Fsub_disjoint : forall l q q' n, 0 <= l <= rdepth rs0 -> q <> q' ->
  Fsub na H l q n -> Fsub na H l q' n -> False.
Proof.
  intros l q q' n Hl N (l1 & q1 & Sb1 & D1 & E1) (l2 & q2 & Sb2 & D2 & E2).
  destruct (sh_inj _ _ _ S l1 q1 l2 q2) as [-> ->]; try assumption; try congruence.
  - destruct Sb1; lia.
  - destruct Sb2; lia.
  - destruct Sb1 as [_ A], Sb2 as [_ B]. congruence.
Qed.

Lemma Fsub_not_above : forall l q l' q' , 0 <= l' < l -> l <= rdepth rs0 -> domH H l q = true ->
  ~ Fsub na H l' q' (na l q).
Proof.
  intros l q l' q' Hl Hd D (l1 & q1 & Sb & D1 & E).
  destruct (sh_inj _ _ _ S l1 q1 l q) as [A _]; try assumption; try (destruct Sb; lia).
Qed.

Lemma Fsub_ge2 : forall l q n, 0 <= l <= rdepth rs0 -> 1 <= q -> Fsub na H l q n -> 2 <= n.
Proof.
  intros l q n Hl Hq (l1 & q1 & Sb & D1 & E). subst n.
  assert (q1 <> 0).
  { intro. subst q1. destruct Sb as [A B]. rewrite Z.div_0_l in B; [lia|].
    pose proof (P_pos (l - l1) ltac:(lia)). lia. }
  destruct (sh_live _ _ _ S l1 q1 ltac:(destruct Sb; lia) D1 ltac:(lia)). lia.
Qed.

Lemma free_kids_spec : forall (rec : rstate -> Z -> rres rstate) l q i0,
  1 <= l <= rdepth rs0 -> domH H l q = true -> 0 <= i0 ->
  (forall j rs F, i0 <= j < NODES -> domH H (l - 1) (q * NODES + j) = true -> Frees rs0 rs F ->
      (forall n, Fsub na H (l - 1) (q * NODES + j) n -> ~ F n) ->
      exists rs', rec rs (na (l - 1) (q * NODES + j)) = Good rs' /\ hs rs' = hs rs /\
                  Frees rs0 rs' (fun x => F x \/ Fsub na H (l - 1) (q * NODES + j) x)) ->
  forall n i rs F, i + Z.of_nat n = NODES -> i0 <= i ->
    Frees rs0 rs F -> ~ F (na l q) ->
    (forall j x, i <= j < NODES -> Fsub na H (l - 1) (q * NODES + j) x -> ~ F x) ->
    exists rs', free_kids rec n rs (na l q) i = Good rs' /\ hs rs' = hs rs /\
       Frees rs0 rs' (fun x => F x \/ exists j, i <= j < NODES /\ Fsub na H (l - 1) (q * NODES + j) x).
Proof.
  intros rec l q i0 Hl Dq Hi0 Hrec.
  assert (Q0 : 0 <= q) by (apply domH_true in Dq; lia).
  assert (Lq : live_true rs0 (na l q)) by (apply (sh_live _ _ _ S l q); [lia|assumption|lia]).
  pose proof (shape_node_pos rs0 na _ S l q ltac:(lia) Dq) as Pq.
  induction n as [|n IH]; intros i rs F Hn Hi Fr NF Dis.
  - exists rs. split; [reflexivity|]. split; [reflexivity|].
    apply (Frees_ext rs0 rs F); [|assumption]. intros x. split; [auto|].
    intros [A|(j & Hj & _)]; [assumption|lia].
  - cbn [free_kids]. unfold load_node, bind.
    rewrite load_ok; [|unfold NODES in *; lia|].
    2:{ rewrite addr_div by lia. apply node_check_live. apply (Frees_live rs0 rs F); assumption. }
    rewrite (fr_mem _ _ _ Fr). rewrite (sh_cells _ _ _ S l q i Hl Dq ltac:(lia)).
    destruct (domH H (l - 1) (q * NODES + i)) eqn:Dc.
    + (* a child: free its subtree, go on *)
      destruct (Hrec i rs F ltac:(lia) Dc Fr) as (rs1 & R1 & Eh1 & Fr1).
      { intros x Hx. apply (Dis i x); [lia|assumption]. }
      rewrite R1.
      destruct (IH (i + 1) rs1 (fun x => F x \/ Fsub na H (l - 1) (q * NODES + i) x)) as (rs' & R' & Eh' & Fr').
      * lia.
      * lia.
      * assumption.
      * intros [A|A]; [contradiction|]. revert A. apply Fsub_not_above; [lia|lia|assumption].
      * intros j x Hj Hx [A|A]; [apply (Dis j x); [lia|assumption|assumption]|].
        apply (Fsub_disjoint (l - 1) (q * NODES + i) (q * NODES + j) x); [lia|lia|assumption|assumption].
      * exists rs'. split; [exact R'|]. split; [congruence|].
        refine (Frees_ext rs0 rs' _ _ _ Fr').
        intros x. split.
        -- intros [[A|A]|(j & Hj & A)]; [left; assumption|right; exists i; split; [lia|assumption]|
                                         right; exists j; split; [lia|assumption]].
        -- intros [A|(j & Hj & A)]; [left; left; assumption|].
           destruct (Z.eq_dec j i) as [->|N]; [left; right; assumption|right; exists j; split; [lia|assumption]].
    + (* NULL: break; no later child is allocated either *)
      exists rs. split; [reflexivity|]. split; [reflexivity|].
      apply (Frees_ext rs0 rs F); [|assumption]. intros x. split; [auto|].
      intros [A|(j & Hj & A)]; [assumption|]. exfalso. revert A. apply Fsub_empty.
      destruct (domH H (l - 1) (q * NODES + j)) eqn:Dj; [|reflexivity].
      rewrite (domH_child_mono H (l - 1) q i j ltac:(lia) Q0 ltac:(lia) Dj) in Dc. discriminate.
Qed.
End FreeSpec.

Section FreeSpec2.
Variables (rs0 : rstate) (na : Z -> Z -> Z) (H : Z).
Hypothesis SH : ShapeH rs0 na H.

Let Sh : Shape rs0 na (domH H) := proj1 SH.

Lemma free_ratnode_eq : forall fuel rs node d,
  free_ratnode fuel rs node d =
  if d =? 0 then free_node rs node else
  match fuel with
  | O => Bad EFuel
  | S f =>
      do rs1 <- free_kids (fun rs' k => free_ratnode f rs' k (d - 1)) 128 rs node 0;
      free_node rs1 node
  end.
Proof. intros. destruct fuel; reflexivity. Qed.

(* iv_timer_free_ratnode(node, l) frees exactly the allocated nodes of the subtree, each once *)
Lemma free_ratnode_spec : forall fuel l q rs F,
  0 <= l <= rdepth rs0 -> l <= Z.of_nat fuel -> 1 <= q -> domH H l q = true ->
  Frees rs0 rs F -> (forall n, Fsub na H l q n -> ~ F n) ->
  exists rs', free_ratnode fuel rs (na l q) l = Good rs' /\ hs rs' = hs rs /\
              Frees rs0 rs' (fun x => F x \/ Fsub na H l q x).
Proof.
  induction fuel as [|f IH]; intros l q rs F Hl Hf Hq Dq Fr Dis; rewrite free_ratnode_eq.
  - assert (l = 0) by lia. subst l. cbn [Z.eqb].
    assert (Lq : live_true rs0 (na 0 q)) by (apply (sh_live _ _ _ Sh 0 q); [lia|assumption|lia]).
    assert (NF : ~ F (na 0 q)) by (apply Dis; apply Fsub_leaf; auto).
    destruct (free_node_frees rs0 rs F (na 0 q) Fr (Frees_live _ _ _ _ Fr Lq NF)) as (rs' & R & Eh & Fr').
    { apply (sh_live _ _ _ Sh 0 q); [lia|assumption|lia]. }
    exists rs'. split; [assumption|]. split; [assumption|].
    refine (Frees_ext rs0 rs' _ _ _ Fr'). intros x. rewrite Fsub_leaf. intuition.
  - destruct (Z.eqb_spec l 0) as [->|Nl].
    + assert (Lq : live_true rs0 (na 0 q)) by (apply (sh_live _ _ _ Sh 0 q); [lia|assumption|lia]).
      assert (NF : ~ F (na 0 q)) by (apply Dis; apply Fsub_leaf; auto).
      destruct (free_node_frees rs0 rs F (na 0 q) Fr (Frees_live _ _ _ _ Fr Lq NF)) as (rs' & R & Eh & Fr').
      { apply (sh_live _ _ _ Sh 0 q); [lia|assumption|lia]. }
      exists rs'. split; [assumption|]. split; [assumption|].
      refine (Frees_ext rs0 rs' _ _ _ Fr'). intros x. rewrite Fsub_leaf. intuition.
    + assert (Lq : live_true rs0 (na l q)) by (apply (sh_live _ _ _ Sh l q); [lia|assumption|lia]).
      assert (NF : ~ F (na l q)).
      { apply Dis. apply Fsub_step; [lia|]. left. auto. }
      destruct (free_kids_spec rs0 na H SH (fun rs' k => free_ratnode f rs' k (l - 1)) l q 0
                  ltac:(lia) Dq ltac:(lia)) with (n := 128%nat) (i := 0) (rs := rs) (F := F)
        as (rs1 & R1 & Eh1 & Fr1); try assumption; try reflexivity; try lia.
      * intros j rs2 F2 Hj Dj Fr2 Dis2.
        apply (IH (l - 1) (q * NODES + j) rs2 F2); try assumption; unfold NODES in *; lia.
      * intros j x Hj Hx. apply Dis. apply Fsub_step; [lia|]. right. exists j. split; [lia|assumption].
      * unfold bind. rewrite R1.
        set (F1 := fun x => F x \/ exists j, 0 <= j < NODES /\ Fsub na H (l - 1) (q * NODES + j) x) in *.
        assert (NF1 : ~ F1 (na l q)).
        { intros [A|(j & Hj & A)]; [contradiction|]. revert A. apply (Fsub_not_above rs0 na H SH); [lia|lia|assumption]. }
        destruct (free_node_frees rs0 rs1 F1 (na l q) Fr1 (Frees_live _ _ _ _ Fr1 Lq NF1)) as (rs' & R & Eh & Fr').
        { apply (sh_live _ _ _ Sh l q); [lia|assumption|lia]. }
        exists rs'. split; [assumption|]. split; [congruence|].
        refine (Frees_ext rs0 rs' _ _ _ Fr'). intros x. rewrite (Fsub_step na H l q x) by lia.
        unfold F1. split.
        -- intros [[A|A]|A]; [left; assumption|right; right; assumption|right; left; auto].
        -- intros [A|[[_ A]|A]]; [left; left; assumption|right; assumption|left; right; assumption].
Qed.
End FreeSpec2.

(* ---------- arithmetic of the child[0] subtree ---------- *)
Lemma P_split : forall d l, 0 <= l <= d - 1 -> P d = P (d - 1 - l) * P (l + 1).
Proof. intros d l Hl. rewrite <- P_add by lia. f_equal. lia. Qed.

Lemma anc_small : forall d l q, 0 <= l <= d - 1 -> 0 <= q -> q * P (l + 1) < P d -> q / P (d - 1 - l) = 0.
Proof.
  intros d l q Hl Hq B. rewrite (P_split d l Hl) in B.
  pose proof (P_pos (d - 1 - l) ltac:(lia)). pose proof (P_pos (l + 1) ltac:(lia)).
  apply Z.div_small. nia.
Qed.

Lemma anc_zero : forall d l q, 0 <= l <= d - 1 -> 0 <= q -> q / P (d - 1 - l) = 0 -> q * P (l + 1) < P d.
Proof.
  intros d l q Hl Hq E. rewrite (P_split d l Hl).
  pose proof (P_pos (d - 1 - l) ltac:(lia)) as PX. pose proof (P_pos (l + 1) ltac:(lia)).
  apply Z.div_small_iff in E; [|lia]. nia.
Qed.

Lemma anc_bound : forall d l q H, 0 <= l <= d - 1 -> 0 <= q -> q * P (l + 1) <= H -> H < P (d + 1) ->
  0 <= q / P (d - 1 - l) < NODES.
Proof.
  intros d l q H Hl Hq B1 B2. rewrite P_succ in B2 by lia. rewrite (P_split d l Hl) in B2.
  pose proof (P_pos (d - 1 - l) ltac:(lia)) as PX. pose proof (P_pos (l + 1) ltac:(lia)) as PY.
  set (X := P (d - 1 - l)) in *. set (Y := P (l + 1)) in *.
  assert (q / X * X <= q) by (rewrite Z.mul_comm; apply Z.mul_div_le; lia).
  assert (0 <= q / X) by (apply Z.div_pos; lia).
  unfold NODES in *. split; [assumption|]. nia.
Qed.

Lemma child_small : forall d l q j, 1 <= l <= d - 1 -> 0 <= q -> q * P (l + 1) < P d -> 0 <= j < NODES ->
  (q * NODES + j) * P l < P d.
Proof.
  intros d l q j Hl Hq B Hj. rewrite (P_split d l ltac:(lia)) in *. rewrite (P_succ l) in * by lia.
  pose proof (P_pos (d - 1 - l) ltac:(lia)) as PX. pose proof (P_pos l ltac:(lia)) as PY.
  set (X := P (d - 1 - l)) in *. set (Y := P l) in *. unfold NODES in *.
  assert (q < X) by nia.
  assert ((q * 128 + j) < X * 128) by lia.
  replace (X * (128 * Y)) with ((X * 128) * Y) by ring.
  apply Z.mul_lt_mono_pos_r; assumption.
Qed.

Lemma P_mult_NODES : forall d, 1 <= d -> P d mod NODES = 0.
Proof. intros d H. rewrite (P_pred d H). rewrite Z.mul_comm. apply Z.mod_mul. unfold NODES; lia. Qed.

(* ---------- iv_timer_radix_tree_remove_level ---------- *)
Lemma rremove_level_spec : forall rs na H, ShapeH rs na H -> 0 < rdepth rs ->
  exists rs', rremove_level rs = Good rs' /\ ShapeH rs' na (P (rdepth rs) - 1) /\
    hs rs' = set_depth (hs rs) (rdepth rs - 1) /\
    (forall a, a <> ROOT_CELL -> mget (mem rs') a = mget (mem rs) a).
Proof.
  intros rs na H SH Hd. pose proof SH as (S & B1 & B2). specialize (B2 Hd).
  set (d := rdepth rs) in *.
  assert (Pd : 0 < P d) by (apply P_pos; lia).
  assert (Dr : domH H d 0 = true) by (apply domH_00; lia).
  assert (Dc0 : domH H (d - 1) (0 * NODES + 0) = true).
  { apply domH_true. replace (d - 1 + 1) with d by lia. lia. }
  set (root := na d 0).
  assert (Lr : live_true rs root) by (apply (sh_live _ _ _ S d 0); [fold d; lia|assumption|lia]).
  pose proof (shape_node_pos rs na _ S d 0 ltac:(fold d; lia) Dr) as Pr. fold root in Pr.
  assert (R2 : 2 <= root) by (apply (sh_live _ _ _ S d 0); [fold d; lia|assumption|lia]).
  unfold rremove_level. fold d.
  set (rsA := rset_depth rs (d - 1)).
  assert (FrA : Frees rs rsA (fun _ => False)) by (apply Frees_set_hs; apply Frees_refl).
  (* root = st->ratnode.timer_root *)
  unfold load_node at 1. unfold bind at 2.
  assert (LA : load rsA ROOT_CELL = Good (CNode root)).
  { rewrite load_ok; [|reflexivity|reflexivity]. unfold rsA. cbn [mem rset_depth set_hs].
    rewrite (sh_root _ _ _ S). reflexivity. }
  rewrite LA. unfold bind at 1.
  (* the loop over child[1..127] *)
  change (rdepth rsA) with (d - 1).
  destruct (free_kids_spec rs na H SH (fun rs' k => free_ratnode (Z.to_nat (d - 1)) rs' k (d - 1)) d 0 1
              ltac:(fold d; lia) Dr ltac:(lia)) with (n := 127%nat) (i := 1) (rs := rsA) (F := fun _ : Z => False)
    as (rs1 & K1 & Eh1 & Fr1); try assumption; try reflexivity; try lia; try tauto.
  { intros j rs2 F2 Hj Dj Fr2 Dis2.
    apply (free_ratnode_spec rs na H SH (Z.to_nat (d - 1)) (d - 1) (0 * NODES + j) rs2 F2); try assumption.
    - fold d. lia.
    - rewrite Z2Nat.id; lia.
    - lia. }
  fold root in K1. rewrite K1. unfold bind at 1.
  set (F1 := fun x : Z => False \/ exists j, 1 <= j < NODES /\ Fsub na H (d - 1) (0 * NODES + j) x) in *.
  assert (NF1 : ~ F1 root).
  { intros [[]|(j & Hj & A)]. revert A. apply (Fsub_not_above rs na H SH); [lia|fold d; lia|assumption]. }
  assert (Lr1 : live_true rs1 root) by (apply (Frees_live rs rs1 F1); assumption).
  (* st->ratnode.timer_root = root->child[0] *)
  assert (L1 : load rs1 (root * NODES) = Good (CNode (na (d - 1) 0))).
  { rewrite load_ok; [|unfold NODES; lia|].
    2:{ replace (root * NODES / NODES) with root by (unfold NODES; lia). apply node_check_live. assumption. }
    rewrite (fr_mem _ _ _ Fr1). replace (root * NODES) with (na d 0 * NODES + 0) by (unfold root; lia).
    rewrite (sh_cells _ _ _ S d 0 0 ltac:(fold d; lia) Dr ltac:(unfold NODES; lia)). rewrite Dc0. reflexivity. }
  rewrite L1. unfold bind at 1.
  rewrite store_ok; [|reflexivity|reflexivity]. unfold bind.
  set (c0 := CNode (na (d - 1) 0)).
  set (rs2 := set_mem rs1 (mset (mem rs1) ROOT_CELL c0)).
  set (rsB := set_mem rs (mset (mem rs) ROOT_CELL c0)).
  assert (FrB : Frees rsB rs2 F1).
  { destruct Fr1 as [A B C D]. constructor.
    - unfold rs2, rsB. cbn [mem set_mem]. rewrite A. reflexivity.
    - exact B.
    - exact C.
    - exact D. }
  destruct (free_node_frees rsB rs2 F1 root FrB Lr1 R2) as (rs3 & R3 & Eh3 & Fr3).
  exists rs3. split; [exact R3|].
  set (F3 := fun x : Z => F1 x \/ x = root) in *.
  assert (M3 : mem rs3 = mset (mem rs) ROOT_CELL c0) by (rewrite (fr_mem _ _ _ Fr3); reflexivity).
  assert (N3 : next rs3 = next rs) by (rewrite (fr_next _ _ _ Fr3); reflexivity).
  assert (H3 : hs rs3 = set_depth (hs rs) (d - 1)) by (rewrite Eh3; unfold rs2; cbn [hs set_mem]; rewrite Eh1; reflexivity).
  assert (D3 : rdepth rs3 = d - 1) by (unfold rdepth; rewrite H3; reflexivity).
  assert (LIVE : forall n, live_true rs3 n <-> live_true rs n /\ ~ F3 n).
  { intros n. split.
    - apply (Frees_live_inv rsB rs3 F3 n Fr3).
    - intros [A B]. apply (Frees_live rsB rs3 F3 n Fr3 A B). }
  assert (MG : forall a, a <> ROOT_CELL -> mget (mem rs3) a = mget (mem rs) a).
  { intros a Na. rewrite M3. apply mget_mset_other. congruence. }
  set (H' := P d - 1).
  assert (SmallDom : forall l q, 0 <= l <= d - 1 -> domH H' l q = true -> domH H l q = true /\ 0 <= q /\ q * P (l + 1) < P d).
  { intros l q Hl Dq. split; [apply (domH_mono H' H); [unfold H'; lia|assumption]|].
    apply domH_true in Dq. unfold H' in Dq. lia. }
  assert (NotFreed : forall l q, 0 <= l <= d - 1 -> domH H' l q = true -> ~ F3 (na l q)).
  { intros l q Hl Dq. destruct (SmallDom l q Hl Dq) as (DH & Q0 & QB).
    intros [[[]|(j & Hj & A)]|A].
    - destruct A as (l1 & q1 & Sb & D1 & E1).
      destruct (sh_inj _ _ _ S l1 q1 l q) as [-> ->]; try assumption; try (fold d; destruct Sb; lia).
      destruct Sb as [_ Sb]. rewrite (anc_small d l q Hl Q0 QB) in Sb. lia.
    - destruct (sh_inj _ _ _ S l q d 0) as [E _]; try assumption; try (fold d; lia). }
  split; [|split; [exact H3|exact MG]].
  split; [|rewrite D3; replace (d - 1 + 1) with d by lia; split; [unfold H'; lia|]].
  2:{ intros Hd1. unfold H'. pose proof (P_le (d - 1) d ltac:(lia)). lia. }
  constructor; rewrite ?D3, ?N3.
  - pose proof (sh_depth _ _ _ S) as Dp0. fold d in Dp0. lia.
  - rewrite M3. apply mget_mset_same. reflexivity.
  - apply domH_00. unfold H'. lia.
  - apply (sh_first _ _ _ S).
  - apply domH_00. unfold H'. lia.
  - intros l q Hl Dq. apply domH_closed; [lia|assumption].
  - intros l q Hl Dq N0. destruct (SmallDom l q Hl Dq) as (DH & _).
    destruct (sh_live _ _ _ S l q ltac:(fold d; lia) DH N0) as [Bn Ln].
    split; [assumption|]. apply LIVE. split; [assumption|apply NotFreed; assumption].
  - intros l q l' q' Hl Dq Hl' Dq' E.
    apply (sh_inj _ _ _ S l q l' q'); try assumption; try (fold d; lia).
    + apply (SmallDom l q Hl Dq).
    + apply (SmallDom l' q' Hl' Dq').
  - intros l q j Hl Dq Hj. destruct (SmallDom l q ltac:(lia) Dq) as (DH & Q0 & QB).
    rewrite MG.
    + rewrite (sh_cells _ _ _ S l q j ltac:(fold d; lia) DH Hj).
      pose proof (child_small d l q j ltac:(lia) Q0 QB Hj) as CS.
      assert (E1 : domH H' (l - 1) (q * NODES + j) = true).
      { apply domH_true. replace (l - 1 + 1) with l by lia. unfold H', NODES in *. lia. }
      rewrite E1. rewrite (domH_mono H' H (l - 1) _ ltac:(unfold H'; lia) E1). reflexivity.
    + intro E. rewrite (shape_root_cell rs na _ S) in E.
      assert (Z0 : 0 <= 0 < NODES) by (unfold NODES; lia).
      destruct (shape_addr_inj rs na _ S l q j 0 0 0 ltac:(fold d; lia) DH Hj ltac:(fold d; lia)
                  (sh_firstD _ _ _ S) Z0 E). lia.
  - intros n Ln. apply LIVE in Ln. destruct Ln as [Ln NF].
    destruct (sh_only _ _ _ S n Ln) as (l & q & Hl & Dq & En). fold d in Hl.
    assert (Q0 : 0 <= q) by (apply domH_true in Dq; lia).
    destruct (Z.eq_dec l d) as [->|Nl].
    + exfalso. apply NF. right. rewrite (domH_top H d q ltac:(lia) ltac:(lia) Dq) in En. auto.
    + assert (Hl1 : 0 <= l <= d - 1) by lia.
      assert (QB : q * P (l + 1) <= H) by (apply domH_true in Dq; lia).
      pose proof (anc_bound d l q H Hl1 Q0 QB ltac:(lia)) as AB.
      destruct (Z.eq_dec (q / P (d - 1 - l)) 0) as [E0|N0].
      * exists l, q. split; [assumption|]. split; [|assumption].
        apply domH_true. pose proof (anc_zero d l q Hl1 Q0 E0). unfold H'. lia.
      * exfalso. apply NF. left. right. exists (q / P (d - 1 - l)). split; [lia|].
        exists l, q. split; [|auto]. split; [lia|]. lia.
  - apply (sh_next _ _ _ S).
  - intros p Hp. assert (NF : ~ F3 (Z.pos p)).
    { intros A. assert (LT : live_true rsB (Z.pos p)) by (cbn; apply (fr_in _ _ _ Fr3 p A)).
      cbn in LT. rewrite (sh_fresh_live _ _ _ S p Hp) in LT. discriminate. }
    rewrite (fr_out _ _ _ Fr3 p NF). apply (sh_fresh_live _ _ _ S p Hp).
  - intros a Ha. rewrite MG; [apply (sh_fresh_mem _ _ _ S); assumption|].
    pose proof (sh_next _ _ _ S). unfold ROOT_CELL, FIRST_LEAF, NODES in *. lia.
  - intro L. apply LIVE in L. destruct L as [L _]. exact (sh_first_dead _ _ _ S L).
Qed.

Local Transparent remove_level.
Lemma remove_level_hs : forall h m d, depth h = d ->
  remove_level (set_slots h m) =
  set_slots (set_depth h (d - 1)) (slot_filter (fun k _ => Zpos k <? cap (d - 1)) m).
Proof. intros h m d <-. reflexivity. Qed.
Local Opaque remove_level.

(* the flat map after remove_level is HeapModel.remove_level of the flat map before *)
Lemma rremove_level_rel : forall rs s na H, ShapeH rs na H -> Rel rs s na H -> 0 < rdepth rs ->
  exists rs', rremove_level rs = Good rs' /\ ShapeH rs' na (P (rdepth rs) - 1) /\
    Rel rs' (remove_level s) na (P (rdepth rs) - 1).
Proof.
  intros rs s na H SH R Hd.
  destruct (rremove_level_spec rs na H SH Hd) as (rs' & E & SH' & Eh & MG).
  exists rs'. split; [assumption|]. split; [assumption|].
  pose proof SH as (S & B1 & B2). specialize (B2 Hd).
  destruct (Rel_fields _ _ _ _ R) as (_ & Eds & _).
  set (d := rdepth rs) in *.
  assert (Pd : 0 < P d) by (apply P_pos; lia).
  destruct R as [Rh Rc Rv]. constructor.
  - rewrite Eh. rewrite <- Rh. rewrite (remove_level_hs (hs rs) (slots s) d) by reflexivity. reflexivity.
  - intros i Hi Hh. rewrite sget_remove_level, Eds, cap_P. replace (d - 1 + 1) with d by lia.
    pose proof (P_mult_NODES d ltac:(lia)) as PM.
    assert (i < P d) by (unfold NODES in *; lia).
    replace (i <? P d) with true by (symmetry; apply Z.ltb_lt; assumption).
    rewrite MG.
    + apply Rc; [assumption|lia].
    + apply (slot_not_root rs na H SH); [assumption|lia].
  - intros i Hi. rewrite sget_remove_level, Eds, cap_P. replace (d - 1 + 1) with d by lia.
    replace (i <? P d) with false by (symmetry; apply Z.ltb_ge; lia). reflexivity.
Qed.

(* ---------- iv_timer_deinit ---------- *)
Lemma shape_depth0_all_freed : forall rs na H, ShapeH rs na H -> rdepth rs = 0 -> all_freed rs.
Proof.
  intros rs na H (S & B1 & _) E0 n L. rewrite E0 in *.
  destruct (sh_only _ _ _ S n L) as (l & q & Hl & Dq & En). rewrite E0 in Hl.
  assert (l = 0) by lia. subst l. change (P (0 + 1)) with NODES in B1.
  apply domH_true in Dq. change (P (0 + 1)) with NODES in Dq.
  assert (q = 0) by (unfold NODES in *; lia). subst q.
  rewrite (sh_first _ _ _ S) in En. subst n. exact (sh_first_dead _ _ _ S L).
Qed.

Lemma deinit_loop_eq : forall fuel rs,
  deinit_loop fuel rs =
  if rdepth rs =? 0 then Good rs else
  match fuel with
  | O => Bad EFuel
  | S f => do rs1 <- rremove_level rs; deinit_loop f rs1
  end.
Proof. intros. destruct fuel; reflexivity. Qed.

Lemma deinit_loop_spec : forall fuel rs na H, ShapeH rs na H -> rdepth rs <= Z.of_nat fuel ->
  exists rs' H', deinit_loop fuel rs = Good rs' /\ ShapeH rs' na H' /\ rdepth rs' = 0 /\
                 rnum rs' = rnum rs.
Proof.
  induction fuel as [|f IH]; intros rs na H SH Hf; rewrite deinit_loop_eq;
    pose proof (sh_depth _ _ _ (proj1 SH)) as Dp.
  - assert (E : rdepth rs = 0) by lia. rewrite E. cbn [Z.eqb]. exists rs, H. auto.
  - destruct (Z.eqb_spec (rdepth rs) 0) as [E|N].
    + exists rs, H. auto.
    + destruct (rremove_level_spec rs na H SH ltac:(lia)) as (rs1 & E1 & SH1 & Eh1 & _).
      unfold bind. rewrite E1.
      assert (D1 : rdepth rs1 = rdepth rs - 1) by (unfold rdepth; rewrite Eh1; reflexivity).
      destruct (IH rs1 na _ SH1 ltac:(lia)) as (rs' & H' & E' & SH' & D' & N').
      exists rs', H'. split; [assumption|]. split; [assumption|]. split; [assumption|].
      rewrite N'. unfold rnum. rewrite Eh1. reflexivity.
Qed.

(* (e) after iv_timer_deinit, whatever the population: depth 0, every calloc'ed node freed
   (a second free of a node would have been the error value EDoubleFree), timer_root = NULL *)
Lemma rdeinit_spec : forall rs na H, ShapeH rs na H ->
  exists rs', rdeinit rs = Good rs' /\ rdepth rs' = 0 /\ all_freed rs' /\
              mget (mem rs') ROOT_CELL = CNull /\ rnum rs' = rnum rs.
Proof.
  intros rs na H SH. pose proof (sh_depth _ _ _ (proj1 SH)) as Dp.
  destruct (deinit_loop_spec (Z.to_nat (rdepth rs)) rs na H SH ltac:(rewrite Z2Nat.id; lia))
    as (rs1 & H1 & E1 & SH1 & D1 & N1).
  unfold rdeinit, bind. rewrite E1. rewrite store_ok; [|reflexivity|reflexivity].
  eexists. split; [reflexivity|]. split; [exact D1|]. split; [|split].
  - intros n L. exact (shape_depth0_all_freed rs1 na H1 SH1 D1 n L).
  - cbn [mem set_mem]. apply mget_mset_same. reflexivity.
  - exact N1.
Qed.
