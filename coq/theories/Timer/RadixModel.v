(* RadixModel.v -- executable model of the timer store of /repo/src/iv_timer.c
   WITH the 128-ary radix tree that HeapModel.v abstracts to a flat map:
   iv_timer_allocate_ratnode, iv_timer_get_node, iv_timer_free_ratnode,
   iv_timer_radix_tree_remove_level, iv_timer_deinit, the
   first_leaf / timer_root union, and pull_up / push_down / iv_timer_register /
   iv_timer_unregister / iv_run_timers re-expressed over it in the order of
   reads and writes of the C text.  No proofs in this file.

   Memory model.  A rat-node is a block of NODES = 128 pointer cells.  Nodes are
   numbered: node FIRST_LEAF = 1 is `st->ratnode.first_leaf` (embedded in
   struct iv_state, never calloc'ed, never to be freed); calloc hands out the
   fresh numbers 2, 3, ... and never re-uses one, so that "freed" stays
   observable (`live` maps a calloc'ed node to true, a freed one to false).
   The ADDRESS of cell `off` of node `n` is  n * 128 + off ; every pointer of
   the C code that points INTO a node (the `struct iv_timer_ ** ` slot pointers
   p, m, i, imin, p + 1) is such an address.  `mem` maps addresses to cell
   contents; an address never written reads NULL (calloc zero-fill).
   Because `ratnode` is a union, `st->ratnode.timer_root` IS
   `first_leaf.child[0]`: ROOT_CELL = address of cell 0 of node 1.

   Every access through an address whose node is freed / was never allocated,
   every NULL dereference, every free of something that is not a live calloc'ed
   node, every use of a cell at the wrong type, every shift of an int whose
   behaviour C leaves undefined (count < 0 or >= 32, `1 << c` not representable)
   and every signed overflow of ++num_timers / 2 * index is an explicit error
   value (`Bad e`), never a default.  The other int computations of the file
   (index / 2, num_timers--, (rat_depth + 1) * 7, ...) cannot leave the range.

   The rest of struct iv_state and the timer objects (num_timers, rat_depth,
   numobjs, time, expires/index of every timer, the local `timers` batch) are
   kept in a HeapModel.tstate (`hs`); its `slots` field is NOT used here (the
   slots live in `mem`). *)

From Coq Require Import List ZArith Bool FMapPositive.
From Ivv Require Import Timer.HeapModel.
Import ListNotations.
Local Open Scope Z_scope.

Definition NODES : Z := 128.                       (* IV_TIMER_SPLIT_NODES = 1 << IV_TIMER_SPLIT_BITS *)
Definition FIRST_LEAF : Z := 1.
Definition ROOT_CELL : Z := FIRST_LEAF * NODES.    (* &st->ratnode.timer_root = &st->ratnode.first_leaf.child[0] *)

Inductive cell : Type :=
| CNull
| CNode (n : Z)            (* struct iv_timer_ratnode * *)
| CTimer (t : id).         (* struct iv_timer_ * *)

Inductive rerr : Type :=
| EUseAfterFree            (* access through an address inside a freed node *)
| EWild                    (* address in no node that was ever allocated / outside the node *)
| ENull                    (* NULL dereference *)
| EBadFree                 (* free() of first_leaf or of something never allocated *)
| EDoubleFree
| EType                    (* a timer pointer used as a node pointer or vice versa *)
| EShift                   (* `x >> c` with c < 0 or c >= 32, or `1 << c` not representable, on a 32-bit int *)
| EOverflow                (* signed overflow of an int computation (++num_timers, 2 * index) *)
| EFuel.                   (* a loop bound of the model exhausted (never: see proofs) *)

Inductive rres (A : Type) : Type :=
| Good (x : A)
| Bad (e : rerr).
Arguments Good {A} x.
Arguments Bad {A} e.

Definition bind {A B : Type} (r : rres A) (f : A -> rres B) : rres B :=
  match r with Good x => f x | Bad e => Bad e end.
Notation "'do' x <- e ; k" := (bind e (fun x => k)) (at level 200, x pattern, e at level 100, k at level 200).

Record rstate := {
  mem : PM.t cell;          (* address -> contents *)
  live : PM.t bool;         (* calloc'ed node number -> true live / false freed *)
  next : Z;                 (* next fresh node number *)
  nalloc : Z;               (* number of calloc calls *)
  nfree : Z;                (* number of free calls *)
  hs : tstate;              (* num_timers, rat_depth, numobjs, time, timer objects, batch *)
}.

Definition rinit : rstate :=
  {| mem := PM.add (Z.to_pos ROOT_CELL) (CNode FIRST_LEAF) (PM.empty cell);   (* iv_timer_init *)
     live := PM.empty bool; next := 2; nalloc := 0; nfree := 0; hs := init |}.

Definition set_hs (rs : rstate) (h : tstate) : rstate :=
  {| mem := mem rs; live := live rs; next := next rs; nalloc := nalloc rs; nfree := nfree rs; hs := h |}.
Definition set_mem (rs : rstate) (m : PM.t cell) : rstate :=
  {| mem := m; live := live rs; next := next rs; nalloc := nalloc rs; nfree := nfree rs; hs := hs rs |}.

Definition mget (m : PM.t cell) (a : Z) : cell :=
  match a with
  | Zpos p => match PM.find p m with Some c => c | None => CNull end
  | _ => CNull
  end.
Definition mset (m : PM.t cell) (a : Z) (c : cell) : PM.t cell :=
  match a with Zpos p => PM.add p c m | _ => m end.

(* may the node `n` be accessed? *)
Definition node_check (rs : rstate) (n : Z) : option rerr :=
  if n =? FIRST_LEAF then None else
  match n with
  | Zpos p => match PM.find p (live rs) with
              | Some true => None
              | Some false => Some EUseAfterFree
              | None => Some EWild
              end
  | _ => Some EWild
  end.

Definition load (rs : rstate) (a : Z) : rres cell :=
  if a <=? 0 then Bad ENull else
  match node_check rs (a / NODES) with
  | Some e => Bad e
  | None => Good (mget (mem rs) a)
  end.

Definition store (rs : rstate) (a : Z) (c : cell) : rres rstate :=
  if a <=? 0 then Bad ENull else
  match node_check rs (a / NODES) with
  | Some e => Bad e
  | None => Good (set_mem rs (mset (mem rs) a c))
  end.

(* read a cell that the C code uses as `struct iv_timer_ratnode *` *)
Definition load_node (rs : rstate) (a : Z) : rres (option Z) :=
  do c <- load rs a;
  match c with CNull => Good None | CNode n => Good (Some n) | CTimer _ => Bad EType end.

(* read a cell that the C code uses as `struct iv_timer_ *` *)
Definition load_timer (rs : rstate) (a : Z) : rres (option id) :=
  do c <- load rs a;
  match c with CNull => Good None | CTimer t => Good (Some t) | CNode _ => Bad EType end.

(* ... and dereference it *)
Definition deref_timer (rs : rstate) (a : Z) : rres id :=
  do o <- load_timer rs a;
  match o with Some t => Good t | None => Bad ENull end.

(* iv_timer_allocate_ratnode: calloc(1, sizeof(struct iv_timer_ratnode)); an
   allocation failure is iv_fatal in C and is not modelled *)
Definition alloc (rs : rstate) : rstate * Z :=
  let n := next rs in
  ({| mem := mem rs; live := PM.add (Z.to_pos n) true (live rs); next := n + 1;
      nalloc := nalloc rs + 1; nfree := nfree rs; hs := hs rs |}, n).

(* free(node) *)
Definition free_node (rs : rstate) (n : Z) : rres rstate :=
  match n with
  | Zpos p =>
      if n =? FIRST_LEAF then Bad EBadFree else
      match PM.find p (live rs) with
      | Some true => Good {| mem := mem rs; live := PM.add p false (live rs); next := next rs;
                             nalloc := nalloc rs; nfree := nfree rs + 1; hs := hs rs |}
      | Some false => Bad EDoubleFree
      | None => Bad EBadFree
      end
  | _ => Bad EBadFree
  end.

(* ---- C int arithmetic where it can leave the range: explicit undefined behaviour ---- *)
Definition INT_BITS : Z := 32.                     (* 8 * sizeof(int) *)
Definition INT_MAX : Z := 2 ^ 31 - 1.

(* x >> c on a non-negative int *)
Definition shr_int (x c : Z) : rres Z :=
  if (0 <=? c) && (c <? INT_BITS) then Good (Z.shiftr x c) else Bad EShift.
(* 1 << c *)
Definition shl1_int (c : Z) : rres Z :=
  if (0 <=? c) && (c <? INT_BITS - 1) then Good (Z.shiftl 1 c) else Bad EShift.
(* the value of a non-negative int expression *)
Definition chk_int (x : Z) : rres Z :=
  if x <=? INT_MAX then Good x else Bad EOverflow.

(* the growth test of iv_timer_get_node (since commit 3da677a):
     (st->rat_depth + 1) * IV_TIMER_SPLIT_BITS < 8 * (int)sizeof(index) &&
     index >> ((st->rat_depth + 1) * IV_TIMER_SPLIT_BITS) != 0
   with the short-circuit of && ; Timer/RadixLink.v proves that this is the function that
   gen/c2gallina.py extracts from the C source on every run (Gen/LeafTimer.v, timer_growth_test) *)
Definition grow_test (d index : Z) : rres bool :=
  if (d + 1) * SPLIT_BITS <? 8 * 4 then
    do v <- shr_int index ((d + 1) * SPLIT_BITS);
    Good (negb (v =? 0))
  else Good false.

Definition rdepth (rs : rstate) : Z := depth (hs rs).
Definition rnum (rs : rstate) : Z := num (hs rs).
Definition rset_depth (rs : rstate) (d : Z) : rstate := set_hs rs (set_depth (hs rs) d).
Definition rset_num (rs : rstate) (n : Z) : rstate := set_hs rs (set_num (hs rs) n).
Definition rset_idx (rs : rstate) (t : id) (i : Z) : rstate := set_hs rs (set_idx (hs rs) t i).

(* the descent loop of iv_timer_get_node:
     for (i = st->rat_depth; i > 0; i--) {
         bits = (index >> (i * 7)) & 127;
         if (r->child[bits] == NULL) r->child[bits] = iv_timer_allocate_ratnode();
         r = r->child[bits];
     }                                                                          *)
Fixpoint walk (fuel : nat) (rs : rstate) (r : Z) (i : Z) (index : Z) : rres (rstate * Z) :=
  if i <=? 0 then Good (rs, r) else
  match fuel with
  | O => Bad EFuel
  | S f =>
      do sh <- shr_int index (i * SPLIT_BITS);
      let bits := Z.land sh (NODES - 1) in
      do c <- load_node rs (r * NODES + bits);
      match c with
      | Some n => walk f rs n (i - 1) index
      | None =>
          let '(rs1, n) := alloc rs in
          do rs2 <- store rs1 (r * NODES + bits) (CNode n);
          walk f rs2 n (i - 1) index
      end
  end.

(* iv_timer_get_node(st, index): returns the state (the tree may have grown by
   one level and interior nodes may have been allocated) and the slot ADDRESS *)
Definition rget_node (rs : rstate) (index : Z) : rres (rstate * Z) :=
  do grow <- grow_test (rdepth rs) index;
  do rs1 <-
    (if negb grow then Good rs else
       let rs1 := rset_depth rs (rdepth rs + 1) in               (* st->rat_depth++ *)
       let '(rs2, r) := alloc rs1 in                             (* r = iv_timer_allocate_ratnode() *)
       do c <- load rs2 ROOT_CELL;
       do rs3 <- store rs2 (r * NODES) c;                        (* r->child[0] = st->ratnode.timer_root *)
       store rs3 ROOT_CELL (CNode r));                           (* st->ratnode.timer_root = r *)
  do r <- load_node rs1 ROOT_CELL;                               (* r = st->ratnode.timer_root *)
  match r with
  | None => Bad ENull
  | Some r =>
      do x <- walk (Z.to_nat (rdepth rs1)) rs1 r (rdepth rs1) index;
      let '(rs2, r') := x in
      Good (rs2, r' * NODES + Z.land index (NODES - 1))
  end.

(* the loops `for (i = i0; i < 128; i++) { if (node->child[i] == NULL) break; rec(node->child[i]); }`
   of iv_timer_free_ratnode (i0 = 0) and iv_timer_radix_tree_remove_level (i0 = 1) *)
Fixpoint free_kids (rec : rstate -> Z -> rres rstate) (n : nat) (rs : rstate) (node : Z) (i : Z) : rres rstate :=
  match n with
  | O => Good rs
  | S n' =>
      do c <- load_node rs (node * NODES + i);
      match c with
      | None => Good rs                                          (* break *)
      | Some k => do rs1 <- rec rs k; free_kids rec n' rs1 node (i + 1)
      end
  end.

(* iv_timer_free_ratnode(node, depth) *)
Fixpoint free_ratnode (fuel : nat) (rs : rstate) (node : Z) (d : Z) : rres rstate :=
  if d =? 0 then free_node rs node else
  match fuel with
  | O => Bad EFuel
  | S f =>
      do rs1 <- free_kids (fun rs' k => free_ratnode f rs' k (d - 1)) 128 rs node 0;
      free_node rs1 node
  end.

(* iv_timer_radix_tree_remove_level *)
Definition rremove_level (rs : rstate) : rres rstate :=
  let rs := rset_depth rs (rdepth rs - 1) in                     (* st->rat_depth-- *)
  do r <- load_node rs ROOT_CELL;                                (* root = st->ratnode.timer_root *)
  match r with
  | None => Bad ENull
  | Some root =>
      do rs1 <- free_kids (fun rs' k => free_ratnode (Z.to_nat (rdepth rs)) rs' k (rdepth rs)) 127 rs root 1;
      do c <- load rs1 (root * NODES);
      do rs2 <- store rs1 ROOT_CELL c;                           (* st->ratnode.timer_root = root->child[0] *)
      free_node rs2 root                                         (* free(root) *)
  end.

(* iv_timer_deinit *)
Fixpoint deinit_loop (fuel : nat) (rs : rstate) : rres rstate :=
  if rdepth rs =? 0 then Good rs else
  match fuel with
  | O => Bad EFuel
  | S f => do rs1 <- rremove_level rs; deinit_loop f rs1
  end.

Definition rdeinit (rs : rstate) : rres rstate :=
  do rs1 <- deinit_loop (Z.to_nat (rdepth rs)) rs;
  store rs1 ROOT_CELL CNull.                                     (* st->ratnode.timer_root = NULL *)

(* pull_up(st, index, i): i is a slot address *)
Fixpoint rpull_up (fuel : nat) (rs : rstate) (index : Z) (i : Z) : rres rstate :=
  if index =? 1 then Good rs else
  match fuel with
  | O => Bad EFuel
  | S f =>
      let parent := index / 2 in
      do x <- rget_node rs parent;
      let '(rs1, p) := x in
      do tp <- deref_timer rs1 p;
      do ti <- deref_timer rs1 i;
      if ptr_gt (hs rs1) tp ti then
        do rs2 <- store rs1 i (CTimer tp);                       (* et = *i; *i = *p; *)
        do rs3 <- store rs2 p (CTimer ti);                       (* *p = et; *)
        let rs4 := rset_idx (rset_idx rs3 tp index) ti parent in (* ( *i)->index = index; ( *p)->index = parent; *)
        rpull_up f rs4 parent p
      else Good rs1
  end.

(* push_down(st, index, i) *)
Fixpoint rpush_down (fuel : nat) (rs : rstate) (index : Z) (i : Z) : rres rstate :=
  match fuel with
  | O => Bad EFuel
  | S f =>
      do i2 <- chk_int (2 * index);                                (* 2 * index is an int *)
      if i2 <=? rnum rs then
        do x <- rget_node rs (2 * index);
        let '(rs1, p) := x in
        do ti <- deref_timer rs1 i;                              (* *imin, imin == i *)
        do tl <- deref_timer rs1 p;                              (* p[0] *)
        let '(index_min, imin, tmin) := if ptr_gt (hs rs1) ti tl then (2 * index, p, tl) else (index, i, ti) in
        do c <- (if p mod NODES + 1 <? NODES then load_timer rs1 (p + 1) else Bad EWild);     (* p[1] *)
        let '(index_min, imin, tmin) :=
          match c with
          | Some tr => if ptr_gt (hs rs1) tmin tr then (2 * index + 1, p + 1, tr) else (index_min, imin, tmin)
          | None => (index_min, imin, tmin)
          end in
        if index =? index_min then Good rs1
        else
          do rs2 <- store rs1 i (CTimer tmin);
          do rs3 <- store rs2 imin (CTimer ti);
          let rs4 := rset_idx (rset_idx rs3 tmin index) ti index_min in
          rpush_down f rs4 index_min imin
      else Good rs
  end.

Inductive routcome : Type :=
| ROk (rs : rstate)
| RFatal (rs : rstate)       (* iv_fatal *)
| RCrash (e : rerr).

Definition lift (r : rres rstate) : routcome :=
  match r with Good rs => ROk rs | Bad e => RCrash e end.

(* iv_timer_register *)
Definition rregister (rs : rstate) (t : id) : routcome :=
  if negb (tidx (hs rs) t =? -1) then RFatal rs else
  let rs := set_hs rs (set_numobjs (hs rs) (numobjs (hs rs) + 1)) in
  let index := rnum rs + 1 in
  let rs := rset_num rs index in                                 (* index = ++st->num_timers *)
  lift (do _ <- chk_int index;
        do x <- rget_node rs index;
        let '(rs1, p) := x in
        do rs2 <- store rs1 p (CTimer t);                        (* *p = t *)
        let rs3 := rset_idx rs2 t index in
        rpull_up (log2_fuel index) rs3 index p).

(* iv_timer_unregister *)
Definition runregister (rs : rstate) (t : id) : routcome :=
  let ix := tidx (hs rs) t in
  if ix =? -1 then RFatal rs else
  if negb (ix =? 0) then
    if rnum rs <? ix then RFatal rs else
    match rget_node rs ix with
    | Bad e => RCrash e
    | Good (rs1, p) =>
        match load rs1 p with
        | Bad e => RCrash e
        | Good c =>
            if negb (match c with CTimer tp => Pos.eqb tp t | _ => false end) then RFatal rs1 else     (* *p != t *)
            lift (do x <- rget_node rs1 (rnum rs1);
                  let '(rs2, m) := x in
                  let n := rnum rs2 in
                  do cm <- load rs2 m;
                  do rs3 <- store rs2 p cm;                      (* *p = *m *)
                  do tlast <- deref_timer rs3 p;
                  let rs3 := rset_idx rs3 tlast ix in            (* ( *p)->index = t->index *)
                  do rs3 <- store rs3 m CNull;                   (* *m = NULL *)
                  do shrink <- (if 0 <? rdepth rs3                 (* && short-circuit *)
                                then do lim <- shl1_int (rdepth rs3 * SPLIT_BITS); Good (n =? lim)
                                else Good false);
                  do rs4 <- (if shrink : bool then rremove_level rs3 else Good rs3);
                  let rs5 := rset_num rs4 (n - 1) in             (* st->num_timers-- *)
                  do rs7 <-
                    (if p =? m then Good rs5 else                (* if (p != m) *)
                       (* pull_up(st, ( *p)->index, p); push_down(st, ( *p)->index, p): p is dereferenced
                          AFTER remove_level.  The value read, ( *p)->index, is the ix assigned above (and
                          pull_up keeps ( *i)->index == index); like HeapModel we pass ix. *)
                       do _ <- deref_timer rs5 p;
                       do rs6 <- rpull_up (log2_fuel ix) rs5 ix p;
                       do _ <- deref_timer rs6 p;
                       rpush_down (log2_fuel n) rs6 ix p);
                  Good (rset_idx (set_hs rs7 (set_numobjs (hs rs7) (numobjs (hs rs7) - 1))) t (-1)))
        end
    end
  else
    ROk (rset_idx (set_hs rs (set_batch (hs rs) (remove_first t (batch (hs rs))))) t (-1)).

Definition rdo_act (rs : rstate) (a : act) : routcome * Z :=
  match a with
  | AReg t e => if tidx (hs rs) t =? -1 then (rregister (set_hs rs (set_exp (hs rs) t e)) t, 0) else (ROk rs, 1)
  | AUnreg t => if tidx (hs rs) t =? -1 then (ROk rs, 1) else (runregister rs t, 0)
  end.

Fixpoint rdo_acts (rs : rstate) (l : list act) : routcome :=
  match l with
  | [] => ROk rs
  | a :: l' => match fst (rdo_act rs a) with
               | ROk rs' => rdo_acts rs' l'
               | o => o
               end
  end.

(* first loop of iv_run_timers; the root is read as st->ratnode.first_leaf.child[1] *)
Fixpoint rcollect (fuel : nat) (rs : rstate) : routcome :=
  if rnum rs =? 0 then ROk rs else
  match fuel with
  | O => RCrash EFuel
  | S f =>
      match deref_timer rs (FIRST_LEAF * NODES + 1) with
      | Bad e => RCrash e
      | Good t =>
          if negb (tidx (hs rs) t =? 1) then RFatal rs else
          if now (hs rs) <? texp (hs rs) t then ROk rs else
          match runregister rs t with
          | ROk rs1 => rcollect f (rset_idx (set_hs rs1 (set_batch (hs rs1) (batch (hs rs1) ++ [t]))) t 0)
          | o => o
          end
      end
  end.

Fixpoint rdispatch (fuel : nat) (sc : scripts) (rs : rstate) (fired : list id) : routcome * list id :=
  match batch (hs rs) with
  | [] => (ROk rs, fired)
  | t :: rest =>
      match fuel with
      | O => (RCrash EFuel, fired)
      | S f =>
          let rs1 := rset_idx (set_hs rs (set_batch (hs rs) rest)) t (-1) in
          match rdo_acts rs1 (sc t) with
          | ROk rs2 => rdispatch f sc rs2 (fired ++ [t])
          | o => (o, fired ++ [t])
          end
      end
  end.

Definition rrun_timers (sc : scripts) (rs : rstate) (clock : Z) : routcome * list id :=
  if rnum rs =? 0 then (ROk rs, []) else
  let rs := set_hs rs (set_now (hs rs) clock) in
  match rcollect (S (Z.to_nat (rnum rs))) rs with
  | ROk rs1 => rdispatch (S (length (batch (hs rs1)))) sc rs1 []
  | o => (o, [])
  end.

Definition rstep (sc : scripts) (rs : rstate) (o : op) : routcome * Z * list id :=
  match o with
  | OAct a => let '(r, rc) := rdo_act rs a in (r, rc, [])
  | ORun c => let '(r, f) := rrun_timers sc rs c in (r, 0, f)
  end.

Definition rrun_ops (sc : scripts) (ops : list op) (rs : rstate) : routcome :=
  fold_left (fun o x => match o with ROk s => fst (fst (rstep sc s x)) | _ => o end) ops (ROk rs).

(* ---- read-only observers (what harness/radix_drv.c prints) ---- *)

(* the slot of `index`, found by walking the tree without allocating (the
   function slot() of the harness); None when the path is interrupted *)
Fixpoint peek_walk (fuel : nat) (rs : rstate) (r : Z) (i : Z) (index : Z) : option Z :=
  if i <=? 0 then Some r else
  match fuel with
  | O => None
  | S f =>
      match mget (mem rs) (r * NODES + Z.land (Z.shiftr index (i * SPLIT_BITS)) (NODES - 1)) with
      | CNode n => peek_walk f rs n (i - 1) index
      | _ => None
      end
  end.

Definition slot_addr (rs : rstate) (index : Z) : option Z :=
  if negb (Z.shiftr index ((rdepth rs + 1) * SPLIT_BITS) =? 0) then None else
  match mget (mem rs) ROOT_CELL with
  | CNode r =>
      match peek_walk (Z.to_nat (rdepth rs)) rs r (rdepth rs) index with
      | Some r' => Some (r' * NODES + Z.land index (NODES - 1))
      | None => None
      end
  | _ => None
  end.

Definition rslot (rs : rstate) (index : Z) : option id :=
  match slot_addr rs index with
  | Some a => match mget (mem rs) a with CTimer t => Some t | _ => None end
  | None => None
  end.

Definition rdump_slots (rs : rstate) : list (option id) :=
  map (rslot rs) (zrange 1 (Z.to_nat (rnum rs))).

(* the abstraction: the flat map index -> timer that the tree implements *)
Definition flat_of (rs : rstate) : PM.t id :=
  fold_left (fun m i => match i, rslot rs i with
                        | Zpos p, Some t => PM.add p t m
                        | _, _ => m
                        end) (zrange 1 (Z.to_nat (rnum rs))) (PM.empty id).

Definition rabs (rs : rstate) : tstate := set_slots (hs rs) (flat_of rs).

(* number of nodes reachable from `node` (itself included), `d` levels above the leaves;
   every non-NULL child is counted, not only the prefix before the first NULL *)
Fixpoint count_from (fuel : nat) (rs : rstate) (node : Z) (d : Z) : Z :=
  if d <=? 0 then 1 else
  match fuel with
  | O => 1
  | S f =>
      fold_left (fun acc off => match mget (mem rs) (node * NODES + off) with
                                | CNode k => acc + count_from f rs k (d - 1)
                                | _ => acc
                                end) (zrange 0 128) 1
  end.

(* nodes reachable from timer_root, first_leaf included *)
Definition count_nodes (rs : rstate) : Z :=
  match mget (mem rs) ROOT_CELL with
  | CNode r => count_from (Z.to_nat (rdepth rs)) rs r (rdepth rs)
  | _ => 0
  end.

(* number of calloc'ed nodes that are live *)
Definition live_count (rs : rstate) : Z :=
  PM.fold (fun _ b acc => if b : bool then acc + 1 else acc) (live rs) 0.

(* ---- boolean monitor on what the harness prints after an operation ----
   n = num_timers, d = rat_depth, l = nodes reachable from the root, a = callocs, x = frees:
   the depth is the minimal one for n; nothing leaked or lost (reachable = allocated - freed
   + first_leaf); at least the nodes that n slots need are there *)
Definition needed_nodes (n d : Z) : Z :=
  fold_left (fun acc l => acc + n / 2 ^ (SPLIT_BITS * (l + 1)) + 1) (zrange 0 (Z.to_nat (d + 1))) 0.

Definition depth_mon (n d : Z) : bool :=
  (0 <=? d) && (0 <=? n) && (n <? cap d) && ((d =? 0) || (2 ^ (SPLIT_BITS * d) <=? n)).

Definition radix_mon (n d l a x : Z) : bool :=
  depth_mon n d && (l =? a - x + 1) && (needed_nodes n d <=? l).

(* after iv_timer_deinit *)
Definition radix_mon_deinit (d l a x : Z) : bool :=
  (d =? 0) && (l =? 0) && (a =? x).
