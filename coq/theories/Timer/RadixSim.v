(* RadixSim.v -- every operation of RadixModel is simulated by the same operation of HeapModel
   on the flat map that the tree implements. *)
From Coq Require Import List ZArith Bool Lia FMapPositive.
From Ivv Require Import Timer.HeapModel Timer.HeapSpec Timer.HeapBase Timer.HeapSift Timer.HeapFacts Timer.HeapReg
  Timer.HeapUnreg Timer.HeapCollect Timer.HeapDispatch Timer.RadixModel Timer.RadixSpec
  Timer.RadixArith Timer.RadixMem Timer.RadixGetNode Timer.RadixFree.
Import ListNotations.
Local Open Scope Z_scope.

Ltac Zify.zify_post_hook ::= Z.div_mod_to_equations.

(* the simulation relation with its ghost parameters exposed *)
Definition Ref (rs : rstate) (s : tstate) (na : Z -> Z -> Z) (H : Z) : Prop :=
  ShapeH rs na H /\ Rel rs s na H /\ (num s <= H /\ H < POP_BOUND).

Lemma Ref_depth : forall rs s na H, Ref rs s na H ->
  0 <= depth s /\ H < cap (depth s) /\ depth s = rdepth rs /\ num s = rnum rs /\ 0 <= H.
Proof.
  intros rs s na H ((S & B1 & B2) & R & N). destruct (Rel_fields _ _ _ _ R) as (En & Ed & _).
  rewrite cap_P, Ed. pose proof (sh_depth _ _ _ S). repeat split; try assumption; lia.
Qed.

Lemma leaf_le : forall i H, 0 <= i <= H -> i / NODES * NODES <= H.
Proof. intros. unfold NODES. lia. Qed.

(* ---------- elementary steps ---------- *)
Lemma sim_get_node : forall rs s na H i, Ref rs s na H -> 1 <= i <= H ->
  get_node s i = Some s /\ rget_node rs i = Good (rs, p_of na i).
Proof.
  intros rs s na H i Rf Hi. destruct (Ref_depth _ _ _ _ Rf) as (D0 & Dc & _).
  destruct Rf as (SH & R & N). split.
  - apply get_node_same; lia.
  - apply (rget_node_same rs na H); assumption.
Qed.

Lemma sim_load_timer : forall rs s na H i, Ref rs s na H -> 1 <= i -> i / NODES * NODES <= H ->
  load_timer rs (p_of na i) = Good (sget s i).
Proof.
  intros rs s na H i (SH & R & N) Hi Hh. unfold load_timer, bind.
  rewrite (Rel_load rs s na H i SH R Hi Hh). destruct (sget s i); reflexivity.
Qed.

Lemma sim_deref : forall rs s na H i, Ref rs s na H -> 1 <= i -> i / NODES * NODES <= H ->
  deref_timer rs (p_of na i) = match sget s i with Some t => Good t | None => Bad ENull end.
Proof.
  intros rs s na H i Rf Hi Hh. unfold deref_timer, bind. rewrite (sim_load_timer rs s na H i Rf Hi Hh).
  reflexivity.
Qed.

Lemma sim_store : forall rs s na H i v, Ref rs s na H -> 1 <= i <= H ->
  exists rs', store rs (p_of na i) (cell_of v) = Good rs' /\ Ref rs' (sset s i v) na H /\ hs rs' = hs rs.
Proof.
  intros rs s na H i v (SH & R & N) Hi.
  exists (set_mem rs (mset (mem rs) (p_of na i) (cell_of v))).
  split; [apply (slot_store rs na H SH); [lia|apply leaf_le; lia]|].
  split; [|reflexivity]. split; [|split].
  - apply ShapeH_slot_store; [assumption|lia|apply leaf_le; lia].
  - apply Rel_store; assumption.
  - rewrite num_sset. assumption.
Qed.

Lemma Ref_set_idx : forall rs s na H t i, Ref rs s na H -> Ref (rset_idx rs t i) (set_idx s t i) na H.
Proof.
  intros rs s na H t i (SH & R & N). split; [|split].
  - apply ShapeH_set_hs; [|assumption]. rewrite depth_set_idx. reflexivity.
  - apply Rel_set_idx. assumption.
  - rewrite num_set_idx. assumption.
Qed.

Lemma Ref_ptr_gt : forall rs s na H a b, Ref rs s na H -> ptr_gt (hs rs) a b = ptr_gt s a b.
Proof. intros rs s na H a b (_ & R & _). apply (Rel_ptr_gt rs s na H); assumption. Qed.

Lemma Ref_tidx : forall rs s na H t, Ref rs s na H -> tidx (hs rs) t = tidx s t.
Proof. intros rs s na H t (_ & R & _). apply (Rel_tidx rs s na H); assumption. Qed.

Lemma Ref_texp : forall rs s na H t, Ref rs s na H -> texp (hs rs) t = texp s t.
Proof. intros rs s na H t (_ & R & _). apply (Rel_texp rs s na H); assumption. Qed.

(* exchange of two slots with the back indices *)
Lemma sim_swap : forall rs s na H i j ti tj, Ref rs s na H -> 1 <= i <= H -> 1 <= j <= H ->
  exists rs2 rs3, store rs (p_of na i) (CTimer tj) = Good rs2 /\ store rs2 (p_of na j) (CTimer ti) = Good rs3 /\
    Ref (rset_idx (rset_idx rs3 tj i) ti j) (swap_slots s i j ti tj) na H.
Proof.
  intros rs s na H i j ti tj Rf Hi Hj.
  destruct (sim_store rs s na H i (Some tj) Rf Hi) as (rs2 & St2 & Rf2 & _).
  destruct (sim_store rs2 _ na H j (Some ti) Rf2 Hj) as (rs3 & St3 & Rf3 & _).
  exists rs2, rs3. split; [exact St2|]. split; [exact St3|].
  unfold swap_slots. apply Ref_set_idx. apply Ref_set_idx. exact Rf3.
Qed.

Lemma num_swap_slots : forall s i j ti tj, num (swap_slots s i j ti tj) = num s.
Proof. intros. unfold swap_slots. rewrite !num_set_idx, !num_sset. reflexivity. Qed.

(* ---------- pull_up ---------- *)
Lemma pull_up_eq : forall fuel s i,
  pull_up fuel s i =
  if i =? 1 then Some s else
  match fuel with
  | O => None
  | S f =>
      let parent := i / 2 in
      match get_node s parent with
      | None => None
      | Some s1 =>
          match sget s1 parent, sget s1 i with
          | Some tp, Some ti =>
              if ptr_gt s1 tp ti then pull_up f (swap_slots s1 i parent ti tp) parent
              else Some s1
          | _, _ => None
          end
      end
  end.
Proof. intros. destruct fuel; reflexivity. Qed.

Lemma rpull_up_eq : forall fuel rs index i,
  rpull_up fuel rs index i =
  if index =? 1 then Good rs else
  match fuel with
  | O => Bad EFuel
  | S f =>
      let parent := index / 2 in
      do x <- rget_node rs parent;
      let '(rs1, p) := x in
      do tp <- deref_timer rs1 p;
      do ti <- deref_timer rs1 i;
      if ptr_gt (hs rs1) tp ti then
        do rs2 <- store rs1 i (CTimer tp);
        do rs3 <- store rs2 p (CTimer ti);
        let rs4 := rset_idx (rset_idx rs3 tp index) ti parent in
        rpull_up f rs4 parent p
      else Good rs1
  end.
Proof. intros. destruct fuel; reflexivity. Qed.

Lemma rpull_up_sim : forall fuel rs s na H i s', Ref rs s na H -> 1 <= i <= H ->
  pull_up fuel s i = Some s' ->
  exists rs', rpull_up fuel rs i (p_of na i) = Good rs' /\ Ref rs' s' na H /\ num s' = num s.
Proof.
  induction fuel as [|f IH]; intros rs s na H i s' Rf Hi E; rewrite pull_up_eq in E; rewrite rpull_up_eq.
  - destruct (i =? 1); [|discriminate]. inversion E; subst. exists rs. auto.
  - destruct (Z.eqb_spec i 1) as [E1|N1].
    + inversion E; subst. exists rs. auto.
    + cbv zeta in *.
      assert (Hp : 1 <= i / 2 <= H) by lia.
      destruct (sim_get_node rs s na H (i / 2) Rf Hp) as [G1 G2]. rewrite G1 in E. rewrite G2.
      unfold bind at 1.
      rewrite (sim_deref rs s na H (i / 2) Rf ltac:(lia) (leaf_le (i / 2) H ltac:(lia))).
      destruct (sget s (i / 2)) as [tp|] eqn:Ep; [|discriminate]. unfold bind at 1.
      rewrite (sim_deref rs s na H i Rf ltac:(lia) (leaf_le i H ltac:(lia))).
      destruct (sget s i) as [ti|] eqn:Ei; [|discriminate]. unfold bind at 1.
      rewrite (Ref_ptr_gt rs s na H tp ti Rf).
      destruct (ptr_gt s tp ti).
      * destruct (sim_swap rs s na H i (i / 2) ti tp Rf Hi Hp) as (rs2 & rs3 & St2 & St3 & Rf4).
        rewrite St2. unfold bind at 1. rewrite St3. unfold bind at 1.
        destruct (IH _ _ na H (i / 2) s' Rf4 Hp E) as (rs' & E' & Rf' & N').
        exists rs'. split; [exact E'|]. split; [exact Rf'|]. rewrite N'. apply num_swap_slots.
      * inversion E; subst. exists rs. auto.
Qed.

(* ---------- push_down ---------- *)
Lemma push_down_eq : forall fuel s i,
  push_down fuel s i =
  match fuel with
  | O => None
  | S f =>
      match sget s i with
      | None => None
      | Some ti =>
          if 2 * i <=? num s then
            match get_node s (2 * i) with
            | None => None
            | Some s1 =>
                match sget s1 (2 * i) with
                | None => None
                | Some tl =>
                    let '(imin, tmin) := if ptr_gt s1 ti tl then (2 * i, tl) else (i, ti) in
                    let '(imin, tmin) :=
                      match sget s1 (2 * i + 1) with
                      | Some tr => if ptr_gt s1 tmin tr then (2 * i + 1, tr) else (imin, tmin)
                      | None => (imin, tmin)
                      end in
                    if imin =? i then Some s1
                    else push_down f (swap_slots s1 i imin ti tmin) imin
                end
            end
          else Some s
      end
  end.
Proof. intros. destruct fuel; reflexivity. Qed.

Lemma rpush_down_eq : forall fuel rs index i,
  rpush_down fuel rs index i =
  match fuel with
  | O => Bad EFuel
  | S f =>
      do i2 <- chk_int (2 * index);
      if i2 <=? rnum rs then
        do x <- rget_node rs (2 * index);
        let '(rs1, p) := x in
        do ti <- deref_timer rs1 i;
        do tl <- deref_timer rs1 p;
        let '(index_min, imin, tmin) := if ptr_gt (hs rs1) ti tl then (2 * index, p, tl) else (index, i, ti) in
        do c <- (if p mod NODES + 1 <? NODES then load_timer rs1 (p + 1) else Bad EWild);
        let '(index_min, imin, tmin) :=
          match c with
          | Some tr => if ptr_gt (hs rs1) tmin tr then (2 * index + 1, p + 1, tr) else (index_min, imin, tmin)
          | None => (index_min, imin, tmin)
          end in
        if index =? index_min then Good rs1
        else
          do rs2 <- store rs1 i (CTimer tmin);
          do rs3 <- store rs2 imin (CTimer ti);
          let rs4 := rset_idx (rset_idx rs3 tmin index) ti index_min in
          rpush_down f rs4 index_min imin
      else Good rs
  end.
Proof. intros. destruct fuel; reflexivity. Qed.

Lemma chk_int_ok : forall x, x <= INT_MAX -> chk_int x = Good x.
Proof. intros x H. unfold chk_int. replace (x <=? INT_MAX) with true by (symmetry; apply Z.leb_le; assumption). reflexivity. Qed.

Lemma pop_bound_int : forall x, x < POP_BOUND -> 2 * x + 1 <= INT_MAX.
Proof. intros x H. unfold POP_BOUND, INT_MAX in *. lia. Qed.

Lemma p_of_succ_even : forall na i, p_of na (2 * i) + 1 = p_of na (2 * i + 1).
Proof.
  intros. unfold p_of, NODES.
  replace ((2 * i + 1) / 128) with (2 * i / 128) by lia. lia.
Qed.

Lemma rpush_down_sim : forall fuel rs s na H i s', Ref rs s na H -> 1 <= i <= H ->
  push_down fuel s i = Some s' ->
  exists rs', rpush_down fuel rs i (p_of na i) = Good rs' /\ Ref rs' s' na H /\ num s' = num s.
Proof.
  induction fuel as [|f IH]; intros rs s na H i s' Rf Hi E; rewrite push_down_eq in E; rewrite rpush_down_eq.
  - discriminate.
  - destruct (sget s i) as [ti|] eqn:Ei; [|discriminate].
    destruct (Ref_depth _ _ _ _ Rf) as (_ & _ & _ & En & _).
    rewrite chk_int_ok by (pose proof (pop_bound_int i ltac:(destruct Rf as (_ & _ & K); lia)); lia).
    unfold bind at 1. rewrite <- En.
    destruct (Z.leb_spec (2 * i) (num s)) as [L|L].
    2:{ inversion E; subst. exists rs. auto. }
    assert (N : num s <= H) by apply Rf.
    assert (H2 : 1 <= 2 * i <= H) by lia.
    destruct (sim_get_node rs s na H (2 * i) Rf H2) as [G1 G2]. rewrite G1 in E. rewrite G2.
    unfold bind at 1.
    rewrite (sim_deref rs s na H i Rf ltac:(lia) (leaf_le i H ltac:(lia))). rewrite Ei. unfold bind at 1.
    rewrite (sim_deref rs s na H (2 * i) Rf ltac:(lia) (leaf_le (2 * i) H ltac:(lia))).
    destruct (sget s (2 * i)) as [tl|] eqn:El; [|discriminate]. unfold bind at 1.
    (* the p[1] neighbour *)
    assert (SH : ShapeH rs na H) by apply Rf.
    rewrite (slot_mod na (2 * i)).
    replace ((2 * i) mod NODES + 1 <? NODES) with true by (symmetry; apply Z.ltb_lt; unfold NODES; lia).
    rewrite p_of_succ_even.
    rewrite (sim_load_timer rs s na H (2 * i + 1) Rf ltac:(lia)) by (unfold NODES in *; lia).
    assert (V : forall tr, sget s (2 * i + 1) = Some tr -> 2 * i + 1 <= H).
    { intros tr Er. destruct (Z_le_gt_dec (2 * i + 1) H); [assumption|].
      destruct Rf as (_ & R & _). rewrite (r_vac _ _ _ _ R (2 * i + 1)) in Er by lia. discriminate. }
    (* the common end of all cases *)
    assert (FIN : forall imin tmin, 1 <= imin <= H ->
      (if imin =? i then Some s else push_down f (swap_slots s i imin ti tmin) imin) = Some s' ->
      exists rs',
        (if i =? imin then Good rs
         else do rs2 <- store rs (p_of na i) (CTimer tmin);
              do rs3 <- store rs2 (p_of na imin) (CTimer ti);
              let rs4 := rset_idx (rset_idx rs3 tmin i) ti imin in
              rpush_down f rs4 imin (p_of na imin)) = Good rs' /\ Ref rs' s' na H /\ num s' = num s).
    { intros imin tmin Hm Em. rewrite Z.eqb_sym.
      destruct (imin =? i).
      - inversion Em; subst. exists rs. auto.
      - destruct (sim_swap rs s na H i imin ti tmin Rf Hi Hm) as (rs2 & rs3 & St2 & St3 & Rf4).
        rewrite St2. unfold bind at 1. rewrite St3. unfold bind at 1. cbv zeta.
        destruct (IH _ _ na H imin s' Rf4 Hm Em) as (rs' & E' & Rf' & N').
        exists rs'. split; [exact E'|]. split; [exact Rf'|]. rewrite N'. apply num_swap_slots. }
    rewrite !(Ref_ptr_gt rs s na H) by assumption.
    unfold bind at 1.
    destruct (ptr_gt s ti tl) eqn:G1'; destruct (sget s (2 * i + 1)) as [tr|] eqn:Er.
    + cbv beta iota zeta in E |- *. rewrite !(Ref_ptr_gt rs s na H) by assumption.
      destruct (ptr_gt s tl tr); cbv beta iota zeta in E |- *.
      * apply FIN; [specialize (V tr eq_refl); lia|exact E].
      * apply FIN; [lia|exact E].
    + cbv beta iota zeta in E |- *. apply FIN; [lia|exact E].
    + cbv beta iota zeta in E |- *. rewrite !(Ref_ptr_gt rs s na H) by assumption.
      destruct (ptr_gt s ti tr); cbv beta iota zeta in E |- *.
      * apply FIN; [specialize (V tr eq_refl); lia|exact E].
      * apply FIN; [lia|exact E].
    + cbv beta iota zeta in E |- *. apply FIN; [lia|exact E].
Qed.

(* ---------- iv_timer_register ---------- *)
Lemma num_set_depth : forall s d, num (set_depth s d) = num s.
Proof. reflexivity. Qed.

Lemma P5_bound : POP_BOUND < P 5.
Proof. reflexivity. Qed.

Lemma sim_get_node_last : forall rs s na H, ShapeH rs na H -> Rel rs s na H -> 1 <= num s <= H + 1 ->
  H < POP_BOUND -> num s < POP_BOUND ->
  exists rs1 s1 na1 H1, get_node s (num s) = Some s1 /\ rget_node rs (num s) = Good (rs1, p_of na1 (num s)) /\
    Ref rs1 s1 na1 H1 /\ num s1 = num s.
Proof.
  intros rs s na H SH R N HB NB.
  destruct (Z_le_gt_dec (num s) H) as [L|L].
  - assert (Rf : Ref rs s na H) by (split; [assumption|split; [assumption|lia]]).
    destruct (sim_get_node rs s na H (num s) Rf ltac:(lia)) as [G1 G2].
    exists rs, s, na, H. auto.
  - assert (E : num s = H + 1) by lia. pose proof P5_bound as P5.
    destruct (rget_node_next rs s na H SH R ltac:(lia)) as (rs' & na' & G2 & SH' & R' & G1). cbv zeta in *.
    rewrite <- E in *.
    eexists rs', _, na', (num s). split; [exact G1|]. split; [exact G2|]. split; [|reflexivity].
    split; [exact SH'|]. split; [exact R'|]. rewrite num_set_depth. lia.
Qed.

Lemma rregister_sim : forall rs s na H t s', Ref rs s na H -> num s + 1 < POP_BOUND ->
  register s t = Ok s' ->
  exists rs' na' H', rregister rs t = ROk rs' /\ Ref rs' s' na' H'.
Proof.
  intros rs s na H t s' Rf NB E. unfold register in E. unfold rregister.
  rewrite (Ref_tidx rs s na H t Rf).
  destruct (negb (tidx s t =? -1)); [discriminate|]. cbv zeta in *.
  destruct Rf as (SH & R & N).
  destruct (Rel_fields _ _ _ _ R) as (En & Ed & _ & _ & Eo & _).
  rewrite <- Eo.
  set (sa := set_numobjs s (numobjs s + 1)) in *.
  set (rsa := set_hs rs (set_numobjs (hs rs) (numobjs s + 1))).
  assert (Ra : Rel rsa sa na H) by (apply Rel_set_numobjs; assumption).
  assert (SHa : ShapeH rsa na H) by (apply ShapeH_set_hs; [reflexivity|assumption]).
  assert (Ena : rnum rsa = num s) by (unfold rsa, rnum; cbn [hs set_hs num set_numobjs]; symmetry; exact En).
  rewrite Ena.
  change (num sa) with (num s) in E.
  set (sb := set_num sa (num s + 1)) in *.
  set (rsb := rset_num rsa (num s + 1)).
  assert (Rb : Rel rsb sb na H) by (apply Rel_set_num; assumption).
  assert (SHb : ShapeH rsb na H) by (apply ShapeH_set_hs; [reflexivity|assumption]).
  assert (Nb : num sb = num s + 1) by reflexivity.
  pose proof (sh_depth _ _ _ (proj1 SH)).
  assert (N0 : 0 <= num s).
  { destruct (get_node sb (num s + 1)) eqn:G; [|discriminate].
    Local Transparent get_node. unfold get_node in G. Local Opaque get_node.
    destruct (0 <? num s + 1) eqn:Z0; [apply Z.ltb_lt in Z0; lia|cbn in G; discriminate]. }
  destruct (sim_get_node_last rsb sb na H SHb Rb ltac:(lia) ltac:(lia) ltac:(lia)) as (rs1 & s1 & na1 & H1 & G1 & G2 & Rf1 & N1).
  rewrite Nb in G1, G2. rewrite G1 in E. unfold lift.
  rewrite chk_int_ok by (unfold POP_BOUND, INT_MAX in *; lia). unfold bind. rewrite G2.
  assert (Hi : 1 <= num s + 1 <= H1) by (destruct Rf1 as (_ & _ & K); lia).
  destruct (sim_store rs1 s1 na1 H1 (num s + 1) (Some t) Rf1 Hi) as (rs2 & St2 & Rf2 & _).
  cbn [cell_of] in St2. rewrite St2.
  pose proof (Ref_set_idx rs2 _ na1 H1 t (num s + 1) Rf2) as Rf3.
  destruct (pull_up (log2_fuel (num s + 1)) (set_idx (sset s1 (num s + 1) (Some t)) t (num s + 1)) (num s + 1))
    as [s3|] eqn:PU; [|discriminate].
  inversion E; subst s3.
  destruct (rpull_up_sim _ _ _ na1 H1 (num s + 1) s' Rf3 Hi PU) as (rs' & E' & Rf' & _).
  rewrite E'. exists rs', na1, H1. auto.
Qed.

(* ---------- iv_timer_unregister ---------- *)
Local Transparent get_node.
Lemma get_node_nonpos : forall s i, i <= 0 -> get_node s i = None.
Proof.
  intros s i H. unfold get_node. replace (0 <? i) with false by (symmetry; apply Z.ltb_ge; assumption).
  reflexivity.
Qed.
Local Opaque get_node.

Lemma pow_P : forall d, 2 ^ (d * SPLIT_BITS) = P d.
Proof. intros. unfold P. f_equal. lia. Qed.

Lemma Ref_set_numobjs : forall rs s na H n, Ref rs s na H ->
  Ref (set_hs rs (set_numobjs (hs rs) n)) (set_numobjs s n) na H.
Proof.
  intros rs s na H n (SH & R & N). split; [|split].
  - apply ShapeH_set_hs; [reflexivity|assumption].
  - apply Rel_set_numobjs. assumption.
  - exact N.
Qed.

Lemma Ref_set_batch : forall rs s na H b, Ref rs s na H ->
  Ref (set_hs rs (set_batch (hs rs) b)) (set_batch s b) na H.
Proof.
  intros rs s na H b (SH & R & N). split; [|split].
  - apply ShapeH_set_hs; [reflexivity|assumption].
  - apply Rel_set_batch. assumption.
  - exact N.
Qed.

Lemma Ref_set_now : forall rs s na H n, Ref rs s na H ->
  Ref (set_hs rs (set_now (hs rs) n)) (set_now s n) na H.
Proof.
  intros rs s na H n (SH & R & N). split; [|split].
  - apply ShapeH_set_hs; [reflexivity|assumption].
  - apply Rel_set_now. assumption.
  - exact N.
Qed.

Lemma Ref_set_exp : forall rs s na H t e, Ref rs s na H ->
  Ref (set_hs rs (set_exp (hs rs) t e)) (set_exp s t e) na H.
Proof.
  intros rs s na H t e (SH & R & N). pose proof (set_exp_fields s t e) as F. split; [|split].
  - apply ShapeH_set_hs; [|assumption].
    destruct (Rel_fields _ _ _ _ R) as (_ & Ed & _).
    pose proof (set_exp_fields (hs rs) t e) as F'. unfold rdepth. intuition congruence.
  - apply Rel_set_exp. assumption.
  - intuition congruence.
Qed.

Lemma Ref_fields : forall rs s na H, Ref rs s na H ->
  num s = rnum rs /\ depth s = rdepth rs /\ batch s = batch (hs rs) /\ numobjs s = numobjs (hs rs) /\
  now s = now (hs rs).
Proof. intros rs s na H (_ & R & _). destruct (Rel_fields _ _ _ _ R) as (A & B & _ & C & D & E). auto. Qed.

Lemma shrink_test_ok : forall d n, 0 <= d <= 4 ->
  (if 0 <? d then do lim <- shl1_int (d * SPLIT_BITS); Good (n =? lim) else Good false) =
  Good ((0 <? d) && (n =? P d)).
Proof.
  intros d n Hd. destruct (0 <? d); [|reflexivity]. unfold shl1_int, INT_BITS.
  replace (0 <=? d * SPLIT_BITS) with true by (symmetry; apply Z.leb_le; unfold SPLIT_BITS; lia).
  replace (d * SPLIT_BITS <? 32 - 1) with true by (symmetry; apply Z.ltb_lt; unfold SPLIT_BITS; lia).
  unfold bind. cbn [andb]. rewrite shiftl_P by lia. reflexivity.
Qed.

Lemma runregister_sim : forall rs s na H t s', Ref rs s na H -> unregister s t = Ok s' ->
  exists rs' H', runregister rs t = ROk rs' /\ Ref rs' s' na H'.
Proof.
  intros rs s na H t s' Rf E. unfold unregister in E. unfold runregister.
  destruct (Ref_fields _ _ _ _ Rf) as (En & Ed & Eb & Eo & _).
  rewrite (Ref_tidx rs s na H t Rf). cbv zeta in E. set (ix := tidx s t) in *.
  destruct (ix =? -1); [discriminate|].
  destruct (Z.eqb_spec ix 0) as [Z0|NZ]; cbn [negb] in *.
  { (* the timer is on the expired batch *)
    inversion E; subst s'. rewrite <- Eb. eexists _, H. split; [reflexivity|].
    apply Ref_set_idx. apply Ref_set_batch. exact Rf. }
  rewrite <- En.
  destruct (Z.ltb_spec (num s) ix) as [L|L]; [discriminate|].
  assert (I1 : 1 <= ix).
  { destruct (Z_le_gt_dec 1 ix); [assumption|]. rewrite get_node_nonpos in E by lia. discriminate. }
  pose proof Rf as (SH & R & N).
  assert (Hix : 1 <= ix <= H) by lia.
  assert (Hn : 1 <= num s <= H) by lia.
  destruct (sim_get_node rs s na H ix Rf Hix) as [G1 G2]. rewrite G1 in E. rewrite G2.
  rewrite (Rel_load rs s na H ix SH R ltac:(lia) (leaf_le ix H ltac:(lia))).
  destruct (sget s ix) as [tp|] eqn:Ep; [|discriminate]. cbn [cell_of].
  destruct (negb (tp =? t)%positive); [discriminate|].
  destruct (sim_get_node rs s na H (num s) Rf Hn) as [G3 G4]. rewrite G3 in E. rewrite En in G4. rewrite G4.
  rewrite <- En in *. clear G4.
  destruct (sget s (num s)) as [tlast|] eqn:El; [|discriminate].
  unfold lift, bind at 1.
  (* *p = *m *)
  rewrite (Rel_load rs s na H (num s) SH R ltac:(lia) (leaf_le (num s) H ltac:(lia))). rewrite El.
  unfold bind at 1.
  destruct (sim_store rs s na H ix (Some tlast) Rf Hix) as (rs3a & St3a & Rf3a & Eh3a).
  rewrite St3a. unfold bind at 1.
  rewrite (sim_deref rs3a _ na H ix Rf3a ltac:(lia) (leaf_le ix H ltac:(lia))).
  rewrite sget_sset_same by lia. unfold bind at 1.
  pose proof (Ref_set_idx rs3a _ na H tlast ix Rf3a) as Rf3b.
  destruct (sim_store _ _ na H (num s) None Rf3b Hn) as (rs3 & St3 & Rf3 & Eh3).
  cbn [cell_of] in St3. rewrite St3. unfold bind at 1.
  set (s3 := sset (set_idx (sset s ix (Some tlast)) tlast ix) (num s) None) in *.
  assert (D3 : depth s3 = depth s) by (unfold s3; rewrite depth_sset, depth_set_idx, depth_sset; reflexivity).
  assert (Ed3 : rdepth rs3 = depth s) by (destruct (Ref_fields _ _ _ _ Rf3) as (_ & K & _); congruence).
  assert (G3x : ix <> num s -> sget s3 ix = Some tlast).
  { intros K. unfold s3. rewrite sget_sset_other by congruence.
    rewrite sget_set_idx. apply sget_sset_same. lia. }
  destruct (Ref_depth _ _ _ _ Rf) as (Dp0 & _).
  (* the shrink test *)
  rewrite Ed3, D3 in *.
  assert (D4 : 0 <= depth s <= 4).
  { destruct Rf as ((S0 & _) & R0 & _). destruct (Rel_fields _ _ _ _ R0) as (_ & Ed0 & _).
    rewrite Ed0. apply (sh_depth _ _ _ S0). }
  rewrite shrink_test_ok by assumption. unfold bind at 1. rewrite pow_P in E. rewrite <- ?En.
  set (cond := (0 <? depth s) && (num s =? P (depth s))) in *.
  assert (S4 : exists rs4 H4,
            (if cond then rremove_level rs3 else Good rs3) = Good rs4 /\
            Ref (rset_num rs4 (num s - 1)) (set_num (if cond then remove_level s3 else s3) (num s - 1)) na H4 /\
            (ix <> num s -> ix <= H4 /\ sget (if cond then remove_level s3 else s3) ix = Some tlast)).
  { destruct cond eqn:C.
    - apply andb_true_iff in C. destruct C as [C1 C2]. apply Z.ltb_lt in C1. apply Z.eqb_eq in C2.
      destruct Rf3 as (SH3 & R3 & N3).
      destruct (rremove_level_rel rs3 s3 na H SH3 R3 ltac:(lia)) as (rs4 & E4 & SH4 & R4).
      rewrite Ed3 in *. exists rs4, (P (depth s) - 1). split; [exact E4|]. split.
      + split; [|split].
        * apply ShapeH_set_hs; [|assumption]. reflexivity.
        * apply Rel_set_num. assumption.
        * cbn [num set_num]. lia.
      + intros K. split; [lia|]. rewrite sget_remove_level, D3, cap_P.
        replace (depth s - 1 + 1) with (depth s) by lia.
        replace (ix <? P (depth s)) with true by (symmetry; apply Z.ltb_lt; lia). apply G3x. assumption.
    - exists rs3, H. split; [reflexivity|]. split.
      + destruct Rf3 as (SH3 & R3 & N3). split; [|split].
        * apply ShapeH_set_hs; [|assumption]. reflexivity.
        * apply Rel_set_num. assumption.
        * cbn [num set_num]. lia.
      + intros K. split; [lia|apply G3x; assumption]. }
  destruct S4 as (rs4 & H4 & E4 & Rf5 & G5).
  rewrite E4. unfold bind at 1.
  set (s5 := set_num (if cond then remove_level s3 else s3) (num s - 1)) in *.
  set (rs5 := rset_num rs4 (num s - 1)) in *.
  (* if (p != m) *)
  assert (PM : (p_of na ix =? p_of na (num s)) = (ix =? num s)).
  { destruct (Z.eqb_spec ix (num s)) as [K|K].
    - rewrite K. apply Z.eqb_refl.
    - apply Z.eqb_neq. intro Ep'. apply K.
      apply (slot_inj rs na H SH); try lia; try (apply leaf_le; lia). }
  rewrite PM.
  assert (R7 : exists rs7 s7,
     (if ix =? num s then Some s5
      else match pull_up (log2_fuel ix) s5 ix with
           | Some s6 => push_down (log2_fuel (num s)) s6 ix
           | None => None
           end) = Some s7 /\
     (if ix =? num s then Good rs5
      else do _ <- deref_timer rs5 (p_of na ix);
           do rs6 <- rpull_up (log2_fuel ix) rs5 ix (p_of na ix);
           do _ <- deref_timer rs6 (p_of na ix);
           rpush_down (log2_fuel (num s)) rs6 ix (p_of na ix)) = Good rs7 /\
     Ref rs7 s7 na H4).
  { destruct (Z.eqb_spec ix (num s)) as [K|K].
    - exists rs5, s5. auto.
    - destruct (G5 K) as [K4 K5].
      destruct (pull_up (log2_fuel ix) s5 ix) as [s6|] eqn:PU; [|discriminate].
      destruct (push_down (log2_fuel (num s)) s6 ix) as [s7|] eqn:PD; [|discriminate].
      assert (Hx : 1 <= ix <= H4) by lia.
      (* (d): the slot pointer p is dereferenced after remove_level: it lies in a live node *)
      rewrite (sim_deref rs5 s5 na H4 ix Rf5 ltac:(lia) (leaf_le ix H4 ltac:(lia))).
      unfold s5 at 1. rewrite sget_set_num, K5. unfold bind at 1.
      destruct (rpull_up_sim _ rs5 s5 na H4 ix s6 Rf5 Hx PU) as (rs6 & E6 & Rf6 & _).
      rewrite E6. unfold bind at 1.
      rewrite (sim_deref rs6 s6 na H4 ix Rf6 ltac:(lia) (leaf_le ix H4 ltac:(lia))).
      assert (exists t6, sget s6 ix = Some t6) as (t6 & E6').
      { unfold log2_fuel in PD. rewrite push_down_eq in PD.
        destruct (sget s6 ix) as [t6|]; [eauto|discriminate]. }
      rewrite E6'. unfold bind at 1.
      destruct (rpush_down_sim _ rs6 s6 na H4 ix s7 Rf6 Hx PD) as (rs7 & E7 & Rf7 & _).
      exists rs7, s7. auto. }
  destruct R7 as (rs7 & s7 & E7h & E7r & Rf7).
  fold s5 in E. rewrite E7h in E. inversion E; subst s'.
  rewrite E7r. unfold bind.
  destruct (Ref_fields _ _ _ _ Rf7) as (_ & _ & _ & Eo7 & _). rewrite <- Eo7.
  eexists _, H4. split; [reflexivity|].
  apply Ref_set_idx. apply Ref_set_numobjs. exact Rf7.
Qed.

(* ---------- the population is bounded by the number of timer ids ---------- *)
(* pigeonhole: an injection of 1..n into 1..m needs n <= m *)
Lemma pigeonhole : forall (n : nat) (m : Z) (f : Z -> Z),
  (forall i, 1 <= i <= Z.of_nat n -> 1 <= f i <= m) ->
  (forall i j, 1 <= i <= Z.of_nat n -> 1 <= j <= Z.of_nat n -> f i = f j -> i = j) ->
  Z.of_nat n <= m \/ n = O.
Proof.
  induction n as [|n IH]; intros m f R Inj; [right; reflexivity|left].
  set (y := f (Z.of_nat (S n))).
  assert (Ry : 1 <= y <= m) by (apply R; lia).
  set (g := fun i => if f i <? y then f i else f i - 1).
  assert (Ny : forall i, 1 <= i <= Z.of_nat n -> f i <> y).
  { intros i Hi E. apply Inj in E; lia. }
  destruct (IH (m - 1) g) as [L|Z0].
  - intros i Hi. unfold g. pose proof (R i ltac:(lia)). pose proof (Ny i Hi).
    destruct (Z.ltb_spec (f i) y); lia.
  - intros i j Hi Hj E. unfold g in E.
    pose proof (Ny i Hi). pose proof (Ny j Hj).
    apply Inj; try lia.
    destruct (Z.ltb_spec (f i) y), (Z.ltb_spec (f j) y); lia.
  - lia.
  - subst n. lia.
Qed.

Lemma num_below : forall s b, Inv s -> RegBelow b s -> 1 <= b -> num s < b.
Proof.
  intros s b I RB Hb. pose proof (i_num s I) as N0. pose proof (i_filled s I) as F.
  set (f := fun i => match sget s i with Some t => Zpos t | None => 0 end).
  destruct (pigeonhole (Z.to_nat (num s)) (b - 1) f) as [L|Z0].
  - intros i Hi. rewrite Z2Nat.id in Hi by lia. destruct (F i Hi) as (t & E & T). unfold f. rewrite E.
    specialize (RB t ltac:(lia)). lia.
  - intros i j Hi Hj E. rewrite Z2Nat.id in Hi, Hj by lia.
    destruct (F i Hi) as (t & Ei & Ti). destruct (F j Hj) as (t' & Ej & Tj).
    unfold f in E. rewrite Ei, Ej in E. inversion E; subst t'. congruence.
  - rewrite Z2Nat.id in L by lia. lia.
  - assert (num s = 0) by lia. lia.
Qed.

Lemma abs_reg : forall s t, abs s t <> None <-> 1 <= tidx s t.
Proof.
  intros s t. unfold abs. destruct (Z.leb_spec 1 (tidx s t)); split; intros; try lia; try discriminate.
  exfalso. apply H0. reflexivity.
Qed.

Lemma tsim_reg : forall s s' t, tsim s s' t -> 1 <= tidx s' t -> 1 <= tidx s t.
Proof. intros s s' t T H. unfold tsim in T. lia. Qed.

(* one guarded action keeps the invariant and the id bound *)
Lemma do_act_below : forall s a s' b, Inv s -> RegBelow b s -> Zpos (act_id a) < b ->
  fst (do_act s a) = Ok s' -> Inv s' /\ RegBelow b s' /\
  (forall t e, a = AReg t e -> tidx s t = -1 -> num s' = num (set_exp s t e) + 1).
Proof.
  intros s a s' b I RB Ha E.
  destruct (do_act_ok s a I) as (s1 & E1 & I1 & _). rewrite E in E1. inversion E1; subst s1. clear E1.
  split; [assumption|].
  destruct a as [t e|t]; cbn [do_act act_id] in *.
  - destruct (Z.eqb_spec (tidx s t) (-1)) as [T|NT]; cbn [fst] in E.
    + destruct (register_inv (set_exp s t e) t) as (s2 & R2 & _ & _ & Ts & _ & _ & Nn & _).
      * apply set_exp_inv; assumption.
      * apply tget_set_exp_same.
      * rewrite tidx_set_exp. assumption.
      * rewrite E in R2. inversion R2; subst s2. split.
        -- intros t' H'. destruct (Pos.eq_dec t' t) as [->|K]; [assumption|].
           apply RB. pose proof (tsim_reg _ _ _ (Ts t' K) H') as H1. rewrite tidx_set_exp in H1. assumption.
        -- intros t0 e0 Ea _. inversion Ea; subst. exact Nn.
    + inversion E; subst s'. split; [assumption|]. intros t0 e0 Ea T0. inversion Ea; subst. contradiction.
  - split; [|intros; discriminate].
    destruct (Z.eqb_spec (tidx s t) (-1)) as [T|NT]; cbn [fst] in E.
    + inversion E; subst s'. assumption.
    + pose proof (proj2 (proj2 (i_batch s I)) t) as Ge.
      destruct (Z.eq_dec (tidx s t) 0) as [Z0|NZ].
      * rewrite (unregister_expired_eq s t Z0) in E. inversion E; subst s'.
        destruct (pop_inv s t I Z0) as (_ & Tt & To & _).
        intros t' H'. destruct (Pos.eq_dec t' t) as [->|K]; [cbv zeta in Tt; lia|].
        apply RB. rewrite <- (To t' K). assumption.
      * destruct (unregister_inv s t I ltac:(lia)) as (s2 & U & _ & Tt & Ts & _).
        rewrite E in U. inversion U; subst s2.
        intros t' H'. destruct (Pos.eq_dec t' t) as [->|K]; [lia|].
        apply RB. apply (tsim_reg _ _ _ (Ts t' K) H').
Qed.

Lemma do_acts_below : forall l s s' b, Inv s -> RegBelow b s -> acts_below b l ->
  do_acts s l = Ok s' -> Inv s' /\ RegBelow b s'.
Proof.
  induction l as [|a l IH]; intros s s' b I RB Hl E; cbn [do_acts] in E.
  - inversion E; subst. auto.
  - destruct (fst (do_act s a)) as [s1| |] eqn:Ea; try discriminate.
    destruct (do_act_below s a s1 b I RB (Hl a (or_introl eq_refl)) Ea) as (I1 & RB1 & _).
    apply (IH s1 s' b I1 RB1); [|assumption]. intros x Hx. apply Hl. right. assumption.
Qed.

(* ---------- guarded actions, iv_run_timers, top-level steps ---------- *)
Lemma rdo_act_sim : forall rs s na H a s' rc, Ref rs s na H -> Inv s -> RegBelow POP_BOUND s ->
  Zpos (act_id a) < POP_BOUND -> do_act s a = (Ok s', rc) ->
  exists rs' na' H', rdo_act rs a = (ROk rs', rc) /\ Ref rs' s' na' H'.
Proof.
  intros rs s na H a s' rc Rf I RB Ha E.
  assert (E0 : fst (do_act s a) = Ok s') by (rewrite E; reflexivity).
  destruct (do_act_below s a s' POP_BOUND I RB Ha E0) as (I' & RB' & Nn).
  destruct a as [t e|t]; cbn [do_act rdo_act] in *;
    rewrite (Ref_tidx rs s na H t Rf).
  - destruct (Z.eqb_spec (tidx s t) (-1)) as [T|NT].
    + inversion E as [[E1 E2]]. pose proof (Ref_set_exp rs s na H t e Rf) as Rf1.
      assert (NB : num (set_exp s t e) + 1 < POP_BOUND).
      { rewrite <- (Nn t e eq_refl T). apply num_below; [assumption|assumption|unfold POP_BOUND; lia]. }
      destruct (rregister_sim _ _ na H t s' Rf1 NB E1) as (rs' & na' & H' & E' & Rf').
      rewrite E'. exists rs', na', H'. auto.
    + inversion E; subst. exists rs, na, H. auto.
  - destruct (tidx s t =? -1).
    + inversion E; subst. exists rs, na, H. auto.
    + inversion E as [[E1 E2]].
      destruct (runregister_sim rs s na H t s' Rf E1) as (rs' & H' & E' & Rf').
      rewrite E'. exists rs', na, H'. auto.
Qed.

Lemma rdo_acts_sim : forall l rs s na H s', Ref rs s na H -> Inv s -> RegBelow POP_BOUND s ->
  acts_below POP_BOUND l -> do_acts s l = Ok s' ->
  exists rs' na' H', rdo_acts rs l = ROk rs' /\ Ref rs' s' na' H'.
Proof.
  induction l as [|a l IH]; intros rs s na H s' Rf I RB Hl E; cbn [do_acts rdo_acts] in *.
  - inversion E; subst. exists rs, na, H. auto.
  - destruct (do_act s a) as [o rc] eqn:Ea. cbn [fst] in E.
    destruct o as [s1| |]; try discriminate.
    assert (Ha : Zpos (act_id a) < POP_BOUND) by (apply Hl; left; reflexivity).
    destruct (rdo_act_sim rs s na H a s1 rc Rf I RB Ha Ea) as (rs1 & na1 & H1 & E1 & Rf1).
    destruct (do_act_below s a s1 POP_BOUND I RB Ha ltac:(rewrite Ea; reflexivity)) as (I1 & RB1 & _).
    rewrite E1. cbn [fst]. apply (IH rs1 s1 na1 H1 s' Rf1 I1 RB1); [|assumption].
    intros x Hx. apply Hl. right. assumption.
Qed.

Lemma collect_eq : forall fuel s,
  collect fuel s =
  if num s =? 0 then Ok s else
  match fuel with
  | O => Crash
  | S f =>
      match sget s 1 with
      | None => Crash
      | Some t =>
          if negb (tidx s t =? 1) then Fatal s else
          if now s <? texp s t then Ok s else
          match unregister s t with
          | Ok s1 => collect f (set_idx (set_batch s1 (batch s1 ++ [t])) t 0)
          | o => o
          end
      end
  end.
Proof. intros. destruct fuel; reflexivity. Qed.

Lemma rcollect_eq : forall fuel rs,
  rcollect fuel rs =
  if rnum rs =? 0 then ROk rs else
  match fuel with
  | O => RCrash EFuel
  | S f =>
      match deref_timer rs (FIRST_LEAF * NODES + 1) with
      | Bad e => RCrash e
      | Good t =>
          if negb (tidx (hs rs) t =? 1) then RFatal rs else
          if now (hs rs) <? texp (hs rs) t then ROk rs else
          match runregister rs t with
          | ROk rs1 => rcollect f (rset_idx (set_hs rs1 (set_batch (hs rs1) (batch (hs rs1) ++ [t]))) t 0)
          | o => o
          end
      end
  end.
Proof. intros. destruct fuel; reflexivity. Qed.

Lemma p_of_1 : forall rs na H, ShapeH rs na H -> p_of na 1 = FIRST_LEAF * NODES + 1.
Proof.
  intros rs na H (S & _). unfold p_of. change (1 / NODES) with 0. change (1 mod NODES) with 1.
  rewrite (sh_first _ _ _ S). reflexivity.
Qed.

Lemma rcollect_sim : forall fuel rs s na H s', Ref rs s na H -> collect fuel s = Ok s' ->
  exists rs' H', rcollect fuel rs = ROk rs' /\ Ref rs' s' na H'.
Proof.
  induction fuel as [|f IH]; intros rs s na H s' Rf E; rewrite collect_eq in E; rewrite rcollect_eq;
    destruct (Ref_fields _ _ _ _ Rf) as (En & _ & Eb & _ & Enow); rewrite <- En.
  - destruct (num s =? 0); [|discriminate]. inversion E; subst. exists rs, H. auto.
  - destruct (num s =? 0).
    + inversion E; subst. exists rs, H. auto.
    + rewrite <- (p_of_1 rs na H (proj1 Rf)).
      destruct (Ref_depth _ _ _ _ Rf) as (_ & _ & _ & _ & H0).
      rewrite (sim_deref rs s na H 1 Rf ltac:(lia)) by (change (1 / NODES) with 0; lia).
      destruct (sget s 1) as [t|]; [|discriminate].
      rewrite (Ref_tidx rs s na H t Rf), (Ref_texp rs s na H t Rf), <- Enow.
      destruct (negb (tidx s t =? 1)); [discriminate|].
      destruct (now s <? texp s t).
      * inversion E; subst. exists rs, H. auto.
      * destruct (unregister s t) as [s1| |] eqn:Eu; try discriminate.
        destruct (runregister_sim rs s na H t s1 Rf Eu) as (rs1 & H1 & E1 & Rf1).
        rewrite E1.
        destruct (Ref_fields _ _ _ _ Rf1) as (_ & _ & Eb1 & _). rewrite <- Eb1.
        refine (IH _ _ na H1 s' _ E).
        apply Ref_set_idx. apply Ref_set_batch. exact Rf1.
Qed.

Lemma rdispatch_sim : forall fuel sc rs s na H fired s' fired', Ref rs s na H ->
  Inv s -> RegBelow POP_BOUND s -> scripts_below POP_BOUND sc ->
  dispatch fuel sc s fired = (Ok s', fired') ->
  exists rs' na' H', rdispatch fuel sc rs fired = (ROk rs', fired') /\ Ref rs' s' na' H'.
Proof.
  induction fuel as [|f IH]; intros sc rs s na H fired s' fired' Rf I RB Hsc E;
    destruct (Ref_fields _ _ _ _ Rf) as (_ & _ & Eb & _).
  - cbn [dispatch rdispatch] in *. rewrite <- Eb. destruct (batch s); [|discriminate].
    inversion E; subst. exists rs, na, H. auto.
  - cbn [dispatch rdispatch] in *. rewrite <- Eb. destruct (batch s) as [|t rest] eqn:Ebs.
    + inversion E; subst. exists rs, na, H. auto.
    + cbv zeta in *.
      assert (Rf1 : Ref (rset_idx (set_hs rs (set_batch (hs rs) rest)) t (-1))
                        (set_idx (set_batch s rest) t (-1)) na H).
      { apply Ref_set_idx. apply Ref_set_batch. exact Rf. }
      assert (T0 : tidx s t = 0).
      { apply (proj1 (i_batch s I)). rewrite Ebs. left. reflexivity. }
      destruct (pop_inv s t I T0) as (I1 & Tt & To & _).
      rewrite Ebs in I1, Tt, To. cbn [remove_first] in I1, Tt, To. rewrite Pos.eqb_refl in I1, Tt, To.
      assert (RB1 : RegBelow POP_BOUND (set_idx (set_batch s rest) t (-1))).
      { intros t' H'. destruct (Pos.eq_dec t' t) as [->|K]; [lia|]. apply RB. rewrite <- (To t' K). assumption. }
      destruct (do_acts (set_idx (set_batch s rest) t (-1)) (sc t)) as [s2| |] eqn:Ea;
        try (inversion E; fail).
      destruct (rdo_acts_sim (sc t) _ _ na H s2 Rf1 I1 RB1 (Hsc t) Ea) as (rs2 & na2 & H2 & E2 & Rf2).
      destruct (do_acts_below (sc t) _ s2 POP_BOUND I1 RB1 (Hsc t) Ea) as (I2 & RB2).
      rewrite E2. apply (IH sc rs2 s2 na2 H2 _ s' fired' Rf2 I2 RB2 Hsc E).
Qed.

Lemma rrun_timers_sim : forall sc rs s na H clock s' fired, Ref rs s na H ->
  Inv s -> batch s = [] -> RegBelow POP_BOUND s -> scripts_below POP_BOUND sc ->
  run_timers sc s clock = (Ok s', fired) ->
  exists rs' na' H', rrun_timers sc rs clock = (ROk rs', fired) /\ Ref rs' s' na' H'.
Proof.
  intros sc rs s na H clock s' fired Rf I B RB Hsc E. unfold run_timers in E. unfold rrun_timers.
  destruct (Ref_fields _ _ _ _ Rf) as (En & _). rewrite <- En.
  destruct (num s =? 0).
  - inversion E; subst. exists rs, na, H. auto.
  - cbv zeta in *. pose proof (Ref_set_now rs s na H clock Rf) as Rf0.
    change (rnum (set_hs rs (set_now (hs rs) clock))) with (rnum rs). rewrite <- En.
    change (num (set_now s clock)) with (num s) in E.
    destruct (collect_round s clock I B) as (s1 & Ec & I1 & _ & _ & Sub & _).
    rewrite Ec in E.
    destruct (rcollect_sim _ _ _ na H s1 Rf0 Ec) as (rs1 & H1 & E1 & Rf1).
    rewrite E1. destruct (Ref_fields _ _ _ _ Rf1) as (_ & _ & Eb1 & _). rewrite <- Eb1.
    assert (RB1 : RegBelow POP_BOUND s1).
    { intros t H'. apply RB. apply abs_reg. apply abs_reg in H'.
      destruct (abs s1 t) as [e|] eqn:Ea; [|congruence]. destruct (Sub t e Ea) as [_ K]. congruence. }
    apply (rdispatch_sim _ sc rs1 s1 na H1 [] s' fired Rf1 I1 RB1 Hsc E).
Qed.

Definition op_below (b : Z) (o : op) : Prop :=
  match o with OAct a => Zpos (act_id a) < b | ORun _ => True end.

Lemma rstep_sim : forall sc rs s na H o s' rc fired, Ref rs s na H ->
  Inv s -> batch s = [] -> RegBelow POP_BOUND s -> scripts_below POP_BOUND sc -> op_below POP_BOUND o ->
  step sc s o = (Ok s', rc, fired) ->
  exists rs' na' H', rstep sc rs o = (ROk rs', rc, fired) /\ Ref rs' s' na' H'.
Proof.
  intros sc rs s na H o s' rc fired Rf I B RB Hsc Ho E. destruct o as [a|c]; cbn [step rstep op_below] in *.
  - destruct (do_act s a) as [r rc0] eqn:Ea. inversion E; subst.
    destruct (rdo_act_sim rs s na H a s' rc Rf I RB Ho Ea) as (rs' & na' & H' & E' & Rf').
    rewrite E'. exists rs', na', H'. auto.
  - destruct (run_timers sc s c) as [r f] eqn:Er. inversion E; subst.
    destruct (rrun_timers_sim sc rs s na H c s' fired Rf I B RB Hsc Er) as (rs' & na' & H' & E' & Rf').
    rewrite E'. exists rs', na', H'. auto.
Qed.

(* the id bound is kept by a top-level step *)
Lemma dispatch_below : forall fuel sc s1 fired0 s' fired', Inv s1 -> RegBelow POP_BOUND s1 ->
  scripts_below POP_BOUND sc -> dispatch fuel sc s1 fired0 = (Ok s', fired') -> RegBelow POP_BOUND s'.
Proof.
  induction fuel as [|f IH]; intros sc s1 fired0 s' fired' I1 RB1 Hsc Er; cbn [dispatch] in Er.
  - destruct (batch s1); [inversion Er; subst; assumption|discriminate].
  - destruct (batch s1) as [|t rest] eqn:Ebs; [inversion Er; subst; assumption|].
    assert (T0 : tidx s1 t = 0) by (apply (proj1 (i_batch s1 I1)); rewrite Ebs; left; reflexivity).
    destruct (pop_inv s1 t I1 T0) as (I2 & Tt & To & _).
    rewrite Ebs in I2, Tt, To. cbn [remove_first] in I2, Tt, To. rewrite Pos.eqb_refl in I2, Tt, To.
    assert (RB2 : RegBelow POP_BOUND (set_idx (set_batch s1 rest) t (-1))).
    { intros t' H'. destruct (Pos.eq_dec t' t) as [->|K]; [lia|]. apply RB1. rewrite <- (To t' K). assumption. }
    destruct (do_acts (set_idx (set_batch s1 rest) t (-1)) (sc t)) as [s2| |] eqn:Ea; try (inversion Er; fail).
    destruct (do_acts_below (sc t) _ s2 POP_BOUND I2 RB2 (Hsc t) Ea) as (I3 & RB3).
    apply (IH sc s2 _ s' fired' I3 RB3 Hsc Er).
Qed.

Lemma step_below : forall sc s o s' rc fired, Inv s -> batch s = [] -> RegBelow POP_BOUND s ->
  scripts_below POP_BOUND sc -> op_below POP_BOUND o -> step sc s o = (Ok s', rc, fired) ->
  RegBelow POP_BOUND s'.
Proof.
  intros sc s o s' rc fired I B RB Hsc Ho E. destruct o as [a|c]; cbn [step op_below] in *.
  - destruct (do_act s a) as [r rc0] eqn:Ea. inversion E; subst.
    apply (do_act_below s a s' POP_BOUND I RB Ho ltac:(rewrite Ea; reflexivity)).
  - destruct (run_timers sc s c) as [r f] eqn:Er. inversion E; subst. clear E.
    unfold run_timers in Er. destruct (num s =? 0); [inversion Er; subst; assumption|]. cbv zeta in Er.
    change (num (set_now s c)) with (num s) in Er.
    destruct (collect_round s c I B) as (s1 & Ec & I1 & _ & _ & Sub & _). rewrite Ec in Er.
    assert (RB1 : RegBelow POP_BOUND s1).
    { intros t H'. apply RB. apply abs_reg. apply abs_reg in H'.
      destruct (abs s1 t) as [e|] eqn:Ea; [|congruence]. destruct (Sub t e Ea) as [_ K]. congruence. }
    apply (dispatch_below _ sc s1 [] s' fired I1 RB1 Hsc Er).
Qed.
