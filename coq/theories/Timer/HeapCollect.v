(* HeapCollect.v -- the first loop of iv_run_timers. *)
From Coq Require Import List ZArith Bool Lia Sorted.
From Ivv Require Import Timer.HeapModel Timer.HeapSpec Timer.HeapBase Timer.HeapSift
  Timer.HeapFacts Timer.HeapUnreg.
Import ListNotations.
Local Open Scope Z_scope.

Ltac Zify.zify_post_hook ::= Z.div_mod_to_equations.

(* ---------- the root is the minimum ---------- *)
Lemma root_min_key : forall n k, Full n k -> forall i, 1 <= i <= n -> k 1 <= k i.
Proof.
  intros n k FU.
  assert (H : forall m : nat, forall i, 1 <= i <= n -> i <= Z.of_nat m -> k 1 <= k i).
  { induction m as [|m IH]; intros i R L; [lia|].
    destruct (Z.eq_dec i 1) as [->|N1]; [lia|].
    pose proof (FU i ltac:(lia)) as A.
    pose proof (IH (i / 2) ltac:(lia) ltac:(lia)) as B. lia. }
  intros i R. apply (H (Z.to_nat i)); lia.
Qed.

Lemma root_min : forall s t t', Inv s -> sget s 1 = Some t -> 1 <= tidx s t' ->
  texp s t <= texp s t'.
Proof.
  intros s t t' I E H. destruct (i_back s I t' H) as [R E'].
  pose proof (root_min_key (num s) (key s) (i_ord s I) (tidx s t') R) as Q.
  unfold key in Q. rewrite E, E' in Q. assumption.
Qed.

(* ---------- states with the same contents ---------- *)
Lemma Inv_ext : forall s s', slots s' = slots s -> tm s' = tm s -> num s' = num s ->
  depth s' = depth s -> batch s' = batch s -> numobjs s' = numobjs s -> Inv s -> Inv s'.
Proof.
  intros s s' Sl Tm Nm Dp Bt No [N D F V B O BO NO].
  assert (G : forall k, sget s' k = sget s k) by (intros; apply sget_ext; assumption).
  assert (T : forall t, tidx s' t = tidx s t) by (intros; apply tidx_ext; assumption).
  constructor.
  - lia.
  - unfold DepthOK. rewrite Dp, Nm. exact D.
  - intros k K. rewrite Nm in K. destruct (F k K) as (t0 & E0 & I0). exists t0.
    rewrite G, T. split; assumption.
  - intros k K. rewrite Nm in K. rewrite G. apply V; assumption.
  - intros t H. rewrite T in H. destruct (B t H) as [R E]. unfold inslot.
    rewrite T, Nm, G. split; assumption.
  - unfold Ordered. rewrite Nm. intros j Rj. rewrite !(key_ext s s') by assumption.
    apply O; assumption.
  - destruct BO as (B1 & B2 & B3). unfold BatchOK. rewrite Bt. split; [|split; [assumption|]].
    + intros t. rewrite T. apply B1.
    + intros t. rewrite T. apply B3.
  - lia.
Qed.

(* ---------- appending an unregistered timer to the batch ---------- *)
Lemma nodup_snoc : forall (l : list id) x, NoDup l -> ~ In x l -> NoDup (l ++ [x]).
Proof.
  induction l as [|a l IH]; intros x ND NI.
  - simpl. constructor; [intros []|constructor].
  - inversion ND as [|? ? NA ND']; subst. simpl. constructor.
    + rewrite in_app_iff. intros [H|[H|[]]]; [contradiction|]. subst. apply NI. left. reflexivity.
    + apply IH; [assumption|]. intro H. apply NI. right. assumption.
Qed.

Lemma push_batch_inv : forall s t, Inv s -> tidx s t = -1 -> tget s t <> None ->
  let s' := set_idx (set_batch s (batch s ++ [t])) t 0 in
  Inv s' /\ tidx s' t = 0 /\ (forall t', t' <> t -> tidx s' t' = tidx s t') /\
  (forall t', texp s' t' = texp s t') /\ batch s' = batch s ++ [t] /\
  num s' = num s /\ now s' = now s.
Proof.
  intros s t I TI TG s'.
  destruct I as [N D F V B O BO NO].
  assert (Ns : num s' = num s) by (unfold s'; rewrite num_set_idx; reflexivity).
  assert (Gs : forall k, sget s' k = sget s k).
  { intros k. unfold s'. rewrite sget_set_idx. reflexivity. }
  assert (Tt : tidx s' t = 0) by (unfold s'; apply tidx_set_idx_same; assumption).
  assert (To : forall t', t' <> t -> tidx s' t' = tidx s t').
  { intros t' K. unfold s'. rewrite tidx_set_idx_other by assumption. reflexivity. }
  assert (Xs : forall t', texp s' t' = texp s t').
  { intros t'. unfold s'. rewrite texp_set_idx. reflexivity. }
  assert (Bs : batch s' = batch s ++ [t]).
  { unfold s'. rewrite batch_set_idx. reflexivity. }
  split; [|split; [assumption|split; [assumption|split; [assumption|split; [assumption|split; [assumption|]]]]]].
  - constructor.
    + lia.
    + assert (Dps : depth s' = depth s) by (unfold s'; rewrite depth_set_idx; reflexivity).
      unfold DepthOK. rewrite Dps, Ns. exact D.
    + intros k K. rewrite Ns in K. destruct (F k K) as (t0 & E0 & I0). exists t0.
      rewrite Gs. split; [assumption|]. rewrite To; [assumption|]. intro; subst t0. lia.
    + intros k K. rewrite Ns in K. rewrite Gs. apply V; assumption.
    + intros t' H. destruct (Pos.eq_dec t' t) as [->|K]; [lia|].
      rewrite To in H by assumption. destruct (B t' H) as [R E].
      unfold inslot. rewrite To, Ns, Gs by assumption. split; assumption.
    + unfold Ordered. rewrite Ns. intros j Rj.
      assert (KE : forall k, key s' k = key s k).
      { intros k. unfold key. rewrite Gs. destruct (sget s k); [apply Xs|reflexivity]. }
      rewrite !KE. apply O; assumption.
    + destruct BO as (BO1 & BO2 & BO3). unfold BatchOK. rewrite Bs.
      split; [|split].
      * intros t'. rewrite in_app_iff, BO1. simpl.
        destruct (Pos.eq_dec t' t) as [->|K].
        -- rewrite Tt. tauto.
        -- rewrite To by assumption. split; [intros [H|[H|[]]]; [assumption|congruence]|tauto].
      * apply nodup_snoc; [assumption|]. rewrite BO1. lia.
      * intros t'. destruct (Pos.eq_dec t' t) as [->|K]; [lia|]. rewrite To by assumption. apply BO3.
    + unfold s'. rewrite numobjs_set_idx. change (numobjs s = num s'). lia.
  - unfold s'. rewrite now_set_idx. reflexivity.
Qed.

Lemma SS_ext : forall (R R' : id -> id -> Prop) l, (forall a b, R a b -> R' a b) ->
  StronglySorted R l -> StronglySorted R' l.
Proof.
  intros R R' l H S. induction S as [|a l S IH FA]; constructor; [assumption|].
  rewrite Forall_forall in *. intros x Hx. apply H. apply FA. assumption.
Qed.

(* ---------- collect ---------- *)
Lemma collect_ok : forall fuel s, Inv s -> num s < Z.of_nat fuel ->
  exists s' l, collect fuel s = Ok s' /\ Inv s' /\ batch s' = batch s ++ l /\
    (forall t, texp s' t = texp s t) /\ now s' = now s /\
    StronglySorted (le_exp s) l /\
    (forall t, In t l <-> 1 <= tidx s t /\ texp s t <= now s) /\
    (forall t, 1 <= tidx s' t <-> 1 <= tidx s t /\ now s < texp s t).
Proof.
  induction fuel as [|f IH]; intros s I L.
  - pose proof (i_num s I). lia.
  - cbn [collect]. destruct (Z.eqb_spec (num s) 0) as [Z0|NZ].
    { exists s, []. split; [reflexivity|split; [assumption|split; [symmetry; apply app_nil_r|]]].
      split; [reflexivity|split; [reflexivity|split; [constructor|split]]].
      - intros t. split; [intros []|]. intros [H _]. destruct (i_back s I t H) as [R _]. lia.
      - intros t. split; [|tauto]. intros H. destruct (i_back s I t H) as [R _]. lia. }
    pose proof (i_num s I) as N.
    destruct (i_filled s I 1 ltac:(lia)) as (t & E1 & I1).
    rewrite E1, I1. cbn [Z.eqb Pos.eqb negb].
    destruct (Z.ltb_spec (now s) (texp s t)) as [Lt|Ge].
    { exists s, []. split; [reflexivity|split; [assumption|split; [symmetry; apply app_nil_r|]]].
      split; [reflexivity|split; [reflexivity|split; [constructor|split]]].
      - intros t'. split; [intros []|]. intros [H H2].
        pose proof (root_min s t t' I E1 H). lia.
      - intros t'. split; [|tauto]. intros H. split; [assumption|].
        pose proof (root_min s t t' I E1 H). lia. }
    destruct (unregister_inv s t I ltac:(lia)) as
      (s1 & U & I1' & T1 & TS1 & X1 & B1 & N1 & NW1 & TG1).
    rewrite U.
    destruct (push_batch_inv s1 t I1' T1 TG1) as (I2 & T2 & TO2 & X2 & B2 & N2 & NW2).
    set (s2 := set_idx (set_batch s1 (batch s1 ++ [t])) t 0) in *.
    destruct (IH s2 I2 ltac:(lia)) as (s' & l' & C & I' & B' & X' & NW' & SS' & IN' & GE').
    exists s', (t :: l'). split; [assumption|split; [assumption|]].
    assert (XE : forall x, texp s2 x = texp s x) by (intros; rewrite X2; apply X1).
    assert (NWE : now s2 = now s) by congruence.
    assert (TGE : forall x, x <> t -> (1 <= tidx s2 x <-> 1 <= tidx s x)).
    { intros x K. rewrite TO2 by assumption. pose proof (TS1 x K) as T. unfold tsim in T. lia. }
    split; [|split; [|split; [|split; [|split]]]].
    + rewrite B', B2, B1, <- app_assoc. reflexivity.
    + intros x. rewrite X'. apply XE.
    + congruence.
    + constructor.
      * apply (SS_ext (le_exp s2)); [|assumption].
        intros a b. unfold le_exp. rewrite !XE. tauto.
      * rewrite Forall_forall. intros x Hx. apply IN' in Hx. destruct Hx as [Hx _].
        assert (K : x <> t) by (intro; subst x; lia).
        unfold le_exp. apply (root_min s t x I E1). apply TGE; assumption.
    + intros x. simpl. rewrite IN', XE, NWE. destruct (Pos.eq_dec x t) as [->|K].
      * split; [intros _; split; lia|intros _; left; reflexivity].
      * rewrite (TGE x K). split; [intros [H|H]; [congruence|assumption]|intros H; right; assumption].
    + intros x. rewrite GE', XE, NWE. destruct (Pos.eq_dec x t) as [->|K].
      * split; intros [H1 H2]; lia.
      * rewrite (TGE x K). reflexivity.
Qed.
