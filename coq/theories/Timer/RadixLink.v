(* RadixLink.v -- the growth test of iv_timer_get_node in Timer/RadixModel.v IS the code:
   gen/c2gallina.py extracts the condition of the first `if` of iv_timer_get_node from the current
   C source on every run (Gen/LeafTimer.v, timer_growth_test : rat_depth -> index -> option bool, None = a
   shift by a negative count or by >= 32 was executed); here it is proved equal to RadixModel.grow_test.
   If the guard `(st->rat_depth + 1) * IV_TIMER_SPLIT_BITS < 8 * (int)sizeof(index)` disappears from the
   source again, the regenerated function is None at depth 4 and these proofs fail. *)
From Coq Require Import ZArith Bool Lia.
From Ivv Require Import Gen.LeafTimer Timer.HeapModel Timer.RadixModel.
Local Open Scope Z_scope.

Definition to_option {A : Type} (r : rres A) : option A :=
  match r with Good x => Some x | Bad _ => None end.

(* the value of the test: 128^(depth+1) <= index, asked only while the shift count is below 32 *)
Definition growth_test_bool (d index : Z) : bool :=
  ((d + 1) * 7 <? 32) && negb (Z.shiftr index ((d + 1) * 7) =? 0).

(* for ALL depths and indices, defined or not: the same function *)
Lemma growth_test_is_grow_test : forall d index,
  LeafTimer.timer_growth_test d index = to_option (grow_test d index).
Proof.
  intros d index. unfold LeafTimer.timer_growth_test, grow_test, SPLIT_BITS.
  destruct ((d + 1) * 7 <? 8 * 4); cbn [ub_and]; [|reflexivity].
  unfold ub_shr32, shr_int, INT_BITS.
  destruct ((0 <=? (d + 1) * 7) && ((d + 1) * 7 <? 32)); reflexivity.
Qed.

(* never undefined, for every depth and every int index; and the model computes the same value *)
Lemma growth_test_is_the_code : forall d index, 0 <= d -> 0 <= index < 2 ^ 31 ->
  LeafTimer.timer_growth_test d index = Some (growth_test_bool d index) /\
  grow_test d index = Good (growth_test_bool d index).
Proof.
  intros d index Hd Hi.
  assert (G : grow_test d index = Good (growth_test_bool d index)).
  { unfold grow_test, growth_test_bool, SPLIT_BITS. change (8 * 4) with 32.
    destruct (Z.ltb_spec ((d + 1) * 7) 32) as [L|L]; [|reflexivity].
    unfold shr_int, INT_BITS.
    replace (0 <=? (d + 1) * 7) with true by (symmetry; apply Z.leb_le; lia).
    replace ((d + 1) * 7 <? 32) with true by (symmetry; apply Z.ltb_lt; lia).
    reflexivity. }
  split; [|exact G]. rewrite growth_test_is_grow_test, G. reflexivity.
Qed.
