(* RadixHazard.v -- the dangling-pointer hazard of iv_timer_unregister is real in the model:
   iv_timer_unregister with two switches, (late_null) `*m = NULL` executed after
   iv_timer_radix_tree_remove_level instead of before, (no_guard) the `if (p != m)` guard dropped.
   With both switches off it IS RadixModel.runregister; with either one on, unregistering at
   num_timers = 128 reaches the error value EUseAfterFree.  So C05_radix_no_dangling_slot is not
   vacuous: it holds because of the order of the statements and of the guard. *)
From Coq Require Import List ZArith Bool.
From Ivv Require Import Timer.HeapModel Timer.HeapSpec Timer.RadixModel Timer.RadixSpec.
Import ListNotations.
Local Open Scope Z_scope.

Definition runregister_var (late_null no_guard : bool) (rs : rstate) (t : id) : routcome :=
  let ix := tidx (hs rs) t in
  if ix =? -1 then RFatal rs else
  if negb (ix =? 0) then
    if rnum rs <? ix then RFatal rs else
    match rget_node rs ix with
    | Bad e => RCrash e
    | Good (rs1, p) =>
        match load rs1 p with
        | Bad e => RCrash e
        | Good c =>
            if negb (match c with CTimer tp => Pos.eqb tp t | _ => false end) then RFatal rs1 else
            lift (do x <- rget_node rs1 (rnum rs1);
                  let '(rs2, m) := x in
                  let n := rnum rs2 in
                  do cm <- load rs2 m;
                  do rs3 <- store rs2 p cm;
                  do tlast <- deref_timer rs3 p;
                  let rs3 := rset_idx rs3 tlast ix in
                  do rs3 <- (if late_null then Good rs3 else store rs3 m CNull);
                  do rs4 <- (if (0 <? rdepth rs3) && (n =? Z.shiftl 1 (rdepth rs3 * SPLIT_BITS))
                             then rremove_level rs3 else Good rs3);
                  do rs4 <- (if late_null then store rs4 m CNull else Good rs4);
                  let rs5 := rset_num rs4 (n - 1) in
                  do rs7 <-
                    (if negb no_guard && (p =? m) then Good rs5 else
                       do _ <- deref_timer rs5 p;
                       do rs6 <- rpull_up (log2_fuel ix) rs5 ix p;
                       do _ <- deref_timer rs6 p;
                       rpush_down (log2_fuel n) rs6 ix p);
                  Good (rset_idx (set_hs rs7 (set_numobjs (hs rs7) (numobjs (hs rs7) - 1))) t (-1)))
        end
    end
  else
    ROk (rset_idx (set_hs rs (set_batch (hs rs) (remove_first t (batch (hs rs))))) t (-1)).


Lemma runregister_var_faithful : forall rs t, runregister_var false false rs t = runregister rs t.
Proof. reflexivity. Qed.

(* 128 registrations: depth 1, two leaves *)
Definition hazard_state : rstate :=
  match rrun_ops no_scripts (map (fun i => OAct (AReg (Pos.of_nat i) (Z.of_nat i))) (seq 1 128)) rinit with
  | ROk rs => rs
  | _ => rinit
  end.

Example hazard_faithful_ok :
  (match runregister hazard_state 5%positive with ROk rs => (rdepth rs =? 0) && (rnum rs =? 127) && (nfree rs =? 2) | _ => false end) &&
  (match runregister hazard_state 128%positive with ROk rs => (rdepth rs =? 0) && (rnum rs =? 127) && (nfree rs =? 2) | _ => false end) = true.
Proof. vm_compute. reflexivity. Qed.

(* `*m = NULL` after remove_level writes into the freed leaf *)
Example hazard_late_null_refuted :
  runregister_var true false hazard_state 5%positive = RCrash EUseAfterFree.
Proof. vm_compute. reflexivity. Qed.

(* without `p != m`, unregistering the last timer dereferences p == m inside the freed leaf *)
Example hazard_no_guard_refuted :
  runregister_var false true hazard_state 128%positive = RCrash EUseAfterFree.
Proof. vm_compute. reflexivity. Qed.
