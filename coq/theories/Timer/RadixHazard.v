(* RadixHazard.v -- the dangling-pointer hazard of iv_timer_unregister is real in the model:
   iv_timer_unregister with two switches, (late_null) `*m = NULL` executed after
   iv_timer_radix_tree_remove_level instead of before, (no_guard) the `if (p != m)` guard dropped.
   With both switches off it IS RadixModel.runregister; with either one on, unregistering at
   num_timers = 128 reaches the error value EUseAfterFree.  So C05_radix_no_dangling_slot is not
   vacuous: it holds because of the order of the statements and of the guard.

   Likewise for the guard `(rat_depth + 1) * 7 < 32` of the growth test in iv_timer_get_node
   (commit 3da677a): iv_timer_get_node with the unguarded test (the code before that commit)
   executes `index >> 35` -- the error value EShift -- in every tree of depth 4, the depth that
   the invariant forces from num_timers = 2^28 on. *)
From Coq Require Import List ZArith Bool.
From Ivv Require Import Timer.HeapModel Timer.HeapSpec Timer.RadixModel Timer.RadixSpec.
Import ListNotations.
Local Open Scope Z_scope.

Definition runregister_var (late_null no_guard : bool) (rs : rstate) (t : id) : routcome :=
  let ix := tidx (hs rs) t in
  if ix =? -1 then RFatal rs else
  if negb (ix =? 0) then
    if rnum rs <? ix then RFatal rs else
    match rget_node rs ix with
    | Bad e => RCrash e
    | Good (rs1, p) =>
        match load rs1 p with
        | Bad e => RCrash e
        | Good c =>
            if negb (match c with CTimer tp => Pos.eqb tp t | _ => false end) then RFatal rs1 else
            lift (do x <- rget_node rs1 (rnum rs1);
                  let '(rs2, m) := x in
                  let n := rnum rs2 in
                  do cm <- load rs2 m;
                  do rs3 <- store rs2 p cm;
                  do tlast <- deref_timer rs3 p;
                  let rs3 := rset_idx rs3 tlast ix in
                  do rs3 <- (if late_null then Good rs3 else store rs3 m CNull);
                  do shrink <- (if 0 <? rdepth rs3
                                then do lim <- shl1_int (rdepth rs3 * SPLIT_BITS); Good (n =? lim)
                                else Good false);
                  do rs4 <- (if shrink : bool then rremove_level rs3 else Good rs3);
                  do rs4 <- (if late_null then store rs4 m CNull else Good rs4);
                  let rs5 := rset_num rs4 (n - 1) in
                  do rs7 <-
                    (if negb no_guard && (p =? m) then Good rs5 else
                       do _ <- deref_timer rs5 p;
                       do rs6 <- rpull_up (log2_fuel ix) rs5 ix p;
                       do _ <- deref_timer rs6 p;
                       rpush_down (log2_fuel n) rs6 ix p);
                  Good (rset_idx (set_hs rs7 (set_numobjs (hs rs7) (numobjs (hs rs7) - 1))) t (-1)))
        end
    end
  else
    ROk (rset_idx (set_hs rs (set_batch (hs rs) (remove_first t (batch (hs rs))))) t (-1)).


Lemma runregister_var_faithful : forall rs t, runregister_var false false rs t = runregister rs t.
Proof. reflexivity. Qed.

(* 128 registrations: depth 1, two leaves *)
Definition hazard_state : rstate :=
  match rrun_ops no_scripts (map (fun i => OAct (AReg (Pos.of_nat i) (Z.of_nat i))) (seq 1 128)) rinit with
  | ROk rs => rs
  | _ => rinit
  end.

Example hazard_faithful_ok :
  (match runregister hazard_state 5%positive with ROk rs => (rdepth rs =? 0) && (rnum rs =? 127) && (nfree rs =? 2) | _ => false end) &&
  (match runregister hazard_state 128%positive with ROk rs => (rdepth rs =? 0) && (rnum rs =? 127) && (nfree rs =? 2) | _ => false end) = true.
Proof. vm_compute. reflexivity. Qed.

(* `*m = NULL` after remove_level writes into the freed leaf *)
Example hazard_late_null_refuted :
  runregister_var true false hazard_state 5%positive = RCrash EUseAfterFree.
Proof. vm_compute. reflexivity. Qed.

(* without `p != m`, unregistering the last timer dereferences p == m inside the freed leaf *)
Example hazard_no_guard_refuted :
  runregister_var false true hazard_state 128%positive = RCrash EUseAfterFree.
Proof. vm_compute. reflexivity. Qed.

(* ---- the growth test without its guard (iv_timer_get_node before commit 3da677a) ---- *)
Definition grow_test_unguarded (d index : Z) : rres bool :=
  do v <- shr_int index ((d + 1) * SPLIT_BITS);
  Good (negb (v =? 0)).

Definition rget_node_var (guarded : bool) (rs : rstate) (index : Z) : rres (rstate * Z) :=
  do grow <- (if guarded then grow_test (rdepth rs) index else grow_test_unguarded (rdepth rs) index);
  do rs1 <-
    (if negb grow then Good rs else
       let rs1 := rset_depth rs (rdepth rs + 1) in
       let '(rs2, r) := alloc rs1 in
       do c <- load rs2 ROOT_CELL;
       do rs3 <- store rs2 (r * NODES) c;
       store rs3 ROOT_CELL (CNode r));
  do r <- load_node rs1 ROOT_CELL;
  match r with
  | None => Bad ENull
  | Some r =>
      do x <- walk (Z.to_nat (rdepth rs1)) rs1 r (rdepth rs1) index;
      let '(rs2, r') := x in
      Good (rs2, r' * NODES + Z.land index (NODES - 1))
  end.

Lemma rget_node_var_faithful : forall rs index, rget_node_var true rs index = rget_node rs index.
Proof. reflexivity. Qed.

(* in ANY state of depth 4, for ANY index, the unguarded test is undefined behaviour ... *)
Lemma unguarded_shift_refuted : forall rs index, rdepth rs = 4 ->
  rget_node_var false rs index = Bad EShift.
Proof. intros rs index E. unfold rget_node_var, grow_test_unguarded. rewrite E. reflexivity. Qed.

(* ... and depth 4 with num_timers = 2^28 is what the invariant prescribes (128^4 <= 2^28 < 128^5) *)
Lemma depth4_population : RadixSpec.P 4 <= 2 ^ 28 < RadixSpec.P 5 /\ 2 ^ 28 < 2 ^ 31.
Proof. vm_compute. repeat split; intro; discriminate. Qed.

(* a concrete tree of depth 4: iv_timer_get_node on 128, 128^2, 128^3, 128^4 from the empty store grows one
   level each time (only the nodes on these paths are allocated).  The lookup of slot 2^27 -- the first
   thing pull_up does after the 2^28-th registration -- is fine with the guard, EShift without. *)
Definition depth4_state : rstate :=
  fold_left (fun rs i => match rget_node rs i with Good (rs', _) => rs' | Bad _ => rs end)
            [2 ^ 7; 2 ^ 14; 2 ^ 21; 2 ^ 28] rinit.

Example hazard_depth4_guarded_ok :
  (rdepth depth4_state =? 4) &&
  (match rget_node depth4_state (2 ^ 27) with Good (rs, _) => rdepth rs =? 4 | Bad _ => false end) = true.
Proof. vm_compute. reflexivity. Qed.

Example hazard_unguarded_shift_refuted :
  rget_node_var false depth4_state (2 ^ 27) = Bad EShift.
Proof. vm_compute. reflexivity. Qed.
