(* HeapFacts.v -- HeapInv split into named parts; consequences of Sift. *)
From Coq Require Import List ZArith Bool Lia.
From Ivv Require Import Timer.HeapModel Timer.HeapSpec Timer.HeapBase Timer.HeapSift.
Import ListNotations.
Local Open Scope Z_scope.

Ltac Zify.zify_post_hook ::= Z.div_mod_to_equations.

Definition DepthOK (s : tstate) : Prop :=
  0 <= depth s /\ num s < cap (depth s) /\ (0 < depth s -> 2 ^ (SPLIT_BITS * depth s) <= num s).
Definition Ordered (s : tstate) : Prop := Full (num s) (key s).
Definition Back (s : tstate) : Prop := forall t, 1 <= tidx s t -> inslot s t.
Definition BatchOK (s : tstate) : Prop :=
  (forall t, In t (batch s) <-> tidx s t = 0) /\ NoDup (batch s) /\ (forall t, -1 <= tidx s t).

Record Inv (s : tstate) : Prop := {
  i_num : 0 <= num s;
  i_depth : DepthOK s;
  i_filled : Filled s;
  i_vacant : Vacant s;
  i_back : Back s;
  i_ord : Ordered s;
  i_batch : BatchOK s;
  i_objs : numobjs s = num s }.

Lemma Inv_HeapInv : forall s, Inv s -> HeapInv s.
Proof.
  intros s [N (D1 & D2 & D3) F V B O (B1 & B2 & B3) NO].
  unfold HeapInv. repeat split; try assumption.
  - intros p H. rewrite <- sget_pos. apply V; assumption.
  - apply (B t); assumption.
  - apply (B t); assumption.
  - intros i t tp R E Ep. specialize (O i R). unfold key in O. rewrite E, Ep in O. assumption.
  - apply B1.
  - apply B1.
Qed.

Lemma HeapInv_Inv : forall s, HeapInv s -> Inv s.
Proof.
  intros s (N & D1 & D2 & D3 & F & V & B & O & B1 & B2 & B3 & NO).
  constructor; try assumption.
  - repeat split; assumption.
  - intros i H. destruct i as [|p|p]; try (apply sget_nonpos; lia).
    rewrite sget_pos. apply V; assumption.
  - intros t H. destruct (B t H) as [A E]. split; [lia|assumption].
  - intros j R. unfold key.
    destruct (F j ltac:(lia)) as (t & E & _). destruct (F (j / 2) ltac:(lia)) as (tp & Ep & _).
    rewrite E, Ep. eapply O; eassumption.
  - repeat split; try assumption; apply B1.
Qed.

(* ---------- similarity of back indices ---------- *)
Definition tsim (s s' : tstate) (t : id) : Prop :=
  (1 <= tidx s t /\ 1 <= tidx s' t) \/ tidx s' t = tidx s t.

Lemma tsim_refl : forall s t, tsim s s t.
Proof. intros; right; reflexivity. Qed.
Lemma tsim_eq : forall s s' t, tidx s' t = tidx s t -> tsim s s' t.
Proof. intros; right; assumption. Qed.
Lemma tsim_trans : forall s1 s2 s3 t, tsim s1 s2 t -> tsim s2 s3 t -> tsim s1 s3 t.
Proof. unfold tsim; intros s1 s2 s3 t A B; lia. Qed.

Lemma Sift_tsim : forall s s' t, Sift s s' -> tsim s s' t.
Proof.
  intros s s' t S. destruct (Sift_cases s s' t S) as [[A B]|(A & B & C)].
  - left. destruct A as [A _], B as [B _]. lia.
  - right. unfold tidx. rewrite C. reflexivity.
Qed.

Lemma tsim_abs : forall s s' t, tsim s s' t -> texp s' t = texp s t -> abs s' t = abs s t.
Proof.
  intros s s' t T E. unfold abs. rewrite E.
  destruct (Z.leb_spec 1 (tidx s t)), (Z.leb_spec 1 (tidx s' t)); try reflexivity;
    unfold tsim in T; lia.
Qed.

Lemma Sift_abs : forall s s' t, Sift s s' -> abs s' t = abs s t.
Proof. intros s s' t S. apply tsim_abs; [apply Sift_tsim; assumption|apply (sf_texp _ _ S)]. Qed.

Lemma tsim_batchok : forall s s', (forall t, tsim s s' t) -> batch s' = batch s ->
  BatchOK s -> BatchOK s'.
Proof.
  intros s s' T E (B1 & B2 & B3). unfold BatchOK. rewrite E. split; [|split].
  - intros t. rewrite B1. specialize (T t). unfold tsim in T. lia.
  - assumption.
  - intros t. specialize (T t). specialize (B3 t). unfold tsim in T. lia.
Qed.

Lemma Sift_back : forall s s', Sift s s' -> Back s -> Back s'.
Proof.
  intros s s' S B t H. destruct (Sift_cases s s' t S) as [[_ A]|(A & _ & C)]; [assumption|].
  exfalso. apply A. apply B. unfold tidx in *. rewrite <- C. assumption.
Qed.

(* Back with one exception *)
Definition BackEx (s : tstate) (x : id) : Prop := forall t, t <> x -> 1 <= tidx s t -> inslot s t.

Lemma Sift_backex : forall s s' x, Sift s s' -> BackEx s x -> BackEx s' x.
Proof.
  intros s s' x S B t N H. destruct (Sift_cases s s' t S) as [[_ A]|(A & _ & C)]; [assumption|].
  exfalso. apply A. apply B; [assumption|]. unfold tidx in *. rewrite <- C. assumption.
Qed.

(* states with the same maps *)
Lemma key_ext : forall s s' i, slots s' = slots s -> tm s' = tm s -> key s' i = key s i.
Proof.
  intros s s' i A B. unfold key. rewrite (sget_ext s s' i A).
  destruct (sget s i); [apply texp_ext; assumption|reflexivity].
Qed.

(* ---------- lists ---------- *)
Lemma remove_first_in : forall t l x, NoDup l ->
  (In x (remove_first t l) <-> In x l /\ x <> t).
Proof.
  intros t l x. induction l as [|a l IH]; intros ND.
  - simpl. tauto.
  - inversion ND as [|? ? NI ND']; subst. cbn [remove_first].
    destruct (Pos.eqb_spec a t) as [->|N].
    + simpl. split.
      * intros H. split; [right; assumption|]. intro; subst. contradiction.
      * intros [[H|H] H2]; [congruence|assumption].
    + simpl. rewrite (IH ND'). split.
      * intros [H|[H1 H2]]; [subst; split; [left; reflexivity|assumption]|split; [right; assumption|assumption]].
      * intros [[H|H] H2]; [left; assumption|right; split; assumption].
Qed.

Lemma remove_first_nodup : forall t l, NoDup l -> NoDup (remove_first t l).
Proof.
  intros t l. induction l as [|a l IH]; intros ND; [constructor|].
  inversion ND as [|? ? NI ND']; subst. cbn [remove_first].
  destruct (Pos.eqb_spec a t) as [->|N]; [assumption|].
  constructor; [|apply IH; assumption].
  intro H. apply (remove_first_in t l a ND') in H. tauto.
Qed.
