(* CSem.v -- the C integer semantics used by the typed leaf translations (gen/c2gallina.py, class CTr;
   generated files Gen/LeafWork.v, Gen/LeafPopen.v, Gen/LeafAvl.v, Gen/LeafInotify.v, Gen/LeafSignal.v,
   Gen/LeafWait.v).  Definitions only.  Platform: LP64 two's complement (x86-64 Linux, the platform the
   harnesses are built for): char 8, short 16, int 32, long / pointers 64 bits.

   A generated definition has type `option T`; None = an operation whose behaviour C leaves UNDEFINED was
   executed (signed overflow, division by zero, INT_MIN / -1, shift by a negative count or by >= the width,
   left shift of a negative value or out of the result type, dereference of a null pointer, pointer
   arithmetic leaving the 64-bit address space).  Unsigned arithmetic wraps (c_wrap_u).  Conversions to a
   narrower / same-width signed type are IMPLEMENTATION-defined in C; gcc and clang reduce modulo 2^N
   (c_wrap_s), which is what is modelled.  >> of a negative value is implementation-defined too (arithmetic
   shift = Z.shiftr).  Relational comparison of pointers is modelled as comparison of addresses (flat
   address space); object bounds of pointer arithmetic are NOT tracked. *)
From Coq Require Import ZArith Bool.
Local Open Scope Z_scope.

Definition b2z (b : bool) : Z := if b then 1 else 0.

Definition ub_bind {A B : Type} (x : option A) (f : A -> option B) : option B :=
  match x with Some a => f a | None => None end.
(* a && b, a || b: the right operand is only executed when the left one does not decide *)
Definition ub_and (a b : option bool) : option bool :=
  match a with Some true => b | Some false => Some false | None => None end.
Definition ub_or (a b : option bool) : option bool :=
  match a with Some true => Some true | Some false => b | None => None end.

(* conversion to an unsigned / signed type of `bits` bits *)
Definition c_wrap_u (bits x : Z) : Z := x mod 2 ^ bits.
Definition c_wrap_s (bits x : Z) : Z := (x + 2 ^ (bits - 1)) mod 2 ^ bits - 2 ^ (bits - 1).

(* the result of a signed operation must be representable *)
Definition c_in_s (bits x : Z) : bool := (- 2 ^ (bits - 1) <=? x) && (x <? 2 ^ (bits - 1)).
Definition c_chk_s (bits x : Z) : option Z := if c_in_s bits x then Some x else None.

(* / and % (truncation towards zero) *)
Definition c_div_s (bits a b : Z) : option Z := if b =? 0 then None else c_chk_s bits (Z.quot a b).
Definition c_rem_s (bits a b : Z) : option Z :=
  if b =? 0 then None else if c_in_s bits (Z.quot a b) then Some (Z.rem a b) else None.
Definition c_div_u (a b : Z) : option Z := if b =? 0 then None else Some (Z.quot a b).
Definition c_rem_u (a b : Z) : option Z := if b =? 0 then None else Some (Z.rem a b).

(* shifts; `bits` is the width of the promoted left operand *)
(* (nested ifs: the shift is not computed for a bad count, also under call-by-value evaluation such as vm_compute) *)
Definition c_shl_s (bits x c : Z) : option Z :=
  if (0 <=? c) && (c <? bits) && (0 <=? x) then
    if Z.shiftl x c <? 2 ^ (bits - 1) then Some (Z.shiftl x c) else None
  else None.
Definition c_shl_u (bits x c : Z) : option Z :=
  if (0 <=? c) && (c <? bits) then Some (c_wrap_u bits (Z.shiftl x c)) else None.
Definition c_shr (bits x c : Z) : option Z :=
  if (0 <=? c) && (c <? bits) then Some (Z.shiftr x c) else None.

(* p->f, *p: p must not be the null pointer (address 0) *)
Definition c_deref (addr : Z) : option Z := if addr =? 0 then None else Some addr.
(* p + n, p - n (n already multiplied by the size of the pointed-to type): stays an address *)
Definition c_chk_ptr (addr : Z) : option Z := if (0 <=? addr) && (addr <? 2 ^ 64) then Some addr else None.
