(* CSemFacts.v -- small facts about the C semantics of Base/CSem.v used by the link files of the typed leaf translations *)
From Coq Require Import ZArith Bool Lia.
From Ivv Require Import Base.CSem.
Local Open Scope Z_scope.

Lemma c_chk_s_in : forall bits x, - 2 ^ (bits - 1) <= x < 2 ^ (bits - 1) -> c_chk_s bits x = Some x.
Proof.
  intros bits x H. unfold c_chk_s, c_in_s.
  replace (- 2 ^ (bits - 1) <=? x) with true by (symmetry; apply Z.leb_le; lia).
  replace (x <? 2 ^ (bits - 1)) with true by (symmetry; apply Z.ltb_lt; lia). reflexivity.
Qed.

Lemma c_chk_ptr_in : forall a, 0 <= a < 2 ^ 64 -> c_chk_ptr a = Some a.
Proof.
  intros a H. unfold c_chk_ptr.
  replace (0 <=? a) with true by (symmetry; apply Z.leb_le; lia).
  replace (a <? 2 ^ 64) with true by (symmetry; apply Z.ltb_lt; lia). reflexivity.
Qed.

Lemma c_deref_nonnull : forall a, a <> 0 -> c_deref a = Some a.
Proof. intros a H. unfold c_deref. apply Z.eqb_neq in H. rewrite H. reflexivity. Qed.

(* `x & (1 << k)` is non-zero iff bit k of x is set *)
Lemma land_pow2_testbit : forall m k, 0 <= k -> negb (Z.land m (2 ^ k) =? 0) = Z.testbit m k.
Proof.
  intros m k Hk. destruct (Z.testbit m k) eqn:T.
  - apply negb_true_iff. apply Z.eqb_neq. intros X.
    assert (Z.testbit (Z.land m (2 ^ k)) k = true) by (rewrite Z.land_spec, T, Z.pow2_bits_true by lia; reflexivity).
    rewrite X in H. rewrite Z.bits_0 in H. discriminate.
  - apply negb_false_iff. apply Z.eqb_eq. apply Z.bits_inj'. intros n Hn.
    rewrite Z.land_spec, Z.bits_0. destruct (Z.eq_dec n k) as [->|N].
    + rewrite T. reflexivity.
    + rewrite (Z.pow2_bits_false k n) by lia. apply andb_false_r.
Qed.

Lemma land_1_odd : forall m, negb (Z.land m 1 =? 0) = Z.odd m.
Proof. intros m. change 1 with (2 ^ 0). rewrite land_pow2_testbit by lia. apply Z.bit0_odd. Qed.
