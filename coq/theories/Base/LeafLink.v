(* LeafLink.v -- links the GENERATED translations of the leaf functions
   (Gen/Leaf.v, regenerated from /repo/src on every check) to the hand-written
   definitions used by the core model.  When the C source of a leaf function
   changes, Leaf.v changes and these lemmas stop checking. *)
From Coq Require Import ZArith Bool Lia.
From Ivv Require Import Gen.Leaf Core.Kernel Core.CoreTypes Core.CoreFd Core.CoreModel.
Local Open Scope Z_scope.

Ltac Zify.zify_post_hook ::= Z.div_mod_to_equations.

Definition ns (sec nsec : Z) : Z := sec * NS + nsec.
Definition ok_nsec (n : Z) : Prop := 0 <= n < NS.

Lemma leaf_timespec_gt as_ an bs bn :
  ok_nsec an -> ok_nsec bn ->
  timespec_gt as_ an bs bn = if ns bs bn <? ns as_ an then 1 else 0.
Proof.
  unfold ok_nsec, timespec_gt, ns, NS, b2z. intros Ha Hb.
  rewrite negb_involutive.
  destruct (as_ >? bs) eqn:E1; destruct (as_ =? bs) eqn:E2; destruct (an >? bn) eqn:E3; cbn [orb andb];
    destruct (bs * 1000000000 + bn <? as_ * 1000000000 + an) eqn:E4; try reflexivity; lia.
Qed.

(* to_relative (with a valid cached time): clamps at zero, result normalised *)
Lemma leaf_to_relative ts tn as_ an :
  ok_nsec tn -> ok_nsec an ->
  let '(r, s, n) := Leaf.to_relative ts tn 1 as_ an in
  r = 1 /\ ok_nsec n /\ 0 <= s * NS + n /\
  ns s n = (if ns ts tn <? ns as_ an then ns as_ an - ns ts tn else 0).
Proof.
  intros Ht Ha. unfold Leaf.to_relative. cbn [Z.eqb negb].
  rewrite (leaf_timespec_gt as_ an ts tn Ha Ht).
  unfold ok_nsec, ns, NS in *.
  destruct (ts * 1000000000 + tn <? as_ * 1000000000 + an) eqn:E; cbn [Z.eqb negb].
  - destruct (an - tn <? 0) eqn:E2; repeat split; lia.
  - repeat split; lia.
Qed.

Lemma leaf_to_relative_null ts tn as_ an : fst (fst (Leaf.to_relative ts tn 0 as_ an)) = 0.
Proof. reflexivity. Qed.

(* to_msec = the model's msec_of_rel of the clamped difference; -1 for NULL *)
Lemma leaf_to_msec ts tn as_ an :
  ok_nsec tn -> ok_nsec an ->
  Leaf.to_msec ts tn 1 as_ an =
  msec_of_rel (if ns ts tn <? ns as_ an then ns as_ an - ns ts tn else 0).
Proof.
  intros Ht Ha. unfold Leaf.to_msec. cbn [Z.eqb negb].
  pose proof (leaf_to_relative ts tn as_ an Ht Ha) as H.
  destruct (Leaf.to_relative ts tn 1 as_ an) as [[r s] n].
  destruct H as (_ & Hn & Hnn & Hs).
  set (d := if ns ts tn <? ns as_ an then ns as_ an - ns ts tn else 0) in *.
  unfold msec_of_rel, ok_nsec, ns, NS in *.
  assert (Hq : d / 1000000000 = s) by lia.
  assert (Hr : d mod 1000000000 = n) by lia.
  rewrite Hq, Hr.
  rewrite Z.quot_div_nonneg by lia.
  reflexivity.
Qed.

Lemma leaf_to_msec_null ts tn as_ an : Leaf.to_msec ts tn 0 as_ an = -1.
Proof. reflexivity. Qed.

(* never under-estimates, rounds up to the next millisecond, capped at one day *)
Lemma msec_of_rel_bounds r :
  0 <= r -> r / NS < 86400 ->
  r <= msec_of_rel r * 1000000 < r + 1000000.
Proof.
  unfold msec_of_rel, NS. intros H0 H1.
  destruct (r / 1000000000 <? 86400) eqn:E; lia.
Qed.

(* timespec_cmp against last_abs *)
Lemma leaf_timespec_cmp as_ an bs bn :
  ok_nsec an -> ok_nsec bn ->
  Leaf.timespec_cmp 1 as_ an bs bn = abs_cmp (Some (ns as_ an)) (ns bs bn).
Proof.
  unfold ok_nsec, Leaf.timespec_cmp, abs_cmp, ns, NS. intros Ha Hb. cbn [Z.eqb negb].
  destruct (as_ <? bs) eqn:E1; destruct (as_ >? bs) eqn:E2;
    destruct (an <? bn) eqn:E3; destruct (an >? bn) eqn:E4;
    destruct (as_ * 1000000000 + an <? bs * 1000000000 + bn) eqn:E5;
    destruct (bs * 1000000000 + bn <? as_ * 1000000000 + an) eqn:E6; try reflexivity; lia.
Qed.

Lemma leaf_timespec_cmp_null as_ an bs bn : Leaf.timespec_cmp 0 as_ an bs bn = abs_cmp None (ns bs bn).
Proof. reflexivity. Qed.

(* band masks: the model uses its own bit numbering for kernel events
   (IN=1 OUT=2 HUP=4); the C constants are EPOLLIN=1 EPOLLOUT=4, POLLIN=1 POLLOUT=4 POLLHUP=16 *)
Definition recode_epoll (m : Z) : Z := (if has m B_IN then 1 else 0) + (if has m B_OUT then 4 else 0).
Definition recode_poll (m : Z) : Z :=
  (if has m 1 then 1 else 0) + (if has m 2 then 4 else 0) + (if has m 4 then 16 else 0).

Lemma leaf_epoll_mask bits : Leaf.epoll_bits_to_poll_mask bits = recode_epoll (epoll_mask bits).
Proof.
  unfold Leaf.epoll_bits_to_poll_mask, recode_epoll, epoll_mask, has, M_IN, M_OUT, B_IN, B_OUT.
  destruct (Z.land bits 1 =? 0); destruct (Z.land bits 2 =? 0); reflexivity.
Qed.

Lemma leaf_poll_mask bits : Leaf.poll_bits_to_poll_mask bits = recode_poll (poll_mask bits).
Proof.
  unfold Leaf.poll_bits_to_poll_mask, recode_poll, poll_mask, has, M_IN, M_OUT, M_ERR.
  destruct (Z.land bits 1 =? 0); destruct (Z.land bits 2 =? 0); destruct (Z.land bits 4 =? 0); reflexivity.
Qed.

(* recompute_wanted_flags *)
Definition hflag (h : option Z) : Z := match h with Some _ => 1 | None => 0 end.

Lemma leaf_recompute_wanted (f : fdo) :
  snd (Leaf.recompute_wanted_flags (if registered f then 1 else 0) (hflag (h_in f)) (hflag (h_out f)) (hflag (h_err f)))
  = wanted (recompute_wanted f).
Proof.
  unfold Leaf.recompute_wanted_flags, recompute_wanted, fd_with_wanted, fd_with_bands, hflag, M_IN, M_OUT, M_ERR.
  destruct (registered f); destruct (h_in f); destruct (h_out f); destruct (h_err f); reflexivity.
Qed.
