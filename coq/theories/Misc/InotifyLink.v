(* InotifyLink.v -- the record walk of iv_inotify_got_event in Misc/InotifyModel.v IS the code of src/iv_inotify.c.
   gen/c2gallina.py (TYPED, class CTr) re-translates on every run, from the clang AST of the current source, with the C
   semantics explicit (Base/CSem.v: uint32_t -> size_t arithmetic wraps modulo 2^64, pointer arithmetic is address
   arithmetic that must stay inside [0, 2^64), sizeof evaluated by clang; None = undefined):
     inotify_read_size     third argument of `read(this->fd.fd, event_queue, sizeof(event_queue))`
     inotify_nothing_read  `if (ret <= 0)`              inotify_read_zero   `if (ret == 0)`
     inotify_curr_init     `curr = event_queue;`         inotify_end_init    `end = event_queue + ret;`
     inotify_loop_test     `while (curr < end)`          inotify_event_at    `struct inotify_event *event = curr;`
     inotify_dropped_test  `if (event->mask & IN_IGNORED || w->mask & IN_ONESHOT)`
     inotify_advance       `curr += event->len + sizeof(struct inotify_event);`
     inotify_gone_test     `if (this == NULL)`
   into Gen/LeafInotify.v.  The model walks a list of bytes (`rest` = the bytes from curr to end); `view curr end rest`
   below says that the two pointers delimit exactly that list.  The lemmas show: the view is established by the two
   initialisations, the loop test sees exactly whether `rest` is empty, and the advance by len + 16 re-establishes the
   view for the model's `zskip (len + 16) rest` -- for every record that the model accepts (parse_header succeeds and
   has_bytes len holds; otherwise the model stops with Truncated).  Not translated: read() itself, errno, the decoding
   of the header fields from memory (parse_header; tied by the correspondence runs), __find_watch, the handler call. *)
From Coq Require Import List ZArith Bool Lia.
From Ivv Require Import Base.CSem Gen.LeafInotify Misc.InotifyModel.
Import ListNotations.
Local Open Scope Z_scope.

Definition view (curr end_ : Z) (rest : list Z) : Prop := zlength rest = end_ - curr.

Lemma zlength_nonneg' : forall l, 0 <= zlength l.
Proof. intros. unfold zlength. lia. Qed.

Lemma zlength_cons' : forall x l, zlength (x :: l) = zlength l + 1.
Proof. intros. unfold zlength. cbn [length]. lia. Qed.

Lemma in_ptr : forall a, 0 <= a < 2 ^ 64 -> c_chk_ptr a = Some a.
Proof.
  intros a H. unfold c_chk_ptr.
  replace (0 <=? a) with true by (symmetry; apply Z.leb_le; lia).
  replace (a <? 2 ^ 64) with true by (symmetry; apply Z.ltb_lt; lia). reflexivity.
Qed.

(* the size handed to read() is the model's QUEUE_SIZE (sizeof(event_queue), evaluated by clang) *)
Lemma leaf_read_size : inotify_read_size tt = Some QUEUE_SIZE.
Proof. reflexivity. Qed.

(* ret = number of bytes read (the model's q), or -1 *)
Lemma leaf_ret_tests : forall q : list Z,
  inotify_nothing_read (zlength q) = Some (match q with [] => true | _ :: _ => false end) /\
  inotify_read_zero (zlength q) = Some (match q with [] => true | _ :: _ => false end).
Proof.
  intros q. unfold inotify_nothing_read, inotify_read_zero. destruct q as [|x q].
  - split; reflexivity.
  - rewrite zlength_cons'. pose proof (zlength_nonneg' q).
    split; f_equal; [apply Z.leb_gt|apply Z.eqb_neq]; lia.
Qed.

Lemma leaf_ret_error : inotify_nothing_read (-1) = Some true /\ inotify_read_zero (-1) = Some false.
Proof. split; reflexivity. Qed.

(* curr = event_queue; end = event_queue + ret: the view of the bytes read *)
Lemma leaf_init_view : forall base q, 0 <= base -> base + zlength q < 2 ^ 64 ->
  exists curr end_, inotify_curr_init base = Some curr /\ inotify_end_init base (zlength q) = Some end_ /\ view curr end_ q.
Proof.
  intros base q Hb Hq. exists base, (base + zlength q). pose proof (zlength_nonneg' q).
  split; [reflexivity|]. split; [apply in_ptr; lia|]. unfold view. lia.
Qed.

(* while (curr < end): exactly `match rest with [] => leave | _ :: _ => one more record` *)
Lemma leaf_loop_test : forall curr end_ rest, view curr end_ rest ->
  inotify_loop_test curr end_ = Some (match rest with [] => false | _ :: _ => true end).
Proof.
  intros curr end_ rest V. unfold inotify_loop_test, view in *. destruct rest as [|x r].
  - f_equal. apply Z.ltb_ge. unfold zlength in V. cbn [length] in V. lia.
  - rewrite zlength_cons' in V. pose proof (zlength_nonneg' r). f_equal. apply Z.ltb_lt. lia.
Qed.

(* the record header is read at curr *)
Lemma leaf_event_at : forall curr, inotify_event_at curr = Some curr.
Proof. reflexivity. Qed.

Lemma zlength_zskip : forall l n, 0 <= n <= zlength l -> zlength (zskip n l) = zlength l - n.
Proof.
  induction l as [|x l IH]; intros n H.
  - cbn [zskip]. unfold zlength in *. cbn [length] in *. lia.
  - cbn [zskip]. destruct (Z.leb_spec n 0) as [L|L].
    + lia.
    + rewrite zlength_cons' in *. rewrite IH by lia. lia.
Qed.

Lemma has_bytes_le : forall l n, has_bytes n l = true -> n <= zlength l.
Proof.
  induction l as [|x l IH]; intros n H; cbn [has_bytes] in H.
  - apply Z.leb_le in H. unfold zlength. cbn [length]. lia.
  - rewrite zlength_cons'. destruct (Z.leb_spec n 0) as [L|L].
    + pose proof (zlength_nonneg' l). lia.
    + apply IH in H. lia.
Qed.

Lemma get32_length : forall l v r, get32 l = Some (v, r) -> zlength l = zlength r + 4.
Proof.
  intros l v r H. unfold get32 in H.
  destruct l as [|b0 [|b1 [|b2 [|b3 t]]]]; try discriminate. inversion H; subst. rewrite !zlength_cons'. lia.
Qed.

Lemma parse_header_length : forall rest wd mask cookie len after,
  parse_header rest = Some (wd, mask, cookie, len, after) -> zlength rest = zlength after + 16.
Proof.
  intros rest wd mask cookie len after H. unfold parse_header in H.
  destruct (get32 rest) as [[a l1]|] eqn:E1; [|discriminate].
  destruct (get32 l1) as [[b l2]|] eqn:E2; [|discriminate].
  destruct (get32 l2) as [[c l3]|] eqn:E3; [|discriminate].
  destruct (get32 l3) as [[d l4]|] eqn:E4; [|discriminate].
  inversion H; subst.
  apply get32_length in E1. apply get32_length in E2. apply get32_length in E3. apply get32_length in E4. lia.
Qed.

(* curr += event->len + sizeof(struct inotify_event): for a record of len < 2^32 that lies inside the bytes read, the
   translated advance is defined, moves by len + 16 and leaves the view of the model's `zskip (len + 16) rest` *)
Lemma leaf_advance : forall curr end_ rest len, view curr end_ rest -> 0 <= curr -> end_ < 2 ^ 64 ->
  0 <= len < 2 ^ 32 -> len + 16 <= zlength rest ->
  inotify_advance curr len = Some (curr + (len + 16)) /\ view (curr + (len + 16)) end_ (zskip (len + 16) rest).
Proof.
  intros curr end_ rest len V Hc He Hl Hr. unfold view in *. split.
  - unfold inotify_advance, c_wrap_u. rewrite Z.mod_small by lia. apply in_ptr. lia.
  - rewrite zlength_zskip by lia. lia.
Qed.

(* ... in the model's terms: the record was accepted by parse_header and has_bytes *)
Lemma leaf_advance_model : forall curr end_ rest wd mask cookie len after,
  view curr end_ rest -> 0 <= curr -> end_ < 2 ^ 64 -> 0 <= len < 2 ^ 32 ->
  parse_header rest = Some (wd, mask, cookie, len, after) -> has_bytes len after = true ->
  inotify_advance curr len = Some (curr + (len + 16)) /\ view (curr + (len + 16)) end_ (zskip (len + 16) rest).
Proof.
  intros curr end_ rest wd mask cookie len after V Hc He Hl P B.
  apply leaf_advance; try assumption.
  apply parse_header_length in P. apply has_bytes_le in B. lia.
Qed.

(* x & 2^k != 0 is bit k *)
Lemma land_pow2_testbit : forall m k, 0 <= k -> negb (Z.land m (2 ^ k) =? 0) = Z.testbit m k.
Proof.
  intros m k Hk. destruct (Z.testbit m k) eqn:T.
  - apply negb_true_iff. apply Z.eqb_neq. intros X.
    assert (Z.testbit (Z.land m (2 ^ k)) k = true) by (rewrite Z.land_spec, T, Z.pow2_bits_true by lia; reflexivity).
    rewrite X in H. rewrite Z.bits_0 in H. discriminate.
  - apply negb_false_iff. apply Z.eqb_eq. apply Z.bits_inj'. intros n Hn.
    rewrite Z.land_spec, Z.bits_0. destruct (Z.eq_dec n k) as [->|N].
    + rewrite T. reflexivity.
    + rewrite (Z.pow2_bits_false k n) by lia. apply andb_false_r.
Qed.

(* the test that decides the deletion of the watch before its handler runs *)
Lemma leaf_dropped_test : forall mask wmask,
  inotify_dropped_test mask wmask = Some (Z.testbit mask IN_IGNORED_BIT || Z.testbit wmask IN_ONESHOT_BIT).
Proof.
  intros. unfold inotify_dropped_test, IN_IGNORED_BIT, IN_ONESHOT_BIT.
  change 32768 with (2 ^ 15). change 2147483648 with (2 ^ 31).
  rewrite !land_pow2_testbit by lia. reflexivity.
Qed.

(* if (this == NULL) break; -- the model's frame = Some None *)
Lemma leaf_gone_test : forall a, inotify_gone_test a = Some (a =? 0).
Proof. reflexivity. Qed.

(* everything together (the statement of Props/Properties_C20.v C20_record_walk_is_the_code) *)
Lemma inotify_link_all :
  inotify_read_size tt = Some QUEUE_SIZE /\
  (forall q : list Z,
     inotify_nothing_read (zlength q) = Some (match q with [] => true | _ :: _ => false end) /\
     inotify_read_zero (zlength q) = Some (match q with [] => true | _ :: _ => false end)) /\
  (inotify_nothing_read (-1) = Some true /\ inotify_read_zero (-1) = Some false) /\
  (forall base q, 0 <= base -> base + zlength q < 2 ^ 64 ->
     exists curr end_, inotify_curr_init base = Some curr /\ inotify_end_init base (zlength q) = Some end_ /\ view curr end_ q) /\
  (forall curr end_ rest, view curr end_ rest ->
     inotify_loop_test curr end_ = Some (match rest with [] => false | _ :: _ => true end)) /\
  (forall curr, inotify_event_at curr = Some curr) /\
  (forall curr end_ rest wd mask cookie len after,
     view curr end_ rest -> 0 <= curr -> end_ < 2 ^ 64 -> 0 <= len < 2 ^ 32 ->
     parse_header rest = Some (wd, mask, cookie, len, after) -> has_bytes len after = true ->
     inotify_advance curr len = Some (curr + (len + 16)) /\ view (curr + (len + 16)) end_ (zskip (len + 16) rest)) /\
  (forall mask wmask,
     inotify_dropped_test mask wmask = Some (Z.testbit mask IN_IGNORED_BIT || Z.testbit wmask IN_ONESHOT_BIT)) /\
  (forall a, inotify_gone_test a = Some (a =? 0)).
Proof.
  exact (conj leaf_read_size (conj leaf_ret_tests (conj leaf_ret_error (conj leaf_init_view (conj leaf_loop_test
        (conj leaf_event_at (conj leaf_advance_model (conj leaf_dropped_test leaf_gone_test)))))))).
Qed.
