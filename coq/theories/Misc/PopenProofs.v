(* PopenProofs.v -- property C19: for EVERY environment oracle (child behaviour, reaper timing, loop order,
   clock, close time) the sequential model of iv_popen.c never aborts or touches freed memory, its observable
   events are accepted by pcheck (escalation SIGTERM x5 then SIGKILL every 5 s from the close, no signal after
   the reaped termination), and everything is released; transcription lemma for the descriptor wiring. *)
From Coq Require Import List ZArith Bool Lia.
From Ivv Require Import Misc.PopenModel.
Import ListNotations.
Local Open Scope Z_scope.

Ltac zb :=
  repeat match goal with
  | H : (_ <? _) = true |- _ => apply Z.ltb_lt in H
  | H : (_ <? _) = false |- _ => apply Z.ltb_ge in H
  | H : (_ <=? _) = true |- _ => apply Z.leb_le in H
  | H : (_ <=? _) = false |- _ => apply Z.leb_gt in H
  | H : (_ =? _) = true |- _ => apply Z.eqb_eq in H
  | H : (_ =? _) = false |- _ => apply Z.eqb_neq in H
  end.

Definition nondead (l : list Z) : Prop := Forall (fun st => is_dead st = false) l.

Definition is_reaped (k : kid) : bool := match k with Reaped => true | _ => false end.

(* the acceptor phase as a function of the model state *)
Definition phase_of (s : pstate) : cphase :=
  if p_parent s then COpen (is_reaped (p_kid s))
  else if p_rec s && negb (p_dead s) then
    match p_timer s with Some e => CClosing e (p_kills s) | None => CDone end
  else CDone.

Record Good (s : pstate) : Prop := {
  g_err : p_err s = None;
  g_reg : p_wait_reg s = p_rec s;
  g_frees : p_frees s = if p_rec s then 0 else 1;
  g_dead : p_dead s = true -> p_kid s = Reaped;
  g_reaped : p_kid s = Reaped -> p_rec s = true -> p_dead s = true;
  g_open : p_parent s = true -> p_timer s = None /\ p_reqchild s = p_rec s;
  g_closed : p_parent s = false -> (p_rec s = true <-> p_timer s <> None);
  g_queue : forall st, In st (p_queue s) -> is_dead st = true -> p_dead s = true;
  g_freed : p_rec s = false -> p_kid s = Reaped
}.

(* what the kernel still has to report *)
Definition KP (s : pstate) : Prop :=
  match p_kid s with
  | Alive => nondead (p_kpend s)
  | Zombie => exists pre st, p_kpend s = pre ++ [st] /\ is_dead st = true /\ nondead pre
  | Reaped => p_kpend s = []
  end.

Lemma good_submitted : forall now, Good (submitted now).
Proof.
  intro now. constructor; simpl; auto; try discriminate; try (intros; contradiction).
Qed.

Lemma kp_submitted : forall now, KP (submitted now).
Proof. intro. unfold KP. simpl. constructor. Qed.

Lemma prun_app : forall strict xs ys c,
  prun strict c (xs ++ ys) = match prun strict c xs with Some c' => prun strict c' ys | None => None end.
Proof.
  induction xs as [|x r IH]; simpl; intros; [reflexivity|]. destruct (pstep strict c x); [apply IH|reflexivity].
Qed.

Section Strictness.
(* strict = true: signal times are checked for equality with the due time (prompt loop) *)
Variable strict : bool.

(* the log (newest first) is accepted and leads to the phase of the state *)
Definition Logged (s : pstate) : Prop := prun strict (COpen false) (rev (p_log s)) = Some (phase_of s).

(* a prompt loop never lets the clock pass the expiry of the registered timer *)
Definition Prompt (s : pstate) : Prop := strict = true -> forall e, p_timer s = Some e -> p_now s <= e.

Lemma logged_same : forall s s', p_log s' = p_log s -> phase_of s' = phase_of s -> Logged s -> Logged s'.
Proof. unfold Logged. intros s s' E1 E2 H. rewrite E1, E2. exact H. Qed.

Lemma logged_push : forall s s' l, p_log s' = l :: p_log s -> pstep strict (phase_of s) l = Some (phase_of s') ->
  Logged s -> Logged s'.
Proof.
  unfold Logged. intros s s' l E1 E2 H. rewrite E1. simpl. rewrite prun_app, H. simpl. rewrite E2. reflexivity.
Qed.

Definition Ok (s : pstate) : Prop := Good s /\ Logged s.

(* ---------- iv_popen_running_child_wait ---------- *)
Lemma wait_handler_ok : forall s st, Ok s -> p_wait_reg s = true -> (is_dead st = true -> p_dead s = true) ->
  Ok (wait_handler s st) /\ p_dead (wait_handler s st) = p_dead s /\ p_log (wait_handler s st) = p_log s /\
  p_kid (wait_handler s st) = p_kid s /\ p_kpend (wait_handler s st) = p_kpend s /\ p_now (wait_handler s st) = p_now s /\
  (p_timer (wait_handler s st) = p_timer s \/ p_timer (wait_handler s st) = None).
Proof.
  intros s st [G L] Hreg Hd. destruct G as [G1 G2 G3 G4 G5 G6 G7 G8 G9].
  assert (Hrec : p_rec s = true) by (rewrite <- G2; exact Hreg).
  unfold wait_handler. rewrite Hrec. simpl. destruct (is_dead st) eqn:Ed; simpl.
  2:{ split; [split; [constructor; assumption|exact L]|repeat split; try reflexivity; left; reflexivity]. }
  specialize (Hd eq_refl). pose proof (G4 Hd) as Hk.
  destruct (p_parent s) eqn:Ep.
  - destruct (G6 eq_refl) as [Ht Hq].
    split; [split|repeat split; try reflexivity; left; reflexivity].
    + constructor; simpl; rewrite ?Hrec, ?Ep; auto; try discriminate; try (intros; contradiction).
      rewrite G3, Hrec. reflexivity.
    + eapply logged_same; [| |exact L]; [reflexivity|]. unfold phase_of. simpl. rewrite Ep. reflexivity.
  - destruct (G7 eq_refl) as [Hc _]. destruct (p_timer s) as [e|] eqn:Et; [|exfalso; apply (Hc Hrec); reflexivity].
    split; [split|repeat split; try reflexivity; right; reflexivity].
    + constructor; simpl; rewrite ?Hrec, ?Ep; auto; try discriminate; try (intros; contradiction).
      * rewrite G3, Hrec. reflexivity.
      * intro. split; [intro; discriminate|intro H0; exfalso; apply H0; reflexivity].
    + eapply logged_same; [| |exact L]; [reflexivity|]. unfold phase_of. simpl. rewrite Ep, Hrec, Hd. reflexivity.
Qed.

Lemma deliver_ok : forall evs s, Ok s -> (forall st, In st evs -> is_dead st = true -> p_dead s = true) ->
  Ok (deliver s evs) /\ p_log (deliver s evs) = p_log s /\ p_kid (deliver s evs) = p_kid s /\
  p_kpend (deliver s evs) = p_kpend s /\ p_now (deliver s evs) = p_now s /\
  (p_timer (deliver s evs) = p_timer s \/ p_timer (deliver s evs) = None).
Proof.
  induction evs as [|st r IH]; simpl; intros s HO Hd; [split; [exact HO|repeat split; try reflexivity; left; reflexivity]|].
  destruct (p_wait_reg s) eqn:Er; [|split; [exact HO|repeat split; try reflexivity; left; reflexivity]].
  destruct (wait_handler_ok s st HO Er (Hd st (or_introl eq_refl))) as [HO' [Edd [El [Ek [Ep [En Et]]]]]].
  destruct (IH (wait_handler s st) HO') as [A [B [C [D [E F]]]]].
  { intros x Hx Hdx. rewrite Edd. apply (Hd x); [right; exact Hx|exact Hdx]. }
  split; [exact A|]. repeat split; try congruence.
  destruct F as [F|F]; [|right; exact F]. destruct Et as [Et|Et]; [left|right]; congruence.
Qed.

Lemma completion_ok : forall s, Ok s ->
  Ok (completion s) /\ p_log (completion s) = p_log s /\ p_kid (completion s) = p_kid s /\
  p_kpend (completion s) = p_kpend s /\ p_now (completion s) = p_now s /\
  (p_timer (completion s) = p_timer s \/ p_timer (completion s) = None).
Proof.
  intros s HO. unfold completion. destruct (p_wait_reg s) eqn:Er; [|split; [exact HO|repeat split; try reflexivity; left; reflexivity]].
  destruct HO as [G L]. pose proof (g_queue s G) as GQ.
  match goal with |- context [deliver ?s0 _] => set (s0' := s0) end.
  assert (HO0 : Ok s0').
  { destruct G as [G1 G2 G3 G4 G5 G6 G7 G8 G9]. split.
    - constructor; simpl; auto; try (intros; contradiction). rewrite <- G2. symmetry. exact Er.
    - eapply logged_same; [| |exact L]; reflexivity. }
  destruct (deliver_ok (p_queue s) s0' HO0) as [A [B [C [D [E F]]]]]; [exact GQ|].
  split; [exact A|]. repeat split; assumption.
Qed.

(* ---------- iv_popen_running_child_timer ---------- *)
Lemma timer_handler_ok : forall s e, Ok s -> p_timer s = Some e -> e <= p_now s -> (strict = true -> e = p_now s) ->
  Ok (timer_handler s) /\ p_kid (timer_handler s) = p_kid s /\ p_kpend (timer_handler s) = p_kpend s /\
  p_now (timer_handler s) = p_now s /\
  (p_timer (timer_handler s) = None \/ p_timer (timer_handler s) = Some (p_now s + INTERVAL)).
Proof.
  intros s e [G L] Ht Hle Hst. destruct G as [G1 G2 G3 G4 G5 G6 G7 G8 G9].
  assert (Hp : p_parent s = false).
  { destruct (p_parent s) eqn:Ep; [|reflexivity]. destruct (G6 eq_refl) as [A _]. rewrite A in Ht. discriminate. }
  assert (Hrec : p_rec s = true).
  { apply (G7 Hp). rewrite Ht. discriminate. }
  unfold timer_handler. rewrite Hrec. simpl. destruct (p_dead s) eqn:Ed.
  - split; [split|repeat split; try reflexivity; left; reflexivity].
    + constructor; simpl; rewrite ?Hp; auto; try discriminate; try (intros; contradiction).
      * rewrite G3, Hrec. reflexivity.
      * intro. split; [intro; discriminate|intro H0; exfalso; apply H0; reflexivity].
    + eapply logged_same; [| |exact L]; [reflexivity|]. unfold phase_of. simpl. rewrite Hp, Hrec, Ed. reflexivity.
  - split; [split|repeat split; try reflexivity; right; reflexivity].
    + constructor; simpl; rewrite ?Hp, ?Hrec; auto; try discriminate.
      * rewrite G2. exact Hrec.
      * rewrite G3, Hrec. reflexivity.
      * intro. split; [intro; discriminate|intro; reflexivity].
    + eapply logged_push; [reflexivity| |exact L]. unfold phase_of. simpl. rewrite Hp, Hrec, Ed, Ht. simpl.
      assert (Hc : (if strict then e =? p_now s else e <=? p_now s) = true).
      { destruct strict; [apply Z.eqb_eq; apply Hst; reflexivity|apply Z.leb_le; exact Hle]. }
      rewrite Hc. unfold expected_sig. rewrite Z.eqb_refl. reflexivity.
Qed.

(* ---------- iv_popen_request_close ---------- *)
Lemma close_ok : forall s, Ok s ->
  Ok (close s) /\ p_kid (close s) = p_kid s /\ p_kpend (close s) = p_kpend s /\ p_now (close s) = p_now s /\
  (p_timer (close s) = p_timer s \/ p_timer (close s) = Some (p_now s)).
Proof.
  intros s [G L]. unfold close. destruct (p_parent s) eqn:Ep; [|split; [split; assumption|repeat split; try reflexivity; left; reflexivity]].
  destruct G as [G1 G2 G3 G4 G5 G6 G7 G8 G9]. destruct (G6 Ep) as [Ht Hq].
  destruct (p_reqchild s) eqn:Eq.
  - assert (Hrec : p_rec s = true) by (rewrite <- Hq; reflexivity). rewrite Hrec. simpl.
    split; [split|repeat split; try reflexivity; right; reflexivity].
    + constructor; simpl; rewrite ?Hrec; auto; try discriminate.
      * rewrite G2. exact Hrec.
      * rewrite G3, Hrec. reflexivity.
      * intro. split; [intro; discriminate|intro; reflexivity].
    + eapply logged_push; [reflexivity| |exact L]. unfold phase_of. simpl. rewrite Ep.
      destruct (p_kid s) eqn:Ek; simpl.
      * destruct (p_dead s) eqn:Ed; [discriminate (G4 eq_refl)|reflexivity].
      * destruct (p_dead s) eqn:Ed; [discriminate (G4 eq_refl)|reflexivity].
      * rewrite (G5 eq_refl Hrec). reflexivity.
  - assert (Hrec : p_rec s = false) by (rewrite <- Hq; reflexivity).
    split; [split|repeat split; try reflexivity; left; reflexivity].
    + constructor; simpl; rewrite ?Hrec; auto; try discriminate.
      * rewrite G2. exact Hrec.
      * rewrite G3, Hrec. reflexivity.
      * intro. rewrite Ht. split; [intro; discriminate|intro H0; exfalso; apply H0; reflexivity].
    + eapply logged_push; [reflexivity| |exact L]. unfold phase_of. simpl. rewrite Ep, Hrec, (G9 Hrec). reflexivity.
Qed.

(* ---------- the reaper ---------- *)
Lemma phase_not_done : forall s, Good s -> p_kid s <> Reaped -> phase_of s <> CDone /\ is_reaped (p_kid s) = false /\ p_dead s = false.
Proof.
  intros s [G1 G2 G3 G4 G5 G6 G7 G8 G9] Hk.
  assert (Hd : p_dead s = false) by (destruct (p_dead s) eqn:E; [exfalso; apply Hk; apply G4; reflexivity|reflexivity]).
  assert (Hr : p_rec s = true) by (destruct (p_rec s) eqn:E; [reflexivity|exfalso; apply Hk; apply G9; reflexivity]).
  split; [|split; [destruct (p_kid s); try reflexivity; exfalso; apply Hk; reflexivity|exact Hd]].
  unfold phase_of. destruct (p_parent s) eqn:Ep; [discriminate|]. rewrite Hr, Hd. simpl.
  destruct (p_timer s) eqn:Et; [discriminate|]. exfalso. apply (proj1 (G7 eq_refl) Hr). reflexivity.
Qed.

Lemma reap1_nondead_ok : forall s st, Ok s -> p_kid s <> Reaped -> is_dead st = false ->
  Ok (reap1 s st) /\ p_kid (reap1 s st) = p_kid s /\ p_now (reap1 s st) = p_now s.
Proof.
  intros s st [G L] Hk Hd. destruct (phase_not_done s G Hk) as [Hph [Hr Hdd]].
  split; [|split; [unfold reap1; simpl; rewrite Hd; reflexivity|reflexivity]]. split.
  - destruct G as [G1 G2 G3 G4 G5 G6 G7 G8 G9]. unfold reap1. constructor; simpl; rewrite ?Hd, ?andb_false_r, ?orb_false_r; auto.
    intros x Hx Hxd. destruct (p_wait_reg s && negb (p_dead s)); [|apply (G8 x); assumption].
    apply in_app_or in Hx. destruct Hx as [Hx|[<-|[]]]; [apply (G8 x); assumption|congruence].
  - eapply logged_push; [reflexivity| |exact L].
    assert (E : phase_of (reap1 s st) = phase_of s).
    { unfold phase_of, reap1. simpl. rewrite Hd, andb_false_r, orb_false_r. reflexivity. }
    rewrite E. destruct (phase_of s) as [d|due k|] eqn:Eph.
    + unfold phase_of in Eph. destruct (p_parent s); [|destruct (p_rec s && negb (p_dead s)); [destruct (p_timer s)|]; discriminate].
      inversion Eph; subst. rewrite Hr. simpl. rewrite Hd. reflexivity.
    + simpl. rewrite Hd. reflexivity.
    + exfalso. apply Hph. reflexivity.
Qed.

Lemma reap1_dead_ok : forall s st, Ok s -> p_kid s <> Reaped -> is_dead st = true ->
  Ok (reap1 s st) /\ p_kid (reap1 s st) = Reaped /\ p_now (reap1 s st) = p_now s.
Proof.
  intros s st [G L] Hk Hd. destruct (phase_not_done s G Hk) as [Hph [Hr Hdd]].
  split; [|split; [unfold reap1; simpl; rewrite Hd; reflexivity|reflexivity]].
  destruct G as [G1 G2 G3 G4 G5 G6 G7 G8 G9].
  assert (Hrec : p_rec s = true) by (destruct (p_rec s) eqn:E; [reflexivity|exfalso; apply Hk; apply G9; reflexivity]).
  assert (Hreg : p_wait_reg s = true) by (rewrite G2; exact Hrec).
  split.
  - unfold reap1. constructor; simpl; rewrite ?Hd, ?Hdd, ?Hreg; simpl; auto.
  - eapply logged_push; [reflexivity| |exact L]. unfold phase_of, reap1. simpl. rewrite Hd, Hdd, Hreg, Hrec. simpl.
    destruct (p_parent s) eqn:Ep.
    + rewrite Hr. simpl. rewrite Hd. reflexivity.
    + destruct (p_timer s) eqn:Et; [simpl; rewrite Hd; reflexivity|]. exfalso. apply (proj1 (G7 eq_refl) Hrec). reflexivity.
Qed.

Lemma fold_nondead : forall l s, Ok s -> p_kid s <> Reaped -> nondead l ->
  Ok (fold_left reap1 l s) /\ p_kid (fold_left reap1 l s) = p_kid s /\ p_now (fold_left reap1 l s) = p_now s.
Proof.
  induction l as [|st r IH]; simpl; intros s HO Hk Hn; [auto|]. inversion Hn; subst.
  destruct (reap1_nondead_ok s st HO Hk H1) as [A [B C]].
  destruct (IH (reap1 s st) A) as [A' [B' C']]; [rewrite B; exact Hk|exact H2|].
  split; [exact A'|]. split; congruence.
Qed.

Lemma nondead_app : forall a b, nondead (a ++ b) <-> nondead a /\ nondead b.
Proof. intros. unfold nondead. apply Forall_app. Qed.

Definition clear_kpend (s : pstate) : pstate :=
  {| p_rec := p_rec s; p_parent := p_parent s; p_reqchild := p_reqchild s; p_timer := p_timer s; p_kills := p_kills s;
     p_wait_reg := p_wait_reg s; p_dead := p_dead s; p_queue := p_queue s; p_kid := p_kid s; p_kpend := [];
     p_now := p_now s; p_frees := p_frees s; p_err := p_err s; p_log := p_log s |}.

Lemma clear_ok : forall s, Ok s -> Ok (clear_kpend s).
Proof.
  intros s [[G1 G2 G3 G4 G5 G6 G7 G8 G9] L]. split; [constructor; simpl; auto|].
  eapply logged_same; [| |exact L]; reflexivity.
Qed.

Lemma reap_all_ok : forall s, Ok s -> KP s -> Ok (reap_all s) /\ KP (reap_all s) /\ p_now (reap_all s) = p_now s.
Proof.
  intros s HO HK. change (reap_all s) with (clear_kpend (fold_left reap1 (p_kpend s) s)).
  unfold KP in HK. destruct (p_kid s) eqn:Ek.
  - destruct (fold_nondead (p_kpend s) s HO) as [A [B C]]; [rewrite Ek; discriminate|exact HK|].
    split; [apply clear_ok; exact A|]. split; [|exact C]. unfold KP. cbn [clear_kpend p_kid p_kpend]. rewrite B, Ek. constructor.
  - destruct HK as [pre [st [E [Hd Hn]]]]. rewrite E, fold_left_app. simpl.
    destruct (fold_nondead pre s HO) as [A [B C]]; [rewrite Ek; discriminate|exact Hn|].
    destruct (reap1_dead_ok (fold_left reap1 pre s) st A) as [A' [B' C']]; [rewrite B, Ek; discriminate|exact Hd|].
    split; [apply clear_ok; exact A'|]. split; [|cbn [clear_kpend p_now]; congruence]. unfold KP. cbn [clear_kpend p_kid p_kpend]. rewrite B'. reflexivity.
  - rewrite HK. simpl. split; [apply clear_ok; exact HO|]. split; [|reflexivity]. unfold KP. simpl. rewrite Ek. reflexivity.
Qed.

(* ---------- the child, the clock ---------- *)
Lemma child_change_ok : forall s st, Ok s -> KP s -> Ok (child_change s st) /\ KP (child_change s st) /\ p_now (child_change s st) = p_now s.
Proof.
  intros s st [G L] HK. unfold child_change. unfold KP in HK. destruct (p_kid s) eqn:Ek.
  - split; [split|split; [|reflexivity]].
    + destruct G as [G1 G2 G3 G4 G5 G6 G7 G8 G9]. constructor; simpl; auto.
      * intro Hd. specialize (G4 Hd). rewrite Ek in G4. discriminate.
      * intro H0. destruct (is_dead st); discriminate.
      * intro Hr. specialize (G9 Hr). rewrite Ek in G9. discriminate.
    + eapply logged_same; [| |exact L]; [reflexivity|]. unfold phase_of. simpl. rewrite Ek. destruct (is_dead st); reflexivity.
    + unfold KP. simpl. destruct (is_dead st) eqn:Ed.
      * exists (p_kpend s), st. repeat split; auto.
      * apply nondead_app. split; [exact HK|constructor; [exact Ed|constructor]].
  - split; [split; assumption|]. split; [unfold KP; rewrite Ek; exact HK|reflexivity].
  - split; [split; assumption|]. split; [unfold KP; rewrite Ek; exact HK|reflexivity].
Qed.

Lemma advance_ok : forall s dt, Ok s -> KP s -> Ok (advance s dt) /\ KP (advance s dt).
Proof.
  intros s dt [[G1 G2 G3 G4 G5 G6 G7 G8 G9] L] HK. split; [split; [constructor; simpl; auto|]|exact HK].
  eapply logged_same; [| |exact L]; reflexivity.
Qed.

Lemma kp_transfer : forall s s', p_kid s' = p_kid s -> p_kpend s' = p_kpend s -> KP s -> KP s'.
Proof. unfold KP. intros s s' E1 E2 H. rewrite E1, E2. exact H. Qed.

Lemma fold_reap1_timer : forall l s, p_timer (fold_left reap1 l s) = p_timer s /\ p_now (fold_left reap1 l s) = p_now s.
Proof.
  induction l as [|st r IH]; simpl; intro s; [split; reflexivity|]. destruct (IH (reap1 s st)) as [A B]. split; [rewrite A|rewrite B]; reflexivity.
Qed.

Lemma reap_all_timer : forall s, p_timer (reap_all s) = p_timer s /\ p_now (reap_all s) = p_now s.
Proof. intro s. unfold reap_all. simpl. apply fold_reap1_timer. Qed.

Lemma child_change_timer : forall s st, p_timer (child_change s st) = p_timer s /\ p_now (child_change s st) = p_now s.
Proof. intros s st. unfold child_change. destruct (p_kid s); split; reflexivity. Qed.

(* the oracle's clock steps: arbitrary when not strict, never past the timer's expiry when strict *)
Definition adv_ok (s : pstate) (e : env) : Prop :=
  match e with
  | EAdvance dt => strict = true -> forall ex, p_timer s = Some ex -> p_now s + Z.max 0 dt <= ex
  | _ => True
  end.

Theorem estep_ok : forall s e, Ok s -> KP s -> Prompt s -> adv_ok s e ->
  Ok (estep s e) /\ KP (estep s e) /\ Prompt (estep s e).
Proof.
  intros s e HO HK HP HA. unfold estep. rewrite (g_err s (proj1 HO)). destruct e.
  - destruct (child_change_ok s st HO HK) as [A [B _]]. split; [exact A|]. split; [exact B|].
    destruct (child_change_timer s st) as [T N]. intros Hs ex Hex. rewrite T in Hex. rewrite N. apply HP; assumption.
  - destruct (reap_all_ok s HO HK) as [A [B _]]. split; [exact A|]. split; [exact B|].
    destruct (reap_all_timer s) as [T N]. intros Hs ex Hex. rewrite T in Hex. rewrite N. apply HP; assumption.
  - destruct (p_queue s) eqn:Eq; [split; [assumption|split; assumption]|].
    destruct (completion_ok s HO) as [A [_ [C [D [N T]]]]]. split; [exact A|]. split; [eapply kp_transfer; eauto|].
    intros Hs ex Hex. rewrite N. destruct T as [T|T]; rewrite T in Hex; [apply HP; assumption|discriminate].
  - destruct (p_timer s) as [ex|] eqn:Et; [|split; [assumption|split; assumption]].
    destruct (ex <=? p_now s) eqn:El; [|split; [assumption|split; assumption]].
    apply Z.leb_le in El.
    assert (Hst : strict = true -> ex = p_now s).
    { intro Hs. pose proof (HP Hs ex Et). lia. }
    destruct (timer_handler_ok s ex HO Et El Hst) as [A [C [D [N T]]]]. split; [exact A|]. split; [eapply kp_transfer; eauto|].
    intros Hs e' He'. rewrite N. destruct T as [T|T]; rewrite T in He'; [discriminate|]. inversion He'. unfold INTERVAL. lia.
  - destruct (advance_ok s dt HO HK) as [A B]. split; [exact A|]. split; [exact B|].
    intros Hs ex Hex. simpl in *. apply HA; assumption.
  - destruct (close_ok s HO) as [A [C [D [N T]]]]. split; [exact A|]. split; [eapply kp_transfer; eauto|].
    intros Hs ex Hex. rewrite N. destruct T as [T|T]; rewrite T in Hex; [apply HP; assumption|]. inversion Hex. lia.
Qed.

(* the oracle respects adv_ok at every step *)
Fixpoint oracle_ok (s : pstate) (o : list env) : Prop :=
  match o with
  | [] => True
  | e :: r => adv_ok s e /\ oracle_ok (estep s e) r
  end.

Theorem erun_ok : forall o s, Ok s -> KP s -> Prompt s -> oracle_ok s o ->
  Ok (erun s o) /\ KP (erun s o) /\ Prompt (erun s o).
Proof.
  unfold erun. induction o as [|e r IH]; simpl; intros s HO HK HP HA; [split; [assumption|split; assumption]|].
  destruct HA as [HA1 HA2]. destruct (estep_ok s e HO HK HP HA1) as [A [B C]]. apply IH; assumption.
Qed.

Lemma ok_submitted : forall now, Ok (submitted now).
Proof. intro now. split; [apply good_submitted|reflexivity]. Qed.

Lemma prompt_submitted : forall now, Prompt (submitted now).
Proof. intros now Hs e He. simpl in He. discriminate. Qed.

End Strictness.

Lemma oracle_ok_nonstrict : forall o s, oracle_ok false s o.
Proof. induction o as [|e r IH]; simpl; intro s; [exact I|]. split; [destruct e; simpl; auto; intro; discriminate|apply IH]. Qed.

(* ---------- C19_escalation: what an accepted event sequence looks like ---------- *)
Fixpoint kills_of (ls : list plabel) : list (Z * Z) :=
  match ls with
  | [] => []
  | PKill sig now :: r => (sig, now) :: kills_of r
  | _ :: r => kills_of r
  end.

(* the k-th, k+1-th, ... signals: expected signal number, not before its due time (exactly then when strict), the next due INTERVAL later *)
Fixpoint esc_ok (strict : bool) (due k : Z) (kl : list (Z * Z)) : Prop :=
  match kl with
  | [] => True
  | (sig, now) :: r => sig = expected_sig k /\ due <= now /\ (strict = true -> now = due) /\ esc_ok strict (now + INTERVAL) (k + 1) r
  end.

Lemma prun_done_nokill : forall strict ls c, prun strict CDone ls = Some c -> kills_of ls = [] /\ c = CDone.
Proof.
  induction ls as [|l r IH]; simpl; intros c H; [inversion H; auto|].
  destruct l; simpl in H; try discriminate. destruct (nobjs =? 0); [|discriminate]. apply IH. exact H.
Qed.

Lemma prun_closing_esc : forall strict ls due k c, prun strict (CClosing due k) ls = Some c -> esc_ok strict due k (kills_of ls).
Proof.
  induction ls as [|l r IH]; simpl; intros due k c H; [exact I|].
  destruct l; simpl in H; try discriminate.
  - destruct ((if strict then due =? now else due <=? now) && (sig =? expected_sig k)) eqn:E; [|discriminate].
    apply andb_true_iff in E. destruct E as [E1 E2]. zb. subst. simpl.
    split; [reflexivity|]. split; [destruct strict; zb; lia|]. split; [intro Hs; subst; zb; lia|]. eapply IH. exact H.
  - destruct (is_dead st).
    + destruct (prun_done_nokill strict r c H) as [-> _]. exact I.
    + eapply IH. exact H.
Qed.

(* before the close no signal; from the close on the escalation schedule, starting with due = time of the close *)
Fixpoint split_close (ls : list plabel) : option (list plabel * Z * list plabel) :=
  match ls with
  | [] => None
  | PClose t :: r => Some ([], t, r)
  | l :: r => match split_close r with Some (pre, t, post) => Some (l :: pre, t, post) | None => None end
  end.

Lemma escalation_accepted : forall strict ls d c, prun strict (COpen d) ls = Some c ->
  match split_close ls with
  | None => kills_of ls = []
  | Some (pre, t, post) => kills_of pre = [] /\ esc_ok strict t 0 (kills_of post)
  end.
Proof.
  induction ls as [|l r IH]; simpl; intros d c H; [reflexivity|].
  destruct l; simpl in H.
  - destruct d.
    + destruct (prun_done_nokill strict r c H) as [E _]. split; [reflexivity|]. rewrite E. exact I.
    + split; [reflexivity|]. eapply prun_closing_esc. exact H.
  - destruct d; discriminate.
  - destruct d; [discriminate|]. specialize (IH _ _ H). destruct (split_close r) as [[[pre t] post]|]; simpl; exact IH.
  - destruct (nobjs =? 0); [|destruct d; discriminate]. assert (H' : prun strict (COpen d) r = Some c) by (destruct d; exact H).
    specialize (IH _ _ H'). destruct (split_close r) as [[[pre t] post]|]; simpl; exact IH.
Qed.

(* the n-th signal after the close (n = 0, 1, ...): SIGTERM for n < 5, then SIGKILL; not before close + 5 s * n, exactly then when strict *)
Lemma esc_nth : forall strict kl due k n sig now, esc_ok strict due k kl -> 0 <= k -> nth_error kl n = Some (sig, now) ->
  sig = expected_sig (k + Z.of_nat n) /\ due + Z.of_nat n * INTERVAL <= now /\ (strict = true -> now = due + Z.of_nat n * INTERVAL).
Proof.
  induction kl as [|[sg nw] r IH]; intros due k n sig now H Hk Hn; [destruct n; discriminate|].
  destruct H as [H1 [H2 [H3 H4]]]. destruct n as [|n]; simpl in Hn.
  - inversion Hn; subst. change (Z.of_nat 0) with 0. rewrite Z.add_0_r. split; [reflexivity|]. split; [lia|]. intro Hs. rewrite (H3 Hs). lia.
  - destruct (IH _ _ _ _ _ H4 ltac:(lia) Hn) as [A [B C]]. rewrite Nat2Z.inj_succ. unfold INTERVAL in *. split; [|split].
    + rewrite A. f_equal. lia.
    + lia.
    + intro Hs. rewrite (C Hs), (H3 Hs). lia.
Qed.

Lemma expected_sig_spec : forall n, 0 <= n -> expected_sig n = if n <? 5 then SIGTERM else SIGKILL.
Proof. intros. reflexivity. Qed.

(* ---------- the sequential model's events are accepted, for every oracle ---------- *)
Theorem model_trace_accepted : forall now o,
  pcheck false (rev (p_log (erun (submitted now) o))) = true /\ p_err (erun (submitted now) o) = None.
Proof.
  intros now o. destruct (erun_ok false o (submitted now) (ok_submitted false now) (kp_submitted now) (prompt_submitted false now)
    (oracle_ok_nonstrict o (submitted now))) as [[G L] _].
  split; [unfold pcheck; unfold Logged in L; rewrite L; reflexivity|apply (g_err _ G)].
Qed.

(* with a prompt loop (the clock never passes the expiry of the registered timer) the times are exact *)
Theorem model_trace_accepted_strict : forall now o, oracle_ok true (submitted now) o ->
  pcheck true (rev (p_log (erun (submitted now) o))) = true.
Proof.
  intros now o Ho. destruct (erun_ok true o (submitted now) (ok_submitted true now) (kp_submitted now) (prompt_submitted true now) Ho) as [[G L] _].
  unfold pcheck. unfold Logged in L. rewrite L. reflexivity.
Qed.

(* ---------- C19_no_signal_after_reap ---------- *)
Definition is_kill (l : plabel) : bool := match l with PKill _ _ => true | _ => false end.

Lemma estep_reaped : forall s e, Ok false s -> KP s -> p_kid s = Reaped ->
  p_kid (estep s e) = Reaped /\ filter is_kill (p_log (estep s e)) = filter is_kill (p_log s).
Proof.
  intros s e HO HK Hk. pose proof (proj1 HO) as G. unfold estep. rewrite (g_err s G). destruct e.
  - unfold child_change. rewrite Hk. auto.
  - unfold KP in HK. rewrite Hk in HK. unfold reap_all. rewrite HK. simpl. auto.
  - destruct (p_queue s) eqn:Eq; [auto|]. destruct (completion_ok false s HO) as [_ [A [B _]]]. rewrite A, B. auto.
  - destruct (p_timer s) as [ex|] eqn:Et; [|auto]. destruct (ex <=? p_now s) eqn:El; [|auto]. apply Z.leb_le in El.
    destruct (timer_handler_ok false s ex HO Et El ltac:(intro; discriminate)) as [_ [A _]]. split; [rewrite A; exact Hk|].
    destruct G as [G1 G2 G3 G4 G5 G6 G7 G8 G9].
    assert (Hp : p_parent s = false).
    { destruct (p_parent s) eqn:Ep; [|reflexivity]. destruct (G6 eq_refl) as [X _]. rewrite X in Et. discriminate. }
    assert (Hrec : p_rec s = true) by (apply (G7 Hp); rewrite Et; discriminate).
    unfold timer_handler. rewrite Hrec, (G5 Hk Hrec). reflexivity.
  - auto.
  - destruct (close_ok false s HO) as [_ [A _]]. split; [rewrite A; exact Hk|].
    unfold close. destruct (p_parent s); [|reflexivity]. destruct (p_reqchild s); [destruct (p_rec s)|]; reflexivity.
Qed.

Theorem no_signal_after_reap : forall now o1 o2,
  p_kid (erun (submitted now) o1) = Reaped ->
  filter is_kill (p_log (erun (submitted now) (o1 ++ o2))) = filter is_kill (p_log (erun (submitted now) o1)).
Proof.
  intros now o1 o2 Hk. unfold erun in *. rewrite fold_left_app.
  destruct (erun_ok false o1 (submitted now) (ok_submitted false now) (kp_submitted now) (prompt_submitted false now)
    (oracle_ok_nonstrict o1 (submitted now))) as [HO [HK HP]]. unfold erun in *.
  remember (fold_left estep o1 (submitted now)) as s1. clear Heqs1.
  revert s1 HO HK HP Hk. induction o2 as [|e r IH]; simpl; intros s1 HO HK HP Hk; [reflexivity|].
  destruct (estep_reaped s1 e HO HK Hk) as [A B].
  destruct (estep_ok false s1 e HO HK HP) as [HO' [HK' HP']]; [destruct e; simpl; auto; intro; discriminate|].
  rewrite (IH (estep s1 e) HO' HK' HP' A). exact B.
Qed.

(* ---------- C19_released ---------- *)
Theorem released : forall now o, let s := erun (submitted now) o in
  p_err s = None /\ p_frees s <= 1 /\
  (p_rec s = false -> p_wait_reg s = false /\ p_timer s = None /\ objs s = 0 /\ p_frees s = 1 /\ p_kid s = Reaped) /\
  (p_parent s = false -> p_rec s = true -> p_timer s <> None) /\
  (p_parent s = false -> p_kid s = Reaped -> p_rec s = true ->
     forall e, p_timer s = Some e -> e <= p_now s ->
       p_rec (timer_handler s) = false /\ objs (timer_handler s) = 0 /\ p_log (timer_handler s) = p_log s /\ p_frees (timer_handler s) = 1).
Proof.
  intros now o s. destruct (erun_ok false o (submitted now) (ok_submitted false now) (kp_submitted now) (prompt_submitted false now)
    (oracle_ok_nonstrict o (submitted now))) as [[G L] _]. fold s in G. destruct G as [G1 G2 G3 G4 G5 G6 G7 G8 G9].
  split; [exact G1|]. split; [rewrite G3; destruct (p_rec s); lia|]. split; [|split].
  - intro Hr. assert (Ht : p_timer s = None).
    { destruct (p_parent s) eqn:Ep; [apply (G6 eq_refl)|]. destruct (p_timer s) eqn:Et; [|reflexivity].
      assert (p_rec s = true) by (apply (G7 eq_refl); discriminate). congruence. }
    repeat split; auto; try congruence.
    + unfold objs. rewrite G2, Hr, Ht. reflexivity.
    + rewrite G3, Hr. reflexivity.
  - intros Hp Hr. apply (G7 Hp). exact Hr.
  - intros Hp Hk Hr e Ht Hle. unfold timer_handler. rewrite Hr, (G5 Hk Hr). simpl. repeat split.
    rewrite G3, Hr. reflexivity.
Qed.

(* ---------- C19_submit_result (transcription) ---------- *)
Lemma submit_result : forall pr pw dn, 2 < pr -> 2 < pw -> 2 < dn -> pr <> pw -> pr <> dn -> pw <> dn ->
  (* type "r": the parent gets the read end and no longer holds the write end; the child has the write end on fd 1,
     /dev/null on fd 0 and fd 2, and none of the three temporaries *)
  (fst (parent_script true pr pw) = pr /\ snd (parent_script true pr pw) pr = Some PipeR /\ snd (parent_script true pr pw) pw = None /\
   child_script true pr pw dn 1 = Some PipeW /\ child_script true pr pw dn 0 = Some DevNull /\ child_script true pr pw dn 2 = Some DevNull /\
   child_script true pr pw dn pr = None /\ child_script true pr pw dn pw = None /\ child_script true pr pw dn dn = None) /\
  (* type "w": mirrored *)
  (fst (parent_script false pr pw) = pw /\ snd (parent_script false pr pw) pw = Some PipeW /\ snd (parent_script false pr pw) pr = None /\
   child_script false pr pw dn 0 = Some PipeR /\ child_script false pr pw dn 1 = Some DevNull /\ child_script false pr pw dn 2 = Some DevNull /\
   child_script false pr pw dn pr = None /\ child_script false pr pw dn pw = None /\ child_script false pr pw dn dn = None).
Proof.
  intros pr pw dn H1 H2 H3 H4 H5 H6.
  assert (E : forall a b : Z, a <> b -> (a =? b) = false) by (intros; apply Z.eqb_neq; assumption).
  unfold parent_script, child_script, after_pipe, dup2, tclose, tset. cbn [fst snd].
  repeat match goal with
  | |- context [Z.eqb ?a ?b] =>
      first [ rewrite (E a b) by lia | replace (Z.eqb a b) with true by (symmetry; apply Z.eqb_eq; lia) ]
  end.
  lazy beta iota. repeat split; reflexivity.
Qed.
