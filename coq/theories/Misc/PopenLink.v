(* PopenLink.v -- the escalation decision and the re-arm arithmetic of Misc/PopenModel.v ARE the code of src/iv_popen.c.
   gen/c2gallina.py (TYPED, class CTr) re-translates on every run, from the clang AST of the current source, with the C
   integer semantics explicit (Base/CSem.v; None = signed overflow):
     popen_signum       `signum = (ch->num_kills++ < MAX_SIGTERM_COUNT) ? SIGTERM : SIGKILL;`   iv_popen_running_child_timer
                        -> Some (signum, new num_kills)
     popen_rearm_sec    `ch->signal_timer.expires.tv_sec += SIGNAL_INTERVAL;`                   iv_popen_running_child_timer
     popen_close_kills  `ch->num_kills = 0;`                                                    iv_popen_request_close
   into Gen/LeafPopen.v (macros are expanded by clang: the constants 5, 15, 9, 5 are those of the current source and
   of the system's <signal.h>).  Here they are proved equal to expected_sig / MAX_SIGTERM_COUNT / SIGTERM / SIGKILL /
   INTERVAL of the model, and the model's handler is shown to log exactly the translated signal and to store the
   translated counter.  The model's num_kills and times are unbounded integers; the C `int` counter overflows after
   2^31 signals (5 s apart: 340 years) and time_t after 2^63 s -- the ranges are hypotheses here.
   Not translated: `expires = iv_now` (struct assignment; the model re-arms at p_now + INTERVAL). *)
From Coq Require Import List ZArith Bool Lia.
From Ivv Require Import Base.CSem Gen.LeafPopen Misc.PopenModel.
Import ListNotations.
Local Open Scope Z_scope.

(* for EVERY int value of the counter: undefined exactly when the increment overflows, else the model's signal *)
Lemma leaf_signum_all : forall k,
  popen_signum k = if c_in_s 32 (k + 1) then Some (expected_sig k, k + 1) else None.
Proof.
  intros k. unfold popen_signum, c_chk_s, expected_sig, MAX_SIGTERM_COUNT, SIGTERM, SIGKILL.
  destruct (c_in_s 32 (k + 1)); reflexivity.
Qed.

Lemma leaf_signum : forall k, - 2 ^ 31 <= k + 1 < 2 ^ 31 -> popen_signum k = Some (expected_sig k, k + 1).
Proof.
  intros k H. rewrite leaf_signum_all. unfold c_in_s. change (2 ^ (32 - 1)) with (2 ^ 31).
  replace (- 2 ^ 31 <=? k + 1) with true by (symmetry; apply Z.leb_le; lia).
  replace (k + 1 <? 2 ^ 31) with true by (symmetry; apply Z.ltb_lt; lia). reflexivity.
Qed.

(* SIGTERM the first MAX_SIGTERM_COUNT = 5 times (counter 0..4), SIGKILL from then on *)
Lemma leaf_signum_values : forall k, 0 <= k < 2 ^ 31 - 1 ->
  popen_signum k = Some (if k <? 5 then 15 else 9, k + 1).
Proof. intros k H. rewrite leaf_signum by lia. reflexivity. Qed.

Lemma leaf_close_kills : popen_close_kills tt = Some 0.
Proof. reflexivity. Qed.

(* the re-arm: + 5 seconds = + INTERVAL nanoseconds *)
Lemma leaf_rearm : forall sec nsec, - 2 ^ 63 <= sec + 5 < 2 ^ 63 ->
  exists sec', popen_rearm_sec sec = Some sec' /\ sec' * 1000000000 + nsec = (sec * 1000000000 + nsec) + INTERVAL.
Proof.
  intros sec nsec H. exists (sec + 5). split; [|unfold INTERVAL; lia].
  unfold popen_rearm_sec, c_chk_s, c_in_s. change (2 ^ (64 - 1)) with (2 ^ 63).
  replace (- 2 ^ 63 <=? sec + 5) with true by (symmetry; apply Z.leb_le; lia).
  replace (sec + 5 <? 2 ^ 63) with true by (symmetry; apply Z.ltb_lt; lia). reflexivity.
Qed.

(* the model's timer handler stores the translated counter and, unless the termination has been reaped, logs the
   translated signal and re-arms INTERVAL later *)
Lemma timer_handler_is_the_code : forall s sig k',
  p_rec s = true -> popen_signum (p_kills s) = Some (sig, k') ->
  p_kills (timer_handler s) = k' /\
  (p_dead s = false ->
     p_log (timer_handler s) = PKill sig (p_now s) :: p_log s /\ p_timer (timer_handler s) = Some (p_now s + INTERVAL)).
Proof.
  intros s sig k' R H. rewrite leaf_signum_all in H.
  destruct (c_in_s 32 (p_kills s + 1)); [|discriminate]. inversion H; subst sig k'; clear H.
  unfold timer_handler. rewrite R. cbn [negb]. destruct (p_dead s) eqn:D.
  - split; [reflexivity|discriminate].
  - split; [reflexivity|]. intros _. split; reflexivity.
Qed.

(* iv_popen_request_close resets the counter to the translated value *)
Lemma close_is_the_code : forall s, p_parent s = true -> p_reqchild s = true -> p_rec s = true ->
  Some (p_kills (close s)) = popen_close_kills tt.
Proof. intros s P Q R. unfold close. rewrite P, Q, R. reflexivity. Qed.
