(* InotifyModel.v -- executable model of /repo/src/iv_inotify.c (property C20).
   No proofs in this file.

   What is modelled, after the C text:
     - the byte-level record format of struct inotify_event (wd: 4 bytes LE
       signed, mask / cookie / len: 4 bytes LE unsigned, then name[len]) and the
       parsing loop of iv_inotify_got_event working on the byte buffer that
       read() returned: header at `curr`, lookup by wd, advance by len + 16,
       stop at `end` or when the local `this` was nulled through ->term;
     - the instance: its set of watches keyed by wd.  The C code keeps them in
       the AVL tree of iv_avl.c (property C16 justifies the tree); here the set
       is the strictly sorted association list the tree represents.
       __find_watch searches it using the order (as the BST descent does),
       iv_avl_tree_insert refuses a duplicate key with -1, iv_avl_tree_delete
       removes the node of a given watch (and is an explicit outcome BadDelete
       when that node is not in the tree);
       A record whose len is not a multiple of 4 makes the next record
       misaligned (undefined behaviour in C, reported by UBSan): outcome
       Misaligned.  The kernel pads names to a multiple of 16;
     - the termination pointer ->term with three states: Uninit (the field of a
       freshly malloc'ed, poisoned struct), Null, Local (points to the local
       variable `this` of the running iv_inotify_got_event frame);
     - the local variable `this` of the (single) running got_event frame;
     - handler scripts: the harness' watch handler interprets a list of API
       calls; a script is chosen by (watch id, event cookie), so that a handler
       may act differently at every event;
     - object lifetime: every instance and every watch is an individually
       allocated struct.  The harness frees a struct at the earliest moment the
       API allows (right after its unregister call returned -- also inside
       handlers --, at handler entry for a watch that the library dropped as
       one-shot / IN_IGNORED, with its instance for a watch still registered
       when the instance is unregistered).  In the model a freed object is
       absent from its table and every read of an object goes through the
       table: a read of an absent object is the outcome UseAfterFree.

   API-misuse guards (the same in harness/inotify_drv.c; a guarded action is
   skipped and reports rc 1, as timer_drv.c does):
     - register instance i        only if i is not live;
     - unregister instance i      only if i is live;
     - register watch w on i      only if w has no struct and i is live;
     - unregister watch w         only if w has a struct, i.e. it is registered:
                                  NOT after the library dropped it (one-shot /
                                  IN_IGNORED), NOT after its instance was
                                  unregistered, NOT when its registration failed;
     - feed instance i            only if i is live.
   A handler script cannot call the instance's fd handler (no nested reads). *)

From Coq Require Import List ZArith Bool.
Import ListNotations.
Local Open Scope Z_scope.

Definition id := positive.

(* ---------- byte-level codec of struct inotify_event ---------- *)

Record event := { e_wd : Z; e_mask : Z; e_cookie : Z; e_name : list Z }.

(* 32-bit little endian; floor division/modulo give two's complement for v < 0 *)
Definition le32 (v : Z) : list Z :=
  [v mod 256; (v / 256) mod 256; (v / 65536) mod 256; (v / 16777216) mod 256].

Definition zlength (l : list Z) : Z := Z.of_nat (length l).

Definition encode_ev (e : event) : list Z :=
  le32 (e_wd e) ++ le32 (e_mask e) ++ le32 (e_cookie e) ++ le32 (zlength (e_name e)) ++ e_name e.

Definition encode (evs : list event) : list Z := flat_map encode_ev evs.

(* read a uint32_t at the head of the buffer; None = fewer than 4 bytes left *)
Definition get32 (l : list Z) : option (Z * list Z) :=
  match l with
  | b0 :: b1 :: b2 :: b3 :: r => Some (b0 + 256 * b1 + 65536 * b2 + 16777216 * b3, r)
  | _ => None
  end.

(* reinterpretation of a uint32_t as int (event->wd) *)
Definition sgn32 (u : Z) : Z := if 2147483648 <=? u then u - 4294967296 else u.

(* the four header fields at `curr`, and the bytes after the header *)
Definition parse_header (l : list Z) : option (Z * Z * Z * Z * list Z) :=
  match get32 l with
  | None => None
  | Some (wd, l1) =>
      match get32 l1 with
      | None => None
      | Some (mask, l2) =>
          match get32 l2 with
          | None => None
          | Some (cookie, l3) =>
              match get32 l3 with
              | None => None
              | Some (len, l4) => Some (sgn32 wd, mask, cookie, len, l4)
              end
          end
      end
  end.

(* pointer arithmetic on the buffer without going through nat *)
Fixpoint zskip (n : Z) (l : list Z) : list Z :=
  match l with
  | [] => []
  | x :: l' => if n <=? 0 then l else zskip (n - 1) l'
  end.

Fixpoint ztake (n : Z) (l : list Z) : list Z :=
  match l with
  | [] => []
  | x :: l' => if n <=? 0 then [] else x :: ztake (n - 1) l'
  end.

(* at least n bytes are left *)
Fixpoint has_bytes (n : Z) (l : list Z) : bool :=
  match l with
  | [] => n <=? 0
  | x :: l' => if n <=? 0 then true else has_bytes (n - 1) l'
  end.

Definition IN_IGNORED_BIT : Z := 15.     (* 0x00008000 *)
Definition IN_ONESHOT_BIT : Z := 31.     (* 0x80000000 *)

(* ---------- objects ---------- *)

Inductive termst : Type :=
| TUninit        (* never written since malloc: whatever the allocator left (0xAA.. in the harness) *)
| TNull
| TLocal.        (* (void ** )&this of the running iv_inotify_got_event *)

Record inst := { i_watches : list (Z * id); i_term : termst }.

Record watch := { w_inst : id; w_wd : Z; w_mask : Z }.

Record state := {
  itab : id -> option inst;        (* allocated (= registered) instance structs *)
  wtab : id -> option watch;       (* allocated watch structs *)
  frame : option (option id);      (* None: no got_event running; Some x: its local `this` (None = NULL) *)
}.

Definition upd {A : Type} (m : id -> option A) (k : id) (v : option A) : id -> option A :=
  fun k' => if Pos.eqb k' k then v else m k'.

Definition init : state :=
  {| itab := fun _ => None; wtab := fun _ => None; frame := None |}.

Definition set_itab (s : state) (m : id -> option inst) : state :=
  {| itab := m; wtab := wtab s; frame := frame s |}.
Definition set_wtab (s : state) (m : id -> option watch) : state :=
  {| itab := itab s; wtab := m; frame := frame s |}.
Definition set_frame (s : state) (f : option (option id)) : state :=
  {| itab := itab s; wtab := wtab s; frame := f |}.

Definition set_inst (s : state) (i : id) (ir : inst) : state := set_itab s (upd (itab s) i (Some ir)).
Definition set_watch (s : state) (w : id) (wr : watch) : state := set_wtab s (upd (wtab s) w (Some wr)).

Definition live (s : state) (i : id) : bool :=
  match itab s i with Some _ => true | None => false end.
Definition allocated (s : state) (w : id) : bool :=
  match wtab s w with Some _ => true | None => false end.

(* free(w) *)
Definition free_watch (s : state) (w : id) : state := set_wtab s (upd (wtab s) w None).

(* free(i), and free of every watch struct that still belongs to it (they can
   no longer be used with any API call) *)
Definition free_instance (s : state) (i : id) : state :=
  {| itab := upd (itab s) i None;
     wtab := fun w => match wtab s w with
                      | Some wr => if Pos.eqb (w_inst wr) i then None else Some wr
                      | None => None
                      end;
     frame := frame s |}.

(* ---------- the watch set (AVL tree keyed by wd) ---------- *)

(* __find_watch: descent by comparison with the keys *)
Fixpoint find_watch (l : list (Z * id)) (wd : Z) : option id :=
  match l with
  | [] => None
  | (k, w) :: l' =>
      if wd =? k then Some w
      else if wd <? k then None
      else find_watch l' wd
  end.

(* iv_avl_tree_insert with __iv_inotify_watch_compare: None = -1 (duplicate wd) *)
Fixpoint tree_insert (l : list (Z * id)) (wd : Z) (w : id) : option (list (Z * id)) :=
  match l with
  | [] => Some [(wd, w)]
  | (k, x) :: l' =>
      if wd =? k then None
      else if wd <? k then Some ((wd, w) :: l)
      else match tree_insert l' wd w with
           | Some r => Some ((k, x) :: r)
           | None => None
           end
  end.

(* iv_avl_tree_delete(&watches, &w->an): None = the node is not in this tree
   (the C code would corrupt the tree) *)
Fixpoint tree_delete (l : list (Z * id)) (w : id) : option (list (Z * id)) :=
  match l with
  | [] => None
  | (k, x) :: l' =>
      if Pos.eqb x w then Some l'
      else match tree_delete l' w with
           | Some r => Some ((k, x) :: r)
           | None => None
           end
  end.

(* ---------- outcomes ---------- *)

Inductive outcome : Type :=
| Ok (s : state)
| Fatal              (* iv_fatal: read returned 0 or an error other than EINTR / EAGAIN *)
| UseAfterFree       (* a freed instance or watch struct is read or written *)
| WildWrite          (* *this->term = NULL through an uninitialised or dangling ->term *)
| BadDelete          (* iv_avl_tree_delete of a node that is not in the tree *)
| Truncated          (* a record header or name extends past the bytes read() returned *)
| Misaligned         (* struct inotify_event accessed at an address that is not a multiple of 4 *)
| Crash.             (* out of model: fuel, loop entered without a frame *)

(* ---------- the API functions ---------- *)

Definition poison32 : Z := -1431655766.      (* 0xAAAAAAAA as int *)

(* malloc + memset 0xAA of a struct iv_inotify: ->term is uninitialised.
   (->watches is uninitialised as well; INIT_IV_AVL_TREE overwrites it before
   any read, so the list is shown empty.) *)
Definition fresh_inst : inst := {| i_watches := []; i_term := TUninit |}.

(* iv_inotify_register(this) on a fresh struct; init_ok = inotify_init() succeeded *)
Definition instance_register (s : state) (i : id) (init_ok : bool) : state * Z :=
  if negb init_ok then (s, -1) else
  let ir := fresh_inst in
  (* IV_FD_INIT; fd.fd = fd; fd.cookie = this; fd.handler_in = iv_inotify_got_event; iv_fd_register *)
  let ir := {| i_watches := []; i_term := i_term ir |} in            (* INIT_IV_AVL_TREE *)
  let ir := {| i_watches := i_watches ir; i_term := TNull |} in      (* this->term = NULL;  (fix 93a6820) *)
  (set_inst s i ir, 0).

(* iv_inotify_unregister(this) *)
Definition instance_unregister (s : state) (i : id) : outcome :=
  match itab s i with
  | None => UseAfterFree
  | Some ir =>
      (* iv_fd_unregister(&this->fd); close(this->fd.fd); *)
      match i_term ir with
      | TUninit => WildWrite
      | TNull => Ok s
      | TLocal =>
          match frame s with
          | Some _ => Ok (set_frame s (Some None))       (* *this->term = NULL *)
          | None => WildWrite                             (* the frame is gone: dangling stack pointer *)
          end
      end
  end.

(* iv_inotify_watch_register(w); wdret = what inotify_add_watch returns *)
Definition watch_register (s : state) (w : id) (wdret : Z) : outcome * Z :=
  match wtab s w with
  | None => (UseAfterFree, 0)
  | Some wr =>
      match itab s (w_inst wr) with
      | None => (UseAfterFree, 0)                         (* inotify->fd.fd *)
      | Some ir =>
          let s1 := set_watch s w {| w_inst := w_inst wr; w_wd := wdret; w_mask := w_mask wr |} in
          if wdret =? -1 then (Ok s1, -1) else
          match tree_insert (i_watches ir) wdret w with
          | None => (Ok s1, -1)
          | Some l => (Ok (set_inst s1 (w_inst wr) {| i_watches := l; i_term := i_term ir |}), 0)
          end
      end
  end.

(* iv_inotify_watch_unregister(w) *)
Definition watch_unregister (s : state) (w : id) : outcome :=
  match wtab s w with
  | None => UseAfterFree
  | Some wr =>
      match itab s (w_inst wr) with
      | None => UseAfterFree                              (* inotify->fd.fd *)
      | Some ir =>
          (* inotify_rm_watch(inotify->fd.fd, w->wd); *)
          match tree_delete (i_watches ir) w with
          | None => BadDelete
          | Some l => Ok (set_inst s (w_inst wr) {| i_watches := l; i_term := i_term ir |})
          end
      end
  end.

(* ---------- actions (top level and in handler scripts) ---------- *)

Inductive act : Type :=
| ARegI (i : id) (init_ok : bool)               (* malloc+poison an instance, iv_inotify_register; free it when rc = -1 *)
| AUnregI (i : id)                              (* iv_inotify_unregister, then free it and its watches *)
| ARegW (w : id) (i : id) (wd : Z) (mask : Z)   (* malloc+poison a watch, iv_inotify_watch_register (add_watch returns wd); free it when rc = -1 *)
| AUnregW (w : id).                             (* iv_inotify_watch_unregister, then free *)

(* scripts: watch id -> event cookie -> actions of the handler *)
Definition scripts := id -> Z -> list act.

(* rc: 0 done, 1 skipped by a guard, -1 the library call returned -1 *)
Definition do_act (s : state) (a : act) : outcome * Z :=
  match a with
  | ARegI i ok =>
      if live s i then (Ok s, 1) else
      let '(s1, rc) := instance_register s i ok in (Ok s1, rc)
  | AUnregI i =>
      if negb (live s i) then (Ok s, 1) else
      match instance_unregister s i with
      | Ok s1 => (Ok (free_instance s1 i), 0)
      | o => (o, 0)
      end
  | ARegW w i wd m =>
      if allocated s w || negb (live s i) then (Ok s, 1) else
      let s1 := set_watch s w {| w_inst := i; w_wd := poison32; w_mask := m |} in
      match watch_register s1 w wd with
      | (Ok s2, rc) => if rc =? 0 then (Ok s2, 0) else (Ok (free_watch s2 w), rc)
      | (o, _) => (o, 0)
      end
  | AUnregW w =>
      if negb (allocated s w) then (Ok s, 1) else
      match watch_unregister s w with
      | Ok s1 => (Ok (free_watch s1 w), 0)
      | o => (o, 0)
      end
  end.

Fixpoint do_acts (s : state) (l : list act) : outcome * list (act * Z) :=
  match l with
  | [] => (Ok s, [])
  | a :: l' =>
      let '(o, rc) := do_act s a in
      match o with
      | Ok s' => let '(o', lg) := do_acts s' l' in (o', (a, rc) :: lg)
      | bad => (bad, [(a, rc)])
      end
  end.

(* ---------- iv_inotify_got_event ---------- *)

(* what the harness' watch handler observes and prints *)
Record delivery := {
  d_w : id;                            (* the watch whose handler runs *)
  d_wd : Z; d_mask : Z; d_cookie : Z; d_name : list Z;     (* the struct inotify_event it is given *)
  d_wmask : Z;                         (* w->mask *)
  d_entry : list (Z * id);             (* the instance's watch set at handler entry *)
  d_acts : list (act * Z);             (* script actions with their rc *)
  d_exit : option (list (Z * id));     (* the watch set at handler exit; None = instance unregistered in this read *)
}.

Definition watches_of (s : state) (i : id) : option (list (Z * id)) :=
  match itab s i with Some ir => Some (i_watches ir) | None => None end.

Definition exit_view (s : state) : option (list (Z * id)) :=
  match frame s with
  | Some (Some i) => watches_of s i
  | _ => None
  end.

(* the body of the while loop for one record, up to and including the handler call *)
Definition deliver_one (sc : scripts) (s : state) (i : id) (ir : inst)
           (wd mask cookie : Z) (name : list Z) : outcome * list delivery :=
  match find_watch (i_watches ir) wd with
  | None => (Ok s, [])
  | Some w =>
      match wtab s w with
      | None => (UseAfterFree, [])                     (* w->mask *)
      | Some wr =>
          let dropped := Z.testbit mask IN_IGNORED_BIT || Z.testbit (w_mask wr) IN_ONESHOT_BIT in
          let r := if dropped
                   then match tree_delete (i_watches ir) w with
                        | Some l => Some (set_inst s i {| i_watches := l; i_term := i_term ir |})
                        | None => None
                        end
                   else Some s in
          match r with
          | None => (BadDelete, [])
          | Some s1 =>
              (* w->handler(w->cookie, event): the harness handler *)
              let entry := match watches_of s1 i with Some l => l | None => [] end in
              let s2 := if dropped then free_watch s1 w else s1 in
              let '(o, lg) := do_acts s2 (sc w cookie) in
              let mk := fun x => {| d_w := w; d_wd := wd; d_mask := mask; d_cookie := cookie; d_name := name;
                                    d_wmask := w_mask wr; d_entry := entry; d_acts := lg; d_exit := x |} in
              match o with
              | Ok s3 => (Ok s3, [mk (exit_view s3)])
              | bad => (bad, [mk None])
              end
          end
      end
  end.

(* while (curr < end) { ... }   rest = the bytes from curr to end; al = curr is 4-byte aligned
   (event_queue itself is: an array of >= 16 bytes has 16-byte alignment in the x86-64 ABI) *)
Fixpoint loop (fuel : nat) (sc : scripts) (s : state) (al : bool) (rest : list Z) : outcome * list delivery :=
  match rest with
  | [] => (Ok s, [])
  | _ :: _ =>
      match fuel with
      | O => (Crash, [])
      | S f =>
          if negb al then (Misaligned, []) else
          match frame s with
          | Some (Some i) =>
              match itab s i with
              | None => (UseAfterFree, [])                      (* this->watches.root *)
              | Some ir =>
                  match parse_header rest with
                  | None => (Truncated, [])
                  | Some (wd, mask, cookie, len, after) =>
                      if negb (has_bytes len after) then (Truncated, []) else
                      match deliver_one sc s i ir wd mask cookie (ztake len after) with
                      | (Ok s3, tr1) =>
                          let rest' := zskip (len + 16) rest in   (* curr += event->len + sizeof( *event) *)
                          match frame s3 with
                          | Some None => (Ok s3, tr1)             (* if (this == NULL) break; *)
                          | _ => let '(o, tr2) := loop f sc s3 (len mod 4 =? 0) rest' in (o, tr1 ++ tr2)
                          end
                      | bad => bad
                      end
                  end
              end
          | _ => (Crash, [])
          end
      end
  end.

(* results of successive read() calls on the inotify descriptor *)
Inductive readres : Type :=
| REintr                       (* -1, errno = EINTR *)
| RAgain                       (* -1, errno = EAGAIN *)
| RErr                         (* -1, any other errno *)
| RData (buf : list Z).        (* the bytes available; read copies at most 65536 *)

(* do { ret = read(...) } while (ret == -1 && errno == EINTR); *)
Fixpoint do_read (rs : list readres) : readres :=
  match rs with
  | [] => RAgain                 (* script exhausted: nothing to read *)
  | REintr :: rs' => do_read rs'
  | r :: _ => r
  end.

Definition QUEUE_SIZE : Z := 65536.

Definition set_term (s : state) (i : id) (t : termst) : outcome :=
  match itab s i with
  | None => UseAfterFree
  | Some ir => Ok (set_inst s i {| i_watches := i_watches ir; i_term := t |})
  end.

Definition got_event (sc : scripts) (s : state) (i : id) (rs : list readres) : outcome * list delivery :=
  match itab s i with
  | None => (UseAfterFree, [])                         (* this->fd.fd *)
  | Some _ =>
      match do_read rs with
      | REintr => (Ok s, [])                           (* not returned by do_read *)
      | RAgain => (Ok s, [])
      | RErr => (Fatal, [])
      | RData buf =>
          let q := ztake QUEUE_SIZE buf in
          match q with
          | [] => (Fatal, [])                          (* ret == 0 *)
          | _ :: _ =>
              match set_term s i TLocal with           (* this->term = (void ** )&this; *)
              | Ok s0 =>
                  let s1 := set_frame s0 (Some (Some i)) in
                  let '(o, tr) := loop (length q) sc s1 true q in
                  match o with
                  | Ok s2 =>
                      match frame s2 with
                      | Some (Some j) =>               (* if (this != NULL) this->term = NULL; *)
                          match set_term s2 j TNull with
                          | Ok s3 => (Ok (set_frame s3 None), tr)
                          | bad => (bad, tr)
                          end
                      | Some None => (Ok (set_frame s2 None), tr)
                      | None => (Crash, tr)
                      end
                  | bad => (bad, tr)
                  end
              | bad => (bad, [])
              end
          end
      end
  end.

(* ---------- top-level operations of a C20 case ---------- *)

Inductive op : Type :=
| OAct (a : act)
| OFeed (i : id) (rs : list readres).      (* this->fd.handler_in(this->fd.cookie) with scripted reads *)

Definition step (sc : scripts) (s : state) (o : op) : outcome * Z * list delivery :=
  match o with
  | OAct a => let '(r, rc) := do_act s a in (r, rc, [])
  | OFeed i rs =>
      if negb (live s i) then (Ok s, 1, []) else
      let '(r, tr) := got_event sc s i rs in (r, 0, tr)
  end.

Fixpoint run_ops (sc : scripts) (s : state) (ops : list op) : outcome * list (Z * list delivery) :=
  match ops with
  | [] => (Ok s, [])
  | o :: ops' =>
      let '(r, rc, tr) := step sc s o in
      match r with
      | Ok s' => let '(r', lg) := run_ops sc s' ops' in (r', (rc, tr) :: lg)
      | bad => (bad, [(rc, tr)])
      end
  end.

(* dump compared with the implementation after every op: the watch set of an instance *)
Definition dump (s : state) (i : id) : option (list (Z * id)) := watches_of s i.
