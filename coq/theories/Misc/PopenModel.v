(* PopenModel.v -- iv_popen.c (property C19) over the abstractions of iv_wait (C11: interest with DEAD flag and
   event queue, kill helper) and of the timers (C04: a registered timer with an expiry).
   Part 1: a sequential model of ONE request and its running-child record, written after the C text
   (iv_popen_request_submit / _close, iv_popen_running_child_wait, iv_popen_running_child_timer), driven by an
   environment oracle: the child changes state whenever it likes (at once, on a signal, between two signals,
   stop / continue noise), the SIGCHLD reaper (any thread) runs whenever, the owner loop runs an expired
   signal_timer or a pending completion in any order, time advances, the user closes the request.
   Places where the C code would abort or touch freed memory are explicit errors (p_err).
   Part 2: the observable labels (close, kill, reap, loop exit) and the acceptor/monitor `pcheck` run on
   implementation logs.  Part 3: the child-side descriptor script of iv_popen_child as a transcription.
   No proofs in this file. *)
From Coq Require Import List ZArith Bool.
Import ListNotations.
Local Open Scope Z_scope.

Definition SIGTERM : Z := 15.
Definition SIGKILL : Z := 9.
Definition MAX_SIGTERM_COUNT : Z := 5.
Definition INTERVAL : Z := 5000000000.          (* SIGNAL_INTERVAL = 5 s, in ns *)

(* exited or killed (WIFEXITED / WIFSIGNALED): low seven bits are not 0x7f *)
Definition is_dead (st : Z) : bool := negb (st mod 128 =? 127).

Inductive kid := Alive | Zombie | Reaped.       (* kernel view: running / terminated, not reaped / reaped (pid gone) *)
Inductive perr := FatalTimerUnregister | UseAfterFree | DoubleFree.

(* observable events (the harness logs them) *)
Inductive plabel :=
| PClose (now : Z)                 (* iv_popen_request_close returned; iv_now *)
| PKill (sig now : Z)              (* kill(pid, sig) performed at iv_now *)
| PReap (st : Z)                   (* wait4 returned (pid, st) *)
| PExit (nobjs : Z).               (* the owner's iv_main returned with this many objects registered *)

Record pstate := {
  p_rec : bool;                    (* struct iv_popen_running_child allocated *)
  p_parent : bool;                 (* ch->parent != NULL: request not closed *)
  p_reqchild : bool;               (* this->child != NULL (field of the request, valid while p_parent) *)
  p_timer : option Z;              (* signal_timer registered, with its expiry *)
  p_kills : Z;                     (* num_kills *)
  p_wait_reg : bool;               (* ch->wait registered *)
  p_dead : bool;                   (* IV_WAIT_STATUS_DEAD *)
  p_queue : list Z;                (* events pending for ch->wait *)
  p_kid : kid;
  p_kpend : list Z;                (* status changes the kernel has not reported yet *)
  p_now : Z;
  p_frees : Z;                     (* free(ch) count *)
  p_err : option perr;
  p_log : list plabel              (* ghost: observable events, newest first *)
}.

Definition submitted (now : Z) : pstate :=
  {| p_rec := true; p_parent := true; p_reqchild := true; p_timer := None; p_kills := 0; p_wait_reg := true;
     p_dead := false; p_queue := []; p_kid := Alive; p_kpend := []; p_now := now; p_frees := 0; p_err := None; p_log := [] |}.

(* loop objects held on behalf of this child: the wait interest's iv_event and the timer *)
Definition objs (s : pstate) : Z := (if p_wait_reg s then 1 else 0) + (match p_timer s with Some _ => 1 | None => 0 end).

Definition fail (s : pstate) (e : perr) : pstate :=
  {| p_rec := p_rec s; p_parent := p_parent s; p_reqchild := p_reqchild s; p_timer := p_timer s; p_kills := p_kills s;
     p_wait_reg := p_wait_reg s; p_dead := p_dead s; p_queue := p_queue s; p_kid := p_kid s; p_kpend := p_kpend s;
     p_now := p_now s; p_frees := p_frees s; p_err := Some e; p_log := p_log s |}.

(* free(ch) preceded by iv_wait_interest_unregister(&ch->wait) *)
Definition unregister_and_free (s : pstate) (timer' : option Z) (reqchild' : bool) : pstate :=
  {| p_rec := false; p_parent := p_parent s; p_reqchild := reqchild'; p_timer := timer'; p_kills := p_kills s;
     p_wait_reg := false; p_dead := p_dead s; p_queue := []; p_kid := p_kid s; p_kpend := p_kpend s;
     p_now := p_now s; p_frees := p_frees s + 1; p_err := if p_rec s then None else Some DoubleFree; p_log := p_log s |}.

(* iv_popen_running_child_wait(ch, status) *)
Definition wait_handler (s : pstate) (st : Z) : pstate :=
  if negb (p_rec s) then fail s UseAfterFree
  else if negb (is_dead st) then s
  else if p_parent s then unregister_and_free s (p_timer s) false            (* ch->parent->child = NULL *)
  else match p_timer s with
       | Some _ => unregister_and_free s None (p_reqchild s)                  (* iv_timer_unregister(&ch->signal_timer) *)
       | None => fail s FatalTimerUnregister
       end.

(* iv_wait_completion: steal the queue, call the handler while the interest is still registered *)
Fixpoint deliver (s : pstate) (evs : list Z) : pstate :=
  match evs with
  | [] => s
  | st :: r => if p_wait_reg s then deliver (wait_handler s st) r else s
  end.

Definition completion (s : pstate) : pstate :=
  if p_wait_reg s then
    deliver {| p_rec := p_rec s; p_parent := p_parent s; p_reqchild := p_reqchild s; p_timer := p_timer s; p_kills := p_kills s;
               p_wait_reg := true; p_dead := p_dead s; p_queue := []; p_kid := p_kid s; p_kpend := p_kpend s;
               p_now := p_now s; p_frees := p_frees s; p_err := p_err s; p_log := p_log s |} (p_queue s)
  else s.

(* iv_popen_running_child_timer(ch): the timer has expired (the core took it off the heap) *)
Definition timer_handler (s : pstate) : pstate :=
  if negb (p_rec s) then fail s UseAfterFree
  else
    let sig := if p_kills s <? MAX_SIGTERM_COUNT then SIGTERM else SIGKILL in
    let k := p_kills s + 1 in
    if p_dead s then
      (* iv_wait_interest_kill returns -ESRCH without calling kill *)
      unregister_and_free {| p_rec := true; p_parent := p_parent s; p_reqchild := p_reqchild s; p_timer := None; p_kills := k;
                             p_wait_reg := p_wait_reg s; p_dead := true; p_queue := p_queue s; p_kid := p_kid s;
                             p_kpend := p_kpend s; p_now := p_now s; p_frees := p_frees s; p_err := p_err s; p_log := p_log s |}
                          None (p_reqchild s)
    else
      {| p_rec := true; p_parent := p_parent s; p_reqchild := p_reqchild s; p_timer := Some (p_now s + INTERVAL); p_kills := k;
         p_wait_reg := p_wait_reg s; p_dead := false; p_queue := p_queue s; p_kid := p_kid s; p_kpend := p_kpend s;
         p_now := p_now s; p_frees := p_frees s; p_err := p_err s; p_log := PKill sig (p_now s) :: p_log s |}.

(* iv_popen_request_close(this) *)
Definition close (s : pstate) : pstate :=
  if p_parent s then
    if p_reqchild s then
      if negb (p_rec s) then fail s UseAfterFree
      else {| p_rec := true; p_parent := false; p_reqchild := true; p_timer := Some (p_now s); p_kills := 0;
              p_wait_reg := p_wait_reg s; p_dead := p_dead s; p_queue := p_queue s; p_kid := p_kid s; p_kpend := p_kpend s;
              p_now := p_now s; p_frees := p_frees s; p_err := p_err s; p_log := PClose (p_now s) :: p_log s |}
    else {| p_rec := p_rec s; p_parent := false; p_reqchild := false; p_timer := p_timer s; p_kills := p_kills s;
            p_wait_reg := p_wait_reg s; p_dead := p_dead s; p_queue := p_queue s; p_kid := p_kid s; p_kpend := p_kpend s;
            p_now := p_now s; p_frees := p_frees s; p_err := p_err s; p_log := PClose (p_now s) :: p_log s |}
  else s.

(* one round of iv_wait_got_sigchld for this pid *)
Definition reap1 (s : pstate) (st : Z) : pstate :=
  let intree := p_wait_reg s && negb (p_dead s) in
  {| p_rec := p_rec s; p_parent := p_parent s; p_reqchild := p_reqchild s; p_timer := p_timer s; p_kills := p_kills s;
     p_wait_reg := p_wait_reg s; p_dead := p_dead s || (intree && is_dead st);
     p_queue := if intree then p_queue s ++ [st] else p_queue s;
     p_kid := if is_dead st then Reaped else p_kid s; p_kpend := p_kpend s;
     p_now := p_now s; p_frees := p_frees s; p_err := p_err s; p_log := PReap st :: p_log s |}.

Definition reap_all (s : pstate) : pstate :=
  let s' := fold_left reap1 (p_kpend s) s in
  {| p_rec := p_rec s'; p_parent := p_parent s'; p_reqchild := p_reqchild s'; p_timer := p_timer s'; p_kills := p_kills s';
     p_wait_reg := p_wait_reg s'; p_dead := p_dead s'; p_queue := p_queue s'; p_kid := p_kid s'; p_kpend := [];
     p_now := p_now s'; p_frees := p_frees s'; p_err := p_err s'; p_log := p_log s' |}.

Inductive env :=
| EChild (st : Z)        (* the child changes state (terminates if st is a terminating status) *)
| EReap                  (* the SIGCHLD reaper of some thread runs *)
| ECompletion            (* the owner loop runs the wait interest's completion *)
| ETimer                 (* the owner loop runs the signal_timer if it has expired *)
| EAdvance (dt : Z)
| EClose.                (* the user closes the request *)

Definition child_change (s : pstate) (st : Z) : pstate :=
  match p_kid s with
  | Alive =>
      {| p_rec := p_rec s; p_parent := p_parent s; p_reqchild := p_reqchild s; p_timer := p_timer s; p_kills := p_kills s;
         p_wait_reg := p_wait_reg s; p_dead := p_dead s; p_queue := p_queue s;
         p_kid := if is_dead st then Zombie else Alive; p_kpend := p_kpend s ++ [st];
         p_now := p_now s; p_frees := p_frees s; p_err := p_err s; p_log := p_log s |}
  | _ => s
  end.

Definition advance (s : pstate) (dt : Z) : pstate :=
  {| p_rec := p_rec s; p_parent := p_parent s; p_reqchild := p_reqchild s; p_timer := p_timer s; p_kills := p_kills s;
     p_wait_reg := p_wait_reg s; p_dead := p_dead s; p_queue := p_queue s; p_kid := p_kid s; p_kpend := p_kpend s;
     p_now := p_now s + Z.max 0 dt; p_frees := p_frees s; p_err := p_err s; p_log := p_log s |}.

Definition estep (s : pstate) (e : env) : pstate :=
  match p_err s with
  | Some _ => s
  | None =>
      match e with
      | EChild st => child_change s st
      | EReap => reap_all s
      | ECompletion => match p_queue s with [] => s | _ => completion s end
      | ETimer => match p_timer s with
                  | Some ex => if ex <=? p_now s then timer_handler s else s
                  | None => s
                  end
      | EAdvance dt => advance s dt
      | EClose => close s
      end
  end.

Definition erun (s : pstate) (o : list env) : pstate := fold_left estep o s.

(* ------------------------------------------------------------------------------------------------
   Part 2: acceptor / monitor on the observable events of one child.  strict = the scenario does not
   disturb the clock, so every signal goes out exactly when it is due. *)
Inductive cphase :=
| COpen (dead : bool)              (* request open; dead: the termination has been reaped *)
| CClosing (due kills : Z)         (* closed, termination not reaped: next signal due, signals sent so far *)
| CDone.                           (* closed and the termination is reaped: no signal may follow *)

Definition expected_sig (kills : Z) : Z := if kills <? MAX_SIGTERM_COUNT then SIGTERM else SIGKILL.

Definition pstep (strict : bool) (c : cphase) (l : plabel) : option cphase :=
  match c, l with
  | COpen false, PReap st => Some (COpen (is_dead st))
  | COpen true, PReap _ => None                       (* nothing is reported for a reaped pid *)
  | COpen false, PClose now => Some (CClosing now 0)
  | COpen true, PClose _ => Some CDone
  | COpen _, PKill _ _ => None                        (* no signal before close *)
  | COpen _, PExit n => if n =? 0 then Some c else None
  | CClosing due k, PKill sig now =>
      if (if strict then due =? now else due <=? now) && (sig =? expected_sig k)
      then Some (CClosing (now + INTERVAL) (k + 1)) else None
  | CClosing due k, PReap st => if is_dead st then Some CDone else Some c
  | CClosing _ _, PClose _ => None
  | CClosing _ _, PExit _ => None                     (* the loop cannot exit while the child is being signalled *)
  | CDone, PKill _ _ => None                          (* no signal after the reaped termination *)
  | CDone, PReap _ => None
  | CDone, PClose _ => None
  | CDone, PExit n => if n =? 0 then Some CDone else None
  end.

Fixpoint prun (strict : bool) (c : cphase) (ls : list plabel) : option cphase :=
  match ls with
  | [] => Some c
  | l :: r => match pstep strict c l with Some c' => prun strict c' r | None => None end
  end.

Definition pcheck (strict : bool) (ls : list plabel) : bool :=
  match prun strict (COpen false) ls with Some _ => true | None => false end.

Fixpoint pcheck_pos (strict : bool) (c : cphase) (ls : list plabel) (k : nat) : option nat :=
  match ls with
  | [] => None
  | l :: r => match pstep strict c l with Some c' => pcheck_pos strict c' r (S k) | None => Some k end
  end.

(* end of a run that came to rest (QUIESCENT / complete): a closed request must have been finished *)
Definition pfinal (strict : bool) (ls : list plabel) : bool :=
  match prun strict (COpen false) ls with
  | Some (CClosing _ _) => false
  | Some _ => true
  | None => false
  end.

(* ------------------------------------------------------------------------------------------------
   Part 3: the descriptor wiring of iv_popen_request_submit (parent) and iv_popen_child (child), as a script
   over a descriptor table.  pr / pw = data_pipe[0] / [1], dn = the descriptor open("/dev/null") returned. *)
Inductive endp := Inherited (fd : Z) | PipeR | PipeW | DevNull.

Definition tab := Z -> option endp.
Definition tset (t : tab) (fd : Z) (v : option endp) : tab := fun x => if x =? fd then v else t x.
Definition dup2 (t : tab) (a b : Z) : tab := tset t b (t a).
Definition tclose (t : tab) (a : Z) : tab := tset t a None.

Definition after_pipe (pr pw : Z) : tab :=
  fun x => if x =? pr then Some PipeR else if x =? pw then Some PipeW
           else if (0 <=? x) && (x <=? 2) then Some (Inherited x) else None.

Definition child_script (for_read : bool) (pr pw dn : Z) : tab :=
  let t0 := tset (after_pipe pr pw) dn (Some DevNull) in
  let t1 := if for_read then dup2 (dup2 (dup2 t0 dn 0) pw 1) dn 2
            else dup2 (dup2 (dup2 t0 pr 0) dn 1) dn 2 in
  tclose (tclose (tclose t1 pr) pw) dn.

Definition parent_script (for_read : bool) (pr pw : Z) : Z * tab :=
  if for_read then (pr, tclose (after_pipe pr pw) pw) else (pw, tclose (after_pipe pr pw) pr).
