(* InotifySpec.v -- definitions used by the statements of property C20.
   Definitions only. *)
From Coq Require Import List ZArith Bool Sorted.
From Ivv Require Import Misc.InotifyModel Misc.InotifyMonitor.
Import ListNotations.
Local Open Scope Z_scope.

(* ---------- what a read() of an inotify descriptor contains ----------
   The kernel returns whole records only.  What the model's parser assumes of
   each record: wd is an int, mask and cookie are uint32_t, `len` is exactly
   the number of name bytes that follow (it fits a uint32_t) and is a multiple
   of 4 (the kernel pads names to a multiple of 16), so that the next record
   is aligned.  Nothing is assumed about the name bytes themselves. *)
Record wf_event (e : event) : Prop := {
  wf_wd : -2147483648 <= e_wd e < 2147483648;
  wf_mask : 0 <= e_mask e < 4294967296;
  wf_cookie : 0 <= e_cookie e < 4294967296;
  wf_len : zlength (e_name e) < 4294967296;
  wf_align : zlength (e_name e) mod 4 = 0;
}.

(* the parser of iv_inotify_got_event without the dispatch: same primitives
   (parse_header, has_bytes, ztake, zskip), same advance by len + 16 *)
Fixpoint decode (fuel : nat) (l : list Z) : option (list event) :=
  match l with
  | [] => Some []
  | _ :: _ =>
      match fuel with
      | O => None
      | S f =>
          match parse_header l with
          | None => None
          | Some (wd, mask, cookie, len, after) =>
              if negb (has_bytes len after) then None else
              match decode f (zskip (len + 16) l) with
              | Some evs => Some ({| e_wd := wd; e_mask := mask; e_cookie := cookie; e_name := ztake len after |} :: evs)
              | None => None
              end
          end
      end
  end.

(* ---------- the state invariant ---------- *)
Definition term_of_frame (f : option (option id)) (i : id) : termst :=
  match f with
  | Some (Some j) => if Pos.eqb j i then TLocal else TNull
  | _ => TNull
  end.

Record Inv (s : state) : Prop := {
  (* the watch set of every instance is strictly ordered by wd, one entry per watch *)
  inv_sorted : forall i ir, itab s i = Some ir -> StronglySorted Z.lt (map fst (i_watches ir));
  inv_nodup : forall i ir, itab s i = Some ir -> NoDup (map snd (i_watches ir));
  (* every entry is an allocated watch of this instance with this wd *)
  inv_tree_w : forall i ir wd w, itab s i = Some ir -> In (wd, w) (i_watches ir) ->
               exists m, wtab s w = Some {| w_inst := i; w_wd := wd; w_mask := m |};
  (* every allocated watch is registered: in the set of its live instance *)
  inv_w_tree : forall w wr, wtab s w = Some wr ->
               exists ir, itab s (w_inst wr) = Some ir /\ In (w_wd wr, w) (i_watches ir);
  (* ->term is never uninitialised; it points to a frame exactly while that frame runs for this instance *)
  inv_term : forall i ir, itab s i = Some ir -> i_term ir = term_of_frame (frame s) i;
  inv_frame : forall i, frame s = Some (Some i) -> itab s i <> None;
  (* -1, the failure value of inotify_add_watch and the wd of queue-overflow events, is the key of no watch *)
  inv_wd : forall i ir w, itab s i = Some ir -> ~ In (-1, w) (i_watches ir);
}.

(* ---------- routing, stated on events (not bytes) ---------- *)

(* the watch registered on instance i under wd *)
Definition reg_of (s : state) (i : id) (wd : Z) : option id :=
  match watches_of s i with
  | Some l => lookup l wd
  | None => None
  end.

(* the library drops watch w from the set of i; the handler (entered next) frees the struct *)
Definition drop_watch (s : state) (i w : id) : state :=
  match itab s i with
  | Some ir =>
      free_watch (set_inst s i {| i_watches := filter (fun p => negb (Pos.eqb (snd p) w)) (i_watches ir);
                                  i_term := i_term ir |}) w
  | None => s
  end.

(* routed sc i s evs tr s': dispatching the events evs of ONE read for instance
   i from state s runs exactly the handler calls tr and ends in s':
     - an event whose wd is not registered on i at that moment is delivered to nobody;
     - an event whose wd is registered goes to exactly the watch registered under
       it at that moment, with the event's own fields; if the event carries
       IN_IGNORED or the watch is one-shot the watch is out of the set (and may be
       freed) before the handler's script runs;
     - once a handler unregistered instance i the remaining events are dropped. *)
(* one handler call: event e of a read for instance i, in state s, reaches watch w;
   d is what the handler observes, s2 the state when it returns *)
Definition handled (sc : scripts) (i : id) (s : state) (e : event) (d : delivery) (s2 : state) : Prop :=
  exists w wr s1,
    reg_of s i (e_wd e) = Some w /\
    wtab s w = Some wr /\
    s1 = (if is_dropped (e_mask e) (w_mask wr) then drop_watch s i w else s) /\
    do_acts s1 (sc w (e_cookie e)) = (Ok s2, d_acts d) /\
    d_w d = w /\ d_wd d = e_wd e /\ d_mask d = e_mask e /\ d_cookie d = e_cookie e /\ d_name d = e_name e /\
    d_wmask d = w_mask wr /\
    d_entry d = (match watches_of s1 i with Some l => l | None => [] end) /\
    d_exit d = (if unreg_inst i (d_acts d) then None else watches_of s2 i).

Inductive routed (sc : scripts) (i : id) : state -> list event -> list delivery -> state -> Prop :=
| R_nil : forall s, routed sc i s [] [] s
| R_skip : forall s e evs tr s',
    reg_of s i (e_wd e) = None ->
    routed sc i s evs tr s' ->
    routed sc i s (e :: evs) tr s'
| R_stop : forall s e evs d s2,
    handled sc i s e d s2 ->
    unreg_inst i (d_acts d) = true ->
    routed sc i s (e :: evs) [d] s2
| R_deliver : forall s e evs tr s' d s2,
    handled sc i s e d s2 ->
    unreg_inst i (d_acts d) = false ->
    routed sc i s2 evs tr s' ->
    routed sc i s (e :: evs) (d :: tr) s'.

(* entering / leaving iv_inotify_got_event around the loop *)
Definition enter (s : state) (i : id) (ir : inst) : state :=
  set_frame (set_inst s i {| i_watches := i_watches ir; i_term := TLocal |}) (Some (Some i)).

Definition leave (s : state) : state :=
  match frame s with
  | Some (Some j) =>
      match itab s j with
      | Some jr => set_frame (set_inst s j {| i_watches := i_watches jr; i_term := TNull |}) None
      | None => set_frame s None
      end
  | _ => set_frame s None
  end.

(* list l1 is l2 with some elements left out, order kept *)
Inductive sublist {A : Type} : list A -> list A -> Prop :=
| sub_nil : forall l, sublist [] l
| sub_keep : forall x l1 l2, sublist l1 l2 -> sublist (x :: l1) (x :: l2)
| sub_drop : forall x l1 l2, sublist l1 l2 -> sublist l1 (x :: l2).

Definition ev_of (d : delivery) : event :=
  {| e_wd := d_wd d; e_mask := d_mask d; e_cookie := d_cookie d; e_name := d_name d |}.

(* the bad outcomes that mean memory the library does not own was touched *)
Definition memory_safe (o : outcome) : Prop :=
  match o with
  | Ok _ | Fatal => True
  | _ => False
  end.

(* successful (rc 0) registration of watch w in an action log *)
Definition regs_watch (w : id) (x : act * Z) : Prop :=
  match x with
  | (ARegW w' _ _ _, rc) => w' = w /\ rc = 0
  | _ => False
  end.

(* the total size of a read *)
Definition enc_len (evs : list event) : Z := zlength (encode evs).

(* ---------- trace-level clauses ---------- *)
(* what the handler of a delivery finds: the dropped watch is out of the set, any other is in it *)
Definition drop_ok (d : delivery) : Prop :=
  if is_dropped (d_mask d) (d_wmask d)
  then ~ In (d_w d) (map snd (d_entry d))
  else In (d_wd d, d_w d) (d_entry d).

(* a watch known dead receives nothing until it is registered again *)
Definition no_reg (w : id) (t : list delivery) : Prop :=
  forall d, In d t -> forall y, In y (d_acts d) -> ~ regs_watch w y.

(* w has no registration left when the handler of d returns *)
Definition kills (d : delivery) (w : id) : Prop :=
  (is_dropped (d_mask d) (d_wmask d) = true /\ d_w d = w /\ forall y, In y (d_acts d) -> ~ regs_watch w y) \/
  (exists a1 a2, d_acts d = a1 ++ (AUnregW w, 0) :: a2 /\ forall y, In y a2 -> ~ regs_watch w y).

(* the reads that precede the one that returns something: all interrupted *)
Definition eintrs (pre : list readres) : Prop := forall r, In r pre -> r = REintr.

(* ---------- what the harness dumps after an operation ---------- *)
(* the watch sets of the live instances among ids, in that order *)
Definition dumps_of (s : state) (ids : list id) : dumps :=
  flat_map (fun i => match dump s i with Some l => [(i, l)] | None => [] end) ids.

(* what the monitor's wd -1 clauses mean for one delivery record: the event is not a queue-overflow /
   wd -1 event, the handler's registrations with a failing inotify_add_watch did not succeed, and no
   watch is registered under -1 when the handler returns *)
Definition nowd_ok (d : delivery) : Prop :=
  d_wd d <> -1 /\
  (forall w i m rc, In (ARegW w i (-1) m, rc) (d_acts d) -> rc = -1 \/ rc = 1) /\
  (forall x w, d_exit d = Some x -> ~ In (-1, w) x).

(* scripted read results of a well-formed scenario: whatever data a read returns is whole, well-formed records *)
Definition wf_readres (r : readres) : Prop :=
  match r with
  | RData buf => exists evs, buf = encode evs /\ Forall wf_event evs /\ enc_len evs <= 65536
  | _ => True
  end.

Definition wf_op (o : op) : Prop :=
  match o with
  | OFeed _ rs => Forall wf_readres rs
  | OAct _ => True
  end.
